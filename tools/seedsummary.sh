#!/bin/bash
# tools/seedsummary.sh <log>...: one block per seedcheck log: confirmation lines, first violations, verdict
for f in "$@"; do
  echo "=== $(basename "$f" .check.log)"
  grep -h "RESULT \|baseline\|demo.*rc=" "$f"
  grep -h -A1 "^VIOLATION" "$f" | grep "# \[" | cut -c1-230 | head -4
  grep -h " \(HELD\|VIOLATED\|INCONCLUSIVE\) tier=" "$f" | cut -c1-160
done
