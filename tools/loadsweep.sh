#!/bin/bash
# tools/loadsweep.sh [parallel] [burners] [seed]: every quick check, several at a time, with CPU burners
# running alongside - to expose verdicts that depend on an unloaded machine. Evidence files are not rewritten.
PAR=${1:-4}; BURN=${2:-8}; SEED=${3:-1}
cd "$(dirname "$0")/.."
pids=()
for i in $(seq 1 $BURN); do ( while :; do :; done ) & pids+=($!); done
trap 'kill "${pids[@]}" 2>/dev/null' EXIT
OUT=$(mktemp -d /var/tmp/loadsweep-XXXX)
python3 -c "import json;print('\n'.join(c['property_id'] for c in json.load(open('MANIFEST.json'))['checks']))" | \
  xargs -P $PAR -I{} sh -c "t0=\$(date +%s); VERIF_SEED=$SEED ./vcheck {} --tier quick --no-evidence > $OUT/{}.log 2>&1; rc=\$?; t1=\$(date +%s); echo \"{} rc=\$rc \$((t1-t0))s \$(grep -E ' (HELD|VIOLATED|INCONCLUSIVE) ' $OUT/{}.log | tail -1 | cut -c1-140)\"; grep -E '^(VIOLATION|INCONCLUSIVE:|  # )' $OUT/{}.log | head -6 | cut -c1-300"
echo "logs in $OUT"
