#!/bin/bash
# tools/runsome.sh <tier> <seed> <prop>...: like runall.sh for the named checks only (no evidence written)
TIER=$1; SEED=$2; shift 2
cd "$(dirname "$0")/.."
for p in "$@"; do
  t0=$(date +%s)
  out=$(VERIF_SEED=$SEED ./vcheck $p --tier $TIER --no-evidence 2>&1); rc=$?
  t1=$(date +%s)
  echo "$p rc=$rc $((t1-t0))s $(echo "$out" | grep -E ' (HELD|VIOLATED|INCONCLUSIVE) ' | tail -1 | cut -c1-150)"
  echo "$out" | grep -E '^(VIOLATION|KNOWN-FINDING|INCONCLUSIVE:|  # )' | head -6 | cut -c1-400
done
