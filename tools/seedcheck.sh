#!/bin/bash
# tools/seedcheck.sh <ID> <seed-dir> [props...]
# Confirms a seeded change (patch.diff + demo.sh in <seed-dir>) and runs the
# named property checks against it, all on scratch copies outside /repo and
# /verif (the copy is what `git -C /repo apply` would produce).
set -u
ID=$1; SEED=$2; shift 2; PROPS="$@"
export GOFLAGS=-mod=mod GOPROXY=off GOSUMDB=off GOTOOLCHAIN=local
W=$(mktemp -d /var/tmp/seedchk-$ID-XXXX)
trap 'rm -rf "$W"' EXIT
mkdir $W/clean $W/mut
git -C /repo archive HEAD | tar -x -C $W/clean
git -C /repo archive HEAD | tar -x -C $W/mut
( cd $W/mut && git init -q . && git apply --whitespace=nowarn "$SEED/patch.diff" ) || { echo "RESULT $ID patch-does-not-apply"; exit 2; }
( cd $W/clean && git init -q . )
echo "== files changed:"; grep '^+++ ' "$SEED/patch.diff"
echo "== build (tag off and on)"
cp $W/mut/go.mod $W/m.mod; cp $W/mut/go.sum $W/m.sum
( cd $W/mut && go build -modfile=$W/m.mod -ldflags=-checklinkname=0 ./... && go build -tags verif -modfile=$W/m.mod -ldflags=-checklinkname=0 ./... ) || { echo "RESULT $ID does-not-compile"; exit 2; }
echo "== pinned suite on the changed tree"
VERIF_REPO=$W/mut /verif/baseline_off.sh | tail -3
echo "== demo on changed tree"
( bash "$SEED/demo.sh" $W/mut >$W/demo-mut.log 2>&1; echo "demo changed rc=$?"; tail -3 $W/demo-mut.log )
echo "== demo on unchanged tree"
( bash "$SEED/demo.sh" $W/clean >$W/demo-clean.log 2>&1; echo "demo unchanged rc=$?"; tail -3 $W/demo-clean.log )
for p in $PROPS; do
  echo "== vcheck $p against the changed tree"
  ( cd /verif && VERIF_REPO=$W/mut ./vcheck $p --tier quick --no-evidence 2>&1 | grep -v '^built' | tail -12 )
done
