#!/usr/bin/env python3
"""tools/seedsweep.py [--jobs N] [--only S01,S02]: applies every kept seeded change (seeded/S*/patch.diff) to a scratch
export of /repo HEAD and runs the quick check of the property it breaks against it (VERIF_REPO=<copy>).
Writes seeded/RESULTS.md. CAUGHT = exit 1 with a VIOLATION line."""
import argparse, glob, json, os, re, shutil, subprocess, tempfile
import concurrent.futures as cf
VERIF = os.path.dirname(os.path.dirname(os.path.abspath(__file__)))

def one(d):
    sid = os.path.basename(d)
    meta = json.load(open(os.path.join(d, "meta.json")))
    prop = meta["breaks_property"]
    w = tempfile.mkdtemp(prefix="seedsweep-", dir="/var/tmp")
    try:
        subprocess.run("git -C /repo archive HEAD | tar -x -C %s" % w, shell=True, check=True)
        subprocess.run(["git", "init", "-q", "."], cwd=w, check=True)
        r = subprocess.run(["git", "apply", "--whitespace=nowarn", os.path.join(d, "patch.diff")], cwd=w, stdout=subprocess.PIPE, stderr=subprocess.STDOUT)
        if r.returncode != 0:
            r = subprocess.run(["git", "apply", "--whitespace=nowarn", "--3way", os.path.join(d, "patch.diff")], cwd=w, stdout=subprocess.PIPE, stderr=subprocess.STDOUT)
            if r.returncode != 0 or b"with conflicts" in r.stdout:
                return sid, prop, "NOAPPLY", "patch no longer applies to /repo HEAD (a later repair touched the same lines)"
        env = dict(os.environ, VERIF_REPO=w, GOFLAGS="-mod=mod", GOPROXY="off", GOSUMDB="off", GOTOOLCHAIN="local")
        r = subprocess.run([os.path.join(VERIF, "vcheck"), prop, "--tier", "quick", "--no-evidence"], cwd=VERIF, env=env, stdout=subprocess.PIPE, stderr=subprocess.STDOUT)
        txt = r.stdout.decode("utf-8", "replace")
        sigs = sorted(set(re.findall(r"# \[([^\]]+)\]", txt)))
        if r.returncode == 1 and "VIOLATION property=" + prop in txt:
            return sid, prop, "CAUGHT", ", ".join(sigs)[:260]
        last = txt.strip().splitlines()[-1] if txt.strip() else ""
        return sid, prop, "MISSED", "rc=%d %s" % (r.returncode, last[:200])
    finally:
        shutil.rmtree(w, ignore_errors=True)

def main():
    ap = argparse.ArgumentParser()
    ap.add_argument("--jobs", type=int, default=3)
    ap.add_argument("--only", default="")
    a = ap.parse_args()
    ds = sorted(glob.glob(os.path.join(VERIF, "seeded", "S*")))
    if a.only:
        w = set(a.only.split(","))
        ds = [d for d in ds if os.path.basename(d).split("-")[0] in w]
    res = []
    with cf.ThreadPoolExecutor(max_workers=a.jobs) as ex:
        for sid, prop, verdict, detail in ex.map(one, ds):
            print("%-8s %-4s %-60s %s" % (verdict, prop, sid, detail), flush=True)
            res.append((sid, prop, verdict, detail))
    n = {v: sum(1 for r in res if r[2] == v) for v in ("CAUGHT", "MISSED", "NOAPPLY")}
    print("%d seeds: %s" % (len(res), n))
    path = os.path.join(VERIF, "seeded", "RESULTS.md")
    rows = {}
    if a.only and os.path.exists(path):
        # a partial sweep replaces only the rows of the seeds it ran
        for line in open(path):
            m = re.match(r"\| (S\d+-\S+) \| (C\d+) \| (\w+) \| (.*) \|$", line.rstrip("\n"))
            if m:
                rows[m.group(1)] = (m.group(1), m.group(2), m.group(3), m.group(4).replace("\\|", "|"))
    for r in res:
        rows[r[0]] = r
    allr = sorted(rows.values(), key=lambda r: int(re.match(r"S(\d+)", r[0]).group(1)))
    n = {v: sum(1 for r in allr if r[2] == v) for v in ("CAUGHT", "MISSED", "NOAPPLY")}
    with open(path, "w") as f:
        f.write("# Seeded changes against the current quick checks (last sweep of each seed)\n\nEach patch is applied to a scratch export of /repo HEAD and the quick check of the property it breaks is run with VERIF_REPO=<copy>.\n\n| seed | property | verdict | signatures / last line |\n|---|---|---|---|\n")
        for sid, prop, verdict, detail in allr:
            f.write("| %s | %s | %s | %s |\n" % (sid, prop, verdict, detail.replace("|", "\\|")))
        f.write("\n%d seeds: %s\n" % (len(allr), n))

if __name__ == "__main__":
    main()
