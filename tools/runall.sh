#!/bin/bash
# tools/runall.sh [tier] [seed]: runs every claimed check once, prints verdict and wall time
TIER=${1:-quick}; SEED=${2:-1}
cd "$(dirname "$0")/.."
for p in $(python3 -c "import json;print(' '.join(c['property_id'] for c in json.load(open('MANIFEST.json'))['checks']))"); do
  t0=$(date +%s)
  out=$(VERIF_SEED=$SEED ./vcheck $p --tier $TIER 2>&1); rc=$?
  t1=$(date +%s)
  echo "$p rc=$rc $((t1-t0))s $(echo "$out" | grep -E ' (HELD|VIOLATED|INCONCLUSIVE) ' | tail -1 | cut -c1-150)"
  echo "$out" | grep -E '^(VIOLATION|KNOWN-FINDING|INCONCLUSIVE:|  # )' | head -6
  if ! echo "$out" | grep -qE ' (HELD|VIOLATED|INCONCLUSIVE) '; then echo "  (no verdict line; last output:)"; echo "$out" | tail -n 8 | cut -c1-300; fi
done
