#!/bin/bash
# tools/seedrun.sh <seed-dir> <prop> [vcheck args...]: applies <seed-dir>/patch.diff to a scratch export of
# /repo HEAD and runs the property's check against it (no confirmation steps; see seedcheck.sh for those).
set -u
SEED=$1; P=$2; shift 2
export GOFLAGS=-mod=mod GOPROXY=off GOSUMDB=off GOTOOLCHAIN=local
W=$(mktemp -d /var/tmp/seedrun-XXXX)
trap 'rm -rf "$W"' EXIT
git -C /repo archive HEAD | tar -x -C $W
( cd $W && git init -q . && git apply --whitespace=nowarn "$SEED/patch.diff" ) || { echo "patch-does-not-apply"; exit 2; }
cd /verif && VERIF_REPO=$W ./vcheck $P --tier quick --no-evidence "$@" 2>&1 | grep -v '^built' | cut -c1-260 | tail -8
