#!/usr/bin/env python3
"""tools/keepseed.py <id> <seed-dir> <breaks-prop> <needs> <caught-by> <ran>  — files a confirmed seeded change under /verif/seeded/<id>/"""
import sys, os, shutil, json, glob
sid, src, prop, needs, caught, ran = sys.argv[1:7]
dst = os.path.join('/verif/seeded', sid)
os.makedirs(dst, exist_ok=True)
for f in glob.glob(os.path.join(src, '*')):
    b = os.path.basename(f)
    if os.path.isfile(f) and (b == 'patch.diff' or b == 'demo.sh' or b == 'README.md' or b.endswith('_test.go') or b.endswith('.go')) and not b.startswith('foreign'):
        shutil.copy(f, os.path.join(dst, b))
for f in glob.glob(os.path.join(src, '*')):
    if os.path.isdir(f):  # a demonstration program kept in its own directory
        shutil.copytree(f, os.path.join(dst, os.path.basename(f)), dirs_exist_ok=True)
meta = {"id": sid, "breaks_property": prop, "needs_to_manifest": needs, "caught_by": caught, "what_was_run": ran,
        
        "source": "written by a fresh sub-agent that was given only the property text and a scratch git worktree of /repo"}
json.dump(meta, open(os.path.join(dst, 'meta.json'), 'w'), indent=1)
print("kept", dst, os.listdir(dst))
