#!/usr/bin/env python3
"""Regenerates MANIFEST.json from checks.py (single source of truth)."""
import json, os, subprocess, sys
sys.path.insert(0, os.path.dirname(os.path.abspath(__file__)))
import checks

props = [json.loads(l)["id"] for l in open(os.path.join(os.path.dirname(os.path.abspath(__file__)), "properties.jsonl"))]
hook_commits = getattr(checks, "HOOK_COMMITS", [])
m = {
    "version": 1,
    "setup_cmd": "./setup.sh",
    "hooks": {
        "guard": "verif",
        "enable": "go build/test -tags verif (call sites use common/verifhook, which is a no-op without the tag)",
        "baseline_off_cmd": "./baseline_off.sh",
        "source_commits": hook_commits,
        "add_only": True,
    },
    "engines": [
        {"name": "api", "path": "harness/api", "serves_properties": sorted(p for p, c in checks.CHECKS.items() if any(x["engine"] == "api" for x in c["parts"])), "kind_free_text": "Go test binaries (go test -c -race) importing snowflake's exported APIs via replace => /repo; monitors = reference-model / metamorphic / panic oracles over PRNG and enumerated inputs"},
        {"name": "inpkg", "path": "harness/inpkg", "serves_properties": sorted(p for p, c in checks.CHECKS.items() if any(x["engine"] == "inpkg" for x in c["parts"])), "kind_free_text": "monitor files injected into the real packages with go test -overlay (nothing is written into /repo), built -race -tags verif; history checkers (cross-wiring, porcupine linearizability), stuck-goroutine and leak detectors, hooked-state assertions"},
        {"name": "vcheck", "path": "vcheck", "serves_properties": sorted(checks.CHECKS), "kind_free_text": "Python driver: builds from /repo's working tree, runs parts in child processes under watchdogs, parses race-detector logs, merges evidence, applies known_findings.json"},
    ],
    "checks": [],
    "notes": "All checks are runtime monitors over executions of the real code (see DESIGN.md). Verdicts: HELD on what was observed / VIOLATION / INCONCLUSIVE (exit 1 without VIOLATION line).",
    "not_applicable": [],
}
for p in props:
    c = checks.CHECKS.get(p)
    if not c:
        m["not_applicable"].append({"property_id": p, "reason": checks.NOT_CLAIMED.get(p, "check not built yet in this session (runtime monitoring applies; see DESIGN.md §4) — not claimed until its monitor exists and is silent on the unchanged tree")})
        continue
    e = {
        "property_id": p,
        "quick_cmd": "./vcheck %s --tier quick" % p,
        "thorough_cmd": "./vcheck %s --tier thorough" % p,
        "evidence_file": "evidence/%s.json" % p,
        "replay_cmd_template": "./vcheck %s --replay {path}" % p,
        "engine": "+".join(sorted(set(x["engine"] for x in c["parts"]))),
        "level_claimed": {"category": c["level"], "text": c["level_text"], "design_ref": "DESIGN.md §4 " + p},
        "level_note": c["level_note"],
        "technique": c["technique"],
    }
    m["checks"].append(e)
json.dump(m, open(os.path.join(os.path.dirname(os.path.abspath(__file__)), "MANIFEST.json"), "w"), indent=1)
print("MANIFEST.json: %d checks, %d not_applicable" % (len(m["checks"]), len(m["not_applicable"])))
