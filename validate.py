#!/opt/veriftools/pyvenv/bin/python
"""Validates MANIFEST.json and every evidence file against the given schemas."""
import json, glob, sys, jsonschema
ok = True
def v(path, schema):
    global ok
    try:
        jsonschema.validate(json.load(open(path)), json.load(open(schema)))
        print("valid  ", path)
    except Exception as e:
        ok = False
        print("INVALID", path, str(e).splitlines()[0])
v('/verif/MANIFEST.json', '/root/.vp/MANIFEST.schema.json')
for f in sorted(glob.glob('/verif/evidence/*.json')):
    v(f, '/root/.vp/EVIDENCE.schema.json')
sys.exit(0 if ok else 1)
