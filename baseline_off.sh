#!/bin/bash
# Runs the repository's pinned test suite with the `verif` build tag OFF and
# compares test by test with the stable passes of /root/.vp/BASELINE.json.
# Uses a scratch -modfile so that /repo/go.mod is never rewritten.
set -u
export GOFLAGS=-mod=mod GOPROXY=off GOSUMDB=off GOTOOLCHAIN=local
S=$(mktemp -d /var/tmp/verif-baseline-XXXXXX)
trap 'rm -rf "$S"' EXIT
R=${VERIF_REPO:-/repo}
cp $R/go.mod "$S/go.mod"; cp $R/go.sum "$S/go.sum"
(cd $R && go test -modfile="$S/go.mod" -json -vet=off -count=1 -timeout 25m ./... > "$S/out.json" 2> "$S/err.txt")
python3 - "$S/out.json" <<'PY'
import json, sys
base = json.load(open('/root/.vp/BASELINE.json'))
want = set(base['stable_pass'])
got = {}
for ln in open(sys.argv[1], errors='replace'):
    try:
        e = json.loads(ln)
    except ValueError:
        continue
    if e.get('Test') and e.get('Action') in ('pass', 'fail', 'skip'):
        got[e['Package'] + '::' + e['Test']] = e['Action']
missing = sorted(t for t in want if got.get(t) != 'pass')
print("baseline (verif tag OFF): %d/%d stable tests pass" % (len(want) - len(missing), len(want)))
for t in missing:
    print("NOT PASSING:", t, got.get(t))
sys.exit(1 if missing else 0)
PY
