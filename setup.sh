#!/bin/bash
# Offline setup: checks the toolchain and warms the (race-instrumented) build
# cache for the standard library, the module cache's dependencies and the
# harness support library. Builds nothing that is kept: every check rebuilds
# from /repo's current working tree.
set -u
export GOFLAGS=-mod=mod GOPROXY=off GOSUMDB=off GOTOOLCHAIN=local
cd "$(dirname "$0")"
go version || exit 1
python3 --version || exit 1
S=$(mktemp -d /var/tmp/verif-setup-XXXXXX)
trap 'rm -rf "$S"' EXIT
cp harness/api/go.mod "$S/api.go.mod"
cat /repo/go.sum harness/extra.go.sum > "$S/api.go.sum" 2>/dev/null
# warm: compile (not run) every api harness package with -race
(cd harness/api && go test -c -race -tags verif -vet=off -ldflags=-checklinkname=0 -modfile="$S/api.go.mod" -o /dev/null ./... >/dev/null 2>"$S/warm.err") || { echo "warm-up build of api harnesses failed:"; cat "$S/warm.err"; exit 1; }
# warm: race-instrumented dependencies of the repository's packages
cp /repo/go.mod "$S/repo.go.mod"; cp /repo/go.sum "$S/repo.go.sum"
(cd /repo && go build -race -tags verif -ldflags=-checklinkname=0 -modfile="$S/repo.go.mod" ./... >/dev/null 2>"$S/warm2.err") || { echo "warm-up build of /repo failed:"; cat "$S/warm2.err"; exit 1; }
echo "setup ok"
