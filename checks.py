"""Per-property part table for vcheck (see DESIGN.md §2, §4).

Each property's spec lives in checkspecs/<id>.json:
  level, level_text, level_note, technique, assumptions[], race_decides?,
  parts[]: {name, engine: api|inpkg, pkg, run, srcdir?, files?, shards?,
            shards_quick?, shards_thorough?, watchdog?, watchdog_thorough?,
            binaries?[], tiers?[]}
"""
import glob
import json
import os

HERE = os.path.dirname(os.path.abspath(__file__))

# commits in /repo that add the `verif`-guarded hooks (recorded in MANIFEST.hooks)
HOOK_COMMITS = []
try:
    HOOK_COMMITS = [l.split()[0] for l in open(os.path.join(HERE, "hook_commits.txt")) if l.strip() and not l.startswith("#")]
except OSError:
    pass

# reasons for properties not claimed (property_id -> reason)
NOT_CLAIMED = {}
try:
    NOT_CLAIMED = json.load(open(os.path.join(HERE, "not_claimed.json")))
except OSError:
    pass

CHECKS = {}
for _p in sorted(glob.glob(os.path.join(HERE, "checkspecs", "C*.json"))):
    _id = os.path.basename(_p)[:-5]
    CHECKS[_id] = json.load(open(_p))
