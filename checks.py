"""Per-property part table for vcheck (see DESIGN.md §2, §4)."""

ASSUME_SAMPLED = "universality over inputs is sampled (boundary-biased PRNG generators plus small exhaustive sub-spaces), not proved"
ASSUME_SCHED = "schedules are those produced by the workloads, jitter and verif hooks on this machine; others are unexplored"
ASSUME_RACE = "built with the Go race detector (implies checkptr); it reports only races on executed interleavings"

HOOK_COMMITS = []

NOT_CLAIMED = {}

CHECKS = {
    "C09": {
        "level": "exploration",
        "level_text": "Runtime monitor: the real ReadData/WriteData/WritePadding/MaxDataForSize run on tens of thousands of PRNG and enumerated streams (all prefix-size boundaries, non-minimal prefixes, every truncation point of short streams, arbitrary bytes) through nine io.Reader behaviours (short, one-byte, zero-length reads, data+EOF, io.Pipe with empty messages) and are compared with an independent reference decoder; panics and allocation are monitored. Held = no divergence on the executions observed.",
        "level_note": "Trusted: the 40-line reference decoder written from the package comment; the Go runtime. Inputs are sampled, not exhaustive (except padding sizes <= 5000, budgets <= 20000, truncation points of the short streams).",
        "technique": "runtime monitoring: reference-model oracle + panic/alloc monitors over hostile io.Reader behaviours, under -race/checkptr",
        "assumptions": [ASSUME_SAMPLED, "the reference decoder in the harness (40 lines, written from the package comment) is the specification"],
        "parts": [
            {"name": "api-c09", "engine": "api", "pkg": "c09", "run": "^TestVerifC09$", "watchdog": 900, "watchdog_thorough": 3600},
        ],
    },
}
