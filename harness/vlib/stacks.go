package vlib

import (
	"regexp"
	"runtime"
	"strings"
)

// Goroutine is one parsed entry of a goroutine dump.
type Goroutine struct {
	ID     string
	State  string   // e.g. "chan send", "select", "running", "sync.Mutex.Lock", "IO wait"
	Mins   string   // ", 3 minutes" part if any
	Frames []string // function names, innermost first
	Lines  []string // file:line, parallel to Frames
	Raw    string
}

var goroutineHdr = regexp.MustCompile(`^goroutine (\d+)(?: gp=\S+ m=\S+(?: mp=\S+)?)? \[([^\],]+)(?:, ([^\]]+))?\]:$`)

// DumpAll returns the text of all goroutine stacks.
func DumpAll() string {
	n := 1 << 20
	for {
		b := make([]byte, n)
		k := runtime.Stack(b, true)
		if k < n {
			return string(b[:k])
		}
		n *= 2
	}
}

// ShortStack is the current goroutine's stack, trimmed.
func ShortStack() string {
	b := make([]byte, 8192)
	k := runtime.Stack(b, false)
	return string(b[:k])
}

// ParseDump parses runtime.Stack(all)/SIGQUIT output.
func ParseDump(dump string) []Goroutine {
	var out []Goroutine
	var cur *Goroutine
	lines := strings.Split(dump, "\n")
	for i := 0; i < len(lines); i++ {
		ln := strings.TrimRight(lines[i], "\r")
		if m := goroutineHdr.FindStringSubmatch(ln); m != nil {
			out = append(out, Goroutine{ID: m[1], State: m[2], Mins: m[3]})
			cur = &out[len(out)-1]
			cur.Raw = ln + "\n"
			continue
		}
		if cur == nil {
			continue
		}
		if ln == "" {
			cur = nil
			continue
		}
		cur.Raw += ln + "\n"
		if strings.HasPrefix(ln, "\t") {
			loc := strings.TrimSpace(ln)
			if j := strings.Index(loc, " +0x"); j >= 0 {
				loc = loc[:j]
			}
			if len(cur.Lines) < len(cur.Frames) {
				cur.Lines = append(cur.Lines, loc)
			}
			continue
		}
		fn := ln
		if strings.HasPrefix(fn, "created by ") {
			fn = strings.TrimPrefix(fn, "created by ")
			if j := strings.Index(fn, " in goroutine"); j >= 0 {
				fn = fn[:j]
			}
			fn = "created by " + fn
		} else if j := strings.LastIndex(fn, "("); j >= 0 {
			fn = fn[:j]
		}
		for len(cur.Lines) < len(cur.Frames) {
			cur.Lines = append(cur.Lines, "")
		}
		cur.Frames = append(cur.Frames, fn)
	}
	return out
}

// HasFrame reports whether any frame contains sub.
func (g *Goroutine) HasFrame(sub string) bool {
	for _, f := range g.Frames {
		if strings.Contains(f, sub) {
			return true
		}
	}
	return false
}

// FirstFrameWith returns "func file:line" of the innermost frame containing sub.
func (g *Goroutine) FirstFrameWith(sub string) string {
	for i, f := range g.Frames {
		if strings.Contains(f, sub) && !strings.HasPrefix(f, "created by ") {
			l := ""
			if i < len(g.Lines) {
				l = g.Lines[i]
			}
			return f + " " + l
		}
	}
	return ""
}

// Blocked reports whether the goroutine is parked in a state that only
// another goroutine can end (no timer involved): plain channel send/receive,
// mutex, cond, waitgroup. "select" is not included: it may hold a timer.
func (g *Goroutine) Blocked() bool {
	switch {
	case strings.HasPrefix(g.State, "chan send"), strings.HasPrefix(g.State, "chan receive"),
		strings.HasPrefix(g.State, "sync.Mutex.Lock"), strings.HasPrefix(g.State, "sync.RWMutex"),
		strings.HasPrefix(g.State, "semacquire"), strings.HasPrefix(g.State, "sync.Cond.Wait"),
		strings.HasPrefix(g.State, "sync.WaitGroup.Wait"):
		return true
	}
	return false
}

// WithFrame filters goroutines having a frame containing sub.
func WithFrame(gs []Goroutine, sub string) []Goroutine {
	var out []Goroutine
	for _, g := range gs {
		if g.HasFrame(sub) {
			out = append(out, g)
		}
	}
	return out
}
