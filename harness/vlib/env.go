package vlib

import (
	"os"
	"strconv"
)

// Seed is VERIF_SEED (default 1).
func Seed() uint64 {
	if v, err := strconv.ParseUint(os.Getenv("VERIF_SEED"), 10, 64); err == nil {
		return v
	}
	return 1
}

// Tier is "quick" or "thorough" (VERIF_TIER, default quick).
func Tier() string {
	if os.Getenv("VERIF_TIER") == "thorough" {
		return "thorough"
	}
	return "quick"
}

func Thorough() bool { return Tier() == "thorough" }

// Scale picks a size by tier.
func Scale(quick, thorough int) int {
	if Thorough() {
		return thorough
	}
	return quick
}

// Shard returns (index, count) from VERIF_SHARD="i/n" (default 0/1).
func Shard() (int, int) {
	s := os.Getenv("VERIF_SHARD")
	for i := 0; i < len(s); i++ {
		if s[i] == '/' {
			a, e1 := strconv.Atoi(s[:i])
			b, e2 := strconv.Atoi(s[i+1:])
			if e1 == nil && e2 == nil && b > 0 && a >= 0 && a < b {
				return a, b
			}
		}
	}
	return 0, 1
}

// ReplayPath is the replay file given with --replay, or "".
func ReplayPath() string { return os.Getenv("VERIF_REPLAY") }
