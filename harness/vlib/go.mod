module verif/vlib

go 1.21
