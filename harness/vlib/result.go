package vlib

import (
	"encoding/json"
	"fmt"
	"io/ioutil"
	"os"
	"sort"
	"sync"
	"time"
)

// Violation is one refuting observation.
type Violation struct {
	Sig    string      `json:"sig"`    // stable signature, matched against known_findings.json
	Msg    string      `json:"msg"`    // human-readable
	Replay interface{} `json:"replay"` // input / script / history that refutes
}

// Result is what one harness part reports to vcheck (file VERIF_OUT).
type Result struct {
	mu           sync.Mutex
	Property     string                 `json:"property"`
	Part         string                 `json:"part"`
	Tier         string                 `json:"tier"`
	Seed         uint64                 `json:"seed"`
	Shard        string                 `json:"shard,omitempty"`
	Evaluations  int64                  `json:"evaluations"`
	Nontrivial   int64                  `json:"distinct_nontrivial"`
	Rule         string                 `json:"rule"`
	Samples      []interface{}          `json:"samples"`
	Observed     map[string]int64       `json:"observed"`
	Notes        map[string]interface{} `json:"notes,omitempty"`
	Violations   []Violation            `json:"violations"`
	Inconclusive []string               `json:"inconclusive"`
	Requirements []string               `json:"unmet_requirements"`
	WallS        float64                `json:"wall_s"`
	Done         bool                   `json:"done"`
	start        time.Time
	distinct     map[string]struct{}
	vioCount     map[string]int
	path         string
}

// NewResult starts a result for property/part; it is saved to VERIF_OUT (or
// to ./verif-result-<part>.json when unset).
func NewResult(property, part, rule string) *Result {
	p := os.Getenv("VERIF_OUT")
	if p == "" {
		p = "verif-result-" + part + ".json"
	}
	r := &Result{Property: property, Part: part, Tier: Tier(), Seed: Seed(), Rule: rule,
		Observed: map[string]int64{}, Notes: map[string]interface{}{}, start: time.Now(),
		distinct: map[string]struct{}{}, vioCount: map[string]int{}, path: p,
		Shard: os.Getenv("VERIF_SHARD")}
	r.Samples = []interface{}{}
	r.Violations = []Violation{}
	r.Inconclusive = []string{}
	r.Requirements = []string{}
	r.Save() // an incomplete file (done=false) marks a batch that died
	return r
}

func (r *Result) Eval(n int64) { r.mu.Lock(); r.Evaluations += n; r.mu.Unlock() }

// Distinct counts key as one distinct non-trivial case (idempotent per key).
func (r *Result) Distinct(key string) {
	r.mu.Lock()
	if _, ok := r.distinct[key]; !ok {
		if len(r.distinct) < 2000000 {
			r.distinct[key] = struct{}{}
		}
		r.Nontrivial++
	}
	r.mu.Unlock()
}

func (r *Result) Obs(name string, n int64) { r.mu.Lock(); r.Observed[name] += n; r.mu.Unlock() }
func (r *Result) ObsMax(name string, n int64) {
	r.mu.Lock()
	if n > r.Observed[name] {
		r.Observed[name] = n
	}
	r.mu.Unlock()
}
func (r *Result) GetObs(name string) int64        { r.mu.Lock(); defer r.mu.Unlock(); return r.Observed[name] }
func (r *Result) Note(name string, v interface{}) { r.mu.Lock(); r.Notes[name] = v; r.mu.Unlock() }

// Sample keeps up to max samples.
func (r *Result) Sample(max int, v interface{}) {
	r.mu.Lock()
	if len(r.Samples) < max {
		r.Samples = append(r.Samples, v)
	}
	r.mu.Unlock()
}

// Violate records a violation; at most 5 replays are kept per signature.
func (r *Result) Violate(sig, msg string, replay interface{}) {
	r.mu.Lock()
	r.vioCount[sig]++
	first := r.vioCount[sig] <= 5
	if first {
		r.Violations = append(r.Violations, Violation{Sig: sig, Msg: msg, Replay: replay})
	}
	r.mu.Unlock()
	if first {
		// on disk at once: a run that later hangs or is ended by the watchdog has
		// still reported what it saw
		r.Save()
	}
}

func (r *Result) Violatef(sig string, replay interface{}, format string, a ...interface{}) {
	r.Violate(sig, fmt.Sprintf(format, a...), replay)
}

func (r *Result) NViolations() int { r.mu.Lock(); defer r.mu.Unlock(); return len(r.Violations) }

func (r *Result) Inconcl(reason string) {
	r.mu.Lock()
	if len(r.Inconclusive) < 200 {
		r.Inconclusive = append(r.Inconclusive, reason)
	}
	r.Observed["inconclusive_cases"]++
	r.mu.Unlock()
}

// Require states a minimum-coverage requirement; an unmet one makes the run
// INCONCLUSIVE (broken check), never HELD.
func (r *Result) Require(ok bool, what string) {
	if !ok {
		r.mu.Lock()
		r.Requirements = append(r.Requirements, what)
		r.mu.Unlock()
	}
}

func (r *Result) RequireObs(name string, min int64) {
	v := r.GetObs(name)
	r.Require(v >= min, fmt.Sprintf("observed[%s]=%d < %d", name, v, min))
}

// Save writes the file (atomically).
func (r *Result) Save() {
	r.mu.Lock()
	defer r.mu.Unlock()
	r.WallS = time.Since(r.start).Seconds()
	counts := map[string]int{}
	for k, v := range r.vioCount {
		counts[k] = v
	}
	if len(counts) > 0 {
		r.Notes["violation_counts"] = counts
	}
	b, err := json.MarshalIndent(r, "", " ")
	if err != nil {
		// a sample that cannot be marshalled must not lose the verdict
		r.Samples = []interface{}{fmt.Sprintf("unmarshalable sample: %v", err)}
		b, _ = json.MarshalIndent(r, "", " ")
	}
	tmp := r.path + ".tmp"
	if err := ioutil.WriteFile(tmp, b, 0644); err == nil {
		os.Rename(tmp, r.path)
	}
}

// Finish marks the result complete and saves it. It is meant to be deferred
// directly (`defer res.Finish()`): if the test goroutine is panicking (an
// unguarded call of code under test, or a harness bug) the panic is recorded
// as a violation instead of being lost behind a "done" result, and re-raised.
func (r *Result) Finish() {
	if e := recover(); e != nil {
		r.Violate("panic:outside-guard", fmt.Sprintf("panic outside any guard: %v\n%s", e, ShortStack()), map[string]interface{}{"case": "panic-outside-guard"})
		r.finish()
		panic(e)
	}
	r.finish()
}

func (r *Result) finish() {
	r.mu.Lock()
	r.Done = true
	sort.Strings(r.Requirements)
	r.mu.Unlock()
	r.Save()
}

// CaseLog writes the id of the case about to run to <out>.case so that a
// fatal error (process death) can be attributed.
func (r *Result) CaseLog(id string) {
	ioutil.WriteFile(r.path+".case", []byte(id), 0644)
}

// Guard runs f and converts a panic into a violation with signature sig.
func (r *Result) Guard(sig string, replay interface{}, f func()) (panicked bool) {
	defer func() {
		if e := recover(); e != nil {
			panicked = true
			r.Violate(sig, fmt.Sprintf("panic: %v\n%s", e, ShortStack()), replay)
		}
	}()
	f()
	return false
}
