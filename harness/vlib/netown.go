package vlib

import (
	"fmt"
	"io/ioutil"
	"os"
	"strconv"
	"strings"
	"time"
)

// ListenerOwnedBy reports whether the process pid holds a listening TCP socket
// on the given local port (Linux: /proc/net/tcp{,6} gives the socket inode,
// /proc/<pid>/fd the process's sockets). Harnesses that start a binary on a port
// they picked beforehand use it instead of "something answers on that port":
// between picking and binding, an unrelated process - another check running at
// the same time - may have taken the port.
func ListenerOwnedBy(pid, port int) bool {
	inodes := map[string]bool{}
	for _, f := range []string{"/proc/net/tcp", "/proc/net/tcp6"} {
		data, err := ioutil.ReadFile(f)
		if err != nil {
			continue
		}
		for _, ln := range strings.Split(string(data), "\n")[1:] {
			fs := strings.Fields(ln)
			if len(fs) < 10 || fs[3] != "0A" { // 0A = LISTEN
				continue
			}
			lp := strings.Split(fs[1], ":")
			p, err := strconv.ParseInt(lp[len(lp)-1], 16, 32)
			if err == nil && int(p) == port && fs[9] != "0" {
				inodes[fs[9]] = true
			}
		}
	}
	if len(inodes) == 0 {
		return false
	}
	fds, err := ioutil.ReadDir(fmt.Sprintf("/proc/%d/fd", pid))
	if err != nil {
		return false
	}
	for _, fd := range fds {
		l, err := os.Readlink(fmt.Sprintf("/proc/%d/fd/%s", pid, fd.Name()))
		if err == nil && strings.HasPrefix(l, "socket:[") && inodes[strings.TrimSuffix(strings.TrimPrefix(l, "socket:["), "]")] {
			return true
		}
	}
	return false
}

// WaitListener polls ListenerOwnedBy until it holds, gone() reports that the
// process has exited, or d has elapsed.
func WaitListener(pid, port int, d time.Duration, gone func() bool) bool {
	end := time.Now().Add(d)
	for {
		if ListenerOwnedBy(pid, port) {
			return true
		}
		if (gone != nil && gone()) || time.Now().After(end) {
			return false
		}
		time.Sleep(20 * time.Millisecond)
	}
}

// WaitFor polls cond every 5 ms until it holds or d has passed.
func WaitFor(d time.Duration, cond func() bool) bool {
	end := time.Now().Add(d)
	for {
		if cond() {
			return true
		}
		if time.Now().After(end) {
			return false
		}
		time.Sleep(5 * time.Millisecond)
	}
}
