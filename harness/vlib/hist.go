package vlib

import (
	"sync"
	"time"
)

// History records operations at the client boundary with one monotonic clock.
// The call event is recorded before the operation is invoked and the return
// event after its reply; operations that never return stay open (Ret == 0).
type History struct {
	mu    sync.Mutex
	start time.Time
	Ops   []*Op
}

type Op struct {
	ID     int         `json:"id"`
	Proc   int         `json:"proc"`
	Kind   string      `json:"kind"`
	In     interface{} `json:"in"`
	Out    interface{} `json:"out,omitempty"`
	Call   int64       `json:"call_ns"`
	Ret    int64       `json:"ret_ns"` // 0 = still open
	Status int         `json:"status,omitempty"`
}

func NewHistory() *History { return &History{start: time.Now()} }

func (h *History) Now() int64 { return int64(time.Since(h.start)) + 1 }

func (h *History) Begin(proc int, kind string, in interface{}) *Op {
	h.mu.Lock()
	op := &Op{ID: len(h.Ops), Proc: proc, Kind: kind, In: in}
	h.Ops = append(h.Ops, op)
	op.Call = h.Now()
	h.mu.Unlock()
	return op
}

func (h *History) End(op *Op, status int, out interface{}) {
	h.mu.Lock()
	op.Status = status
	op.Out = out
	op.Ret = h.Now()
	h.mu.Unlock()
}

// Snapshot returns a copy of the operations recorded so far.
func (h *History) Snapshot() []Op {
	h.mu.Lock()
	defer h.mu.Unlock()
	out := make([]Op, len(h.Ops))
	for i, o := range h.Ops {
		out[i] = *o
	}
	return out
}
