package vlib

import (
	"encoding/binary"
	"fmt"
)

// Self-describing byte streams (M-stream). A stream is identified by
// (tag, dir); byte i of the stream is a function of (tag, dir, i) so that a
// reader can check every byte against nothing but its own read offset, and a
// mismatching window can be searched for in all streams to classify it.

const StreamHeaderLen = 24

var streamMagic = [8]byte{'V', 'S', 'T', 'R', 'M', 0xF1, 0x0E, 0x5A}

// StreamHeader is the 24-byte header: magic, tag, dir+length.
func StreamHeader(tag uint64, dir byte, length uint64) []byte {
	h := make([]byte, StreamHeaderLen)
	copy(h, streamMagic[:])
	binary.BigEndian.PutUint64(h[8:], tag)
	binary.BigEndian.PutUint64(h[16:], length&0x00ffffffffffffff|uint64(dir)<<56)
	return h
}

// ParseStreamHeader returns ok=false when h is not a header.
func ParseStreamHeader(h []byte) (tag uint64, dir byte, length uint64, ok bool) {
	if len(h) < StreamHeaderLen {
		return
	}
	for i := range streamMagic {
		if h[i] != streamMagic[i] {
			return
		}
	}
	tag = binary.BigEndian.Uint64(h[8:])
	v := binary.BigEndian.Uint64(h[16:])
	return tag, byte(v >> 56), v & 0x00ffffffffffffff, true
}

func mix(z uint64) uint64 {
	z = (z ^ (z >> 30)) * 0xBF58476D1CE4E5B9
	z = (z ^ (z >> 27)) * 0x94D049BB133111EB
	return z ^ (z >> 31)
}

// KeyByte is byte i of the body of stream (tag, dir).
func KeyByte(tag uint64, dir byte, i uint64) byte {
	w := mix(tag*0x9E3779B97F4A7C15 ^ uint64(dir)<<56 ^ (i>>3)*0xD6E8FEB86659FD93 + 0x632BE59BD9B4E019)
	return byte(w >> ((i & 7) * 8))
}

// FillKey fills p with body bytes [off, off+len(p)).
func FillKey(tag uint64, dir byte, off uint64, p []byte) {
	for j := range p {
		p[j] = KeyByte(tag, dir, off+uint64(j))
	}
}

// StreamChecker verifies a body read sequentially.
type StreamChecker struct {
	Tag  uint64
	Dir  byte
	Off  uint64
	Fail string
}

// Check consumes p; on the first mismatch it records where and returns false.
func (c *StreamChecker) Check(p []byte) bool {
	if c.Fail != "" {
		return false
	}
	for j, b := range p {
		if b != KeyByte(c.Tag, c.Dir, c.Off) {
			lo := j - 8
			if lo < 0 {
				lo = 0
			}
			hi := j + 24
			if hi > len(p) {
				hi = len(p)
			}
			c.Fail = fmt.Sprintf("stream tag=%x dir=%d: byte at offset %d is %02x, expected %02x; window=%x", c.Tag, c.Dir, c.Off, b, KeyByte(c.Tag, c.Dir, c.Off), p[lo:hi])
			return false
		}
		c.Off++
	}
	return true
}

// Classify searches an 16-byte window w (the bytes read at the failure point)
// in the streams given as (tag,dir) candidates within [0,limit) and returns a
// description: "dup/skip of own stream at offset N" or "foreign tag".
func Classify(w []byte, cands [][2]uint64, limit uint64) string {
	if len(w) > 16 {
		w = w[:16]
	}
	if len(w) < 8 {
		return "window too short to classify"
	}
	for _, c := range cands {
		tag, dir := c[0], byte(c[1])
		for off := uint64(0); off+uint64(len(w)) <= limit; off++ {
			if KeyByte(tag, dir, off) != w[0] {
				continue
			}
			ok := true
			for j := 1; j < len(w); j++ {
				if KeyByte(tag, dir, off+uint64(j)) != w[j] {
					ok = false
					break
				}
			}
			if ok {
				return fmt.Sprintf("matches stream tag=%x dir=%d at offset %d", tag, dir, off)
			}
		}
	}
	return "matches no known stream"
}
