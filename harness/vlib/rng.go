// Package vlib is the small support library shared by every verification
// harness: a splittable deterministic PRNG, the result/evidence writer, a
// monotonic history recorder, self-describing byte streams and a goroutine
// dump classifier. Standard library only.
package vlib

import (
	"hash/fnv"
	"math/bits"
)

// Rand is a splitmix64 generator. It is NOT safe for concurrent use: split
// one per goroutine with Split.
type Rand struct{ s uint64 }

func NewRand(seed uint64) *Rand { return &Rand{s: seed*0x9E3779B97F4A7C15 + 0x1234567} }

func (r *Rand) Uint64() uint64 {
	r.s += 0x9E3779B97F4A7C15
	z := r.s
	z = (z ^ (z >> 30)) * 0xBF58476D1CE4E5B9
	z = (z ^ (z >> 27)) * 0x94D049BB133111EB
	return z ^ (z >> 31)
}

// Split derives an independent generator from this one's seed and a label,
// without consuming state (so adding a consumer never shifts the others).
func (r *Rand) Split(label string) *Rand {
	h := fnv.New64a()
	h.Write([]byte(label))
	return &Rand{s: bits.RotateLeft64(r.s, 17) ^ h.Sum64()*0xD6E8FEB86659FD93}
}

func (r *Rand) SplitN(label string, n int) *Rand {
	x := r.Split(label)
	x.s ^= uint64(n+1) * 0xA0761D6478BD642F
	return x
}

func (r *Rand) Intn(n int) int {
	if n <= 0 {
		return 0
	}
	return int(r.Uint64() % uint64(n))
}

// Range returns a value in [lo, hi].
func (r *Rand) Range(lo, hi int) int { return lo + r.Intn(hi-lo+1) }

func (r *Rand) Bool() bool { return r.Uint64()&1 == 1 }

// Chance is true with probability num/den.
func (r *Rand) Chance(num, den int) bool { return r.Intn(den) < num }

func (r *Rand) Float() float64 { return float64(r.Uint64()>>11) / (1 << 53) }

func (r *Rand) Bytes(n int) []byte {
	b := make([]byte, n)
	r.Fill(b)
	return b
}

func (r *Rand) Fill(b []byte) {
	i := 0
	for i+8 <= len(b) {
		v := r.Uint64()
		b[i], b[i+1], b[i+2], b[i+3] = byte(v), byte(v>>8), byte(v>>16), byte(v>>24)
		b[i+4], b[i+5], b[i+6], b[i+7] = byte(v>>32), byte(v>>40), byte(v>>48), byte(v>>56)
		i += 8
	}
	if i < len(b) {
		v := r.Uint64()
		for ; i < len(b); i++ {
			b[i] = byte(v)
			v >>= 8
		}
	}
}

func (r *Rand) PickInt(xs []int) int          { return xs[r.Intn(len(xs))] }
func (r *Rand) PickString(xs []string) string { return xs[r.Intn(len(xs))] }

func (r *Rand) Perm(n int) []int {
	p := make([]int, n)
	for i := range p {
		p[i] = i
	}
	for i := n - 1; i > 0; i-- {
		j := r.Intn(i + 1)
		p[i], p[j] = p[j], p[i]
	}
	return p
}

// StringFrom returns n characters drawn from alphabet (runes).
func (r *Rand) StringFrom(alphabet []rune, n int) string {
	out := make([]rune, n)
	for i := range out {
		out[i] = alphabet[r.Intn(len(alphabet))]
	}
	return string(out)
}
