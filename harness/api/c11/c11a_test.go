// C11 (a) — rendezvous requests are faithfully encoded: AMP URL paths and
// AMP cache URLs.
// Engine: api (exported amp.EncodePath / DecodePath / CacheURL), -race.
//
// Oracles (all written here, none asks the code under test):
//   - own base64url encoder: DecodePath("0"‖pad‖"/"‖b64url(d)) = d for any pad;
//     DecodePath(EncodePath(d)) = d; unknown/missing version, missing slash and
//     bad base64 are errors;
//   - the inverse mapping an AMP cache performs: the result of CacheURL is
//     <cache path>/<type>[/s]/<publisher host><publisher path>?<query> on host
//     <prefix>.<cache host>[:port];
//   - domain prefix: for ASCII domains without A-labels the string-manipulation
//     reference of DESIGN.md appendix A4 (exact); for IDN domains only the
//     invariants of DESIGN.md C11(a), with x/net/idna trusted for punycode;
//   - the rejections CacheURL's doc comment promises.
package c11

import (
	"bytes"
	"crypto/sha256"
	"encoding/base64"
	"fmt"
	"hash/fnv"
	"net/url"
	"path"
	"strings"
	"testing"

	"git.torproject.org/pluggable-transports/snowflake.git/v2/common/amp"
	"golang.org/x/net/idna"
	"verif/vlib"
)

// ---- own encoders -----------------------------------------------------------

const b64urlAlphabet = "ABCDEFGHIJKLMNOPQRSTUVWXYZabcdefghijklmnopqrstuvwxyz0123456789-_"

// b64url: unpadded base64 with the URL-safe alphabet (RFC 4648 §5).
func b64url(d []byte) string {
	var sb strings.Builder
	for i := 0; i < len(d); i += 3 {
		var v uint32
		n := len(d) - i
		if n > 3 {
			n = 3
		}
		for j := 0; j < 3; j++ {
			v <<= 8
			if j < n {
				v |= uint32(d[i+j])
			}
		}
		for j := 0; j < n+1; j++ {
			sb.WriteByte(b64urlAlphabet[(v>>(18-6*uint(j)))&63])
		}
	}
	return sb.String()
}

const b32Alphabet = "abcdefghijklmnopqrstuvwxyz234567"

// b32lower: lower-case unpadded base32 (RFC 4648 §6 alphabet, lower case).
func b32lower(d []byte) string {
	var sb strings.Builder
	var acc uint32
	bits := uint(0)
	for _, c := range d {
		acc = acc<<8 | uint32(c)
		bits += 8
		for bits >= 5 {
			sb.WriteByte(b32Alphabet[(acc>>(bits-5))&31])
			bits -= 5
		}
	}
	if bits > 0 {
		sb.WriteByte(b32Alphabet[(acc<<(5-bits))&31])
	}
	return sb.String()
}

func refFallback(domain string) string {
	h := sha256.Sum256([]byte(domain))
	return b32lower(h[:])
}

// refPrefixASCII: DESIGN.md appendix A4.
func refPrefixASCII(d string) string {
	u := strings.Replace(strings.Replace(d, "-", "--", -1), ".", "-", -1)
	if len(u) >= 4 && u[2] == '-' && u[3] == '-' {
		u = "0-" + u + "-0"
	}
	if len(u) <= 63 {
		return u
	}
	return refFallback(d)
}

func isA4Class(d string) bool {
	if d == "" {
		return false
	}
	for i := 0; i < len(d); i++ {
		c := d[i]
		if !(c >= 'a' && c <= 'z' || c >= 'A' && c <= 'Z' || c >= '0' && c <= '9' || c == '.' || c == '-') {
			return false
		}
	}
	for _, l := range strings.Split(d, ".") {
		if len(l) >= 4 && strings.EqualFold(l[:4], "xn--") {
			return false
		}
	}
	return true
}

func hashKey(parts ...string) string {
	h := fnv.New64a()
	for _, p := range parts {
		h.Write([]byte(p))
		h.Write([]byte{0xff})
	}
	return fmt.Sprintf("%x", h.Sum64())
}

func clip(s string) string {
	if len(s) > 300 {
		return fmt.Sprintf("%q…(+%d bytes)", s[:300], len(s)-300)
	}
	return fmt.Sprintf("%q", s)
}

type H struct{ res *vlib.Result }

// ---- DecodePath ---------------------------------------------------------------

var padClasses = []string{"empty", "b64", "slashes", "percent", "bytes", "dots", "decoy", "long", "trailing-slash"}

func genPad(r *vlib.Rand, cls string) string {
	switch cls {
	case "empty":
		return ""
	case "b64":
		return b64url(r.Bytes(r.Range(1, 12)))
	case "slashes":
		return strings.Repeat("/", r.Range(1, 5))
	case "percent":
		return []string{"%", "%2F", "%2f%2F", "%%", "%00", "a%2Fb/", "%/%"}[r.Intn(7)] + b64url(r.Bytes(r.Intn(4)))
	case "bytes":
		return string(r.Bytes(r.Range(1, 40)))
	case "dots":
		return []string{"/../", "/./", "..", ".", "/..", "../..", "a/../b"}[r.Intn(7)]
	case "decoy":
		// something that looks like the data part, followed by more padding
		return "/" + b64url(r.Bytes(r.Range(1, 20))) + "/" + b64url(r.Bytes(r.Intn(6)))
	case "long":
		return strings.Repeat(b64url(r.Bytes(30))+"/", r.Range(10, 60))
	case "trailing-slash":
		return b64url(r.Bytes(9)) + "/"
	}
	panic("harness: pad class")
}

func genData(r *vlib.Rand) []byte {
	switch r.Intn(8) {
	case 0:
		return r.Bytes(r.Intn(7))
	case 1:
		return []byte("1.0\n{\"offer\":\"" + b64url(r.Bytes(r.Intn(200))) + "\",\"nat\":\"unknown\",\"fingerprint\":\"2B280B23E1107BB62ABFC40DDCC8824814F80A72\"}")
	case 2:
		// bytes whose base64 uses the two characters that differ between alphabets
		b := make([]byte, r.Range(1, 60))
		for i := range b {
			b[i] = byte(0xfb + r.Intn(5))
		}
		return b
	case 3:
		return r.Bytes(r.Range(1000, 5000))
	}
	return r.Bytes(r.Range(0, 300))
}

type pathRec struct {
	Case string `json:"case"`
	Path string `json:"path"`
	Len  int    `json:"path_len"`
	Data string `json:"data_hex_prefix,omitempty"`
	DLen int    `json:"data_len"`
	Note string `json:"note,omitempty"`
}

func hexPrefix(b []byte) string {
	if len(b) > 64 {
		return fmt.Sprintf("%x…", b[:64])
	}
	return fmt.Sprintf("%x", b)
}

func (h *H) decode(sig string, rc pathRec, p string) (out []byte, err error, ok bool) {
	h.res.Eval(1)
	ok = !h.res.Guard("panic:DecodePath:"+sig, rc, func() { out, err = amp.DecodePath(p) })
	return
}

func (h *H) checkDecodePaths(root *vlib.Rand) {
	res := h.res
	// the own encoder agrees with the standard library on a few inputs (harness sanity)
	for i := 0; i < 200; i++ {
		d := root.SplitN("b64self", i).Bytes(i % 50)
		res.Require(b64url(d) == base64.RawURLEncoding.EncodeToString(d), "harness: own base64url encoder is wrong")
	}

	n := vlib.Scale(20000, 600000)
	for i := 0; i < n; i++ {
		r := root.SplitN("path", i)
		cls := padClasses[i%len(padClasses)]
		pad := genPad(r, cls)
		d := genData(r)
		p := "0" + pad + "/" + b64url(d)
		rc := pathRec{Case: fmt.Sprintf("path/%d", i), Path: clip(p), Len: len(p), Data: hexPrefix(d), DLen: len(d), Note: "pad class " + cls}
		out, err, ok := h.decode("padded", rc, p)
		if !ok {
			continue
		}
		switch {
		case err != nil:
			res.Violatef("decodepath-error:pad-"+cls, rc, "DecodePath of a well-formed path failed: %v", err)
		case !bytes.Equal(out, d):
			res.Violatef("decodepath-mismatch:pad-"+cls, rc, "DecodePath returned %d bytes (%s), want %d bytes", len(out), hexPrefix(out), len(d))
		}
		res.Obs("decodepath_pad_"+cls, 1)
		if len(d) > 0 && cls != "empty" && cls != "b64" {
			res.Distinct("path" + hashKey(p))
		}
		if i < 3 {
			res.Sample(8, rc)
		}
	}

	// the real encoder
	n = vlib.Scale(5000, 150000)
	for i := 0; i < n; i++ {
		r := root.SplitN("encpath", i)
		d := genData(r)
		rc := pathRec{Case: fmt.Sprintf("encpath/%d", i), Data: hexPrefix(d), DLen: len(d)}
		var p string
		res.Eval(1)
		if res.Guard("panic:EncodePath", rc, func() { p = amp.EncodePath(d) }) {
			continue
		}
		rc.Path, rc.Len = clip(p), len(p)
		out, err, ok := h.decode("encoded", rc, p)
		if !ok {
			continue
		}
		if err != nil || !bytes.Equal(out, d) {
			res.Violatef("encodepath-roundtrip", rc, "DecodePath(EncodePath(d)) = (%s, %v)", hexPrefix(out), err)
		}
		// shape: version first, data alone after the last slash
		k := strings.LastIndexByte(p, '/')
		if len(p) == 0 || p[0] != '0' || k < 0 || p[k+1:] != b64url(d) {
			res.Violatef("encodepath-shape", rc, "EncodePath output is not \"0\"‖pad‖\"/\"‖base64url(data)")
		}
		res.Obs("encodepath_roundtrips", 1)
		if len(d) > 0 {
			res.Distinct("enc" + hashKey(string(d)))
		}
	}

	// --- errors ---
	bad := func(sig, id, p, note string) {
		rc := pathRec{Case: id, Path: clip(p), Len: len(p), Note: note}
		out, err, ok := h.decode(sig, rc, p)
		if !ok {
			return
		}
		if err == nil {
			res.Violatef("decodepath-accepts:"+sig, rc, "DecodePath accepted a path with %s (returned %d bytes)", note, len(out))
		}
		res.Obs("decodepath_reject_"+sig, 1)
		res.Distinct(sig + hashKey(p))
	}
	bad("missing-version", "err/empty", "", "no format indicator")
	for c := 0; c < 256; c++ {
		if c == '0' {
			continue
		}
		for k, rest := range []string{"", "/", "/QUJD", "x/QUJD", "0/QUJD", "/0/QUJD"} {
			bad("unknown-version", fmt.Sprintf("err/version/%d/%d", c, k), string([]byte{byte(c)})+rest, "an unknown format indicator")
		}
	}
	n = vlib.Scale(1500, 100000)
	for i := 0; i < n; i++ {
		r := root.SplitN("noslash", i)
		var rest string
		switch r.Intn(3) {
		case 0:
			rest = b64url(r.Bytes(r.Intn(30)))
		case 1:
			rest = strings.Replace(string(r.Bytes(r.Intn(30))), "/", "_", -1)
		default:
			rest = "%2F" + b64url(r.Bytes(r.Intn(30)))
		}
		bad("missing-slash", fmt.Sprintf("err/noslash/%d", i), "0"+rest, "no slash")
	}
	for i := 0; i < n; i++ {
		r := root.SplitN("badb64", i)
		pad := genPad(r, padClasses[r.Intn(len(padClasses))])
		good := b64url(r.Bytes(r.Range(1, 40)))
		var seg, kind, note string
		switch r.Intn(3) {
		case 0:
			// one byte outside the URL-safe alphabet ('=', CR, LF excluded:
			// padding and line breaks are tolerated by many base64 readers;
			// '/' excluded: it would move the last slash)
			var c byte
			for {
				c = byte(r.Intn(256))
				if strings.IndexByte(b64urlAlphabet, c) < 0 && c != '=' && c != '\r' && c != '\n' && c != '/' {
					break
				}
			}
			p := r.Intn(len(good))
			seg, kind, note = good[:p]+string([]byte{c})+good[p+1:], "foreign-byte", fmt.Sprintf("byte %#02x in the base64 part", c)
		case 1:
			for len(good)%4 != 1 {
				good += string(b64urlAlphabet[r.Intn(64)])
			}
			seg, kind, note = good, "impossible-length", "a base64 part of length 1 mod 4"
		default:
			p := r.Intn(len(good))
			seg, kind, note = good[:p]+"+"+good[p+1:], "std-alphabet", "'+' of the standard alphabet in the base64 part"
		}
		bad("bad-base64:"+kind, fmt.Sprintf("err/badb64/%d", i), "0"+pad+"/"+seg, note)
	}
	// tolerated spellings: observation only
	for i, s := range []string{"0/QUI=", "0/QUJD\n", "0/QU\r\nJD", "0/QR"} {
		out, err, ok := h.decode("tolerated", pathRec{Case: fmt.Sprintf("tolerated/%d", i), Path: clip(s)}, s)
		if ok && err == nil {
			res.Obs("observed_lenient_base64_accepted", 1)
			_ = out
		}
	}
	// totality
	n = vlib.Scale(20000, 500000)
	for i := 0; i < n; i++ {
		r := root.SplitN("arbpath", i)
		b := r.Bytes(r.Range(0, 40))
		if r.Bool() {
			for j := range b {
				if r.Chance(1, 2) {
					b[j] = "0/=-_AQ%.\n"[r.Intn(10)]
				}
			}
		}
		h.decode("arbitrary-bytes", pathRec{Case: fmt.Sprintf("arbpath/%d", i), Path: clip(string(b)), Len: len(b)}, string(b))
		res.Obs("decodepath_arbitrary_inputs", 1)
	}
}

// ---- domains --------------------------------------------------------------------

var ldh = []rune("abcdefghijklmnopqrstuvwxyz0123456789")
var uniLetters = []rune("üéßñçøåæœłčžшжяδλσβόあ漢字語한글⚡😊̈́İıǅ")

func asciiLabel(r *vlib.Rand, n int) string {
	b := make([]byte, n)
	for i := range b {
		switch {
		case r.Chance(1, 8):
			b[i] = '-'
		case r.Chance(1, 10):
			b[i] = byte('A' + r.Intn(26))
		default:
			b[i] = byte(ldh[r.Intn(len(ldh))])
		}
	}
	return string(b)
}

// genASCIIDomain returns a domain of the A4 class and the name of its class.
func genASCIIDomain(r *vlib.Rand) (string, string) {
	for {
		var d, cls string
		switch r.Intn(13) {
		case 12:
			// empty labels: leading, doubled and trailing (fully-qualified) dots
			a, b := asciiLabel(r, r.Range(1, 8)), asciiLabel(r, r.Range(1, 8))
			d, cls = []string{a + ".." + b, "." + a + "." + b, a + "." + b + ".", a + ".", "." + a + ".", "." + a}[r.Intn(6)], "empty-label" // never only dots: "." and ".." are not host names but path dot segments
		case 0:
			d, cls = []string{"snowflake-broker.torproject.net", "snowflake-broker.azureedge.net", "snowflake-broker.freehaven.net", "example.com", "en-us.example.com", "foo-example.com", "localhost", "1.2.3.4"}[r.Intn(8)], "typical"
		case 1:
			// hyphen as third character
			d, cls = asciiLabel(r, 2)+"-"+asciiLabel(r, r.Range(1, 8))+"."+asciiLabel(r, r.Range(2, 5)), "hyphen-at-3"
		case 2:
			d, cls = asciiLabel(r, 3)+"-"+asciiLabel(r, r.Range(1, 8))+".org", "hyphen-at-4"
		case 3:
			d, cls = asciiLabel(r, 2)+".-"+asciiLabel(r, r.Range(1, 8)), "dot-hyphen-at-3"
		case 4:
			d, cls = asciiLabel(r, 1)+"-."+asciiLabel(r, r.Range(1, 8)), "hyphen-dot-at-2"
		case 5:
			d, cls = "xn-"+asciiLabel(r, r.Range(0, 6))+[]string{".com", "", ".xn", "-a.b"}[r.Intn(4)], "xn-lookalike"
		case 6, 7:
			// rewritten length on either side of 63
			for len(strings.Replace(d, "-", "--", -1)) < 57 {
				if d != "" {
					d += "."
				}
				d += asciiLabel(r, r.Range(1, 12))
			}
			d += "." + asciiLabel(r, r.Range(1, 10))
			cls = "around-63"
		case 8:
			n := r.Range(2, 12)
			var ls []string
			for i := 0; i < n; i++ {
				ls = append(ls, asciiLabel(r, r.Range(1, 40)))
			}
			d, cls = strings.Join(ls, "."), "long"
		case 9:
			d, cls = asciiLabel(r, r.Range(1, 70)), "single-label"
		case 10:
			d, cls = strings.Repeat("-", r.Range(1, 5))+asciiLabel(r, r.Intn(4))+"."+asciiLabel(r, 3), "leading-hyphens"
		default:
			n := r.Range(1, 4)
			var ls []string
			for i := 0; i < n; i++ {
				ls = append(ls, asciiLabel(r, r.Range(1, 15)))
			}
			d, cls = strings.Join(ls, "."), "random"
		}
		if cls == "xn-lookalike" {
			// "xn-foo" is not an A-label (one hyphen), "xn.-foo" neither
			if r.Bool() {
				d = "xn." + d[3:]
			}
		}
		if isA4Class(d) {
			return d, cls
		}
	}
}

func uLabel(r *vlib.Rand) string {
	n := r.Range(1, 10)
	var rs []rune
	nonASCII := false
	for i := 0; i < n; i++ {
		switch {
		case r.Chance(1, 2):
			rs = append(rs, uniLetters[r.Intn(len(uniLetters))])
			nonASCII = true
		case r.Chance(1, 6):
			rs = append(rs, '-')
		default:
			rs = append(rs, ldh[r.Intn(len(ldh))])
		}
	}
	if !nonASCII {
		rs[r.Intn(len(rs))] = uniLetters[r.Intn(len(uniLetters))]
	}
	return string(rs)
}

// genIDN returns a U-label spelling and its A-label spelling (trusted idna).
func genIDN(r *vlib.Rand) (domU, domA string, ok bool) {
	n := r.Range(1, 4)
	if r.Chance(1, 6) {
		n = r.Range(5, 9) // long: fallback territory
	}
	var us, as []string
	for i := 0; i < n; i++ {
		var l string
		if r.Chance(2, 3) {
			l = uLabel(r)
		} else {
			l = asciiLabel(r, r.Range(1, 12))
			if len(l) >= 4 && strings.EqualFold(l[:4], "xn--") {
				l = "a" + l
			}
		}
		a, err := idna.ToASCII(l)
		if err != nil || strings.Contains(a, ".") {
			return "", "", false
		}
		us = append(us, l)
		as = append(as, a)
	}
	return strings.Join(us, "."), strings.Join(as, "."), true
}

var undecodable = []string{"xn---", "xn--a-", "xn--99999999", "xn--zzzzzzzzzzzzzzzzzzzz", "xn--a.example.xn---", "www.xn--!.com", "xn--ü.de"}

type prefixRec struct {
	Case   string `json:"case"`
	Domain string `json:"domain"`
	Prefix string `json:"prefix"`
	Want   string `json:"want,omitempty"`
	Class  string `json:"class"`
}

func firstFourNonASCII(w string) bool {
	i := 0
	for _, c := range w {
		if i >= 4 {
			break
		}
		if c >= 0x80 {
			return true
		}
		i++
	}
	return false
}

// checkPrefix judges the domain prefix CacheURL chose for domain.
func (h *H) checkPrefix(id, domain, prefix, cls string) {
	res := h.res
	rc := prefixRec{Case: id, Domain: domain, Prefix: prefix, Class: cls}
	// label shape, every class
	switch {
	case prefix == "":
		res.Violatef("prefix-shape:empty", rc, "empty domain prefix for %q", domain)
		return
	case strings.Contains(prefix, "."):
		res.Violatef("prefix-shape:dot", rc, "domain prefix %q contains a dot", prefix)
		return
	case len(prefix) > 63:
		res.Violatef("prefix-shape:longer-than-63", rc, "domain prefix %q is %d bytes", prefix, len(prefix))
		return
	}
	for i := 0; i < len(prefix); i++ {
		if prefix[i] >= 0x80 {
			res.Violatef("prefix-shape:non-ascii", rc, "domain prefix %q is not ASCII", prefix)
			return
		}
	}
	fb := refFallback(domain)
	if isA4Class(domain) {
		want := refPrefixASCII(domain)
		rc.Want = want
		if prefix != want {
			switch {
			case want == fb:
				res.Violatef("prefix-ascii:fallback-not-taken", rc, "prefix of %q is %q, want the fallback %q", domain, prefix, want)
			case prefix == fb:
				res.Violatef("prefix-ascii:fallback-unwarranted", rc, "prefix of %q is the fallback, want %q", domain, want)
			case strings.HasPrefix(want, "0-") != strings.HasPrefix(prefix, "0-"):
				res.Violatef("prefix-ascii:hyphens-at-3-4", rc, "prefix of %q is %q, want %q", domain, prefix, want)
			default:
				res.Violatef("prefix-ascii:mismatch", rc, "prefix of %q is %q, want %q", domain, prefix, want)
			}
		}
		if want == fb {
			res.Obs("prefix_ascii_fallback", 1)
		} else if strings.HasPrefix(want, "0-") {
			res.Obs("prefix_ascii_hyphens_3_4", 1)
		} else {
			res.Obs("prefix_ascii_basic", 1)
		}
		l := len(strings.Replace(strings.Replace(domain, "-", "--", -1), ".", "-", -1))
		if strings.HasPrefix(want, "0-") {
			l += 4
		}
		if l == 63 || l == 64 {
			res.Obs(fmt.Sprintf("prefix_ascii_basic_length_%d", l), 1)
		}
		return
	}
	// IDN class: invariants only
	for _, l := range strings.Split(domain, ".") {
		if len(l) >= 4 && strings.EqualFold(l[:4], "xn--") && l[:4] != "xn--" {
			res.Obs("prefix_idn_skipped_uppercase_xn", 1)
			return
		}
	}
	t, err := idna.ToUnicode(domain)
	if err != nil {
		if prefix != fb {
			res.Violatef("prefix-idn:fallback-not-taken", rc, "domain %q has an undecodable A-label but the prefix %q is not the fallback %q", domain, prefix, fb)
		}
		res.Obs("prefix_idn_undecodable_fallback", 1)
		return
	}
	w := strings.Replace(strings.Replace(t, "-", "--", -1), ".", "-", -1)
	var cands []string
	switch {
	case firstFourNonASCII(w):
		cands = []string{w, "0-" + w + "-0"} // position-3/4 rule not checked here
		res.Obs("prefix_idn_position_rule_not_checked", 1)
	case len(w) >= 4 && w[2] == '-' && w[3] == '-':
		cands = []string{"0-" + w + "-0"}
	default:
		cands = []string{w}
	}
	allowed := map[string]bool{}
	for _, c := range cands {
		enc, err := idna.ToASCII(c)
		if err != nil || len(enc) > 63 {
			allowed[fb] = true
		} else {
			allowed[enc] = true
		}
	}
	if !allowed[prefix] {
		switch {
		case prefix == fb:
			res.Violatef("prefix-idn:fallback-unwarranted", rc, "prefix of %q is the fallback although the basic result fits 63 bytes", domain)
		case len(allowed) == 1 && allowed[fb]:
			res.Violatef("prefix-idn:fallback-not-taken", rc, "prefix of %q is %q although the basic result exceeds 63 bytes", domain, prefix)
		default:
			res.Violatef("prefix-idn:mismatch", rc, "prefix of %q is %q; decoding it does not give the rewritten domain %q", domain, prefix, w)
		}
		return
	}
	if prefix == fb {
		res.Obs("prefix_idn_fallback", 1)
		return
	}
	res.Obs("prefix_idn_basic", 1)
	// decoding the returned label gives the rewritten Unicode string
	back, err := idna.ToUnicode(prefix)
	okBack := false
	for _, c := range cands {
		if back == c {
			okBack = true
		}
	}
	if err != nil || !okBack {
		res.Violatef("prefix-idn:mismatch", rc, "decoding prefix %q gives %q (%v), want the rewritten domain %q", prefix, back, err, w)
	}
}

// ---- CacheURL -------------------------------------------------------------------

var segChars = []rune("abcdefghijklmnopqrstuvwxyzABCDEFGHIJKLMNOPQRSTUVWXYZ0123456789-_~")

type urlCase struct {
	Case   string `json:"case"`
	Pub    string `json:"publisher_url"`
	Cache  string `json:"cache_url"`
	Type   string `json:"content_type"`
	Result string `json:"result,omitempty"`
	Note   string `json:"note,omitempty"`
}

func genCanonicalPath(r *vlib.Rand) string {
	switch r.Intn(8) {
	case 0:
		return ""
	case 1:
		return "/"
	}
	n := r.Range(1, 5)
	p := ""
	for i := 0; i < n; i++ {
		seg := r.StringFrom(segChars, r.Range(1, 12))
		switch r.Intn(10) {
		case 0:
			seg += "%20x"
		case 1:
			seg += "%2F"
		case 2:
			seg += "%25"
		case 3:
			seg += "%C3%BC" // properly escaped: net/url itself drops %2F when a raw non-ASCII byte shares the path
		case 4:
			seg = "..." + seg // not a dot segment
		}
		p += "/" + seg
	}
	return p
}

func genQuery(r *vlib.Rand) string {
	switch r.Intn(5) {
	case 0:
		return ""
	case 1:
		return "a=1"
	case 2:
		return "value=Hello%20World&x=%2F%3F&y=/c/s/"
	case 3:
		return r.StringFrom(segChars, r.Range(1, 20)) + "=" + r.StringFrom(segChars, r.Range(0, 20)) + "&&=;?"
	}
	return "q=" + b64url(r.Bytes(r.Range(1, 30)))
}

type cacheSpec struct {
	scheme, userinfo, host, port, path string
}

func (c cacheSpec) String() string {
	s := c.scheme + "://" + c.userinfo + c.host
	if c.port != "" {
		s += ":" + c.port
	}
	return s + c.path
}

func genCache(r *vlib.Rand) cacheSpec {
	c := cacheSpec{scheme: []string{"https", "https", "http"}[r.Intn(3)]}
	c.host = []string{"cdn.ampproject.org", "amp.cache", "www.bing-amp.com", "cache.example", "c"}[r.Intn(5)]
	if r.Chance(1, 4) {
		c.port = []string{"443", "80", "8443", "123"}[r.Intn(4)]
	}
	if r.Chance(1, 8) {
		c.userinfo = "cacheuser:pw@"
	}
	c.path = []string{"", "/", "/", "/amp", "/amp/", "/a/b/"}[r.Intn(6)]
	return c
}

// checkCacheURL runs CacheURL on a valid publisher/cache pair and applies the
// inverse mapping. d, when non-nil, is the poll the publisher path ends with.
func (h *H) checkCacheURL(id, scheme, domain, port, pubPath, query, frag string, canonical bool, cs cacheSpec, ct, domCls string, d []byte) (prefix string, ok bool) {
	res := h.res
	pubS := scheme + "://" + domain
	if port != "" {
		pubS += ":" + port
	}
	pubS += pubPath
	if query != "" {
		pubS += "?" + query
	}
	if frag != "" {
		pubS += "#" + frag
	}
	rc := urlCase{Case: id, Pub: pubS, Cache: cs.String(), Type: ct, Note: domCls}
	pub, err := url.Parse(pubS)
	if err != nil || pub.Hostname() != domain {
		res.Obs("cacheurl_skipped_unparseable_publisher", 1)
		return "", false
	}
	cache, err := url.Parse(cs.String())
	if err != nil {
		res.Obs("cacheurl_skipped_unparseable_cache", 1)
		return "", false
	}
	var out *url.URL
	res.Eval(1)
	if res.Guard("panic:CacheURL:valid-input", rc, func() { out, err = amp.CacheURL(pub, cache, ct) }) {
		return "", false
	}
	if err != nil || out == nil {
		res.Violatef("cacheurl-rejects-valid", rc, "CacheURL failed on a valid input: %v", err)
		return "", false
	}
	rc.Result = out.String()
	res.Obs("cacheurl_valid_cases", 1)

	// host = <prefix>.<cache host>[:port]
	suffix := "." + cs.host
	hn := out.Hostname()
	if !strings.HasSuffix(hn, suffix) || out.Port() != cs.port {
		res.Violatef("cacheurl-host-shape", rc, "result host %q is not <prefix>.%s with port %q", out.Host, cs.host, cs.port)
		return "", false
	}
	prefix = strings.TrimSuffix(hn, suffix)
	if out.Scheme != cs.scheme {
		res.Violatef("cacheurl-scheme", rc, "result scheme %q, cache scheme %q", out.Scheme, cs.scheme)
	}
	h.checkPrefix(id, domain, prefix, domCls)

	// path: <cache path>/<type>[/s]/<host><publisher path>
	base := strings.TrimSuffix(cs.path, "/")
	mk := func(s bool) string {
		p := base + "/" + ct
		if s {
			p += "/s"
		}
		return p + "/" + domain
	}
	https := scheme == "https"
	wantHead := mk(https)
	wrongHead := mk(!https)
	// judged on the serialised form, which is what the client hands to
	// http.NewRequest (url.URL.String supplies the leading slash of a
	// relative-looking path when there is a host)
	wire, perr := url.Parse(out.String())
	if perr != nil {
		res.Violatef("cacheurl-result-unparseable", rc, "the serialised result %q does not parse: %v", out.String(), perr)
		return prefix, false
	}
	got := wire.Path
	gotEsc := wire.EscapedPath()
	if canonical {
		tail := pub.Path
		tailEsc := pub.EscapedPath()
		if tail == "/" {
			tail, tailEsc = "", "" // the root: "/c/example.com" stands for "/c/example.com/"
		}
		switch {
		case got == wantHead+tail:
			if !strings.HasSuffix(gotEsc, tailEsc) {
				res.Violatef("cacheurl-path-not-kept:escaping", rc, "escaped result path %q does not end with the publisher's escaped path %q", gotEsc, tailEsc)
			}
		case got == wrongHead+tail:
			res.Violatef("cacheurl-s-component:"+scheme, rc, "result path %q: the \"s\" component must be present exactly for https publishers", got)
		default:
			res.Violatef("cacheurl-path-not-kept", rc, "result path %q, want %q", got, wantHead+tail)
		}
		res.Obs("cacheurl_canonical_paths", 1)
	} else {
		if !strings.HasPrefix(got, wantHead+"/") && got != wantHead {
			if strings.HasPrefix(got, wrongHead+"/") && !strings.HasPrefix(got, wantHead) {
				res.Violatef("cacheurl-s-component:"+scheme, rc, "result path %q: the \"s\" component must be present exactly for https publishers", got)
			} else {
				res.Violatef("cacheurl-path-not-kept", rc, "result path %q does not start with %q", got, wantHead)
			}
		}
		res.Obs("cacheurl_noncanonical_paths", 1)
	}
	if https {
		res.Obs("cacheurl_https_publishers", 1)
	} else {
		res.Obs("cacheurl_http_publishers", 1)
	}
	// query
	if out.RawQuery != pub.RawQuery {
		res.Violatef("cacheurl-query-not-kept", rc, "result query %q, publisher query %q", out.RawQuery, pub.RawQuery)
	} else if pub.RawQuery != "" {
		res.Obs("cacheurl_query_kept", 1)
		// and it survives serialisation, which is what goes on the wire
		if !strings.Contains(out.String(), "?"+pub.RawQuery) {
			res.Violatef("cacheurl-query-not-kept", rc, "query %q missing from the serialised result %q", pub.RawQuery, out.String())
		}
	}
	if pub.Fragment != "" {
		if out.Fragment == pub.Fragment {
			res.Obs("observed_fragment_kept", 1)
		} else {
			res.Obs("observed_fragment_not_kept", 1)
		}
	}
	// the poll is recovered from the final segment of what goes on the wire
	if d != nil {
		k := strings.LastIndexByte(gotEsc, '/')
		seg := gotEsc[k+1:]
		if seg != b64url(d) {
			res.Violatef("cacheurl-poll-lost", rc, "final path segment %q is not base64url of the %d-byte poll", clip(seg), len(d))
		}
		if canonical {
			// full inverse: cache strips its head, broker strips /amp/client/
			rest := strings.TrimPrefix(gotEsc, base+"/"+ct)
			if https {
				rest = strings.TrimPrefix(rest, "/s")
			}
			rest = strings.TrimPrefix(rest, "/"+url.PathEscape(domain))
			if i := strings.Index(rest, "/amp/client/"); i >= 0 {
				var back []byte
				var derr error
				p := rest[i+len("/amp/client/"):]
				if !res.Guard("panic:DecodePath:after-cache", rc, func() { back, derr = amp.DecodePath(p) }) {
					if derr != nil || !bytes.Equal(back, d) {
						res.Violatef("cacheurl-poll-lost", rc, "DecodePath(%s) after the cache's inverse mapping: %v", clip(p), derr)
					}
				}
				res.Obs("cacheurl_end_to_end_decodes", 1)
			} else {
				res.Violatef("cacheurl-path-not-kept", rc, "no /amp/client/ in what the cache would request: %q", rest)
			}
		}
		res.Obs("cacheurl_poll_paths", 1)
	}
	res.Distinct("url" + hashKey(pubS, cs.String(), ct))
	if res.GetObs("cacheurl_valid_cases") <= 4 {
		res.Sample(14, rc)
	}
	return prefix, true
}

func (h *H) checkCacheURLs(root *vlib.Rand) {
	res := h.res
	n := vlib.Scale(30000, 400000)
	for i := 0; i < n; i++ {
		r := root.SplitN("url", i)
		id := fmt.Sprintf("url/%d", i)
		scheme := []string{"http", "https"}[r.Intn(2)]
		port := ""
		if r.Chance(1, 5) {
			port = map[string]string{"http": "80", "https": "443"}[scheme]
		}
		cs := genCache(r)
		ct := "c"
		if r.Chance(1, 6) {
			ct = []string{"i", "v", "r", "c2", "wp"}[r.Intn(5)]
		}
		query, frag := genQuery(r), ""
		if r.Chance(1, 5) {
			frag = "frag-" + r.StringFrom(segChars, 4)
		}
		// publisher path: canonical, or a broker path with an encoded poll
		var pubPath string
		var d []byte
		canonical := true
		switch r.Intn(3) {
		case 0:
			pubPath = genCanonicalPath(r)
		default:
			d = genData(r)
			if len(d) == 0 {
				d = []byte{byte(i)}
			}
			brokerPath := []string{"/", "/broker/", "/a/b/"}[r.Intn(3)]
			pad := b64url(r.Bytes(9))
			if r.Chance(1, 3) {
				// hostile padding: the final segment must survive all the same
				pad = []string{"", "//", "/./", "/../x", "a//b", "..", "%2F", "/", "./."}[r.Intn(9)]
				canonical = false
			}
			pubPath = brokerPath + "amp/client/0" + pad + "/" + b64url(d)
			if canonical && path.Clean(pubPath) != pubPath {
				canonical = false
			}
		}
		switch r.Intn(4) {
		case 0, 1, 2:
			dom, cls := genASCIIDomain(r)
			if _, ok := h.checkCacheURL(id, scheme, dom, port, pubPath, query, frag, canonical, cs, ct, "ascii:"+cls, d); ok {
				res.Obs("domain_ascii_"+cls, 1)
			}
		default:
			if r.Chance(1, 10) {
				dom := undecodable[r.Intn(len(undecodable))]
				h.checkCacheURL(id, scheme, dom, port, pubPath, query, frag, canonical, cs, ct, "idn:undecodable", d)
				continue
			}
			domU, domA, ok := genIDN(r)
			if !ok {
				continue
			}
			pu, ok1 := h.checkCacheURL(id+"/U", scheme, domU, port, pubPath, query, frag, canonical, cs, ct, "idn:u-labels", d)
			pa, ok2 := h.checkCacheURL(id+"/A", scheme, domA, port, pubPath, query, frag, canonical, cs, ct, "idn:a-labels", d)
			if ok1 && ok2 && domU != domA {
				fbU, fbA := refFallback(domU), refFallback(domA)
				if pu != fbU && pa != fbA {
					if pu != pa {
						res.Violatef("prefix-idn:u-label-a-label-differ", prefixRec{Case: id, Domain: domU + " / " + domA, Prefix: pu + " / " + pa, Class: "idn"}, "U-label spelling %q gives prefix %q, A-label spelling %q gives %q", domU, pu, domA, pa)
					}
					res.Obs("prefix_idn_u_a_pairs_compared", 1)
				} else {
					res.Obs("prefix_idn_u_a_pairs_in_fallback", 1)
				}
			}
		}
	}

	// pinned examples of the AMP documentation (harness sanity for the reference)
	for _, ex := range [][2]string{{"example.com", "example-com"}, {"foo.example.com", "foo-example-com"}, {"foo-example.com", "foo--example-com"}, {"en-us.example.com", "0-en--us-example-com-0"}} {
		res.Require(refPrefixASCII(ex[0]) == ex[1], "harness: A4 reference disagrees with the AMP documentation example "+ex[0])
	}
	res.Require(refFallback("example.com") == "un42n5xov642kxrxrqiyanhcoupgql5lt4wtbkyt2ijflbwodfdq", "harness: fallback reference disagrees with the AMP documentation example")

	// --- documented rejections: a valid case with exactly one forbidden feature ---
	nrej := vlib.Scale(3000, 100000)
	for i := 0; i < nrej; i++ {
		r := root.SplitN("reject", i)
		dom, _ := genASCIIDomain(r)
		scheme := []string{"http", "https"}[r.Intn(2)]
		cs := genCache(r)
		p, q := genCanonicalPath(r), genQuery(r)
		pubS := scheme + "://" + dom + p
		cacheS := cs.String()
		ct := "c"
		var sig string
		switch i % 7 {
		case 0:
			s := []string{"", "ftp", "ws", "wss", "file", "httpss", "h", "gopher"}[r.Intn(8)]
			if s == "" {
				pubS = "//" + dom + p
			} else {
				pubS = s + "://" + dom + p
			}
			sig = "scheme"
		case 1:
			bad := map[string][]string{"http": {"443", "8080", "0", "81", "8"}, "https": {"80", "8443", "444", "44", "4430"}}[scheme]
			pubS = scheme + "://" + dom + ":" + bad[r.Intn(len(bad))] + p
			sig = "port"
		case 2:
			pubS = scheme + "://" + []string{"user@", "user:pass@", ":pass@", "a%40b@"}[r.Intn(4)] + dom + p
			sig = "userinfo"
		case 3:
			cacheS += "?" + []string{"a=1", "x", "="}[r.Intn(3)]
			sig = "cache-query"
		case 4:
			cacheS += "#" + []string{"fragment", "x"}[r.Intn(2)]
			sig = "cache-fragment"
		case 5:
			ct = ""
			sig = "empty-content-type"
		case 6:
			pubS = scheme + "://" + []string{"", ":80", ":443"}[r.Intn(3)] + "/index.html"
			if strings.Contains(pubS, ":80") && scheme == "https" || strings.Contains(pubS, ":443") && scheme == "http" {
				pubS = scheme + ":///index.html"
			}
			sig = "empty-host"
		}
		if q != "" {
			pubS += "?" + q
		}
		rc := urlCase{Case: fmt.Sprintf("reject/%d", i), Pub: pubS, Cache: cacheS, Type: ct, Note: "forbidden: " + sig}
		pub, err1 := url.Parse(pubS)
		cache, err2 := url.Parse(cacheS)
		if err1 != nil || err2 != nil {
			res.Obs("cacheurl_reject_skipped_unparseable", 1)
			continue
		}
		var out *url.URL
		var err error
		res.Eval(1)
		if res.Guard("panic:CacheURL:"+sig, rc, func() { out, err = amp.CacheURL(pub, cache, ct) }) {
			continue
		}
		if err == nil {
			rc.Result = out.String()
			res.Violatef("cacheurl-accepts:"+sig, rc, "CacheURL accepted an input its documentation forbids (%s)", sig)
		}
		res.Obs("cacheurl_reject_"+sig, 1)
		res.Distinct("rej" + hashKey(pubS, cacheS, ct))
	}

	// --- totality on hostile url.URL values ---
	hosts := []string{"", "[::1]", "[::1]:80", "a:b:c", "example.com:", ":80", "%zz", "exa mple.com", "例え.jp:443", strings.Repeat("a.", 200), "xn--", "...", "-", "[fe80::1%25eth0]"}
	ntot := vlib.Scale(3000, 100000)
	for i := 0; i < ntot; i++ {
		r := root.SplitN("hostile", i)
		mkURL := func() *url.URL {
			u := &url.URL{Scheme: []string{"http", "https", "", "HTTP"}[r.Intn(4)], Host: hosts[r.Intn(len(hosts))]}
			if r.Bool() {
				u.Path = string(r.Bytes(r.Intn(12)))
			}
			if r.Chance(1, 3) {
				u.RawPath = []string{"%zz", "/%", "/a%2Fb", "//"}[r.Intn(4)]
			}
			if r.Chance(1, 4) {
				u.Opaque = "opaque"
			}
			if r.Chance(1, 4) {
				u.User = url.UserPassword("u", "p")
			}
			if r.Chance(1, 3) {
				u.RawQuery = string(r.Bytes(r.Intn(8)))
			}
			if r.Chance(1, 4) {
				u.Fragment = "f"
			}
			return u
		}
		pub, cache := mkURL(), mkURL()
		ct := []string{"c", "", "/", "..", "%", "\x00"}[r.Intn(6)]
		rc := urlCase{Case: fmt.Sprintf("hostile/%d", i), Pub: fmt.Sprintf("%#v", *pub), Cache: fmt.Sprintf("%#v", *cache), Type: ct}
		res.Eval(1)
		res.Guard("panic:CacheURL:hostile-url-struct", rc, func() { amp.CacheURL(pub, cache, ct) })
		res.Obs("cacheurl_hostile_structs", 1)
	}
}

func TestVerifC11a(t *testing.T) {
	res := vlib.NewResult("C11", "api-c11a", "DecodePath on \"0\"‖pad‖\"/\"‖own-base64url(d) for 9 padding classes (empty, slashes, percent signs, raw bytes, dot segments, decoy data, long) and PRNG data, plus EncodePath round trips and every malformed class (each other version byte, no slash, foreign byte / impossible length / standard alphabet in the base64 part); CacheURL on PRNG publisher URLs (http/https, default ports, canonical paths and broker paths ending in an encoded poll behind hostile padding, queries) x cache URLs (ports, paths, userinfo) with the cache's inverse mapping as oracle; domain prefix against the A4 string reference for ASCII domains (12 classes incl. hyphens at 3-4, rewritten length around 63) and by invariants for IDN (U/A-label pairs, undecodable A-labels); each documented rejection on an otherwise valid input. Non-trivial = path with non-empty data behind non-trivial padding, or a CacheURL case; distinct by hash of the inputs")
	defer res.Finish()
	h := &H{res: res}
	root := vlib.NewRand(vlib.Seed()).Split("c11a")

	h.checkDecodePaths(root)
	h.checkCacheURLs(root)

	for _, cls := range padClasses {
		res.RequireObs("decodepath_pad_"+cls, 1000)
	}
	res.RequireObs("encodepath_roundtrips", 1000)
	for _, k := range []string{"missing-version", "unknown-version", "missing-slash", "bad-base64:foreign-byte", "bad-base64:impossible-length", "bad-base64:std-alphabet"} {
		res.RequireObs("decodepath_reject_"+k, 1)
	}
	res.RequireObs("decodepath_reject_unknown-version", 255*6)
	res.RequireObs("decodepath_arbitrary_inputs", 10000)
	res.RequireObs("cacheurl_valid_cases", 20000)
	res.RequireObs("cacheurl_canonical_paths", 5000)
	res.RequireObs("cacheurl_noncanonical_paths", 1000)
	res.RequireObs("cacheurl_poll_paths", 5000)
	res.RequireObs("cacheurl_end_to_end_decodes", 3000)
	res.RequireObs("cacheurl_http_publishers", 5000)
	res.RequireObs("cacheurl_https_publishers", 5000)
	res.RequireObs("cacheurl_query_kept", 5000)
	for _, k := range []string{"prefix_ascii_basic", "prefix_ascii_hyphens_3_4", "prefix_ascii_fallback", "prefix_idn_basic", "prefix_idn_fallback", "prefix_idn_undecodable_fallback", "prefix_idn_u_a_pairs_compared"} {
		res.RequireObs(k, 100)
	}
	res.RequireObs("prefix_ascii_basic_length_63", 1)
	res.RequireObs("prefix_ascii_basic_length_64", 1)
	for _, cls := range []string{"typical", "hyphen-at-3", "hyphen-at-4", "dot-hyphen-at-3", "hyphen-dot-at-2", "xn-lookalike", "around-63", "long", "single-label", "leading-hyphens", "random", "empty-label"} {
		res.RequireObs("domain_ascii_"+cls, 100)
	}
	for _, k := range []string{"scheme", "port", "userinfo", "cache-query", "cache-fragment", "empty-content-type", "empty-host"} {
		res.RequireObs("cacheurl_reject_"+k, 100)
	}
	res.RequireObs("cacheurl_hostile_structs", 1000)
}
