// C06 (a) — the namematcher superset law.
// Engine: api (exported functions of common/namematcher), -race.
// Oracle: the law stated by the property itself,
//
//	A.IsSupersetOf(B) ∧ B.IsMember(h)  ⇒  A.IsMember(h)
//
// monitored on (1) PRNG triples (A, B, h) assembled from one shared stock of
// suffix strings, biased so that the premise is true in well over 30 % of the
// cases, and (2) two finite sub-spaces enumerated completely. Nothing else is
// demanded (in particular no reference semantics for IsMember: that is part
// (b)/(c) of C06).
package c06

import (
	"fmt"
	"strings"
	"testing"

	"git.torproject.org/pluggable-transports/snowflake.git/v2/common/namematcher"
	"verif/vlib"
)

// ---- the monitor ------------------------------------------------------------

type lawCase struct {
	Case string `json:"case"`
	A    string `json:"pattern_a"`
	B    string `json:"pattern_b"`
	Host string `json:"hostname"`
	Sup  bool   `json:"a_superset_of_b"`
	MemB bool   `json:"b_member"`
	MemA bool   `json:"a_member"`
}

// patClass describes the shape of a raw rule string (for signatures and
// observation counters): exact ("^…") or suffix, as NewNameMatcher reads it.
func patClass(rule string) string {
	r := rule
	if len(r) > 0 && r[len(r)-1] == '$' {
		r = r[:len(r)-1]
	}
	if len(r) > 0 && r[0] == '^' {
		return "exact"
	}
	return "suffix"
}

// checkLaw evaluates one triple. Returns whether the premise was true.
func checkLaw(res *vlib.Result, section, id string, ra, rb, h string, a, b *namematcher.NameMatcher) bool {
	sup := a.IsSupersetOf(*b)
	if !sup {
		return false
	}
	memB := b.IsMember(h)
	if !memB {
		return false
	}
	memA := a.IsMember(h)
	if !memA {
		res.Violatef("superset-law:"+patClass(ra)+"-over-"+patClass(rb),
			lawCase{Case: id, A: ra, B: rb, Host: h, Sup: sup, MemB: memB, MemA: memA},
			"NewNameMatcher(%q).IsSupersetOf(NewNameMatcher(%q)) is true and %q is a member of the latter but not of the former", ra, rb, h)
	}
	return true
}

// ---- generator ----------------------------------------------------------------

// The shared stock: every pattern core and every hostname is assembled from
// these (so that suffix / equal / disjoint relations occur by construction).
var stock = []string{
	"", "net", ".net", "torproject.net", ".torproject.net", "snowflake.torproject.net",
	"faketorproject.net", "snowflake.faketorproject.net", "example.com", "com", ".com",
	"a", "b.a", "c.b.a", "a.a", "aa", "127.0.0.1", "0.0.1", "1", "[::1]", "::1",
	"xn--bcher-kva.example", "EXAMPLE.com", "example.com.", ".", "..", "$", "^", "a$", "^a", "ne",
	"t", "et", "bridge.example.com", "01.bridge.example.com",
}

var labels = []string{"", "x", "x.", "www.", "01-", "imaginary-aaa-", ".", "a", "a.", "^", "$", "snowflake.", "fake", "-"}

func genCore(r *vlib.Rand) string {
	s := r.PickString(stock)
	for k := r.Intn(3); k > 0; k-- {
		if r.Chance(1, 2) {
			s = r.PickString(labels) + s
		}
	}
	return s
}

// decorate turns a core into a raw rule. wantExact: 0 = suffix forms mostly,
// 1 = exact forms mostly, anything else = unbiased.
func decorate(r *vlib.Rand, core string, wantExact int) string {
	k := r.Intn(20)
	if wantExact == 0 && k < 8 && r.Chance(3, 4) {
		k = 8 + r.Intn(10)
	}
	if wantExact == 1 && k >= 8 && r.Chance(3, 4) {
		k = r.Intn(8)
	}
	s := core
	switch {
	case k < 6:
		s = "^" + s + "$" // exact rule
	case k < 8:
		s = "^" + s // exact, no trailing $
	case k < 15:
		s = s + "$" // suffix rule (the documented form)
	case k < 18:
		// bare
	case k == 18:
		s = "^^" + s + "$"
	default:
		s = s + "$$"
	}
	return s
}

// tailOf returns a random suffix (in the string sense) of s, cut at any byte.
func tailOf(r *vlib.Rand, s string) string {
	if len(s) == 0 {
		return s
	}
	return s[r.Intn(len(s)+1):]
}

// effective suffix of a rule as NewNameMatcher computes it is NOT recomputed
// here for an oracle; the generator only uses the cores it assembled itself.
func genTriple(r *vlib.Rand) (ra, rb, h string, kind string) {
	coreB := genCore(r)
	var coreA string
	switch r.Intn(10) {
	case 0, 1, 2, 3:
		coreA = tailOf(r, coreB) // A's core is a suffix of B's
		kind = "a-suffix-of-b"
	case 4, 5:
		coreA = coreB
		kind = "equal"
	case 6:
		coreA = r.PickString(labels) + coreB // B's core is a proper suffix of A's
		kind = "b-suffix-of-a"
	case 7:
		coreA = ""
		kind = "a-empty"
	default:
		coreA = genCore(r)
		kind = "independent"
	}
	rb = decorate(r, coreB, 2)
	switch kind {
	case "a-suffix-of-b", "a-empty":
		ra = decorate(r, coreA, 0)
	case "equal":
		if patClass(rb) == "exact" && r.Chance(1, 2) {
			ra = decorate(r, coreA, 1)
		} else {
			ra = decorate(r, coreA, 0)
		}
		if r.Chance(1, 4) {
			ra = rb
		}
	default:
		ra = decorate(r, coreA, 2)
	}
	k := r.Intn(20)
	switch {
	case patClass(rb) == "exact" && k < 14:
		h = coreB
	case k < 6:
		h = coreB
	case k < 13:
		h = r.PickString(labels) + coreB
	case k < 16:
		h = r.PickString(labels) + r.PickString(labels) + coreB
	case k < 18:
		h = genCore(r)
	default:
		h = r.PickString(labels) + coreA
	}
	return
}

// ---- the test -------------------------------------------------------------------

func TestVerifC06a(t *testing.T) {
	res := vlib.NewResult("C06", "api-c06a", "(a) superset law A.IsSupersetOf(B) && B.IsMember(h) => A.IsMember(h): PRNG triples (pattern A, pattern B, hostname) assembled from one stock of suffix strings with/without ^ and $ (equal, one a suffix of the other, empty, disjoint), plus two finite sub-spaces enumerated completely (all rules ^?s$? and hosts with s over {a,.}, and all raw rule strings over {a,.,^,$}); non-trivial = premise true (A judged superset of B and h accepted by B), distinct by (A,B,h)")
	defer res.Finish()
	root := vlib.NewRand(vlib.Seed()).Split("c06a")

	// 1. PRNG triples
	n := vlib.Scale(100000, 10000000)
	premise := 0
	for i := 0; i < n; i++ {
		r := root.SplitN("triple", i)
		ra, rb, h, kind := genTriple(r)
		a := namematcher.NewNameMatcher(ra)
		b := namematcher.NewNameMatcher(rb)
		res.Eval(1)
		id := fmt.Sprintf("rand/%d", i)
		var prem bool
		if res.Guard("panic:namematcher", lawCase{Case: id, A: ra, B: rb, Host: h}, func() {
			prem = checkLaw(res, "rand", id, ra, rb, h, &a, &b)
		}) {
			continue
		}
		if prem {
			premise++
			res.Distinct(ra + "\x00" + rb + "\x00" + h)
			res.Obs("rand_premise_true", 1)
			res.Obs("rand_premise_true_"+patClass(ra)+"_over_"+patClass(rb), 1)
			res.Obs("rand_premise_true_kind_"+kind, 1)
			if a.IsMember(h) {
				res.Obs("rand_conclusion_true", 1)
			}
		} else {
			// non-vacuity of IsMember itself: count cases where A rejects h
			if !a.IsMember(h) {
				res.Obs("rand_a_rejects_host", 1)
			}
		}
		if i < 4 {
			res.Sample(4, lawCase{Case: id, A: ra, B: rb, Host: h, Sup: a.IsSupersetOf(b), MemB: b.IsMember(h), MemA: a.IsMember(h)})
		}
	}
	res.Obs("rand_cases", int64(n))
	res.Note("rand_premise_true_percent", 100*premise/n)
	res.Require(premise*100 >= 30*n, fmt.Sprintf("premise true in %d of %d PRNG cases (< 30 %%)", premise, n))

	// 2. exhaustive: rules ^?s$? with s over {a,.} up to length 4; hosts over {a,.} up to length 5
	strs4 := allStrings([]byte{'a', '.'}, 4)
	hosts5 := allStrings([]byte{'a', '.'}, 5)
	var rules []string
	for _, s := range strs4 {
		rules = append(rules, s, s+"$", "^"+s, "^"+s+"$")
	}
	exhaustive(res, "exh-a.", rules, hosts5)

	// 3. exhaustive: every raw rule string over {a,.,^,$} up to length 3
	// (covers "^$", "$$", "^^", "$^" … as NewNameMatcher actually reads them);
	// hosts over the same alphabet up to length 3.
	raw3 := allStrings([]byte{'a', '.', '^', '$'}, 3)
	exhaustive(res, "exh-raw", raw3, raw3)

	// 4. membership against the documented pattern language, for rules of the
	// valid form ^?core$ (core without ^ or $): "^core$" accepts exactly core,
	// "core$" accepts every name ending in core. Hosts are built around the core:
	// equal, prefixed, suffixed, the core repeated around a foreign part, a proper
	// tail, empty.
	nm := vlib.Scale(20000, 1000000)
	for i := 0; i < nm; i++ {
		r := root.SplitN("member", i)
		core := genCore(r)
		if strings.ContainsAny(core, "^$") {
			core = strings.Map(func(c rune) rune {
				if c == '^' || c == '$' {
					return 'x'
				}
				return c
			}, core)
		}
		exact := r.Bool()
		rule := core + "$"
		if exact {
			rule = "^" + rule
		}
		x := r.PickString([]string{"x", ".", "www.", "-", ".cdn-", "a", "evil.example."})
		var h, hk string
		switch r.Intn(7) {
		case 0:
			h, hk = core, "equal"
		case 1:
			h, hk = x+core, "prefixed"
		case 2:
			h, hk = core+x, "suffixed"
		case 3:
			h, hk = core+x+core, "repeated"
		case 4:
			h, hk = tailOf(r, core), "tail"
		case 5:
			h, hk = "", "empty"
		default:
			h, hk = x+core+x, "infix"
		}
		want := strings.HasSuffix(h, core)
		if exact {
			want = h == core
		}
		m := namematcher.NewNameMatcher(rule)
		res.Eval(1)
		var got bool
		if res.Guard("panic:namematcher", lawCase{Case: fmt.Sprintf("member/%d", i), A: rule, Host: h}, func() { got = m.IsMember(h) }) {
			continue
		}
		res.Obs("member_reference_cases", 1)
		if want {
			res.Obs("member_reference_accepting", 1)
		}
		if hk == "repeated" && exact && h != core {
			res.Obs("member_reference_exact_repeated_name", 1)
		}
		if got != want {
			cls := "suffix"
			if exact {
				cls = "exact"
			}
			verdict := "accepts-nonmember"
			if want {
				verdict = "rejects-member"
			}
			res.Violatef("member-reference:"+cls+":"+verdict+":"+hk, lawCase{Case: fmt.Sprintf("member/%d", i), A: rule, Host: h, MemA: got},
				"NewNameMatcher(%q).IsMember(%q) = %v; the pattern language says %v (%s pattern, host %s)", rule, h, got, want, cls, hk)
		}
		if i%97 == 0 {
			res.Distinct("member\x00" + rule + "\x00" + h)
		}
	}
	res.RequireObs("member_reference_cases", int64(nm)*9/10)
	res.RequireObs("member_reference_accepting", int64(nm)/10)
	res.RequireObs("member_reference_exact_repeated_name", 100)

	res.RequireObs("rand_premise_true", int64(n)*30/100)
	res.RequireObs("rand_premise_true_exact_over_exact", 100)
	res.RequireObs("rand_premise_true_suffix_over_exact", 100)
	res.RequireObs("rand_premise_true_suffix_over_suffix", 100)
	res.RequireObs("rand_a_rejects_host", 100)
	res.RequireObs("exh-a._premise_true", 1000)
	res.RequireObs("exh-raw_premise_true", 1000)
	res.RequireObs("exh-a._triples", int64(len(rules)*len(rules)*len(hosts5)))
	res.RequireObs("exh-raw_triples", int64(len(raw3)*len(raw3)*len(raw3)))
}

func allStrings(alpha []byte, maxLen int) []string {
	out := []string{""}
	prev := []string{""}
	for l := 1; l <= maxLen; l++ {
		var cur []string
		for _, p := range prev {
			for _, c := range alpha {
				cur = append(cur, p+string(c))
			}
		}
		out = append(out, cur...)
		prev = cur
	}
	return out
}

func exhaustive(res *vlib.Result, name string, rules, hosts []string) {
	ms := make([]namematcher.NameMatcher, len(rules))
	for i, s := range rules {
		ms[i] = namematcher.NewNameMatcher(s)
	}
	var triples, prem, supPairs int64
	for i := range rules {
		for j := range rules {
			a, b := &ms[i], &ms[j]
			id := fmt.Sprintf("%s/%d/%d", name, i, j)
			var pt int64
			sup := false
			res.Guard("panic:namematcher", lawCase{Case: id, A: rules[i], B: rules[j]}, func() {
				sup = a.IsSupersetOf(*b)
				for _, h := range hosts {
					if checkLaw(res, name, id, rules[i], rules[j], h, a, b) {
						pt++
					}
				}
			})
			triples += int64(len(hosts))
			prem += pt
			if sup {
				supPairs++
			}
			if pt > 0 {
				res.Distinct(name + "\x00" + rules[i] + "\x00" + rules[j])
			}
		}
	}
	res.Eval(triples)
	res.Obs(name+"_triples", triples)
	res.Obs(name+"_rules", int64(len(rules)))
	res.Obs(name+"_hosts", int64(len(hosts)))
	res.Obs(name+"_superset_pairs", supPairs)
	res.Obs(name+"_premise_true", prem)
}
