module verifharness

go 1.21

require (
	git.torproject.org/pluggable-transports/snowflake.git/v2 v2.0.0
	github.com/anishathalye/porcupine v1.3.0
	verif/vlib v0.0.0
)

replace git.torproject.org/pluggable-transports/snowflake.git/v2 => /repo

replace verif/vlib => /verif/harness/vlib
