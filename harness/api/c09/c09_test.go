// C09 — packet framing round-trips under any read fragmentation.
// Engine: api (exported functions of common/encapsulation), -race (checkptr).
// Oracle: an independent reference decoder over the raw byte stream; the
// real ReadData, fed the same bytes through readers exercising the whole
// io.Reader contract, must return the same chunks and the same terminal error.
package c09

import (
	"bytes"
	"errors"
	"fmt"
	"hash/fnv"
	"io"
	"runtime"
	"testing"
	"time"

	"git.torproject.org/pluggable-transports/snowflake.git/v2/common/encapsulation"
	"verif/vlib"
)

// ---- reference ------------------------------------------------------------

type refOut struct {
	chunks [][]byte
	err    error
	// ambiguous: stream ended right after a third prefix byte with the
	// continuation bit set: too-long and unexpected-EOF are both defensible.
	ambiguous bool
}

func refDecode(b []byte) refOut {
	var out refOut
	i := 0
	for {
		if i == len(b) {
			out.err = io.EOF
			return out
		}
		first := b[i]
		i++
		isData := first&0x80 != 0
		more := first&0x40 != 0
		n := int(first & 0x3f)
		cnt := 0
		for more {
			if cnt >= 2 {
				out.err = encapsulation.ErrTooLong
				out.ambiguous = i == len(b)
				return out
			}
			if i == len(b) {
				out.err = io.ErrUnexpectedEOF
				return out
			}
			c := b[i]
			i++
			more = c&0x80 != 0
			n = n<<7 | int(c&0x7f)
			cnt++
		}
		if len(b)-i < n {
			out.err = io.ErrUnexpectedEOF
			return out
		}
		if isData {
			out.chunks = append(out.chunks, b[i:i+n])
		}
		i += n
	}
}

// own encoder, with a chosen prefix width (1..3), data or padding
func encodeItem(buf *bytes.Buffer, data bool, n, width int, fill byte) {
	var d byte
	if data {
		d = 0x80
	}
	switch width {
	case 1:
		buf.WriteByte(d | byte(n&0x3f))
	case 2:
		buf.WriteByte(d | 0x40 | byte((n>>7)&0x3f))
		buf.WriteByte(byte(n & 0x7f))
	case 3:
		buf.WriteByte(d | 0x40 | byte((n>>14)&0x3f))
		buf.WriteByte(0x80 | byte((n>>7)&0x7f))
		buf.WriteByte(byte(n & 0x7f))
	}
	for i := 0; i < n; i++ {
		buf.WriteByte(fill + byte(i))
	}
}

func minWidth(n int) int {
	switch {
	case n < 1<<6:
		return 1
	case n < 1<<13:
		return 2
	}
	return 3
}

// ---- hostile readers --------------------------------------------------------

type readerMode struct {
	name     string
	maxRead  int  // 0 = whatever the caller asks
	zeroProb int  // per-mille chance of a (0,nil) read before a real one
	eofWith  bool // deliver the final bytes together with io.EOF
}

var modes = []readerMode{
	{name: "full"},
	{name: "short", maxRead: 7},
	{name: "onebyte", maxRead: 1},
	{name: "zero-reads", zeroProb: 300},
	{name: "zero-reads+short", maxRead: 3, zeroProb: 300},
	{name: "data-with-eof", eofWith: true},
	{name: "data-with-eof+short", maxRead: 5, eofWith: true},
	{name: "data-with-eof+onebyte", maxRead: 1, eofWith: true},
	{name: "zero+eof+short", maxRead: 4, zeroProb: 200, eofWith: true},
}

type hostileReader struct {
	b     []byte
	m     readerMode
	r     *vlib.Rand
	zeros int
	reads int
	done  bool
}

func (h *hostileReader) Read(p []byte) (int, error) {
	h.reads++
	if len(p) == 0 {
		return 0, nil
	}
	if len(h.b) == 0 {
		return 0, io.EOF
	}
	if h.m.zeroProb > 0 && h.zeros < 4 && h.r.Intn(1000) < h.m.zeroProb {
		// at most 4 consecutive empty reads: the contract discourages but
		// permits them, and io.ReadFull etc. tolerate any finite number
		h.zeros++
		return 0, nil
	}
	h.zeros = 0
	n := len(p)
	if h.m.maxRead > 0 {
		k := h.r.Range(1, h.m.maxRead)
		if k < n {
			n = k
		}
	}
	if n > len(h.b) {
		n = len(h.b)
	}
	copy(p, h.b[:n])
	h.b = h.b[n:]
	if len(h.b) == 0 && h.m.eofWith {
		return n, io.EOF
	}
	return n, nil
}

// ---- comparing ------------------------------------------------------------

func errName(e error) string {
	switch {
	case e == nil:
		return "nil"
	case e == io.EOF:
		return "EOF"
	case e == io.ErrUnexpectedEOF:
		return "ErrUnexpectedEOF"
	case e == encapsulation.ErrTooLong:
		return "ErrTooLong"
	}
	return "other(" + e.Error() + ")"
}

type caseRec struct {
	Case   string `json:"case"`
	Stream string `json:"stream_hex_prefix"`
	Len    int    `json:"stream_len"`
	Mode   string `json:"reader_mode"`
	Seed   uint64 `json:"reader_seed"`
	Desc   string `json:"desc,omitempty"`
}

func hexPrefix(b []byte) string {
	if len(b) > 96 {
		return fmt.Sprintf("%x…", b[:96])
	}
	return fmt.Sprintf("%x", b)
}

// decodeAll runs the real ReadData to the terminal error.
func decodeAll(r io.Reader, limit int) (chunks [][]byte, err error) {
	for i := 0; i <= limit; i++ {
		var p []byte
		p, err = encapsulation.ReadData(r)
		if err != nil {
			return chunks, err
		}
		chunks = append(chunks, p)
	}
	return chunks, errors.New("harness: more chunks than the stream can hold")
}

func compare(res *vlib.Result, ref refOut, stream []byte, mode readerMode, rseed uint64, caseID, desc string) {
	res.Eval(1)
	rec := caseRec{Case: caseID, Stream: hexPrefix(stream), Len: len(stream), Mode: mode.name, Seed: rseed, Desc: desc}
	hr := &hostileReader{b: stream, m: mode, r: vlib.NewRand(rseed)}
	var chunks [][]byte
	var err error
	if res.Guard("panic:ReadData:"+mode.name, rec, func() { chunks, err = decodeAll(hr, len(stream)+1) }) {
		return
	}
	bad := ""
	if len(chunks) != len(ref.chunks) {
		bad = fmt.Sprintf("got %d chunks, reference %d", len(chunks), len(ref.chunks))
	} else {
		for i := range chunks {
			if !bytes.Equal(chunks[i], ref.chunks[i]) {
				bad = fmt.Sprintf("chunk %d differs (len %d vs %d)", i, len(chunks[i]), len(ref.chunks[i]))
				break
			}
		}
	}
	if bad == "" && err != ref.err {
		if !(ref.ambiguous && err == io.ErrUnexpectedEOF) {
			bad = fmt.Sprintf("terminal error %s, reference %s", errName(err), errName(ref.err))
		}
	}
	if bad != "" {
		cls := "fragmentation"
		switch {
		case mode.zeroProb > 0 && !mode.eofWith:
			cls = "zero-length-read"
		case mode.eofWith && mode.zeroProb == 0:
			cls = "data-with-eof"
		case mode.eofWith && mode.zeroProb > 0:
			cls = "zero-length-read+data-with-eof"
		case mode.name == "full":
			cls = "plain"
		}
		res.Violatef("decode-mismatch:"+cls, rec, "ReadData under reader %q: %s (terminal %s vs %s)", mode.name, bad, errName(err), errName(ref.err))
	}
}

// ---- generators -------------------------------------------------------------

var boundaryLens = []int{0, 1, 2, 62, 63, 64, 65, 127, 128, 1000, 8190, 8191, 8192, 8193, 16383, 16384, 70000}
var bigLens = []int{1<<20 - 1, 1<<20 - 2, 1 << 19, 262144}

func genStream(r *vlib.Rand, allowBig bool) (stream []byte, nItems int, desc string) {
	var buf bytes.Buffer
	n := r.Range(0, 6)
	for i := 0; i < n; i++ {
		var ln int
		switch r.Intn(10) {
		case 0, 1, 2, 3, 4:
			ln = r.PickInt(boundaryLens[:13])
		case 5, 6:
			ln = r.Intn(300)
		case 7:
			ln = r.PickInt(boundaryLens)
		case 8:
			ln = r.Intn(20000)
		default:
			if allowBig && r.Chance(1, 4) {
				ln = r.PickInt(bigLens)
			} else {
				ln = r.Intn(64)
			}
		}
		data := r.Chance(2, 3)
		how := r.Intn(3)
		if how == 0 && data {
			// the real encoder
			p := r.Bytes(ln)
			encapsulation.WriteData(&buf, p)
			desc += fmt.Sprintf("WriteData(%d) ", ln)
		} else if how == 0 && !data {
			encapsulation.WritePadding(&buf, ln)
			desc += fmt.Sprintf("WritePadding(%d) ", ln)
		} else {
			w := minWidth(ln)
			if how == 2 && w < 3 {
				w = r.Range(w, 3) // non-minimal prefix
			}
			encodeItem(&buf, data, ln, w, byte(r.Intn(256)))
			desc += fmt.Sprintf("item(data=%v,len=%d,width=%d) ", data, ln, w)
		}
	}
	return buf.Bytes(), n, desc
}

func hashKey(b []byte, extra string) string {
	h := fnv.New64a()
	h.Write(b)
	h.Write([]byte(extra))
	return fmt.Sprintf("%x", h.Sum64())
}

// ---- the test -------------------------------------------------------------

func TestVerifC09(t *testing.T) {
	res := vlib.NewResult("C09", "api-c09", "PRNG sequences of data/padding items (lengths on every prefix boundary; real and non-minimal own encoder), arbitrary bytes, all truncation points of short streams, each decoded through 9 io.Reader behaviours and compared with an independent reference decoder; non-trivial = stream with >=2 items read through a fragmenting/zero-read/data-with-EOF reader, distinct by (stream hash, reader mode)")
	defer res.Finish()
	root := vlib.NewRand(vlib.Seed()).Split("c09")

	// 1. generated streams x reader modes
	nStreams := vlib.Scale(1500, 60000)
	for i := 0; i < nStreams; i++ {
		r := root.SplitN("stream", i)
		stream, nItems, desc := genStream(r, i%50 == 0)
		ref := refDecode(stream)
		for mi, m := range modes {
			if len(stream) > 200000 && m.maxRead > 0 && m.maxRead < 4 && i%200 != 0 {
				continue // one-byte reads of MiB streams: only occasionally
			}
			rseed := r.Uint64()
			id := fmt.Sprintf("stream/%d/%d", i, mi)
			compare(res, ref, stream, m, rseed, id, desc)
			if nItems >= 2 && m.name != "full" {
				res.Distinct(hashKey(stream, m.name))
			}
		}
		res.Obs("generated_streams", 1)
		if i < 2 {
			res.Sample(6, caseRec{Case: fmt.Sprintf("stream/%d", i), Stream: hexPrefix(stream), Len: len(stream), Mode: "all 9", Desc: desc})
		}
	}

	// 2. every truncation point of short streams, every mode
	nTrunc := vlib.Scale(120, 3000)
	for i := 0; i < nTrunc; i++ {
		r := root.SplitN("trunc", i)
		var stream []byte
		var desc string
		for tries := 0; tries < 50; tries++ {
			stream, _, desc = genStream(r, false)
			if len(stream) > 0 && len(stream) <= 400 {
				break
			}
			stream = nil
		}
		if stream == nil {
			continue
		}
		for cut := 0; cut <= len(stream); cut++ {
			ref := refDecode(stream[:cut])
			m := modes[(cut+i)%len(modes)]
			compare(res, ref, stream[:cut], m, r.Uint64(), fmt.Sprintf("trunc/%d/%d", i, cut), desc)
			res.Distinct(hashKey(stream[:cut], "trunc"+m.name))
			res.Obs("truncation_points", 1)
			res.Obs("terminal_"+errName(ref.err), 1)
		}
		res.Obs("streams_with_all_truncation_points", 1)
	}

	// 2b. the reader fails with a non-EOF error at PRNG points of generated streams
	nFail := vlib.Scale(1500, 40000)
	for i := 0; i < nFail; i++ {
		r := root.SplitN("readerr", i)
		stream, _, desc := genStream(r, false)
		if len(stream) == 0 || len(stream) > 60000 {
			continue
		}
		for rep := 0; rep < 3; rep++ {
			k := r.Intn(len(stream) + 1)
			checkReaderError(res, stream, k, r.Uint64(), fmt.Sprintf("readerr/%d/%d", i, rep), desc)
		}
	}

	// 3. arbitrary bytes (biased towards prefix-looking bytes)
	nArb := vlib.Scale(4000, 400000)
	for i := 0; i < nArb; i++ {
		r := root.SplitN("arb", i)
		b := r.Bytes(r.Range(0, 40))
		if r.Bool() {
			for j := range b {
				if r.Chance(1, 3) {
					b[j] = byte(r.PickInt([]int{0x00, 0x01, 0x40, 0x41, 0x80, 0x81, 0xc0, 0xc1, 0xff, 0x7f, 0x3f}))
				}
			}
		}
		ref := refDecode(b)
		m := modes[i%len(modes)]
		compare(res, ref, b, m, r.Uint64(), fmt.Sprintf("arb/%d", i), "arbitrary bytes")
		res.Obs("arbitrary_inputs", 1)
		res.Obs("terminal_"+errName(ref.err), 1)
	}

	// 4. prefix over three bytes is rejected, for every first byte with c=1
	for first := 0; first < 256; first++ {
		if first&0x40 == 0 {
			continue
		}
		for _, tailLen := range []int{0, 1, 5} {
			b := append([]byte{byte(first), 0x80 | byte(first), 0x80}, make([]byte, tailLen)...)
			ref := refDecode(b)
			compare(res, ref, b, modes[0], 1, fmt.Sprintf("toolong/%d/%d", first, tailLen), "4-byte prefix")
			res.Obs("too_long_prefix_cases", 1)
		}
	}

	// 5. the real feeder: io.Pipe written once per message, with empty messages
	nPipe := vlib.Scale(200, 5000)
	for i := 0; i < nPipe; i++ {
		r := root.SplitN("pipe", i)
		checkPipe(res, r, i)
	}

	// 5b. dense sweep of the real encoder: every chunk length 0..N (not only the
	// prefix boundaries) and 2^k-2..2^k+2, each followed by a sentinel chunk, must
	// be read back as exactly (chunk, sentinel, EOF) by the reference decoder and
	// by ReadData, and WriteData must report the bytes it wrote
	denseMax := vlib.Scale(20000, 150000)
	var denseNs []int
	for n := 0; n <= denseMax; n++ {
		denseNs = append(denseNs, n)
	}
	for k := 4; k <= 20; k++ {
		for d := -2; d <= 2; d++ {
			if n := 1<<uint(k) + d; n > denseMax && n < 1<<20 {
				denseNs = append(denseNs, n)
			}
		}
	}
	dr := root.Split("dense")
	for _, n := range denseNs {
		checkDenseWrite(res, dr, n)
	}

	// 6. WritePadding(n): exactly n bytes, invisible to the reader
	padMax := 5000
	var padNs []int
	for n := 0; n <= padMax; n++ {
		padNs = append(padNs, n)
	}
	for i := 0; i < vlib.Scale(30, 600); i++ {
		padNs = append(padNs, root.SplitN("pad", i).Intn(1<<21+1))
	}
	for _, n := range padNs {
		checkPadding(res, n)
	}

	// 7. MaxDataForSize never exceeds its budget
	var budgets []int
	for n := 1; n <= 20000; n++ {
		budgets = append(budgets, n)
	}
	for _, b := range []int{1 << 6, 1 << 13, 1 << 20, 1<<20 + 3, 1 << 21} {
		for d := -8; d <= 8; d++ {
			if b+d > 0 {
				budgets = append(budgets, b+d)
			}
		}
	}
	for i := 0; i < vlib.Scale(50, 2000); i++ {
		budgets = append(budgets, 1+root.SplitN("budget", i).Intn(1<<21))
	}
	for _, n := range budgets {
		checkBudget(res, n)
	}

	// 8. allocation bounded by the announced length
	checkAlloc(res)

	res.RequireObs("generated_streams", 1000)
	res.RequireObs("streams_with_all_truncation_points", 100)
	res.RequireObs("truncation_points", 3000)
	res.RequireObs("too_long_prefix_cases", 300)
	res.RequireObs("padding_sizes_checked", 5001)
	res.RequireObs("budgets_checked", 20000)
	res.RequireObs("pipe_cases", 100)
	res.RequireObs("dense_write_lengths", 20000)
	res.RequireObs("reader_error_inside_chunk", 500)
	res.RequireObs("terminal_EOF", 1)
	res.RequireObs("terminal_ErrUnexpectedEOF", 1)
	res.RequireObs("terminal_ErrTooLong", 1)
}

func checkDenseWrite(res *vlib.Result, r *vlib.Rand, n int) {
	res.Eval(1)
	res.Obs("dense_write_lengths", 1)
	p := make([]byte, n)
	r.Fill(p)
	sentinel := []byte{0xa5, byte(n), byte(n >> 8), 0x5a}
	rec := map[string]interface{}{"case": fmt.Sprintf("dense/%d", n), "chunk_len": n}
	var buf bytes.Buffer
	var wn int
	var werr error
	if res.Guard("panic:WriteData", rec, func() { wn, werr = encapsulation.WriteData(&buf, p) }) {
		return
	}
	first := buf.Len()
	if werr != nil {
		res.Violatef("write-error:valid-length", rec, "WriteData of %d bytes failed: %v", n, werr)
		return
	}
	if wn != first {
		res.Violatef("write-count-mismatch", rec, "WriteData(%d bytes) returned n=%d but wrote %d bytes", n, wn, first)
	}
	if _, err := encapsulation.WriteData(&buf, sentinel); err != nil {
		res.Violatef("write-error:valid-length", rec, "WriteData of the sentinel failed: %v", err)
		return
	}
	stream := buf.Bytes()
	ref := refDecode(stream)
	okRef := len(ref.chunks) == 2 && bytes.Equal(ref.chunks[0], p) && bytes.Equal(ref.chunks[1], sentinel) && ref.err == io.EOF
	var chunks [][]byte
	var err error
	res.Guard("panic:ReadData:dense", rec, func() { chunks, err = decodeAll(bytes.NewReader(stream), 10) })
	okReal := len(chunks) == 2 && bytes.Equal(chunks[0], p) && bytes.Equal(chunks[1], sentinel) && err == io.EOF
	if !okRef || !okReal {
		rec["stream_len"] = len(stream)
		rec["stream_prefix"] = hexPrefix(stream)
		res.Violatef("roundtrip-mismatch:written-chunk-not-read-back", rec, "WriteData(%d bytes) + WriteData(sentinel): reference decoder got %d chunks (terminal %s), ReadData got %d chunks (terminal %s); the written chunk and the sentinel must come back intact", n, len(ref.chunks), errName(ref.err), len(chunks), errName(err))
	}
	if n%997 == 0 {
		res.Distinct(fmt.Sprintf("dense/%d", n))
	}
}

type countWriter struct {
	n      int
	writes int
	buf    bytes.Buffer
}

func (c *countWriter) Write(p []byte) (int, error) {
	c.n += len(p)
	c.writes++
	return c.buf.Write(p)
}

func checkPadding(res *vlib.Result, n int) {
	res.Eval(1)
	res.Obs("padding_sizes_checked", 1)
	rec := map[string]interface{}{"case": fmt.Sprintf("padding/%d", n), "n": n}
	var cw countWriter
	var total int
	var err error
	if res.Guard("panic:WritePadding", rec, func() { total, err = encapsulation.WritePadding(&cw, n) }) {
		return
	}
	if err != nil || total != n || cw.n != n {
		res.Violatef("padding-size", rec, "WritePadding(%d) wrote %d bytes (returned %d, err %v)", n, cw.n, total, err)
		return
	}
	// followed by one data chunk so that "invisible" is observable
	encapsulation.WriteData(&cw, []byte("after"))
	ref := refDecode(cw.buf.Bytes())
	if len(ref.chunks) != 1 || string(ref.chunks[0]) != "after" {
		res.Violatef("padding-visible", rec, "reference decoder sees %d chunks after WritePadding(%d)", len(ref.chunks), n)
		return
	}
	p, err := encapsulation.ReadData(bytes.NewReader(cw.buf.Bytes()))
	if err != nil || string(p) != "after" {
		res.Violatef("padding-visible", rec, "ReadData after WritePadding(%d): %q, %v", n, p, err)
	}
}

func checkBudget(res *vlib.Result, n int) {
	res.Eval(1)
	res.Obs("budgets_checked", 1)
	rec := map[string]interface{}{"case": fmt.Sprintf("budget/%d", n), "budget": n}
	var m int
	if res.Guard("panic:MaxDataForSize", rec, func() { m = encapsulation.MaxDataForSize(n) }) {
		return
	}
	if m < 0 {
		res.Violatef("budget-negative", rec, "MaxDataForSize(%d) = %d", n, m)
		return
	}
	var cw countWriter
	total, err := encapsulation.WriteData(&cw, make([]byte, m))
	if err != nil {
		res.Violatef("budget-unencodable", rec, "WriteData(len=MaxDataForSize(%d)=%d): %v", n, m, err)
		return
	}
	if total > n || cw.n > n {
		res.Violatef("budget-exceeded", rec, "WriteData(len=MaxDataForSize(%d)=%d) occupies %d bytes", n, m, cw.n)
	}
}

var errCarrier = errors.New("carrier reset by peer")

// failingReader delivers the first k bytes (in short reads) and then fails
// with an error that is not an end-of-file (a carrier dying mid-frame).
type failingReader struct {
	b []byte
	r *vlib.Rand
}

func (f *failingReader) Read(p []byte) (int, error) {
	if len(f.b) == 0 {
		return 0, errCarrier
	}
	n := f.r.Range(1, 9)
	if n > len(p) {
		n = len(p)
	}
	if n > len(f.b) {
		n = len(f.b)
	}
	copy(p, f.b[:n])
	f.b = f.b[n:]
	return n, nil
}

// checkReaderError: when the reader fails at byte k, ReadData may return only
// chunks that were delivered completely, byte-exact, and must end with an error
// (never a chunk pieced together from what happened to arrive).
func checkReaderError(res *vlib.Result, stream []byte, k int, rseed uint64, caseID, desc string) {
	res.Eval(1)
	res.Obs("reader_error_cases", 1)
	ref := refDecode(stream[:k])
	rec := caseRec{Case: caseID, Stream: hexPrefix(stream), Len: len(stream), Mode: fmt.Sprintf("non-EOF error after %d bytes", k), Seed: rseed, Desc: desc}
	fr := &failingReader{b: stream[:k], r: vlib.NewRand(rseed)}
	var chunks [][]byte
	var err error
	if res.Guard("panic:ReadData:reader-error", rec, func() { chunks, err = decodeAll(fr, len(stream)+1) }) {
		return
	}
	if len(chunks) > len(ref.chunks) {
		res.Violatef("decode-mismatch:reader-error:incomplete-chunk-returned", rec, "reader failed after %d bytes: ReadData returned %d chunks, only %d were delivered completely (last returned chunk has %d bytes)", k, len(chunks), len(ref.chunks), len(chunks[len(chunks)-1]))
		return
	}
	for i := range chunks {
		if !bytes.Equal(chunks[i], ref.chunks[i]) {
			res.Violatef("decode-mismatch:reader-error:chunk-differs", rec, "reader failed after %d bytes: chunk %d differs from what was written", k, i)
			return
		}
	}
	if err == nil || err == io.EOF && ref.err != io.EOF {
		res.Violatef("decode-mismatch:reader-error:error-swallowed", rec, "reader failed after %d bytes with a non-EOF error inside a chunk: terminal %s", k, errName(err))
	}
	if len(chunks) == len(ref.chunks) && ref.err == io.ErrUnexpectedEOF {
		res.Obs("reader_error_inside_chunk", 1)
	}
}

// checkPipe feeds ReadData from an io.Pipe written once per encoded message,
// with zero-length writes in between — the way the client's WebRTC receive
// pipe is fed by data channel messages (an empty message is a zero-length
// Write, which io.Pipe delivers to the reader as (0, nil)).
func checkPipe(res *vlib.Result, r *vlib.Rand, i int) {
	res.Eval(1)
	res.Obs("pipe_cases", 1)
	n := r.Range(1, 5)
	var msgs [][]byte
	var want [][]byte
	empties := 0
	split := r.Bool() // split the prefix and the payload into separate writes
	for k := 0; k < n; k++ {
		ln := r.PickInt([]int{0, 1, 63, 64, 200, 8191, 8192})
		p := r.Bytes(ln)
		var b bytes.Buffer
		encapsulation.WriteData(&b, p)
		want = append(want, p)
		enc := b.Bytes()
		if split {
			w := minWidth(ln)
			cut := r.Range(1, w)
			msgs = append(msgs, enc[:cut])
			if r.Chance(1, 2) {
				msgs = append(msgs, []byte{})
				empties++
			}
			msgs = append(msgs, enc[cut:])
		} else {
			if r.Chance(1, 3) {
				msgs = append(msgs, []byte{})
				empties++
			}
			msgs = append(msgs, enc)
		}
	}
	rec := map[string]interface{}{"case": fmt.Sprintf("pipe/%d", i), "messages": len(msgs), "empty_messages": empties, "split_prefix": split}
	pr, pw := io.Pipe()
	go func() {
		for _, m := range msgs {
			pw.Write(m)
		}
		pw.Close()
	}()
	type out struct {
		chunks [][]byte
		err    error
	}
	ch := make(chan out, 1)
	go func() {
		var o out
		res.Guard("panic:ReadData:pipe", rec, func() { o.chunks, o.err = decodeAll(pr, 100) })
		ch <- o
	}()
	select {
	case o := <-ch:
		ok := len(o.chunks) == len(want) && o.err == io.EOF
		if ok {
			for k := range want {
				if !bytes.Equal(want[k], o.chunks[k]) {
					ok = false
				}
			}
		}
		if !ok {
			cls := "fragmentation"
			if empties > 0 {
				cls = "zero-length-read"
			}
			res.Violatef("decode-mismatch:"+cls, rec, "io.Pipe feeder: got %d chunks, terminal %s; wrote %d chunks", len(o.chunks), errName(o.err), len(want))
		}
		if empties > 0 {
			res.Obs("pipe_cases_with_empty_message", 1)
		}
		res.Distinct(fmt.Sprintf("pipe/%d", i))
	case <-time.After(60 * time.Second):
		res.Inconcl(fmt.Sprintf("pipe case %d did not finish in 60 s", i))
		pr.CloseWithError(errors.New("watchdog"))
	}
}

// checkAlloc: a stream announcing 2^20-1 bytes but delivering 3 must not make
// ReadData allocate more than the announced length plus a constant.
func checkAlloc(res *vlib.Result) {
	res.Eval(1)
	var b bytes.Buffer
	encodeItem(&b, true, 0, 3, 0)
	hdr := []byte{0x80 | 0x40 | 0x3f, 0xff, 0x7f, 1, 2, 3}
	var before, after runtime.MemStats
	runtime.GC()
	runtime.ReadMemStats(&before)
	const rounds = 16
	for i := 0; i < rounds; i++ {
		_, err := encapsulation.ReadData(bytes.NewReader(hdr))
		if err != io.ErrUnexpectedEOF {
			res.Violatef("decode-mismatch:plain", map[string]interface{}{"case": "alloc"}, "announced 2^20-1, delivered 3: terminal %s", errName(err))
			return
		}
	}
	runtime.ReadMemStats(&after)
	per := (after.TotalAlloc - before.TotalAlloc) / rounds
	res.Obs("alloc_bytes_per_oversized_announcement", int64(per))
	if per > (1<<20)+(256<<10) {
		res.Violatef("alloc-unbounded", map[string]interface{}{"case": "alloc"}, "ReadData allocated %d bytes for a chunk announcing %d", per, 1<<20-1)
	}
}
