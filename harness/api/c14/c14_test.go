// C14 — every HTTP request to the broker gets a well-formed response.
// The real broker binary (-race -tags verif) on loopback; requests are written
// on raw TCP sockets and responses parsed with http.ReadResponse.
package c14

import (
	"bufio"
	"bytes"
	"encoding/base64"
	"encoding/json"
	"fmt"
	"io"
	"io/ioutil"
	"net"
	"net/http"
	"os"
	"os/exec"
	"path/filepath"
	"strconv"
	"strings"
	"sync"
	"sync/atomic"
	"syscall"
	"testing"
	"time"

	"git.torproject.org/pluggable-transports/snowflake.git/v2/common/amp"
	"verif/vlib"
)

type broker struct {
	smu      sync.Mutex
	suspects []string // requests that got no byte of a response within their deadline
	prefill  []byte   // what the metrics log held before the broker started
	cmd      *exec.Cmd
	addr     string
	stderr   string
	dir      string
	exited   chan struct{}
}

func freePort() string {
	l, err := net.Listen("tcp", "127.0.0.1:0")
	if err != nil {
		panic(err)
	}
	a := l.Addr().String()
	l.Close()
	return a
}

func startBroker(tag string) (*broker, error) {
	var lastErr error
	for attempt := 0; attempt < 5; attempt++ {
		b, err := startBrokerOnce(fmt.Sprintf("%s-%d", tag, attempt))
		if err == nil {
			return b, nil
		}
		lastErr = err
	}
	return nil, lastErr
}

func startBrokerOnce(tag string) (*broker, error) {
	bin := filepath.Join(os.Getenv("VERIF_BIN"), "broker")
	dir, err := ioutil.TempDir(os.Getenv("VERIF_SCRATCH"), "c14-"+tag+"-")
	if err != nil {
		return nil, err
	}
	b := &broker{addr: freePort(), dir: dir, stderr: filepath.Join(dir, "stderr.log"), exited: make(chan struct{})}
	if strings.HasPrefix(tag, "metrics-log") {
		// a metrics log with a few megabytes of history, as a broker that has been
		// running for months has (the broker appends to it)
		var pre bytes.Buffer
		for i := 0; pre.Len() < 5<<20; i++ {
			fmt.Fprintf(&pre, "snowflake-stats-end 2026-01-%02d 00:00:00 (86400 s) line %07d %s\n", 1+i%28, i, strings.Repeat("x", i%61))
		}
		if err := ioutil.WriteFile(filepath.Join(dir, "metrics.log"), pre.Bytes(), 0600); err != nil {
			return nil, err
		}
		b.prefill = pre.Bytes()
	}
	f, err := os.Create(b.stderr)
	if err != nil {
		return nil, err
	}
	// an allowed-relay pattern is configured so that the rejection path of /proxy
	// is reachable: polls presenting (or presumed to have) another pattern are refused
	bl := filepath.Join(dir, "bridges.json")
	ioutil.WriteFile(bl, []byte(`{"displayName":"default", "webSocketAddress":"wss://snowflake.torproject.net/", "fingerprint":"2B280B23E1107BB62ABFC40DDCC8824814F80A72"}`+"\n"), 0600)
	// (the relay patterns only take effect together with a bridge list file)
	b.cmd = exec.Command(bin, "-disable-tls", "-addr", b.addr, "-disable-geoip", "-metrics-log", filepath.Join(dir, "metrics.log"),
		"-bridge-list-path", bl, "-allowed-relay-pattern", "snowflake.torproject.net$", "-default-relay-pattern", "snowflake.torproject.net$")
	b.cmd.Stdout = f
	b.cmd.Stderr = f
	b.cmd.Env = append(os.Environ(), "GORACE=halt_on_error=0 log_path="+filepath.Join(os.Getenv("VERIF_RACE_DIR"), "broker-"+tag))
	if err := b.cmd.Start(); err != nil {
		return nil, err
	}
	go func() { b.cmd.Wait(); close(b.exited) }()
	// the listener on the chosen port must belong to this process (another check
	// running at the same time may have taken the port in between)
	_, portStr, _ := net.SplitHostPort(b.addr)
	port, _ := strconv.Atoi(portStr)
	if !vlib.WaitListener(b.cmd.Process.Pid, port, 20*time.Second, func() bool { return !b.alive() }) {
		b.stop()
		return nil, fmt.Errorf("broker process does not own a listener on %s", b.addr)
	}
	for i := 0; i < 400; i++ {
		c, err := net.DialTimeout("tcp", b.addr, time.Second)
		if err == nil {
			c.Close()
			return b, nil
		}
		select {
		case <-b.exited:
			return nil, fmt.Errorf("broker exited during start-up")
		default:
		}
		time.Sleep(25 * time.Millisecond)
	}
	return nil, fmt.Errorf("broker did not start listening")
}

func (b *broker) alive() bool {
	select {
	case <-b.exited:
		return false
	default:
		return true
	}
}

func (b *broker) stop() {
	if b.alive() {
		b.cmd.Process.Signal(syscall.SIGTERM)
		select {
		case <-b.exited:
		case <-time.After(5 * time.Second):
			b.cmd.Process.Kill()
		}
	}
}

// handlersLeft ends the broker with SIGQUIT and returns the goroutines of its
// dump that are inside one of the broker's request handlers (the runtime
// prints every goroutine before it exits). Called when nothing is in flight
// any more and every protocol timer has long fired: a handler that is still
// there belongs to a request that never completes.
func (b *broker) handlersLeft() (n int, excerpt string) {
	if !b.alive() {
		return 0, ""
	}
	before, _ := ioutil.ReadFile(b.stderr)
	b.cmd.Process.Signal(syscall.SIGQUIT)
	select {
	case <-b.exited:
	case <-time.After(20 * time.Second):
		b.cmd.Process.Kill()
	}
	data, _ := ioutil.ReadFile(b.stderr)
	if len(data) >= len(before) {
		data = data[len(before):]
	}
	for _, g := range vlib.ParseDump(string(data)) {
		if g.HasFrame("main.proxyPolls") || g.HasFrame("main.clientOffers") || g.HasFrame("main.proxyAnswers") || g.HasFrame("main.ampClientOffers") || g.HasFrame("main.debugHandler") || g.HasFrame("main.metricsHandler") || g.HasFrame("main.(*IPC).") {
			n++
			if len(excerpt) < 6000 {
				excerpt += g.Raw + "\n"
			}
		}
	}
	return n, excerpt
}

// suspectTimeout: a response that did not come within the deadline is not yet a
// verdict (the deadline is a wall clock); it is registered and judged from the
// broker's state by judgeSuspects. Reports whether errText is such a timeout.
func (b *broker) suspectTimeout(errText, desc string) bool {
	if !strings.Contains(errText, "i/o timeout") {
		return false
	}
	b.smu.Lock()
	b.suspects = append(b.suspects, desc)
	b.smu.Unlock()
	return true
}

// judgeSuspects: called when nothing is in flight any more. With suspects, it
// waits until every protocol timer has fired twice over, ends the broker with
// SIGQUIT and lets the goroutine dump decide.
func (b *broker) judgeSuspects(res *vlib.Result, where string) {
	b.smu.Lock()
	sus := append([]string{}, b.suspects...)
	b.suspects = nil
	b.smu.Unlock()
	if len(sus) == 0 {
		return
	}
	time.Sleep(45 * time.Second)
	n, excerpt := b.handlersLeft()
	res.Obs("requests_without_a_response_within_the_deadline", int64(len(sus)))
	if n > 0 {
		res.Violate("c14:request-never-completes:handler-still-in-broker", fmt.Sprintf("%s: %d request(s) got no response within their deadline (first: %s), and 45 s after the last request %d goroutine(s) are still inside the broker's handlers", where, len(sus), sus[0], n), map[string]interface{}{"case": where, "requests_without_response": sus[:min(len(sus), 10)], "handler_goroutines_left": n, "goroutines": excerpt})
		return
	}
	for _, d := range sus[:min(len(sus), 20)] {
		res.Inconcl(fmt.Sprintf("%s: %s: no response within the deadline, but no handler was left in the broker afterwards (the machine was too slow)", where, d))
	}
}

func (b *broker) panicLines() []string {
	data, _ := ioutil.ReadFile(b.stderr)
	var out []string
	for _, ln := range strings.Split(string(data), "\n") {
		if strings.Contains(ln, "http: panic serving") || strings.HasPrefix(ln, "panic:") || strings.HasPrefix(ln, "fatal error:") {
			out = append(out, ln)
		}
	}
	return out
}

// ---- raw requests -----------------------------------------------------------

type rawReq struct {
	Method   string            `json:"method"`
	Target   string            `json:"target"`
	Headers  map[string]string `json:"headers,omitempty"`
	BodyDesc string            `json:"body_desc"`
	BodyLen  int               `json:"body_len"`
	Chunked  bool              `json:"chunked,omitempty"`
	Class    string            `json:"class"`
	body     []byte
}

type rawResp struct {
	Status     int    `json:"status"`
	BodyPrefix string `json:"body_prefix,omitempty"`
	Close      bool   `json:"connection_close"`
	Err        string `json:"error,omitempty"`
	body       []byte
}

func (r *rawReq) bytes() []byte {
	var b bytes.Buffer
	fmt.Fprintf(&b, "%s %s HTTP/1.1\r\nHost: broker.test\r\n", r.Method, r.Target)
	for k, v := range r.Headers {
		fmt.Fprintf(&b, "%s: %s\r\n", k, v)
	}
	if r.Chunked {
		b.WriteString("Transfer-Encoding: chunked\r\n\r\n")
		body := r.body
		for len(body) > 0 {
			n := 4096
			if n > len(body) {
				n = len(body)
			}
			fmt.Fprintf(&b, "%x\r\n", n)
			b.Write(body[:n])
			b.WriteString("\r\n")
			body = body[n:]
		}
		b.WriteString("0\r\n\r\n")
	} else {
		if len(r.body) > 0 || r.Method == "POST" || r.Method == "PUT" {
			fmt.Fprintf(&b, "Content-Length: %d\r\n", len(r.body))
		}
		b.WriteString("\r\n")
		b.Write(r.body)
	}
	return b.Bytes()
}

// exchange performs the requests in order on one connection. It returns one
// response per request performed; it stops after a response announcing
// Connection: close (legitimate) or after a failure.
func exchange(addr string, reqs []*rawReq, perReq time.Duration) ([]rawResp, error) {
	c, err := net.DialTimeout("tcp", addr, 5*time.Second)
	if err != nil {
		return nil, err
	}
	defer c.Close()
	br := bufio.NewReader(c)
	var out []rawResp
	for _, rq := range reqs {
		data := rq.bytes()
		werr := make(chan error, 1)
		go func() {
			c.SetWriteDeadline(time.Now().Add(perReq))
			_, e := c.Write(data)
			werr <- e
		}()
		c.SetReadDeadline(time.Now().Add(perReq))
		hreq, _ := http.NewRequest(rq.Method, "http://broker.test/", nil)
		if hreq == nil {
			hreq, _ = http.NewRequest("GET", "http://broker.test/", nil)
			if rq.Method == "HEAD" {
				hreq.Method = "HEAD"
			}
		}
		resp, err := http.ReadResponse(br, hreq)
		if err != nil {
			e := <-werr
			out = append(out, rawResp{Err: fmt.Sprintf("no parsable response: %v (write error: %v)", err, e)})
			return out, nil
		}
		body, berr := ioutil.ReadAll(resp.Body)
		resp.Body.Close()
		rr := rawResp{Status: resp.StatusCode, Close: resp.Close, body: body}
		if len(body) > 120 {
			rr.BodyPrefix = string(body[:120])
		} else {
			rr.BodyPrefix = string(body)
		}
		if berr != nil {
			rr.Err = "body does not match its declared framing: " + berr.Error()
		}
		out = append(out, rr)
		if rr.Err != "" || rr.Close {
			return out, nil
		}
		if e := <-werr; e != nil {
			return out, nil
		}
	}
	return out, nil
}

// ---- generators -------------------------------------------------------------

var endpoints = []string{"/proxy", "/client", "/answer", "/amp/client/", "/debug", "/metrics", "/prometheus", "/robots.txt"}
var methods = []string{"GET", "POST", "POST", "POST", "PUT", "DELETE", "OPTIONS", "HEAD", "PATCH", "FOO"}
var natHeaders = []string{"", "unknown", "restricted", "unrestricted", "bogus", "UNRESTRICTED", " ", "restricted,unrestricted", strings.Repeat("x", 3000)}

func validPoll(r *vlib.Rand, sid string) []byte {
	j, _ := json.Marshal(map[string]interface{}{"Sid": sid, "Version": "1.3", "Type": "standalone", "NAT": r.PickString([]string{"unknown", "restricted", "unrestricted"}), "Clients": 0, "AcceptedRelayPattern": "snowflake.torproject.net$"})
	return j
}

// a well-formed poll whose relay pattern the broker must refuse (answered at once)
func rejectedPoll(r *vlib.Rand, sid string) []byte {
	j, _ := json.Marshal(map[string]interface{}{"Sid": sid, "Version": "1.3", "Type": r.PickString([]string{"standalone", "webext", "x"}), "NAT": r.PickString([]string{"unknown", "restricted", "unrestricted"}), "Clients": 0, "AcceptedRelayPattern": r.PickString([]string{"example.com$", "^snowflake.torproject.net$", "^x$"})})
	return j
}
func validAnswer(sid string) []byte {
	j, _ := json.Marshal(map[string]string{"Version": "1.3", "Sid": sid, "Answer": `{"type":"answer","sdp":"x"}`})
	return j
}
func validClient(r *vlib.Rand, nat string) []byte {
	m := map[string]string{"offer": `{"type":"offer","sdp":"x"}`}
	if nat != "" {
		m["nat"] = nat
	}
	// the bridge the client names: none (default), the listed one, well-formed ones the
	// broker does not know (20 and 32 bytes), and ill-formed ones
	switch r.Intn(8) {
	case 0:
		m["fingerprint"] = "2B280B23E1107BB62ABFC40DDCC8824814F80A72"
	case 1:
		m["fingerprint"] = strings.ToUpper(fmt.Sprintf("%x", r.Bytes(20)))
	case 2:
		m["fingerprint"] = fmt.Sprintf("%x", r.Bytes(32))
	case 3:
		m["fingerprint"] = r.PickString([]string{"", "zz", "2B280B23", fmt.Sprintf("%x", r.Bytes(21)), fmt.Sprintf("%x", r.Bytes(40))})
	}
	j, _ := json.Marshal(m)
	return append([]byte("1.0\n"), j...)
}

func mutate(r *vlib.Rand, b []byte) []byte {
	out := append([]byte{}, b...)
	if len(out) == 0 {
		return out
	}
	switch r.Intn(5) {
	case 0:
		out = out[:r.Intn(len(out))]
	case 1:
		for k := 0; k < 1+r.Intn(4); k++ {
			out[r.Intn(len(out))] ^= byte(1 << uint(r.Intn(8)))
		}
	case 2:
		i := r.Intn(len(out))
		out = append(out[:i], append(r.Bytes(r.Intn(8)), out[i:]...)...)
	case 3:
		out = bytes.Replace(out, []byte(`"`), []byte(`'`), 1+r.Intn(3))
	case 4:
		out = bytes.Replace(out, []byte("1."), []byte(r.PickString([]string{"2.", "", "1", "99999999999999999999."})), 1)
	}
	return out
}

var sizeClasses = []int{0, 1, 99999, 100000, 100001, 1 << 20}

func genRequest(r *vlib.Rand, id string) *rawReq {
	rq := &rawReq{Headers: map[string]string{}}
	ep := r.PickString(endpoints)
	rq.Method = r.PickString(methods)
	suffix := ""
	if r.Chance(1, 4) {
		suffix = r.PickString([]string{"/", "/x", "?a=b", "/../debug", "%2e", "//", "x"})
	}
	rq.Target = ep + suffix
	kind := r.Intn(10)
	sid := "fuzz-" + id
	var body []byte
	desc := ""
	switch ep {
	case "/proxy":
		// polls that would be admitted wait 10 s: make most of them invalid or rejected
		body, desc = validPoll(r, ""), "poll without sid"
		if kind == 0 {
			body, desc = validPoll(r, sid), "valid poll"
		}
		if kind >= 1 && kind <= 3 {
			body, desc = rejectedPoll(r, sid), "poll with a relay pattern the broker refuses"
		}
	case "/client":
		nat := r.PickString([]string{"", "unknown", "restricted", "unrestricted"})
		body, desc = validClient(r, nat), "versioned client poll"
		if kind < 4 {
			body, desc = []byte(`{"type":"offer","sdp":"legacy"}`), "legacy client poll"
			rq.Headers["Snowflake-NAT-Type"] = r.PickString(natHeaders)
			if rq.Headers["Snowflake-NAT-Type"] == "" {
				delete(rq.Headers, "Snowflake-NAT-Type")
			}
		}
	case "/answer":
		body, desc = validAnswer(sid), "answer for unknown sid"
	case "/amp/client/":
		if suffix == "" || r.Bool() {
			rq.Target = ep + amp.EncodePath(validClient(r, "")) + suffix
			desc = "amp path with valid poll"
		}
		if kind < 3 {
			rq.Target = ep + "0" + r.PickString([]string{"", "pad/", "a/b/"}) + base64.RawURLEncoding.EncodeToString(mutate(r, validClient(r, "bogus")))
			desc = "amp path with mutated poll"
		}
		if kind == 3 {
			rq.Target = ep + r.PickString([]string{"", "1abc/xyz", "0", "0/!!!", "0nodata"})
			desc = "amp path malformed"
		}
	}
	switch r.Intn(7) {
	case 6:
		// nothing but what a JSON reader skips
		ws := r.PickString([]string{" ", "\n", "\r\n", "\t", " \t\r\n ", "\n\n\n\n", strings.Repeat(" ", 100), strings.Repeat(" \n", 3000)})
		body, desc = []byte(ws), fmt.Sprintf("white space only (%d bytes)", len(ws))
	case 0:
		body, desc = mutate(r, body), "mutated "+desc
	case 1:
		body, desc = r.Bytes(r.Intn(200)), "random bytes"
	case 2:
		n := r.PickInt(sizeClasses)
		pad := bytes.Repeat([]byte{' '}, n)
		if r.Bool() && n >= len(body) {
			// valid message padded with trailing whitespace up to the size
			copy(pad, body)
			body, desc = pad, fmt.Sprintf("%s padded to %d", desc, n)
		} else {
			body, desc = r.Bytes(n), fmt.Sprintf("random %d bytes", n)
		}
	}
	if rq.Method == "GET" || rq.Method == "HEAD" || rq.Method == "OPTIONS" {
		if r.Chance(2, 3) {
			body = nil
		}
	}
	rq.body = body
	rq.BodyDesc, rq.BodyLen = desc, len(body)
	rq.Chunked = len(body) > 0 && r.Chance(1, 5)
	if r.Chance(1, 6) {
		rq.Headers["Content-Type"] = r.PickString([]string{"application/json", "text/plain", "multipart/form-data; boundary=x", ""})
	}
	rq.Class = classOf(rq)
	return rq
}

func classOf(rq *rawReq) string {
	ep := rq.Target
	for _, e := range endpoints {
		if strings.HasPrefix(rq.Target, e) {
			ep = e
			break
		}
	}
	size := "small"
	switch {
	case rq.BodyLen == 0:
		size = "empty"
	case rq.BodyLen > 100000:
		size = "over-limit"
	case rq.BodyLen >= 99999:
		size = "at-limit"
	}
	c := rq.Method + " " + ep + " " + size
	if ep == "/client" && strings.HasPrefix(string(rq.body), "{") {
		c += " legacy"
		if v, ok := rq.Headers["Snowflake-NAT-Type"]; ok {
			switch v {
			case "unknown", "restricted", "unrestricted":
				c += " nat-header-valid"
			default:
				c += " nat-header-invalid"
			}
		}
	}
	return c
}

// canonical health probe: a proxy and a client are matched and the answer comes back
func healthProbe(addr string, tag string) string {
	sid := "health-" + tag
	type pr struct {
		resp []rawResp
		err  error
	}
	pch := make(chan pr, 1)
	go func() {
		j, _ := json.Marshal(map[string]interface{}{"Sid": sid, "Version": "1.3", "Type": "standalone", "NAT": "unrestricted", "Clients": 0, "AcceptedRelayPattern": "snowflake.torproject.net$"})
		rs, err := exchange(addr, []*rawReq{{Method: "POST", Target: "/proxy", body: j}}, 30*time.Second)
		pch <- pr{rs, err}
	}()
	// wait until /debug shows the proxy
	ok := false
	for i := 0; i < 200 && !ok; i++ {
		rs, err := exchange(addr, []*rawReq{{Method: "GET", Target: "/debug"}}, 5*time.Second)
		if err == nil && len(rs) == 1 && strings.Contains(string(rs[0].body), "unrestricted: 1") {
			ok = true
		} else {
			time.Sleep(10 * time.Millisecond)
		}
	}
	if !ok {
		return "health probe: proxy poll not registered"
	}
	cch := make(chan pr, 1)
	go func() {
		rs, err := exchange(addr, []*rawReq{{Method: "POST", Target: "/client", body: []byte("1.0\n{\"offer\":\"HEALTH-OFFER-" + tag + "\",\"nat\":\"restricted\"}")}}, 30*time.Second)
		cch <- pr{rs, err}
	}()
	p := <-pch
	if p.err != nil || len(p.resp) != 1 || p.resp[0].Status != 200 || !strings.Contains(string(p.resp[0].body), "HEALTH-OFFER-"+tag) {
		return fmt.Sprintf("health probe: poll did not receive the offer: %+v %v", p.resp, p.err)
	}
	rs, err := exchange(addr, []*rawReq{{Method: "POST", Target: "/answer", body: []byte(`{"Version":"1.3","Sid":"` + sid + `","Answer":"HEALTH-ANSWER-` + tag + `"}`)}}, 30*time.Second)
	if err != nil || len(rs) != 1 || rs[0].Status != 200 {
		return fmt.Sprintf("health probe: answer not accepted: %+v %v", rs, err)
	}
	c := <-cch
	if c.err != nil || len(c.resp) != 1 || c.resp[0].Status != 200 || !strings.Contains(string(c.resp[0].body), "HEALTH-ANSWER-"+tag) {
		return fmt.Sprintf("health probe: client did not receive the answer: %+v %v", c.resp, c.err)
	}
	return ""
}

func TestVerifC14(t *testing.T) {
	res := vlib.NewResult("C14", "api-c14-broker-binary", "PRNG keep-alive sequences of raw HTTP/1.1 requests (8 endpoints x 10 methods x path suffixes x header values x valid/mutated/random bodies x sizes 0,1,99999,100000,100001,1MiB x Content-Length/chunked x legacy/versioned/AMP) against the real broker binary; non-trivial = request with a body or header the handler must parse, distinct by (class, body hash)")
	defer res.Finish()
	root := vlib.NewRand(vlib.Seed()).Split("c14")
	b, err := startBroker("main")
	if err != nil {
		res.Inconcl("cannot start broker: " + err.Error())
		res.Require(false, "broker binary started")
		return
	}
	defer b.stop()
	nSeq := vlib.Scale(700, 30000)
	batch := 100
	classes := map[string]bool{}
	var cmu sync.Mutex
	for start := 0; start < nSeq; start += batch {
		var wg sync.WaitGroup
		sem := make(chan struct{}, 24)
		for i := start; i < start+batch && i < nSeq; i++ {
			wg.Add(1)
			go func(i int) {
				defer wg.Done()
				sem <- struct{}{}
				defer func() { <-sem }()
				r := root.SplitN("seq", i)
				n := r.Range(1, 6)
				var reqs []*rawReq
				for k := 0; k < n; k++ {
					reqs = append(reqs, genRequest(r, fmt.Sprintf("%d-%d", i, k)))
				}
				resps, err := exchange(b.addr, reqs, 40*time.Second)
				if err != nil {
					res.Inconcl(fmt.Sprintf("seq %d: cannot connect: %v", i, err))
					return
				}
				for k, rp := range resps {
					rq := reqs[k]
					res.Eval(1)
					cmu.Lock()
					classes[rq.Class] = true
					cmu.Unlock()
					if rq.BodyLen > 0 || len(rq.Headers) > 0 {
						res.Distinct(fmt.Sprintf("%s/%x", rq.Class, hash(rq.body)))
					}
					res.Obs(fmt.Sprintf("status_%d", rp.Status), 1)
					if rp.Err != "" {
						rec := map[string]interface{}{"case": fmt.Sprintf("seq/%d/%d", i, k), "request": rq, "position_in_connection": k, "previous_requests": reqs[:k], "response": rp}
						if rq.BodyLen < 4096 {
							rec["body_base64"] = base64.StdEncoding.EncodeToString(rq.body)
						}
						// no byte of a response within 40 s: whether the request never completes, or
						// the machine was merely too slow, is decided at the end from the broker's own
						// state - a handler that is still there when nothing is in flight any more
						if b.suspectTimeout(rp.Err, fmt.Sprintf("seq/%d/%d %s %s (%s)", i, k, rq.Method, rq.Target, rq.BodyDesc)) {
							continue
						}
						res.Violate("c14:no-well-formed-response:"+sigClass(rq), fmt.Sprintf("request %s %s (%s) got: %s", rq.Method, rq.Target, rq.BodyDesc, rp.Err), rec)
					}
				}
				if i < 3 {
					res.Sample(3, map[string]interface{}{"case": fmt.Sprintf("seq/%d", i), "requests": reqs, "responses": resps})
				}
			}(i)
		}
		wg.Wait()
		if !b.alive() {
			res.Violate("c14:broker-process-died", "the broker process exited during the batch", map[string]interface{}{"case": fmt.Sprintf("batch/%d", start), "stderr_panics": b.panicLines()})
			return
		}
		if msg := healthProbe(b.addr, fmt.Sprintf("%d", start)); msg != "" {
			res.Violate("c14:later-requests-mishandled", msg, map[string]interface{}{"case": fmt.Sprintf("batch/%d", start)})
		}
		res.Obs("health_probes", 1)
	}
	if pl := b.panicLines(); len(pl) > 0 {
		res.Violate("c14:handler-panic", fmt.Sprintf("%d 'http: panic serving' lines on the broker's stderr, e.g. %s", len(pl), pl[0]), map[string]interface{}{"case": "stderr", "lines": pl[:min(len(pl), 5)]})
	}
	res.Obs("request_classes", int64(len(classes)))
	b.judgeSuspects(res, "main")
	legacyEquivalence(res, root)
	liveSessionAnswers(res, root)
	concurrentLoad(res, root)
	failedReadsThenValid(res, root)
	metricsConcurrent(res)
	res.RequireObs("metrics_log_reads", 20)
	res.RequireObs("valid_requests_after_failed_reads", 100)
	for _, m := range []string{"GET", "POST", "OPTIONS", "HEAD", "FOO"} {
		found := false
		for c := range classes {
			if strings.HasPrefix(c, m+" ") {
				found = true
			}
		}
		res.Require(found, "method class "+m+" exercised")
	}
	for _, e := range endpoints {
		found, over := false, false
		for c := range classes {
			if strings.Contains(c, " "+e+" ") {
				found = true
				if strings.Contains(c, "over-limit") {
					over = true
				}
			}
		}
		res.Require(found, "endpoint "+e+" exercised")
		if e == "/proxy" || e == "/client" || e == "/answer" {
			res.Require(over, "endpoint "+e+" exercised with an over-limit body")
		}
	}
	res.RequireObs("health_probes", 5)
	res.RequireObs("legacy_equivalence_pairs", 20)
	res.RequireObs("live_session_sequences", 5)
	res.RequireObs("concurrent_load_state_reads", 200)
	res.RequireObs("concurrent_load_matches", 50)
}

// rawSend writes bytes on a fresh connection, optionally half-closes, and
// reads whatever comes back for a short while (the reply is not judged).
func rawSend(addr string, data []byte, halfClose bool) {
	c, err := net.DialTimeout("tcp", addr, 5*time.Second)
	if err != nil {
		return
	}
	defer c.Close()
	c.SetDeadline(time.Now().Add(10 * time.Second))
	c.Write(data)
	if halfClose {
		if tc, ok := c.(*net.TCPConn); ok {
			tc.CloseWrite()
		}
	}
	io.Copy(ioutil.Discard, c)
}

// failedReadsThenValid: requests whose body cannot be read to its end (over
// the limit with either framing, shorter than announced, cut inside a chunk)
// are followed by well-formed requests whose reply does not depend on any
// state: a poll with a pattern the broker refuses, an answer for an unknown
// session, a client when no proxy waits. Each of these must get the very
// reply the same request got from the fresh broker.
func failedReadsThenValid(res *vlib.Result, root *vlib.Rand) {
	b, err := startBroker("failed-reads")
	if err != nil {
		res.Inconcl("cannot start broker for the failed-read sequences: " + err.Error())
		return
	}
	defer b.stop()
	defer b.judgeSuspects(res, "failed-reads")
	type probe struct {
		name string
		rq   *rawReq
		ref  rawResp
	}
	pollBody, _ := json.Marshal(map[string]interface{}{"Sid": "fr-poll", "Version": "1.3", "Type": "standalone", "NAT": "unknown", "Clients": 0, "AcceptedRelayPattern": "example.com$"})
	probes := []*probe{
		{name: "refused-poll", rq: &rawReq{Method: "POST", Target: "/proxy", body: pollBody}},
		{name: "stray-answer", rq: &rawReq{Method: "POST", Target: "/answer", body: validAnswer("fr-nobody")}},
		{name: "client-without-proxies", rq: &rawReq{Method: "POST", Target: "/client", body: []byte("1.0\n" + `{"offer":"{\"type\":\"offer\",\"sdp\":\"FR\"}","nat":"restricted"}`)}},
		{name: "legacy-client-without-proxies", rq: &rawReq{Method: "POST", Target: "/client", body: []byte(`{"type":"offer","sdp":"FR-legacy"}`)}},
	}
	for _, p := range probes {
		rs, err := exchange(b.addr, []*rawReq{p.rq}, 40*time.Second)
		if err != nil || len(rs) != 1 || rs[0].Err != "" {
			res.Inconcl(fmt.Sprintf("failed-reads: no reference reply for %s: %v %+v", p.name, err, rs))
			return
		}
		p.ref = rs[0]
	}
	forms := []string{"chunked-100001", "chunked-1MiB", "content-length-100001", "shorter-than-announced", "shorter-than-announced-half-close", "cut-inside-chunk", "chunked-100000-control"}
	rounds := vlib.Scale(21, 140) // quick: 18 rounds x 8 failing reads (a resource lost per failed read shows after some hundred of them)
	for i := 0; i < rounds; i++ {
		form := forms[i%len(forms)]
		ep := []string{"/proxy", "/client", "/answer"}[(i/len(forms))%3]
		var wg sync.WaitGroup
		for k := 0; k < 8; k++ {
			wg.Add(1)
			go func(k int) {
				defer wg.Done()
				fill := bytes.Repeat([]byte{byte('A' + k)}, 1<<20)
				switch form {
				case "chunked-100001":
					exchange(b.addr, []*rawReq{{Method: "POST", Target: ep, body: fill[:100001], Chunked: true}}, 20*time.Second)
				case "chunked-100000-control":
					exchange(b.addr, []*rawReq{{Method: "POST", Target: ep, body: fill[:100000], Chunked: true}}, 20*time.Second)
				case "chunked-1MiB":
					exchange(b.addr, []*rawReq{{Method: "POST", Target: ep, body: fill, Chunked: true}}, 20*time.Second)
				case "content-length-100001":
					exchange(b.addr, []*rawReq{{Method: "POST", Target: ep, body: fill[:100001]}}, 20*time.Second)
				case "shorter-than-announced", "shorter-than-announced-half-close":
					n := 100 + 977*k
					hdr := fmt.Sprintf("POST %s HTTP/1.1\r\nHost: broker.test\r\nContent-Length: %d\r\n\r\n", ep, 2*n)
					rawSend(b.addr, append([]byte(hdr), fill[:n]...), form != "shorter-than-announced")
				case "cut-inside-chunk":
					hdr := fmt.Sprintf("POST %s HTTP/1.1\r\nHost: broker.test\r\nTransfer-Encoding: chunked\r\n\r\n1000\r\n", ep)
					rawSend(b.addr, append([]byte(hdr), fill[:100+300*k]...), true)
				}
			}(k)
		}
		wg.Wait()
		res.Obs("failed_read_rounds:"+form, 1)
		// the well-formed requests, many at once (they are served by different handler goroutines)
		var vwg sync.WaitGroup
		for k := 0; k < 24; k++ {
			vwg.Add(1)
			go func(k int) {
				defer vwg.Done()
				p := probes[k%len(probes)]
				rs, err := exchange(b.addr, []*rawReq{p.rq}, 40*time.Second)
				res.Eval(1)
				res.Obs("valid_requests_after_failed_reads", 1)
				rec := map[string]interface{}{"case": fmt.Sprintf("failed-reads/%d/%d", i, k), "preceding_requests": form + " on " + ep, "probe": p.name, "reference_reply": p.ref}
				if err != nil || len(rs) != 1 {
					res.Inconcl(fmt.Sprintf("failed-reads/%d/%d: cannot connect: %v", i, k, err))
					return
				}
				if rs[0].Err != "" {
					if b.suspectTimeout(rs[0].Err, fmt.Sprintf("failed-reads/%d/%d %s", i, k, p.name)) {
						return
					}
					res.Violatef("c14:later-requests-mishandled:no-reply-after-failed-body-read", rec, "%s after 8 %s requests: %+v", p.name, form, rs[0])
					return
				}
				rec["reply"] = rs[0]
				if rs[0].Status != p.ref.Status || !bytes.Equal(rs[0].body, p.ref.body) {
					res.Violatef("c14:later-requests-mishandled:after-failed-body-read", rec, "%s got %d %q after 8 %s requests to %s; the fresh broker answered the same request %d %q", p.name, rs[0].Status, rs[0].BodyPrefix, form, ep, p.ref.Status, p.ref.BodyPrefix)
				}
			}(k)
		}
		vwg.Wait()
		res.Distinct("failed-reads/" + form + ep)
		if !b.alive() {
			res.Violate("c14:broker-process-died", "the broker process exited during the failed-read sequences", map[string]interface{}{"case": fmt.Sprintf("failed-reads/%d", i), "stderr_panics": b.panicLines()})
			return
		}
	}
}

// metricsConcurrent: /metrics serves the broker's append-only metrics log. Many
// GETs at once, against a log of several megabytes: every response must be
// complete (as long as it announces) and must be the log - it begins with the
// history that was there before the broker started.
func metricsConcurrent(res *vlib.Result) {
	b, err := startBroker("metrics-log")
	if err != nil {
		res.Inconcl("cannot start broker for the metrics log reads: " + err.Error())
		return
	}
	defer b.stop()
	defer b.judgeSuspects(res, "metrics-log")
	res.Require(len(b.prefill) > 1<<20, "the metrics log of the broker under test holds history")
	check := func(id string, par int) {
		rs, err := exchange(b.addr, []*rawReq{{Method: "GET", Target: "/metrics"}}, 60*time.Second)
		res.Eval(1)
		res.Obs("metrics_log_reads", 1)
		rec := map[string]interface{}{"case": id, "simultaneous_requests": par, "log_bytes_before_start": len(b.prefill)}
		if err != nil || len(rs) != 1 {
			res.Inconcl(fmt.Sprintf("%s: cannot connect: %v", id, err))
			return
		}
		if rs[0].Err != "" {
			if b.suspectTimeout(rs[0].Err, id) {
				return
			}
			rec["status"] = rs[0].Status
			rec["body_bytes_received"] = len(rs[0].body)
			res.Violatef("c14:no-well-formed-response:/metrics:concurrent-reads", rec, "GET /metrics among %d simultaneous ones: %s", par, rs[0].Err)
			return
		}
		if rs[0].Status != 200 {
			res.Violatef("c14:metrics-log-not-served", rec, "GET /metrics answered %d", rs[0].Status)
			return
		}
		body := rs[0].body
		if len(body) < len(b.prefill) || !bytes.Equal(body[:len(b.prefill)], b.prefill) {
			at := 0
			for at < len(body) && at < len(b.prefill) && body[at] == b.prefill[at] {
				at++
			}
			res.Violatef("c14:metrics-log-served-wrong", rec, "GET /metrics among %d simultaneous ones returned %d bytes that differ from the log (%d bytes of history) at offset %d", par, len(body), len(b.prefill), at)
			return
		}
		res.Obs("metrics_log_reads_complete_and_equal_to_the_log", 1)
	}
	for i := 0; i < 3; i++ {
		check(fmt.Sprintf("metrics-log/sequential/%d", i), 1)
	}
	rounds := vlib.Scale(5, 40)
	for i := 0; i < rounds; i++ {
		var wg sync.WaitGroup
		for k := 0; k < 8; k++ {
			wg.Add(1)
			go func(k int) {
				defer wg.Done()
				check(fmt.Sprintf("metrics-log/round-%d/%d", i, k), 8)
			}(k)
		}
		wg.Wait()
	}
	res.Distinct("metrics-log-concurrent")
}

// liveSessionAnswers: request sequences that refer to a session that is alive at
// the broker - a proxy poll still pending, or matched with a client - which the
// independent PRNG requests never do: the same well-formed /answer posted two or
// three times for a pending (unmatched) poll, for a matched session whose client
// is waiting, and after the session has ended. Every one of them must receive a
// complete response (the 40 s per-request deadline is four times the protocol's
// longest wait), the poll must end, and the broker must go on serving.
func liveSessionAnswers(res *vlib.Result, root *vlib.Rand) {
	b, err := startBroker("live-sessions")
	if err != nil {
		res.Inconcl("cannot start broker for the live-session sequences: " + err.Error())
		return
	}
	defer b.stop()
	defer b.judgeSuspects(res, "live-sessions")
	n := vlib.Scale(6, 40)
	var wg sync.WaitGroup
	for i := 0; i < n; i++ {
		wg.Add(1)
		go func(i int) {
			defer wg.Done()
			r := root.SplitN("live", i)
			variant := []string{"pending-poll", "matched-session", "ended-session"}[i%3]
			sid := fmt.Sprintf("live-%d-%x", i, r.Uint64())
			copies := r.Range(2, 3)
			rec := map[string]interface{}{"case": fmt.Sprintf("live/%d", i), "variant": variant, "session_id": sid, "answers_posted": copies}
			res.Eval(1)
			pollBody, _ := json.Marshal(map[string]interface{}{"Sid": sid, "Version": "1.3", "Type": "standalone", "NAT": "unrestricted", "Clients": 0, "AcceptedRelayPattern": "snowflake.torproject.net$"})
			pollDone := make(chan rawResp, 1)
			go func() {
				rs, _ := exchange(b.addr, []*rawReq{{Method: "POST", Target: "/proxy", body: pollBody}}, 40*time.Second)
				if len(rs) == 1 {
					pollDone <- rs[0]
				} else {
					pollDone <- rawResp{Err: "no connection"}
				}
			}()
			time.Sleep(300 * time.Millisecond) // the poll is registered (a poll that is not yet there makes the answer a stray one: also fine)
			var clientDone chan rawResp
			if variant == "matched-session" {
				clientDone = make(chan rawResp, 1)
				go func() {
					body := []byte("1.0\n" + fmt.Sprintf(`{"offer":"{\"type\":\"offer\",\"sdp\":\"LIVE-%d\"}","nat":"restricted"}`, i))
					rs, _ := exchange(b.addr, []*rawReq{{Method: "POST", Target: "/client", body: body}}, 40*time.Second)
					if len(rs) == 1 {
						clientDone <- rs[0]
					} else {
						clientDone <- rawResp{Err: "no connection"}
					}
				}()
				time.Sleep(300 * time.Millisecond)
			}
			if variant == "ended-session" {
				<-pollDone // the idle poll has timed out
				pollDone <- rawResp{Status: 200}
			}
			ans := []byte(`{"Version":"1.3","Sid":"` + sid + `","Answer":"{\"type\":\"answer\",\"sdp\":\"LIVE-ANSWER\"}"}`)
			var reqs []*rawReq
			for k := 0; k < copies; k++ {
				reqs = append(reqs, &rawReq{Method: "POST", Target: "/answer", body: ans})
			}
			sameConn := r.Bool()
			var resps []rawResp
			if sameConn {
				resps, _ = exchange(b.addr, reqs, 40*time.Second)
			} else {
				for _, rq := range reqs {
					rs, _ := exchange(b.addr, []*rawReq{rq}, 40*time.Second)
					resps = append(resps, rs...)
				}
			}
			rec["answers_on_one_connection"] = sameConn
			rec["answer_responses"] = resps
			res.Obs("live_session_sequences", 1)
			res.Obs("live_session_sequences_"+variant, 1)
			for _, rp := range resps {
				if b.suspectTimeout(rp.Err, fmt.Sprintf("live/%d answer", i)) {
					return
				}
			}
			if len(resps) < copies {
				res.Violate("c14:no-well-formed-response:/answer_repeated_for_live_session:"+variant, fmt.Sprintf("%d identical /answer requests for session %s (%s): only %d responses", copies, sid, variant, len(resps)), rec)
				return
			}
			for k, rp := range resps {
				if rp.Err != "" {
					res.Violate("c14:no-well-formed-response:/answer_repeated_for_live_session:"+variant, fmt.Sprintf("/answer #%d of %d for session %s (%s) got: %s", k+1, copies, sid, variant, rp.Err), rec)
					return
				}
			}
			pr := <-pollDone
			if pr.Err != "" {
				if b.suspectTimeout(pr.Err, fmt.Sprintf("live/%d poll", i)) {
					return
				}
				res.Violate("c14:no-well-formed-response:/proxy_live_session:"+variant, fmt.Sprintf("the poll of session %s (%s) got: %s", sid, variant, pr.Err), rec)
				return
			}
			if clientDone != nil {
				if cr := <-clientDone; cr.Err != "" {
					if b.suspectTimeout(cr.Err, fmt.Sprintf("live/%d client", i)) {
						return
					}
					res.Violate("c14:no-well-formed-response:/client_live_session:"+variant, fmt.Sprintf("the client of session %s got: %s", sid, cr.Err), rec)
					return
				}
			}
			res.Distinct(fmt.Sprintf("live/%d", i))
			if i < 3 {
				res.Sample(5, rec)
			}
		}(i)
	}
	wg.Wait()
	if !b.alive() {
		res.Violate("c14:broker-process-died", "the broker process exited during the live-session sequences", map[string]interface{}{"case": "live", "stderr_panics": b.panicLines()})
		return
	}
	if msg := healthProbe(b.addr, "after-live-sessions"); msg != "" {
		res.Violate("c14:later-requests-mishandled", "after the live-session sequences: "+msg, map[string]interface{}{"case": "live"})
	}
	if pl := b.panicLines(); len(pl) > 0 {
		res.Violate("c14:handler-panic", fmt.Sprintf("%d 'http: panic serving' lines on the broker's stderr during the live-session sequences, e.g. %s", len(pl), pl[0]), map[string]interface{}{"case": "live"})
	}
}

// concurrentLoad: well-formed requests only, but all at once: hundreds of idle
// proxy polls keep the broker's registration tables large while pair loops
// (proxy poll, client poll, answer) insert and delete entries and reader loops
// fetch /debug, /metrics and /prometheus without pause. Every request must get
// a complete response and the process must survive ("no request makes the
// broker crash or mishandle later requests" holds for concurrent requests too).
func concurrentLoad(res *vlib.Result, root *vlib.Rand) {
	b, err := startBroker("concurrent")
	if err != nil {
		res.Inconcl("cannot start broker for the concurrent load: " + err.Error())
		return
	}
	defer b.stop()
	defer b.judgeSuspects(res, "concurrent-load")
	dur := time.Duration(vlib.Scale(7, 40)) * time.Second
	stopAt := time.Now().Add(dur)
	var wg sync.WaitGroup
	var reads, matches, bad int64
	var firstBad atomic.Value
	note := func(kind string, rp rawResp, err error) {
		if b.suspectTimeout(rp.Err, "concurrent-load "+kind) {
			return
		}
		atomic.AddInt64(&bad, 1)
		if firstBad.Load() == nil {
			firstBad.Store(fmt.Sprintf("%s: err=%v response=%+v", kind, err, rp.Err))
		}
	}
	one := func(kind string, rq *rawReq, wait time.Duration) (rawResp, bool) {
		rs, err := exchange(b.addr, []*rawReq{rq}, wait)
		if err != nil || len(rs) != 1 || rs[0].Err != "" {
			var rp rawResp
			if len(rs) == 1 {
				rp = rs[0]
			}
			note(kind, rp, err)
			return rp, false
		}
		return rs[0], true
	}
	nIdle := vlib.Scale(400, 1500)
	for i := 0; i < nIdle; i++ {
		wg.Add(1)
		go func(i int) {
			defer wg.Done()
			// idle polls re-register until the phase ends, so the tables stay large and change
			for n := 0; time.Now().Before(stopAt); n++ {
				j, _ := json.Marshal(map[string]interface{}{"Sid": fmt.Sprintf("idle-%d-%d", i, n), "Version": "1.3", "Type": "standalone", "NAT": "restricted", "Clients": 8, "AcceptedRelayPattern": "snowflake.torproject.net$"})
				one("idle-poll", &rawReq{Method: "POST", Target: "/proxy", body: j}, 40*time.Second)
			}
		}(i)
	}
	for w := 0; w < 8; w++ {
		wg.Add(2)
		go func(w int) { // proxy side of the pair loops
			defer wg.Done()
			for n := 0; time.Now().Before(stopAt); n++ {
				sid := fmt.Sprintf("pair-%d-%d", w, n)
				j, _ := json.Marshal(map[string]interface{}{"Sid": sid, "Version": "1.3", "Type": "standalone", "NAT": "unrestricted", "Clients": 0, "AcceptedRelayPattern": "snowflake.torproject.net$"})
				rp, ok := one("pair-poll", &rawReq{Method: "POST", Target: "/proxy", body: j}, 40*time.Second)
				if ok && strings.Contains(string(rp.body), "CL-OFFER") {
					if _, ok := one("answer", &rawReq{Method: "POST", Target: "/answer", body: []byte(`{"Version":"1.3","Sid":"` + sid + `","Answer":"CL-ANSWER"}`)}, 40*time.Second); ok {
						atomic.AddInt64(&matches, 1)
					}
				}
			}
		}(w)
		go func(w int) { // client side
			defer wg.Done()
			for n := 0; time.Now().Before(stopAt); n++ {
				body := []byte("1.0\n" + fmt.Sprintf(`{"offer":"{\"type\":\"offer\",\"sdp\":\"CL-OFFER-%d-%d\"}","nat":"restricted"}`, w, n))
				one("client", &rawReq{Method: "POST", Target: "/client", body: body}, 40*time.Second)
			}
		}(w)
	}
	for w := 0; w < 6; w++ {
		wg.Add(1)
		go func(w int) {
			defer wg.Done()
			targets := []string{"/debug", "/debug", "/prometheus", "/metrics"}
			for n := 0; time.Now().Before(stopAt); n++ {
				tg := targets[(w+n)%len(targets)]
				if rp, ok := one("read "+tg, &rawReq{Method: "GET", Target: tg}, 40*time.Second); ok {
					if rp.Status != 200 {
						note("read "+tg, rawResp{Err: fmt.Sprintf("status %d", rp.Status)}, nil)
					}
					atomic.AddInt64(&reads, 1)
				}
			}
		}(w)
	}
	done := make(chan struct{})
	go func() { wg.Wait(); close(done) }()
	select {
	case <-done:
	case <-time.After(dur + 90*time.Second):
		res.Inconcl("concurrent load: workers did not finish within 90 s after the phase ended")
	}
	res.Eval(atomic.LoadInt64(&reads) + atomic.LoadInt64(&matches))
	res.Obs("concurrent_load_state_reads", atomic.LoadInt64(&reads))
	res.Obs("concurrent_load_matches", atomic.LoadInt64(&matches))
	res.Obs("concurrent_load_idle_pollers", int64(nIdle))
	res.Distinct("concurrent-load")
	rec := map[string]interface{}{"case": "concurrent-load", "idle_pollers": nIdle, "state_reads": atomic.LoadInt64(&reads), "matches": atomic.LoadInt64(&matches), "requests_without_wellformed_response": atomic.LoadInt64(&bad)}
	if !b.alive() {
		rec["stderr_panics"] = b.panicLines()
		res.Violate("c14:broker-process-died:concurrent-requests", "the broker process exited while serving concurrent well-formed requests (state reads during registrations and matches)", rec)
		return
	}
	if n := atomic.LoadInt64(&bad); n > 0 {
		fb, _ := firstBad.Load().(string)
		rec["first"] = fb
		res.Violate("c14:no-well-formed-response:concurrent-requests", fmt.Sprintf("%d concurrent well-formed requests got no well-formed response, first: %s", n, fb), rec)
	}
	if msg := healthProbe(b.addr, "after-concurrent-load"); msg != "" {
		res.Violate("c14:later-requests-mishandled", "after the concurrent load: "+msg, rec)
	}
	if pl := b.panicLines(); len(pl) > 0 {
		res.Violate("c14:handler-panic", fmt.Sprintf("%d 'http: panic serving' lines on the broker's stderr during the concurrent load, e.g. %s", len(pl), pl[0]), rec)
	}
	res.Sample(4, rec)
}

func sigClass(rq *rawReq) string {
	c := classOf(rq)
	if i := strings.IndexByte(c, ' '); i >= 0 {
		c = c[i+1:] // the handlers do not look at the method
	}
	return strings.Replace(c, " ", "_", -1)
}

func hash(b []byte) uint32 {
	var h uint32 = 2166136261
	for _, c := range b {
		h = (h ^ uint32(c)) * 16777619
	}
	return h
}

func min(a, b int) int {
	if a < b {
		return a
	}
	return b
}

// legacy equivalence: a legacy-format client request is treated exactly like
// its versioned equivalent (outcome class and mapped status).
func legacyEquivalence(res *vlib.Result, root *vlib.Rand) {
	b, err := startBroker("legacy")
	if err != nil {
		res.Inconcl("cannot start second broker: " + err.Error())
		return
	}
	defer b.stop()
	b2, err := startBroker("legacy-timeouts")
	if err != nil {
		res.Inconcl("cannot start third broker: " + err.Error())
		return
	}
	defer b2.stop()
	n := vlib.Scale(40, 400)
	nTimeouts := vlib.Scale(1, 6)
	var wg sync.WaitGroup
	// cases share a broker, so they run one after another (a concurrent case's
	// proxy would otherwise serve this case's client); the 2 x 10 s timeout
	// cases run on a broker of their own, also one after another
	semA, semB := make(chan struct{}, 1), make(chan struct{}, 1)
	for i := 0; i < n+nTimeouts; i++ {
		wg.Add(1)
		go func(i int) {
			defer wg.Done()
			sem, b := semA, b
			if i >= n {
				sem, b = semB, b2
			}
			sem <- struct{}{}
			defer func() { <-sem }()
			r := root.SplitN("legacy", i)
			nat := r.PickString([]string{"", "unknown", "restricted", "unrestricted", "bogus", "Restricted"})
			scenario := r.PickString([]string{"denied", "denied", "matched", "matched", "matched"})
			if i >= n {
				scenario = "timeout"
			}
			offer := fmt.Sprintf(`{"type":"offer","sdp":"LEQ-%d"}`, i)
			outcome := func(legacy bool, tag string) string {
				var pwg sync.WaitGroup
				sid := fmt.Sprintf("leq-%d-%s", i, tag)
				if scenario != "denied" && nat != "bogus" && nat != "Restricted" {
					pnat := "unrestricted"
					if nat == "unrestricted" {
						pnat = "restricted"
					}
					pwg.Add(1)
					go func() {
						defer pwg.Done()
						j, _ := json.Marshal(map[string]interface{}{"Sid": sid, "Version": "1.3", "Type": "standalone", "NAT": pnat, "Clients": 1000 + i, "AcceptedRelayPattern": "snowflake.torproject.net$"})
						rs, _ := exchange(b.addr, []*rawReq{{Method: "POST", Target: "/proxy", body: j}}, 30*time.Second)
						if len(rs) == 1 && strings.Contains(string(rs[0].body), "LEQ-") && scenario == "matched" {
							exchange(b.addr, []*rawReq{{Method: "POST", Target: "/answer", body: []byte(`{"Version":"1.3","Sid":"` + sid + `","Answer":"LEQ-ANSWER"}`)}}, 30*time.Second)
						}
					}()
					time.Sleep(150 * time.Millisecond)
				}
				var rq *rawReq
				if legacy {
					rq = &rawReq{Method: "POST", Target: "/client", Headers: map[string]string{}, body: []byte(offer)}
					if nat != "" {
						rq.Headers["Snowflake-NAT-Type"] = nat
					}
				} else {
					m := map[string]string{"offer": offer}
					if nat != "" {
						m["nat"] = nat
					}
					j, _ := json.Marshal(m)
					rq = &rawReq{Method: "POST", Target: "/client", body: append([]byte("1.0\n"), j...)}
				}
				rs, err := exchange(b.addr, []*rawReq{rq}, 40*time.Second)
				pwg.Wait()
				if err != nil || len(rs) != 1 {
					return "no-connection"
				}
				rp := rs[0]
				if rp.Err != "" {
					return "no-response"
				}
				if legacy {
					switch {
					case rp.Status == 200:
						return "answer:" + string(rp.body)
					case rp.Status == 503:
						return "no-proxies"
					case rp.Status == 504:
						return "timed-out"
					case rp.Status >= 400:
						return "request-error"
					}
					return fmt.Sprintf("status-%d", rp.Status)
				}
				if rp.Status != 200 {
					return "request-error"
				}
				var m struct {
					Answer string `json:"answer"`
					Error  string `json:"error"`
				}
				json.Unmarshal(rp.body, &m)
				switch {
				case m.Answer != "":
					return "answer:" + m.Answer
				case m.Error == "no snowflake proxies currently available":
					return "no-proxies"
				case m.Error == "timed out waiting for answer!":
					return "timed-out"
				case m.Error != "":
					return "request-error"
				}
				return "empty"
			}
			// sequentially, so that both see the same broker state for their own proxy
			v := outcome(false, "v")
			l := outcome(true, "l")
			res.Eval(1)
			res.Obs("legacy_equivalence_pairs", 1)
			res.Obs("legacy_outcome_"+strings.SplitN(l, ":", 2)[0], 1)
			res.Distinct(fmt.Sprintf("leq/%d", i))
			if v != l {
				rec := map[string]interface{}{"case": fmt.Sprintf("legacy/%d", i), "nat": nat, "scenario": scenario, "versioned_outcome": v, "legacy_outcome": l}
				cls := "nat-valid"
				if nat == "bogus" || nat == "Restricted" {
					cls = "nat-header-invalid"
				}
				if l == "no-response" {
					res.Violate("c14:no-well-formed-response:/client_small_legacy_"+cls, fmt.Sprintf("legacy client request with Snowflake-NAT-Type %q got no response (versioned equivalent: %s)", nat, v), rec)
				} else {
					res.Violate("c14:legacy-differs-from-versioned:"+cls, fmt.Sprintf("legacy request outcome %q, versioned equivalent %q (nat %q, scenario %s)", l, v, nat, scenario), rec)
				}
			}
		}(i)
	}
	wg.Wait()
	if pl := append(b.panicLines(), b2.panicLines()...); len(pl) > 0 {
		res.Violate("c14:handler-panic", fmt.Sprintf("%d 'http: panic serving' lines on the broker's stderr, e.g. %s", len(pl), pl[0]), map[string]interface{}{"case": "stderr-legacy", "lines": pl[:min(len(pl), 5)]})
	}
}

var _ = io.EOF
