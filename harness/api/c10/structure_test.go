// C10 — independent structure oracle (DESIGN appendix A3), by byte scanning,
// plus the renderers used by the metamorphic and error-class generators.
package c10

import (
	"bytes"
	"fmt"
	"strconv"

	"verif/vlib"
)

type element struct {
	preAt   int // offset of "<pre>"
	start   int // text = doc[start:end]
	end     int
	afterAt int // offset just after "</pre>"
	words   [][]byte
}

type armorDoc struct {
	doc     []byte
	headEnd int // body starts here (just after "<body>\n")
	tailAt  int // offset of "</body>"
	elems   []element
}

func (a *armorDoc) head() []byte { return a.doc[:a.headEnd] }
func (a *armorDoc) tail() []byte { return a.doc[a.tailAt:] }

type structErr struct{ rule, detail string }

func snippetAt(doc []byte, p int) string {
	e := p + 40
	if e > len(doc) {
		e = len(doc)
	}
	if p > len(doc) {
		p = len(doc)
	}
	return strconv.QuoteToASCII(string(doc[p:e]))
}

func splitWords(text []byte) [][]byte {
	var ws [][]byte
	i := 0
	for i < len(text) {
		for i < len(text) && isWS(text[i]) {
			i++
		}
		j := i
		for j < len(text) && !isWS(text[j]) {
			j++
		}
		if j > i {
			ws = append(ws, text[i:j])
		}
		i = j
	}
	return ws
}

// parseArmor applies rule A3. It returns the parse (as far as it got) and the
// first rule broken, if any.
func parseArmor(doc []byte) (*armorDoc, *structErr) {
	a := &armorDoc{doc: doc}
	i := bytes.Index(doc, []byte("<body>\n"))
	if i < 0 {
		return a, &structErr{"head-no-body", "no \"<body>\\n\" in document"}
	}
	a.headEnd = i + len("<body>\n")
	head := doc[:a.headEnd]
	lower := bytes.ToLower(head)
	if !bytes.HasPrefix(lower, []byte("<!doctype html>")) {
		return a, &structErr{"head-doctype", "head starts " + snippetAt(doc, 0)}
	}
	has := func(alts ...string) bool {
		for _, s := range alts {
			if bytes.Contains(head, []byte(s)) {
				return true
			}
		}
		return false
	}
	switch {
	case !has("<html amp>", "<html amp ", "<html ⚡>", "<html ⚡ "):
		return a, &structErr{"head-boilerplate", "no <html amp>"}
	case !has("<head>") || !has("</head>"):
		return a, &structErr{"head-boilerplate", "no <head>…</head>"}
	case !has("<meta charset"):
		return a, &structErr{"head-boilerplate", "no <meta charset"}
	case !has("<script async") || !has("https://cdn.ampproject.org/v0.js"):
		return a, &structErr{"head-boilerplate", "no async v0.js script"}
	case !has(`<link rel="canonical"`):
		return a, &structErr{"head-boilerplate", "no canonical link"}
	case !has(`<meta name="viewport"`):
		return a, &structErr{"head-boilerplate", "no viewport meta"}
	case bytes.Count(head, []byte("<style amp-boilerplate>")) != 2 || !has("<noscript><style amp-boilerplate>") || !has("</style></noscript>"):
		return a, &structErr{"head-boilerplate", "the two amp-boilerplate style blocks are not both present"}
	case bytes.Contains(lower, []byte("<pre")) || bytes.Contains(lower, []byte("</pre")):
		return a, &structErr{"head-contains-pre", "pre tag before <body>"}
	}
	p := a.headEnd
	for {
		for p < len(doc) && isWS(doc[p]) {
			p++
		}
		if !bytes.HasPrefix(doc[p:], []byte("<pre>")) {
			break
		}
		el := element{preAt: p, start: p + 5}
		j := bytes.IndexByte(doc[el.start:], '<')
		if j < 0 {
			return a, &structErr{"pre-unterminated", "no < after <pre> at offset " + strconv.Itoa(p)}
		}
		el.end = el.start + j
		if !bytes.HasPrefix(doc[el.end:], []byte("</pre>")) {
			return a, &structErr{"pre-inner-markup", "inside pre: " + snippetAt(doc, el.end)}
		}
		el.afterAt = el.end + len("</pre>")
		el.words = splitWords(doc[el.start:el.end])
		a.elems = append(a.elems, el)
		p = el.afterAt
	}
	if !bytes.HasPrefix(doc[p:], []byte("</body>")) {
		return a, &structErr{"body-not-pre-only", fmt.Sprintf("at offset %d: %s", p, snippetAt(doc, p))}
	}
	a.tailAt = p
	q := p + len("</body>")
	for q < len(doc) && isWS(doc[q]) {
		q++
	}
	if !bytes.HasPrefix(doc[q:], []byte("</html>")) {
		return a, &structErr{"tail", "after </body>: " + snippetAt(doc, q)}
	}
	q += len("</html>")
	for q < len(doc) && isWS(doc[q]) {
		q++
	}
	if q != len(doc) {
		return a, &structErr{"tail", "after </html>: " + snippetAt(doc, q)}
	}
	for ei, el := range a.elems {
		if n := el.end - el.start; n > kib32 {
			return a, &structErr{"element-size", fmt.Sprintf("element %d has %d bytes of text (> %d)", ei, n, kib32)}
		}
		for _, w := range el.words {
			if len(w) > wordMax {
				return a, &structErr{"word-length", fmt.Sprintf("element %d has a %d-byte word", ei, len(w))}
			}
		}
	}
	return a, nil
}

func (a *armorDoc) concat() []byte {
	var b []byte
	for _, el := range a.elems {
		for _, w := range el.words {
			b = append(b, w...)
		}
	}
	return b
}

// own base64 (RFC 4648 §4, with padding): independent of encoding/base64.
const b64alpha = "ABCDEFGHIJKLMNOPQRSTUVWXYZabcdefghijklmnopqrstuvwxyz0123456789+/"

func refB64(p []byte) []byte {
	out := make([]byte, 0, (len(p)+2)/3*4)
	for len(p) >= 3 {
		v := uint(p[0])<<16 | uint(p[1])<<8 | uint(p[2])
		out = append(out, b64alpha[v>>18&63], b64alpha[v>>12&63], b64alpha[v>>6&63], b64alpha[v&63])
		p = p[3:]
	}
	switch len(p) {
	case 1:
		v := uint(p[0]) << 16
		out = append(out, b64alpha[v>>18&63], b64alpha[v>>12&63], '=', '=')
	case 2:
		v := uint(p[0])<<16 | uint(p[1])<<8
		out = append(out, b64alpha[v>>18&63], b64alpha[v>>12&63], b64alpha[v>>6&63], '=')
	}
	return out
}

// ---- whitespace re-separation ----------------------------------------------

var wsStyles = []string{"minimal", "same-shape", "short-runs", "fill-to-limit", "single-class", "one-huge-run", "crlf"}

// rewriteWS rebuilds the document with every element's words re-separated.
// Everything outside the element texts is copied byte for byte. Each rewritten
// element text stays <= decTextMax.
func rewriteWS(a *armorDoc, r *vlib.Rand, style string) (out []byte, used [5]bool, maxText int) {
	prev := 0
	for _, el := range a.elems {
		out = append(out, a.doc[prev:el.start]...)
		m := len(el.words)
		sum := 0
		for _, w := range el.words {
			sum += len(w)
		}
		gaps := make([]int, m+1)
		for k := 1; k < m; k++ {
			gaps[k] = 1
		}
		inner := m - 1
		if inner < 0 {
			inner = 0
		}
		extra := decTextMax - sum - inner
		if extra < 0 {
			extra = 0
		}
		add := func(k, n int) {
			if n > extra {
				n = extra
			}
			gaps[k] += n
			extra -= n
		}
		class := -1
		switch style {
		case "minimal":
		case "same-shape":
			add(0, 1)
			add(m, 1)
		case "single-class":
			add(0, 1)
			add(m, 1)
			class = r.Intn(5)
		case "short-runs":
			for k := range gaps {
				add(k, r.Intn(4))
			}
		case "fill-to-limit":
			for extra > 0 {
				n := 64
				if n > extra {
					n = extra
				}
				add(r.Intn(m+1), 1+r.Intn(n))
			}
		case "one-huge-run":
			add(r.Intn(m+1), r.Range(100, 20000))
		case "crlf":
			for k := range gaps {
				if k == 0 || k == m || extra > 0 {
					if gaps[k] == 0 {
						add(k, 2)
					} else {
						add(k, 1)
					}
				}
			}
		}
		t0 := len(out)
		emit := func(k int) {
			n := gaps[k]
			if style == "crlf" && n == 2 {
				out = append(out, '\r', '\n')
				used[4], used[2] = true, true
				return
			}
			for ; n > 0; n-- {
				c := class
				if c < 0 {
					c = r.Intn(5)
				}
				used[c] = true
				out = append(out, ws5[c])
			}
		}
		emit(0)
		for k, w := range el.words {
			out = append(out, w...)
			emit(k + 1)
		}
		if n := len(out) - t0; n > maxText {
			maxText = n
		}
		prev = el.end
	}
	out = append(out, a.doc[prev:]...)
	return
}

// renderWords lays the string s ("0"‖base64…) out the way the encoder does
// (32-byte words, one '\n' after each, perElem words per pre element) between
// the given head and tail. Used to build defective documents.
func renderWords(head, tail []byte, s []byte, perElem int) []byte {
	var b bytes.Buffer
	b.Write(head)
	n := 0
	open := false
	for len(s) > 0 {
		if !open {
			b.WriteString("<pre>\n")
			open = true
		}
		k := wordMax
		if k > len(s) {
			k = len(s)
		}
		b.Write(s[:k])
		b.WriteByte('\n')
		s = s[k:]
		n++
		if n == perElem {
			b.WriteString("</pre>\n")
			open = false
			n = 0
		}
	}
	if open {
		b.WriteString("</pre>\n")
	}
	b.Write(tail)
	return b.Bytes()
}

// insertionPoints lists offsets that are outside every pre element, outside
// every tag and outside the raw-text content of style/script/noscript:
// line starts of the head, just before each <pre>, just after each </pre>,
// around </body> and </html>.
func insertionPoints(a *armorDoc) []int {
	seen := map[int]bool{}
	var pts []int
	add := func(p int) {
		if !seen[p] {
			seen[p] = true
			pts = append(pts, p)
		}
	}
	add(0)
	head := a.head()
	for i := 0; i < len(head); i++ {
		// a line start between two tags: previous line ends in '>', next byte is '<' (or the body start)
		if head[i] == '\n' && i > 0 && head[i-1] == '>' && (i+1 == len(head) || head[i+1] == '<') {
			add(i + 1)
		}
	}
	for _, el := range a.elems {
		add(el.preAt)
		add(el.afterAt)
	}
	add(a.tailAt)
	add(a.tailAt + len("</body>"))
	if j := bytes.LastIndex(a.doc, []byte("</html>")); j >= 0 {
		add(j)
		add(j + len("</html>"))
	}
	add(len(a.doc))
	// ascending
	for i := 1; i < len(pts); i++ {
		for j := i; j > 0 && pts[j] < pts[j-1]; j-- {
			pts[j], pts[j-1] = pts[j-1], pts[j]
		}
	}
	return pts
}
