// C10 — shared plumbing: encoder driver, decoder driver with panic / stuck /
// bytes-pulled monitors, hostile source readers.
package c10

import (
	"bytes"
	"errors"
	"fmt"
	"hash/fnv"
	"io"
	"strconv"
	"strings"
	"syscall"
	"sync/atomic"
	"time"

	"git.torproject.org/pluggable-transports/snowflake.git/v2/common/amp"
	"verif/vlib"
)

const (
	kib32   = 32 * 1024 // property: "at most 32 KiB per element"
	wordMax = 32        // property: "words of at most 32 bytes"

	// Encoder constants, read from armor_encoder.go. They are used ONLY to
	// place payload sizes on boundaries, never as an oracle.
	encWordsPerElem = 992
	encElemChars    = encWordsPerElem * 32 // non-whitespace bytes per full element

	// The decoder calls tokenizer.SetMaxBuf(32 KiB). x/net/html fails a token
	// as soon as the raw bytes read for it, INCLUDING the two bytes of
	// look-ahead ("</") that end a text token, reach the limit. The largest
	// element text the decoder can accept is therefore 32 KiB - 3. The
	// metamorphic rewrites stay within this bound (see report: the 3-byte gap
	// to the property's "32 KiB" is recorded as an observation, not a verdict).
	decTextMax = kib32 - 3

	watchdog = 120 * time.Second
)

var ws5 = []byte{' ', '\t', '\n', '\f', '\r'}

func isWS(b byte) bool { return b == ' ' || b == '\t' || b == '\n' || b == '\f' || b == '\r' }

type rec map[string]interface{}

func mkrec(id string, kv ...interface{}) rec {
	r := rec{"case": id}
	for i := 0; i+1 < len(kv); i += 2 {
		r[kv[i].(string)] = kv[i+1]
	}
	return r
}

func (r rec) with(kv ...interface{}) rec {
	n := rec{}
	for k, v := range r {
		n[k] = v
	}
	for i := 0; i+1 < len(kv); i += 2 {
		n[kv[i].(string)] = kv[i+1]
	}
	return n
}

func hashOf(parts ...[]byte) string {
	h := fnv.New64a()
	for _, p := range parts {
		h.Write(p)
		h.Write([]byte{0})
	}
	return fmt.Sprintf("%x", h.Sum64())
}

// docField renders a document for a replay record: whole when small, else a
// quoted prefix/suffix plus length and hash (regenerable from seed/tier/case).
func docField(doc []byte) interface{} {
	if len(doc) <= 3000 {
		return strconv.QuoteToASCII(string(doc))
	}
	return map[string]interface{}{
		"len":    len(doc),
		"fnv64a": hashOf(doc),
		"prefix": strconv.QuoteToASCII(string(doc[:160])),
		"suffix": strconv.QuoteToASCII(string(doc[len(doc)-160:])),
	}
}

func hexPrefix(b []byte) string {
	if len(b) > 64 {
		return fmt.Sprintf("%x…(%d bytes)", b[:64], len(b))
	}
	return fmt.Sprintf("%x", b)
}

// ---- harness state ----------------------------------------------------------

type H struct {
	res    *vlib.Result
	stucks int
	abort  bool
}

// ---- payloads ---------------------------------------------------------------

func genPayload(r *vlib.Rand, n int) []byte {
	p := make([]byte, n)
	switch r.Intn(8) {
	case 0:
		// zeros: base64 "AAAA…"
	case 1:
		for i := range p {
			p[i] = 0xff // base64 "////"
		}
	case 2:
		pat := []byte{0xfb, 0xef, 0xbe} // base64 "++++"
		for i := range p {
			p[i] = pat[i%3]
		}
	default:
		r.Fill(p)
	}
	return p
}

// ---- encoder driver ---------------------------------------------------------

var wmodes = []string{"whole", "onebyte", "tiny0-5", "upto100", "upto5000", "around3", "empties"}

// encode drives the real encoder with the given write plan.
func (h *H) encode(payload []byte, wmode string, r *vlib.Rand, rc rec) ([]byte, bool) {
	var buf bytes.Buffer
	failed := ""
	writes, empties := 0, 0
	if h.res.Guard("panic:encoder", rc, func() {
		enc, err := amp.NewArmorEncoder(&buf)
		if err != nil {
			failed = "NewArmorEncoder: " + err.Error()
			return
		}
		write := func(q []byte) bool {
			writes++
			if len(q) == 0 {
				empties++
			}
			n, e := enc.Write(q)
			if e != nil || n != len(q) {
				failed = fmt.Sprintf("Write(len %d) = %d, %v", len(q), n, e)
				return false
			}
			return true
		}
		p := payload
		next := func(k int) []byte {
			if k > len(p) {
				k = len(p)
			}
			q := p[:k]
			p = p[k:]
			return q
		}
		switch wmode {
		case "whole":
			if !write(p) {
				return
			}
			p = nil
		case "onebyte":
			for len(p) > 0 {
				if !write(next(1)) {
					return
				}
			}
		case "empties":
			if !write(nil) {
				return
			}
			for len(p) > 0 {
				if !write(next(r.Range(1, 50))) {
					return
				}
				for k := r.Intn(3); k > 0; k-- {
					var e []byte
					if r.Bool() {
						e = []byte{}
					}
					if !write(e) {
						return
					}
				}
			}
			if !write([]byte{}) {
				return
			}
		default:
			zeros := 0
			for len(p) > 0 {
				var k int
				switch wmode {
				case "tiny0-5":
					k = r.Intn(6)
				case "upto100":
					k = r.Intn(101)
				case "upto5000":
					k = r.Intn(5001)
				case "around3":
					k = r.Range(1, 7)
				}
				if k == 0 {
					zeros++
					if zeros > 3 {
						k = 1
					}
				}
				if k > 0 {
					zeros = 0
				}
				if !write(next(k)) {
					return
				}
			}
		}
		if e := enc.Close(); e != nil {
			failed = "Close: " + e.Error()
		}
	}) {
		return nil, false
	}
	if failed != "" {
		h.res.Violatef("encoder-error", rc, "encoder into a bytes.Buffer failed: %s", failed)
		return nil, false
	}
	h.res.Obs("encoder_writes", int64(writes))
	h.res.Obs("encoder_empty_writes", int64(empties))
	return buf.Bytes(), true
}

// ---- hostile source readers -------------------------------------------------

type srcMode struct {
	name     string
	maxRead  int
	zeroProb int // per mille
	eofWith  bool
}

var smodes = []srcMode{
	{name: "full"},
	{name: "short7", maxRead: 7},
	{name: "onebyte", maxRead: 1},
	{name: "chunk33", maxRead: 33},
	{name: "zero-reads", zeroProb: 250, maxRead: 900},
	{name: "data-with-eof", eofWith: true},
	{name: "data-with-eof+short", maxRead: 5, eofWith: true},
}

type hsrc struct {
	// the decoder's goroutine may outlive the decode call: the counters the
	// harness reads afterwards are atomic, everything else is the reader's own
	b             []byte
	m             srcMode
	r             *vlib.Rand
	zeros         int
	pulled        int64
	readsAfterEnd int64
}

func (s *hsrc) afterEnd() int { return int(atomic.LoadInt64(&s.readsAfterEnd)) }

func (s *hsrc) Read(p []byte) (int, error) {
	if len(p) == 0 {
		return 0, nil
	}
	if len(s.b) == 0 {
		atomic.AddInt64(&s.readsAfterEnd, 1)
		return 0, io.EOF
	}
	if s.m.zeroProb > 0 && s.zeros < 4 && s.r.Intn(1000) < s.m.zeroProb {
		s.zeros++ // the tokenizer tolerates < 100 consecutive empty reads
		return 0, nil
	}
	s.zeros = 0
	n := len(p)
	if s.m.maxRead > 0 {
		if k := s.r.Range(1, s.m.maxRead); k < n {
			n = k
		}
	}
	if n > len(s.b) {
		n = len(s.b)
	}
	copy(p, s.b[:n])
	s.b = s.b[n:]
	atomic.AddInt64(&s.pulled, int64(n))
	if len(s.b) == 0 && s.m.eofWith {
		return n, io.EOF
	}
	return n, nil
}

// ---- decoder driver ---------------------------------------------------------

var rbufs = []int{1, 2, 3, 4, 5, 4095, 4096, 65536, 0} // 0 = a different size for every Read

type decOut struct {
	data     []byte
	newErr   error // from NewArmorDecoder
	readErr  error // terminal error of Read (io.EOF = clean end)
	panicked bool
	stuck    bool // watchdog: undecided
	zeroSpin bool // Read returned (0, nil) 10000 times in a row
	capped   bool // produced more output than the input could hold
}

// err is the decoding error in the sense of the property (nil = clean data).
func (o decOut) err() error {
	if o.newErr != nil {
		return o.newErr
	}
	if o.readErr == io.EOF {
		return nil
	}
	return o.readErr
}

func (o decOut) undecided() bool { return o.panicked || o.stuck || o.zeroSpin || o.capped }

func errText(e error) string {
	if e == nil {
		return "nil"
	}
	return e.Error()
}

// errClass maps an error to the property's error vocabulary (observation only;
// the messages are not API).
func errClass(e error) string {
	var uv amp.ErrUnknownVersion
	switch {
	case e == nil:
		return "none"
	case errors.As(e, &uv):
		return "unknown-version"
	case e == io.EOF:
		return "no-version-byte"
	case e == io.ErrUnexpectedEOF:
		return "bad-base64"
	}
	s := e.Error()
	switch {
	case strings.Contains(s, "illegal base64"):
		return "bad-base64"
	// the real messages read "unexpected <>" / "unexpected </>": the tag name
	// has been consumed by TagName() before Token() is formatted
	case strings.HasPrefix(s, "unexpected </"):
		return "stray-pre"
	case strings.HasPrefix(s, "unexpected <"):
		return "nested-pre"
	case strings.Contains(s, "missing </pre>"):
		return "unterminated-pre"
	case strings.Contains(s, "max buffer exceeded"):
		return "oversized-element"
	case strings.Contains(s, "harness:"):
		return "source-error"
	}
	return "other"
}

// decode runs the real decoder over src to its terminal error, on its own
// goroutine, under the panic, zero-progress and watchdog monitors.
func (h *H) decode(id string, rc rec, src io.Reader, rbuf int, rr *vlib.Rand, maxOut int) decOut {
	h.res.Eval(1)
	if h.abort {
		return decOut{stuck: true}
	}
	h.res.CaseLog(id) // a panic on the decoder's internal goroutine kills the process
	cpu0 := processCPU()
	ch := make(chan decOut, 1)
	go func() {
		var o decOut
		o.panicked = h.res.Guard("panic:decoder", rc, func() {
			dec, err := amp.NewArmorDecoder(src)
			if err != nil {
				o.newErr = err
				return
			}
			big := make([]byte, 65536)
			zero := 0
			for {
				n := rbuf
				if n == 0 {
					n = rr.PickInt([]int{1, 2, 3, 4, 5, 7, 31, 32, 33, 100, 4095, 4096, 65536})
				}
				k, e := dec.Read(big[:n])
				o.data = append(o.data, big[:k]...)
				if e != nil {
					o.readErr = e
					return
				}
				if k == 0 {
					zero++
					if zero > 10000 {
						o.zeroSpin = true
						return
					}
				} else {
					zero = 0
				}
				if len(o.data) > maxOut {
					o.capped = true
					return
				}
			}
		})
		ch <- o
	}()
	t := time.NewTimer(watchdog)
	defer t.Stop()
	select {
	case o := <-ch:
		if o.zeroSpin {
			// clock-free: ten thousand consecutive empty reads is no progress
			h.res.Violatef("stuck:decoder", rc, "Read returned (0, nil) 10000 times in a row after %d bytes", len(o.data))
		}
		if o.capped {
			h.res.Violatef("decoder-output-exceeds-input", rc, "decoder produced more than %d bytes from a smaller input", maxOut)
		}
		return o
	case <-t.C:
		h.stucks++
		cls := classifyStuck()
		if cpu := processCPU() - cpu0; strings.Count(cls, "SPINNING") == 2 && cpu >= watchdog/2 {
			// not a matter of the clock: the decoder's goroutine was found executing in
			// both samples and the process has burnt more than a minute of processor
			// time on an input of at most a few hundred kilobytes
			h.res.Violatef("stuck:decoder-spinning", rc.with("classification", cls), "the decoder neither returns data nor an error: its goroutine is executing (not waiting) in two dumps 2 s apart and the process used %v of processor time on this one input", cpu.Round(time.Second))
			h.abort = true
			return decOut{stuck: true}
		}
		h.res.Inconcl(fmt.Sprintf("stuck:decoder case %s undecided after %v: %s", id, watchdog, cls))
		h.res.Note("stuck_case_"+strconv.Itoa(h.stucks), rc.with("classification", cls))
		if h.stucks >= 3 {
			h.abort = true
		}
		return decOut{stuck: true}
	}
}

func processCPU() time.Duration {
	var ru syscall.Rusage
	if syscall.Getrusage(syscall.RUSAGE_SELF, &ru) != nil {
		return 0
	}
	return time.Duration(ru.Utime.Nano() + ru.Stime.Nano())
}

// classifyStuck inspects the goroutine dump for the decoder's goroutines.
func classifyStuck() string {
	sample := func() (string, []string) {
		gs := vlib.ParseDump(vlib.DumpAll())
		var out []string
		cls := "no decoder goroutine found"
		for _, g := range gs {
			if !(g.HasFrame("amp.decodeToWriter") || g.HasFrame("amp.NewArmorDecoder") || g.HasFrame("base64.(*decoder).Read")) {
				continue
			}
			where := g.FirstFrameWith("amp.")
			st := g.State
			switch {
			case st == "running" || st == "runnable":
				cls = "decoder goroutine SPINNING"
			case g.HasFrame("io.(*pipe).write"):
				if !strings.Contains(cls, "SPINNING") {
					cls = "decoder goroutine blocked writing into its pipe"
				}
			}
			out = append(out, fmt.Sprintf("[%s] %s", st, where))
		}
		return cls, out
	}
	c1, o1 := sample()
	time.Sleep(2 * time.Second)
	c2, _ := sample()
	return fmt.Sprintf("%s; 2s later: %s; goroutines: %s", c1, c2, strings.Join(o1, " | "))
}

// decodeBytes is decode over a byte slice through a hostile source; it also
// flags a decoder that keeps polling a source that has ended (clock-free).
func (h *H) decodeBytes(id string, rc rec, doc []byte, sm srcMode, rbuf int, rr *vlib.Rand) decOut {
	src := &hsrc{b: doc, m: sm, r: rr.Split("src")}
	o := h.decode(id, rc, src, rbuf, rr.Split("rbuf"), len(doc)+64)
	if n := src.afterEnd(); !o.stuck && n > 1000 {
		h.res.Violatef("stuck:decoder", rc, "decoder read the ended source %d more times", n)
	}
	return o
}

// countDecoderGoroutines counts goroutines inside amp.decodeToWriter.
func countDecoderGoroutines() (total, inPipeWrite int) {
	for _, g := range vlib.ParseDump(vlib.DumpAll()) {
		if g.HasFrame("amp.decodeToWriter") {
			total++
			if g.HasFrame("io.(*pipe).write") {
				inPipeWrite++
			}
		}
	}
	return
}
