// C10 — generators: benign outside markup, hostile documents, defect
// injection per error class, unbounded tag-free sources.
package c10

import (
	"bytes"
	"errors"
	"io"
	"strings"
	"sync"

	"verif/vlib"
)

// ---- benign markup (contains no pre element) --------------------------------

var textAlpha = []rune("abcdefghijklmnopqrstuvwxyzABCDEFGHIJKLMNOPQRSTUVWXYZ0123456789      .,;:!?()[]{}'\"/=+_*#@%^~|\\>\n\t-é⚡")
var asciiAlpha = []rune("abcdefghijklmnopqrstuvwxyzABCDEFGHIJKLMNOPQRSTUVWXYZ0123456789+/=     \n")
var commentAlpha = []rune("abcdefghijklmnopqrstuvwxyz0123456789 <>/=\"'\n!&")
var attrAlpha = []rune("abcdefghijklmnopqrstuvwxyz0123456789 <>/=&-_.:;#?")
var entities = []string{"&amp;", "&lt;pre&gt;", "&lt;/pre&gt;", "& ", "&#60;", "&nbsp;", "&unknown;"}

func smallText(r *vlib.Rand) string {
	s := r.StringFrom(textAlpha, r.Intn(120))
	if r.Chance(1, 3) {
		s += r.PickString(entities) + r.StringFrom(textAlpha, r.Intn(20))
	}
	return s
}

// bigText: exactly n ASCII bytes without '<'.
func bigText(r *vlib.Rand, n int) string {
	line := r.StringFrom(asciiAlpha, 97)
	var b strings.Builder
	for b.Len() < n {
		b.WriteString(line)
	}
	return b.String()[:n]
}

func genComment(r *vlib.Rand) string {
	body := r.StringFrom(commentAlpha, r.Intn(60))
	if r.Chance(1, 2) {
		body += r.PickString([]string{"<pre>", "</pre>", "<pre>0QUJD</pre>", "<pre", "<script>", "<!"}) + r.StringFrom(commentAlpha, r.Intn(10))
	}
	// leading and trailing space keep "<!-->" / "<!--->" / "--!>" forms out
	return "<!-- " + body + " -->"
}

func genAttrs(r *vlib.Rand) string {
	var b strings.Builder
	for k := r.Intn(4); k > 0; k-- {
		name := r.PickString([]string{"class", "id", "data-x", "title", "style", "hidden", "aria-label", "layout", "pre", "data-pre"})
		b.WriteByte(' ')
		b.WriteString(name)
		v := r.StringFrom(attrAlpha, r.Intn(24))
		if r.Chance(1, 4) {
			v += "<pre>"
		}
		switch r.Intn(4) {
		case 0: // bare attribute
		case 1:
			b.WriteString(`="` + v + `"`)
		case 2:
			b.WriteString(`='` + v + `'`)
		case 3:
			b.WriteString("=" + r.StringFrom([]rune("abcdefghij0123456789"), 1+r.Intn(8)))
		}
	}
	return b.String()
}

var balancedTags = []string{"div", "span", "p", "b", "i", "em", "a", "section", "article", "h1", "ul", "li", "table", "amp-img", "button", "label", "code", "blockquote", "pre-x", "prefix", "DIV", "Span"}
var voidTags = []string{"br", "hr", "img", "meta", "input", "wbr", "link"}

func genElement(r *vlib.Rand, depth int) string {
	tag := r.PickString(balancedTags)
	var b strings.Builder
	b.WriteString("<" + tag + genAttrs(r) + ">")
	for k := r.Intn(3); k > 0; k-- {
		if depth < 3 && r.Chance(1, 2) {
			s, _ := genSnippet(r, depth+1)
			b.WriteString(s)
		} else {
			b.WriteString(smallText(r))
		}
	}
	b.WriteString("</" + tag + ">")
	return b.String()
}

var jsTokens = []string{"var x", " = ", "\"<pre>\"", "'</pre>'", "<", ">", ";", "\n", "if(a<b){}", "/* c */", "1", "x", " ", "\"<pre>0QUJD</pre>\"", "{\"a\":1}", "&amp;"}
var cssTokens = []string{"p{color:red}", "/* <pre> */", "a>b{}", "@media(min-width:1px){}", "\n", " ", "pre{white-space:pre}", "body{margin:0}"}

func joinTokens(r *vlib.Rand, toks []string, n int) string {
	var b strings.Builder
	for ; n > 0; n-- {
		b.WriteString(r.PickString(toks))
	}
	return b.String()
}

// genSnippet returns one piece of markup and its kind. No kind produces a pre
// element: "<pre>" appears only inside comments, quoted attribute values and
// the raw text of closed script/style/textarea/title/noscript elements.
func genSnippet(r *vlib.Rand, depth int) (string, string) {
	switch r.Intn(11) {
	case 0, 1:
		return genComment(r), "comment"
	case 2, 3:
		return genElement(r, depth), "element"
	case 4:
		t := r.PickString(voidTags)
		end := r.PickString([]string{">", "/>", " />"})
		return "<" + t + genAttrs(r) + end, "void"
	case 5:
		open := r.PickString([]string{"<script>", `<script type="application/json">`, `<script async src="x.js">`, "<SCRIPT>"})
		cl := "</script>"
		if open == "<SCRIPT>" {
			cl = "</SCRIPT>"
		}
		return open + joinTokens(r, jsTokens, r.Intn(12)) + cl, "script"
	case 6:
		return "<style>" + joinTokens(r, cssTokens, r.Intn(8)) + "</style>", "style"
	case 7:
		return smallText(r), "text-small"
	case 8:
		var n int
		switch r.Intn(4) {
		case 0:
			n = r.Range(1000, 8000)
		case 1:
			n = r.Range(8000, 30000)
		case 2:
			n = decTextMax - r.Intn(8)
		default:
			n = r.Range(200, 1000)
		}
		// fenced by comments so that it cannot merge with a neighbouring text node
		return "<!--a-->" + bigText(r, n) + "<!--b-->", "text-big"
	case 9:
		t := r.PickString([]string{"textarea", "title", "noscript", "iframe", "xmp"})
		return "<" + t + ">" + r.PickString([]string{"", "x", "<pre>", "<pre>0QUJD</pre>", "a <b> c", "</pre>"}) + "</" + t + ">", "rawtext"
	default:
		return r.PickString([]string{`<?xml version="1.0"?>`, "<!DOCTYPE html>", "<![CDATA[ x ]]>", "</>", "<!---->", "\n\n", " \t\f\r "}), "misc"
	}
}

// insertMarkup splices snippets at insertion points (all of them when dense).
func insertMarkup(doc []byte, pts []int, r *vlib.Rand, dense bool) (out []byte, kinds []string, where []int) {
	chosen := map[int]bool{}
	if dense {
		for _, p := range pts {
			chosen[p] = true
		}
	} else {
		n := r.Range(1, 6)
		for _, i := range r.Perm(len(pts)) {
			if n == 0 {
				break
			}
			chosen[pts[i]] = true
			n--
		}
	}
	prev := 0
	for _, p := range pts {
		if !chosen[p] {
			continue
		}
		out = append(out, doc[prev:p]...)
		prev = p
		lastText := false
		for k := r.Range(1, 3); k > 0; k-- {
			s, kind := genSnippet(r, 0)
			isText := kind == "text-small" || kind == "misc"
			if isText && lastText {
				out = append(out, "<!--x-->"...)
			}
			lastText = isText
			out = append(out, s...)
			kinds = append(kinds, kind)
		}
		where = append(where, p)
	}
	out = append(out, doc[prev:]...)
	return
}

// ---- hostile documents ------------------------------------------------------

var frags = []string{"<pre>", "</pre>", "<pre", "</pre", "<PRE>", "<pre >", "<pre/>", "<pre a=\"", "0", "0QUJD", "QUJD", "AAAA", "=", "==",
	" ", "\n", "\t", "\f", "\r", "\v", "<", ">", "</", "<!--", "-->", "<!", "<?", "<script>", "</script>", "<style>", "</style>",
	"<textarea>", "<plaintext>", "<title>", "&amp;", "&#48;", "&#x30;", "&", "&#", "&#x", "\x00", "\xff", "\xc0\x80", "<a href=\"", "\"", "'",
	"<![CDATA[", "]]>", "<body>", "</body>", "<noscript>", "<b>", "</b>", "<p/>", "1", "!", "<pre>0", "<pre>\n0QUJD\n</pre>"}

func genArbitrary(r *vlib.Rand) []byte {
	var b []byte
	switch r.Intn(5) {
	case 0: // pure random bytes
		return r.Bytes(r.Intn(200))
	}
	for k := r.Intn(40); k > 0; k-- {
		switch r.Intn(7) {
		case 0:
			b = append(b, r.Bytes(1+r.Intn(8))...)
		case 1:
			b = append(b, r.StringFrom([]rune(b64alpha), 1+r.Intn(40))...)
		default:
			b = append(b, r.PickString(frags)...)
		}
	}
	return b
}

func mutate(doc []byte, r *vlib.Rand) []byte {
	d := append([]byte(nil), doc...)
	for k := r.Range(1, 4); k > 0 && len(d) > 0; k-- {
		p := r.Intn(len(d))
		// bias towards the body
		if r.Chance(2, 3) {
			if i := bytes.Index(d, []byte("<body>")); i >= 0 && i < len(d)-1 {
				p = i + r.Intn(len(d)-i)
			}
		}
		switch r.Intn(6) {
		case 0:
			d[p] ^= byte(1 << uint(r.Intn(8)))
		case 1:
			d[p] = byte(r.Intn(256))
		case 2:
			e := p + r.Range(1, 20)
			if e > len(d) {
				e = len(d)
			}
			d = append(d[:p:p], d[e:]...)
		case 3:
			f := r.PickString(frags)
			d = append(d[:p:p], append([]byte(f), d[p:]...)...)
		case 4:
			e := p + r.Range(1, 60)
			if e > len(d) {
				e = len(d)
			}
			d = append(d[:e:e], append(append([]byte(nil), d[p:e]...), d[e:]...)...)
		case 5:
			d = d[:p]
		}
	}
	return d
}

// ---- unbounded tag-free sources --------------------------------------------

var errCutOff = errors.New("harness: generator cut off after far exceeding the bound")

const (
	genTotal    = 256 << 20 // what the source is prepared to supply
	genHardStop = 1 << 20   // the harness stops feeding here: the bound (~64 KiB) is long refuted
)

// genReader supplies prefix, then up to 256 MiB of a tag-free pattern.
type genReader struct {
	mu       sync.Mutex
	prefix   []byte
	pattern  []byte
	maxRead  int
	hardStop int64 // 0 = genHardStop
	off      int64 // bytes of pattern supplied
	pulled   int64 // all bytes supplied
	maxReq   int
	cut      bool
}

// stats returns (bytes pulled, largest single request, cut off by the harness).
func (g *genReader) stats() (int64, int, bool) {
	g.mu.Lock()
	defer g.mu.Unlock()
	return g.pulled, g.maxReq, g.cut
}

func (g *genReader) Read(p []byte) (int, error) {
	g.mu.Lock()
	defer g.mu.Unlock()
	if len(p) > g.maxReq {
		g.maxReq = len(p)
	}
	if len(p) == 0 {
		return 0, nil
	}
	if g.maxRead > 0 && len(p) > g.maxRead {
		p = p[:g.maxRead]
	}
	if len(g.prefix) > 0 {
		n := copy(p, g.prefix)
		g.prefix = g.prefix[n:]
		g.pulled += int64(n)
		return n, nil
	}
	hs := g.hardStop
	if hs == 0 {
		hs = genHardStop
	}
	if g.pulled >= hs {
		g.cut = true
		return 0, errCutOff
	}
	if g.off >= genTotal {
		return 0, io.EOF
	}
	for i := range p {
		p[i] = g.pattern[(g.off+int64(i))%int64(len(g.pattern))]
	}
	g.off += int64(len(p))
	g.pulled += int64(len(p))
	return len(p), nil
}

type genCase struct {
	name    string
	prefix  string
	pattern string
}

func b64words() string {
	var b strings.Builder
	for i := 0; i < 8; i++ {
		b.WriteString(strings.Repeat(string(b64alpha[(i*7)%64]), 32))
		b.WriteByte('\n')
	}
	return b.String()
}

var genCases = []genCase{
	{"in-pre/one-giant-word", "<pre>0", "A"},
	{"in-pre/32-byte-words", "<pre>\n0", b64words()},
	{"in-pre/whitespace-only", "<pre>0\n", " \t\n\f\r"},
	{"in-pre/non-tag-lt", "<pre>0", "a < b <1 <  "},
	{"in-pre/entities", "<pre>0", "&amp;&#65;"},
	{"in-pre-after-valid-element", "<pre>\n0QUJD\n</pre>\n<pre>\n", b64words()},
	{"outside/text", "", "lorem ipsum dolor sit amet "},
	{"outside/text-after-valid-element", "<pre>\n0QUJD\n</pre>\n", "x"},
	{"outside/whitespace-only", "", "\n"},
	{"outside/nul-bytes", "", "\x00"},
	{"unterminated-comment", "<!--", "c "},
	{"unterminated-comment-in-pre", "<pre>0<!--", "c "},
	{"unterminated-script", "<script>", "var x = 1; "},
	{"unterminated-style-in-pre", "<pre>0<style>", "p{} "},
	{"unterminated-textarea", "<textarea>", "t "},
	{"plaintext", "<plaintext>", "p "},
	{"giant-tag-name", "<", "a"},
	{"giant-attribute-value", "<div title=\"", "v "},
	{"giant-attribute-name", "<div ", "k"},
	{"many-attributes", "<div", " a=b"},
	{"giant-end-tag", "</", "e"},
	{"giant-doctype", "<!DOCTYPE ", "d "},
	{"giant-bogus-comment", "<?", "q "},
}
