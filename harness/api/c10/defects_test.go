// C10 — defect injection: one document per error class the property lists.
package c10

import (
	"bytes"
	"fmt"

	"verif/vlib"
)

var errClasses = []string{"unknown-version", "stray-pre", "nested-pre", "unterminated-pre", "oversized-element", "bad-base64"}

type defect struct {
	class, variant string
	doc            []byte
	version        byte // unknown-version: the byte put in place of '0'
}

func wsOffsets(doc []byte, from, to int) []int {
	var out []int
	for p := from; p < to; p++ {
		if isWS(doc[p]) {
			out = append(out, p)
		}
	}
	return out
}

func splice(doc []byte, at int, ins string) []byte {
	out := make([]byte, 0, len(doc)+len(ins))
	out = append(out, doc[:at]...)
	out = append(out, ins...)
	return append(out, doc[at:]...)
}

// padTextTo builds head <pre> text </pre> tail where text holds the words of s
// and is exactly L bytes long (a whitespace run is stretched at gap `at`:
// 0 = leading, -1 = trailing, otherwise after word `at`).
func padTextTo(head, tail, s []byte, L int, at int, r *vlib.Rand) []byte {
	var words [][]byte
	for len(s) > 0 {
		k := wordMax
		if k > len(s) {
			k = len(s)
		}
		words = append(words, s[:k])
		s = s[k:]
	}
	base := 1 // leading '\n'
	for _, w := range words {
		base += len(w) + 1
	}
	pad := L - base
	if pad < 0 {
		pad = 0
	}
	if at < 0 || at > len(words) {
		at = len(words)
	}
	var b bytes.Buffer
	b.Write(head)
	b.WriteString("<pre>")
	run := func(n int) {
		for ; n > 0; n-- {
			if r == nil {
				b.WriteByte(' ')
			} else {
				b.WriteByte(ws5[r.Intn(5)])
			}
		}
	}
	b.WriteByte('\n')
	if at == 0 {
		run(pad)
	}
	for i, w := range words {
		b.Write(w)
		b.WriteByte('\n')
		if at == i+1 {
			run(pad)
		}
	}
	b.WriteString("</pre>\n")
	b.Write(tail)
	return b.Bytes()
}

func genDefect(r *vlib.Rand, class string, head, tail []byte) (defect, []byte) {
	d := defect{class: class}
	n := r.PickInt([]int{1, 2, 3, 10, 23, 24, 25, 100, 500, 3000})
	if r.Chance(1, 4) {
		n = r.Range(1, 2000)
	}
	payload := genPayload(r, n)
	s := append([]byte{'0'}, refB64(payload)...)
	perElem := r.PickInt([]int{1, 2, 5, encWordsPerElem})
	base := renderWords(head, tail, s, perElem)
	a, serr := parseArmor(base)
	if serr != nil || len(a.elems) == 0 {
		panic("harness: own rendering does not parse: " + fmt.Sprint(serr))
	}
	last := a.elems[len(a.elems)-1]
	switch class {
	case "unknown-version":
		var b byte
		for {
			b = byte(r.Intn(256))
			if r.Chance(1, 2) {
				b = byte(r.PickInt([]int{'1', '2', '9', 'A', 'Q', 'o', 'O', '=', '+', '/', '\v', 0x00, 0x7f, 0x80, 0xff, '>', '"'}))
			}
			if b != '0' && !isWS(b) && b != '<' && b != '&' {
				break
			}
		}
		d.version = b
		d.variant = fmt.Sprintf("version=%q", b)
		s2 := append([]byte{b}, s[1:]...)
		d.doc = renderWords(head, tail, s2, perElem)
	case "stray-pre":
		pts := insertionPoints(a)
		p := pts[r.Intn(len(pts))]
		tag := r.PickString([]string{"</pre>", "</PRE>", "</pre >", "</pre\n>"})
		d.variant = fmt.Sprintf("%q at offset %d of %d (body starts %d)", tag, p, len(base), a.headEnd)
		d.doc = splice(base, p, tag)
	case "nested-pre":
		el := a.elems[r.Intn(len(a.elems))]
		offs := wsOffsets(base, el.start, el.end)
		i := r.Intn(len(offs))
		tag := r.PickString([]string{"<pre>", "<PRE>", `<pre class="x">`, "<pre >"})
		d.doc = splice(base, offs[i], tag)
		d.variant = "open " + tag
		if r.Bool() {
			// also closed again: the document then has balanced tags
			j := i + r.Intn(len(offs)-i)
			d.doc = splice(d.doc, offs[j]+len(tag), "</pre>")
			d.variant += " + matching </pre>"
		}
	case "unterminated-pre":
		switch r.Intn(4) {
		case 0:
			d.variant = "last </pre> deleted, trailer kept"
			d.doc = append(append([]byte(nil), base[:last.end]...), base[last.afterAt:]...)
		case 1:
			d.variant = "document ends before the last </pre>"
			d.doc = append([]byte(nil), base[:last.end]...)
		case 2:
			cut := last.start + r.Intn(last.end-last.start+1)
			d.variant = "document ends inside the last element's text"
			d.doc = append([]byte(nil), base[:cut]...)
		case 3:
			d.variant = "document ends with \"</pre\" (no >)"
			d.doc = append([]byte(nil), base[:last.afterAt-1]...)
		}
	case "oversized-element":
		switch r.Intn(3) {
		case 0:
			// more words than fit: a real payload, all words in one element
			n := r.Range(24600, 60000)
			payload = genPayload(r, n)
			s = append([]byte{'0'}, refB64(payload)...)
			d.doc = renderWords(head, tail, s, 1<<30)
			d.variant = fmt.Sprintf("%d words in one element", (len(s)+31)/32)
		case 1:
			L := r.PickInt([]int{kib32 + 1, kib32 + 2, kib32 + 3, 33000, 40000, 65536, 100000})
			at := r.PickInt([]int{0, -1, 1})
			d.doc = padTextTo(head, tail, s, L, at, r)
			d.variant = fmt.Sprintf("whitespace run stretching the text to %d bytes (gap %d)", L, at)
		case 2:
			// a valid first element, then an oversized one
			n := r.Range(24600, 40000)
			p2 := genPayload(r, n)
			payload = append(append([]byte(nil), []byte("ABC")...), p2...)
			s = append([]byte{'0'}, refB64(payload)...)
			first := renderWords(head, nil, s[:5], encWordsPerElem)
			d.doc = append(first, renderWords(nil, tail, s[5:], 1<<30)...)
			d.variant = "valid element followed by an oversized one"
		}
		a2, _ := parseArmor(d.doc)
		mx := 0
		for _, el := range a2.elems {
			if el.end-el.start > mx {
				mx = el.end - el.start
			}
		}
		if mx <= kib32 {
			panic("harness: oversized-element document is not oversized")
		}
	case "bad-base64":
		s2 := append([]byte(nil), s...)
		switch r.Intn(3) {
		case 0:
			var i int
			for {
				i = 1 + r.Intn(len(s2)-1)
				if s2[i] != '=' {
					break
				}
			}
			c := byte(r.PickInt([]int{'!', '*', '-', '_', '.', ',', ':', ';', '@', '#', '$', '%', '^', '(', ')', '[', ']', '{', '}', '|', '~', '`', '?', '\\', '\v', 0x7f}))
			s2[i] = c
			d.variant = fmt.Sprintf("illegal character %q at base64 offset %d of %d", c, i-1, len(s2)-1)
		case 1:
			s2 = s2[:len(s2)-1]
			d.variant = "last base64 character dropped (length not a multiple of 4)"
		case 2:
			i := 1 + r.Intn(len(s2)-1)
			for s2[i] == '=' {
				i--
			}
			s2[i] = byte(0x80 + r.Intn(128))
			d.variant = fmt.Sprintf("byte %#x at base64 offset %d", s2[i], i-1)
		}
		d.doc = renderWords(head, tail, s2, perElem)
	}
	return d, payload
}
