// C10 — AMP armor round-trips and survives cache-style rewriting.
// Engine: api (exported amp.NewArmorEncoder / amp.NewArmorDecoder), -race.
// Oracles: (1) decode(encode(p)) == p over write plans, read buffer sizes and
// hostile source readers; (2) DESIGN appendix A3 structure rule, parsed by byte
// scanning, with an own base64; (3) metamorphic: whitespace re-separation and
// benign markup outside pre leave the decoding unchanged; (4) totality: panic,
// zero-progress/watchdog and bytes-pulled-from-source monitors, and one
// injected defect per error class the property lists.
// Files: core_test.go (drivers, monitors), structure_test.go (A3 parser,
// renderers), gen_test.go (generators), defects_test.go (error classes).
package c10

import (
	"bytes"
	"errors"
	"fmt"
	"testing"
	"time"

	"git.torproject.org/pluggable-transports/snowflake.git/v2/common/amp"
	"strings"
	"verif/vlib"
)

const rule = "payload sizes 0..100 exhaustively, +-2 around 24k (32-byte words), +-5 around k*23808 (element capacity) and >100 KB, PRNG sizes; each encoded under 7 write plans and decoded under 9 read-buffer regimes x 7 source-reader behaviours; every encoding checked against rule A3; whitespace re-separation (7 styles over the 5 ASCII whitespace bytes) and markup insertion outside pre (11 kinds) on the parsed encodings; arbitrary/mutated/truncated documents, one injected defect per listed error class, and 256 MiB tag-free generator sources. Non-trivial = payload >= 1 byte AND (fragmenting write plan, read buffer <= 5 or mixed, or non-plain source) for round trips, every rewritten / hostile / defective document otherwise; distinct by (document hash, write plan, read regime, source mode)"

type sizeCase struct {
	n   int
	tag string
}

func sizeCases(root *vlib.Rand) []sizeCase {
	var out []sizeCase
	for n := 0; n <= 100; n++ {
		out = append(out, sizeCase{n, "small-0..100"})
	}
	for _, k := range []int{5, 10, 41, 100} {
		for d := -2; d <= 2; d++ {
			out = append(out, sizeCase{24*k + d, "word-boundary"})
		}
	}
	for k := 1; k <= vlib.Scale(4, 8); k++ {
		n0 := k * encElemChars * 3 / 4 // payload filling k elements
		for d := -5; d <= 5; d++ {
			out = append(out, sizeCase{n0 + d, "element-boundary"})
		}
	}
	for _, n := range []int{100001, 102400, 131073} {
		out = append(out, sizeCase{n, "over-100KB"})
	}
	if vlib.Thorough() {
		out = append(out, sizeCase{500000, "over-100KB"}, sizeCase{1<<20 + 1, "over-100KB"})
	}
	for i := 0; i < vlib.Scale(40, 600); i++ {
		r := root.SplitN("prng-size", i)
		var n int
		switch r.Intn(3) {
		case 0:
			n = r.Intn(300)
		case 1:
			n = r.Intn(5000)
		default:
			n = r.Intn(60000)
		}
		out = append(out, sizeCase{n, "prng"})
	}
	return out
}

func TestVerifC10(t *testing.T) {
	res := vlib.NewResult("C10", "api-c10", rule)
	defer res.Finish()
	root := vlib.NewRand(vlib.Seed()).Split("c10")
	h := &H{res: res}

	// 0. reference boilerplate: what the encoder emits around the empty payload
	empty, ok := h.encode(nil, "whole", root.Split("empty"), mkrec("empty"))
	if !ok {
		return
	}
	ea, serr := parseArmor(empty)
	if serr != nil {
		res.Violatef("structure:"+serr.rule, mkrec("empty", "doc", docField(empty)), "encoding of the empty payload: %s", serr.detail)
		return
	}
	refHead := append([]byte(nil), ea.head()...)
	refTail := append([]byte(nil), ea.tail()...)

	secs := map[string]float64{}
	section := func(name string, f func()) {
		if h.abort {
			return
		}
		t0 := time.Now()
		f()
		secs[name] = time.Since(t0).Seconds()
	}
	section("roundtrip+structure", func() { h.roundTrips(root, refHead, refTail) })
	section("metamorphic", func() { h.metamorphic(root) })
	section("boundary", func() { h.boundaryProbe(root, refHead, refTail) })
	section("error-classes", func() { h.errorClasses(root, refHead, refTail) })
	section("hostile", func() { h.hostile(root) })
	section("bounded", func() { h.bounded(root) })
	section("streaming", func() { h.streaming(root) })
	section("leak-probe", func() { h.leakProbe(refHead, refTail) })
	res.Note("section_seconds", secs)

	res.RequireObs("roundtrip_cases", 800)
	res.RequireObs("roundtrip_ok", 800)
	for _, tag := range []string{"small-0..100", "word-boundary", "element-boundary", "over-100KB", "prng"} {
		res.RequireObs("size_tag_"+tag, 3)
	}
	for _, w := range wmodes {
		res.RequireObs("wmode_"+w, 5)
	}
	for _, b := range rbufs {
		res.RequireObs(fmt.Sprintf("rbuf_%d", b), 5)
	}
	for _, s := range smodes {
		res.RequireObs("src_"+s.name, 5)
	}
	res.RequireObs("encoder_empty_writes", 10)
	res.RequireObs("structure_checked", 800)
	res.RequireObs("docs_with_3plus_elements", 5)
	res.RequireObs("full_elements_seen", 5)
	res.RequireObs("meta_whitespace_cases", 100)
	for _, st := range wsStyles {
		res.RequireObs("ws_style_"+st, 5)
	}
	for _, c := range ws5 {
		res.RequireObs(fmt.Sprintf("ws_char_%#02x", c), 5)
	}
	res.RequireObs("ws_elements_filled_to_limit", 3)
	res.RequireObs("meta_markup_cases", 100)
	for _, k := range []string{"comment", "element", "void", "script", "style", "text-small", "text-big", "rawtext", "misc"} {
		res.RequireObs("snippet_"+k, 5)
	}
	res.RequireObs("meta_combined_cases", 20)
	for _, c := range errClasses {
		res.RequireObs("errclass_"+c+"_error", 5)
	}
	res.RequireObs("errtext_unknown-version", 1)
	res.RequireObs("errtext_stray-pre", 1)
	res.RequireObs("errtext_nested-pre", 1)
	res.RequireObs("errtext_unterminated-pre", 1)
	res.RequireObs("errtext_oversized-element", 1)
	res.RequireObs("errtext_bad-base64", 1)
	res.RequireObs("arbitrary_inputs", 1000)
	res.RequireObs("mutated_inputs", 500)
	res.RequireObs("truncation_points", 1000)
	res.RequireObs("hostile_outcome_data", 1)
	res.RequireObs("hostile_outcome_error", 1)
	res.RequireObs("bounded_cases", int64(len(genCases)))
	res.RequireObs("streaming_cases_streamed", 6)
	res.RequireObs("boundary_lengths_probed", 40)
}

// pickModes chooses a source behaviour and a read-buffer regime. Feeding a
// token of tens of KiB a few bytes at a time makes the tokenizer re-copy the
// token on every refill (quadratic, and costly under -race), so for documents
// over 20 KB the byte-at-a-time regimes are used only when slowOK.
func pickModes(r *vlib.Rand, docLen int, slowOK bool) (srcMode, int) {
	sm, rb := smodes[r.Intn(len(smodes))], r.PickInt(rbufs)
	if docLen > 20000 && !slowOK {
		if rb >= 1 && rb <= 5 {
			rb = r.PickInt([]int{4095, 4096, 0})
		}
		if sm.maxRead > 0 && sm.maxRead < 8 {
			sm = smodes[r.PickInt([]int{0, 3, 4, 5})]
		}
	}
	return sm, rb
}

// ---- 1+2. round trip and structure -----------------------------------------

func (h *H) roundTrips(root *vlib.Rand, refHead, refTail []byte) {
	res := h.res
	for si, sc := range sizeCases(root) {
		if h.abort {
			return
		}
		r := root.SplitN("rt", si)
		payload := genPayload(r.Split("payload"), sc.n)
		want := append([]byte{'0'}, refB64(payload)...)
		res.Obs("size_tag_"+sc.tag, 1)
		combos := vlib.Scale(6, 24)
		if sc.n > 200 {
			combos = vlib.Scale(3, 6)
		}
		if sc.n > 200000 {
			combos = 2
		}
		for ci := 0; ci < combos; ci++ {
			cr := r.SplitN("combo", ci)
			wm, rb, sm := "whole", 65536, smodes[0]
			if ci > 0 {
				wm = cr.PickString(wmodes)
				sm, rb = pickModes(cr, sc.n, ci == 1 && si%16 == 0)
			} else if sc.n <= 100 {
				// the plain combination is the existing test; vary it by size instead
				wm = wmodes[sc.n%len(wmodes)]
				rb = rbufs[sc.n%len(rbufs)]
				sm = smodes[sc.n%len(smodes)]
			}
			id := fmt.Sprintf("rt/%d/%d", si, ci)
			rc := mkrec(id, "payload_len", sc.n, "payload_hex", hexPrefix(payload), "size_tag", sc.tag, "write_plan", wm, "read_buf", rb, "source", sm.name)
			armor, ok := h.encode(payload, wm, cr.Split("w"), rc)
			if !ok {
				continue
			}
			res.Obs("wmode_"+wm, 1)
			res.Obs(fmt.Sprintf("rbuf_%d", rb), 1)
			res.Obs("src_"+sm.name, 1)

			// (2) structure of this encoding
			h.checkStructure(armor, want, refHead, refTail, rc)

			// (1) round trip
			res.Obs("roundtrip_cases", 1)
			o := h.decodeBytes(id, rc, armor, sm, rb, cr.Split("d"))
			if o.undecided() {
				continue
			}
			if e := o.err(); e != nil || !bytes.Equal(o.data, payload) {
				res.Violatef("roundtrip-mismatch", rc.with("armor", docField(armor)), "decode(encode(p)) != p: %d bytes in, %d bytes out, error %s", len(payload), len(o.data), errText(e))
				continue
			}
			res.Obs("roundtrip_ok", 1)
			if sc.n >= 1 && (wm != "whole" || rb <= 5 || sm.name != "full") {
				res.Distinct("rt:" + hashOf(armor, []byte(wm), []byte(fmt.Sprint(rb)), []byte(sm.name)))
			}
			if si%97 == 0 && ci == 1 {
				res.Sample(8, rc)
			}
		}
	}
}

func (h *H) checkStructure(armor, want, refHead, refTail []byte, rc rec) (*armorDoc, bool) {
	res := h.res
	res.Eval(1)
	res.Obs("structure_checked", 1)
	a, serr := parseArmor(armor)
	if serr != nil {
		res.Violatef("structure:"+serr.rule, rc.with("armor", docField(armor)), "rule A3 broken: %s", serr.detail)
		return a, false
	}
	if got := a.concat(); !bytes.Equal(got, want) {
		i := 0
		for i < len(got) && i < len(want) && got[i] == want[i] {
			i++
		}
		res.Violatef("structure:content", rc.with("armor", docField(armor)), "concatenated words (%d bytes) != \"0\"+base64(payload) (%d bytes), first difference at %d", len(got), len(want), i)
		return a, false
	}
	if !bytes.Equal(a.head(), refHead) || !bytes.Equal(a.tail(), refTail) {
		res.Violatef("structure:boilerplate-not-fixed", rc.with("armor", docField(armor)), "head/trailer differ from those of the empty payload's encoding")
		return a, false
	}
	if len(a.elems) >= 3 {
		res.Obs("docs_with_3plus_elements", 1)
	}
	for _, el := range a.elems {
		res.ObsMax("max_element_text_len", int64(el.end-el.start))
		res.ObsMax("max_words_per_element", int64(len(el.words)))
		if len(el.words) >= encWordsPerElem {
			res.Obs("full_elements_seen", 1)
		}
	}
	return a, true
}

// ---- 3. metamorphic ---------------------------------------------------------

func (h *H) metamorphic(root *vlib.Rand) {
	res := h.res
	sizes := []int{0, 1, 2, 3, 23, 24, 25, 47, 48, 100, 1000, 5000, 23803, 23806, 23809, 30000, 47616, 71430, 100001}
	nPay := vlib.Scale(36, 300)
	for pi := 0; pi < nPay; pi++ {
		if h.abort {
			return
		}
		r := root.SplitN("meta", pi)
		n := sizes[pi%len(sizes)]
		if pi >= len(sizes) && r.Chance(1, 2) {
			n = r.Intn(3000)
		}
		payload := genPayload(r.Split("payload"), n)
		base := mkrec(fmt.Sprintf("meta/%d", pi), "payload_len", n, "payload_hex", hexPrefix(payload))
		armor, ok := h.encode(payload, "whole", r, base)
		if !ok {
			continue
		}
		a, serr := parseArmor(armor)
		if serr != nil {
			continue // reported by the structure check of the round-trip section
		}
		// the relation is "decoding unchanged": establish the unrewritten decoding first
		o0 := h.decodeBytes(fmt.Sprintf("meta/%d/orig", pi), base, armor, smodes[0], 4096, r.Split("orig"))
		if o0.undecided() || o0.err() != nil || !bytes.Equal(o0.data, payload) {
			res.Obs("meta_skipped_original_does_not_round_trip", 1)
			continue // a round-trip failure, reported by the round-trip section
		}
		nVar := vlib.Scale(7, 14)
		if n > 20000 {
			nVar = 4
		}
		verdict := func(sig string, rc rec, doc []byte, o decOut) bool {
			if o.undecided() {
				return false
			}
			if e := o.err(); e != nil || !bytes.Equal(o.data, payload) {
				res.Violatef(sig, rc.with("rewritten", docField(doc)), "rewritten document decodes to %d bytes, error %s; the original decodes to the %d-byte payload", len(o.data), errText(e), len(payload))
				return false
			}
			res.Distinct("meta:" + hashOf(doc))
			return true
		}
		// (a) whitespace
		for vi := 0; vi < nVar; vi++ {
			vr := r.SplitN("ws", vi)
			style := wsStyles[(pi+vi)%len(wsStyles)]
			doc, used, maxText := rewriteWS(a, vr.Split("rewrite"), style)
			sm, rb := pickModes(vr, len(doc), false)
			id := fmt.Sprintf("meta/%d/ws/%d", pi, vi)
			rc := base.with("case", id, "style", style, "max_element_text", maxText, "source", sm.name, "read_buf", rb)
			res.Obs("meta_whitespace_cases", 1)
			res.Obs("ws_style_"+style, 1)
			o := h.decodeBytes(id, rc, doc, sm, rb, vr.Split("d"))
			if verdict("metamorphic:whitespace", rc, doc, o) {
				for i, u := range used {
					if u {
						res.Obs(fmt.Sprintf("ws_char_%#02x", ws5[i]), 1)
					}
				}
				if maxText == decTextMax {
					res.Obs("ws_elements_filled_to_limit", 1)
				}
				res.ObsMax("ws_max_element_text", int64(maxText))
			}
		}
		// (b) markup outside pre
		pts := insertionPoints(a)
		for vi := 0; vi < nVar; vi++ {
			vr := r.SplitN("mk", vi)
			dense := vi == 0 && len(pts) <= 40
			doc, kinds, where := insertMarkup(armor, pts, vr.Split("ins"), dense)
			sm, rb := pickModes(vr, len(doc), pi%12 == 0 && vi == 1)
			id := fmt.Sprintf("meta/%d/markup/%d", pi, vi)
			rc := base.with("case", id, "snippet_kinds", kinds, "offsets", where, "source", sm.name, "read_buf", rb)
			res.Obs("meta_markup_cases", 1)
			o := h.decodeBytes(id, rc, doc, sm, rb, vr.Split("d"))
			if verdict("metamorphic:outside-markup", rc, doc, o) {
				for _, k := range kinds {
					res.Obs("snippet_"+k, 1)
				}
				res.Obs("insertions_made", int64(len(where)))
			}
			if pi < 2 && vi == 1 {
				res.Sample(8, rc.with("rewritten", docField(doc)))
			}
		}
		// (c) both
		for vi := 0; vi < 2; vi++ {
			vr := r.SplitN("both", vi)
			style := wsStyles[vr.Intn(len(wsStyles))]
			doc1, _, _ := rewriteWS(a, vr.Split("rewrite"), style)
			a1, e1 := parseArmor(doc1)
			if e1 != nil {
				res.Require(false, "harness: whitespace-rewritten document no longer parses: "+e1.rule)
				continue
			}
			doc, kinds, where := insertMarkup(doc1, insertionPoints(a1), vr.Split("ins"), false)
			sm, rb := pickModes(vr, len(doc), false)
			id := fmt.Sprintf("meta/%d/both/%d", pi, vi)
			rc := base.with("case", id, "style", style, "snippet_kinds", kinds, "offsets", where, "source", sm.name, "read_buf", rb)
			res.Obs("meta_combined_cases", 1)
			o := h.decodeBytes(id, rc, doc, sm, rb, vr.Split("d"))
			verdict("metamorphic:whitespace+outside-markup", rc, doc, o)
		}
	}
}

// ---- boundary of the element size ------------------------------------------

// boundaryProbe pads the trailing whitespace of a nearly full element to every
// length L around 32 KiB. L <= decTextMax must decode (this is whitespace
// re-separation); L > 32 KiB is an oversized element and must be an error; the
// lengths in between are only recorded.
func (h *H) boundaryProbe(root *vlib.Rand, refHead, refTail []byte) {
	res := h.res
	r := root.Split("boundary")
	payload := genPayload(r, 23805) // 992 words
	s := append([]byte{'0'}, refB64(payload)...)
	maxOK, minRej := 0, 0
	base := 1 // leading newline, then every word with one newline
	for n := len(s); n > 0; n -= wordMax {
		if n >= wordMax {
			base += wordMax + 1
		} else {
			base += n + 1
		}
	}
	for L := base; L <= kib32+16; L++ {
		if h.abort {
			return
		}
		doc := padTextTo(refHead, refTail, s, L, -1, nil)
		a, _ := parseArmor(doc)
		if len(a.elems) != 1 || a.elems[0].end-a.elems[0].start != L {
			res.Require(false, fmt.Sprintf("harness: boundary document for L=%d has wrong text length", L))
			return
		}
		id := fmt.Sprintf("boundary/%d", L)
		rc := mkrec(id, "payload_len", len(payload), "element_text_len", L)
		res.Obs("boundary_lengths_probed", 1)
		o := h.decodeBytes(id, rc, doc, smodes[0], 4096, r.SplitN("d", L))
		if o.undecided() {
			continue
		}
		e := o.err()
		accepted := e == nil && bytes.Equal(o.data, payload)
		if accepted {
			if L > maxOK {
				maxOK = L
			}
		} else if minRej == 0 {
			minRej = L
		}
		switch {
		case L <= decTextMax && !accepted:
			res.Violatef("metamorphic:whitespace", rc, "one element of %d text bytes (trailing whitespace padded; <= 32 KiB - 3) no longer decodes: %d bytes out, error %s", L, len(o.data), errText(e))
		case L > kib32 && e == nil:
			res.Violatef("error-class:oversized-element", rc, "an element with %d bytes of text (> 32 KiB) decoded without error", L)
		}
		res.Distinct("boundary:" + id)
	}
	res.Note("decoder_largest_element_text_accepted", maxOK)
	res.Note("decoder_smallest_element_text_rejected", minRej)
	res.ObsMax("decoder_largest_element_text_accepted", int64(maxOK))
}

// ---- 4a. error classes ------------------------------------------------------

func (h *H) errorClasses(root *vlib.Rand, refHead, refTail []byte) {
	res := h.res
	per := vlib.Scale(60, 2000)
	for _, class := range errClasses {
		n := per
		if class == "oversized-element" {
			n = vlib.Scale(24, 300)
		}
		for i := 0; i < n; i++ {
			if h.abort {
				return
			}
			r := root.SplitN("defect-"+class, i)
			d, payload := genDefect(r.Split("gen"), class, refHead, refTail)
			sm, rb := pickModes(r, len(d.doc), false)
			id := fmt.Sprintf("defect/%s/%d", class, i)
			rc := mkrec(id, "class", class, "variant", d.variant, "payload_len", len(payload), "doc", docField(d.doc), "source", sm.name, "read_buf", rb)
			o := h.decodeBytes(id, rc, d.doc, sm, rb, r.Split("d"))
			if o.undecided() {
				continue
			}
			e := o.err()
			res.Distinct("defect:" + hashOf(d.doc))
			if e == nil {
				res.Violatef("error-class:"+class, rc, "document with defect %q (%s) decoded to %d bytes WITHOUT error", class, d.variant, len(o.data))
				continue
			}
			res.Obs("errclass_"+class+"_error", 1)
			res.Obs("errtext_"+errClass(e), 1)
			if class == "unknown-version" {
				var uv amp.ErrUnknownVersion
				if !errors.As(e, &uv) || byte(uv) != d.version || o.newErr == nil {
					res.Violatef("error-class:unknown-version:wrong-error", rc, "version byte %q: NewArmorDecoder error %s, read error %s; want ErrUnknownVersion(%q) from NewArmorDecoder", d.version, errText(o.newErr), errText(o.readErr), d.version)
				}
			}
			if i == 0 {
				res.Sample(16, rc.with("error", e.Error()))
			}
		}
	}
}

// ---- 4b. arbitrary, mutated, truncated --------------------------------------

func (h *H) hostile(root *vlib.Rand) {
	res := h.res
	run := func(id, kind string, doc []byte, r *vlib.Rand) {
		sm, rb := pickModes(r, len(doc), false)
		rc := mkrec(id, "kind", kind, "doc", docField(doc), "source", sm.name, "read_buf", rb)
		o := h.decodeBytes(id, rc, doc, sm, rb, r.Split("d"))
		if o.undecided() {
			return
		}
		res.Distinct("hostile:" + hashOf(doc))
		e := o.err()
		if e == nil {
			res.Obs("hostile_outcome_data", 1)
		} else {
			res.Obs("hostile_outcome_error", 1)
			res.Obs("hostile_errtext_"+errClass(e), 1)
		}
	}
	for i := 0; i < vlib.Scale(4000, 120000) && !h.abort; i++ {
		r := root.SplitN("arb", i)
		run(fmt.Sprintf("arb/%d", i), "arbitrary", genArbitrary(r.Split("gen")), r)
		res.Obs("arbitrary_inputs", 1)
	}
	for i := 0; i < vlib.Scale(1500, 40000) && !h.abort; i++ {
		r := root.SplitN("mut", i)
		n := r.PickInt([]int{0, 1, 5, 24, 50, 100, 300})
		if i%50 == 0 {
			n = 24000 + r.Intn(2000)
		}
		armor, ok := h.encode(genPayload(r.Split("payload"), n), "whole", r, mkrec(fmt.Sprintf("mut/%d", i)))
		if !ok {
			continue
		}
		run(fmt.Sprintf("mut/%d", i), "mutated-armor", mutate(armor, r.Split("mutate")), r)
		res.Obs("mutated_inputs", 1)
	}
	for i := 0; i < vlib.Scale(1, 12) && !h.abort; i++ {
		r := root.SplitN("trunc", i)
		n := []int{50, 0, 1, 2, 3, 24, 25, 100, 31, 32, 33, 200}[i]
		armor, ok := h.encode(genPayload(r.Split("payload"), n), "whole", r, mkrec(fmt.Sprintf("trunc/%d", i)))
		if !ok {
			continue
		}
		for cut := 0; cut < len(armor) && !h.abort; cut++ {
			run(fmt.Sprintf("trunc/%d/%d", i, cut), "truncated-armor", armor[:cut], r.SplitN("cut", cut))
			res.Obs("truncation_points", 1)
		}
	}
}

// ---- 4c. bounded buffering --------------------------------------------------

// bounded: a source prepared to supply 256 MiB of tag-free input must see the
// decoder stop with an error after pulling at most len(prefix) + 2*32 KiB:
// the token may grow to the 32 KiB limit, and the tokenizer's buffer, which
// doubles, can have read ahead up to as much again (its capacity never
// exceeds 64 KiB because a token never exceeds 32 KiB).
func (h *H) bounded(root *vlib.Rand) {
	res := h.res
	for gi, gc := range genCases {
		for _, maxRead := range []int{0, 1000} {
			if h.abort {
				return
			}
			g := &genReader{prefix: []byte(gc.prefix), pattern: []byte(gc.pattern), maxRead: maxRead}
			bound := int64(len(gc.prefix)) + 2*kib32
			id := fmt.Sprintf("bounded/%d/%d", gi, maxRead)
			rc := mkrec(id, "generator", gc.name, "prefix", gc.prefix, "pattern", gc.pattern, "source_max_read", maxRead, "would_supply", genTotal, "bound", bound)
			res.Obs("bounded_cases", 1)
			o := h.decode(id, rc, g, 4096, root.SplitN("bounded", gi), genHardStop)
			if o.undecided() {
				continue
			}
			res.Distinct("bounded:" + id)
			pulled, maxReq, cut := g.stats()
			res.ObsMax("bounded_max_pulled_beyond_prefix", pulled-int64(len(gc.prefix)))
			res.ObsMax("bounded_max_single_read_request", int64(maxReq))
			e := o.err()
			if pulled > bound {
				res.Violatef("unbounded-buffering", rc.with("pulled", pulled, "cut_off_by_harness", cut, "error", errText(e)), "decoder pulled %d bytes of tag-free input (bound %d) from generator %q before giving up (harness cut the source off: %v)", pulled, bound, gc.name, cut)
				continue
			}
			if e == nil {
				res.Violatef("error-class:oversized-element", rc.with("pulled", pulled), "endless tag-free input %q ended WITHOUT error after %d bytes", gc.name, pulled)
				continue
			}
			res.Obs("bounded_errtext_"+errClass(e), 1)
		}
	}
}

// streaming: inputs on which a decoder with bounded buffering MUST deliver data
// as it goes: one never-ending pre element whose text arrives in small tokens
// (valid 32-byte words, cut into ~4 KiB text tokens by inline tags or comments,
// which the decoder ignores inside pre), and a never-ending sequence of small
// elements. After 1 MiB (thorough: 4 MiB) of such input the decoded bytes delivered to the reader
// must account for the input pulled, up to a bounded backlog; a decoder that has
// pulled megabytes and delivered (almost) nothing is holding the input in memory.
func (h *H) streaming(root *vlib.Rand) {
	res := h.res
	words4k := strings.Repeat(b64words(), 16) // 16 x 8 words of 32 bytes + newline = 4224 bytes
	cases := []genCase{
		{"one-element/inline-tags", "<pre>\n0", words4k + "<b></b>"},
		{"one-element/comments", "<pre>\n0", words4k + "<!-- c -->"},
		{"one-element/br", "<pre>\n0", words4k + "<br>"},
		{"many-elements", "<pre>\n0", words4k + "</pre>\n<pre>\n"},
	}
	supply := int64(vlib.Scale(1<<20, 4<<20))
	for gi, gc := range cases {
		for _, maxRead := range []int{0, 1000} {
			if h.abort {
				return
			}
			g := &genReader{prefix: []byte(gc.prefix), pattern: []byte(gc.pattern), maxRead: maxRead, hardStop: supply}
			id := fmt.Sprintf("streaming/%d/%d", gi, maxRead)
			rc := mkrec(id, "generator", gc.name, "prefix", gc.prefix, "pattern_len", len(gc.pattern), "source_max_read", maxRead, "supplied_before_cut_off", supply)
			res.Obs("streaming_cases", 1)
			o := h.decode(id, rc, g, 4096, root.SplitN("streaming", gi), 8<<20)
			if o.undecided() {
				continue
			}
			pulled, _, _ := g.stats()
			delivered := int64(len(o.data))
			res.ObsMax("streaming_max_pulled", pulled)
			res.Obs("streaming_bytes_delivered", delivered)
			// 32 of every 33 bytes are base64 (3 decoded bytes per 4); tags and the
			// version byte only lower the yield a little: at least half, less a backlog
			const backlog = 256 << 10
			need := (pulled - backlog) / 2
			if pulled >= supply/2 && delivered < need {
				res.Violatef("unbounded-buffering:held-back-inside-element", rc.with("pulled", pulled, "delivered", delivered, "error", errText(o.err())),
					"generator %q: the decoder pulled %d bytes of well-formed armor and delivered only %d decoded bytes (at least %d expected with a %d-byte backlog): input is accumulated instead of streamed", gc.name, pulled, delivered, need, backlog)
				continue
			}
			if pulled >= supply/2 {
				res.Distinct("streaming:" + id)
				res.Obs("streaming_cases_streamed", 1)
			} else {
				res.Obs("streaming_cases_ended_early_"+errClass(o.err()), 1)
			}
		}
	}
}

// ---- observation: what is left behind after a decoding error ----------------

// leakProbe is an OBSERVATION, not a verdict (the property speaks of the
// decoding call, which does return): after a base64 error in the first word
// of a longer document the reader returned by NewArmorDecoder cannot be
// closed, so the internal goroutine stays blocked writing into its pipe.
func (h *H) leakProbe(refHead, refTail []byte) {
	settle := func() (int, int) {
		a, b := countDecoderGoroutines()
		for i := 0; i < 20; i++ {
			time.Sleep(50 * time.Millisecond)
			a2, b2 := countDecoderGoroutines()
			if a2 == a && b2 == b {
				break
			}
			a, b = a2, b2
		}
		return a, b
	}
	before, _ := settle()
	const n = 20
	s := append([]byte("0QU!D"), bytes.Repeat([]byte("QUJD"), 40)...)
	doc := renderWords(refHead, refTail, s, encWordsPerElem)
	errs := 0
	for i := 0; i < n; i++ {
		o := h.decodeBytes(fmt.Sprintf("leakprobe/%d", i), mkrec("leakprobe"), doc, smodes[0], 4096, vlib.NewRand(uint64(i)))
		if o.err() != nil {
			errs++
		}
	}
	after, inPipe := settle()
	h.res.Note("leak_probe", map[string]interface{}{
		"decodes_with_base64_error_in_first_word": n,
		"errors_returned":                         errs,
		"decoder_goroutines_before":               before,
		"decoder_goroutines_after":                after,
		"of_which_blocked_in_pipe_write":          inPipe,
		"meaning":                                 "observation only: goroutines of amp.decodeToWriter that can never finish because the caller has no way to close the pipe after a base64 error",
	})
	h.res.Obs("decoder_goroutines_left_by_leak_probe", int64(after-before))
}
