package sys

import (
	"fmt"
	"io/ioutil"
	"net"
	"os"
	"path/filepath"
	"strconv"
	"strings"
	"sync"
	"sync/atomic"
	"syscall"
	"testing"
	"time"

	"verif/vlib"
)

// pidOfLocalPort finds which of our processes owns the TCP socket whose local
// port is `port` (the source port of a relay connection seen at the forwarder).
func (s *system) procOfLocalPort(port int) *proc {
	inode := ""
	for _, f := range []string{"/proc/net/tcp", "/proc/net/tcp6"} {
		data, err := ioutil.ReadFile(f)
		if err != nil {
			continue
		}
		for _, ln := range strings.Split(string(data), "\n")[1:] {
			fs := strings.Fields(ln)
			if len(fs) < 10 {
				continue
			}
			lp := strings.Split(fs[1], ":")
			p, err := strconv.ParseInt(lp[len(lp)-1], 16, 32)
			if err == nil && int(p) == port && fs[3] == "01" { // established
				inode = fs[9]
			}
		}
	}
	if inode == "" || inode == "0" {
		return nil
	}
	s.mu.Lock()
	ps := append([]*proc{}, s.procs...)
	s.mu.Unlock()
	for _, p := range ps {
		if !p.alive() || !strings.HasPrefix(p.name, "proxy") {
			continue
		}
		fds, _ := ioutil.ReadDir(fmt.Sprintf("/proc/%d/fd", p.cmd.Process.Pid))
		for _, fd := range fds {
			l, err := os.Readlink(fmt.Sprintf("/proc/%d/fd/%s", p.cmd.Process.Pid, fd.Name()))
			if err == nil && l == "socket:["+inode+"]" {
				return p
			}
		}
	}
	return nil
}

func (s *system) activeProxy() (*proc, *fwdConn) {
	fc := s.fwd.busiest()
	if fc == nil {
		return nil, nil
	}
	a, ok := fc.c.RemoteAddr().(*net.TCPAddr)
	if !ok {
		return nil, fc
	}
	return s.procOfLocalPort(a.Port), fc
}

// throttled session sizes: large enough that faults fall mid-stream
func (s *system) unexpectedExits(allowed map[*proc]bool) []string {
	var out []string
	s.mu.Lock()
	defer s.mu.Unlock()
	for _, p := range s.procs {
		if !p.alive() && !allowed[p] {
			out = append(out, p.name)
		}
	}
	return out
}

func TestVerifSys(t *testing.T) {
	facet := os.Getenv("VERIF_SYS_FACET")
	switch facet {
	case "c07":
		sysC07(t)
	case "c08":
		sysC08(t)
	case "c06":
		res := vlib.NewResult("C06", "sys-c06-proxy-binary", "the real proxy binary (pattern ^127.0.0.1$, non-TLS relays allowed) behind a tampering broker front that rewrites the relay URL of each offer (out-of-pattern host, userinfo trick, query/fragment/path tricks, wss out of pattern, in-pattern control); decoy listeners on 127.0.0.9 and 127.0.0.1 count TCP connections, the front counts answers; non-trivial = tampered offer delivered, distinct by URL class")
		defer res.Finish()
		sysC06(res)
	case "c16":
		res := vlib.NewResult("C16", "sys-c16-proxy-binary", "the real proxy binary with -capacity 2: every poll it sends is observed (Clients field); two real client processes establish two sessions through it, after which it must not poll again (16 s = three poll intervals), and it must resume polling when one session ends; non-trivial = probe executed, distinct by probe")
		defer res.Finish()
		sysC16(res)
	case "c13":
		res := vlib.NewResult("C13", "sys-c13-tamper", "whole system with a tampering broker front: each of 13 hostile documents (wrongly typed members, null, non-JSON, SDP the parser panics on, huge) is relayed to a real proxy process as the client's offer and to a real client process as the proxy's answer; the process must be alive and poll again afterwards; non-trivial = document delivered, distinct by (side, document)")
		defer res.Finish()
		sysC13(res)
	case "c15":
		res := vlib.NewResult("C15", "sys-c15-client-binary", "the client binary with unusable -ice values, an unreachable and a refusing broker, and a healthy configuration: it must stay alive with its SOCKS connection open while rendezvous fails, stop polling the broker once the SOCKS connection is closed (polls counted by a per-client broker front), and end on SIGTERM; non-trivial = every case, distinct by case")
		defer res.Finish()
		sysC15(res)
	case "c11":
		res := vlib.NewResult("C11", "sys-c11-client-binary", "the client binary configured with (a) a broker URL whose host does not resolve plus -front, (b) a broker URL pointing at the listener, (c) -ampcache whose host does not resolve plus -front; scripted front listeners record every rendezvous request (Host header, method, path, body / encoded path) and answer with one response class each (small, exactly the 100 KB limit, limit+1, 2x limit, 503, 404; AMP: armored); whether a response was accepted is read from the client's own log; non-trivial = case that saw >=1 request, distinct by (mode, class)")
		defer res.Finish()
		sysC11(res)
	case "c20":
		sysC01(t, "C20")
	default:
		sysC01(t, "C01")
	}
}

func sysC01(t *testing.T, prop string) {
	res := vlib.NewResult(prop, "sys-"+strings.ToLower(prop), "the real broker, server, proxy and client binaries (race-instrumented) on loopback; a SOCKS connection carries self-describing streams in both directions between the application side and the bridge side while process-level faults are injected at lifecycle phases recognised from forwarder/broker-front events: SIGKILL of the proxy carrying the stream, relay TCP cut, long (45 s) and short (three times 6-9 s, below the staleness limit) SIGSTOP/SIGCONT freezes of proxy and client, SIGTERM, the proxy matched next killed as it connects to the relay; killed proxies are respawned; non-trivial = fault injected while bytes were flowing and the stream continued afterwards, distinct by fault index")
	defer res.Finish()
	r := vlib.NewRand(vlib.Seed()).Split("sysc01")
	shard, _ := vlib.Shard()
	s, err := newSystem(res, fmt.Sprintf("c01-%d", shard))
	if err != nil {
		res.Inconcl(err.Error())
		res.Require(false, "system directory")
		return
	}
	defer s.stopAll()
	if err := s.up(false); err != nil {
		res.Inconcl("bring-up: " + err.Error())
		res.Require(false, "system brought up")
		return
	}
	nStandby := 2 + shard%2
	for i := 0; i < nStandby; i++ {
		if _, err := s.startProxy(); err != nil {
			res.Inconcl("proxy: " + err.Error())
			return
		}
	}
	time.Sleep(1500 * time.Millisecond) // let the proxies poll before the client's first rendezvous
	_, socks, err := s.startClient()
	if err != nil {
		res.Inconcl("client: " + err.Error())
		res.Require(false, "client started")
		return
	}
	killed := map[*proc]bool{}
	var killedMu sync.Mutex
	markKilled := func(p *proc) { killedMu.Lock(); killed[p] = true; killedMu.Unlock() }
	nSessions := 1
	if prop == "C20" {
		nSessions = 2
	}
	var sessions []*sockSess
	var wg sync.WaitGroup
	size := uint64(vlib.Scale(48, 160)) << 20 // large: the faults must fall mid-stream
	for i := 0; i < nSessions; i++ {
		ss := &sockSess{tag: r.Uint64() | 1, lenUp: size / 2, lenDown: size}
		if prop == "C20" {
			// concurrent SOCKS connections with differing per-connection arguments
			ss.args = []string{"max=1", "max=2;ice=stun:" + s.stunAddr}[i%2]
		}
		sessions = append(sessions, ss)
		wg.Add(1)
		go func(ss *sockSess) {
			defer wg.Done()
			s.runSession(ss, socks, time.Duration(vlib.Scale(600, 1800))*time.Second)
		}(ss)
	}
	main := sessions[0]
	if !s.waitProgress(main, 1<<20, 90*time.Second) {
		res.Inconcl("the first MiB did not move within 90 s")
		res.Require(false, "stream established")
		s.dumpTails(res)
		return
	}
	res.Obs("stream_established", 1)
	faults := []string{"short-freeze-client", "sigkill-active-proxy", "relay-tcp-cut", "short-freeze-active-proxy", "sigstop-active-proxy", "kill-next-proxy-on-relay-connect"}
	if vlib.Thorough() {
		faults = append(faults, "sigterm-active-proxy", "freeze-next-proxy-on-relay-connect", "kill-next-proxy-on-offer", "relay-tcp-cut", "sigkill-all-proxies", "kill-next-proxy-on-answer", "answer-lost", "sigstop-active-proxy", "answer-delayed", "relay-tcp-cut")
	}
	if prop == "C20" {
		faults = []string{"short-freeze-client", "sigkill-active-proxy", "relay-tcp-cut"}
	}
	for fi, f := range faults {
		if d, e := main.state(); d || e != "" {
			break
		}
		s.front.mu.Lock()
		s.front.onOffer, s.front.onAnswer = nil, nil // traps of the previous fault
		s.front.mu.Unlock()
		s.fwd.mu.Lock()
		s.fwd.onConn = nil
		s.fwd.mu.Unlock()
		ap, fc := s.activeProxy()
		before := s.progress(main)
		switch f {
		case "sigkill-active-proxy", "sigterm-active-proxy", "sigstop-active-proxy":
			if ap == nil {
				res.Obs("fault_skipped_no_active_proxy", 1)
				if fc != nil {
					fc.cut()
				}
				break
			}
			switch f {
			case "sigkill-active-proxy":
				markKilled(ap)
				ap.signal(syscall.SIGKILL)
			case "sigterm-active-proxy":
				markKilled(ap)
				ap.signal(syscall.SIGTERM)
			case "sigstop-active-proxy":
				ap.signal(syscall.SIGSTOP)
				go func(p *proc) { time.Sleep(45 * time.Second); p.signal(syscall.SIGCONT) }(ap)
			}
			if f != "sigstop-active-proxy" {
				s.startProxy() // a working proxy eventually becomes available again
			}
		case "relay-tcp-cut":
			if fc != nil {
				fc.cut()
			}
		case "short-freeze-client", "short-freeze-active-proxy":
			// a stall shorter than the client's 20 s staleness limit: nobody is replaced,
			// the same carrier must simply carry on afterwards - every buffer on the way
			// (data channel send buffers, relay socket, KCP windows) fills up and drains
			var target *proc
			if f == "short-freeze-client" {
				s.mu.Lock()
				for _, p := range s.procs {
					if strings.HasPrefix(p.name, "client") && p.alive() {
						target = p
					}
				}
				s.mu.Unlock()
			} else {
				target = ap
			}
			if target == nil {
				res.Obs("fault_skipped_no_active_proxy", 1)
				break
			}
			for cycle := 0; cycle < 3; cycle++ {
				target.signal(syscall.SIGSTOP)
				time.Sleep(time.Duration(r.Range(6000, 9000)) * time.Millisecond)
				target.signal(syscall.SIGCONT)
				time.Sleep(time.Duration(r.Range(1500, 3000)) * time.Millisecond)
			}
		case "kill-next-proxy-on-offer", "kill-next-proxy-on-answer", "answer-lost", "answer-delayed":
			// faults in the middle of a redial: the carrying proxy is killed, and the
			// rendezvous that follows is hit as well (the next matched proxy dies when
			// it is handed the offer / when its answer passes; or the answer is lost / late)
			var once sync.Once
			fname := f
			trap := func(port int) {
				once.Do(func() {
					if p := s.procOfLocalPort(port); p != nil {
						markKilled(p)
						p.signal(syscall.SIGKILL)
						res.Obs("phase_faults_hit_"+fname, 1)
						go s.startProxy()
					}
				})
			}
			s.front.mu.Lock()
			switch f {
			case "kill-next-proxy-on-offer":
				s.front.onOffer = trap
			case "kill-next-proxy-on-answer":
				s.front.onAnswer = trap
			}
			s.front.mu.Unlock()
			if f == "answer-lost" {
				atomic.StoreInt32(&s.front.dropAnswers, 1)
			}
			if f == "answer-delayed" {
				atomic.StoreInt32(&s.front.delayAnswers, 1)
			}
			if ap != nil {
				markKilled(ap)
				ap.signal(syscall.SIGKILL)
				s.startProxy()
			} else if fc != nil {
				fc.cut()
			}
			s.startProxy()
		case "kill-next-proxy-on-relay-connect", "freeze-next-proxy-on-relay-connect":
			// "before first byte": the carrying proxy is killed; the proxy matched next
			// has its data channel with the client open and is connecting to the relay
			// when it dies (or freezes) - it never relays a single byte, and in
			// particular the client never receives a message from it
			var once sync.Once
			fname := f
			s.fwd.mu.Lock()
			s.fwd.onConn = func(nc *fwdConn) {
				once.Do(func() {
					a, ok := nc.c.RemoteAddr().(*net.TCPAddr)
					if !ok {
						return
					}
					p := s.procOfLocalPort(a.Port)
					if p == nil {
						return
					}
					if fname == "kill-next-proxy-on-relay-connect" {
						markKilled(p)
						p.signal(syscall.SIGKILL)
						go s.startProxy()
					} else {
						p.signal(syscall.SIGSTOP)
						go func() { time.Sleep(60 * time.Second); p.signal(syscall.SIGCONT) }()
					}
					res.Obs("phase_faults_hit_"+fname, 1)
					time.Sleep(300 * time.Millisecond) // nothing is forwarded for this connection until the signal has taken effect
				})
			}
			s.fwd.mu.Unlock()
			if ap != nil {
				markKilled(ap)
				ap.signal(syscall.SIGKILL)
				s.startProxy()
			} else if fc != nil {
				fc.cut()
			}
			s.startProxy()
		case "sigkill-all-proxies":
			s.mu.Lock()
			ps := append([]*proc{}, s.procs...)
			s.mu.Unlock()
			for _, p := range ps {
				if strings.HasPrefix(p.name, "proxy") && p.alive() {
					markKilled(p)
					p.signal(syscall.SIGKILL)
				}
			}
			time.Sleep(time.Duration(r.Range(1, 8)) * time.Second) // nobody available for a while
			for i := 0; i < nStandby; i++ {
				s.startProxy()
			}
		}
		res.Obs("faults_"+f, 1)
		res.Obs("faults_total", 1)
		faultAt := time.Now()
		// bounded progress after the fault: the stream must move on
		if s.waitProgress(main, 1<<20, 240*time.Second) {
			if s.progress(main) > before {
				res.Distinct(fmt.Sprintf("fault/%d/%s", fi, f))
				res.Obs("faults_survived", 1)
			}
		} else {
			// decide between a dead system and slowness: a violation only if a snowflake process died or the client stopped polling
			killedMu.Lock()
			dead := s.unexpectedExits(killed)
			killedMu.Unlock()
			p0 := atomic.LoadInt64(&s.front.clientPolls)
			time.Sleep(30 * time.Second)
			p1 := atomic.LoadInt64(&s.front.clientPolls)
			// state-based stall verdict: a relay connection that was opened after the
			// fault, has been open for more than 150 s (KCP's largest retransmission
			// timeout is 60 s) and keeps carrying upstream bytes, while neither end
			// received a single further byte of the stream
			stalledOn := ""
			s.fwd.mu.Lock()
			for _, c := range s.fwd.conns {
				if atomic.LoadInt32(&c.closed) == 0 && c.openedAt.After(faultAt) && time.Since(c.openedAt) > 150*time.Second && atomic.LoadInt64(&c.up) > 20000 {
					stalledOn = fmt.Sprintf("relay connection open for %v with %d bytes up / %d bytes down", time.Since(c.openedAt).Round(time.Second), atomic.LoadInt64(&c.up), atomic.LoadInt64(&c.down))
				}
			}
			s.fwd.mu.Unlock()
			if stalledOn != "" && len(dead) == 0 {
				res.Violate("c01:no-progress-with-live-relay-connection", fmt.Sprintf("after %s the stream did not move for 240 s although a new proxy is relaying: %s", f, stalledOn), map[string]interface{}{"case": fmt.Sprintf("fault/%d/%s", fi, f)})
			} else if len(dead) > 0 {
				res.Violate("c01:process-died-after-fault:"+f, fmt.Sprintf("after %s the stream did not move for 240 s; processes that exited on their own: %v", f, dead), map[string]interface{}{"case": fmt.Sprintf("fault/%d/%s", fi, f), "panics": s.panicLines()})
			} else if p1 == p0 && s.fwd.busiest() == nil {
				res.Violate("c01:client-gave-up-while-stream-open:"+f, fmt.Sprintf("after %s the stream did not move for 240 s, no relay connection is open and the client sent no further rendezvous request in 30 s although proxies are polling", f), map[string]interface{}{"case": fmt.Sprintf("fault/%d/%s", fi, f)})
			} else {
				res.Inconcl(fmt.Sprintf("after %s the stream did not move for 240 s (client still polling: %v)", f, p1 > p0))
			}
			break
		}
		time.Sleep(time.Duration(r.Range(500, 3000)) * time.Millisecond)
	}
	done := make(chan struct{})
	go func() { wg.Wait(); close(done) }()
	overall := time.After(time.Duration(vlib.Scale(600, 1800)) * time.Second)
	lastProgress, lastMove := s.progress(main), time.Now()
waitDone:
	for {
		select {
		case <-done:
			break waitDone
		case <-overall:
			break waitDone
		case <-time.After(5 * time.Second):
			if p := s.progress(main); p != lastProgress {
				lastProgress, lastMove = p, time.Now()
			} else if time.Since(lastMove) > 240*time.Second {
				break waitDone // no byte for 240 s: go and judge the state
			}
		}
	}
	for _, ss := range sessions {
		res.Eval(1)
		ss.mu.Lock()
		dv := ss.downVerified
		ssDone, ssErr := ss.done, ss.err
		ss.mu.Unlock()
		s.or.mu.Lock()
		uv := s.or.plans[ss.tag].upVerified
		s.or.mu.Unlock()
		res.Obs("bytes_verified_down", int64(dv))
		res.Obs("bytes_verified_up", int64(uv))
		rec := map[string]interface{}{"case": fmt.Sprintf("sys/%x", ss.tag), "len_up": ss.lenUp, "len_down": ss.lenDown, "up_verified": uv, "down_verified": dv, "error": ssErr, "completed": ssDone, "relay_connections": atomic.LoadInt64(&s.fwd.total)}
		res.Sample(3, rec)
		if ssDone {
			res.Obs("sessions_completed", 1)
			if dv != ss.lenDown || uv != ss.lenUp {
				res.Violate("stream:short:completed-session", fmt.Sprintf("session completed but verified %d/%d up, %d/%d down", uv, ss.lenUp, dv, ss.lenDown), rec)
			}
		} else if ssErr != "" && ssErr != "watchdog" {
			// an application-visible end while proxies are available
			res.Violate("c01:session-ended-although-proxies-available", fmt.Sprintf("the SOCKS stream ended with %q after %d/%d up and %d/%d down", ssErr, uv, ss.lenUp, dv, ss.lenDown), rec)
		} else {
			// not completed: a dead system or slowness? State-based, as after a fault: the
			// stream has not moved for 240 s and for a further 75 s the client sends no
			// rendezvous request at all while proxies keep polling the broker. A working
			// client cannot be in that state: every peer it holds - spares included - is
			// dropped after 20 s without an inbound message and replaced through a new
			// rendezvous, so it polls at least every 20 s + 10 s pause unless all its peers
			// receive data, in which case the stream moves. (An open relay connection
			// proves nothing here: it may belong to an idle spare peer.) The client holds
			// on to peers that carry nothing and has stopped looking for working ones
			c0, q0 := atomic.LoadInt64(&s.front.clientPolls), atomic.LoadInt64(&s.front.polls)
			open0 := s.fwd.busiest() != nil
			before := s.progress(ss)
			time.Sleep(75 * time.Second)
			c1, q1 := atomic.LoadInt64(&s.front.clientPolls), atomic.LoadInt64(&s.front.polls)
			killedMu.Lock()
			dead := s.unexpectedExits(killed)
			killedMu.Unlock()
			if c1 == c0 && q1-q0 >= 4 && s.progress(ss) == before && len(dead) == 0 {
				rec["relay_connection_open"] = open0
				rec["client_polls_in_75s"] = c1 - c0
				rec["proxy_polls_in_75s"] = q1 - q0
				res.Violate("c01:client-gave-up-while-stream-open:after-faults", fmt.Sprintf("the stream stopped at %d/%d up, %d/%d down; it had not moved for 240 s and in a further 75 s the client sent no rendezvous request although proxies polled the broker %d times", uv, ss.lenUp, dv, ss.lenDown, q1-q0), rec)
			} else {
				res.Inconcl(fmt.Sprintf("session did not complete before the watchdog (in the last 75 s: %d client polls, %d proxy polls, relay connection open before/after: %v/%v, progress: %v, exited processes: %v)", c1-c0, q1-q0, open0, s.fwd.busiest() != nil, s.progress(ss) != before, dead))
			}
		}
	}
	res.Obs("relay_connections", atomic.LoadInt64(&s.fwd.total))
	res.Obs("client_polls", atomic.LoadInt64(&s.front.clientPolls))
	killedMu.Lock()
	dead := s.unexpectedExits(killed)
	killedMu.Unlock()
	if len(dead) > 0 {
		res.Violate("sys:process-died", fmt.Sprintf("processes exited on their own: %v; %v", dead, s.panicLines()), map[string]interface{}{"case": "sys-liveness", "panics": s.panicLines()})
	}
	if prop == "C20" {
		// orderly shutdown under traffic is part of the race workload
		s.stopAll()
	}
	res.RequireObs("stream_established", 1)
	if prop == "C01" {
		res.RequireObs("faults_survived", 2)
		res.RequireObs("sessions_completed", 1)
	}
}

func (s *system) dumpTails(res *vlib.Result) {
	files, _ := filepath.Glob(filepath.Join(s.dir, "*"))
	out := map[string]string{}
	for _, f := range files {
		if st, err := os.Stat(f); err == nil && !st.IsDir() {
			data, _ := ioutil.ReadFile(f)
			if len(data) > 1500 {
				data = data[len(data)-1500:]
			}
			out[filepath.Base(f)] = string(data)
		}
	}
	res.Note("log_tails", out)
}

// ---- C07 facet: the four binaries' own logs ----------------------------------------------

func isAddrChar(c byte) bool {
	return c >= '0' && c <= '9' || c >= 'a' && c <= 'f' || c >= 'A' && c <= 'F' || c == ':' || c == '.'
}

// preconditionHolds: the occurrence is bounded on each side by a line boundary,
// whitespace or punctuation other than ':' (a port suffix / brackets may follow).
func findUnscrubbed(line, host string) (int, bool) {
	from := 0
	for {
		i := strings.Index(line[from:], host)
		if i < 0 {
			return -1, false
		}
		i += from
		j := i + len(host)
		from = j
		leftOK := i == 0
		if !leftOK {
			c := line[i-1]
			if c == '[' {
				leftOK = i-1 == 0 || !isAddrChar(line[i-2]) && line[i-2] != ':' && !isWord(line[i-2])
			} else {
				leftOK = !isAddrChar(c) && !isWord(c)
			}
		}
		if !leftOK {
			continue
		}
		// right side: optional ']' and ':port'
		k := j
		if k < len(line) && line[k] == ']' {
			k++
		}
		if k < len(line) && line[k] == ':' {
			m := k + 1
			for m < len(line) && line[m] >= '0' && line[m] <= '9' {
				m++
			}
			if m > k+1 {
				k = m
			}
		}
		rightOK := k == len(line) || (!isAddrChar(line[k]) && !isWord(line[k])) || (line[k] == ':' && k+1 < len(line) && (line[k+1] == ' ' || line[k+1] == '\t'))
		if rightOK {
			return i, true
		}
	}
}

func isWord(c byte) bool {
	return c == '_' || c >= '0' && c <= '9' || c >= 'a' && c <= 'z' || c >= 'A' && c <= 'Z'
}

func sysC07(t *testing.T) {
	res := vlib.NewResult("C07", "sys-c07-logs", "whole system without -unsafe-logging: one SOCKS session, a proxy kill and respawn; afterwards every line of every log file written by broker, server, proxies and client is searched for the host's own addresses (loopback, eth0 IPv4/IPv6) in a context that satisfies the property's precondition; non-trivial = log line examined that contains a scrubbing placeholder, distinct by line")
	defer res.Finish()
	s, err := newSystem(res, "c07")
	if err != nil {
		res.Inconcl(err.Error())
		return
	}
	defer s.stopAll()
	if err := s.up(true); err != nil {
		res.Inconcl("bring-up: " + err.Error())
		res.Require(false, "system brought up")
		return
	}
	s.startProxy()
	s.startProxy()
	time.Sleep(1500 * time.Millisecond)
	_, socks, err := s.startClient()
	if err != nil {
		res.Inconcl("client: " + err.Error())
		res.Require(false, "client started")
		return
	}
	ss := &sockSess{tag: 0xc07c07, lenUp: 8 << 20, lenDown: 24 << 20}
	done := make(chan struct{})
	go func() { s.runSession(ss, socks, 300*time.Second); close(done) }()
	if s.waitProgress(ss, 1<<20, 90*time.Second) {
		res.Obs("stream_established", 1)
		if ap, _ := s.activeProxy(); ap != nil {
			ap.signal(syscall.SIGKILL)
			s.startProxy()
		}
	}
	select {
	case <-done:
	case <-time.After(300 * time.Second):
	}
	time.Sleep(2500 * time.Millisecond) // one more proxy summary line
	s.stopAll()
	hosts := []string{"127.0.0.1"}
	if ifs, err := net.InterfaceAddrs(); err == nil {
		for _, a := range ifs {
			if n, ok := a.(*net.IPNet); ok && !n.IP.IsLoopback() {
				hosts = append(hosts, n.IP.String())
			}
		}
	}
	res.Note("host_addresses_searched", hosts)
	files, _ := filepath.Glob(filepath.Join(s.dir, "*.log"))
	outs, _ := filepath.Glob(filepath.Join(s.dir, "*.out"))
	files = append(files, outs...)
	for _, f := range files {
		base := filepath.Base(f)
		if base == "metrics.log" {
			continue
		}
		data, _ := ioutil.ReadFile(f)
		bin := strings.SplitN(strings.TrimSuffix(strings.TrimSuffix(base, ".log"), ".out"), "-", 2)[0]
		for _, ln := range strings.Split(string(data), "\n") {
			if ln == "" || strings.HasPrefix(ln, "CMETHOD") || strings.HasPrefix(ln, "SMETHOD") || strings.HasPrefix(ln, "VERSION") {
				continue // pluggable-transport protocol lines on stdout are not log output
			}
			res.Eval(1)
			res.Obs("log_lines_"+bin, 1)
			if strings.Contains(ln, "[scrubbed]") {
				res.Obs("lines_with_placeholder", 1)
				res.Distinct(bin + ":" + ln)
			}
			for _, h := range hosts {
				if i, bad := findUnscrubbed(ln, h); bad {
					res.Violate("c07:address-in-log:"+bin, fmt.Sprintf("%s: address %s survives at column %d of log line %q", base, h, i, ln), map[string]interface{}{"case": base, "line": ln, "address": h})
				}
			}
		}
	}
	res.Sample(1, map[string]interface{}{"files": len(files)})
	res.RequireObs("stream_established", 1)
	res.RequireObs("lines_with_placeholder", 2)
	res.RequireObs("log_lines_client", 5)
	res.RequireObs("log_lines_proxy", 5)
	res.RequireObs("log_lines_server", 1)
}

// ---- C08 facet: what the broker is sent ------------------------------------------------------

func sysC08(t *testing.T) {
	res := vlib.NewResult("C08", "sys-c08-sdp-at-broker", "whole system twice, without and with -keep-local-addresses on client and proxies: the session descriptions that reach the broker (client offers, proxy answers, recorded by a reverse proxy in front of the broker) are searched for host candidates with local addresses; non-trivial = description recorded, distinct by description")
	defer res.Finish()
	for _, keep := range []bool{false, true} {
		s, err := newSystem(res, fmt.Sprintf("c08-%v", keep))
		if err != nil {
			res.Inconcl(err.Error())
			return
		}
		if err := s.up(keep); err != nil {
			res.Inconcl("bring-up: " + err.Error())
			s.stopAll()
			return
		}
		s.startProxy()
		time.Sleep(1500 * time.Millisecond)
		_, socks, err := s.startClient()
		if err != nil {
			res.Inconcl("client: " + err.Error())
			s.stopAll()
			return
		}
		ss := &sockSess{tag: 0xc08c08 + uint64(boolN(keep)), lenUp: 100000, lenDown: 100000}
		s.runSession(ss, socks, 120*time.Second)
		s.front.mu.Lock()
		descs := map[string][]string{"client-offer": s.front.offers, "proxy-answer": s.front.answers}
		s.front.mu.Unlock()
		s.stopAll()
		for kind, list := range descs {
			for _, sdp := range list {
				res.Eval(1)
				res.Distinct(kind + sdp)
				res.Obs(fmt.Sprintf("descriptions_%s_keep=%v", kind, keep), 1)
				local := localHostCandidates(sdp)
				if len(local) > 0 {
					res.Obs(fmt.Sprintf("descriptions_with_local_host_candidate_keep=%v", keep), 1)
				}
				if !keep && len(local) > 0 {
					res.Violate("c08:local-host-candidate-sent-to-broker:"+kind, fmt.Sprintf("without -keep-local-addresses a %s carries local host candidates %v", kind, local), map[string]interface{}{"case": kind, "sdp": sdp})
				}
				if strings.Contains(sdp, "192.0.2.") {
					res.Obs("descriptions_with_non_local_candidate", 1)
				}
			}
		}
		if d, _ := ss.state(); d {
			res.Obs(fmt.Sprintf("session_completed_keep=%v", keep), 1)
		}
	}
	res.Sample(1, map[string]interface{}{"runs": 2})
	res.RequireObs("descriptions_client-offer_keep=false", 1)
	res.RequireObs("descriptions_proxy-answer_keep=false", 1)
	res.RequireObs("descriptions_with_local_host_candidate_keep=true", 1)
	res.RequireObs("descriptions_with_non_local_candidate", 1)
}

func boolN(b bool) int {
	if b {
		return 1
	}
	return 0
}

// localHostCandidates lists the addresses of host candidates that are loopback,
// unspecified, RFC 1918, RFC 6598, RFC 3927 or RFC 4193.
func localHostCandidates(sdp string) []string {
	var out []string
	for _, ln := range strings.Split(sdp, "\n") {
		ln = strings.TrimSpace(ln)
		if !strings.HasPrefix(ln, "a=candidate:") {
			continue
		}
		f := strings.Fields(ln)
		if len(f) < 8 || f[6] != "typ" || f[7] != "host" {
			continue
		}
		ip := net.ParseIP(f[4])
		if ip == nil {
			continue
		}
		if v4 := ip.To4(); v4 != nil {
			if v4[0] == 10 || v4[0] == 127 || (v4[0] == 172 && v4[1]&0xf0 == 16) || (v4[0] == 192 && v4[1] == 168) || (v4[0] == 100 && v4[1]&0xc0 == 64) || (v4[0] == 169 && v4[1] == 254) || v4.IsUnspecified() {
				out = append(out, f[4])
			}
		} else if ip[0]&0xfe == 0xfc || ip.IsLoopback() || ip.IsUnspecified() {
			out = append(out, f[4])
		}
	}
	return out
}
