package sys

import (
	"bytes"
	"encoding/json"
	"fmt"
	"io"
	"net"
	"net/http"
	"strings"
	"sync"
	"sync/atomic"
	"syscall"
	"time"

	"verif/vlib"
)

var hostileDescriptions = []string{
	`{"type":1,"sdp":"x"}`,
	`null`,
	`{"type":"offer","sdp":null}`,
	`{"type":"offer"}`,
	`[]`,
	`not json at all`,
	`{"type":"offer","sdp":"v=0\r\no=- 0 0 IN IP4 0\r\ns=-\r\nt=0 0\r\nr=1\r\n"}`,
	`{"type":"offer","sdp":"v=0\r\no=- 0 0 IN IP4 0\r\ns=-\r\nt=0 0\r\nr=\r\n"}`,
	`{"type":"answer","sdp":"v=0\r\no=- 0 0 IN IP4 0\r\ns=-\r\nt=0 0\r\nr=1\r\n"}`,
	`{"type":"rollback","sdp":""}`,
	`{"type":"offer","sdp":"` + strings.Repeat("a=x\\r\\n", 2000) + `"}`,
	// a description with ICE credentials, fingerprint and setup at session level and no media section
	`{"type":"answer","sdp":"` + sessionLevelOnlySDP + `"}`,
	`{"type":"offer","sdp":"` + sessionLevelOnlySDP + `"}`,
}

const sessionLevelOnlySDP = `v=0\r\no=- 4358805017720277108 2 IN IP4 8.8.8.8\r\ns=-\r\nt=0 0\r\na=ice-ufrag:aMAZ\r\na=ice-pwd:jcHb08Jjgrazp2dzjdrvPPvV\r\na=fingerprint:sha-256 C8:88:EE:B9:E7:02:2E:21:37:ED:7A:D1:EB:2B:A3:15:A2:3B:5B:1C:3D:D4:D5:1F:06:CF:52:40:03:F8:DD:66\r\na=setup:active\r\n`

// sysC13: hostile documents relayed by the broker to a real proxy (as the
// client's offer) and to a real client (as the proxy's answer); the processes
// must still be alive and polling afterwards.
func sysC13(res *vlib.Result) {
	if !vlib.Thorough() {
		// quick tier: the four documents of the known crash classes plus plain garbage
		hostileDescriptions = []string{hostileDescriptions[0], hostileDescriptions[2], hostileDescriptions[5], hostileDescriptions[6]}
	}
	s, err := newSystem(res, "c13")
	if err != nil {
		res.Inconcl(err.Error())
		return
	}
	defer s.stopAll()
	if err := s.up(true); err != nil {
		res.Inconcl("bring-up: " + err.Error())
		res.Require(false, "system brought up")
		return
	}
	// --- proxy side ---
	var idx int32 = -1
	var delivered int32
	s.front.mu.Lock()
	s.front.tamperOffer = func(body []byte) []byte {
		var m map[string]interface{}
		if json.Unmarshal(body, &m) != nil || m["Status"] != "client match" {
			return body
		}
		i := int(atomic.LoadInt32(&idx))
		if i < 0 || i >= len(hostileDescriptions) {
			return body
		}
		m["Offer"] = hostileDescriptions[i]
		out, _ := json.Marshal(m)
		atomic.AddInt32(&delivered, 1)
		return out
	}
	s.front.mu.Unlock()
	px, err := s.startProxy()
	if err != nil {
		res.Inconcl("proxy: " + err.Error())
		return
	}
	waitPolls := func(n int64, d time.Duration) bool {
		end := time.Now().Add(d)
		for time.Now().Before(end) {
			if atomic.LoadInt64(&s.front.polls) >= n {
				return true
			}
			time.Sleep(50 * time.Millisecond)
		}
		return false
	}
	if !waitPolls(1, 20*time.Second) {
		res.Inconcl("proxy never polled")
		res.Require(false, "proxy polling")
		return
	}
	for i := range hostileDescriptions {
		atomic.StoreInt32(&idx, int32(i))
		before := atomic.LoadInt32(&delivered)
		// a scripted client poll makes the broker match the waiting proxy
		go http.Post("http://"+s.brokerAddr+"/client", "text/plain", bytes.NewReader([]byte("1.0\n{\"offer\":\"{\\\"type\\\":\\\"offer\\\",\\\"sdp\\\":\\\"placeholder\\\"}\",\"nat\":\"unrestricted\"}")))
		end := time.Now().Add(20 * time.Second)
		for time.Now().Before(end) && atomic.LoadInt32(&delivered) == before {
			time.Sleep(50 * time.Millisecond)
			if atomic.LoadInt32(&delivered) == before && time.Now().Add(15*time.Second).After(end) && time.Now().Unix()%3 == 0 {
				// the first poll may have been denied (no proxy waiting yet): poll again
				go http.Post("http://"+s.brokerAddr+"/client", "text/plain", bytes.NewReader([]byte("1.0\n{\"offer\":\"{\\\"type\\\":\\\"offer\\\",\\\"sdp\\\":\\\"placeholder\\\"}\",\"nat\":\"unrestricted\"}")))
				time.Sleep(time.Second)
			}
		}
		rec := map[string]interface{}{"case": fmt.Sprintf("hostile-offer/%d", i), "document": truncate(hostileDescriptions[i], 300)}
		res.Eval(1)
		if atomic.LoadInt32(&delivered) == before {
			res.Inconcl(fmt.Sprintf("hostile offer %d was not delivered to the proxy", i))
			continue
		}
		res.Obs("hostile_offers_delivered_to_proxy", 1)
		res.Distinct(fmt.Sprintf("offer/%d", i))
		polls := atomic.LoadInt64(&s.front.polls)
		alive := waitPolls(polls+1, 40*time.Second) && px.alive()
		if !alive {
			rec["proxy_alive"] = px.alive()
			rec["panics"] = s.panicLines()
			res.Violate("c13:proxy-terminated-by-hostile-offer", fmt.Sprintf("after the broker relayed offer %s the proxy process is alive=%v and did not poll again within 40 s", truncate(hostileDescriptions[i], 120), px.alive()), rec)
			if !px.alive() {
				px, _ = s.startProxy()
				waitPolls(atomic.LoadInt64(&s.front.polls)+1, 20*time.Second)
			}
		} else {
			res.Obs("proxy_survived_hostile_offer", 1)
		}
	}
	atomic.StoreInt32(&idx, -1)
	// --- client side ---
	var aidx int32 = -1
	var adelivered int32
	s.front.mu.Lock()
	s.front.tamperAnswer = func(body []byte) []byte {
		var m map[string]interface{}
		if json.Unmarshal(body, &m) != nil || m["answer"] == nil {
			return body
		}
		i := int(atomic.LoadInt32(&aidx))
		if i < 0 || i >= len(hostileDescriptions) {
			return body
		}
		m["answer"] = hostileDescriptions[i]
		out, _ := json.Marshal(m)
		atomic.AddInt32(&adelivered, 1)
		return out
	}
	s.front.mu.Unlock()
	s.startProxy()
	atomic.StoreInt32(&aidx, 0)
	cl, socks, err := s.startClient()
	if err != nil {
		res.Inconcl("client: " + err.Error())
		return
	}
	c, err := socksConnect(socks) // the client only rendezvouses while a SOCKS connection is open
	if err != nil {
		res.Inconcl("socks: " + err.Error())
		return
	}
	defer c.Close()
	for i := range hostileDescriptions {
		atomic.StoreInt32(&aidx, int32(i))
		before := atomic.LoadInt32(&adelivered)
		end := time.Now().Add(60 * time.Second)
		for time.Now().Before(end) && atomic.LoadInt32(&adelivered) == before && cl.alive() {
			time.Sleep(100 * time.Millisecond)
		}
		rec := map[string]interface{}{"case": fmt.Sprintf("hostile-answer/%d", i), "document": truncate(hostileDescriptions[i], 300)}
		res.Eval(1)
		if atomic.LoadInt32(&adelivered) == before && cl.alive() {
			res.Inconcl(fmt.Sprintf("hostile answer %d was not delivered to the client in 60 s", i))
			continue
		}
		res.Obs("hostile_answers_delivered_to_client", 1)
		res.Distinct(fmt.Sprintf("answer/%d", i))
		polls := atomic.LoadInt64(&s.front.clientPolls)
		end = time.Now().Add(45 * time.Second)
		again := false
		for time.Now().Before(end) && cl.alive() {
			if atomic.LoadInt64(&s.front.clientPolls) > polls {
				again = true
				break
			}
			time.Sleep(100 * time.Millisecond)
		}
		if !cl.alive() || !again {
			rec["client_alive"] = cl.alive()
			rec["panics"] = s.panicLines()
			res.Violate("c13:client-terminated-by-hostile-answer", fmt.Sprintf("after the broker relayed answer %s the client process is alive=%v and polled again=%v", truncate(hostileDescriptions[i], 120), cl.alive(), again), rec)
			if !cl.alive() {
				return
			}
		} else {
			res.Obs("client_survived_hostile_answer", 1)
		}
	}
	res.RequireObs("hostile_offers_delivered_to_proxy", int64(len(hostileDescriptions)*2/3))
	res.RequireObs("hostile_answers_delivered_to_client", int64(len(hostileDescriptions)*2/3))
}

func truncate(s string, n int) string {
	if len(s) > n {
		return s[:n] + "…"
	}
	return s
}

// sysC15: the client binary under failing rendezvous, bad ICE values, SOCKS
// close and SIGTERM.
func sysC15(res *vlib.Result) {
	s, err := newSystem(res, "c15")
	if err != nil {
		res.Inconcl(err.Error())
		return
	}
	defer s.stopAll()
	if err := s.up(true); err != nil {
		res.Inconcl("bring-up: " + err.Error())
		res.Require(false, "system brought up")
		return
	}
	s.startProxy()
	type ccase struct {
		name   string
		args   []string // replaces the -ice / -url arguments when set
		refuse bool
		abort  bool // the SOCKS client resets its connections right after sending the request
	}
	deadBroker := freeAddr()
	cases := []ccase{
		{name: "ice-empty", args: []string{"-ice", ""}},
		{name: "ice-garbage", args: []string{"-ice", "garbage,,stun:"}},
		{name: "ice-unsupported-scheme", args: []string{"-ice", "http://127.0.0.1:1"}},
		{name: "broker-unreachable", args: []string{"-url", "http://" + deadBroker + "/"}},
		{name: "broker-refusing", refuse: true},
		{name: "healthy"},
		{name: "socks-aborted", abort: true},
	}
	var wg sync.WaitGroup
	for ci := range cases {
		wg.Add(1)
		go func(cc ccase) {
			defer wg.Done()
			// each client gets a front of its own so that its polls can be counted
			bf, err := startFront(s.brokerAddr)
			if err != nil {
				res.Inconcl(cc.name + ": front: " + err.Error())
				return
			}
			if cc.refuse {
				atomic.StoreInt32(&bf.refuse, 1)
			}
			args := []string{"-url", "http://" + bf.ln.Addr().String() + "/", "-ice", "stun:" + s.stunAddr, "-log", s.dir + "/client-" + cc.name + ".log", "-max", "1", "-keep-local-addresses"}
			// later flags override earlier ones
			args = append(args, cc.args...)
			cl, socks, err := s.startClientArgs("client-"+cc.name, args)
			rec := map[string]interface{}{"case": "client/" + cc.name, "args": args}
			res.Eval(1)
			res.Distinct(cc.name)
			if err != nil {
				res.Violate("c15:client-binary-did-not-start:"+cc.name, fmt.Sprintf("client with %v: %v", cc.args, err), rec)
				return
			}
			if cc.abort {
				// six SOCKS requests, each reset (linger 0) before the reply is read: the
				// SOCKS connections are gone at once, so whatever the client started for
				// them must stop
				for k := 0; k < 6; k++ {
					ac, err := net.DialTimeout("tcp", socks, 5*time.Second)
					if err != nil {
						res.Inconcl(cc.name + ": socks dial: " + err.Error())
						return
					}
					ac.Write([]byte{5, 1, 0})
					var r2 [2]byte
					io.ReadFull(ac, r2[:])
					ac.Write([]byte{5, 1, 0, 1, 0, 0, 3, 1, 0, 80})
					if tc, ok := ac.(*net.TCPConn); ok {
						tc.SetLinger(0)
					}
					ac.Close()
					time.Sleep(200 * time.Millisecond)
				}
				res.Obs("socks_requests_aborted", 6)
				time.Sleep(3 * time.Second) // an attempt already in flight may complete
				if !cl.alive() {
					rec["panics"] = s.panicLines()
					res.Violate("c15:client-process-terminated:"+cc.name, "client exited after its SOCKS connections were reset", rec)
					return
				}
				res.Obs("clients_alive_after_failing_rendezvous", 1)
				p1 := atomic.LoadInt64(&bf.clientPolls)
				time.Sleep(25 * time.Second)
				p2 := atomic.LoadInt64(&bf.clientPolls)
				if p2-p1 > 1 {
					rec["polls_after_close"] = p2 - p1
					res.Violate("c15:rendezvous-continues-after-socks-close:"+cc.name, fmt.Sprintf("%d client polls reached the broker in the 25 s after every SOCKS connection had been reset", p2-p1), rec)
				} else {
					res.Obs("clients_quiet_after_socks_close", 1)
				}
				cl.signal(syscall.SIGTERM)
				select {
				case <-cl.exited:
					res.Obs("clients_ended_by_sigterm", 1)
				case <-time.After(15 * time.Second):
					res.Violate("c15:client-ignores-sigterm:"+cc.name, "client still running 15 s after SIGTERM", rec)
				}
				return
			}
			c, err := socksConnect(socks)
			if err != nil {
				res.Violate("c15:client-binary-socks-failed:"+cc.name, err.Error(), rec)
				return
			}
			// 25 s of failing (or working) rendezvous: the process must stay alive
			time.Sleep(25 * time.Second)
			if !cl.alive() {
				rec["panics"] = s.panicLines()
				res.Violate("c15:client-process-terminated:"+cc.name, fmt.Sprintf("client with %v exited on its own while its rendezvous attempts were failing", cc.args), rec)
				return
			}
			res.Obs("clients_alive_after_failing_rendezvous", 1)
			polls := atomic.LoadInt64(&bf.clientPolls)
			res.Obs("client_polls_seen_"+cc.name, polls)
			// closing the SOCKS connection stops further rendezvous attempts
			c.Close()
			time.Sleep(3 * time.Second) // an attempt already in flight may complete
			p1 := atomic.LoadInt64(&bf.clientPolls)
			time.Sleep(25 * time.Second) // 2.5 x ReconnectTimeout
			p2 := atomic.LoadInt64(&bf.clientPolls)
			if p2-p1 > 1 {
				rec["polls_after_close"] = p2 - p1
				res.Violate("c15:rendezvous-continues-after-socks-close:"+cc.name, fmt.Sprintf("%d client polls reached the broker in the 25 s after the SOCKS connection was closed", p2-p1), rec)
			} else {
				res.Obs("clients_quiet_after_socks_close", 1)
			}
			cl.signal(syscall.SIGTERM)
			select {
			case <-cl.exited:
				res.Obs("clients_ended_by_sigterm", 1)
			case <-time.After(15 * time.Second):
				res.Violate("c15:client-ignores-sigterm:"+cc.name, "client still running 15 s after SIGTERM", rec)
			}
		}(cases[ci])
	}
	wg.Wait()
	res.Sample(1, map[string]interface{}{"cases": len(cases)})
	res.RequireObs("clients_alive_after_failing_rendezvous", int64(len(cases)-1))
	res.RequireObs("socks_requests_aborted", 6)
	res.RequireObs("clients_quiet_after_socks_close", 3)
	res.RequireObs("clients_ended_by_sigterm", 3)
}
