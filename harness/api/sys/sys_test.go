// Whole-system engine: the real broker, server, proxy and client binaries
// (race-instrumented, tag verif) on loopback with a fake RFC 5780 STUN, a
// fault-injecting relay forwarder, an ORPort endpoint and a SOCKS driver.
package sys

import (
	"bufio"
	"bytes"
	"encoding/json"
	"fmt"
	"io"
	"io/ioutil"
	"net"
	"net/http"
	"net/http/httputil"
	"net/url"
	"os"
	"os/exec"
	"path/filepath"
	"regexp"
	"strings"
	"sync"
	"sync/atomic"
	"syscall"
	"time"

	"github.com/pion/stun"
	"verif/vlib"
)

// ---- processes ------------------------------------------------------------------

type proc struct {
	name   string
	cmd    *exec.Cmd
	log    string // stderr/stdout file
	exited chan struct{}
	stdout *bytes.Buffer
	mu     sync.Mutex
}

func (p *proc) alive() bool {
	select {
	case <-p.exited:
		return false
	default:
		return true
	}
}

func (p *proc) signal(s syscall.Signal) {
	if p.alive() {
		p.cmd.Process.Signal(s)
	}
}

func (p *proc) stop() {
	if !p.alive() {
		return
	}
	p.cmd.Process.Signal(syscall.SIGCONT)
	p.cmd.Process.Signal(syscall.SIGTERM)
	select {
	case <-p.exited:
	case <-time.After(5 * time.Second):
		p.cmd.Process.Kill()
		<-p.exited
	}
}

type lockedWriter struct {
	mu sync.Mutex
	w  io.Writer
	b  *bytes.Buffer
}

func (l *lockedWriter) Write(p []byte) (int, error) {
	l.mu.Lock()
	defer l.mu.Unlock()
	if l.b != nil {
		l.b.Write(p)
	}
	return l.w.Write(p)
}

type system struct {
	dir                                                string
	brokerAddr, frontAddr, serverAddr, fwdAddr, orAddr string
	stunAddr                                           string
	procs                                              []*proc
	mu                                                 sync.Mutex
	fwd                                                *relayFwd
	or                                                 *orEndpoint
	front                                              *brokerFront
	res                                                *vlib.Result
	proxySeq                                           int
	keepLocal                                          bool
}

func freeAddr() string {
	l, err := net.Listen("tcp", "127.0.0.1:0")
	if err != nil {
		panic(err)
	}
	defer l.Close()
	return l.Addr().String()
}

func (s *system) start(name string, args []string, env []string) (*proc, error) {
	bin := filepath.Join(os.Getenv("VERIF_BIN"), strings.SplitN(name, "-", 2)[0])
	p := &proc{name: name, log: filepath.Join(s.dir, name+".out"), exited: make(chan struct{}), stdout: &bytes.Buffer{}}
	f, err := os.Create(p.log)
	if err != nil {
		return nil, err
	}
	p.cmd = exec.Command(bin, args...)
	p.cmd.Env = append(os.Environ(), env...)
	p.cmd.Env = append(p.cmd.Env, "GORACE=halt_on_error=0 log_path="+filepath.Join(os.Getenv("VERIF_RACE_DIR"), "sys-"+name), "GOTRACEBACK=all")
	p.cmd.Stdout = &lockedWriter{w: f, b: p.stdout}
	p.cmd.Stderr = f
	p.cmd.Stdin = nil
	if err := p.cmd.Start(); err != nil {
		return nil, err
	}
	go func() { p.cmd.Wait(); close(p.exited) }()
	s.mu.Lock()
	s.procs = append(s.procs, p)
	s.mu.Unlock()
	return p, nil
}

func (s *system) stopAll() {
	s.mu.Lock()
	ps := append([]*proc{}, s.procs...)
	s.mu.Unlock()
	for i := len(ps) - 1; i >= 0; i-- {
		ps[i].stop()
	}
	if s.fwd != nil {
		s.fwd.ln.Close()
	}
	if s.or != nil {
		s.or.ln.Close()
	}
}

// ---- fake STUN (RFC 5780 subset: XOR-MAPPED-ADDRESS + OTHER-ADDRESS) ---------------

func startStun() (string, func(), error) {
	c1, err := net.ListenUDP("udp4", &net.UDPAddr{IP: net.IPv4(127, 0, 0, 1)})
	if err != nil {
		return "", nil, err
	}
	c2, err := net.ListenUDP("udp4", &net.UDPAddr{IP: net.IPv4(127, 0, 0, 1)})
	if err != nil {
		return "", nil, err
	}
	serve := func(c, other *net.UDPConn) {
		buf := make([]byte, 1500)
		for {
			n, from, err := c.ReadFromUDP(buf)
			if err != nil {
				return
			}
			m := new(stun.Message)
			m.Raw = append([]byte{}, buf[:n]...)
			if m.Decode() != nil || m.Type != stun.BindingRequest {
				continue
			}
			oa := other.LocalAddr().(*net.UDPAddr)
			resp, err := stun.Build(m, stun.BindingSuccess,
				&stun.XORMappedAddress{IP: from.IP, Port: from.Port},
				&stun.OtherAddress{IP: oa.IP, Port: oa.Port},
				stun.Fingerprint)
			if err == nil {
				c.WriteToUDP(resp.Raw, from)
			}
		}
	}
	go serve(c1, c2)
	go serve(c2, c1)
	return c1.LocalAddr().String(), func() { c1.Close(); c2.Close() }, nil
}

// ---- relay forwarder (between proxies and the server) --------------------------------

type fwdConn struct {
	c, s     net.Conn
	up, down int64
	openedAt time.Time
	closed   int32
}

type relayFwd struct {
	ln     net.Listener
	target string
	mu     sync.Mutex
	conns  []*fwdConn
	total  int64
	onConn func(*fwdConn)
}

func startFwd(target string) (*relayFwd, error) {
	ln, err := net.Listen("tcp", "127.0.0.1:0")
	if err != nil {
		return nil, err
	}
	f := &relayFwd{ln: ln, target: target}
	go func() {
		for {
			c, err := ln.Accept()
			if err != nil {
				return
			}
			go f.serve(c)
		}
	}()
	return f, nil
}

func (f *relayFwd) serve(c net.Conn) {
	s, err := net.DialTimeout("tcp", f.target, 5*time.Second)
	if err != nil {
		c.Close()
		return
	}
	fc := &fwdConn{c: c, s: s, openedAt: time.Now()}
	f.mu.Lock()
	f.conns = append(f.conns, fc)
	cb := f.onConn
	f.mu.Unlock()
	atomic.AddInt64(&f.total, 1)
	if cb != nil {
		cb(fc)
	}
	done := make(chan struct{}, 2)
	cp := func(dst, src net.Conn, ctr *int64) {
		buf := make([]byte, 32768)
		for {
			n, err := src.Read(buf)
			if n > 0 {
				if _, werr := dst.Write(buf[:n]); werr != nil {
					break
				}
				atomic.AddInt64(ctr, int64(n))
			}
			if err != nil {
				break
			}
		}
		done <- struct{}{}
	}
	go cp(s, c, &fc.up)
	go cp(c, s, &fc.down)
	<-done
	fc.cut()
}

func (fc *fwdConn) cut() {
	if atomic.CompareAndSwapInt32(&fc.closed, 0, 1) {
		fc.c.Close()
		fc.s.Close()
	}
}

// busiest returns the open relay connection that has carried most bytes.
func (f *relayFwd) busiest() *fwdConn {
	f.mu.Lock()
	defer f.mu.Unlock()
	var best *fwdConn
	for _, c := range f.conns {
		if atomic.LoadInt32(&c.closed) == 0 {
			if best == nil || atomic.LoadInt64(&c.up)+atomic.LoadInt64(&c.down) > atomic.LoadInt64(&best.up)+atomic.LoadInt64(&best.down) {
				best = c
			}
		}
	}
	return best
}

// ---- broker front: records (and can tamper with) rendezvous traffic ---------------------

type brokerFront struct {
	ln           net.Listener
	mu           sync.Mutex
	offers       []string // SDP offers seen in client polls
	answers      []string // answers seen from proxies
	polls        int64
	clientPolls  int64
	tamperOffer  func(pollResponseBody []byte) []byte
	tamperAnswer func(clientResponseBody []byte) []byte
	onOffer      func(proxyPort int) // a poll response carrying an offer is about to be relayed to the proxy
	onAnswer     func(proxyPort int) // a proxy's answer is about to be relayed to the broker
	dropAnswers  int32               // answers to clients to be replaced by "timed out" (lost answer)
	delayAnswers int32               // answers to clients to be delayed by 8 s
	refuse       int32               // 1 = answer every request with HTTP 500
}

func startFront(brokerAddr string) (*brokerFront, error) {
	ln, err := net.Listen("tcp", "127.0.0.1:0")
	if err != nil {
		return nil, err
	}
	bf := &brokerFront{ln: ln}
	target, _ := url.Parse("http://" + brokerAddr)
	rp := httputil.NewSingleHostReverseProxy(target)
	rp.ModifyResponse = func(resp *http.Response) error {
		if resp.Request.URL.Path == "/client" {
			bf.mu.Lock()
			t := bf.tamperAnswer
			bf.mu.Unlock()
			if t != nil {
				body, err := ioutil.ReadAll(resp.Body)
				resp.Body.Close()
				if err != nil {
					return err
				}
				body = t(body)
				resp.Body = ioutil.NopCloser(bytes.NewReader(body))
				resp.ContentLength = int64(len(body))
				resp.Header.Set("Content-Length", fmt.Sprint(len(body)))
			}
		}
		if resp.Request.URL.Path == "/client" {
			if n := atomic.LoadInt32(&bf.dropAnswers); n > 0 && atomic.CompareAndSwapInt32(&bf.dropAnswers, n, n-1) {
				body := []byte(`{"error":"timed out waiting for answer!"}`)
				resp.Body.Close()
				resp.Body = ioutil.NopCloser(bytes.NewReader(body))
				resp.ContentLength = int64(len(body))
				resp.Header.Set("Content-Length", fmt.Sprint(len(body)))
			} else if n := atomic.LoadInt32(&bf.delayAnswers); n > 0 && atomic.CompareAndSwapInt32(&bf.delayAnswers, n, n-1) {
				time.Sleep(8 * time.Second)
			}
		}
		if resp.Request.URL.Path == "/proxy" {
			body, err := ioutil.ReadAll(resp.Body)
			resp.Body.Close()
			if err != nil {
				return err
			}
			bf.mu.Lock()
			t := bf.tamperOffer
			bf.mu.Unlock()
			if t != nil {
				body = t(body)
			}
			bf.mu.Lock()
			oo := bf.onOffer
			bf.mu.Unlock()
			if oo != nil && bytes.Contains(body, []byte(`"client match"`)) {
				oo(remotePort(resp.Request.RemoteAddr))
			}
			resp.Body = ioutil.NopCloser(bytes.NewReader(body))
			resp.ContentLength = int64(len(body))
			resp.Header.Set("Content-Length", fmt.Sprint(len(body)))
		}
		return nil
	}
	mux := http.NewServeMux()
	mux.HandleFunc("/", func(w http.ResponseWriter, r *http.Request) {
		body, _ := ioutil.ReadAll(r.Body)
		r.Body = ioutil.NopCloser(bytes.NewReader(body))
		if atomic.LoadInt32(&bf.refuse) == 1 {
			if r.URL.Path == "/client" {
				atomic.AddInt64(&bf.clientPolls, 1)
			}
			w.WriteHeader(http.StatusInternalServerError)
			return
		}
		switch r.URL.Path {
		case "/client":
			atomic.AddInt64(&bf.clientPolls, 1)
			if i := bytes.IndexByte(body, '\n'); i >= 0 {
				var m struct {
					Offer string `json:"offer"`
				}
				if json.Unmarshal(body[i+1:], &m) == nil {
					var d struct {
						SDP string `json:"sdp"`
					}
					json.Unmarshal([]byte(m.Offer), &d)
					bf.mu.Lock()
					bf.offers = append(bf.offers, d.SDP)
					bf.mu.Unlock()
				}
			}
		case "/proxy":
			atomic.AddInt64(&bf.polls, 1)
		case "/answer":
			bf.mu.Lock()
			oa := bf.onAnswer
			bf.mu.Unlock()
			if oa != nil {
				oa(remotePort(r.RemoteAddr))
			}
			var m struct{ Answer string }
			if json.Unmarshal(body, &m) == nil {
				var d struct {
					SDP string `json:"sdp"`
				}
				json.Unmarshal([]byte(m.Answer), &d)
				bf.mu.Lock()
				bf.answers = append(bf.answers, d.SDP)
				bf.mu.Unlock()
			}
		}
		rp.ServeHTTP(w, r)
	})
	go http.Serve(ln, mux)
	return bf, nil
}

// ---- ORPort endpoint (the bridge side) ---------------------------------------------------

type orSession struct {
	tag            uint64
	lenUp, lenDown uint64
	upVerified     uint64
	done           bool
	fail           string
}

type orEndpoint struct {
	ln       net.Listener
	mu       sync.Mutex
	plans    map[uint64]*orSession
	res      *vlib.Result
	accepted int64
}

func startOR(res *vlib.Result) (*orEndpoint, error) {
	ln, err := net.Listen("tcp", "127.0.0.1:0")
	if err != nil {
		return nil, err
	}
	o := &orEndpoint{ln: ln, plans: map[uint64]*orSession{}, res: res}
	go func() {
		for {
			c, err := ln.Accept()
			if err != nil {
				return
			}
			atomic.AddInt64(&o.accepted, 1)
			go o.handle(c)
		}
	}()
	return o, nil
}

func (o *orEndpoint) handle(c net.Conn) {
	defer c.Close()
	var hdr [vlib.StreamHeaderLen]byte
	if _, err := io.ReadFull(c, hdr[:]); err != nil {
		return
	}
	tag, dir, length, ok := vlib.ParseStreamHeader(hdr[:])
	o.mu.Lock()
	p := o.plans[tag]
	o.mu.Unlock()
	if !ok || p == nil || dir != 0 || length != p.lenUp {
		o.res.Violate("stream:accepted-connection-starts-with-foreign-bytes", fmt.Sprintf("bridge side: a connection began with %x, not the header of a known stream", hdr[:]), map[string]interface{}{"case": "sys-or"})
		return
	}
	wdone := make(chan struct{})
	go func() {
		defer close(wdone)
		c.Write(vlib.StreamHeader(tag, 1, p.lenDown))
		buf := make([]byte, 16384)
		var off uint64
		for off < p.lenDown {
			n := uint64(len(buf))
			if off+n > p.lenDown {
				n = p.lenDown - off
			}
			vlib.FillKey(tag, 1, off, buf[:n])
			if _, err := c.Write(buf[:n]); err != nil {
				return
			}
			off += n
		}
	}()
	chk := &vlib.StreamChecker{Tag: tag, Dir: 0}
	buf := make([]byte, 32768)
	for {
		n, err := c.Read(buf)
		if n > 0 {
			if chk.Off+uint64(n) > p.lenUp {
				o.res.Violate("stream:extra-bytes:upstream", fmt.Sprintf("bridge side read more than the %d bytes the application wrote", p.lenUp), map[string]interface{}{"case": fmt.Sprintf("sys/%x", tag)})
				return
			}
			if !chk.Check(buf[:n]) {
				cls := vlib.Classify(buf[:n], [][2]uint64{{tag, 0}, {tag, 1}}, 1<<24)
				o.res.Violate("stream:wrong-byte:upstream", chk.Fail+" — "+cls, map[string]interface{}{"case": fmt.Sprintf("sys/%x", tag)})
				o.mu.Lock()
				p.fail = chk.Fail
				o.mu.Unlock()
				return
			}
			o.mu.Lock()
			p.upVerified = chk.Off
			if chk.Off == p.lenUp {
				p.done = true
			}
			o.mu.Unlock()
		}
		if err != nil {
			break
		}
	}
	<-wdone
}

// ---- bring-up ------------------------------------------------------------------------------

func (s *system) up(keepLocal bool) error {
	var err error
	for attempt := 0; attempt < 4; attempt++ {
		if err = s.upOnce(keepLocal); err == nil {
			return nil
		}
		// most likely a port picked beforehand was taken by an unrelated process
		// before our binary could bind it: stop what was started and try again
		s.stopAll()
		s.mu.Lock()
		s.procs = nil
		s.mu.Unlock()
	}
	return err
}

func (s *system) upOnce(keepLocal bool) error {
	var err error
	s.keepLocal = keepLocal
	var stopStun func()
	s.stunAddr, stopStun, err = startStun()
	if err != nil {
		return err
	}
	_ = stopStun
	s.or, err = startOR(s.res)
	if err != nil {
		return err
	}
	s.orAddr = s.or.ln.Addr().String()
	s.serverAddr = freeAddr()
	s.brokerAddr = freeAddr()
	// server (PT managed-proxy environment as tor would set it)
	os.MkdirAll(filepath.Join(s.dir, "server-state"), 0700)
	srvProc, err := s.start("server", []string{"-disable-tls", "-log", filepath.Join(s.dir, "server.log")}, []string{
		"TOR_PT_MANAGED_TRANSPORT_VER=1", "TOR_PT_SERVER_TRANSPORTS=snowflake", "TOR_PT_SERVER_BINDADDR=snowflake-" + s.serverAddr,
		"TOR_PT_ORPORT=" + s.orAddr, "TOR_PT_STATE_LOCATION=" + filepath.Join(s.dir, "server-state"), "TOR_PT_EXIT_ON_STDIN_CLOSE=0"})
	if err != nil {
		return err
	}
	s.fwd, err = startFwd(s.serverAddr)
	if err != nil {
		return err
	}
	s.fwdAddr = s.fwd.ln.Addr().String()
	bl := filepath.Join(s.dir, "bridges.json")
	ioutil.WriteFile(bl, []byte(fmt.Sprintf(`{"displayName":"default", "webSocketAddress":"ws://%s/", "fingerprint":"2B280B23E1107BB62ABFC40DDCC8824814F80A72"}`+"\n", s.fwdAddr)), 0600)
	brkProc, err := s.start("broker", []string{"-disable-tls", "-addr", s.brokerAddr, "-disable-geoip", "-metrics-log", filepath.Join(s.dir, "metrics.log"),
		"-bridge-list-path", bl, "-allowed-relay-pattern", "^127.0.0.1$", "-default-relay-pattern", "^127.0.0.1$"}, nil)
	if err != nil {
		return err
	}
	// the listeners must belong to OUR processes (see vlib.ListenerOwnedBy)
	if !vlib.WaitListener(brkProc.cmd.Process.Pid, remotePort(s.brokerAddr), 15*time.Second, func() bool { return !brkProc.alive() }) ||
		!vlib.WaitListener(srvProc.cmd.Process.Pid, remotePort(s.serverAddr), 15*time.Second, func() bool { return !srvProc.alive() }) {
		return fmt.Errorf("broker or server does not own a listener on the port picked for it")
	}
	if !waitTCP(s.brokerAddr, 10*time.Second) || !waitTCP(s.serverAddr, 10*time.Second) {
		return fmt.Errorf("broker or server did not start listening")
	}
	s.front, err = startFront(s.brokerAddr)
	if err != nil {
		return err
	}
	s.frontAddr = s.front.ln.Addr().String()
	return nil
}

func remotePort(addr string) int {
	_, p, err := net.SplitHostPort(addr)
	if err != nil {
		return 0
	}
	var n int
	fmt.Sscanf(p, "%d", &n)
	return n
}

func waitTCP(addr string, d time.Duration) bool {
	end := time.Now().Add(d)
	for time.Now().Before(end) {
		c, err := net.DialTimeout("tcp", addr, time.Second)
		if err == nil {
			c.Close()
			return true
		}
		time.Sleep(50 * time.Millisecond)
	}
	return false
}

func (s *system) startProxy() (*proc, error) {
	s.mu.Lock()
	s.proxySeq++
	n := s.proxySeq
	s.mu.Unlock()
	args := []string{"-broker", "http://" + s.frontAddr + "/", "-relay", "ws://" + s.fwdAddr + "/", "-stun", "stun:" + s.stunAddr,
		"-allow-non-tls-relay", "-allowed-relay-hostname-pattern", "^127.0.0.1$", "-log", filepath.Join(s.dir, fmt.Sprintf("proxy-%d.log", n)),
		"-summary-interval", "2s", "-verbose"}
	if s.keepLocal {
		args = append(args, "-keep-local-addresses")
	}
	return s.start(fmt.Sprintf("proxy-%d", n), args, nil)
}

var cmethodRe = regexp.MustCompile(`CMETHOD snowflake socks5 (\S+)`)

func (s *system) startClient(extra ...string) (*proc, string, error) {
	args := []string{"-url", "http://" + s.frontAddr + "/", "-ice", "stun:" + s.stunAddr, "-log", filepath.Join(s.dir, "client.log"), "-max", "2"}
	if s.keepLocal {
		args = append(args, "-keep-local-addresses")
	}
	args = append(args, extra...)
	return s.startClientArgs("client", args)
}

func (s *system) startClientArgs(name string, args []string) (*proc, string, error) {
	state := filepath.Join(s.dir, name+"-state")
	os.MkdirAll(state, 0700)
	p, err := s.start(name, args, []string{"TOR_PT_MANAGED_TRANSPORT_VER=1", "TOR_PT_CLIENT_TRANSPORTS=snowflake",
		"TOR_PT_STATE_LOCATION=" + state, "TOR_PT_EXIT_ON_STDIN_CLOSE=0"})
	if err != nil {
		return nil, "", err
	}
	end := time.Now().Add(15 * time.Second)
	for time.Now().Before(end) {
		lw := p.cmd.Stdout.(*lockedWriter)
		lw.mu.Lock()
		out := p.stdout.String()
		lw.mu.Unlock()
		if m := cmethodRe.FindStringSubmatch(out); m != nil {
			return p, m[1], nil
		}
		if !p.alive() {
			return p, "", fmt.Errorf("client exited during start-up")
		}
		time.Sleep(50 * time.Millisecond)
	}
	return p, "", fmt.Errorf("client did not announce its SOCKS port")
}

func socksConnect(addr string) (net.Conn, error) { return socksConnectArgs(addr, "") }

// socksConnectArgs passes pluggable-transport arguments ("k=v;k=v") the way tor
// does: in the username/password fields of SOCKS5 authentication.
func socksConnectArgs(addr, args string) (net.Conn, error) {
	c, err := net.DialTimeout("tcp", addr, 5*time.Second)
	if err != nil {
		return nil, err
	}
	var r [2]byte
	if args == "" {
		c.Write([]byte{5, 1, 0})
		if _, err := io.ReadFull(c, r[:]); err != nil || r[1] != 0 {
			c.Close()
			return nil, fmt.Errorf("socks method negotiation: %v %v", r, err)
		}
	} else {
		c.Write([]byte{5, 1, 2})
		if _, err := io.ReadFull(c, r[:]); err != nil || r[1] != 2 {
			c.Close()
			return nil, fmt.Errorf("socks method negotiation (auth): %v %v", r, err)
		}
		msg := append([]byte{1, byte(len(args))}, []byte(args)...)
		msg = append(msg, 1, 0)
		c.Write(msg)
		if _, err := io.ReadFull(c, r[:]); err != nil || r[1] != 0 {
			c.Close()
			return nil, fmt.Errorf("socks authentication: %v %v", r, err)
		}
	}
	c.Write([]byte{5, 1, 0, 1, 0, 0, 3, 1, 0, 80})
	var rr [10]byte
	c.SetReadDeadline(time.Now().Add(60 * time.Second))
	if _, err := io.ReadFull(c, rr[:]); err != nil || rr[1] != 0 {
		c.Close()
		return nil, fmt.Errorf("socks connect reply: %v %v", rr, err)
	}
	c.SetReadDeadline(time.Time{})
	return c, nil
}

// ---- one SOCKS session with M-streams in both directions ------------------------------------

type sockSess struct {
	args           string
	tag            uint64
	lenUp, lenDown uint64
	downVerified   uint64
	upWritten      uint64
	err            string
	done           bool
	mu             sync.Mutex
}

func (ss *sockSess) setErr(e string) { ss.mu.Lock(); ss.err = e; ss.mu.Unlock() }
func (ss *sockSess) setDone()        { ss.mu.Lock(); ss.done = true; ss.mu.Unlock() }
func (ss *sockSess) state() (bool, string) {
	ss.mu.Lock()
	defer ss.mu.Unlock()
	return ss.done, ss.err
}

func (s *system) runSession(ss *sockSess, socksAddr string, deadline time.Duration) {
	or := &orSession{tag: ss.tag, lenUp: ss.lenUp, lenDown: ss.lenDown}
	s.or.mu.Lock()
	s.or.plans[ss.tag] = or
	s.or.mu.Unlock()
	c, err := socksConnectArgs(socksAddr, ss.args)
	if err != nil {
		ss.setErr("socks: " + err.Error())
		return
	}
	defer c.Close()
	werr := make(chan error, 1)
	go func() {
		if _, err := c.Write(vlib.StreamHeader(ss.tag, 0, ss.lenUp)); err != nil {
			werr <- err
			return
		}
		buf := make([]byte, 16384)
		var off uint64
		for off < ss.lenUp {
			n := uint64(len(buf))
			if off+n > ss.lenUp {
				n = ss.lenUp - off
			}
			vlib.FillKey(ss.tag, 0, off, buf[:n])
			if _, err := c.Write(buf[:n]); err != nil {
				werr <- err
				return
			}
			off += n
			ss.mu.Lock()
			ss.upWritten = off
			ss.mu.Unlock()
		}
		werr <- nil
	}()
	rerr := make(chan error, 1)
	go func() {
		var hdr [vlib.StreamHeaderLen]byte
		if _, err := io.ReadFull(c, hdr[:]); err != nil {
			rerr <- err
			return
		}
		tag, dir, length, ok := vlib.ParseStreamHeader(hdr[:])
		if !ok || tag != ss.tag || dir != 1 || length != ss.lenDown {
			s.res.Violate("stream:wrong-byte:downstream", fmt.Sprintf("application side: the stream begins with %x, not this session's header", hdr[:]), map[string]interface{}{"case": fmt.Sprintf("sys/%x", ss.tag)})
			rerr <- fmt.Errorf("bad header")
			return
		}
		chk := &vlib.StreamChecker{Tag: ss.tag, Dir: 1}
		buf := make([]byte, 32768)
		for chk.Off < ss.lenDown {
			n, err := c.Read(buf)
			if n > 0 {
				if chk.Off+uint64(n) > ss.lenDown {
					s.res.Violate("stream:extra-bytes:downstream", "application side read more than the bridge wrote", map[string]interface{}{"case": fmt.Sprintf("sys/%x", ss.tag)})
					rerr <- fmt.Errorf("extra")
					return
				}
				if !chk.Check(buf[:n]) {
					cls := vlib.Classify(buf[:n], [][2]uint64{{ss.tag, 0}, {ss.tag, 1}}, 1<<24)
					s.res.Violate("stream:wrong-byte:downstream", chk.Fail+" — "+cls, map[string]interface{}{"case": fmt.Sprintf("sys/%x", ss.tag)})
					rerr <- fmt.Errorf("mismatch")
					return
				}
				ss.mu.Lock()
				ss.downVerified = chk.Off
				ss.mu.Unlock()
			}
			if err != nil {
				rerr <- err
				return
			}
		}
		rerr <- nil
	}()
	timer := time.After(deadline)
	wOK, rOK := false, false
	for !(wOK && rOK) {
		select {
		case e := <-werr:
			wOK = true
			if e != nil {
				ss.setErr("write: " + e.Error())
				return
			}
		case e := <-rerr:
			rOK = true
			if e != nil {
				ss.setErr("read: " + e.Error())
				return
			}
		case <-timer:
			ss.setErr("watchdog")
			return
		}
	}
	// wait for the bridge side to have everything
	end := time.Now().Add(60 * time.Second)
	for time.Now().Before(end) {
		s.or.mu.Lock()
		d := or.done || ss.lenUp == 0
		s.or.mu.Unlock()
		if d {
			break
		}
		time.Sleep(50 * time.Millisecond)
	}
	ss.setDone()
}

func (s *system) progress(ss *sockSess) uint64 {
	ss.mu.Lock()
	d := ss.downVerified
	ss.mu.Unlock()
	s.or.mu.Lock()
	u := uint64(0)
	if p := s.or.plans[ss.tag]; p != nil {
		u = p.upVerified
	}
	s.or.mu.Unlock()
	return d + u
}

// waitProgress waits until the session has moved at least delta more bytes.
func (s *system) waitProgress(ss *sockSess, delta uint64, d time.Duration) bool {
	start := s.progress(ss)
	end := time.Now().Add(d)
	for time.Now().Before(end) {
		if d, e := ss.state(); s.progress(ss) >= start+delta || d || e != "" {
			return true
		}
		time.Sleep(100 * time.Millisecond)
	}
	return false
}

func newSystem(res *vlib.Result, tag string) (*system, error) {
	dir, err := ioutil.TempDir(os.Getenv("VERIF_SCRATCH"), "sys-"+tag+"-")
	if err != nil {
		return nil, err
	}
	return &system{dir: dir, res: res}, nil
}

func (s *system) panicLines() []string {
	var out []string
	files, _ := filepath.Glob(filepath.Join(s.dir, "*.out"))
	for _, f := range files {
		data, _ := ioutil.ReadFile(f)
		for _, ln := range strings.Split(string(data), "\n") {
			if strings.HasPrefix(ln, "panic:") || strings.HasPrefix(ln, "fatal error:") {
				out = append(out, filepath.Base(f)+": "+ln)
			}
		}
	}
	return out
}

var _ = bufio.NewReader

// startPollObserver is a tiny reverse proxy in front of the broker front that
// reports the Clients field of every /proxy poll body.
func startPollObserver(frontAddr string, onPoll func(clients int)) (net.Listener, error) {
	ln, err := net.Listen("tcp", "127.0.0.1:0")
	if err != nil {
		return nil, err
	}
	target, _ := url.Parse("http://" + frontAddr)
	rp := httputil.NewSingleHostReverseProxy(target)
	mux := http.NewServeMux()
	mux.HandleFunc("/", func(w http.ResponseWriter, r *http.Request) {
		body, _ := ioutil.ReadAll(r.Body)
		r.Body = ioutil.NopCloser(bytes.NewReader(body))
		if r.URL.Path == "/proxy" {
			var m struct{ Clients int }
			if json.Unmarshal(body, &m) == nil {
				onPoll(m.Clients)
			}
		}
		rp.ServeHTTP(w, r)
	})
	go http.Serve(ln, mux)
	return ln, nil
}
