// C11 at the binary boundary: the real client binary talks to scripted "front"
// listeners. What is observed: where its TCP connections go (only the front can
// be reached: the broker / cache names do not resolve), what the Host header,
// method, path and body of every rendezvous request are, and - from the
// client's own log - whether a response was accepted ("Received answer: ...")
// or reported as an error, for response classes non-200, limit+1, 2*limit,
// exactly the limit and small.
package sys

import (
	"bytes"
	"fmt"
	"io/ioutil"
	"net"
	"net/http"
	"strings"
	"sync"
	"sync/atomic"
	"time"

	"git.torproject.org/pluggable-transports/snowflake.git/v2/common/amp"
	"git.torproject.org/pluggable-transports/snowflake.git/v2/common/messages"
	"verif/vlib"
)

const c11Limit = 100000 // readLimit of the client's rendezvous code ("100 KB limit" of the property)

type c11Req struct {
	Method string `json:"method"`
	Host   string `json:"host"`
	Path   string `json:"path"`
	Query  string `json:"query"`
	Body   []byte `json:"-"`
	BodyN  int    `json:"body_len"`
}

type c11Front struct {
	ln     net.Listener
	mu     sync.Mutex
	reqs   []c11Req
	n      int64
	class  string // response class
	marker string
	armor  bool
}

// body builds a response body of exactly n bytes that is a valid client poll
// response with an error member carrying the marker; the padding is JSON
// whitespace AFTER the value, so a client that truncated an over-long body at
// its limit would still find a well-formed message in what it kept.
func c11Body(marker string, n int) []byte {
	core := []byte(fmt.Sprintf(`{"error":"%s"}`, marker))
	if n < len(core) {
		n = len(core)
	}
	out := make([]byte, n)
	copy(out, core)
	for i := len(core); i < n; i++ {
		out[i] = ' '
	}
	return out
}

func (f *c11Front) serve(w http.ResponseWriter, r *http.Request) {
	body, _ := ioutil.ReadAll(r.Body)
	f.mu.Lock()
	f.reqs = append(f.reqs, c11Req{Method: r.Method, Host: r.Host, Path: r.URL.EscapedPath(), Query: r.URL.RawQuery, Body: body, BodyN: len(body)})
	f.mu.Unlock()
	atomic.AddInt64(&f.n, 1)
	status := 200
	var plain []byte
	switch f.class {
	case "status-503":
		status = 503
		plain = c11Body(f.marker, 64)
	case "status-404":
		status = 404
		plain = c11Body(f.marker, 64)
	case "limit-plus-1":
		plain = c11Body(f.marker, c11Limit+1)
	case "limit-times-2":
		plain = c11Body(f.marker, 2*c11Limit)
	case "at-limit":
		plain = c11Body(f.marker, c11Limit)
	default: // small
		plain = c11Body(f.marker, 64)
	}
	if f.armor {
		// the size classes apply to the armored document the client reads
		var buf bytes.Buffer
		enc, _ := amp.NewArmorEncoder(&buf)
		enc.Write(c11Body(f.marker, 64))
		enc.Close()
		doc := buf.Bytes()
		want := 0
		switch f.class {
		case "limit-plus-1":
			want = c11Limit + 1
		case "limit-times-2":
			want = 2 * c11Limit
		case "at-limit":
			want = c11Limit
		}
		if want > len(doc) {
			// trailing markup after </html>, outside every pre element and in small
			// tokens (the decoder bounds the size of a single token at 32 KiB):
			// ignored by the decoder
			n := want - len(doc)
			pad := bytes.Repeat([]byte("<br>"), n/4)
			pad = append(pad, bytes.Repeat([]byte{'\n'}, n%4)...)
			doc = append(doc, pad...)
		}
		plain = doc
		w.Header().Set("Content-Type", "text/html")
	}
	w.Header().Set("Content-Length", fmt.Sprint(len(plain)))
	w.WriteHeader(status)
	w.Write(plain)
}

func startC11Front(class, marker string, armor bool) (*c11Front, error) {
	ln, err := net.Listen("tcp", "127.0.0.1:0")
	if err != nil {
		return nil, err
	}
	f := &c11Front{ln: ln, class: class, marker: marker, armor: armor}
	go http.Serve(ln, http.HandlerFunc(f.serve))
	return f, nil
}

func sysC11(res *vlib.Result) {
	s, err := newSystem(res, "c11")
	if err != nil {
		res.Inconcl(err.Error())
		return
	}
	defer s.stopAll()
	stun, stopStun, err := startStun()
	if err != nil {
		res.Inconcl("stun: " + err.Error())
		return
	}
	defer stopStun()
	type ccase struct {
		mode  string // http-front | http-direct | amp-front
		class string
	}
	var cases []ccase
	for _, mode := range []string{"http-front", "http-direct", "amp-front"} {
		for _, class := range []string{"small", "at-limit", "limit-plus-1", "limit-times-2", "status-503", "status-404"} {
			if mode == "http-direct" && (class == "limit-times-2" || class == "status-404") {
				continue
			}
			cases = append(cases, ccase{mode, class})
		}
	}
	const brokerHost = "broker.verif-c11.invalid"
	const cacheHost = "cache.verif-c11.invalid"
	var wg sync.WaitGroup
	for ci := range cases {
		wg.Add(1)
		go func(ci int, cc ccase) {
			defer wg.Done()
			name := cc.mode + "/" + cc.class
			marker := fmt.Sprintf("verif-c11-marker-%d", ci)
			f, err := startC11Front(cc.class, marker, cc.mode == "amp-front")
			if err != nil {
				res.Inconcl(name + ": listener: " + err.Error())
				return
			}
			defer f.ln.Close()
			faddr := f.ln.Addr().String()
			logp := fmt.Sprintf("%s/client-c11-%d.log", s.dir, ci)
			args := []string{"-ice", "stun:" + stun, "-log", logp, "-max", "1", "-keep-local-addresses", "-unsafe-logging"}
			wantHost, wantPathPrefix := "", ""
			switch cc.mode {
			case "http-front":
				args = append(args, "-url", "http://"+brokerHost+"/rendezvous/", "-front", faddr)
				wantHost = brokerHost
			case "http-direct":
				args = append(args, "-url", "http://"+faddr+"/rendezvous/")
				wantHost = faddr
			case "amp-front":
				args = append(args, "-url", "http://"+brokerHost+"/rendezvous/", "-ampcache", "http://"+cacheHost+"/", "-front", faddr)
				wantHost = "broker-verif--c11-invalid." + cacheHost
				wantPathPrefix = "/c/" + brokerHost + "/rendezvous/amp/client/"
			}
			rec := map[string]interface{}{"case": "c11/" + name, "args": args, "response_class": cc.class}
			cl, socks, err := s.startClientArgs(fmt.Sprintf("client-c11-%d", ci), args)
			res.Eval(1)
			if err != nil {
				res.Inconcl(name + ": client did not start: " + err.Error())
				return
			}
			c, err := socksConnect(socks)
			if err != nil {
				res.Inconcl(name + ": socks: " + err.Error())
				return
			}
			defer c.Close()
			// wait for two rendezvous requests (the retry interval is 10 s) or 45 s
			end := time.Now().Add(45 * time.Second)
			for time.Now().Before(end) && atomic.LoadInt64(&f.n) < 2 && cl.alive() {
				time.Sleep(100 * time.Millisecond)
			}
			time.Sleep(1500 * time.Millisecond) // let the client log what it made of the last response
			if !cl.alive() {
				rec["panics"] = s.panicLines()
				res.Violate("c11:client-binary-terminated:"+cc.class, name+": the client process exited while talking to its rendezvous front", rec)
				return
			}
			f.mu.Lock()
			reqs := append([]c11Req{}, f.reqs...)
			f.mu.Unlock()
			rec["requests_seen"] = reqs
			if len(reqs) == 0 {
				logTxt, _ := ioutil.ReadFile(logp)
				rec["client_log_tail"] = truncate(string(logTxt), 1500)
				res.Violate("c11:front:no-request-reached-the-front", name+": the client made no rendezvous request to the configured front/broker address in 45 s (the broker and cache names do not resolve, so a client that dials them instead of the front reaches nothing)", rec)
				return
			}
			res.Obs("rendezvous_requests_seen", int64(len(reqs)))
			for _, rq := range reqs {
				if rq.Host != wantHost {
					res.Violatef("c11:front:wrong-host-header", rec, "%s: Host header %q, expected %q", name, rq.Host, wantHost)
				}
				var poll []byte
				if cc.mode == "amp-front" {
					if rq.Method != "GET" || !strings.HasPrefix(rq.Path, wantPathPrefix) {
						res.Violatef("c11:amp:wrong-request", rec, "%s: %s %s, expected GET %s<encoded poll>", name, rq.Method, rq.Path, wantPathPrefix)
						continue
					}
					dec, err := amp.DecodePath(strings.TrimPrefix(rq.Path, wantPathPrefix))
					if err != nil {
						res.Violatef("c11:amp:path-does-not-decode", rec, "%s: path tail does not decode: %v", name, err)
						continue
					}
					poll = dec
				} else {
					if rq.Method != "POST" || rq.Path != "/rendezvous/client" {
						res.Violatef("c11:http:wrong-request", rec, "%s: %s %s, expected POST /rendezvous/client", name, rq.Method, rq.Path)
						continue
					}
					poll = rq.Body
				}
				pr, err := messages.DecodeClientPollRequest(poll)
				if err != nil || !strings.Contains(pr.Offer, `"type":"offer"`) {
					res.Violatef("c11:poll-not-faithful", rec, "%s: the poll carried by the request does not decode to a client poll with an offer: %v", name, err)
					continue
				}
				res.Obs("polls_decoded_"+cc.mode, 1)
			}
			// what did the client make of the responses?
			logTxt, _ := ioutil.ReadFile(logp)
			accepted := strings.Contains(string(logTxt), `Received answer: {"error":"`+marker+`"}`)
			mustAccept := cc.class == "small" || cc.class == "at-limit"
			rec["accepted_by_client"] = accepted
			res.Distinct(name)
			switch {
			case mustAccept && accepted:
				res.Obs("responses_accepted_as_expected", 1)
			case mustAccept && !accepted:
				rec["client_log_tail"] = truncate(string(logTxt), 1500)
				res.Violatef("c11:response:within-limit-rejected:"+cc.class, rec, "%s: a 200 response of %s size was not accepted by the client", name, cc.class)
			case !mustAccept && accepted:
				res.Violatef("c11:response:"+cc.class+"-accepted", rec, "%s: the client accepted a %s response as data (its log shows the received message)", name, cc.class)
			default:
				res.Obs("responses_refused_as_expected", 1)
			}
			if ci == 0 || ci == len(cases)-1 {
				res.Sample(2, map[string]interface{}{"case": "c11/" + name, "requests": len(reqs), "host": reqs[0].Host, "method": reqs[0].Method, "path_prefix": truncate(reqs[0].Path, 60), "accepted": accepted})
			}
		}(ci, cases[ci])
	}
	wg.Wait()
	res.RequireObs("rendezvous_requests_seen", int64(len(cases)))
	res.RequireObs("polls_decoded_http-front", 4)
	res.RequireObs("polls_decoded_amp-front", 4)
	res.RequireObs("responses_accepted_as_expected", 4)
	res.RequireObs("responses_refused_as_expected", 8)
}
