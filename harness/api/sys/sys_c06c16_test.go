package sys

import (
	"bytes"
	"encoding/json"
	"fmt"
	"net"
	"net/http"
	"strings"
	"sync"
	"sync/atomic"
	"time"

	"github.com/pion/webrtc/v3"
	"verif/vlib"
)

type decoy struct {
	ln      net.Listener
	accepts int64
}

func startDecoy(host string) (*decoy, error) {
	ln, err := net.Listen("tcp", host+":0")
	if err != nil {
		return nil, err
	}
	d := &decoy{ln: ln}
	go func() {
		for {
			c, err := ln.Accept()
			if err != nil {
				return
			}
			atomic.AddInt64(&d.accepts, 1)
			c.Close()
		}
	}()
	return d, nil
}

var (
	offerMu  sync.Mutex
	offerPCs []*webrtc.PeerConnection
)

// realOffer creates a genuine WebRTC offer (a live pion peer with one data
// channel, candidates gathered) so that the proxy can really negotiate; the peer
// never applies the answer, i.e. it is a client that never connects.
func realOffer() (string, error) {
	pc, err := webrtc.NewPeerConnection(webrtc.Configuration{})
	if err != nil {
		return "", err
	}
	if _, err := pc.CreateDataChannel("x", nil); err != nil {
		return "", err
	}
	off, err := pc.CreateOffer(nil)
	if err != nil {
		return "", err
	}
	done := webrtc.GatheringCompletePromise(pc)
	if err := pc.SetLocalDescription(off); err != nil {
		return "", err
	}
	<-done
	offerMu.Lock()
	offerPCs = append(offerPCs, pc)
	offerMu.Unlock()
	j, err := json.Marshal(map[string]string{"type": "offer", "sdp": pc.LocalDescription().SDP})
	return string(j), err
}

func closeOffers() {
	offerMu.Lock()
	defer offerMu.Unlock()
	for _, pc := range offerPCs {
		pc.Close()
	}
	offerPCs = nil
}

func clientPoll(brokerAddr string) {
	off, err := realOffer()
	if err != nil {
		return
	}
	body, _ := json.Marshal(map[string]string{"offer": off, "nat": "unrestricted"})
	http.Post("http://"+brokerAddr+"/client", "text/plain", bytes.NewReader(append([]byte("1.0\n"), body...)))
}

// sysC06: the real proxy binary (pattern ^127.0.0.1$, non-TLS relays allowed)
// behind a tampering broker front that rewrites the relay URL of every offer.
// For a URL the proxy must reject, no answer may be posted and no TCP
// connection may arrive at the decoy listener the URL designates.
func sysC06(res *vlib.Result) {
	s, err := newSystem(res, "c06")
	if err != nil {
		res.Inconcl(err.Error())
		return
	}
	defer s.stopAll()
	if err := s.up(true); err != nil {
		res.Inconcl("bring-up: " + err.Error())
		res.Require(false, "system brought up")
		return
	}
	dOut, err1 := startDecoy("127.0.0.9") // outside the proxy's pattern
	dIn, err2 := startDecoy("127.0.0.1")  // inside the pattern
	if err1 != nil || err2 != nil {
		res.Inconcl(fmt.Sprintf("decoy listeners: %v %v", err1, err2))
		return
	}
	defer dOut.ln.Close()
	defer dIn.ln.Close()
	defer closeOffers()
	_, outPort, _ := net.SplitHostPort(dOut.ln.Addr().String())
	_, inPort, _ := net.SplitHostPort(dIn.ln.Addr().String())
	type ucase struct {
		name   string
		url    string
		reject bool
		decoy  *decoy
	}
	cases := []ucase{
		{"out-of-pattern-host", "ws://127.0.0.9:" + outPort + "/", true, dOut},
		{"userinfo-good-at-evil", "ws://127.0.0.1@127.0.0.9:" + outPort + "/", true, dOut},
		{"suffix-trick", "ws://127.0.0.9:" + outPort + "/?x=127.0.0.1", true, dOut},
		{"wss-out-of-pattern", "wss://127.0.0.9:" + outPort + "/", true, dOut},
		{"in-pattern", "ws://127.0.0.1:" + inPort + "/", false, dIn},
	}
	if vlib.Thorough() {
		cases = append(cases,
			ucase{"trailing-dot", "ws://127.0.0.1.:" + inPort + "/", true, dIn},
			ucase{"fragment-trick", "ws://127.0.0.9:" + outPort + "/#127.0.0.1", true, dOut},
			ucase{"path-trick", "ws://127.0.0.9:" + outPort + "/127.0.0.1", true, dOut},
			ucase{"http-scheme-out", "http://127.0.0.9:" + outPort + "/", true, dOut})
	}
	var cur int32 = -1
	var delivered int32
	s.front.mu.Lock()
	s.front.tamperOffer = func(body []byte) []byte {
		var m map[string]interface{}
		if json.Unmarshal(body, &m) != nil || m["Status"] != "client match" {
			return body
		}
		i := int(atomic.LoadInt32(&cur))
		if i < 0 || i >= len(cases) {
			return body
		}
		m["RelayURL"] = cases[i].url
		out, _ := json.Marshal(m)
		atomic.AddInt32(&delivered, 1)
		return out
	}
	s.front.mu.Unlock()
	if _, err := s.startProxy(); err != nil {
		res.Inconcl("proxy: " + err.Error())
		return
	}
	for i, c := range cases {
		atomic.StoreInt32(&cur, int32(i))
		before := atomic.LoadInt32(&delivered)
		accBefore := atomic.LoadInt64(&c.decoy.accepts)
		s.front.mu.Lock()
		ansBefore := len(s.front.answers)
		s.front.mu.Unlock()
		end := time.Now().Add(30 * time.Second)
		for time.Now().Before(end) && atomic.LoadInt32(&delivered) == before {
			go clientPoll(s.brokerAddr)
			time.Sleep(1500 * time.Millisecond)
		}
		rec := map[string]interface{}{"case": "relay-url/" + c.name, "relay_url": c.url, "proxy_pattern": "^127.0.0.1$", "allow_non_tls": true}
		res.Eval(1)
		if atomic.LoadInt32(&delivered) == before {
			res.Inconcl("offer with relay URL " + c.name + " was not delivered")
			continue
		}
		res.Obs("offers_with_tampered_relay_url_delivered", 1)
		res.Distinct(c.name)
		time.Sleep(8 * time.Second) // an answer is posted within a second or two if at all
		s.front.mu.Lock()
		answered := len(s.front.answers) > ansBefore
		s.front.mu.Unlock()
		conns := atomic.LoadInt64(&c.decoy.accepts) - accBefore
		if c.reject {
			res.Obs("rejected_urls_checked", 1)
			if answered {
				res.Violate("c06:proxy-answered-rejected-relay-url:"+c.name, fmt.Sprintf("the proxy binary answered an offer whose relay URL %q is outside its pattern", c.url), rec)
			}
			if conns > 0 {
				res.Violate("c06:proxy-connected-to-rejected-relay:"+c.name, fmt.Sprintf("%d TCP connections arrived at the decoy designated by %q", conns, c.url), rec)
			}
		} else {
			if answered {
				res.Obs("accepted_urls_answered", 1)
			}
		}
	}
	res.RequireObs("rejected_urls_checked", 3)
	res.RequireObs("accepted_urls_answered", 1)
}

// sysC16: the proxy binary with -capacity N: the polls it sends (seen at the
// front) carry a Clients value that is a multiple of 8, it keeps polling, with N
// sessions established through it (N real client processes) it does not poll
// again, and it resumes polling when one of them ends.
func sysC16(res *vlib.Result) {
	s, err := newSystem(res, "c16")
	if err != nil {
		res.Inconcl(err.Error())
		return
	}
	defer s.stopAll()
	if err := s.up(true); err != nil {
		res.Inconcl("bring-up: " + err.Error())
		res.Require(false, "system brought up")
		return
	}
	// record every poll body
	var mu sync.Mutex
	type pollSeen struct {
		at      time.Time
		clients int
	}
	var polls []pollSeen
	obs, err := startPollObserver(s.frontAddr, func(clients int) {
		mu.Lock()
		polls = append(polls, pollSeen{time.Now(), clients})
		mu.Unlock()
	})
	if err != nil {
		res.Inconcl(err.Error())
		return
	}
	defer obs.Close()
	defer closeOffers()
	capN := 2
	args := []string{"-broker", "http://" + obs.Addr().String() + "/", "-relay", "ws://" + s.fwdAddr + "/", "-stun", "stun:" + s.stunAddr,
		"-allow-non-tls-relay", "-allowed-relay-hostname-pattern", "^127.0.0.1$", "-log", s.dir + "/proxy-cap.log", "-capacity", fmt.Sprint(capN), "-keep-local-addresses", "-verbose"}
	px, err := s.start("proxy-cap", args, nil)
	if err != nil {
		res.Inconcl(err.Error())
		return
	}
	count := func() int { mu.Lock(); defer mu.Unlock(); return len(polls) }
	waitCount := func(n int, d time.Duration) bool {
		end := time.Now().Add(d)
		for time.Now().Before(end) {
			if count() >= n {
				return true
			}
			time.Sleep(50 * time.Millisecond)
		}
		return false
	}
	if !waitCount(2, 30*time.Second) {
		res.Inconcl("proxy did not poll twice in 30 s")
		res.Require(false, "proxy polling")
		return
	}
	res.Obs("idle_polls_seen", int64(count()))
	// two real clients (one peer each) establish two sessions through this proxy:
	// it is then at capacity and its main loop waits for a free slot
	openRelay := func() int {
		n := 0
		s.fwd.mu.Lock()
		for _, c := range s.fwd.conns {
			if atomic.LoadInt32(&c.closed) == 0 {
				n++
			}
		}
		s.fwd.mu.Unlock()
		return n
	}
	var socksConns []net.Conn
	for i := 0; i < capN; i++ {
		name := fmt.Sprintf("client-cap%d", i)
		cargs := []string{"-url", "http://" + s.frontAddr + "/", "-ice", "stun:" + s.stunAddr, "-log", s.dir + "/" + name + ".log", "-max", "1", "-keep-local-addresses"}
		_, socks, err := s.startClientArgs(name, cargs)
		if err != nil {
			res.Inconcl(name + ": " + err.Error())
			return
		}
		c, err := socksConnect(socks)
		if err != nil {
			res.Inconcl(name + " socks: " + err.Error())
			return
		}
		socksConns = append(socksConns, c)
		c.Write([]byte("hello from " + name)) // some upstream bytes so that the session is set up end to end
		want := i + 1
		end := time.Now().Add(60 * time.Second)
		for time.Now().Before(end) && openRelay() < want {
			time.Sleep(100 * time.Millisecond)
		}
		if openRelay() < want {
			res.Inconcl(fmt.Sprintf("session %d was not established through the proxy within 60 s", i+1))
			return
		}
	}
	res.Obs("sessions_established_through_proxy", int64(capN))
	time.Sleep(2 * time.Second) // a poll that was in flight when the last session opened
	nFull := count()
	time.Sleep(16 * time.Second) // three poll intervals
	during := count() - nFull
	res.Eval(1)
	res.Distinct("capacity-probe")
	rec := map[string]interface{}{"case": "proxy-binary-capacity", "capacity": capN, "polls_while_full": during, "relay_connections_open": openRelay()}
	if during > 0 && openRelay() >= capN {
		res.Violate("c16:proxy-binary-polls-while-at-capacity", fmt.Sprintf("proxy with -capacity %d sent %d further polls in 16 s while %d sessions were relayed through it", capN, during, openRelay()), rec)
	} else if openRelay() >= capN {
		res.Obs("no_poll_while_at_capacity", 1)
	}
	// ending one session frees a slot: polling resumes
	socksConns[0].Close()
	if !waitCount(nFull+during+1, 90*time.Second) {
		res.Violate("c16:proxy-binary-stopped-polling", fmt.Sprintf("proxy with -capacity %d did not poll again within 90 s after one of its %d sessions ended", capN, capN), rec)
	} else {
		res.Obs("polling_resumed_after_session_end", 1)
	}
	for _, c := range socksConns[1:] {
		c.Close()
	}
	mu.Lock()
	for _, p := range polls {
		res.Obs("polls_checked", 1)
		if p.clients%8 != 0 || p.clients < 0 {
			res.Violate("c16:poll-clients-not-multiple-of-8", fmt.Sprintf("the proxy binary reported Clients=%d", p.clients), rec)
		}
		if p.clients > capN {
			res.Violate("c16:poll-clients-exceeds-capacity", fmt.Sprintf("the proxy binary reported Clients=%d with -capacity %d", p.clients, capN), rec)
		}
	}
	mu.Unlock()
	if !px.alive() {
		res.Violate("sys:process-died", "the proxy exited on its own: "+strings.Join(s.panicLines(), "; "), rec)
	}
	res.Sample(1, rec)
	res.Distinct("poll-fields")
	res.RequireObs("polls_checked", 4)
}
