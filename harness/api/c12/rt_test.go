// C12 — law 1: encode → decode returns the original fields with the
// documented defaults (messages produced by the real encoders).
package c12

import (
	"encoding/json"
	"fmt"
	"strings"

	"git.torproject.org/pluggable-transports/snowflake.git/v2/common/messages"
	"verif/vlib"
)

func (h *H) encFail(name string, rc rec, err error) {
	h.res.Violatef("encode-error:"+name, rc, "encoder returned error for valid UTF-8 fields: %v", err)
}

// refWire: what an encoder produced must be a well-formed JSON object that
// carries the original string fields under their documented names (read by
// encoding/json, independently of the package's decoders). A field whose
// original value is empty may be absent.
func (h *H) refWire(name string, rc rec, data []byte, fields map[string]string) {
	h.res.Obs("encoded_documents_read_by_the_reference_reader", 1)
	if !json.Valid(data) {
		h.res.Violatef("encoded-not-json:"+name, rc, "the encoder's output is not a well-formed JSON document")
		return
	}
	var doc map[string]json.RawMessage
	if err := json.Unmarshal(data, &doc); err != nil {
		h.res.Violatef("encoded-not-object:"+name, rc, "the encoder's output is not a JSON object: %v", err)
		return
	}
	for k, want := range fields {
		var raw json.RawMessage
		found := false
		for dk, dv := range doc {
			if strings.EqualFold(dk, k) {
				raw, found = dv, true
			}
		}
		if !found || string(raw) == "null" {
			if want != "" {
				h.res.Violatef("encoded-field-lost:"+name+":"+k, rc, "field %s (%d bytes) is absent from the encoder's output", k, len(want))
			}
			continue
		}
		var got string
		if err := json.Unmarshal(raw, &got); err != nil {
			h.res.Violatef("encoded-field-type:"+name+":"+k, rc, "field %s is not a JSON string in the encoder's output: %v", k, err)
			continue
		}
		if got != want {
			h.res.Violatef("encoded-field-differs:"+name+":"+k, rc, "field %s reads back as %q, original %q", k, clipS(got), clipS(want))
		}
	}
}

func (h *H) rtPollReq(r *vlib.Rand, id string) {
	sid := genStr(r, 65536)
	if r.Chance(9, 10) && sid == "" {
		sid = genNonEmpty(r, 2000)
	}
	typ := genType(r)
	nat := genNATvalid(r)
	if r.Chance(1, 12) {
		nat = genBadNAT(r)
	}
	clients, extreme := genInt(r)
	pattern := genStr(r, 65536)
	plain := r.Chance(1, 4)
	if plain {
		pattern = ""
	}
	rc := rec{Case: id, Msg: nPollReq, Fields: map[string]string{"sid": clipS(sid), "type": clipS(typ), "nat": clipS(nat), "clients": fmt.Sprint(clients), "pattern": clipS(pattern), "encoder": map[bool]string{true: "EncodeProxyPollRequest", false: "EncodeProxyPollRequestWithRelayPrefix"}[plain]}}
	var data []byte
	var err error
	if h.res.Guard("panic:EncodeProxyPollRequest", rc, func() {
		if plain {
			data, err = messages.EncodeProxyPollRequest(sid, typ, nat, clients)
		} else {
			data, err = messages.EncodeProxyPollRequestWithRelayPrefix(sid, typ, nat, clients, pattern)
		}
	}) {
		return
	}
	if err != nil {
		h.encFail(nPollReq, rc, err)
		return
	}
	rc.Input, rc.Len = clipS(string(data)), len(data)
	h.refWire(nPollReq, rc, data, map[string]string{"Sid": sid, "Type": typ, "NAT": nat, "AcceptedRelayPattern": pattern})
	want, feat := wantAccept, ""
	e := pollReqExp{sid: sid, typeIn: typ, clients: clients, clientsKnown: true, pattern: pattern, aware: true, awareKnown: true}
	var badNAT bool
	e.nat, badNAT = refNAT(nat)
	switch {
	case sid == "" && badNAT:
		want, feat = wantReject, "multiple"
	case sid == "":
		want, feat = wantReject, "missing-sid"
	case badNAT:
		want, feat = wantReject, "nat-outside-names"
	}
	if o, ok := h.decPollReq("encoded", rc, data); ok {
		h.postPollReq(o, rc)
		h.judgePollReq(o, want, feat, e, rc, "encoded", false)
	}
	if o, ok := h.decPollReqLegacy("encoded", rc, data); ok {
		h.postPollReq(o, rc)
		lw := want
		if want == wantAccept && pattern != "" {
			lw = wantFree // ErrExtraInfo is the legacy decoder's documented way out
		}
		h.judgePollReq(o, lw, feat, e, rc, "encoded", true)
	}
	if want == wantAccept {
		h.res.Obs("roundtrip:"+nPollReq, 1)
		for _, s := range []string{sid, typ, pattern} {
			strClass(h.res, s)
		}
		if extreme {
			h.res.Obs("int_extremes", 1)
		}
		if nat == "" {
			h.res.Obs("default_nat_unknown_applied", 1)
		}
		h.res.Distinct(nPollReq + hashKey(data))
	}
}

func (h *H) rtPollResp(r *vlib.Rand, id string) {
	offer := genStr(r, 65536)
	if r.Chance(9, 10) && offer == "" {
		offer = genNonEmpty(r, 2000)
	}
	success := r.Chance(3, 4)
	nat := genNATvalid(r)
	if r.Chance(1, 12) {
		nat = genBadNAT(r)
	}
	relay := genStr(r, 65536)
	reason := []string{"no match", "no match", "no match", "", "client match", "incorrect relay pattern"}[r.Intn(6)]
	if r.Chance(1, 3) {
		reason = genStr(r, 2000)
	}
	plain := r.Chance(1, 4)
	if plain {
		relay, reason = "", "no match"
	}
	rc := rec{Case: id, Msg: nPollResp, Fields: map[string]string{"offer": clipS(offer), "success": fmt.Sprint(success), "nat": clipS(nat), "relayURL": clipS(relay), "failReason": clipS(reason), "plain": fmt.Sprint(plain)}}
	var data []byte
	var err error
	if h.res.Guard("panic:EncodePollResponse", rc, func() {
		if plain {
			data, err = messages.EncodePollResponse(offer, success, nat)
		} else {
			data, err = messages.EncodePollResponseWithRelayURL(offer, success, nat, relay, reason)
		}
	}) {
		return
	}
	if err != nil {
		h.encFail(nPollResp, rc, err)
		return
	}
	rc.Input, rc.Len = clipS(string(data)), len(data)
	if success {
		h.refWire(nPollResp, rc, data, map[string]string{"Status": "client match", "Offer": offer, "NAT": nat, "RelayURL": relay})
	} else {
		h.refWire(nPollResp, rc, data, map[string]string{"Status": reason})
		h.res.Obs("failure_responses_with_reason_class:"+reasonClass(reason), 1)
	}
	want, feat := wantAccept, ""
	var e pollRespOut
	if success {
		var badNAT bool
		e.offer, e.relay = offer, relay
		e.nat, badNAT = refNAT(nat)
		switch {
		case offer == "":
			want, feat = wantReject, "missing-offer"
		case badNAT && strictPollResponseNAT:
			want, feat = wantReject, "nat-outside-names"
		case badNAT:
			want, e.nat = wantFree, nat
		}
	} else {
		// a failure response carries only its status
		e.nat = natDefault
		switch reason {
		case "no match":
		case "client match":
			want, feat = wantReject, "missing-offer"
		default:
			want = wantFree // other statuses: an error naming the status, or nothing — not specified
		}
	}
	if o, ok := h.decPollResp("encoded", rc, data); ok {
		h.postPollResp(o, rc)
		h.judgePollResp(o, want, feat, e, rc, "encoded", false)
	}
	if o, ok := h.decPollRespLegacy("encoded", rc, data); ok {
		h.postPollResp(o, rc)
		lw := want
		if want == wantAccept && e.relay != "" {
			lw = wantFree
		}
		h.judgePollResp(o, lw, feat, e, rc, "encoded", true)
	}
	if want == wantAccept {
		h.res.Obs("roundtrip:"+nPollResp, 1)
		if success {
			h.res.Obs("roundtrip:"+nPollResp+":match", 1)
			strClass(h.res, offer)
			strClass(h.res, relay)
			if nat == "" {
				h.res.Obs("default_nat_unknown_applied", 1)
			}
		} else {
			h.res.Obs("roundtrip:"+nPollResp+":no-match", 1)
		}
		h.res.Distinct(nPollResp + hashKey(data))
	}
}

func (h *H) rtAnsReq(r *vlib.Rand, id string) {
	answer, sid := genStr(r, 65536), genStr(r, 65536)
	if r.Chance(9, 10) && answer == "" {
		answer = genNonEmpty(r, 2000)
	}
	if r.Chance(9, 10) && sid == "" {
		sid = genNonEmpty(r, 2000)
	}
	rc := rec{Case: id, Msg: nAnsReq, Fields: map[string]string{"answer": clipS(answer), "sid": clipS(sid)}}
	var data []byte
	var err error
	if h.res.Guard("panic:EncodeAnswerRequest", rc, func() { data, err = messages.EncodeAnswerRequest(answer, sid) }) {
		return
	}
	if err != nil {
		h.encFail(nAnsReq, rc, err)
		return
	}
	rc.Input, rc.Len = clipS(string(data)), len(data)
	h.refWire(nAnsReq, rc, data, map[string]string{"Sid": sid, "Answer": answer})
	want, feat := wantAccept, ""
	switch {
	case sid == "" && answer == "":
		want, feat = wantReject, "multiple"
	case sid == "":
		want, feat = wantReject, "missing-sid"
	case answer == "":
		want, feat = wantReject, "missing-answer"
	}
	if o, ok := h.decAnsReq("encoded", rc, data); ok {
		h.postAnsReq(o, rc)
		h.judgeAnsReq(o, want, feat, ansReqOut{answer: answer, sid: sid}, rc, "encoded")
	}
	if want == wantAccept {
		h.res.Obs("roundtrip:"+nAnsReq, 1)
		strClass(h.res, answer)
		strClass(h.res, sid)
		h.res.Distinct(nAnsReq + hashKey(data))
	}
}

func (h *H) rtAnsResp(success bool, id string) {
	rc := rec{Case: id, Msg: nAnsResp, Fields: map[string]string{"success": fmt.Sprint(success)}}
	var data []byte
	var err error
	if h.res.Guard("panic:EncodeAnswerResponse", rc, func() { data, err = messages.EncodeAnswerResponse(success) }) {
		return
	}
	if err != nil {
		h.encFail(nAnsResp, rc, err)
		return
	}
	rc.Input, rc.Len = clipS(string(data)), len(data)
	if o, ok := h.decAnsResp("encoded", rc, data); ok {
		h.judgeAnsResp(o, wantAccept, "", success, rc, "encoded")
	}
	h.res.Obs("roundtrip:"+nAnsResp, 1)
	h.res.Distinct(nAnsResp + hashKey(data))
}

func (h *H) rtCliReq(r *vlib.Rand, id string) {
	offer := genStr(r, 65536)
	if r.Chance(9, 10) && offer == "" {
		offer = genNonEmpty(r, 2000)
	}
	nat := genNATvalid(r)
	if r.Chance(1, 12) {
		nat = genBadNAT(r)
	}
	fp := genFPvalid(r)
	fpFeat := ""
	if r.Chance(1, 12) {
		bad, feats := badFingerprints(r)
		i := r.Intn(len(bad))
		fp, fpFeat = bad[i], feats[i]
	}
	rc := rec{Case: id, Msg: nCliReq, Fields: map[string]string{"offer": clipS(offer), "nat": clipS(nat), "fingerprint": clipS(fp)}}
	req := &messages.ClientPollRequest{Offer: offer, NAT: nat, Fingerprint: fp}
	var data []byte
	var err error
	if h.res.Guard("panic:EncodeClientPollRequest", rc, func() { data, err = req.EncodeClientPollRequest() }) {
		return
	}
	if err != nil {
		h.encFail(nCliReq, rc, err)
		return
	}
	rc.Input, rc.Len = clipS(string(data)), len(data)
	var e cliReqExp
	var badNAT, badFP bool
	e.offer = offer
	e.nat, badNAT = refNAT(nat)
	e.fp, badFP = refFP(fp)
	var feats []string
	if offer == "" {
		feats = append(feats, "missing-offer")
	}
	if badNAT {
		feats = append(feats, "nat-outside-names")
	}
	if badFP {
		if fpFeat == "" {
			fpFeat = "fingerprint-non-hex"
		}
		feats = append(feats, fpFeat)
	}
	want, feat := wantAccept, ""
	if len(feats) == 1 {
		want, feat = wantReject, feats[0]
	} else if len(feats) > 1 {
		want, feat = wantReject, "multiple"
	}
	if o, ok := h.decCliReq("encoded", rc, data); ok {
		h.postCliReq(o, rc)
		h.judgeCliReq(o, want, feat, e, rc, "encoded")
	}
	if want == wantAccept {
		h.res.Obs("roundtrip:"+nCliReq, 1)
		strClass(h.res, offer)
		if nat == "" {
			h.res.Obs("default_nat_unknown_applied", 1)
		}
		if fp == "" {
			h.res.Obs("default_fingerprint_applied", 1)
		}
		if len(fp) == 64 {
			h.res.Obs("fingerprint_32_bytes_roundtrip", 1)
		}
		h.res.Distinct(nCliReq + hashKey(data))
	}
}

func (h *H) rtCliResp(r *vlib.Rand, id string) {
	var answer, errS string
	switch r.Intn(8) {
	case 0:
	case 1, 2, 3:
		answer = genNonEmpty(r, 65536)
	case 4, 5:
		errS = genNonEmpty(r, 65536)
		if r.Bool() {
			errS = []string{messages.StrTimedOut, messages.StrNoProxies}[r.Intn(2)]
		}
	default:
		answer, errS = genNonEmpty(r, 65536), genNonEmpty(r, 2000)
	}
	rc := rec{Case: id, Msg: nCliResp, Fields: map[string]string{"answer": clipS(answer), "error": clipS(errS)}}
	resp := &messages.ClientPollResponse{Answer: answer, Error: errS}
	var data []byte
	var err error
	if h.res.Guard("panic:ClientPollResponse.EncodePollResponse", rc, func() { data, err = resp.EncodePollResponse() }) {
		return
	}
	if err != nil {
		h.encFail(nCliResp, rc, err)
		return
	}
	rc.Input, rc.Len = clipS(string(data)), len(data)
	h.refWire(nCliResp, rc, data, map[string]string{"answer": answer, "error": errS})
	want, feat := wantAccept, ""
	switch {
	case answer == "" && errS == "":
		want, feat = wantReject, "neither-answer-nor-error"
	case answer != "" && errS != "":
		want = wantFree // "the error field MUST be empty" when there is an answer: rejecting is defensible
	}
	if o, ok := h.decCliResp("encoded", rc, data); ok {
		h.postCliResp(o, rc)
		h.judgeCliResp(o, want, feat, answer, errS, rc, "encoded")
	}
	if want == wantAccept {
		h.res.Obs("roundtrip:"+nCliResp, 1)
		strClass(h.res, answer)
		strClass(h.res, errS)
		h.res.Distinct(nCliResp + hashKey(data))
	}
}

func reasonClass(s string) string {
	switch {
	case s == "no match" || s == "client match" || s == "incorrect relay pattern" || s == "":
		return "stock"
	}
	for _, c := range s {
		if c < 0x20 || c == 0x7f || c > 0xffff {
			return "custom-with-control-or-astral"
		}
	}
	return "custom-plain"
}
