// C12 — broker messages round-trip and invalid ones are rejected.
// Engine: api (exported Encode*/Decode* of common/messages), -race.
//
// Three laws, each with its own oracle (tables in ref_test.go are transcribed
// from the protocol comments; the code under test is never asked what it
// thinks is valid):
//  1. rt_test.go    encode → decode = input with the documented defaults
//  2. hand_test.go  hand-written JSON (own writer): defaults for absent
//                   members; exactly one forbidden feature ⇒ error
//  3. this file     totality: any bytes ⇒ value or error, never a panic; and a
//                   value never carries anything the protocol forbids
package c12

import (
	"fmt"
	"strings"
	"testing"
	"time"

	"git.torproject.org/pluggable-transports/snowflake.git/v2/common/messages"
	"verif/vlib"
)

var tokens = []string{"{", "}", "[", "]", ",", ":", "\"", "\\", "null", "true", "false", "0", "1", "-1", "1e999", "1.0", "\n", " ",
	`"Sid"`, `"Version"`, `"1.3"`, `"Type"`, `"NAT"`, `"Clients"`, `"AcceptedRelayPattern"`, `"Status"`, `"client match"`, `"Offer"`, `"RelayURL"`,
	`"Answer"`, `"offer"`, `"nat"`, `"fingerprint"`, `"answer"`, `"error"`, `"unknown"`, `"x"`, `""`, "\xff", "\x00", `\u0000`, `\ud800`, "\xef\xbb\xbf"}

func nest(open, close, inner string, depth int) string {
	return strings.Repeat(open, depth) + inner + strings.Repeat(close, depth)
}

// validSamples: one valid encoding of each message, used as seeds for byte
// mutation and truncation.
func validSamples(r *vlib.Rand) [][]byte {
	var out [][]byte
	add := func(b []byte, err error) {
		if err == nil {
			out = append(out, b)
		}
	}
	pat := genStr(r, 100)
	add(messages.EncodeProxyPollRequestWithRelayPrefix(genNonEmpty(r, 60), "standalone", "restricted", r.Intn(100), pat))
	add(messages.EncodeProxyPollRequest(genNonEmpty(r, 60), "webext", "", 0))
	add(messages.EncodePollResponseWithRelayURL(genNonEmpty(r, 200), true, "unknown", "wss://snowflake.torproject.net/", ""))
	add(messages.EncodePollResponse("", false, ""))
	add(messages.EncodeAnswerRequest(genNonEmpty(r, 200), genNonEmpty(r, 30)))
	add(messages.EncodeAnswerResponse(r.Bool()))
	add((&messages.ClientPollRequest{Offer: genNonEmpty(r, 200), NAT: "unrestricted", Fingerprint: defaultBridgeFP}).EncodeClientPollRequest())
	add((&messages.ClientPollResponse{Answer: genNonEmpty(r, 200)}).EncodePollResponse())
	add((&messages.ClientPollResponse{Error: messages.StrNoProxies}).EncodePollResponse())
	return out
}

func (h *H) totality(root *vlib.Rand) {
	// a. arbitrary bytes and token soup
	n := vlib.Scale(3000, 300000)
	for i := 0; i < n; i++ {
		if !h.mine(i) {
			continue
		}
		r := root.SplitN("arb", i)
		var b []byte
		if r.Bool() {
			b = r.Bytes(r.Range(0, 64))
		} else {
			k := r.Range(0, 24)
			for j := 0; j < k; j++ {
				b = append(b, tokens[r.Intn(len(tokens))]...)
			}
		}
		h.allDecoders("arbitrary-bytes", fmt.Sprintf("arb/%d", i), b, "")
		h.res.Obs("totality_arbitrary_inputs", 1)
	}

	// b. every JSON top-level kind
	tops := []string{``, ` `, `null`, `true`, `false`, `0`, `-1.5`, `1e400`, `"str"`, `""`, `[]`, `[{}]`, `[null]`, `{}`, `{"a":{}}`, `{}{}`, `{} x`, `{"Sid":"a","Sid":""}`,
		`{"sid":"a","VERSION":"1.0","nat":"RESTRICTED"}`, "\xef\xbb\xbf{}", `{"offer":"x","OFFER":""}`, `{"answer":"a","Answer":""}`, `{"":""}`, `{"Version":"2.0","version":"1.0","Sid":"s"}`}
	for i, s := range tops {
		h.allDecoders("json-top-level-kind", fmt.Sprintf("top/%d", i), []byte(s), "")
		h.res.Obs("totality_top_level_kinds", 1)
	}

	// c. deep nesting, at top level and as a member value
	depths := []int{100, 9999, 10000, 10001, vlib.Scale(100000, 2000000)}
	for _, d := range depths {
		for k, s := range []string{
			nest("[", "]", "", d),
			nest(`{"Sid":`, "}", `"x"`, d),
			`{"Sid":` + nest("[", "]", "", d) + `,"Version":"1.0"}`,
			`{"offer":` + nest(`{"a":`, "}", "1", d) + `}`,
			`{"Status":"client match","Offer":` + nest("[", "]", `"x"`, d) + `}`,
			nest("[", "", "", d), // unbalanced
			`{"answer":` + nest(`{"answer":`, "", "", d),
		} {
			h.allDecoders("deep-nesting", fmt.Sprintf("deep/%d/%d", d, k), []byte(s), fmt.Sprintf("depth %d", d))
			h.res.Obs("totality_deep_nesting", 1)
		}
	}

	// d. huge numbers in the one numeric member and everywhere else
	nums := []string{"1e999999999", "-1e999999999", "1e-999999999", strings.Repeat("9", 400), "-" + strings.Repeat("9", 400), "0." + strings.Repeat("0", 400) + "1",
		"18446744073709551616", "9223372036854775808", "-9223372036854775809", "1E400", "0e0", "-0", "1.0", "1e2", "0x10", "01", "+1", ".5", "5.", "NaN", "Infinity", strings.Repeat("1", 70000)}
	for i, num := range nums {
		for k, tmpl := range []string{`{"Sid":"s","Version":"1.3","Clients":%s}`, `{"Sid":%s,"Version":"1.3"}`, `{"Sid":"s","Version":%s}`, `{"offer":%s}`, `{"answer":%s,"error":%s}`, `{"Status":%s}`, `%s`} {
			s := strings.Replace(tmpl, "%s", num, -1)
			h.allDecoders("huge-number", fmt.Sprintf("num/%d/%d", i, k), []byte(s), "")
			h.res.Obs("totality_huge_numbers", 1)
		}
	}

	// e. byte mutations and every truncation point of valid messages
	nm := vlib.Scale(400, 40000)
	for i := 0; i < nm; i++ {
		if !h.mine(i) {
			continue
		}
		r := root.SplitN("mutate", i)
		for si, s := range validSamples(r) {
			b := append([]byte(nil), s...)
			for e := r.Range(1, 3); e > 0 && len(b) > 0; e-- {
				p := r.Intn(len(b))
				switch r.Intn(4) {
				case 0:
					b[p] ^= 1 << uint(r.Intn(8))
				case 1:
					b = append(b[:p], b[p+1:]...)
				case 2:
					b = append(b[:p], append([]byte(tokens[r.Intn(len(tokens))]), b[p:]...)...)
				default:
					b[p] = byte(r.Intn(256))
				}
			}
			h.allDecoders("mutated-valid-message", fmt.Sprintf("mutate/%d/%d", i, si), b, "")
			h.res.Obs("totality_mutated_messages", 1)
		}
		if i < vlib.Scale(6, 200) {
			for si, s := range validSamples(r) {
				if len(s) > 400 {
					continue
				}
				for cut := 0; cut < len(s); cut++ {
					h.allDecoders("truncated-valid-message", fmt.Sprintf("trunc/%d/%d/%d", i, si, cut), s[:cut], "")
					h.res.Obs("totality_truncations", 1)
				}
			}
		}
	}

	// f. the client version line on its own
	for i, s := range []string{"", "\n", "1.0", "1.0\n", "1.0\n\n", "\n1.0\n{}", "1.0\r\n{\"offer\":\"x\"}", "1.0\n{\"offer\":\"x\"}\n", "1.0\n1.0\n{\"offer\":\"x\"}", "1.0{\"offer\":\"x\"}", "1.0\x00\n{\"offer\":\"x\"}"} {
		rc := mkrec(fmt.Sprintf("verline/%d", i), nCliReq, []byte(s), "")
		if o, ok := h.decCliReq("version-line", rc, []byte(s)); ok {
			h.postCliReq(o, rc)
		}
	}
}

// literals: one minimal hand-typed message per forbidden feature and decoder.
func (h *H) literals() {
	fp20 := defaultBridgeFP
	for i, c := range []struct{ msg, feat, data string }{
		{nPollReq, "version", `{"Sid":"s","Version":"2.0"}`},
		{nPollReq, "version", `{"Sid":"s"}`},
		{nPollReq, "missing-sid", `{"Version":"1.0"}`},
		{nPollReq, "nat-outside-names", `{"Sid":"s","Version":"1.2","NAT":"bogus"}`},
		{nPollResp, "missing-offer", `{"Status":"client match"}`},
		{nPollResp, "nat-outside-names", `{"Status":"client match","Offer":"x","NAT":"bogus"}`},
		{nPollResp, "nat-outside-names:no-match", `{"Status":"no match","NAT":"symmetric"}`},
		{nPollResp, "nat-outside-names:other-status", `{"Status":"incorrect relay pattern","NAT":"symmetric"}`},
		{nAnsReq, "version", `{"Version":"2.0","Sid":"s","Answer":"a"}`},
		{nAnsReq, "missing-sid", `{"Version":"1.0","Answer":"a"}`},
		{nAnsReq, "missing-answer", `{"Version":"1.0","Sid":"s"}`},
		{nCliReq, "version", "2.0\n{\"offer\":\"x\"}"},
		{nCliReq, "version", `{"offer":"x"}`},
		{nCliReq, "missing-offer", "1.0\n{}"},
		{nCliReq, "nat-outside-names", "1.0\n{\"offer\":\"x\",\"nat\":\"bogus\"}"},
		{nCliReq, "fingerprint-length", "1.0\n{\"offer\":\"x\",\"fingerprint\":\"" + fp20[:38] + "\"}"},
		{nCliReq, "fingerprint-non-hex", "1.0\n{\"offer\":\"x\",\"fingerprint\":\"" + fp20[:39] + "g\"}"},
		{nCliResp, "neither-answer-nor-error", `{}`},
	} {
		data := []byte(c.data)
		rc := mkrec(fmt.Sprintf("literal/%d", i), c.msg, data, "literal witness: "+c.feat)
		var err error
		var ok bool
		switch c.msg {
		case nPollReq:
			var o pollReqOut
			o, ok = h.decPollReq("handwritten", rc, data)
			err = o.err
		case nPollResp:
			if strings.HasPrefix(c.feat, "nat-outside-names") && !strictPollResponseNAT {
				continue
			}
			var o pollRespOut
			o, ok = h.decPollResp("handwritten", rc, data)
			err = o.err
		case nAnsReq:
			var o ansReqOut
			o, ok = h.decAnsReq("handwritten", rc, data)
			err = o.err
		case nCliReq:
			var o cliReqOut
			o, ok = h.decCliReq("handwritten", rc, data)
			err = o.err
		case nCliResp:
			var o cliRespOut
			o, ok = h.decCliResp("handwritten", rc, data)
			err = o.err
		}
		if ok {
			h.judge(c.msg, wantReject, c.feat, "handwritten", err, rc)
			h.res.Obs("literal_witnesses", 1)
		}
	}
}

func TestVerifC12(t *testing.T) {
	res := vlib.NewResult("C12", "api-c12", "six broker messages x three laws: (1) PRNG field values (valid UTF-8 incl. quotes, NULs, astral, 0-64 KiB; int extremes; optional members empty/present) through the real encoders and back, compared with a table of documented defaults; (2) hand-written JSON from an own writer (member order, whitespace, escape style, unknown members; absent/null/empty/wrong-typed members), every valid base followed by all single-forbidden-feature variants, which must error; (3) arbitrary bytes, token soup, every JSON kind at top level and in every member, deep nesting, huge numbers, mutated and truncated valid messages offered to all 8 decoders under a panic guard, accepted values checked against the forbidden list. Non-trivial = a round trip that was accepted, or a reject-law case with exactly one forbidden feature; distinct by (message, feature, hash of the bytes)")
	defer res.Finish()
	h := &H{res: res}
	root := vlib.NewRand(vlib.Seed()).Split("c12")

	// harness self-checks: the forbidden lists really are forbidden by the reference
	for _, v := range forbiddenVersions() {
		res.Require(verClass(v, docVersions) == vForbidden && verClass(v, clientDocVersions) == vForbidden, "harness: version "+v+" not classified forbidden")
	}
	for _, v := range freeVersions {
		res.Require(verClass(v, docVersions) == vFree, "harness: version "+v+" not classified free")
	}
	for _, s := range badNATs {
		_, bad := refNAT(s)
		res.Require(bad, "harness: NAT "+s+" not classified forbidden")
	}
	{
		bad, _ := badFingerprints(root.Split("fpcheck"))
		for _, s := range bad {
			_, b := refFP(s)
			res.Require(b, "harness: fingerprint "+s+" not classified forbidden")
		}
		_, b := refFP(defaultBridgeFP)
		res.Require(!b, "harness: default fingerprint classified forbidden")
	}

	t0 := time.Now()
	lap := func(name string) {
		res.Note("wall_s:"+name, time.Since(t0).Seconds())
		t0 = time.Now()
	}
	// thorough runs are split over shards: case i belongs to shard i mod n
	si, ns := vlib.Shard()
	mine := func(i int) bool { return i%ns == si }
	count := func(n int) int {
		c := 0
		for i := 0; i < n; i++ {
			if mine(i) {
				c++
			}
		}
		return c
	}
	h.mine = mine

	// minimal literal witnesses of every forbidden feature first, so that the
	// replay kept for a signature is the smallest message showing it
	h.literals()

	// law 1
	nRT := vlib.Scale(5000, 100000)
	for i := 0; i < nRT; i++ {
		if !mine(i) {
			continue
		}
		h.rtPollReq(root.SplitN("rt-pollreq", i), fmt.Sprintf("rt/pollreq/%d", i))
		h.rtPollResp(root.SplitN("rt-pollresp", i), fmt.Sprintf("rt/pollresp/%d", i))
		h.rtAnsReq(root.SplitN("rt-ansreq", i), fmt.Sprintf("rt/ansreq/%d", i))
		h.rtCliReq(root.SplitN("rt-clireq", i), fmt.Sprintf("rt/clireq/%d", i))
		h.rtCliResp(root.SplitN("rt-cliresp", i), fmt.Sprintf("rt/cliresp/%d", i))
	}
	h.rtAnsResp(true, "rt/ansresp/true")
	h.rtAnsResp(false, "rt/ansresp/false")

	lap("law1-roundtrip")
	// law 2
	nHand := vlib.Scale(100, 2400)
	for i := 0; i < nHand; i++ {
		if !mine(i) {
			continue
		}
		// the first bases get every mutation of every list, the others every
		// third one with a rotating offset
		h.thin = 0
		if i >= 12 {
			h.thin = 1 + i%3
		}
		h.handPollReq(root.SplitN("hand-pollreq", i), fmt.Sprintf("hand/pollreq/%d", i))
		h.handPollResp(root.SplitN("hand-pollresp", i), fmt.Sprintf("hand/pollresp/%d", i))
		h.handAnsReq(root.SplitN("hand-ansreq", i), fmt.Sprintf("hand/ansreq/%d", i))
		h.handCliReq(root.SplitN("hand-clireq", i), fmt.Sprintf("hand/clireq/%d", i))
		h.handCliResp(root.SplitN("hand-cliresp", i), fmt.Sprintf("hand/cliresp/%d", i))
		if i < 20 {
			h.handAnsResp(root.SplitN("hand-ansresp", i), fmt.Sprintf("hand/ansresp/%d", i))
		}
	}

	lap("law2-handwritten")
	// law 3
	h.totality(root)
	lap("law3-totality")

	// samples for the evidence file
	{
		r := root.Split("samples")
		for _, s := range validSamples(r) {
			res.Sample(9, clipS(string(s)))
		}
		res.Sample(12, clipS(string(genHandPollReq(r).bytes())))
		res.Sample(12, clipS(string(genHandCliReq(r).bytes())))
	}

	nRT, nHand = count(nRT), count(nHand)
	for _, name := range []string{nPollReq, nPollResp, nAnsReq, nCliReq, nCliResp} {
		res.RequireObs("roundtrip:"+name, int64(nRT/4))
		res.RequireObs("handwritten_valid:"+name, int64(nHand))
		res.RequireObs("accepted:"+name+":encoded", 1)
		res.RequireObs("accepted:"+name+":handwritten", 1)
	}
	res.RequireObs("roundtrip:"+nAnsResp, 2)
	res.RequireObs("roundtrip:"+nPollResp+":match", int64(nRT/4))
	res.RequireObs("roundtrip:"+nPollResp+":no-match", int64(nRT/20))
	for _, k := range []string{
		"default_nat_unknown_applied", "default_fingerprint_applied", "default_type_unknown_applied", "default_relay_pattern_absent_reported_unsupported",
		"fingerprint_32_bytes_roundtrip", "strings_with_nul", "strings_with_astral", "strings_with_quote_or_backslash", "strings_64k", "int_extremes",
		"rejected:" + nPollReq + ":version", "rejected:" + nPollReq + ":missing-sid", "rejected:" + nPollReq + ":nat-outside-names",
		"rejected:" + nPollResp + ":missing-offer",
		"rejected:" + nAnsReq + ":version", "rejected:" + nAnsReq + ":missing-sid", "rejected:" + nAnsReq + ":missing-answer",
		"rejected:" + nCliReq + ":version", "rejected:" + nCliReq + ":missing-offer", "rejected:" + nCliReq + ":nat-outside-names",
		"rejected:" + nCliReq + ":fingerprint-length", "rejected:" + nCliReq + ":fingerprint-non-hex",
		"rejected:" + nCliResp + ":neither-answer-nor-error",
		"totality_arbitrary_inputs", "totality_top_level_kinds", "totality_deep_nesting", "totality_huge_numbers", "totality_mutated_messages", "totality_truncations",
	} {
		res.RequireObs(k, 1)
	}
	res.RequireObs("literal_witnesses", 15)
	res.RequireObs("reject_law_cross_cases", int64(nHand*350)) // ~410 per base once the rotating thinning applies (bases >= 12)
	res.RequireObs("reject_law_shapes", int64(nHand*80))
	res.RequireObs("default_nat_unknown_applied:no-match-response", int64(nHand))
	if strictPollResponseNAT {
		for _, suffix := range []string{"", ":no-match", ":other-status", ":no-status"} {
			// the last two are vacuous for the current decoder (an error value
			// whatever the NAT is) and are only required to have been exercised
			res.RequireObs("rejected:"+nPollResp+":nat-outside-names"+suffix, int64(nHand))
		}
	}
	res.RequireObs("reject_law_cases", int64(nHand*150)) // ~170 per thinned base
	for _, name := range []string{nPollReq, nPollResp, nAnsReq, nAnsResp, nCliReq, nCliResp} {
		res.RequireObs("totality_value:"+name, 1)
		res.RequireObs("totality_error:"+name, 1)
	}
}
