// C12 — hand-written JSON messages: absent / null / empty / wrong-typed
// fields, documented defaults, and the reject law (exactly one forbidden
// feature on an otherwise valid message).
package c12

import (
	"fmt"

	"verif/vlib"
)

type mut struct {
	name       string
	mustReject bool
	apply      func(m *hand)
}

func setField(name string, f field) func(m *hand) {
	return func(m *hand) {
		f.name = name
		*m.get(name) = f
	}
}

// versionMuts: forbidden and free spellings of a JSON "Version" member.
func versionMuts(fname string) []mut {
	ms := []mut{
		{"version:absent", true, setField(fname, field_(fAbsent))},
		{"version:null", true, setField(fname, field_(fNull))},
	}
	for _, v := range forbiddenVersions() {
		ms = append(ms, mut{"version:" + v, true, setField(fname, fs(fname, v))})
	}
	for _, raw := range []string{`2`, `2.0`, `0`, `10`, `0.1`, `11.3`, `-1`} {
		ms = append(ms, mut{"version:number:" + raw, true, setField(fname, fieldRawForbid(raw, "version"))})
	}
	for _, v := range freeVersions {
		ms = append(ms, mut{"version-free:" + v, false, setField(fname, fs(fname, v))})
	}
	for _, raw := range []string{`1`, `1.3`, `1.0`} {
		ms = append(ms, mut{"version-free:number:" + raw, false, setField(fname, field{k: fRaw, raw: raw})})
	}
	return ms
}

func field_(k int) field { return field{k: k} }
func fieldRawForbid(raw, feat string) field {
	return field{k: fRaw, raw: raw, forbid: feat}
}

func missingMuts(fieldName string) []mut {
	return []mut{
		{fieldName + ":absent", true, setField(fieldName, field_(fAbsent))},
		{fieldName + ":null", true, setField(fieldName, field_(fNull))},
		{fieldName + ":empty", true, setField(fieldName, fs(fieldName, ""))},
	}
}

func natMuts(r *vlib.Rand, fieldName string, must bool) []mut {
	var ms []mut
	list := append([]string(nil), badNATs...)
	for i := 0; i < 3; i++ {
		list = append(list, genBadNAT(r))
	}
	for _, s := range list {
		ms = append(ms, mut{"nat:" + s, must, setField(fieldName, fs(fieldName, s))})
	}
	return ms
}

func wrongTypeMuts(fields ...string) []mut {
	var ms []mut
	for _, f := range fields {
		for _, raw := range wrongTyped {
			if raw == "null" {
				ms = append(ms, mut{"null:" + f, false, setField(f, field_(fNull))})
				continue
			}
			if raw[0] == '"' && f != "Clients" {
				// a string is the right type here: an ordinary value
				ms = append(ms, mut{"string:" + f + ":" + raw, false, setField(f, fs(f, raw[1:len(raw)-1]))})
				continue
			}
			ms = append(ms, mut{"wrongtype:" + f + ":" + raw, false, setField(f, field{k: fRaw, raw: raw})})
		}
	}
	return ms
}

// runMuts applies every mutation to a clone of base and checks it. A mutation
// flagged mustReject whose reference verdict is not "reject" is a harness bug.
func (h *H) runMuts(base *hand, ms []mut, id string, check func(m *hand, id, note string) int) {
	for i, mu := range ms {
		if h.thin > 0 && (i+h.thin)%3 != 0 {
			continue
		}
		m := base.clone()
		mu.apply(m)
		v := check(m, fmt.Sprintf("%s/mut%d", id, i), mu.name)
		if mu.mustReject {
			if v != wantReject {
				h.res.Require(false, "harness: mutation "+mu.name+" not classified as forbidden by the reference")
			}
			h.res.Obs("reject_law_cases", 1)
		} else {
			h.res.Obs("free_mutation_cases", 1)
		}
	}
}

// runCross: every shape (a variant of base that carries no forbidden feature)
// followed by every representative forbidden feature applied to that shape, so
// that each feature is exercised in every branch of its decoder.
func (h *H) runCross(base *hand, shapes, reps []mut, id string, check func(m *hand, id, note string) int) {
	for si, sh := range shapes {
		s := base.clone()
		sh.apply(s)
		if check(s, fmt.Sprintf("%s/shape%d", id, si), "shape "+sh.name) == wantReject {
			h.res.Require(false, "harness: shape "+sh.name+" carries a forbidden feature")
			continue
		}
		h.res.Obs("reject_law_shapes", 1)
		for ri, rp := range reps {
			if h.thin > 0 && (si+ri+h.thin)%3 != 0 {
				continue
			}
			m := s.clone()
			rp.apply(m)
			v := check(m, fmt.Sprintf("%s/shape%d/rep%d", id, si, ri), "shape "+sh.name+" + "+rp.name)
			if rp.mustReject {
				if v != wantReject {
					h.res.Require(false, "harness: "+rp.name+" on shape "+sh.name+" not classified as forbidden by the reference")
				}
				h.res.Obs("reject_law_cross_cases", 1)
			}
		}
	}
}

func verdict(feats []string, free bool) (int, string) {
	switch {
	case len(feats) == 1:
		return wantReject, feats[0]
	case len(feats) > 1:
		return wantReject, "multiple"
	case free:
		return wantFree, ""
	}
	return wantAccept, ""
}

// refVersionField judges a JSON Version member.
func refVersionField(f *field, feats *[]string, free *bool) {
	switch f.k {
	case fAbsent, fNull:
		*feats = append(*feats, "version")
	case fStr:
		switch verClass(f.s, docVersions) {
		case vForbidden:
			*feats = append(*feats, "version")
		case vFree:
			*free = true
		}
	default:
		if f.forbid != "" {
			*feats = append(*feats, f.forbid)
		} else {
			*free = true
		}
	}
}

// refRequired judges a mandatory string member (session id, offer, answer).
func refRequired(f *field, feat string, feats *[]string, free *bool) {
	switch {
	case f.missing():
		*feats = append(*feats, feat)
	case f.k != fStr:
		*free = true
	}
}

// refOptNAT judges an optional NAT member and returns the expected value.
func refOptNAT(f *field, feats *[]string, free *bool) string {
	switch f.k {
	case fAbsent:
		return natDefault
	case fNull:
		*free = true // null for an optional member: treated as absent or refused, both fine
		return natDefault
	case fStr:
		want, bad := refNAT(f.s)
		if bad {
			*feats = append(*feats, "nat-outside-names")
		}
		return want
	}
	*free = true
	return natDefault
}

// ---- proxy poll request ---------------------------------------------------------

func genHandPollReq(r *vlib.Rand) *hand {
	m := &hand{}
	m.f = append(m.f, fs("Sid", genNonEmpty(r, 1500)))
	m.f = append(m.f, fs("Version", docVersions[r.Intn(len(docVersions))]))
	if r.Chance(1, 5) {
		m.f = append(m.f, fabs("Type"))
	} else {
		m.f = append(m.f, fs("Type", genType(r)))
	}
	if r.Chance(1, 4) {
		m.f = append(m.f, fabs("NAT"))
	} else {
		m.f = append(m.f, fs("NAT", genNATvalid(r)))
	}
	if r.Chance(1, 5) {
		m.f = append(m.f, fabs("Clients"))
	} else {
		n, _ := genInt(r)
		m.f = append(m.f, fnum("Clients", n))
	}
	if r.Chance(2, 5) {
		m.f = append(m.f, fabs("AcceptedRelayPattern"))
	} else {
		m.f = append(m.f, fs("AcceptedRelayPattern", genStr(r, 1500)))
	}
	m.shuffle(r)
	m.style(r)
	return m
}

func refHandPollReq(m *hand) (int, string, pollReqExp) {
	var feats []string
	free := false
	var e pollReqExp
	refVersionField(m.get("Version"), &feats, &free)
	sid := m.get("Sid")
	refRequired(sid, "missing-sid", &feats, &free)
	e.sid = sid.str()
	e.nat = refOptNAT(m.get("NAT"), &feats, &free)
	t := m.get("Type")
	if t.k == fNull || t.k == fRaw {
		free = true
	}
	e.typeIn = t.str()
	c := m.get("Clients")
	switch c.k {
	case fAbsent:
	case fNum:
		e.clients, e.clientsKnown = c.n, true
	default:
		free = true
	}
	p := m.get("AcceptedRelayPattern")
	switch p.k {
	case fAbsent:
		e.aware, e.awareKnown = false, true
	case fStr:
		e.pattern, e.aware, e.awareKnown = p.s, true, true
	default:
		free = true
	}
	w, f := verdict(feats, free)
	return w, f, e
}

func (h *H) checkHandPollReq(m *hand, id, note string) int {
	data := m.bytes()
	rc := mkrec(id, nPollReq, data, note)
	want, feat, e := refHandPollReq(m)
	if o, ok := h.decPollReq("handwritten", rc, data); ok {
		h.postPollReq(o, rc)
		h.judgePollReq(o, want, feat, e, rc, "handwritten", false)
	}
	if o, ok := h.decPollReqLegacy("handwritten", rc, data); ok {
		h.postPollReq(o, rc)
		lw := want
		if want == wantAccept && e.pattern != "" {
			lw = wantFree
		}
		h.judgePollReq(o, lw, feat, e, rc, "handwritten", true)
	}
	h.distinctHand(nPollReq, want, feat, data)
	return want
}

func (h *H) distinctHand(name string, want int, feat string, data []byte) {
	if want == wantReject && feat != "multiple" {
		h.res.Distinct(name + "!" + feat + hashKey(data))
	} else if want == wantAccept {
		h.res.Distinct(name + hashKey(data))
		h.res.Obs("handwritten_valid:"+name, 1)
	}
}

func (h *H) handPollReq(r *vlib.Rand, id string) {
	base := genHandPollReq(r)
	if h.checkHandPollReq(base, id, "base") != wantAccept {
		h.res.Require(false, "harness: hand-written proxy poll request base not valid")
		return
	}
	ms := versionMuts("Version")
	ms = append(ms, missingMuts("Sid")...)
	ms = append(ms, natMuts(r, "NAT", true)...)
	ms = append(ms, wrongTypeMuts("Sid", "Version", "Type", "NAT", "Clients", "AcceptedRelayPattern")...)
	for _, raw := range []string{"0", "-0", "8", "9223372036854775807", "-9223372036854775808"} {
		ms = append(ms, mut{"clients:" + raw, false, setField("Clients", field{k: fRaw, raw: raw})})
	}
	h.runMuts(base, ms, id, h.checkHandPollReq)

	// sid and NAT checks in every shape of the message: with and without the
	// relay pattern member, every accepted version spelling, type and clients
	var shapes []mut
	for _, v := range append(append([]string(nil), docVersions...), freeVersions...) {
		shapes = append(shapes, mut{"version:" + v, false, setField("Version", fs("Version", v))})
	}
	shapes = append(shapes,
		mut{"pattern:absent", false, setField("AcceptedRelayPattern", field_(fAbsent))},
		mut{"pattern:empty", false, setField("AcceptedRelayPattern", fs("AcceptedRelayPattern", ""))},
		mut{"pattern:present", false, setField("AcceptedRelayPattern", fs("AcceptedRelayPattern", "snowflake.torproject.net$"))},
		mut{"pattern:null", false, setField("AcceptedRelayPattern", field_(fNull))},
		mut{"type:absent", false, setField("Type", field_(fAbsent))},
		mut{"type:known", false, setField("Type", fs("Type", "standalone"))},
		mut{"type:unrecognised", false, setField("Type", fs("Type", "zzz"))},
		mut{"clients:absent", false, setField("Clients", field_(fAbsent))},
		mut{"clients:max", false, setField("Clients", fnum("Clients", 1<<63-1))},
		mut{"nat:absent", false, setField("NAT", field_(fAbsent))},
	)
	reps := missingMuts("Sid")
	for _, v := range []string{"Unknown", "symmetric", " restricted", "нет", longBadNAT} {
		reps = append(reps, mut{"nat:" + clipS(v), true, setField("NAT", fs("NAT", v))})
	}
	h.runCross(base, shapes, reps, id, h.checkHandPollReq)
}

// ---- proxy poll response ----------------------------------------------------------

func genHandPollResp(r *vlib.Rand) *hand {
	m := &hand{}
	if r.Chance(3, 4) {
		m.f = append(m.f, fs("Status", "client match"), fs("Offer", genNonEmpty(r, 1500)))
		if r.Chance(1, 3) {
			m.f = append(m.f, fabs("NAT"))
		} else {
			m.f = append(m.f, fs("NAT", genNATvalid(r)))
		}
		if r.Chance(1, 3) {
			m.f = append(m.f, fabs("RelayURL"))
		} else {
			m.f = append(m.f, fs("RelayURL", genStr(r, 1500)))
		}
	} else {
		m.f = append(m.f, fs("Status", "no match"), fabs("Offer"), fabs("NAT"), fabs("RelayURL"))
	}
	m.shuffle(r)
	m.style(r)
	return m
}

// pollRespStatusClass: the decoder has one branch per status class, and the
// property's "NAT type outside the three names" is not limited to any of them.
func pollRespStatusClass(st *field) string {
	switch {
	case st.k == fRaw:
		return "wrong-type"
	case st.missing():
		return "no-status"
	case st.s == "client match":
		return "match"
	case st.s == "no match":
		return "no-match"
	}
	return "other-status"
}

// natFeatSuffix keeps the match case's signature as it was and names the
// other status classes (for "other-status" and "no-status" the decoder reports
// an error value whatever the NAT is: those cases are vacuous and are counted
// under their own observation keys).
var natFeatSuffix = map[string]string{"match": "", "no-match": ":no-match", "other-status": ":other-status", "no-status": ":no-status", "wrong-type": ":no-status"}

type pollRespRef struct {
	want       int
	feat       string
	e          pollRespOut
	compare    bool // the returned values are specified
	natLenient bool // "no match" with a valid NAT: that NAT or the default
}

func refHandPollResp(m *hand) pollRespRef {
	var feats []string
	free := false
	var x pollRespRef
	st := m.get("Status")
	off := m.get("Offer")
	nat := m.get("NAT")
	rel := m.get("RelayURL")
	cls := pollRespStatusClass(st)
	if rel.k == fNull || rel.k == fRaw || off.k == fRaw || cls == "wrong-type" {
		free = true
	}
	var nf []string
	natWant := refOptNAT(nat, &nf, &free)
	if len(nf) > 0 {
		if strictPollResponseNAT {
			feats = append(feats, "nat-outside-names"+natFeatSuffix[cls])
		} else {
			free, natWant = true, nat.s
		}
	}
	switch cls {
	case "match":
		refRequired(off, "missing-offer", &feats, &free)
		x.e = pollRespOut{offer: off.str(), nat: natWant, relay: rel.str()}
		x.compare = true
	case "no-match":
		x.e = pollRespOut{nat: natWant}
		if off.k == fAbsent && rel.k == fAbsent {
			x.compare = true
			x.natLenient = nat.k == fStr && nat.s != ""
		} else {
			free = true // members the comments do not give a "no match": values not specified
		}
	default:
		free = true // other or missing status: not specified (the decoder answers with an error value)
	}
	x.want, x.feat = verdict(feats, free)
	return x
}

func (h *H) checkHandPollResp(m *hand, id, note string) int {
	data := m.bytes()
	rc := mkrec(id, nPollResp, data, note)
	x := refHandPollResp(m)
	one := func(o pollRespOut, legacy bool) {
		h.postPollResp(o, rc)
		want, e := x.want, x.e
		if legacy && want == wantAccept && e.relay != "" {
			want = wantFree
		}
		if !x.compare && want != wantReject {
			// nothing specified about the values: only the verdict is recorded
			h.judge(nPollResp, wantFree, x.feat, "handwritten", o.err, rc)
			return
		}
		if x.natLenient && o.err == nil && o.nat == natDefault {
			e.nat = natDefault
		}
		h.judgePollResp(o, want, x.feat, e, rc, "handwritten", legacy)
	}
	if o, ok := h.decPollResp("handwritten", rc, data); ok {
		one(o, false)
		if x.want == wantAccept && x.e.nat == natDefault && pollRespStatusClass(m.get("Status")) == "no-match" {
			h.res.Obs("default_nat_unknown_applied:no-match-response", 1)
		}
	}
	if o, ok := h.decPollRespLegacy("handwritten", rc, data); ok {
		one(o, true)
	}
	h.distinctHand(nPollResp, x.want, x.feat, data)
	return x.want
}

func (h *H) handPollResp(r *vlib.Rand, id string) {
	base := genHandPollResp(r)
	if h.checkHandPollResp(base, id, "base") != wantAccept {
		h.res.Require(false, "harness: hand-written proxy poll response base not valid")
		return
	}
	var ms []mut
	if base.get("Status").s == "client match" {
		ms = append(ms, missingMuts("Offer")...)
	}
	ms = append(ms, natMuts(r, "NAT", strictPollResponseNAT)...)
	for _, s := range []string{"", "Client Match", "client match ", "success", "incorrect relay pattern", "no match "} {
		ms = append(ms, mut{"status:" + s, false, setField("Status", fs("Status", s))})
	}
	ms = append(ms, mut{"status:absent", false, setField("Status", field_(fAbsent))})
	ms = append(ms, wrongTypeMuts("Status", "Offer", "NAT", "RelayURL")...)
	h.runMuts(base, ms, id, h.checkHandPollResp)

	// every status class x relay/offer shape x every NAT state
	offer := genNonEmpty(r, 300)
	set := func(status field, off, rel field) func(m *hand) {
		return func(m *hand) {
			setField("Status", status)(m)
			setField("Offer", off)(m)
			setField("RelayURL", rel)(m)
			setField("NAT", field_(fAbsent))(m)
		}
	}
	abs := field_(fAbsent)
	other := genNonEmpty(r, 100)
	if other == "client match" || other == "no match" {
		other = "x" + other
	}
	shapes := []mut{
		{"match", false, set(fs("Status", "client match"), fs("Offer", offer), abs)},
		{"match+relay", false, set(fs("Status", "client match"), fs("Offer", offer), fs("RelayURL", "wss://snowflake.torproject.net/"))},
		{"no-match", false, set(fs("Status", "no match"), abs, abs)},
		{"no-match+relay", false, set(fs("Status", "no match"), abs, fs("RelayURL", "wss://snowflake.torproject.net/"))},
		{"no-match+offer", false, set(fs("Status", "no match"), fs("Offer", offer), abs)},
		{"no-match+empty-members", false, set(fs("Status", "no match"), fs("Offer", ""), fs("RelayURL", ""))},
		{"other-status:incorrect relay pattern", false, set(fs("Status", "incorrect relay pattern"), abs, abs)},
		{"other-status:random", false, set(fs("Status", other), fs("Offer", offer), abs)},
		{"no-status:empty", false, set(fs("Status", ""), fs("Offer", offer), abs)},
		{"no-status:absent", false, set(abs, abs, abs)},
	}
	var reps []mut
	for _, v := range []string{"", "unknown", "restricted", "unrestricted"} {
		reps = append(reps, mut{"nat-valid:" + v, false, setField("NAT", fs("NAT", v))})
	}
	reps = append(reps, natMuts(r, "NAT", strictPollResponseNAT)...)
	reps = append(reps, missingMuts("Offer")[1:]...) // null, empty (absent is a shape already)
	for i := range reps[len(reps)-2:] {
		reps[len(reps)-2+i].mustReject = false // forbidden only under "client match": the reference decides
	}
	h.runCross(base, shapes, reps, id, h.checkHandPollResp)
}

// ---- proxy answer request ----------------------------------------------------------

func genHandAnsReq(r *vlib.Rand) *hand {
	m := &hand{}
	m.f = append(m.f, fs("Version", docVersions[r.Intn(len(docVersions))]), fs("Sid", genNonEmpty(r, 1500)), fs("Answer", genNonEmpty(r, 3000)))
	m.shuffle(r)
	m.style(r)
	return m
}

func (h *H) checkHandAnsReq(m *hand, id, note string) int {
	data := m.bytes()
	rc := mkrec(id, nAnsReq, data, note)
	var feats []string
	free := false
	refVersionField(m.get("Version"), &feats, &free)
	refRequired(m.get("Sid"), "missing-sid", &feats, &free)
	refRequired(m.get("Answer"), "missing-answer", &feats, &free)
	want, feat := verdict(feats, free)
	if o, ok := h.decAnsReq("handwritten", rc, data); ok {
		h.postAnsReq(o, rc)
		h.judgeAnsReq(o, want, feat, ansReqOut{answer: m.get("Answer").str(), sid: m.get("Sid").str()}, rc, "handwritten")
	}
	h.distinctHand(nAnsReq, want, feat, data)
	return want
}

func (h *H) handAnsReq(r *vlib.Rand, id string) {
	base := genHandAnsReq(r)
	if h.checkHandAnsReq(base, id, "base") != wantAccept {
		h.res.Require(false, "harness: hand-written answer request base not valid")
		return
	}
	ms := versionMuts("Version")
	ms = append(ms, missingMuts("Sid")...)
	ms = append(ms, missingMuts("Answer")...)
	ms = append(ms, wrongTypeMuts("Version", "Sid", "Answer")...)
	h.runMuts(base, ms, id, h.checkHandAnsReq)

	// missing sid / answer under every accepted version spelling
	var shapes []mut
	for _, v := range append(append([]string(nil), docVersions...), freeVersions...) {
		shapes = append(shapes, mut{"version:" + v, false, setField("Version", fs("Version", v))})
	}
	h.runCross(base, shapes, append(missingMuts("Sid"), missingMuts("Answer")...), id, h.checkHandAnsReq)
}

// ---- proxy answer response -----------------------------------------------------------

func (h *H) checkHandAnsResp(m *hand, id, note string) int {
	data := m.bytes()
	rc := mkrec(id, nAnsResp, data, note)
	st := m.get("Status")
	want, e := wantFree, false
	if st.k == fStr && st.s == "success" {
		want, e = wantAccept, true
	} else if st.k == fStr && st.s == "client gone" {
		want, e = wantAccept, false
	}
	if o, ok := h.decAnsResp("handwritten", rc, data); ok {
		if want == wantAccept {
			h.judgeAnsResp(o, want, "", e, rc, "handwritten")
		}
	}
	h.distinctHand(nAnsResp, want, "", data)
	return want
}

func (h *H) handAnsResp(r *vlib.Rand, id string) {
	m := &hand{f: []field{fs("Status", []string{"success", "client gone"}[r.Intn(2)])}}
	m.style(r)
	if h.checkHandAnsResp(m, id, "base") != wantAccept {
		h.res.Require(false, "harness: hand-written answer response base not valid")
		return
	}
	var ms []mut
	for _, s := range []string{"", "Success", "success ", "client match", "gone"} {
		ms = append(ms, mut{"status:" + s, false, setField("Status", fs("Status", s))})
	}
	ms = append(ms, mut{"status:absent", false, setField("Status", field_(fAbsent))})
	ms = append(ms, wrongTypeMuts("Status")...)
	h.runMuts(m, ms, id, h.checkHandAnsResp)
}

// ---- client poll request -----------------------------------------------------------------

func genHandCliReq(r *vlib.Rand) *hand {
	v := "1.0"
	m := &hand{verLine: &v}
	m.f = append(m.f, fs("offer", genNonEmpty(r, 3000)))
	if r.Chance(1, 3) {
		m.f = append(m.f, fabs("nat"))
	} else {
		m.f = append(m.f, fs("nat", genNATvalid(r)))
	}
	if r.Chance(1, 3) {
		m.f = append(m.f, fabs("fingerprint"))
	} else {
		m.f = append(m.f, fs("fingerprint", genFPvalid(r)))
	}
	m.shuffle(r)
	m.style(r)
	return m
}

func (h *H) checkHandCliReq(m *hand, id, note string) int {
	data := m.bytes()
	rc := mkrec(id, nCliReq, data, note)
	var feats []string
	free := false
	if m.verLine == nil {
		feats = append(feats, "version") // no version line at all
	} else {
		switch verClass(*m.verLine, clientDocVersions) {
		case vForbidden:
			feats = append(feats, "version")
		case vFree:
			free = true
		}
	}
	var e cliReqExp
	off := m.get("offer")
	refRequired(off, "missing-offer", &feats, &free)
	e.offer = off.str()
	e.nat = refOptNAT(m.get("nat"), &feats, &free)
	fp := m.get("fingerprint")
	switch fp.k {
	case fAbsent:
		e.fp = defaultBridgeFP
	case fNull:
		free = true
		e.fp = defaultBridgeFP
	case fStr:
		var bad bool
		e.fp, bad = refFP(fp.s)
		if bad {
			feat := "fingerprint-non-hex"
			if fp.forbid != "" {
				feat = fp.forbid
			}
			feats = append(feats, feat)
		}
	default:
		free = true
	}
	want, feat := verdict(feats, free)
	if o, ok := h.decCliReq("handwritten", rc, data); ok {
		h.postCliReq(o, rc)
		h.judgeCliReq(o, want, feat, e, rc, "handwritten")
	}
	if want == wantAccept {
		if m.get("nat").missing() {
			h.res.Obs("default_nat_unknown_applied", 1)
		}
		if fp.missing() {
			h.res.Obs("default_fingerprint_applied", 1)
		}
	}
	h.distinctHand(nCliReq, want, feat, data)
	return want
}

func setVerLine(v *string) func(m *hand) {
	return func(m *hand) {
		m.verLine = v
		m.ws = 0 // compact body: no stray newline that could pass for the version separator
	}
}

func (h *H) handCliReq(r *vlib.Rand, id string) {
	base := genHandCliReq(r)
	if h.checkHandCliReq(base, id, "base") != wantAccept {
		h.res.Require(false, "harness: hand-written client poll request base not valid")
		return
	}
	var ms []mut
	ms = append(ms, mut{"version:no-version-line", true, setVerLine(nil)})
	for _, v := range forbiddenVersions() {
		v := v
		ms = append(ms, mut{"version:" + v, true, setVerLine(&v)})
	}
	for _, v := range append([]string{"1.1", "1.3", "1.0\r", "1.0 ", "{"}, freeVersions...) {
		v := v
		ms = append(ms, mut{"version-free:" + v, false, setVerLine(&v)})
	}
	ms = append(ms, missingMuts("offer")...)
	ms = append(ms, natMuts(r, "nat", true)...)
	bad, feats := badFingerprints(r)
	for i := range bad {
		f := fs("fingerprint", bad[i])
		f.forbid = feats[i]
		ms = append(ms, mut{feats[i] + ":" + clipS(bad[i]), true, setField("fingerprint", f)})
	}
	ms = append(ms, wrongTypeMuts("offer", "nat", "fingerprint")...)
	h.runMuts(base, ms, id, h.checkHandCliReq)

	// each forbidden feature under every state of the two optional members
	natStates := []field{field_(fAbsent), field_(fNull), fs("nat", ""), fs("nat", "unknown"), fs("nat", "restricted"), fs("nat", "unrestricted")}
	fpStates := []field{field_(fAbsent), field_(fNull), fs("fingerprint", ""), fs("fingerprint", defaultBridgeFP), fs("fingerprint", hexOf(r, r.Bytes(20), 0)), fs("fingerprint", hexOf(r, r.Bytes(32), 2))}
	var shapes []mut
	for i, ns := range natStates {
		for j, fp := range fpStates {
			ns, fp := ns, fp
			shapes = append(shapes, mut{fmt.Sprintf("nat-state%d/fp-state%d", i, j), false, func(m *hand) {
				setField("nat", ns)(m)
				setField("fingerprint", fp)(m)
			}})
		}
	}
	reps := missingMuts("offer")
	for _, v := range []string{"Unknown", "symmetric", " restricted", "нет", longBadNAT} {
		reps = append(reps, mut{"nat:" + clipS(v), true, setField("nat", fs("nat", v))})
	}
	for _, n := range []int{1, 16, 19, 21, 31, 33, 40} {
		f := fs("fingerprint", hexOf(r, r.Bytes(n), n%3))
		f.forbid = "fingerprint-length"
		reps = append(reps, mut{fmt.Sprintf("fingerprint-length:%d", n), true, setField("fingerprint", f)})
	}
	nonhex := fs("fingerprint", defaultBridgeFP[:39]+"g")
	nonhex.forbid = "fingerprint-non-hex"
	reps = append(reps, mut{"fingerprint-non-hex", true, setField("fingerprint", nonhex)})
	h.runCross(base, shapes, reps, id, h.checkHandCliReq)
}

// ---- client poll response -----------------------------------------------------------------

func (h *H) checkHandCliResp(m *hand, id, note string) int {
	data := m.bytes()
	rc := mkrec(id, nCliResp, data, note)
	a, e := m.get("answer"), m.get("error")
	var feats []string
	free := false
	if a.k == fRaw || e.k == fRaw {
		free = true
	} else if a.missing() && e.missing() {
		feats = append(feats, "neither-answer-nor-error")
	} else if !a.missing() && !e.missing() {
		free = true
	}
	want, feat := verdict(feats, free)
	if o, ok := h.decCliResp("handwritten", rc, data); ok {
		h.postCliResp(o, rc)
		h.judgeCliResp(o, want, feat, a.str(), e.str(), rc, "handwritten")
	}
	h.distinctHand(nCliResp, want, feat, data)
	return want
}

func (h *H) handCliResp(r *vlib.Rand, id string) {
	m := &hand{}
	if r.Bool() {
		m.f = []field{fs("answer", genNonEmpty(r, 3000)), []field{fabs("error"), fs("error", ""), field{name: "error", k: fNull}}[r.Intn(3)]}
	} else {
		m.f = []field{[]field{fabs("answer"), fs("answer", ""), field{name: "answer", k: fNull}}[r.Intn(3)], fs("error", genNonEmpty(r, 1500))}
	}
	m.shuffle(r)
	m.style(r)
	if h.checkHandCliResp(m, id, "base") != wantAccept {
		h.res.Require(false, "harness: hand-written client poll response base not valid")
		return
	}
	var ms []mut
	states := []field{field_(fAbsent), field_(fNull), {k: fStr}}
	names := []string{"absent", "null", "empty"}
	for i, sa := range states {
		for j, se := range states {
			sa, se := sa, se
			ms = append(ms, mut{"neither:" + names[i] + "/" + names[j], true, func(m *hand) {
				setField("answer", sa)(m)
				setField("error", se)(m)
			}})
		}
	}
	ms = append(ms, wrongTypeMuts("answer", "error")...)
	h.runMuts(m, ms, id, h.checkHandCliResp)
}
