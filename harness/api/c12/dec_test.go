// C12 — guarded calls of the eight exported decoders and the judges that
// compare what they return with the reference verdict.
package c12

import (
	"git.torproject.org/pluggable-transports/snowflake.git/v2/common/messages"
	"verif/vlib"
)

type H struct {
	res  *vlib.Result
	mine func(i int) bool // shard filter
	thin int              // 0: every mutation of the lists; k>0: every third one, offset k-1 (the offset rotates over the bases)
}

const (
	wantAccept = iota
	wantReject
	wantFree // either; when accepted the values are still compared
)

// ---- proxy poll request -----------------------------------------------------------

type pollReqOut struct {
	sid, typ, nat string
	clients       int
	pattern       string
	aware         bool
	err           error
}

type pollReqExp struct {
	sid, typeIn, nat string
	clients          int
	clientsKnown     bool
	pattern          string
	aware, awareKnown bool
}

const nPollReq = "proxy-poll-request"

func (h *H) decPollReq(cls string, rc rec, data []byte) (o pollReqOut, ok bool) {
	h.res.Eval(1)
	ok = !h.res.Guard("panic:DecodeProxyPollRequestWithRelayPrefix:"+cls, rc, func() {
		o.sid, o.typ, o.nat, o.clients, o.pattern, o.aware, o.err = messages.DecodeProxyPollRequestWithRelayPrefix(data)
	})
	return
}

func (h *H) decPollReqLegacy(cls string, rc rec, data []byte) (o pollReqOut, ok bool) {
	h.res.Eval(1)
	ok = !h.res.Guard("panic:DecodeProxyPollRequest:"+cls, rc, func() {
		o.sid, o.typ, o.nat, o.clients, o.err = messages.DecodeProxyPollRequest(data)
	})
	return
}

// postPollReq: whatever the input was, an accepted poll must not carry
// anything the protocol forbids.
func (h *H) postPollReq(o pollReqOut, rc rec) {
	if o.err != nil {
		return
	}
	if o.sid == "" {
		h.res.Violatef("accept-forbidden:"+nPollReq+":missing-sid", rc, "accepted with an empty session id")
	}
	if !natNames[o.nat] {
		h.res.Violatef("accept-forbidden:"+nPollReq+":nat-outside-names", rc, "accepted with NAT %q", o.nat)
	}
	if !(typesEveryDoc[o.typ] || typesSomeDoc[o.typ] || o.typ == typeUnknown) {
		h.res.Violatef("default-missing:"+nPollReq+":type-unknown", rc, "unrecognised proxy type returned as %s", clipS(o.typ))
	}
}

func (h *H) judge(name string, want int, feat, origin string, err error, rc rec) (compare bool) {
	switch {
	case want == wantReject:
		if err == nil {
			h.res.Violatef("accept-forbidden:"+name+":"+feat, rc, "%s with forbidden feature %q was accepted", name, feat)
		} else {
			h.res.Obs("rejected:"+name+":"+feat, 1)
		}
		return false
	case want == wantAccept && err != nil:
		h.res.Violatef("reject-valid:"+name+":"+origin, rc, "valid %s (%s) was rejected: %v", name, origin, err)
		return false
	case err != nil:
		h.res.Obs("free_rejected:"+name, 1)
		return false
	}
	if want == wantFree {
		h.res.Obs("free_accepted:"+name, 1)
	} else {
		h.res.Obs("accepted:"+name+":"+origin, 1)
	}
	return true
}

func (h *H) mismatch(name, fieldName string, rc rec, got, want string) {
	h.res.Violatef("roundtrip-mismatch:"+name+":"+fieldName, rc, "%s field %s: got %s, want %s", name, fieldName, clipS(got), clipS(want))
}

func (h *H) judgePollReq(o pollReqOut, want int, feat string, e pollReqExp, rc rec, origin string, legacy bool) {
	if !h.judge(nPollReq, want, feat, origin, o.err, rc) {
		return
	}
	if o.sid != e.sid {
		h.mismatch(nPollReq, "sid", rc, o.sid, e.sid)
	}
	if !refTypeOK(e.typeIn, o.typ) {
		if typesEveryDoc[e.typeIn] {
			h.mismatch(nPollReq, "type", rc, o.typ, e.typeIn)
		} else {
			h.res.Violatef("default-missing:"+nPollReq+":type-unknown", rc, "proxy type %s decoded as %s, want %q", clipS(e.typeIn), clipS(o.typ), typeUnknown)
		}
	} else if o.typ == typeUnknown && e.typeIn != typeUnknown {
		h.res.Obs("default_type_unknown_applied", 1)
	}
	if o.nat != e.nat {
		if e.nat == natDefault {
			h.res.Violatef("default-missing:"+nPollReq+":nat-unknown", rc, "NAT decoded as %s, want %q", clipS(o.nat), e.nat)
		} else {
			h.mismatch(nPollReq, "nat", rc, o.nat, e.nat)
		}
	}
	if e.clientsKnown && o.clients != e.clients {
		h.res.Violatef("roundtrip-mismatch:"+nPollReq+":clients", rc, "clients: got %d, want %d", o.clients, e.clients)
	}
	if legacy {
		return
	}
	if o.pattern != e.pattern {
		h.mismatch(nPollReq, "relay-pattern", rc, o.pattern, e.pattern)
	}
	if e.awareKnown && o.aware != e.aware {
		h.res.Violatef("roundtrip-mismatch:"+nPollReq+":relay-pattern-support", rc, "relay pattern support reported %v, want %v", o.aware, e.aware)
	} else if e.awareKnown && !e.aware {
		h.res.Obs("default_relay_pattern_absent_reported_unsupported", 1)
	}
}

// ---- proxy poll response ------------------------------------------------------------

type pollRespOut struct {
	offer, nat, relay string
	err               error
}

const nPollResp = "proxy-poll-response"

func (h *H) decPollResp(cls string, rc rec, data []byte) (o pollRespOut, ok bool) {
	h.res.Eval(1)
	ok = !h.res.Guard("panic:DecodePollResponseWithRelayURL:"+cls, rc, func() {
		o.offer, o.nat, o.relay, o.err = messages.DecodePollResponseWithRelayURL(data)
	})
	return
}

func (h *H) decPollRespLegacy(cls string, rc rec, data []byte) (o pollRespOut, ok bool) {
	h.res.Eval(1)
	ok = !h.res.Guard("panic:DecodePollResponse:"+cls, rc, func() {
		o.offer, o.nat, o.err = messages.DecodePollResponse(data)
	})
	return
}

func (h *H) postPollResp(o pollRespOut, rc rec) {
	if o.err != nil {
		return
	}
	if !natNames[o.nat] {
		suffix := ""
		if o.offer == "" {
			suffix = ":no-match"
		}
		if strictPollResponseNAT {
			h.res.Violatef("accept-forbidden:"+nPollResp+":nat-outside-names"+suffix, rc, "poll response accepted with NAT %s", clipS(o.nat))
		} else {
			h.res.Obs("observed_poll_response_nat_outside_names_accepted", 1)
		}
	}
}

func (h *H) judgePollResp(o pollRespOut, want int, feat string, e pollRespOut, rc rec, origin string, legacy bool) {
	if !h.judge(nPollResp, want, feat, origin, o.err, rc) {
		return
	}
	if o.offer != e.offer {
		h.mismatch(nPollResp, "offer", rc, o.offer, e.offer)
	}
	if o.nat != e.nat {
		if e.nat == natDefault {
			h.res.Violatef("default-missing:"+nPollResp+":nat-unknown", rc, "NAT decoded as %s, want %q", clipS(o.nat), e.nat)
		} else {
			h.mismatch(nPollResp, "nat", rc, o.nat, e.nat)
		}
	} else if e.nat == natDefault {
		h.res.Obs("nat_unknown_seen:"+nPollResp, 1)
	}
	if !legacy && o.relay != e.relay {
		h.mismatch(nPollResp, "relay-url", rc, o.relay, e.relay)
	}
}

// ---- proxy answer request -----------------------------------------------------------

type ansReqOut struct {
	answer, sid string
	err         error
}

const nAnsReq = "proxy-answer-request"

func (h *H) decAnsReq(cls string, rc rec, data []byte) (o ansReqOut, ok bool) {
	h.res.Eval(1)
	ok = !h.res.Guard("panic:DecodeAnswerRequest:"+cls, rc, func() {
		o.answer, o.sid, o.err = messages.DecodeAnswerRequest(data)
	})
	return
}

func (h *H) postAnsReq(o ansReqOut, rc rec) {
	if o.err != nil {
		return
	}
	if o.sid == "" {
		h.res.Violatef("accept-forbidden:"+nAnsReq+":missing-sid", rc, "accepted with an empty session id")
	}
	if o.answer == "" {
		h.res.Violatef("accept-forbidden:"+nAnsReq+":missing-answer", rc, "accepted with an empty answer")
	}
}

func (h *H) judgeAnsReq(o ansReqOut, want int, feat string, e ansReqOut, rc rec, origin string) {
	if !h.judge(nAnsReq, want, feat, origin, o.err, rc) {
		return
	}
	if o.sid != e.sid {
		h.mismatch(nAnsReq, "sid", rc, o.sid, e.sid)
	}
	if o.answer != e.answer {
		h.mismatch(nAnsReq, "answer", rc, o.answer, e.answer)
	}
}

// ---- proxy answer response ------------------------------------------------------------

type ansRespOut struct {
	success bool
	err     error
}

const nAnsResp = "proxy-answer-response"

func (h *H) decAnsResp(cls string, rc rec, data []byte) (o ansRespOut, ok bool) {
	h.res.Eval(1)
	ok = !h.res.Guard("panic:DecodeAnswerResponse:"+cls, rc, func() {
		o.success, o.err = messages.DecodeAnswerResponse(data)
	})
	return
}

func (h *H) judgeAnsResp(o ansRespOut, want int, feat string, e bool, rc rec, origin string) {
	if !h.judge(nAnsResp, want, feat, origin, o.err, rc) {
		return
	}
	if o.success != e {
		h.res.Violatef("roundtrip-mismatch:"+nAnsResp+":success", rc, "success: got %v, want %v", o.success, e)
	}
}

// ---- client poll request ----------------------------------------------------------------

type cliReqOut struct {
	req *messages.ClientPollRequest
	err error
}

const nCliReq = "client-poll-request"

func (h *H) decCliReq(cls string, rc rec, data []byte) (o cliReqOut, ok bool) {
	h.res.Eval(1)
	ok = !h.res.Guard("panic:DecodeClientPollRequest:"+cls, rc, func() {
		o.req, o.err = messages.DecodeClientPollRequest(data)
	})
	if ok && o.err == nil && o.req == nil {
		h.res.Violatef("nil-value-without-error:"+nCliReq, rc, "DecodeClientPollRequest returned (nil, nil)")
		ok = false
	}
	return
}

func (h *H) postCliReq(o cliReqOut, rc rec) {
	if o.err != nil {
		return
	}
	if o.req.Offer == "" {
		h.res.Violatef("accept-forbidden:"+nCliReq+":missing-offer", rc, "accepted with an empty offer")
	}
	if !natNames[o.req.NAT] {
		h.res.Violatef("accept-forbidden:"+nCliReq+":nat-outside-names", rc, "accepted with NAT %s", clipS(o.req.NAT))
	}
	if _, bad := refFP(o.req.Fingerprint); bad || o.req.Fingerprint == "" {
		h.res.Violatef("accept-forbidden:"+nCliReq+":fingerprint", rc, "accepted with fingerprint %s", clipS(o.req.Fingerprint))
	}
}

type cliReqExp struct{ offer, nat, fp string }

func (h *H) judgeCliReq(o cliReqOut, want int, feat string, e cliReqExp, rc rec, origin string) {
	if !h.judge(nCliReq, want, feat, origin, o.err, rc) {
		return
	}
	if o.req.Offer != e.offer {
		h.mismatch(nCliReq, "offer", rc, o.req.Offer, e.offer)
	}
	if o.req.NAT != e.nat {
		if e.nat == natDefault {
			h.res.Violatef("default-missing:"+nCliReq+":nat-unknown", rc, "NAT decoded as %s, want %q", clipS(o.req.NAT), e.nat)
		} else {
			h.mismatch(nCliReq, "nat", rc, o.req.NAT, e.nat)
		}
	}
	if o.req.Fingerprint != e.fp {
		if e.fp == defaultBridgeFP {
			h.res.Violatef("default-missing:"+nCliReq+":fingerprint-default-bridge", rc, "fingerprint decoded as %s, want the default bridge %s", clipS(o.req.Fingerprint), e.fp)
		} else {
			h.mismatch(nCliReq, "fingerprint", rc, o.req.Fingerprint, e.fp)
		}
	}
}

// ---- client poll response -----------------------------------------------------------------

type cliRespOut struct {
	resp *messages.ClientPollResponse
	err  error
}

const nCliResp = "client-poll-response"

func (h *H) decCliResp(cls string, rc rec, data []byte) (o cliRespOut, ok bool) {
	h.res.Eval(1)
	ok = !h.res.Guard("panic:DecodeClientPollResponse:"+cls, rc, func() {
		o.resp, o.err = messages.DecodeClientPollResponse(data)
	})
	if ok && o.err == nil && o.resp == nil {
		h.res.Violatef("nil-value-without-error:"+nCliResp, rc, "DecodeClientPollResponse returned (nil, nil)")
		ok = false
	}
	return
}

func (h *H) postCliResp(o cliRespOut, rc rec) {
	if o.err != nil {
		return
	}
	if o.resp.Answer == "" && o.resp.Error == "" {
		h.res.Violatef("accept-forbidden:"+nCliResp+":neither-answer-nor-error", rc, "accepted a response with neither answer nor error")
	}
}

func (h *H) judgeCliResp(o cliRespOut, want int, feat string, eAnswer, eError string, rc rec, origin string) {
	if !h.judge(nCliResp, want, feat, origin, o.err, rc) {
		return
	}
	if o.resp.Answer != eAnswer {
		h.mismatch(nCliResp, "answer", rc, o.resp.Answer, eAnswer)
	}
	if o.resp.Error != eError {
		h.mismatch(nCliResp, "error", rc, o.resp.Error, eError)
	}
}

// ---- all decoders on one input (totality) -------------------------------------------------

// allDecoders offers data to every decoder; only panics and the universal
// post-conditions on accepted values are checked.
func (h *H) allDecoders(cls, id string, data []byte, note string) {
	rc := mkrec(id, "any", data, note)
	if o, ok := h.decPollReq(cls, rc, data); ok {
		h.postPollReq(o, rc)
		h.tally(nPollReq, o.err)
	}
	if o, ok := h.decPollReqLegacy(cls, rc, data); ok {
		h.postPollReq(o, rc)
	}
	if o, ok := h.decPollResp(cls, rc, data); ok {
		h.postPollResp(o, rc)
		h.tally(nPollResp, o.err)
	}
	if o, ok := h.decPollRespLegacy(cls, rc, data); ok {
		h.postPollResp(o, rc)
	}
	if o, ok := h.decAnsReq(cls, rc, data); ok {
		h.postAnsReq(o, rc)
		h.tally(nAnsReq, o.err)
	}
	if o, ok := h.decAnsResp(cls, rc, data); ok {
		h.tally(nAnsResp, o.err)
	}
	if o, ok := h.decCliResp(cls, rc, data); ok {
		h.postCliResp(o, rc)
		h.tally(nCliResp, o.err)
	}
	if o, ok := h.decCliReq(cls, rc, data); ok {
		h.postCliReq(o, rc)
	}
	// the client poll request needs its version line to get to the JSON at all
	withVer := append([]byte("1.0\n"), data...)
	if o, ok := h.decCliReq(cls, mkrec(id, "any, after a 1.0 version line", withVer, note), withVer); ok {
		h.postCliReq(o, rc)
		h.tally(nCliReq, o.err)
	}
}

func (h *H) tally(name string, err error) {
	if err == nil {
		h.res.Obs("totality_value:"+name, 1)
	} else {
		h.res.Obs("totality_error:"+name, 1)
	}
}
