// C12 — reference tables and generators.
//
// Everything in this file is transcribed from the protocol comments in
// common/messages/proxy.go, common/messages/client.go and doc/broker-spec.txt,
// never obtained by calling the code under test.
package c12

import (
	"fmt"
	"hash/fnv"
	"math"
	"strings"
	"unicode/utf8"

	"verif/vlib"
)

// strictPollResponseNAT: the proxy poll response documents
// `NAT: ["unknown"|"restricted"|"unrestricted"]`; the property lists "a NAT
// type outside the three names" among the things decoders must reject. With
// true, a "client match" response carrying another NAT string must be an
// error. Set to false to turn that single clause into an observation.
const strictPollResponseNAT = true

// ---- tables -----------------------------------------------------------------

// proxy.go / client.go: NAT: ["unknown"|"restricted"|"unrestricted"]
var natNames = map[string]bool{"unknown": true, "restricted": true, "unrestricted": true}

// client.go: "if it is missing a value of "unknown" will be assumed"
const natDefault = "unknown"

// client.go, comment of defaultBridgeFingerprint ("the fingerprint of the
// default bridge")
const defaultBridgeFP = "2B280B23E1107BB62ABFC40DDCC8824814F80A72"

// proxy types named by every document (proxy.go spec comment, broker-spec.txt,
// KnownProxyTypes) ...
var typesEveryDoc = map[string]bool{"badge": true, "webext": true, "standalone": true}

// ... and by only one of them ("mobile": broker-spec.txt, "iptproxy":
// KnownProxyTypes). For these both the name itself and "unknown" are accepted.
var typesSomeDoc = map[string]bool{"mobile": true, "iptproxy": true}

const typeUnknown = "unknown"

// protocol versions that existed (1.0 no Type/NAT, 1.1 Type, 1.2 NAT, 1.3
// Clients/AcceptedRelayPattern); the pinned tests use 1.0–1.3 literally.
var docVersions = []string{"1.0", "1.1", "1.2", "1.3"}

// the client protocol: "<version> := <digit>.<digit>", ClientVersion = "1.0"
var clientDocVersions = []string{"1.0"}

func refNAT(s string) (want string, forbidden bool) {
	if s == "" {
		return natDefault, false
	}
	if natNames[s] {
		return s, false
	}
	return "", true
}

func refTypeOK(in, got string) bool {
	switch {
	case typesEveryDoc[in]:
		return got == in
	case typesSomeDoc[in]:
		return got == in || got == typeUnknown
	}
	return got == typeUnknown
}

func isHex(c byte) bool {
	return ('0' <= c && c <= '9') || ('a' <= c && c <= 'f') || ('A' <= c && c <= 'F')
}

// refFP: "" means the default bridge; otherwise 20 or 32 hex-encoded bytes.
func refFP(s string) (want string, forbidden bool) {
	if s == "" {
		return defaultBridgeFP, false
	}
	if len(s)%2 != 0 {
		return "", true
	}
	for i := 0; i < len(s); i++ {
		if !isHex(s[i]) {
			return "", true
		}
	}
	if n := len(s) / 2; n != 20 && n != 32 {
		return "", true
	}
	return s, false
}

const (
	vOK = iota
	vFree
	vForbidden
)

// verClass classifies a version string. Forbidden (must be rejected) is only
// the unambiguous class: the text before the first "." is empty, or is an
// optionally negated run of ASCII digits whose value is not 1. Everything else
// that is not one of the documented versions is "free" (major 1 in another
// spelling, or a malformed string a lenient parser could read as 1).
func verClass(s string, ok []string) int {
	for _, v := range ok {
		if s == v {
			return vOK
		}
	}
	major := s
	if i := strings.IndexByte(s, '.'); i >= 0 {
		major = s[:i]
	}
	if major == "" {
		return vForbidden
	}
	t := major
	neg := false
	if t[0] == '-' {
		neg = true
		t = t[1:]
	}
	if t == "" {
		return vFree
	}
	for i := 0; i < len(t); i++ {
		if t[i] < '0' || t[i] > '9' {
			return vFree
		}
	}
	z := strings.TrimLeft(t, "0")
	if z == "1" && !neg {
		return vFree // "1", "01", … : major one
	}
	return vForbidden
}

func forbiddenVersions() []string {
	majors := []string{"", "0", "2", "3", "9", "10", "11", "12", "21", "100", "00", "02", "4294967297", "18446744073709551617", "-1", "-0"}
	sufs := []string{"", ".", ".0", ".1", ".3", ".1.3"}
	var out []string
	for _, m := range majors {
		for _, s := range sufs {
			out = append(out, m+s)
		}
	}
	// spellings a numeric parser would read as a value in [1,2) although the
	// major component - the text before the first dot - is not "1"
	out = append(out, "0.1e1", "0.15e1", ".1e1", "0.0125E+2", "0.1E1", "00.1e1", "0.1e+1", "2.5e-1")
	return out
}

var freeVersions = []string{"1", "1.", "1.4", "1.10", "1.x", "1.3.1", "1.3 ", "01.3", "+1.3", " 1.3", "1 .3", "1,3", "v1.3", "1x.3", "１.3", "1e0", "0x1.3", "I.3", "1\x00.3"}

var badNATs = []string{"Unknown", "UNKNOWN", "Restricted", "Unrestricted", "unknown ", " unknown", "unknown\x00", "\x00", "unrestricte", "unrestricted1", "restricted,unrestricted", "un", "symmetric", "none", "true", "0", "null", "нет", "unknоwn", "\"unknown\"", "unknown\n"}

// long and non-ASCII: a NAT value nobody could mistake for one of the names
var longBadNAT = strings.Repeat("unknown,нет;", 60)

const hexLower = "0123456789abcdef"
const hexUpper = "0123456789ABCDEF"

func hexOf(r *vlib.Rand, b []byte, mode int) string {
	var sb strings.Builder
	for _, c := range b {
		for _, nib := range []byte{c >> 4, c & 15} {
			switch mode {
			case 0:
				sb.WriteByte(hexLower[nib])
			case 1:
				sb.WriteByte(hexUpper[nib])
			default:
				if r.Bool() {
					sb.WriteByte(hexLower[nib])
				} else {
					sb.WriteByte(hexUpper[nib])
				}
			}
		}
	}
	return sb.String()
}

// badFingerprints: every byte length 1..70 except 20 and 32 (hex-encoded), and
// non-hex strings of the right length. "" is not in the list: it means "absent".
func badFingerprints(r *vlib.Rand) (out []string, feat []string) {
	for n := 1; n <= 70; n++ {
		if n == 20 || n == 32 {
			continue
		}
		out = append(out, hexOf(r, r.Bytes(n), n%3))
		feat = append(feat, "fingerprint-length")
	}
	good := hexOf(r, r.Bytes(20), 1)
	good32 := hexOf(r, r.Bytes(32), 0)
	for _, bad := range []string{"g", "G", " ", "-", ":", "\x00", "０", "x", "/", "+"} {
		p := r.Intn(40)
		out = append(out, good[:p]+bad+good[p+1:])
		feat = append(feat, "fingerprint-non-hex")
		p = r.Intn(64)
		out = append(out, good32[:p]+bad+good32[p+1:])
		feat = append(feat, "fingerprint-non-hex")
	}
	colon := ""
	for i := 0; i < 40; i += 2 {
		if i > 0 {
			colon += ":"
		}
		colon += good[i : i+2]
	}
	for _, s := range []string{good[:39], good + "0", good32[:63], good32 + "a", "0x" + good, "0x" + good[:38], good + "\n", " " + good, good + " ", colon, "$" + good, string(r.Bytes(20)), string(r.Bytes(32)), "default", "null"} {
		out = append(out, s)
		feat = append(feat, "fingerprint-non-hex")
	}
	return
}

// ---- strings ----------------------------------------------------------------

var specials = []rune{0, 1, 0x1f, '"', '\\', '/', '<', '>', '&', '\'', 0x7f, 0x80, 0xa0, 0xff, 0x7ff, 0x800,
	0x2028, 0x2029, 0xd7ff, 0xe000, 0xfeff, 0xfffd, 0xfffe, 0xffff, 0x10000, 0x1f600, 0x10ffff,
	'\n', '\r', '\t', '\b', '\f', '{', '}', '[', ']', ':', ',', ' '}

var alnum = []rune("abcdefghijklmnopqrstuvwxyzABCDEFGHIJKLMNOPQRSTUVWXYZ0123456789")

var fragments = []string{`{"Sid":"x"}`, `","NAT":"bogus`, `\u0000`, `\"`, `null`, `"}`, `\\`, `\`, `"`, `","Sid":"","x":"`, "1.0\n", "\n", `{"offer":"x","nat":"bogus"}`, `\ud800`, `\uDFFF`, "</script>", "%00", `\x00`}

const sdpLike = "{\"type\":\"offer\",\"sdp\":\"v=0\\r\\no=- 4358805017720277108 2 IN IP4 8.8.8.8\\r\\ns=-\\r\\nt=0 0\\r\\na=group:BUNDLE data\\r\\na=msid-semantic: WMS\\r\\nm=application 56688 DTLS/SCTP 5000\\r\\nc=IN IP4 8.8.8.8\\r\\na=candidate:3769337065 1 udp 2122260223 8.8.8.8 56688 typ host generation 0 network-id 1 network-cost 50\\r\\na=ice-ufrag:aMAZ\\r\\na=ice-pwd:jcHb08Jjgrazp2dzjdrvPPvV\\r\\na=fingerprint:sha-256 C8:88:EE:B9:E7:02:2E:21:37:ED:7A:D1:EB:2B:A3:15:A2:3B:5B:1C:3D:D4:D5:1F:06:CF:52:40:03:F8:DD:66\\r\\na=setup:actpass\\r\\na=mid:data\\r\\na=sctpmap:5000 webrtc-datachannel 1024\\r\\n\"}"

func randRune(r *vlib.Rand) rune {
	switch r.Intn(10) {
	case 0, 1, 2:
		return rune(0x20 + r.Intn(0x5f)) // printable ASCII
	case 3:
		return rune(r.Intn(0x20)) // control, NUL
	case 4, 5:
		return specials[r.Intn(len(specials))]
	case 6:
		return rune(0x80 + r.Intn(0x780)) // two-byte
	case 7, 8:
		for {
			c := rune(0x800 + r.Intn(0x10000-0x800))
			if c < 0xd800 || c > 0xdfff {
				return c
			}
		}
	}
	return rune(0x10000 + r.Intn(0x100000)) // astral
}

func runesString(r *vlib.Rand, n int) string {
	var sb strings.Builder
	for i := 0; i < n; i++ {
		sb.WriteRune(randRune(r))
	}
	return sb.String()
}

// exactBytes returns a valid UTF-8 string of exactly n bytes.
func exactBytes(r *vlib.Rand, n int) string {
	var sb strings.Builder
	sb.Grow(n)
	// a random 256-rune chunk repeated, so that 64 KiB strings stay cheap
	chunk := runesString(r, 256)
	for sb.Len()+len(chunk) <= n {
		sb.WriteString(chunk)
	}
	for sb.Len() < n {
		c := randRune(r)
		if sb.Len()+utf8.RuneLen(c) <= n {
			sb.WriteRune(c)
		} else {
			sb.WriteByte('a' + byte(r.Intn(26)))
		}
	}
	return sb.String()
}

var bigLens = []int{1023, 1024, 4095, 4096, 16384, 32768, 65535, 65536}

// genStr: any valid UTF-8 string, 0..64 KiB. max caps the byte length class.
func genStr(r *vlib.Rand, max int) string {
	var s string
	switch r.Intn(22) {
	case 0:
		s = ""
	case 1, 2, 3, 4, 5:
		s = r.StringFrom(alnum, r.Range(1, 24))
	case 6, 7, 8:
		s = runesString(r, r.Range(1, 60))
	case 9, 10:
		n := r.Range(1, 4)
		for i := 0; i < n; i++ {
			s += fragments[r.Intn(len(fragments))]
		}
	case 11, 12:
		s = sdpLike
		if r.Bool() {
			p := r.Intn(len(s))
			s = s[:p] + runesString(r, r.Range(1, 5)) + s[p:]
		}
	case 13:
		n := r.Range(1, 12)
		for i := 0; i < n; i++ {
			s += string(specials[r.Intn(len(specials))])
		}
	case 14:
		s = string(randRune(r))
	case 15, 16, 17:
		s = runesString(r, r.Range(1, 300))
	case 18, 19:
		s = exactBytes(r, r.Range(1000, 5000))
	default:
		if max >= 65536 && r.Chance(1, 3) {
			s = exactBytes(r, bigLens[r.Intn(len(bigLens))])
		} else {
			s = exactBytes(r, r.Range(300, 1500))
		}
	}
	if len(s) > max {
		s = exactBytes(r, max)
	}
	if !utf8.ValidString(s) {
		panic("harness: generator produced invalid UTF-8")
	}
	return s
}

func genNonEmpty(r *vlib.Rand, max int) string {
	for {
		if s := genStr(r, max); s != "" {
			return s
		}
	}
}

var intExtremes = []int{0, 1, -1, 7, 8, 16, 1000, math.MaxInt8, math.MaxInt16, math.MaxInt32, math.MinInt32, math.MaxInt32 + 1, math.MinInt32 - 1,
	1 << 53, 1<<53 + 1, -(1 << 53) - 1, math.MaxInt64, math.MinInt64, math.MaxInt64 - 1, math.MinInt64 + 1, 1 << 62, 999999999999999999}

func genInt(r *vlib.Rand) (n int, extreme bool) {
	switch r.Intn(4) {
	case 0:
		return intExtremes[r.Intn(len(intExtremes))], true
	case 1:
		return r.Intn(200), false
	case 2:
		return int(r.Uint64()), false
	}
	return int(int32(r.Uint64())), false
}

func genType(r *vlib.Rand) string {
	switch r.Intn(8) {
	case 0, 1, 2:
		return []string{"badge", "webext", "standalone"}[r.Intn(3)]
	case 3:
		return []string{"mobile", "iptproxy"}[r.Intn(2)]
	case 4:
		return []string{"", "unknown", "Standalone", "WEBEXT", "badge ", " badge", "standalone\x00", "true", "false"}[r.Intn(9)]
	}
	return genStr(r, 200)
}

func genNATvalid(r *vlib.Rand) string {
	return []string{"", "unknown", "restricted", "unrestricted"}[r.Intn(4)]
}

func genBadNAT(r *vlib.Rand) string {
	if r.Chance(1, 12) {
		return longBadNAT
	}
	if r.Chance(2, 3) {
		return badNATs[r.Intn(len(badNATs))]
	}
	for {
		s := genStr(r, 200)
		if _, bad := refNAT(s); bad {
			return s
		}
	}
}

func genFPvalid(r *vlib.Rand) string {
	switch r.Intn(6) {
	case 0:
		return ""
	case 1:
		return defaultBridgeFP
	case 2:
		return strings.ToLower(defaultBridgeFP)
	case 3, 4:
		return hexOf(r, r.Bytes(20), r.Intn(3))
	}
	return hexOf(r, r.Bytes(32), r.Intn(3))
}

// ---- own JSON writer ----------------------------------------------------------

// jsonString encodes s as a JSON string. esc 0: only the mandatory escapes;
// 1: every character as \uXXXX (surrogate pairs for astral); 2: alternating.
// Bytes that are not valid UTF-8 are written raw (totality inputs only).
func jsonString(s string, esc int) string {
	var b strings.Builder
	b.Grow(len(s) + 2)
	b.WriteByte('"')
	idx := 0
	for i := 0; i < len(s); idx++ {
		c, n := utf8.DecodeRuneInString(s[i:])
		if c == utf8.RuneError && n == 1 {
			b.WriteByte(s[i])
			i++
			continue
		}
		i += n
		all := esc == 1 || (esc == 2 && idx%2 == 1)
		switch {
		case all:
			digits := hexLower
			if c&1 == 1 {
				digits = hexUpper
			}
			if c >= 0x10000 {
				v := c - 0x10000
				writeU(&b, digits, 0xd800+(v>>10))
				writeU(&b, digits, 0xdc00+(v&0x3ff))
			} else {
				writeU(&b, digits, c)
			}
		case c == '"':
			b.WriteString(`\"`)
		case c == '\\':
			b.WriteString(`\\`)
		case c == '\n' && esc != 2:
			b.WriteString(`\n`)
		case c == '\t' && esc != 2:
			b.WriteString(`\t`)
		case c == '\r':
			b.WriteString(`\r`)
		case c == '\b':
			b.WriteString(`\b`)
		case c == '\f':
			b.WriteString(`\f`)
		case c == '/' && esc == 2:
			b.WriteString(`\/`)
		case c < 0x20:
			writeU(&b, hexLower, c)
		default:
			b.WriteRune(c)
		}
	}
	b.WriteByte('"')
	return b.String()
}

func writeU(b *strings.Builder, digits string, c rune) {
	b.WriteString("\\u")
	b.WriteByte(digits[(c>>12)&15])
	b.WriteByte(digits[(c>>8)&15])
	b.WriteByte(digits[(c>>4)&15])
	b.WriteByte(digits[c&15])
}

type kv struct{ k, raw string }

// jsonObject writes the members in the given order; ws 0 compact, 1 spaces,
// 2 tabs/CR/LF.
func jsonObject(kvs []kv, ws int) []byte {
	sp := []string{"", " ", "\r\n\t "}[ws]
	var b strings.Builder
	b.WriteString(sp + "{" + sp)
	for i, m := range kvs {
		if i > 0 {
			b.WriteString(sp + "," + sp)
		}
		b.WriteString(jsonString(m.k, 0) + sp + ":" + sp + m.raw)
	}
	b.WriteString(sp + "}" + sp)
	return []byte(b.String())
}

// ---- hand-written messages ----------------------------------------------------

const (
	fAbsent = iota
	fNull
	fStr // string value s
	fNum // canonical decimal int64 in raw, value n
	fRaw // raw JSON of a type the field does not have
)

type field struct {
	name   string
	k      int
	s      string
	raw    string
	n      int
	forbid string // set when raw is forbidden by construction (e.g. Version: 2)
	enc    string // cached JSON text of s (the escape style of a message never changes)
}

func (f *field) missing() bool {
	return f.k == fAbsent || f.k == fNull || (f.k == fStr && f.s == "")
}

func (f *field) str() string {
	if f.k == fStr {
		return f.s
	}
	return ""
}

type hand struct {
	verLine *string // client poll request: bytes before the first newline; nil: no newline
	f       []field
	ws, esc int
	extra   []kv
}

func (m *hand) get(name string) *field {
	for i := range m.f {
		if m.f[i].name == name {
			return &m.f[i]
		}
	}
	panic("harness: no field " + name)
}

func (m *hand) clone() *hand {
	c := *m
	c.f = append([]field(nil), m.f...)
	if m.verLine != nil {
		v := *m.verLine
		c.verLine = &v
	}
	return &c
}

func (m *hand) bytes() []byte {
	var kvs []kv
	for i := range m.f {
		f := &m.f[i]
		switch f.k {
		case fNull:
			kvs = append(kvs, kv{f.name, "null"})
		case fStr:
			if f.enc == "" {
				esc := m.esc
				if len(f.s) > 4096 {
					esc = 0
				}
				f.enc = jsonString(f.s, esc)
			}
			kvs = append(kvs, kv{f.name, f.enc})
		case fNum, fRaw:
			kvs = append(kvs, kv{f.name, f.raw})
		}
		if i < len(m.extra) {
			kvs = append(kvs, m.extra[i])
		}
	}
	ws := m.ws
	body := jsonObject(kvs, ws)
	if m.verLine != nil {
		return append([]byte(*m.verLine+"\n"), body...)
	}
	return body
}

func (m *hand) shuffle(r *vlib.Rand) {
	p := r.Perm(len(m.f))
	nf := make([]field, len(m.f))
	for i, j := range p {
		nf[i] = m.f[j]
	}
	m.f = nf
}

var extraValues = []string{`1`, `"x"`, `null`, `[1,2,{"Sid":""}]`, `{"Sid":"","Version":"9.9","offer":""}`, `true`, `-1.5e300`}

func (m *hand) style(r *vlib.Rand) {
	m.ws = r.Intn(3)
	m.esc = r.Intn(3)
	m.extra = nil
	if r.Chance(1, 4) {
		for i := 0; i < r.Range(1, 3); i++ {
			m.extra = append(m.extra, kv{fmt.Sprintf("zz-unknown-%d", i), extraValues[r.Intn(len(extraValues))]})
		}
	}
}

func fs(name, s string) field   { return field{name: name, k: fStr, s: s} }
func fabs(name string) field    { return field{name: name, k: fAbsent} }
func fnum(name string, n int) field {
	return field{name: name, k: fNum, n: n, raw: fmt.Sprintf("%d", n)}
}

// wrongTyped: JSON values of every type, for totality ("fields of every JSON type").
var wrongTyped = []string{`null`, `true`, `false`, `0`, `1`, `-1`, `1.5`, `-0`, `1e2`, `1e400`, `-1e400`, `1e-400`,
	`123456789012345678901234567890123456789012345678901234567890`, `9223372036854775808`, `-9223372036854775809`,
	`""`, `"x"`, `"1"`, `[]`, `[1]`, `["x"]`, `{}`, `{"a":1}`, `[[[[[[[[[[[[]]]]]]]]]]]]`, `{"Sid":{"Sid":{"Sid":"x"}}}`}

// ---- misc -----------------------------------------------------------------------

func hashKey(parts ...[]byte) string {
	h := fnv.New64a()
	for _, p := range parts {
		h.Write(p)
		h.Write([]byte{0xff})
	}
	return fmt.Sprintf("%x", h.Sum64())
}

func clipS(s string) string {
	if len(s) > 300 {
		return fmt.Sprintf("%q…(+%d bytes)", s[:300], len(s)-300)
	}
	return fmt.Sprintf("%q", s)
}

type rec struct {
	Case   string            `json:"case"`
	Msg    string            `json:"message"`
	Input  string            `json:"input,omitempty"`
	Len    int               `json:"input_len,omitempty"`
	Fields map[string]string `json:"fields,omitempty"`
	Note   string            `json:"note,omitempty"`
}

func mkrec(id, msg string, data []byte, note string) rec {
	return rec{Case: id, Msg: msg, Input: clipS(string(data)), Len: len(data), Note: note}
}

func strClass(res *vlib.Result, s string) {
	if strings.IndexByte(s, 0) >= 0 {
		res.Obs("strings_with_nul", 1)
	}
	if strings.ContainsAny(s, "\"\\") {
		res.Obs("strings_with_quote_or_backslash", 1)
	}
	if len(s) >= 65535 {
		res.Obs("strings_64k", 1)
	}
	for _, c := range s {
		if c >= 0x10000 {
			res.Obs("strings_with_astral", 1)
			break
		}
	}
}
