// C17 section 2 — the real-clock ClientMap (timeout 200 ms), through
// turbotunnel.NewClientMap and through QueuePacketConn (OutgoingQueue / WriteTo).
//
// Only comparisons that machine load cannot falsify are verdicts:
//
//   - clientmap:closed-before-timeout   the queue of an address was observed
//     closed at t_obs although the last call that was answered with that queue
//     STARTED at t0 with t_obs - t0 < timeout. (The refresh inside the call
//     happened at or after t0, the sweep at or before t_obs; load only widens
//     the observed interval.)
//   - clientmap:discarded-while-refreshed   a refresh call returned a different
//     queue although it COMPLETED less than one timeout after the previous
//     call STARTED.
//   - clientmap:contents-lost / older-entry-survived-sweep   once a younger
//     entry has been swept (and one further call went through the map's lock),
//     an older entry must be closed, yielding its buffered packets first.
//   - clientmap:discarded-not-closed   after 20 timeouts of idleness the map
//     answers with a NEW queue although the old one was never closed.
//   - clientmap:sweeper-gone   never closed within 20 timeouts and fewer
//     sweeper goroutines than maps exist. Otherwise "never closed within 20
//     timeouts" is inconclusive (load), as is everything about upper bounds;
//     the observed idle time at closure is reported.
package c17

import (
	"bytes"
	"fmt"
	"net"
	"sync"
	"sync/atomic"
	"time"

	"git.torproject.org/pluggable-transports/snowflake.git/v2/common/turbotunnel"
	"verif/vlib"
)

const cmTimeout = 200 * time.Millisecond

var mapsCreated int32 // every ClientMap made in this process (each has one sweeper, forever)

type cmAPI struct {
	name string
	get  func(a net.Addr) <-chan []byte // returns the queue; refreshes
	push func(a net.Addr, p []byte)     // enqueues; refreshes
}

func cmDirect() cmAPI {
	atomic.AddInt32(&mapsCreated, 1)
	m := turbotunnel.NewClientMap(cmTimeout)
	return cmAPI{
		name: "ClientMap",
		get:  func(a net.Addr) <-chan []byte { return m.SendQueue(a) },
		push: func(a net.Addr, p []byte) {
			select {
			case m.SendQueue(a) <- p:
			default:
			}
			// The harness's own send is not something snowflake does (its writer sends
			// under the map's lock); a second call orders it before every later sweep,
			// so that the race detector never sees the harness's send next to a close.
			m.SendQueue(a)
		},
	}
}

func cmViaQueue() cmAPI {
	atomic.AddInt32(&mapsCreated, 1)
	q := turbotunnel.NewQueuePacketConn(fakeAddr("queue-local"), cmTimeout)
	return cmAPI{
		name: "QueuePacketConn",
		get:  func(a net.Addr) <-chan []byte { return q.OutgoingQueue(a) },
		push: func(a net.Addr, p []byte) { q.WriteTo(p, a) },
	}
}

type cmReplay struct {
	Case      string  `json:"case"`
	API       string  `json:"api"`
	Trial     string  `json:"trial"`
	TimeoutMs int64   `json:"timeout_ms"`
	CallsMs   []int64 `json:"call_start_ms"` // offsets from the first call
	LastOldMs int64   `json:"last_call_answered_with_the_queue_start_ms"`
	ClosedMs  int64   `json:"closure_observed_ms"`
	Detail    string  `json:"detail,omitempty"`
}

type cmStats struct {
	mu                sync.Mutex
	closures          int
	minPct, maxPct    int64
	refreshKept       int
	contentsKept      int
	gapsTooLong       int
	idle, cont, refr  int
	neverClosedInconc int
}

func (s *cmStats) closure(idle time.Duration) {
	pct := int64(idle) * 100 / int64(cmTimeout)
	s.mu.Lock()
	s.closures++
	if s.minPct == 0 || pct < s.minPct {
		s.minPct = pct
	}
	if pct > s.maxPct {
		s.maxPct = pct
	}
	s.mu.Unlock()
}

func ms(d time.Duration) int64 { return int64(d / time.Millisecond) }

// awaitClosed blocks until ch reports closed (returns the instant) or 20
// timeouts passed (ok=false). A received value is reported through gotValue.
func awaitClosed(ch <-chan []byte) (at time.Time, ok bool, gotValue bool) {
	t := time.NewTimer(20 * cmTimeout)
	defer t.Stop()
	for {
		select {
		case _, open := <-ch:
			if !open {
				return time.Now(), true, gotValue
			}
			gotValue = true
		case <-t.C:
			return time.Time{}, false, gotValue
		}
	}
}

// neverClosed decides the "not closed within 20 timeouts" case.
func neverClosed(res *vlib.Result, st *cmStats, api cmAPI, a net.Addr, old <-chan []byte, rep cmReplay) {
	now := api.get(a)
	if now != old {
		res.Violatef("clientmap:discarded-not-closed", rep, "%s: after 20 timeouts of idleness the map answers with a new queue for the address, but the old queue was never closed", api.name)
		return
	}
	_, _, sweepers := ttGoroutines()
	if sweepers < int(atomic.LoadInt32(&mapsCreated)) {
		res.Violatef("clientmap:sweeper-gone", rep, "%s: queue not closed within 20 timeouts and only %d sweeper goroutines exist for %d maps", api.name, sweepers, atomic.LoadInt32(&mapsCreated))
		return
	}
	st.mu.Lock()
	st.neverClosedInconc++
	st.mu.Unlock()
	res.Inconcl(rep.Case + ": queue not closed within 20 timeouts, sweeper goroutine alive (load?)")
}

func idleTrial(res *vlib.Result, st *cmStats, api cmAPI, r *vlib.Rand, id string, a net.Addr) {
	res.Eval(1)
	rep := cmReplay{Case: id, API: api.name, Trial: "idle-expiry", TimeoutMs: ms(cmTimeout)}
	k := r.Range(1, 4)
	var first, t0 time.Time
	var ch <-chan []byte
	for i := 0; i < k; i++ {
		s := time.Now()
		if i == 0 {
			first = s
		}
		c := api.get(a)
		if ch != nil && c != ch {
			// judged by the refresh trials; here just restart from the new queue
			res.Obs("clientmap_idle_trial_queue_changed_between_calls", 1)
		}
		ch, t0 = c, s
		rep.CallsMs = append(rep.CallsMs, ms(s.Sub(first)))
		if i+1 < k {
			time.Sleep(time.Duration(r.Intn(int(cmTimeout / 2))))
		}
	}
	rep.LastOldMs = ms(t0.Sub(first))
	at, ok, got := awaitClosed(ch)
	if got {
		res.Violatef("clientmap:unexpected-content", rep, "%s: queue yielded a packet nobody sent", api.name)
		return
	}
	if !ok {
		neverClosed(res, st, api, a, ch, rep)
		return
	}
	rep.ClosedMs = ms(at.Sub(first))
	idle := at.Sub(t0)
	st.closure(idle)
	res.Distinct(id)
	if idle < cmTimeout {
		res.Violatef("clientmap:closed-before-timeout", rep, "%s: queue observed closed %v after the START of the last call that returned it; timeout is %v", api.name, idle, cmTimeout)
	}
}

func contentsTrial(res *vlib.Result, st *cmStats, api cmAPI, r *vlib.Rand, id string, a, younger, third net.Addr) {
	res.Eval(1)
	rep := cmReplay{Case: id, API: api.name, Trial: "contents-kept-until-expiry", TimeoutMs: ms(cmTimeout)}
	first := time.Now()
	ch := api.get(a)
	n := r.Range(1, 3)
	var want [][]byte
	var t0 time.Time
	for i := 0; i < n; i++ {
		p := mkPkt('M', uint32(i), uint32(n), 20+i)
		want = append(want, p)
		t0 = time.Now()
		rep.CallsMs = append(rep.CallsMs, ms(t0.Sub(first)))
		api.push(a, append([]byte(nil), p...))
	}
	rep.LastOldMs = ms(t0.Sub(first))
	// contents stay while the entry is there (nobody reads): observed half way
	time.Sleep(cmTimeout / 2)
	if l := len(ch); time.Since(first) < cmTimeout && l != n {
		// l was read before the clock: the entry was certainly younger than the timeout then
		res.Violatef("clientmap:contents-lost", rep, "%s: %d packets buffered less than one timeout after they were written, expected %d", api.name, l, n)
		return
	}
	// a younger entry: created after the last refresh of a completed
	ych := api.get(younger)
	at, ok, _ := awaitClosed(ych)
	if !ok {
		neverClosed(res, st, api, younger, ych, rep)
		return
	}
	api.get(third) // passes through the map's lock: the sweep that closed `younger` is complete
	rep.ClosedMs = ms(at.Sub(first))
	for i := 0; i < n; i++ {
		select {
		case p, open := <-ch:
			if !open {
				res.Violatef("clientmap:contents-lost", rep, "%s: expired queue reported closed before buffered packet %d of %d", api.name, i, n)
				return
			}
			if !bytes.Equal(p, want[i]) {
				res.Violatef("clientmap:contents-changed", rep, "%s: buffered packet %d differs", api.name, i)
				return
			}
		default:
			res.Violatef("clientmap:contents-lost", rep, "%s: queue empty before buffered packet %d of %d", api.name, i, n)
			return
		}
	}
	select {
	case _, open := <-ch:
		if open {
			res.Violatef("clientmap:unexpected-content", rep, "%s: queue yielded a packet nobody sent", api.name)
			return
		}
	default:
		res.Violatef("clientmap:older-entry-survived-sweep", rep, "%s: an entry last seen before a younger one was created is still open after the sweep that removed the younger one", api.name)
		return
	}
	st.mu.Lock()
	st.contentsKept++
	st.mu.Unlock()
	res.Distinct(id)
}

func refreshTrial(res *vlib.Result, st *cmStats, api cmAPI, r *vlib.Rand, id string, a net.Addr) {
	res.Eval(1)
	rep := cmReplay{Case: id, API: api.name, Trial: "refreshed-then-idle", TimeoutMs: ms(cmTimeout)}
	first := time.Now()
	old := api.get(a)
	rep.CallsMs = append(rep.CallsMs, 0)
	type obs struct {
		at     time.Time
		ok     bool
		gotVal bool
	}
	wch := make(chan obs, 1)
	go func() {
		at, ok, got := awaitClosedLong(old, 60*cmTimeout)
		wch <- obs{at, ok, got}
	}()
	lastOldStart := first
	prevStart := first
	span := time.Duration(r.Range(3, 6)) * cmTimeout
	changed := false
	kept := 0
	for time.Since(first) < span {
		time.Sleep(cmTimeout/8 + time.Duration(r.Intn(int(cmTimeout*3/8))))
		s := time.Now()
		c := api.get(a)
		e := time.Now()
		rep.CallsMs = append(rep.CallsMs, ms(s.Sub(first)))
		if c != old {
			changed = true
			// removal and closing happen under the map's lock before a new queue can be made
			select {
			case _, open := <-old:
				if open {
					res.Violatef("clientmap:unexpected-content", rep, "%s: queue yielded a packet nobody sent", api.name)
					return
				}
			default:
				res.Violatef("clientmap:discarded-not-closed", rep, "%s: the map answers with a new queue for the address while the old queue is not closed", api.name)
				return
			}
			if e.Sub(prevStart) < cmTimeout {
				rep.LastOldMs = ms(prevStart.Sub(first))
				res.Violatef("clientmap:discarded-while-refreshed", rep, "%s: a call that completed %v after the previous call started was answered with a different queue (timeout %v): the entry was discarded although it was seen within the timeout", api.name, e.Sub(prevStart), cmTimeout)
				return
			}
			st.mu.Lock()
			st.gapsTooLong++
			st.mu.Unlock()
			break
		}
		kept++
		lastOldStart, prevStart = s, s
	}
	rep.LastOldMs = ms(lastOldStart.Sub(first))
	o := <-wch
	if o.gotVal {
		res.Violatef("clientmap:unexpected-content", rep, "%s: queue yielded a packet nobody sent", api.name)
		return
	}
	if !o.ok {
		if !changed {
			neverClosed(res, st, api, a, old, rep)
		} else {
			res.Inconcl(id + ": watcher did not observe the closure of a queue that is closed")
		}
		return
	}
	rep.ClosedMs = ms(o.at.Sub(first))
	idle := o.at.Sub(lastOldStart)
	st.closure(idle)
	st.mu.Lock()
	st.refreshKept += kept
	st.mu.Unlock()
	res.Distinct(id)
	if idle < cmTimeout {
		res.Violatef("clientmap:closed-before-timeout", rep, "%s: queue observed closed %v after the START of the last call that returned it (after %d refreshes); timeout is %v", api.name, idle, kept, cmTimeout)
	}
}

func awaitClosedLong(ch <-chan []byte, d time.Duration) (at time.Time, ok bool, gotValue bool) {
	t := time.NewTimer(d)
	defer t.Stop()
	for {
		select {
		case _, open := <-ch:
			if !open {
				return time.Now(), true, gotValue
			}
			gotValue = true
		case <-t.C:
			return time.Time{}, false, gotValue
		}
	}
}

func cmBatch(res *vlib.Result, st *cmStats, api cmAPI, r *vlib.Rand, id string) {
	var wg sync.WaitGroup
	addr := func(kind string, i int) net.Addr {
		if i%2 == 0 {
			var cid turbotunnel.ClientID
			copy(cid[:], kind)
			cid[7] = byte(i)
			return cid
		}
		return fakeAddr(fmt.Sprintf("%s-%d", kind, i))
	}
	for i := 0; i < 24; i++ {
		i := i
		tr := r.SplitN("idle", i)
		wg.Add(1)
		go func() {
			defer wg.Done()
			time.Sleep(time.Duration(tr.Intn(int(cmTimeout))))
			idleTrial(res, st, api, tr, fmt.Sprintf("%s/idle/%d", id, i), addr("idle", i))
		}()
	}
	for i := 0; i < 8; i++ {
		i := i
		tr := r.SplitN("contents", i)
		wg.Add(1)
		go func() {
			defer wg.Done()
			time.Sleep(time.Duration(tr.Intn(int(cmTimeout))))
			contentsTrial(res, st, api, tr, fmt.Sprintf("%s/contents/%d", id, i), addr("cont", i), addr("cony", i), addr("conz", i))
		}()
	}
	for i := 0; i < 8; i++ {
		i := i
		tr := r.SplitN("refresh", i)
		wg.Add(1)
		go func() {
			defer wg.Done()
			refreshTrial(res, st, api, tr, fmt.Sprintf("%s/refresh/%d", id, i), addr("refr", i))
		}()
	}
	if api.name == "QueuePacketConn" {
		// the server's way of using the map: a writer (KCP's output) queues its last
		// packets for a client and then never touches the map again; a reader (the
		// carrier's goroutine) drains the queue until the expiry sweep closes it
		for i := 0; i < 8; i++ {
			i := i
			tr := r.SplitN("lastwrite", i)
			wg.Add(1)
			go func() {
				defer wg.Done()
				lastWriteTrial(res, st, api, tr, fmt.Sprintf("%s/lastwrite/%d", id, i), addr("lwrt", i))
			}()
		}
	}
	wg.Wait()
	st.mu.Lock()
	st.idle += 24
	st.cont += 8
	st.refr += 8
	st.mu.Unlock()
}

// lastWriteTrial: a writer goroutine queues 1..3 packets and ends; nothing
// refreshes the entry afterwards; a reader obtained the queue beforehand and
// must receive exactly those packets, in order, and then see the queue closed
// no earlier than one timeout after the writer's last call began. (Under the
// race detector this is also the schedule in which a queue is closed after a
// write that no later operation of the writer orders before the sweep.)
func lastWriteTrial(res *vlib.Result, st *cmStats, api cmAPI, r *vlib.Rand, id string, a net.Addr) {
	res.Eval(1)
	rep := cmReplay{Case: id, API: api.name, Trial: "last-write-then-silence", TimeoutMs: ms(cmTimeout)}
	first := time.Now()
	ch := api.get(a)
	n := r.Range(1, 3)
	var want [][]byte
	for i := 0; i < n; i++ {
		want = append(want, mkPkt('L', uint32(i), uint32(n), 24+i))
	}
	lastStart := make(chan time.Time, 1)
	go func() {
		var t0 time.Time
		for _, p := range want {
			t0 = time.Now()
			api.push(a, append([]byte(nil), p...))
		}
		lastStart <- t0
	}()
	got := 0
	deadline := time.After(40 * cmTimeout)
	for {
		select {
		case p, ok := <-ch:
			if !ok {
				t0 := <-lastStart
				idle := time.Since(t0)
				rep.ClosedMs = ms(time.Since(first))
				if got != n {
					res.Violatef("clientmap:contents-lost", rep, "%s: the queue was closed after yielding %d of the %d packets written to it", api.name, got, n)
					return
				}
				if idle < cmTimeout {
					res.Violatef("clientmap:closed-before-timeout", rep, "%s: queue observed closed %v after the START of the writer's last call; timeout is %v", api.name, idle, cmTimeout)
					return
				}
				st.closure(idle)
				res.Distinct(id)
				res.Obs("clientmap_last_write_trials", 1)
				return
			}
			if got >= n || string(p) != string(want[got]) {
				res.Violatef("clientmap:unexpected-content", rep, "%s: packet %d read from the queue is not the packet written %d-th", api.name, got, got)
				return
			}
			got++
		case <-deadline:
			neverClosed(res, st, api, a, ch, rep)
			return
		}
	}
}

// writeOnlyTrial: a packet is written to an address the map has no record of
// (a late retransmission to a client that has already expired), on a map that
// is otherwise empty, and nobody asks for that address's queue. The record the
// write created is idle from then on: after many timeouts it must be gone - a
// call for the address's queue then yields a fresh, empty queue, not the one
// still holding the packet.
func writeOnlyTrial(res *vlib.Result, id string, nBefore int) {
	res.Eval(1)
	atomic.AddInt32(&mapsCreated, 1)
	q := turbotunnel.NewQueuePacketConn(fakeAddr("queue-local"), cmTimeout)
	rep := cmReplay{Case: id, API: "QueuePacketConn", Trial: "write-only-then-silence", TimeoutMs: ms(cmTimeout)}
	// optionally the map has seen (and forgotten) other clients before
	for i := 0; i < nBefore; i++ {
		b := fakeAddr(fmt.Sprintf("%s-earlier-%d", id, i))
		ch := q.OutgoingQueue(b)
		q.WriteTo(mkPkt('E', uint32(i), uint32(nBefore), 24), b)
		<-ch
		if _, ok, _ := awaitClosedLong(ch, 30*cmTimeout); !ok {
			res.Inconcl(id + ": an earlier client's queue was not closed within 30 timeouts")
			return
		}
	}
	a := fakeAddr(id + "-late")
	pkt := mkPkt('W', 1, 1, 40)
	q.WriteTo(append([]byte(nil), pkt...), a)
	time.Sleep(12 * cmTimeout) // idle for 12 timeouts: eight times the nominal bound
	ch := q.OutgoingQueue(a)
	res.Obs("clientmap_write_only_trials", 1)
	select {
	case p, ok := <-ch:
		if ok {
			rep.Detail = fmt.Sprintf("%d earlier clients had come and gone", nBefore)
			res.Violatef("clientmap:write-only-queue-kept-beyond-timeout", rep, "QueuePacketConn: %d ms (12 timeouts) after a WriteTo to an address nobody asked about, the map still answers with the queue holding that %d-byte packet: the record was never swept", ms(12*cmTimeout), len(p))
		}
	default:
		res.Distinct(id)
	}
}

func runClientMap(res *vlib.Result, root *vlib.Rand) {
	st := &cmStats{}
	var wwg sync.WaitGroup
	for i := 0; i < vlib.Scale(8, 40); i++ {
		wwg.Add(1)
		go func(i int) { defer wwg.Done(); writeOnlyTrial(res, fmt.Sprintf("clientmap/write-only/%d", i), i%3) }(i)
	}
	defer func() {
		wwg.Wait()
		res.RequireObs("clientmap_write_only_trials", 4)
	}()
	rounds := vlib.Scale(6, 60)
	for round := 0; round < rounds; round++ {
		var wg sync.WaitGroup
		for k, mk := range []func() cmAPI{cmDirect, cmViaQueue} {
			api := mk()
			r := root.SplitN(api.name, round)
			id := fmt.Sprintf("clientmap/%d/%d", round, k)
			wg.Add(1)
			go func() {
				defer wg.Done()
				cmBatch(res, st, api, r, id)
			}()
		}
		wg.Wait()
		res.Save()
	}
	res.Obs("clientmap_idle_trials", int64(st.idle))
	res.Obs("clientmap_contents_trials", int64(st.cont))
	res.Obs("clientmap_refresh_trials", int64(st.refr))
	res.Obs("clientmap_closures_observed", int64(st.closures))
	res.Obs("clientmap_contents_kept_until_expiry", int64(st.contentsKept))
	res.Obs("clientmap_refresh_calls_answered_with_same_queue", int64(st.refreshKept))
	res.Obs("clientmap_refresh_trials_with_gap_over_timeout", int64(st.gapsTooLong))
	res.Obs("clientmap_min_idle_at_observed_closure_pct_of_timeout", st.minPct)
	res.Obs("clientmap_max_idle_at_observed_closure_pct_of_timeout", st.maxPct)
	res.RequireObs("clientmap_closures_observed", int64(rounds*2*24))
	res.RequireObs("clientmap_contents_kept_until_expiry", int64(rounds*2*4))
	res.RequireObs("clientmap_refresh_calls_answered_with_same_queue", int64(rounds*2*8*4))
}
