// C17 section 1 — QueuePacketConn against a reference model.
//
// Reference (what the property states, nothing more):
//   - incoming: packets queued with QueueIncoming come out of ReadFrom in FIFO
//     order PER SOURCE ADDRESS, with the address they were queued with; a packet
//     is dropped only when `capacity` packets are pending in the incoming queue
//   - outgoing: packets written with WriteTo(addr) come out of OutgoingQueue(addr)
//     in FIFO order; a packet is dropped only when `capacity` are pending for addr
//   - capacity is read from the code through the API: cap(OutgoingQueue(addr))
//   - no operation blocks without a consumer (each op runs on a worker under a
//     watchdog; on expiry the verdict comes from the goroutine dump)
//   - what is delivered is what the buffer held at the time of the call, whatever
//     the caller does to the buffer afterwards
//   - after Close, ReadFrom and WriteTo fail and enqueue nothing; a ReadFrom
//     pending at Close returns with an error
//   - the channel returned for an address stays the same (timeout = 1 h here)
package c17

import (
	"bytes"
	"encoding/binary"
	"fmt"
	"net"
	"runtime"
	"sync"
	"sync/atomic"
	"time"

	"git.torproject.org/pluggable-transports/snowflake.git/v2/common/turbotunnel"
	"verif/vlib"
)

func newQPC() *turbotunnel.QueuePacketConn {
	atomic.AddInt32(&mapsCreated, 1) // one sweeper goroutine per map, forever
	return turbotunnel.NewQueuePacketConn(fakeAddr("queue-local"), time.Hour)
}

// ---- worker with watchdog (M-stuck) ------------------------------------------------

type qWorker struct {
	jobs chan func()
	done chan struct{}
	gid  string
	rdy  chan struct{}
}

func newQWorker() *qWorker {
	w := &qWorker{jobs: make(chan func()), done: make(chan struct{}), rdy: make(chan struct{})}
	go w.loop()
	<-w.rdy
	return w
}

func (w *qWorker) loop() {
	w.gid = myGoroutineID()
	close(w.rdy)
	for f := range w.jobs {
		f()
		w.done <- struct{}{}
	}
}

func (w *qWorker) stop() { close(w.jobs) }

var blockedSeen int32

// run executes f on the worker. false = it did not return within the watchdog;
// then either a violation `blocked:<op>` (parked inside turbotunnel) or an
// inconclusive case was recorded and the worker is abandoned.
func (w *qWorker) run(c *qCase, op string, f func()) bool {
	w.jobs <- f
	t := time.NewTimer(3 * time.Second)
	defer t.Stop()
	select {
	case <-w.done:
		return true
	case <-t.C:
	}
	parked, desc := parkedInTurbotunnel(w.gid)
	if !parked {
		// give a merely slow machine more time before giving up
		select {
		case <-w.done:
			return true
		case <-time.After(30 * time.Second):
		}
		parked, desc = parkedInTurbotunnel(w.gid)
	}
	c.wDead = true
	if parked {
		atomic.AddInt32(&blockedSeen, 1)
		c.res.Violatef("blocked:"+op, c.replay(), "%s did not return although nothing else runs: %s (pending in reference: incoming %d, outgoing %v)", op, desc, c.inTotal, c.outLens())
	} else {
		c.res.Inconcl(fmt.Sprintf("%s: %s did not return in 33 s but is not parked in turbotunnel (%s)", c.id, op, desc))
	}
	return false
}

// ---- one case ---------------------------------------------------------------------------

type qOpRec struct {
	Op   string `json:"op"`
	Addr int    `json:"addr,omitempty"`
	Len  int    `json:"len,omitempty"`
	N    int    `json:"n,omitempty"`
}

type qReplay struct {
	Case  string   `json:"case"`
	Addrs int      `json:"addresses"`
	Cap   int      `json:"capacity"`
	Ops   []qOpRec `json:"ops"` // the operations run so far, the last one failed
	Total int      `json:"ops_total"`
}

// qPkt is one packet of the reference: want = the bytes at the time of the call,
// orig = the caller's own slice (whose memory the caller went on to overwrite).
type qPkt struct{ want, orig []byte }

type qCase struct {
	res      *vlib.Result
	id       string
	r        *vlib.Rand
	q        *turbotunnel.QueuePacketConn
	w        *qWorker
	addrs    []net.Addr
	capN     int
	closed   bool
	in       [][]qPkt // per address
	inTotal  int
	inGlobal []int // address indices in arrival order (observation only)
	out      [][]qPkt
	outCh    []<-chan []byte
	ops      []qOpRec
	nops     int
	scratch  []byte
	seq      uint32
	failed   bool
	wDead    bool
	fresh    bool // this case hands a fresh buffer to every call instead of reusing one

	delivered, deliveredAfterMutation, drops, globalDeviation int
	burst                                                     bool
}

func (c *qCase) replay() qReplay {
	ops := c.ops
	if len(ops) > 400 {
		ops = ops[len(ops)-400:]
	}
	return qReplay{Case: c.id, Addrs: len(c.addrs), Cap: c.capN, Ops: ops, Total: c.nops}
}

func (c *qCase) outLens() []int {
	var l []int
	for _, q := range c.out {
		l = append(l, len(q))
	}
	return l
}

func (c *qCase) rec(op string, addr, ln, n int) {
	c.nops++
	// runs of the same op are folded so that bursts stay bounded
	if k := len(c.ops); k > 0 && c.ops[k-1].Op == op && c.ops[k-1].Addr == addr && c.ops[k-1].Len == ln && n == 0 {
		c.ops[k-1].N++
		return
	}
	c.ops = append(c.ops, qOpRec{Op: op, Addr: addr, Len: ln, N: n})
}

func (c *qCase) violate(sig, format string, a ...interface{}) {
	c.failed = true
	c.res.Violatef(sig, c.replay(), format, a...)
}

// newPacket builds the next packet inside the shared scratch buffer (the way
// KCP reuses its output buffer) and returns the slice handed to the code under
// test plus an independent copy for the reference.
func (c *qCase) newPacket(dir byte, addr, n int) (p []byte, want []byte) {
	c.seq++
	if c.fresh {
		p = make([]byte, n)
	} else {
		off := c.r.Intn(64)
		p = c.scratch[off : off+n : off+n]
	}
	for j := range p {
		p[j] = byte(uint32(j)*13 + c.seq*101 + uint32(addr))
	}
	if n >= 6 {
		p[0] = dir
		p[1] = byte(addr)
		binary.BigEndian.PutUint32(p[2:], c.seq)
	}
	want = append([]byte(nil), p...)
	return
}

// mutate is what a caller may do with its buffer once the call returned.
func mutate(p []byte) {
	for j := range p {
		p[j] ^= 0xA5
	}
}

func mutated(want []byte) []byte {
	m := append([]byte(nil), want...)
	mutate(m)
	return m
}

func (c *qCase) classifyMismatch(what string, got []byte, head qPkt, queue []qPkt) (sig, msg string) {
	want := head.want
	if len(want) > 0 && (bytes.Equal(got, mutated(want)) || bytes.Equal(got, head.orig)) {
		return "aliasing:" + what, fmt.Sprintf("delivered packet (len %d) equals what the caller's buffer holds NOW, after the caller overwrote it, not what it held at the time of the call: the queue aliases the caller's buffer", len(got))
	}
	for k := 1; k < len(queue); k++ {
		if bytes.Equal(got, queue[k].want) {
			return "fifo:" + what + ":packets-lost-or-reordered", fmt.Sprintf("delivered packet is number %d of the reference queue, not its head", k)
		}
	}
	return "fifo:" + what + ":unexpected-packet", fmt.Sprintf("delivered %d bytes %x…, reference head %d bytes %x…", len(got), got[:minInt(len(got), 12)], len(want), want[:minInt(len(want), 12)])
}

func (c *qCase) opQueueIncoming(addr, n int) bool {
	p, want := c.newPacket('I', addr, n)
	c.rec("QueueIncoming", addr, n, 0)
	ok := c.w.run(c, "QueueIncoming", func() {
		c.res.Guard("panic:QueuePacketConn.QueueIncoming", c.replay(), func() { c.q.QueueIncoming(p, c.addrs[addr]) })
		mutate(p)
	})
	if !ok {
		return false
	}
	if c.closed {
		return true
	}
	if c.inTotal < c.capN {
		c.in[addr] = append(c.in[addr], qPkt{want, p})
		c.inGlobal = append(c.inGlobal, addr)
		c.inTotal++
	} else {
		c.drops++
	}
	return true
}

func (c *qCase) opWriteTo(addr, n int) bool {
	p, want := c.newPacket('O', addr, n)
	c.rec("WriteTo", addr, n, 0)
	var wn int
	var err error
	ok := c.w.run(c, "WriteTo", func() {
		c.res.Guard("panic:QueuePacketConn.WriteTo", c.replay(), func() { wn, err = c.q.WriteTo(p, c.addrs[addr]) })
		mutate(p)
	})
	if !ok {
		return false
	}
	if c.closed {
		if err == nil {
			c.violate("after-close:WriteTo-succeeds", "WriteTo after Close returned (%d, nil)", wn)
			return false
		}
		c.res.Obs("queue_writeto_failed_after_close", 1)
		return true
	}
	if err != nil {
		c.violate("surfaced-error:QueuePacketConn.WriteTo", "WriteTo on an open QueuePacketConn returned %q (pending for the address: %d)", err.Error(), len(c.out[addr]))
		return false
	}
	if len(c.out[addr]) < c.capN {
		c.out[addr] = append(c.out[addr], qPkt{want, p})
	} else {
		c.drops++
	}
	return true
}

func (c *qCase) opReadFrom() bool {
	if !c.closed && c.inTotal == 0 {
		return true // would (rightly) block
	}
	c.rec("ReadFrom", 0, 0, 0)
	buf := make([]byte, 2048)
	var n int
	var a net.Addr
	var err error
	ok := c.w.run(c, "ReadFrom", func() {
		c.res.Guard("panic:QueuePacketConn.ReadFrom", c.replay(), func() { n, a, err = c.q.ReadFrom(buf) })
	})
	if !ok {
		return false
	}
	if c.closed {
		if err == nil {
			c.violate("after-close:ReadFrom-succeeds", "ReadFrom after Close returned a packet of %d bytes", n)
			return false
		}
		c.res.Obs("queue_readfrom_failed_after_close", 1)
		return true
	}
	if err != nil {
		c.violate("surfaced-error:QueuePacketConn.ReadFrom", "ReadFrom on an open QueuePacketConn with %d packets pending returned %q", c.inTotal, err.Error())
		return false
	}
	ai := -1
	for i, x := range c.addrs {
		if x == a {
			ai = i
		}
	}
	if ai < 0 {
		c.violate("fifo:incoming:unknown-address", "ReadFrom returned address %v which no packet was queued with", a)
		return false
	}
	if len(c.in[ai]) == 0 {
		c.violate("fifo:incoming:unexpected-packet", "ReadFrom returned a packet for address %d but the reference has none pending for it", ai)
		return false
	}
	want := c.in[ai][0].want
	if !bytes.Equal(buf[:n], want) {
		sig, msg := c.classifyMismatch("incoming", buf[:n], c.in[ai][0], c.in[ai])
		c.violate(sig, "ReadFrom (address %d): %s", ai, msg)
		return false
	}
	c.in[ai] = c.in[ai][1:]
	c.inTotal--
	if len(c.inGlobal) > 0 {
		if c.inGlobal[0] != ai {
			c.globalDeviation++
		}
		for k, x := range c.inGlobal {
			if x == ai {
				c.inGlobal = append(c.inGlobal[:k], c.inGlobal[k+1:]...)
				break
			}
		}
	}
	c.delivered++
	if len(want) > 0 {
		c.deliveredAfterMutation++
	}
	return true
}

// opOutgoing performs one non-blocking receive on OutgoingQueue(addr).
func (c *qCase) opOutgoing(addr int) bool {
	c.rec("OutgoingQueue.recv", addr, 0, 0)
	var ch <-chan []byte
	ok := c.w.run(c, "OutgoingQueue", func() {
		c.res.Guard("panic:QueuePacketConn.OutgoingQueue", c.replay(), func() { ch = c.q.OutgoingQueue(c.addrs[addr]) })
	})
	if !ok {
		return false
	}
	if ch == nil {
		c.violate("outgoing:nil-channel", "OutgoingQueue returned nil for address %d", addr)
		return false
	}
	if c.outCh[addr] == nil {
		c.outCh[addr] = ch
	} else if c.outCh[addr] != ch {
		c.violate("outgoing:queue-replaced-while-seen", "OutgoingQueue(address %d) returned a different channel than before (timeout is 1 h, %d packets were pending)", addr, len(c.out[addr]))
		return false
	}
	select {
	case got, open := <-ch:
		if !open {
			c.violate("outgoing:queue-closed-while-seen", "outgoing queue of address %d is closed (timeout is 1 h)", addr)
			return false
		}
		if len(c.out[addr]) == 0 {
			c.violate("fifo:outgoing:unexpected-packet", "outgoing queue of address %d yields a packet of %d bytes, reference has none pending", addr, len(got))
			return false
		}
		want := c.out[addr][0].want
		if !bytes.Equal(got, want) {
			sig, msg := c.classifyMismatch("outgoing", got, c.out[addr][0], c.out[addr])
			c.violate(sig, "OutgoingQueue(address %d): %s", addr, msg)
			return false
		}
		c.out[addr] = c.out[addr][1:]
		c.delivered++
		if len(want) > 0 {
			c.deliveredAfterMutation++
		}
	default:
		if len(c.out[addr]) != 0 {
			c.violate("fifo:outgoing:packets-lost", "outgoing queue of address %d is empty, reference has %d pending", addr, len(c.out[addr]))
			return false
		}
	}
	return true
}

func (c *qCase) opClose() bool {
	c.rec("Close", 0, 0, 0)
	var err error
	ok := c.w.run(c, "Close", func() {
		c.res.Guard("panic:QueuePacketConn.Close", c.replay(), func() { err = c.q.Close() })
	})
	if !ok {
		return false
	}
	if c.closed {
		if err != nil {
			c.res.Obs("queue_second_close_returns_error", 1)
		} else {
			c.res.Obs("queue_second_close_returns_nil", 1)
		}
		return true
	}
	if err != nil {
		c.violate("surfaced-error:QueuePacketConn.Close", "first Close returned %q", err.Error())
		return false
	}
	c.closed = true
	return true
}

func runQueueCase(res *vlib.Result, r *vlib.Rand, id string, allowBurst bool) {
	res.Eval(1)
	nAddr := r.Range(1, 4)
	c := &qCase{res: res, id: id, r: r, scratch: make([]byte, 4096), fresh: r.Chance(1, 3)}
	for i := 0; i < nAddr; i++ {
		if i%2 == 0 {
			var cid turbotunnel.ClientID
			r.Fill(cid[:])
			c.addrs = append(c.addrs, cid)
		} else {
			c.addrs = append(c.addrs, fakeAddr(fmt.Sprintf("peer-%d", i)))
		}
	}
	c.in = make([][]qPkt, nAddr)
	c.out = make([][]qPkt, nAddr)
	c.outCh = make([]<-chan []byte, nAddr)
	c.q = newQPC()
	c.capN = cap(c.q.OutgoingQueue(fakeAddr("capacity-probe")))
	res.ObsMax("queue_capacity_read_from_code", int64(c.capN))
	c.w = newQWorker()
	lens := []int{0, 1, 6, 7, 100, 536, 1200, 1400, 1500}
	nOps := r.Range(20, 160)
	closeAt := -1 // one case in three is closed somewhere in the middle and goes on
	if r.Chance(1, 3) {
		closeAt = r.Intn(nOps)
	}
	for i := 0; i < nOps && !c.failed; i++ {
		ok := true
		a := r.Intn(nAddr)
		if i == closeAt {
			if !c.opClose() {
				c.failed = true
			}
			continue
		}
		switch k := r.Intn(100); {
		case k < 26:
			ok = c.opQueueIncoming(a, r.PickInt(lens))
		case k < 52:
			ok = c.opWriteTo(a, r.PickInt(lens))
		case k < 70:
			ok = c.opReadFrom()
		case k < 92:
			ok = c.opOutgoing(a)
		case k < 95:
			if allowBurst && !c.closed && atomic.LoadInt32(&blockedSeen) < 3 {
				// a burst that crosses the capacity, no consumer
				c.burst = true
				n := c.capN - r.Range(0, 3) + r.Range(0, 6)
				incoming := r.Bool()
				for j := 0; j < n && ok && !c.failed; j++ {
					if incoming {
						ok = c.opQueueIncoming(r.Intn(nAddr), 6+r.Intn(3))
					} else {
						ok = c.opWriteTo(a, 6+r.Intn(3))
					}
				}
				// and drain most of it again
				m := r.Range(n/2, n+5)
				for j := 0; j < m && ok && !c.failed; j++ {
					if incoming {
						ok = c.opReadFrom()
					} else {
						ok = c.opOutgoing(a)
					}
				}
			}
		default:
			if c.closed && r.Chance(1, 3) {
				ok = c.opClose() // closing twice
			}
		}
		if !ok {
			c.failed = true
		}
	}
	// drain what is left through OutgoingQueue (and ReadFrom if still open)
	for a := 0; a < nAddr && !c.failed; a++ {
		for k := len(c.out[a]) + 1; k > 0 && !c.failed; k-- {
			if !c.opOutgoing(a) {
				c.failed = true
			}
		}
	}
	for !c.failed && !c.closed && c.inTotal > 0 {
		if !c.opReadFrom() {
			c.failed = true
		}
	}
	if !c.failed && !c.closed {
		c.opClose()
		c.opReadFrom()
		c.opWriteTo(0, 10)
	}
	if !c.wDead {
		c.w.stop() // an abandoned (blocked) worker cannot take the stop
	}
	res.Obs("queue_cases", 1)
	res.Obs("queue_ops", int64(c.nops))
	res.Obs("queue_packets_delivered_and_compared", int64(c.delivered))
	res.Obs("queue_packets_delivered_after_buffer_mutation", int64(c.deliveredAfterMutation))
	res.Obs("queue_drops_at_capacity", int64(c.drops))
	res.Obs("queue_incoming_global_fifo_deviations", int64(c.globalDeviation))
	if c.burst {
		res.Obs("queue_cases_with_capacity_burst", 1)
	}
	if c.closed {
		res.Obs("queue_cases_closed", 1)
	}
	if c.deliveredAfterMutation > 0 && (nAddr >= 2 || c.burst) {
		res.Distinct(id)
	}
}

// pendingReadAtClose: a ReadFrom blocked on an empty queue returns with an
// error when the connection is closed.
func pendingReadAtClose(res *vlib.Result, i int) {
	res.Eval(1)
	id := fmt.Sprintf("queue-pending-read/%d", i)
	q := newQPC()
	type out struct {
		n   int
		err error
	}
	ch := make(chan out, 1)
	gidCh := make(chan string, 1)
	go func() {
		gidCh <- myGoroutineID()
		n, _, err := q.ReadFrom(make([]byte, 100))
		ch <- out{n, err}
	}()
	gid := <-gidCh
	if i%2 == 1 {
		time.Sleep(time.Millisecond) // let it park first
	}
	q.Close()
	select {
	case o := <-ch:
		if o.err == nil {
			res.Violatef("after-close:ReadFrom-succeeds", map[string]interface{}{"case": id}, "ReadFrom pending at Close returned %d bytes and no error", o.n)
		}
		res.Obs("queue_pending_read_unblocked_by_close", 1)
	case <-time.After(5 * time.Second):
		if parked, desc := parkedInTurbotunnel(gid); parked {
			res.Violatef("blocked:ReadFrom:pending-at-Close", map[string]interface{}{"case": id}, "ReadFrom pending on an empty queue still blocked 5 s after Close: %s", desc)
		} else {
			res.Inconcl(id + ": pending ReadFrom did not return 5 s after Close (" + desc + ")")
		}
	}
}

// massAtClose: thousands of ReadFrom calls parked on an empty queue, and
// WriteTo/QueueIncoming callers spinning, at the moment of Close. While Close
// wakes the parked readers the first of them already run on other
// processors, so whatever Close publishes after the wake-up signal is read
// before it is there. Every call that returns after Close began must fail
// with an error; none may panic.
func massAtClose(res *vlib.Result, i int) {
	res.Eval(1)
	id := fmt.Sprintf("queue-mass-at-close/%d", i)
	nReaders := 1000 + 1000*(i%4)
	q := newQPC()
	var wg sync.WaitGroup
	var parkedN, failed, panicked, succeeded int64
	var firstPanic atomic.Value
	guard := func(op string, f func() error) {
		defer func() {
			if v := recover(); v != nil {
				atomic.AddInt64(&panicked, 1)
				firstPanic.CompareAndSwap(nil, fmt.Sprintf("%s: %v", op, v))
			}
		}()
		if err := f(); err != nil {
			atomic.AddInt64(&failed, 1)
		} else {
			atomic.AddInt64(&succeeded, 1)
		}
	}
	for k := 0; k < nReaders; k++ {
		wg.Add(1)
		go func() {
			defer wg.Done()
			atomic.AddInt64(&parkedN, 1)
			guard("ReadFrom", func() error {
				_, _, err := q.ReadFrom(make([]byte, 16))
				return err
			})
		}()
	}
	stop := make(chan struct{})
	var closing int32
	var lateOK int64
	for k := 0; k < 4; k++ {
		wg.Add(1)
		go func(k int) {
			defer wg.Done()
			a := fakeAddr(fmt.Sprintf("mass-%d", k))
			for {
				select {
				case <-stop:
					return
				default:
				}
				began := atomic.LoadInt32(&closing) == 2
				guard("WriteTo", func() error {
					_, err := q.WriteTo([]byte{1, 2, 3}, a)
					if err == nil && began {
						atomic.AddInt64(&lateOK, 1)
					}
					return err
				})
			}
		}(k)
	}
	for atomic.LoadInt64(&parkedN) < int64(nReaders) {
		runtime.Gosched()
	}
	time.Sleep(2 * time.Millisecond) // let most of them park
	atomic.StoreInt32(&closing, 1)
	guard("Close", func() error { q.Close(); return nil })
	atomic.StoreInt32(&closing, 2)
	time.Sleep(time.Millisecond)
	close(stop)
	done := make(chan struct{})
	go func() { wg.Wait(); close(done) }()
	select {
	case <-done:
	case <-time.After(20 * time.Second):
		res.Inconcl(id + ": readers pending at Close did not all return within 20 s")
		return
	}
	res.Obs("queue_reads_pending_at_mass_close", int64(nReaders))
	res.Obs("queue_mass_close_rounds", 1)
	if n := atomic.LoadInt64(&panicked); n > 0 {
		res.Violatef("panic:queue-operation-racing-with-Close", map[string]interface{}{"case": id, "readers": nReaders}, "%d operations panicked while the connection was being closed; first: %v", n, firstPanic.Load())
	}
	if n := atomic.LoadInt64(&lateOK); n > 0 {
		res.Violatef("after-close:WriteTo-succeeds:mass", map[string]interface{}{"case": id}, "%d WriteTo calls that began after Close returned succeeded", n)
	}
	res.Distinct(fmt.Sprintf("mass-close/%d", nReaders))
}

// concurrentQueue: producers and consumers running concurrently; per-address
// FIFO without loss (fewer packets than the capacity are ever pending).
func concurrentQueue(res *vlib.Result, r *vlib.Rand, i int) {
	res.Eval(1)
	id := fmt.Sprintf("queue-concurrent/%d", i)
	const nAddr, perAddr = 4, 400
	q := newQPC()
	addrs := make([]net.Addr, nAddr)
	for a := range addrs {
		var cid turbotunnel.ClientID
		r.Fill(cid[:])
		cid[0] = byte(a)
		addrs[a] = cid
	}
	var wg sync.WaitGroup
	var bad int32
	report := func(sig, format string, a ...interface{}) {
		if atomic.AddInt32(&bad, 1) == 1 {
			res.Violatef(sig, map[string]interface{}{"case": id, "addresses": nAddr, "packets_per_address": perAddr}, format, a...)
		}
	}
	// producers: outgoing and incoming, one goroutine per address and direction
	for a := 0; a < nAddr; a++ {
		a := a
		wg.Add(2)
		go func() {
			defer wg.Done()
			for k := 0; k < perAddr; k++ {
				if _, err := q.WriteTo(mkPkt('O', uint32(a), uint32(k), 10+k%50), addrs[a]); err != nil {
					report("surfaced-error:QueuePacketConn.WriteTo", "concurrent WriteTo returned %v", err)
					return
				}
			}
		}()
		go func() {
			defer wg.Done()
			for k := 0; k < perAddr; k++ {
				q.QueueIncoming(mkPkt('I', uint32(a), uint32(k), 10+k%50), addrs[a])
			}
		}()
	}
	// consumers
	done := make(chan struct{})
	var cwg sync.WaitGroup
	for a := 0; a < nAddr; a++ {
		a := a
		cwg.Add(1)
		go func() {
			defer cwg.Done()
			ch := q.OutgoingQueue(addrs[a])
			for k := 0; k < perAddr; k++ {
				select {
				case p, ok := <-ch:
					if !ok {
						report("outgoing:queue-closed-while-seen", "outgoing queue of address %d closed", a)
						return
					}
					if !okPkt('O', p) || binary.BigEndian.Uint32(p[2:]) != uint32(a) || binary.BigEndian.Uint32(p[6:]) != uint32(k) {
						report("fifo:outgoing:concurrent", "address %d: packet %d out of order or corrupt: %x", a, k, p[:minInt(len(p), 12)])
						return
					}
				case <-done:
					return
				}
			}
		}()
	}
	cwg.Add(1)
	go func() {
		defer cwg.Done()
		next := make([]uint32, nAddr)
		buf := make([]byte, 2048)
		for k := 0; k < nAddr*perAddr; k++ {
			n, a, err := q.ReadFrom(buf)
			if err != nil {
				select {
				case <-done:
				default:
					report("surfaced-error:QueuePacketConn.ReadFrom", "concurrent ReadFrom returned %v", err)
				}
				return
			}
			p := buf[:n]
			ai := -1
			for x := range addrs {
				if addrs[x] == a {
					ai = x
				}
			}
			if ai < 0 || !okPkt('I', p) || binary.BigEndian.Uint32(p[2:]) != uint32(ai) || binary.BigEndian.Uint32(p[6:]) != next[ai] {
				report("fifo:incoming:concurrent", "address %d: expected packet %d, got %x", ai, next[maxInt(ai, 0)], p[:minInt(len(p), 12)])
				return
			}
			next[ai]++
		}
	}()
	fin := make(chan struct{})
	go func() { wg.Wait(); cwg.Wait(); close(fin) }()
	select {
	case <-fin:
		res.Obs("queue_concurrent_cases", 1)
		res.Obs("queue_concurrent_packets", 2*nAddr*perAddr)
		res.Distinct(id)
	case <-time.After(120 * time.Second):
		res.Inconcl(id + ": concurrent producers/consumers did not finish in 120 s")
	}
	close(done)
	q.Close()
}

func maxInt(a, b int) int {
	if a > b {
		return a
	}
	return b
}

func runQueue(res *vlib.Result, root *vlib.Rand) {
	n := vlib.Scale(400, 2500)
	for i := 0; i < n; i++ {
		runQueueCase(res, root.SplitN("case", i), fmt.Sprintf("queue/%d", i), i%4 == 0)
		if i%50 == 49 {
			res.Save()
		}
	}
	for i := 0; i < vlib.Scale(40, 400); i++ {
		pendingReadAtClose(res, i)
	}
	for i := 0; i < vlib.Scale(10, 100); i++ {
		concurrentQueue(res, root.SplitN("concurrent", i), i)
	}
	for i := 0; i < vlib.Scale(12, 120); i++ {
		massAtClose(res, i)
	}
	res.RequireObs("queue_mass_close_rounds", 6)
	res.RequireObs("queue_cases", 300)
	res.RequireObs("queue_packets_delivered_after_buffer_mutation", 5000)
	res.RequireObs("queue_cases_with_capacity_burst", 20)
	res.RequireObs("queue_drops_at_capacity", 20)
	res.RequireObs("queue_cases_closed", 50)
	res.RequireObs("queue_readfrom_failed_after_close", 50)
	res.RequireObs("queue_writeto_failed_after_close", 50)
	res.RequireObs("queue_pending_read_unblocked_by_close", 30)
	res.RequireObs("queue_concurrent_cases", 8)
	res.Require(res.GetObs("queue_capacity_read_from_code") > 0, "queue capacity could not be read")
}
