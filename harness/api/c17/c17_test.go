// C17 — Turbotunnel packet adapters: no surfaced errors, leaks or aliasing.
// Engine: api (exported API of common/turbotunnel), -race.
//
// Three sections (one per shard when run with 3 shards, all in sequence with 1):
//
//	0 redial    RedialPacketConn over scripted fake carriers        (redial_test.go)
//	1 queue     QueuePacketConn vs a reference model                (queue_test.go)
//	2 clientmap real-clock ClientMap, lower bound on expiry         (clientmap_test.go)
//
// This file: entry point, goroutine-dump helpers (leak rule A5, stuck monitor).
package c17

import (
	"fmt"
	"runtime"
	"sort"
	"strings"
	"testing"
	"time"

	"verif/vlib"
)

const ttFrame = "common/turbotunnel."
const sweeperFrame = "common/turbotunnel.NewClientMap"

// ttGoroutines counts the goroutines whose stack contains a common/turbotunnel
// frame (A5), not counting client-map sweepers (long-lived by design: one per
// NewClientMap, it has no way to stop). where: "innermost turbotunnel frame
// [state]" -> count.
func ttGoroutines() (n int, where map[string]int, sweepers int) {
	where = map[string]int{}
	for _, g := range vlib.ParseDump(vlib.DumpAll()) {
		if !g.HasFrame(ttFrame) {
			continue
		}
		if g.HasFrame(sweeperFrame) {
			sweepers++
			continue
		}
		n++
		f := g.FirstFrameWith(ttFrame)
		if f == "" {
			// only the "created by" line is turbotunnel's: a callback into the
			// harness (fake carrier) running on a turbotunnel goroutine
			for _, fr := range g.Frames {
				if strings.HasPrefix(fr, "created by ") && strings.Contains(fr, ttFrame) {
					f = fr
				}
			}
		}
		if i := strings.Index(f, ttFrame); i >= 0 {
			f = f[i+len("common/"):]
		}
		where[f+" ["+g.State+"]"]++
	}
	return
}

func whereString(where map[string]int) string {
	var ks []string
	for k := range where {
		ks = append(ks, k)
	}
	sort.Strings(ks)
	var sb strings.Builder
	for _, k := range ks {
		fmt.Fprintf(&sb, "%d x %s; ", where[k], k)
	}
	return strings.TrimSuffix(sb.String(), "; ")
}

// quiesce samples ttGoroutines every 100 ms until three consecutive samples
// agree (A5). ok=false: no quiescence within 15 s (the caller makes the case
// inconclusive).
func quiesce() (n int, where map[string]int, ok bool) {
	last, same := -1, 0
	for i := 0; i < 150; i++ {
		time.Sleep(100 * time.Millisecond)
		k, w, _ := ttGoroutines()
		if k == last {
			same++
		} else {
			last, same = k, 1
		}
		if same >= 3 {
			return k, w, true
		}
	}
	return last, nil, false
}

// myGoroutineID returns the id of the calling goroutine as it appears in dumps.
func myGoroutineID() string {
	b := make([]byte, 64)
	b = b[:runtime.Stack(b, false)]
	s := strings.TrimPrefix(string(b), "goroutine ")
	if i := strings.IndexByte(s, ' '); i > 0 {
		return s[:i]
	}
	return ""
}

// parkedInTurbotunnel looks up goroutine id in a fresh dump and reports whether
// it is parked (not running/runnable) with its innermost non-runtime frame in
// turbotunnel — i.e. blocked inside the code under test. desc describes it.
func parkedInTurbotunnel(id string) (parked bool, desc string) {
	for _, g := range vlib.ParseDump(vlib.DumpAll()) {
		if g.ID != id {
			continue
		}
		desc = fmt.Sprintf("goroutine %s [%s] at %s", g.ID, g.State, g.FirstFrameWith(ttFrame))
		if g.State == "running" || g.State == "runnable" || strings.HasPrefix(g.State, "sleep") {
			return false, desc
		}
		for _, f := range g.Frames {
			if strings.HasPrefix(f, "runtime.") || strings.HasPrefix(f, "created by ") {
				continue
			}
			return strings.Contains(f, ttFrame), desc
		}
		return false, desc
	}
	return false, "goroutine " + id + " not in dump"
}

func waitCh(ch <-chan struct{}, d time.Duration) bool {
	select {
	case <-ch:
		return true
	default:
	}
	t := time.NewTimer(d)
	defer t.Stop()
	select {
	case <-ch:
		return true
	case <-t.C:
		return false
	}
}

func TestVerifC17(t *testing.T) {
	res := vlib.NewResult("C17", "api-c17", "RedialPacketConn: scripted fake carriers, one scenario = (sequence of carriers each with a failure order in {read-first, write-first, both-at-once, external-close, never} x blocked/non-blocked write side, how it ends: dial fails after k successes | Close while live | Close racing dial k | Close during a blocked dial), leak rule A5 per failure order at 25 and 100 redials; QueuePacketConn: PRNG operation sequences vs reference model incl. bursts across capacity, buffer reuse and Close; ClientMap: real-clock expiry trials (200 ms timeout). Non-trivial = redial scenario with >=1 redial, queue sequence with >=1 delivered packet after a caller-side buffer mutation and >=2 addresses or a capacity burst, client-map trial that observed a closure; distinct by script")
	defer res.Finish()
	si, sn := vlib.Shard()
	runs := func(section int) bool { return section%sn == si }
	root := vlib.NewRand(vlib.Seed()).Split("c17")
	if runs(0) {
		runRedial(res, root.Split("redial"))
	}
	if runs(1) {
		runQueue(res, root.Split("queue"))
	}
	if runs(2) {
		runClientMap(res, root.Split("clientmap"))
	}
}
