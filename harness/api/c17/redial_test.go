// C17 section 0 — RedialPacketConn over scripted fake carriers.
//
// A fake carrier is a net.PacketConn whose read and write sides follow a
// script. Failure orders (how the two directions of one carrier fail):
//
//	read-first      ReadFrom returns an error after handing out NIn packets;
//	                WriteTo stays healthy until the carrier is closed
//	write-first     WriteTo number NOut+1 returns an error; ReadFrom hands out
//	                NIn packets and then blocks until the carrier is closed
//	both-at-once    WriteTo number NOut+1 breaks the carrier: it returns an
//	                error and the blocked ReadFrom returns one at the same time
//	external-close  after NIn packets somebody else (the remote end) tears the
//	                carrier down: the blocked ReadFrom returns an error, WriteTo
//	                fails from then on (lazily: only if something is written)
//	never           neither side fails by itself; both fail once the carrier is
//	                closed (Close of the RedialPacketConn while the carrier is live)
//
// BlockedWrite: WriteTo blocks (back-pressure) until the carrier is closed,
// broken or released. All carriers honour the net.PacketConn contract: Close
// unblocks pending ReadFrom/WriteTo with an error.
//
// Monitors:
//   - surfaced-error:*     ReadFrom/WriteTo of the RedialPacketConn returned an
//     error although neither Close had been called nor a dial had failed
//     (flags are set BEFORE the harness calls Close / the dial returns its error)
//   - two-carriers-live    the dial function hands over a new carrier while an
//     earlier one has not been closed
//   - carrier-not-closed   a carrier is still un-closed when the dial loop is gone
//   - leak:goroutine-per-redial:<order>  rule A5
//   - leak:goroutine-after-close:<variant>
package c17

import (
	"context"
	"encoding/binary"
	"encoding/json"
	"errors"
	"fmt"
	"hash/fnv"
	"net"
	"sync"
	"sync/atomic"
	"time"

	"git.torproject.org/pluggable-transports/snowflake.git/v2/common/turbotunnel"
	"verif/vlib"
)

var (
	errCarrierClosed = errors.New("fake carrier: use of closed carrier")
	errReadBroken    = errors.New("fake carrier: read side failed")
	errWriteBroken   = errors.New("fake carrier: write side failed")
	errBroken        = errors.New("fake carrier: carrier broken")
	errDial          = errors.New("fake dial: failed")
)

type fakeAddr string

func (a fakeAddr) Network() string { return "fake" }
func (a fakeAddr) String() string  { return string(a) }

const (
	ordRead  = "read-first"
	ordWrite = "write-first"
	ordBoth  = "both-at-once"
	ordExt   = "external-close"
	ordNever = "never"
)

type carrierScript struct {
	Order        string `json:"order"`
	NIn          int    `json:"packets_in"`
	NOut         int    `json:"writes_ok"`
	BlockedWrite bool   `json:"blocked_write,omitempty"`
	Hold         bool   `json:"hold,omitempty"` // read side waits for the harness before it acts
}

type redialScript struct {
	Case        string          `json:"case"`
	Carriers    []carrierScript `json:"carriers"`
	End         string          `json:"end"` // dial-fails | close-live | close-racing-dial | close-during-dial-then-carrier | close-during-dial-then-error
	CloseAtDial int             `json:"close_at_dial,omitempty"`
	CloseEarly  bool            `json:"close_before_packets,omitempty"`
	Writer      string          `json:"writer"`
	Events      []string        `json:"events,omitempty"`
}

// ---- packets ------------------------------------------------------------------

func mkPkt(magic byte, a, b uint32, n int) []byte {
	if n < 10 {
		n = 10
	}
	p := make([]byte, n)
	p[0], p[1] = 'C', magic
	binary.BigEndian.PutUint32(p[2:], a)
	binary.BigEndian.PutUint32(p[6:], b)
	for j := 10; j < n; j++ {
		p[j] = byte(a*31 + b*7 + uint32(j))
	}
	return p
}

func okPkt(magic byte, p []byte) bool {
	if len(p) < 10 || p[0] != 'C' || p[1] != magic {
		return false
	}
	a := binary.BigEndian.Uint32(p[2:])
	b := binary.BigEndian.Uint32(p[6:])
	for j := 10; j < len(p); j++ {
		if p[j] != byte(a*31+b*7+uint32(j)) {
			return false
		}
	}
	return true
}

// ---- one run ------------------------------------------------------------------------

type redialRun struct {
	res    *vlib.Result
	script redialScript
	next   func(i int) (cs carrierScript, fail bool, gated bool)
	onDial func(i int)

	mu        sync.Mutex
	carriers  []*carrier
	dialCalls int
	events    []string
	sigs      map[string]chan struct{}
	fired     map[string]bool

	closeCalled int32
	dialFailed  int32
	conn        *turbotunnel.RedialPacketConn
	connReady   chan struct{}
	gate        chan struct{}
	gateOnce    sync.Once
	deadCh      chan struct{} // closed when an error surfaced without cause: the run cannot go on
	deadOnce    sync.Once

	pktsIn, pktsOut         int64
	errAfterClose           int64
	errAfterDialFail        int64
	dialEnteredWithUnclosed int64
}

func newRedialRun(res *vlib.Result, sc redialScript) *redialRun {
	return &redialRun{res: res, script: sc, sigs: map[string]chan struct{}{}, fired: map[string]bool{},
		connReady: make(chan struct{}), gate: make(chan struct{}), deadCh: make(chan struct{})}
}

func (rr *redialRun) event(format string, a ...interface{}) {
	rr.mu.Lock()
	if len(rr.events) < 120 {
		rr.events = append(rr.events, fmt.Sprintf(format, a...))
	}
	rr.mu.Unlock()
}

func (rr *redialRun) replay() redialScript {
	sc := rr.script
	rr.mu.Lock()
	sc.Events = append([]string(nil), rr.events...)
	rr.mu.Unlock()
	if len(sc.Carriers) > 12 {
		sc.Carriers = sc.Carriers[:12]
	}
	return sc
}

func (rr *redialRun) ch(key string) chan struct{} {
	rr.mu.Lock()
	defer rr.mu.Unlock()
	c := rr.sigs[key]
	if c == nil {
		c = make(chan struct{})
		rr.sigs[key] = c
	}
	return c
}

func (rr *redialRun) fire(key string) {
	rr.mu.Lock()
	c := rr.sigs[key]
	if c == nil {
		c = make(chan struct{})
		rr.sigs[key] = c
	}
	if !rr.fired[key] {
		rr.fired[key] = true
		close(c)
	}
	rr.mu.Unlock()
}

// await waits for an event of this run. It gives up at once when the
// connection died of a surfaced error (already reported as a violation).
func (rr *redialRun) await(key string, d time.Duration) bool {
	ch := rr.ch(key)
	select {
	case <-ch:
		return true
	default:
	}
	t := time.NewTimer(d)
	defer t.Stop()
	select {
	case <-ch:
		return true
	case <-rr.deadCh:
		return false
	case <-t.C:
		return false
	}
}

func (rr *redialRun) dead() bool {
	select {
	case <-rr.deadCh:
		return true
	default:
		return false
	}
}

func (rr *redialRun) openGate() { rr.gateOnce.Do(func() { close(rr.gate) }) }

func (rr *redialRun) unclosedLocked() int {
	n := 0
	for _, c := range rr.carriers {
		if atomic.LoadInt32(&c.closeCount) == 0 {
			n++
		}
	}
	return n
}

func (rr *redialRun) unclosed() int {
	rr.mu.Lock()
	defer rr.mu.Unlock()
	return rr.unclosedLocked()
}

func (rr *redialRun) carrierAt(i int) *carrier {
	rr.mu.Lock()
	defer rr.mu.Unlock()
	for _, c := range rr.carriers {
		if c.id == i {
			return c
		}
	}
	return nil
}

func (rr *redialRun) nCarriers() int {
	rr.mu.Lock()
	defer rr.mu.Unlock()
	return len(rr.carriers)
}

func (rr *redialRun) start() {
	rr.conn = turbotunnel.NewRedialPacketConn(fakeAddr("local"), fakeAddr("remote"), rr.dial)
	close(rr.connReady)
}

func (rr *redialRun) close() {
	<-rr.connReady
	atomic.StoreInt32(&rr.closeCalled, 1) // BEFORE Close: an error seen after this is legitimate
	rr.event("harness: Close()")
	rr.conn.Close()
	rr.fire("closed-by-harness")
}

type customDialError struct{ code int }

func (e customDialError) Error() string { return fmt.Sprintf("fake dial: failed with code %d", e.code) }

// dialErrorOfSomeType: real dial functions fail with errors of many concrete
// types (net.OpError, context errors, wrapped errors, the embedder's own).
func dialErrorOfSomeType(k int) error {
	switch k % 6 {
	case 0:
		return errDial
	case 1:
		return &net.OpError{Op: "dial", Net: "fake", Err: errDial}
	case 2:
		return context.DeadlineExceeded
	case 3:
		return fmt.Errorf("fake dial: %w", errDial)
	case 4:
		return customDialError{k}
	}
	return &customDialError{k}
}

// dial is the dialContext function handed to NewRedialPacketConn.
func (rr *redialRun) dial(ctx context.Context) (net.PacketConn, error) {
	rr.mu.Lock()
	i := rr.dialCalls
	rr.dialCalls++
	un := rr.unclosedLocked()
	rr.mu.Unlock()
	if un > 0 {
		atomic.AddInt64(&rr.dialEnteredWithUnclosed, 1)
	}
	cs, fail, gated := rr.next(i)
	rr.event("dial %d entered (unclosed carriers: %d)", i, un)
	if rr.onDial != nil {
		rr.onDial(i)
	}
	if gated {
		rr.fire("dial-blocked")
		if !waitCh(rr.gate, 120*time.Second) {
			rr.res.Inconcl(rr.script.Case + ": gated dial never released")
		}
	}
	if fail {
		atomic.StoreInt32(&rr.dialFailed, 1) // BEFORE returning the error
		rr.event("dial %d returns error", i)
		rr.fire("dial-failed")
		return nil, dialErrorOfSomeType(i + len(rr.script.Case))
	}
	c := newCarrier(rr, i, cs)
	rr.mu.Lock()
	un = rr.unclosedLocked()
	rr.carriers = append(rr.carriers, c)
	rr.mu.Unlock()
	rr.event("dial %d returns carrier %s", i, cs.Order)
	if un > 0 {
		rr.res.Violatef("two-carriers-live", rr.replay(), "dial %d hands over a new carrier while %d earlier carrier(s) have not been closed", i, un)
	}
	rr.res.Obs("carriers_dialled_"+cs.Order, 1)
	rr.fire(fmt.Sprintf("dialled/%d", i))
	return c, nil
}

// readerLoop plays KCP's reader: it calls ReadFrom until it fails.
func (rr *redialRun) readerLoop(done chan struct{}) {
	defer close(done)
	<-rr.connReady
	buf := make([]byte, 2048)
	for {
		n, _, err := rr.conn.ReadFrom(buf)
		if err != nil {
			rr.judgeError("ReadFrom", err)
			return
		}
		if !okPkt('R', buf[:n]) {
			rr.res.Violatef("packet-corrupt:recv", rr.replay(), "ReadFrom delivered %d bytes that no carrier handed out: %x", n, buf[:minInt(n, 24)])
			return
		}
		atomic.AddInt64(&rr.pktsIn, 1)
	}
}

func (rr *redialRun) judgeError(op string, err error) {
	cl := atomic.LoadInt32(&rr.closeCalled) == 1
	df := atomic.LoadInt32(&rr.dialFailed) == 1
	switch {
	case !cl && !df:
		rr.event("%s returned %v", op, err)
		rr.res.Violatef("surfaced-error:"+op, rr.replay(), "%s returned %q although Close was not called and no dial failed", op, err.Error())
		rr.deadOnce.Do(func() { close(rr.deadCh) })
	case df:
		atomic.AddInt64(&rr.errAfterDialFail, 1)
	default:
		atomic.AddInt64(&rr.errAfterClose, 1)
	}
}

type writerCtl struct {
	stopF, pauseF, pausedF int32
	done                   chan struct{}
}

// startWriter plays KCP's writer: WriteTo in a paced loop, a fresh buffer per packet.
func (rr *redialRun) startWriter() *writerCtl {
	w := &writerCtl{done: make(chan struct{})}
	go func() {
		defer close(w.done)
		<-rr.connReady
		var seq uint32
		for {
			if atomic.LoadInt32(&w.stopF) == 1 {
				return
			}
			if atomic.LoadInt32(&w.pauseF) == 1 {
				atomic.StoreInt32(&w.pausedF, 1)
				time.Sleep(500 * time.Microsecond)
				continue
			}
			atomic.StoreInt32(&w.pausedF, 0)
			seq++
			p := mkPkt('W', 0, seq, 10+int(seq%37)*30)
			_, err := rr.conn.WriteTo(p, fakeAddr("ignored"))
			if err != nil {
				rr.judgeError("WriteTo", err)
				return
			}
			time.Sleep(20 * time.Microsecond)
		}
	}()
	return w
}

func (w *writerCtl) pause() {
	if w == nil {
		return
	}
	atomic.StoreInt32(&w.pauseF, 1)
	for atomic.LoadInt32(&w.pausedF) == 0 {
		select {
		case <-w.done:
			return
		default:
		}
		time.Sleep(200 * time.Microsecond)
	}
}

func (w *writerCtl) resume() {
	if w != nil {
		atomic.StoreInt32(&w.pauseF, 0)
	}
}

func (w *writerCtl) stop() {
	if w == nil {
		return
	}
	atomic.StoreInt32(&w.stopF, 1)
	waitCh(w.done, 60*time.Second)
}

var notClosedSeen int32

// awaitAllClosed: after the RedialPacketConn ended, every carrier it obtained
// must get closed. Decided by the goroutine dump, not by a deadline: once no
// dialLoop goroutine is left nobody will ever close a carrier.
func (rr *redialRun) awaitAllClosed() {
	patience := 300 * time.Millisecond
	if atomic.LoadInt32(&notClosedSeen) >= 5 {
		patience = 10 * time.Millisecond
	}
	for t0 := time.Now(); time.Since(t0) < patience; {
		if rr.unclosed() == 0 {
			return
		}
		time.Sleep(100 * time.Microsecond)
	}
	if atomic.LoadInt32(&notClosedSeen) >= 5 {
		rr.res.Obs("carrier_not_closed_checks_skipped_after_5_violations", 1)
		return
	}
	for i := 0; i < 100; i++ {
		alive := false
		for _, g := range vlib.ParseDump(vlib.DumpAll()) {
			if g.HasFrame("(*RedialPacketConn).dialLoop") {
				alive = true
			}
		}
		un := rr.unclosed()
		if un == 0 {
			return
		}
		if !alive {
			atomic.AddInt32(&notClosedSeen, 1)
			var ids []int
			rr.mu.Lock()
			for _, c := range rr.carriers {
				if atomic.LoadInt32(&c.closeCount) == 0 {
					ids = append(ids, c.id)
				}
			}
			rr.mu.Unlock()
			rr.res.Violatef("carrier-not-closed", rr.replay(), "%d carrier(s) returned by the dial function were never closed (dial indices %v) and no dialLoop goroutine is left", un, ids)
			return
		}
		time.Sleep(200 * time.Millisecond)
	}
	rr.res.Inconcl(rr.script.Case + ": carriers un-closed but a dialLoop goroutine is still alive after 20 s")
}

func minInt(a, b int) int {
	if a < b {
		return a
	}
	return b
}

// ---- the fake carrier -------------------------------------------------------------------

type carrier struct {
	rr         *redialRun
	id         int
	script     carrierScript
	closedCh   chan struct{}
	closeOnce  sync.Once
	closeCount int32
	brokenCh   chan struct{}
	breakOnce  sync.Once
	release    chan struct{}
	relOnce    sync.Once
	reads      int32
	writes     int32
}

func newCarrier(rr *redialRun, id int, cs carrierScript) *carrier {
	return &carrier{rr: rr, id: id, script: cs, closedCh: make(chan struct{}), brokenCh: make(chan struct{}), release: make(chan struct{})}
}

func (c *carrier) breakNow()   { c.breakOnce.Do(func() { close(c.brokenCh) }) }
func (c *carrier) releaseNow() { c.relOnce.Do(func() { close(c.release) }) }

func (c *carrier) ReadFrom(p []byte) (int, net.Addr, error) {
	k := int(atomic.AddInt32(&c.reads, 1))
	select {
	case <-c.closedCh:
		return 0, nil, errCarrierClosed
	case <-c.brokenCh:
		return 0, nil, errBroken
	default:
	}
	if k <= c.script.NIn {
		pkt := mkPkt('R', uint32(c.id), uint32(k), 10+(c.id*7+k*131)%1400)
		return copy(p, pkt), fakeAddr("carrier-peer"), nil
	}
	c.rr.fire(fmt.Sprintf("hold/%d", c.id))
	if c.script.Hold {
		select {
		case <-c.release:
		case <-c.closedCh:
			return 0, nil, errCarrierClosed
		}
	}
	switch c.script.Order {
	case ordRead:
		if c.script.BlockedWrite {
			// fail only once a WriteTo is in flight: "read side fails while the write side is blocked"
			select {
			case <-c.rr.ch(fmt.Sprintf("write-entered/%d", c.id)):
			case <-c.closedCh:
				return 0, nil, errCarrierClosed
			}
		}
		c.rr.event("carrier %d: ReadFrom fails", c.id)
		return 0, nil, errReadBroken
	case ordExt:
		c.rr.event("carrier %d: torn down from outside", c.id)
		c.breakNow()
	}
	select {
	case <-c.closedCh:
		return 0, nil, errCarrierClosed
	case <-c.brokenCh:
		c.rr.event("carrier %d: blocked ReadFrom fails (carrier broken)", c.id)
		return 0, nil, errBroken
	}
}

func (c *carrier) WriteTo(p []byte, addr net.Addr) (int, error) {
	k := int(atomic.AddInt32(&c.writes, 1))
	select {
	case <-c.closedCh:
		return 0, errCarrierClosed
	case <-c.brokenCh:
		return 0, errBroken
	default:
	}
	if !okPkt('W', p) {
		c.rr.res.Violatef("packet-corrupt:send", c.rr.replay(), "carrier %d was given %d bytes the harness never wrote: %x", c.id, len(p), p[:minInt(len(p), 24)])
	}
	atomic.AddInt64(&c.rr.pktsOut, 1)
	if c.script.BlockedWrite {
		c.rr.fire(fmt.Sprintf("write-entered/%d", c.id))
		select {
		case <-c.closedCh:
			return 0, errCarrierClosed
		case <-c.brokenCh:
			return 0, errBroken
		case <-c.release:
			return len(p), nil
		}
	}
	switch c.script.Order {
	case ordWrite:
		if k > c.script.NOut {
			c.rr.event("carrier %d: WriteTo %d fails", c.id, k)
			return 0, errWriteBroken
		}
	case ordBoth:
		if k > c.script.NOut {
			c.rr.event("carrier %d: WriteTo %d breaks the carrier (both sides fail)", c.id, k)
			c.breakNow()
			return 0, errBroken
		}
	}
	return len(p), nil
}

func (c *carrier) Close() error {
	n := atomic.AddInt32(&c.closeCount, 1)
	c.closeOnce.Do(func() { close(c.closedCh) })
	c.rr.event("carrier %d: Close() #%d", c.id, n)
	if n > 1 {
		c.rr.res.Obs("carrier_closed_more_than_once", 1)
		return errCarrierClosed
	}
	return nil
}

func (c *carrier) LocalAddr() net.Addr                { return fakeAddr("carrier-local") }
func (c *carrier) SetDeadline(t time.Time) error      { return nil }
func (c *carrier) SetReadDeadline(t time.Time) error  { return nil }
func (c *carrier) SetWriteDeadline(t time.Time) error { return nil }

// ---- leak rule A5 ----------------------------------------------------------------------------

type leakReplay struct {
	Case     string         `json:"case"`
	Order    string         `json:"failure_order"`
	Writer   string         `json:"writer"`
	R        int            `json:"R"`
	GR       int            `json:"goroutines_after_R_redials"`
	G4R      int            `json:"goroutines_after_4R_redials"`
	GClosed  int            `json:"goroutines_after_close"`
	WhereR   map[string]int `json:"parked_after_R"`
	Where4R  map[string]int `json:"parked_after_4R"`
	Example  carrierScript  `json:"example_carrier"`
	Carriers int            `json:"carriers_dialled"`
}

const leakR = 25

func leakScenario(res *vlib.Result, name string, idSuffix string, busy bool, gen func(i int) carrierScript) {
	res.Eval(1)
	id := "leak/" + name + idSuffix
	wname := "idle"
	if busy {
		wname = "busy"
	}
	rr := newRedialRun(res, redialScript{Case: id, End: "close-live", Writer: wname, Carriers: []carrierScript{gen(0), gen(1), gen(2)}})
	rr.next = func(i int) (carrierScript, bool, bool) {
		cs := gen(i)
		if i == leakR || i >= 4*leakR {
			// the carrier the run rests on while goroutines are counted: healthy write side,
			// read side waits for the harness, then fails
			cs = carrierScript{Order: ordRead, NIn: cs.NIn, Hold: true}
		}
		return cs, false, false
	}
	rr.start()
	rdone := make(chan struct{})
	go rr.readerLoop(rdone)
	var w *writerCtl
	if busy {
		w = rr.startWriter()
	}
	abort := func(why string) {
		if !rr.dead() { // a surfaced error was reported as a violation already
			res.Inconcl(id + ": " + why)
		}
		rr.close()
		w.resume()
		w.stop()
		waitCh(rdone, 30*time.Second)
		res.Save()
	}
	if !rr.await(fmt.Sprintf("hold/%d", leakR), 120*time.Second) {
		abort(fmt.Sprintf("did not reach %d redials in 120 s (%d dials)", leakR, rr.nCarriers()))
		return
	}
	w.pause()
	g1, w1, ok := quiesce()
	if !ok {
		abort("no quiescence after R redials")
		return
	}
	rr.carrierAt(leakR).releaseNow()
	w.resume()
	if !rr.await(fmt.Sprintf("hold/%d", 4*leakR), 120*time.Second) {
		abort(fmt.Sprintf("did not reach %d redials in 120 s (%d dials)", 4*leakR, rr.nCarriers()))
		return
	}
	w.pause()
	g2, w2, ok := quiesce()
	if !ok {
		abort("no quiescence after 4R redials")
		return
	}
	rr.close()
	w.resume()
	w.stop()
	if !waitCh(rdone, 60*time.Second) {
		res.Inconcl(id + ": ReadFrom still blocked 60 s after Close")
	}
	rr.awaitAllClosed()
	g3, _, _ := quiesce()
	rep := leakReplay{Case: id, Order: name, Writer: wname, R: leakR, GR: g1, G4R: g2, GClosed: g3, WhereR: w1, Where4R: w2, Example: gen(1), Carriers: rr.nCarriers()}
	res.Obs("leak_scenarios", 1)
	res.Obs("leak_redials_driven", int64(rr.nCarriers()-1))
	res.Note("leak_"+name+idSuffix, map[string]int{"g_R": g1, "g_4R": g2, "g_after_close": g3})
	res.Distinct(id)
	if g2-g1 >= leakR {
		delta := map[string]int{}
		for k, v := range w2 {
			if v-w1[k] != 0 {
				delta[k] = v - w1[k]
			}
		}
		res.Violatef("leak:goroutine-per-redial:"+name, rep,
			"failure order %s: %d goroutines with a turbotunnel frame after %d redials, %d after %d (difference %d >= R=%d); the additional ones are parked at: %s; after Close %d remain",
			name, g1, leakR, g2, 4*leakR, g2-g1, leakR, whereString(delta), g3)
	}
	if n := atomic.LoadInt64(&rr.dialEnteredWithUnclosed); n > 0 {
		res.Obs("dial_entered_with_unclosed_carrier", n)
	}
	res.Obs("packets_relayed_in", atomic.LoadInt64(&rr.pktsIn))
	res.Obs("packets_relayed_out", atomic.LoadInt64(&rr.pktsOut))
	res.Save()
}

// afterCloseScenario: one RedialPacketConn, closed in a given situation; at
// quiescence no goroutine with a turbotunnel frame may be left (A5, last sentence;
// no client map is involved here, so the expected count is zero).
func afterCloseScenario(res *vlib.Result, variant string) {
	res.Eval(1)
	id := "after-close/" + variant
	g0, where0, ok0 := quiesce()
	sc := redialScript{Case: id, Writer: "idle"}
	switch variant {
	case "idle-carrier":
		sc.Carriers = []carrierScript{{Order: ordNever, NIn: 2}}
		sc.End = "close-live"
	case "blocked-write":
		sc.Carriers = []carrierScript{{Order: ordNever, NIn: 2, BlockedWrite: true}}
		sc.End = "close-live"
		sc.Writer = "one-packet"
	case "during-blocked-dial":
		sc.End = "close-during-dial-then-carrier"
	case "after-dial-failure":
		sc.Carriers = []carrierScript{{Order: ordRead, NIn: 1}, {Order: ordExt, NIn: 1}}
		sc.End = "dial-fails"
	}
	rr := newRedialRun(res, sc)
	rr.next = scriptedNext(sc)
	rr.start()
	rdone := make(chan struct{})
	go rr.readerLoop(rdone)
	okw := true
	switch variant {
	case "idle-carrier":
		okw = rr.await("hold/0", 60*time.Second)
		rr.close()
	case "blocked-write":
		okw = rr.await("hold/0", 60*time.Second)
		rr.conn.WriteTo(mkPkt('W', 0, 1, 100), fakeAddr("x"))
		okw = okw && rr.await("write-entered/0", 60*time.Second)
		rr.close()
		// both directions of the carrier are blocked now; what the connection does
		// until the write returns is observed, not judged
		gb, _, _ := quiesce()
		res.Obs("close_while_write_blocked_goroutines_until_write_returns", int64(gb-g0))
		res.Obs("close_while_write_blocked_carrier_still_open", int64(rr.unclosed()))
		if c := rr.carrierAt(0); c != nil {
			c.releaseNow()
		}
	case "during-blocked-dial":
		okw = rr.await("dial-blocked", 60*time.Second)
		rr.close()
		rr.openGate()
	case "after-dial-failure":
		okw = rr.await("dial-failed", 60*time.Second)
	}
	if !okw || !waitCh(rdone, 60*time.Second) {
		if !rr.dead() {
			res.Inconcl(id + ": scenario did not reach its end state")
		}
		rr.close()
		rr.openGate()
		if c := rr.carrierAt(0); c != nil {
			c.releaseNow()
		}
		return
	}
	rr.awaitAllClosed()
	g, where, ok := quiesce()
	if !ok || !ok0 {
		res.Inconcl(id + ": no quiescence")
		return
	}
	res.Obs("after_close_scenarios", 1)
	res.Distinct(id)
	res.Note("after_close_"+variant, map[string]int{"before": g0, "after": g})
	if g > g0 {
		rep := rr.replay()
		delta := map[string]int{}
		for k, v := range where {
			if v-where0[k] != 0 {
				delta[k] = v - where0[k]
			}
		}
		res.Violatef("leak:goroutine-after-close:"+variant, map[string]interface{}{"case": id, "script": rep, "goroutines_before": g0, "goroutines_after": g, "additional_parked": delta},
			"%s: %d goroutine(s) with a turbotunnel frame remain after the RedialPacketConn ended; parked at: %s", variant, g-g0, whereString(delta))
	}
	if variant == "after-dial-failure" {
		rr.close()
	}
}

// ---- scripted short scenarios --------------------------------------------------------------------

func scriptedNext(sc redialScript) func(i int) (carrierScript, bool, bool) {
	return func(i int) (carrierScript, bool, bool) {
		if i < len(sc.Carriers) {
			return sc.Carriers[i], false, false
		}
		if i == len(sc.Carriers) {
			switch sc.End {
			case "dial-fails":
				return carrierScript{}, true, false
			case "close-during-dial-then-carrier":
				return carrierScript{Order: ordNever, NIn: 1}, false, true
			case "close-during-dial-then-error":
				return carrierScript{}, true, true
			}
		}
		return carrierScript{Order: ordNever}, false, false
	}
}

var allOrders = []string{ordRead, ordWrite, ordBoth, ordExt}

func genRedialScript(r *vlib.Rand, id string) redialScript {
	sc := redialScript{Case: id, Writer: "busy"}
	n := r.Range(0, 6)
	for i := 0; i < n; i++ {
		cs := carrierScript{Order: r.PickString(allOrders), NIn: r.Intn(5), NOut: r.Intn(4)}
		if cs.Order == ordRead && r.Chance(1, 3) {
			cs.BlockedWrite = true
		}
		sc.Carriers = append(sc.Carriers, cs)
	}
	switch r.Intn(6) {
	case 0, 1:
		sc.End = "dial-fails"
	case 2:
		sc.End = "close-live"
		sc.Carriers = append(sc.Carriers, carrierScript{Order: ordNever, NIn: r.Intn(5), BlockedWrite: false})
		sc.CloseEarly = r.Bool()
	case 3:
		sc.End = "close-racing-dial"
		sc.Carriers = append(sc.Carriers, carrierScript{Order: ordNever, NIn: r.Intn(3)})
		sc.CloseAtDial = r.Intn(len(sc.Carriers))
	case 4:
		sc.End = "close-during-dial-then-carrier"
	default:
		sc.End = "close-during-dial-then-error"
	}
	return sc
}

func shortScenario(res *vlib.Result, sc redialScript) {
	res.Eval(1)
	rr := newRedialRun(res, sc)
	rr.next = scriptedNext(sc)
	if sc.End == "close-racing-dial" {
		var once sync.Once
		rr.onDial = func(i int) {
			if i == sc.CloseAtDial {
				once.Do(func() { go rr.close() })
			}
		}
	}
	rr.start()
	rdone := make(chan struct{})
	go rr.readerLoop(rdone)
	w := rr.startWriter()
	ok := true
	last := len(sc.Carriers) - 1
	switch sc.End {
	case "dial-fails":
		ok = rr.await("dial-failed", 60*time.Second)
	case "close-live":
		if sc.CloseEarly {
			ok = rr.await(fmt.Sprintf("dialled/%d", last), 60*time.Second)
		} else {
			ok = rr.await(fmt.Sprintf("hold/%d", last), 60*time.Second)
		}
		rr.close()
	case "close-racing-dial":
		ok = rr.await("closed-by-harness", 60*time.Second)
	default:
		ok = rr.await("dial-blocked", 60*time.Second)
		rr.close()
		rr.openGate()
	}
	if !ok {
		if !rr.dead() { // a surfaced error was reported as a violation already
			res.Inconcl(sc.Case + ": scenario did not reach its end event in 60 s")
		}
		rr.close()
		rr.openGate()
	}
	if !waitCh(rdone, 60*time.Second) {
		res.Inconcl(sc.Case + ": ReadFrom did not return 60 s after the end event")
		rr.close()
	}
	w.stop()
	rr.awaitAllClosed()
	if sc.End == "dial-fails" {
		rr.close() // tidy; returns an error, which is fine
	}
	res.Obs("short_scenarios", 1)
	res.Obs("short_scenarios_end_"+sc.End, 1)
	res.Obs("short_carriers_dialled", int64(rr.nCarriers()))
	res.Obs("errors_after_close", atomic.LoadInt64(&rr.errAfterClose))
	res.Obs("errors_after_dial_failure", atomic.LoadInt64(&rr.errAfterDialFail))
	res.Obs("packets_relayed_in", atomic.LoadInt64(&rr.pktsIn))
	res.Obs("packets_relayed_out", atomic.LoadInt64(&rr.pktsOut))
	if n := atomic.LoadInt64(&rr.dialEnteredWithUnclosed); n > 0 {
		res.Obs("dial_entered_with_unclosed_carrier", n)
	}
	if rr.nCarriers() >= 2 {
		b, _ := json.Marshal(sc)
		h := fnv.New64a()
		h.Write(b)
		res.Distinct(fmt.Sprintf("short/%x", h.Sum64()))
	}
}

// ---- section driver -----------------------------------------------------------------------------

// ---- a consumer that does not read --------------------------------------------------------

// floodCarrier delivers more packets than the receive queue holds and then
// waits; its write side fails from the first packet on.
type floodCarrier struct {
	n      int32
	closed chan struct{}
	once   sync.Once
}

func (c *floodCarrier) ReadFrom(p []byte) (int, net.Addr, error) {
	select {
	case <-c.closed:
		return 0, nil, errCarrierClosed
	default:
	}
	if atomic.AddInt32(&c.n, 1) <= 2300 {
		return copy(p, mkPkt('R', 1, 1, 32)), fakeAddr("remote"), nil
	}
	<-c.closed
	return 0, nil, errCarrierClosed
}
func (c *floodCarrier) WriteTo(p []byte, addr net.Addr) (int, error) { return 0, errWriteBroken }
func (c *floodCarrier) Close() error                                 { c.once.Do(func() { close(c.closed) }); return nil }
func (c *floodCarrier) LocalAddr() net.Addr                          { return fakeAddr("carrier-local") }
func (c *floodCarrier) SetDeadline(t time.Time) error                { return nil }
func (c *floodCarrier) SetReadDeadline(t time.Time) error            { return nil }
func (c *floodCarrier) SetWriteDeadline(t time.Time) error           { return nil }

// stalledReceiver: nobody calls ReadFrom on the redialing connection (a KCP
// reader that lags), every carrier delivers more than the receive queue holds,
// and every carrier's write side fails. After R redials the earlier carriers
// are closed and no goroutine of theirs may be left.
func stalledReceiver(res *vlib.Result) {
	res.Eval(1)
	const R = 14
	var mu sync.Mutex
	var carriers []*floodCarrier
	hold := make(chan struct{})
	dial := func(ctx context.Context) (net.PacketConn, error) {
		mu.Lock()
		k := len(carriers)
		mu.Unlock()
		if k >= R {
			select {
			case <-hold:
			case <-ctx.Done():
			}
			return nil, errDial
		}
		c := &floodCarrier{closed: make(chan struct{})}
		mu.Lock()
		carriers = append(carriers, c)
		mu.Unlock()
		return c, nil
	}
	base := countFrames("turbotunnel.(*RedialPacketConn).exchange")
	conn := turbotunnel.NewRedialPacketConn(fakeAddr("local"), fakeAddr("remote"), dial)
	stop := make(chan struct{})
	go func() { // the application keeps sending: each packet meets the current carrier's broken write side
		for {
			select {
			case <-stop:
				return
			default:
			}
			conn.WriteTo(mkPkt('W', 1, 1, 24), fakeAddr("remote"))
			time.Sleep(2 * time.Millisecond)
		}
	}()
	allDialled := vlib.WaitFor(60*time.Second, func() bool { mu.Lock(); defer mu.Unlock(); return len(carriers) >= R })
	// the goroutines of closed carriers end when they notice: wait for the state, judge what is left after 20 s
	vlib.WaitFor(20*time.Second, func() bool { return countFrames("turbotunnel.(*RedialPacketConn).exchange")-base <= 3 })
	closedCarriers := 0
	mu.Lock()
	for _, c := range carriers {
		select {
		case <-c.closed:
			closedCarriers++
		default:
		}
	}
	mu.Unlock()
	left := countFrames("turbotunnel.(*RedialPacketConn).exchange") - base
	close(stop)
	close(hold)
	conn.Close()
	rec := map[string]interface{}{"case": "leak/stalled-receiver", "redials": R, "carriers_closed": closedCarriers, "goroutines_in_exchange_after_the_redials": left}
	if !allDialled {
		res.Inconcl("leak/stalled-receiver: fewer than 14 carriers were dialled within 60 s")
		return
	}
	res.Obs("stalled_receiver_redials", R)
	// the carrier in use may have its reader and writer; the R-1 earlier ones nothing
	if left > 3 {
		res.Violatef("leak:goroutine-per-redial:stalled-receiver", rec, "nobody reads from the connection (receive queue full): after %d redials %d goroutines are inside exchange (at most the current carrier's two), %d carriers closed", R, left, closedCarriers)
	} else {
		res.Distinct("leak/stalled-receiver")
	}
}

// countFrames counts goroutines with a frame containing s.
func countFrames(s string) int {
	n := 0
	for _, g := range vlib.ParseDump(vlib.DumpAll()) {
		if g.HasFrame(s) {
			n++
		}
	}
	return n
}

func runRedial(res *vlib.Result, root *vlib.Rand) {
	stalledReceiver(res)
	res.RequireObs("stalled_receiver_redials", 1)
	// 1. leak rule A5, one run per enumerated failure order
	leakScenario(res, "read-first", "", false, func(i int) carrierScript { return carrierScript{Order: ordRead, NIn: i % 3} })
	leakScenario(res, "read-first+blocked-write", "", true, func(i int) carrierScript {
		return carrierScript{Order: ordRead, NIn: i % 3, BlockedWrite: true}
	})
	leakScenario(res, "write-first", "", true, func(i int) carrierScript { return carrierScript{Order: ordWrite, NIn: i % 3, NOut: i % 3} })
	leakScenario(res, "both-at-once", "", true, func(i int) carrierScript { return carrierScript{Order: ordBoth, NIn: i % 2, NOut: i % 3} })
	leakScenario(res, "external-close", "", false, func(i int) carrierScript { return carrierScript{Order: ordExt, NIn: i % 3} })
	nMixed := vlib.Scale(1, 24)
	for m := 0; m < nMixed; m++ {
		mr := root.SplitN("mixed", m)
		picks := make([]carrierScript, 4*leakR+2)
		for i := range picks {
			switch mr.Intn(8) {
			case 0, 1, 2:
				picks[i] = carrierScript{Order: ordWrite, NIn: mr.Intn(4), NOut: mr.Intn(3)}
			case 3, 4:
				picks[i] = carrierScript{Order: ordBoth, NIn: mr.Intn(4), NOut: mr.Intn(3)}
			case 5:
				picks[i] = carrierScript{Order: ordRead, NIn: mr.Intn(4), BlockedWrite: true}
			case 6:
				picks[i] = carrierScript{Order: ordRead, NIn: mr.Intn(4)}
			default:
				picks[i] = carrierScript{Order: ordExt, NIn: mr.Intn(4)}
			}
		}
		leakScenario(res, "mixed", fmt.Sprintf("/%d", m), true, func(i int) carrierScript { return picks[i%len(picks)] })
	}

	// 2. no goroutine left after the connection ended
	for _, v := range []string{"idle-carrier", "blocked-write", "during-blocked-dial", "after-dial-failure"} {
		afterCloseScenario(res, v)
	}

	// 3. PRNG scenarios: carrier sequences x how it ends
	n := vlib.Scale(400, 30000)
	for i := 0; i < n; i++ {
		sc := genRedialScript(root.SplitN("short", i), fmt.Sprintf("short/%d", i))
		shortScenario(res, sc)
		if i%50 == 49 {
			res.Save() // keep what was found if a later case kills the process
		}
		if i < 2 {
			res.Sample(2, sc)
		}
	}
	g, where, _ := quiesce()
	res.Obs("residual_turbotunnel_goroutines_at_end_of_redial_section", int64(g))
	res.Note("residual_parked", where)

	res.RequireObs("leak_scenarios", 6)
	res.RequireObs("leak_redials_driven", 6*4*leakR)
	res.RequireObs("after_close_scenarios", 4)
	res.RequireObs("short_scenarios", 300)
	for _, e := range []string{"dial-fails", "close-live", "close-racing-dial", "close-during-dial-then-carrier", "close-during-dial-then-error"} {
		res.RequireObs("short_scenarios_end_"+e, 20)
	}
	for _, o := range []string{ordRead, ordWrite, ordBoth, ordExt, ordNever} {
		res.RequireObs("carriers_dialled_"+o, 100)
	}
	res.RequireObs("errors_after_close", 50)
	res.RequireObs("errors_after_dial_failure", 50)
	res.RequireObs("packets_relayed_in", 500)
	res.RequireObs("packets_relayed_out", 500)
}
