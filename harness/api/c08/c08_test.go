// C08 — Local addresses are stripped from SDP, nothing else is lost.
// Engine: api (exported util.StripLocalAddresses / util.IsLocal), -race.
//
// Oracle. Every input is parsed by the harness itself with pion's sdp package
// only to decide (a) "unparsable" (then the real function must return the input
// unchanged) and (b) "canonical" (marshal(unmarshal(in)) == in byte for byte).
// For canonical inputs the expected output is computed from the *text* of the
// input alone: every line is classified by an independent reference written
// from RFC 8839 §5.1 (candidate-attribute grammar) and RFC 1918 / 6598 / 3927 /
// 4193 / 4291 (address ranges, with net/netip):
//
//	strip   media-level, grammatically well-formed (transport UDP/TCP) host
//	        candidate whose connection-address is an IP literal in one of the
//	        ranges (IPv4-mapped IPv6: the embedded IPv4 decides)
//	keep    every other line, except
//	either  lines on which the property text takes no side: session-level
//	        a=candidate, candidate lines that violate the grammar but carry a
//	        token that is a local address, zoned / numeric-looking non-literals
//
// and the output's line sequence must equal the input's minus exactly the
// strip lines (either-lines may or may not be there). Non-canonical but
// parsable inputs are compared against their canonical form instead (the
// property is about what pion re-marshals; pion's normalisation is trusted
// there and counted separately). A panic anywhere is a violation.
package c08

import (
	"encoding/binary"
	"errors"
	"fmt"
	"hash/fnv"
	"net"
	"net/netip"
	"regexp"
	"strconv"
	"strings"
	"testing"
	"time"

	"git.torproject.org/pluggable-transports/snowflake.git/v2/common/util"
	"github.com/pion/ice/v2"
	"github.com/pion/sdp/v3"
	"github.com/pion/webrtc/v3"
	"verif/vlib"
)

// ---- reference address classifier (RFC texts, net/netip) ---------------------

type prefixClass struct {
	p     netip.Prefix
	class string
}

var refPrefixes = []prefixClass{
	{netip.MustParsePrefix("10.0.0.0/8"), "rfc1918"},     // RFC 1918 §3: 10/8
	{netip.MustParsePrefix("172.16.0.0/12"), "rfc1918"},  // RFC 1918 §3: 172.16/12
	{netip.MustParsePrefix("192.168.0.0/16"), "rfc1918"}, // RFC 1918 §3: 192.168/16
	{netip.MustParsePrefix("100.64.0.0/10"), "rfc6598"},  // RFC 6598 §7
	{netip.MustParsePrefix("169.254.0.0/16"), "rfc3927"}, // RFC 3927 §2.1
	{netip.MustParsePrefix("fc00::/7"), "rfc4193"},       // RFC 4193 §3.1
	{netip.MustParsePrefix("127.0.0.0/8"), "loopback"},   // RFC 1122 §3.2.1.3
	{netip.MustParsePrefix("::1/128"), "loopback"},       // RFC 4291 §2.5.3
	{netip.MustParsePrefix("0.0.0.0/32"), "unspecified"}, // RFC 1122 §3.2.1.3 {0,0}
	{netip.MustParsePrefix("::/128"), "unspecified"},     // RFC 4291 §2.5.2
}

// refClass returns "" for an address the property does not call local.
func refClass(a netip.Addr) (class string, mapped bool) {
	a = a.WithZone("")
	if a.Is4In6() {
		mapped = true
		a = a.Unmap()
	}
	for _, pc := range refPrefixes {
		if pc.p.Contains(a) {
			return pc.class, mapped
		}
	}
	return "", mapped
}

func isPrivateClass(c string) bool {
	return c == "rfc1918" || c == "rfc6598" || c == "rfc3927" || c == "rfc4193"
}

// ---- reference line classifier (RFC 8839 §5.1) --------------------------------

type expect int

const (
	expKeep expect = iota
	expStrip
	expEither
)

type lineInfo struct {
	exp  expect
	kind string // for signatures / observation names
}

func allDigits(s string, maxLen int) bool {
	if len(s) == 0 || len(s) > maxLen {
		return false
	}
	for i := 0; i < len(s); i++ {
		if s[i] < '0' || s[i] > '9' {
			return false
		}
	}
	return true
}

func isIceChars(s string, maxLen int) bool {
	if len(s) == 0 || len(s) > maxLen {
		return false
	}
	for i := 0; i < len(s); i++ {
		c := s[i]
		if !(c >= '0' && c <= '9' || c >= 'a' && c <= 'z' || c >= 'A' && c <= 'Z' || c == '+' || c == '/') {
			return false
		}
	}
	return true
}

func looksNumeric(s string) bool {
	for i := 0; i < len(s); i++ {
		c := s[i]
		if !(c >= '0' && c <= '9' || c >= 'a' && c <= 'f' || c >= 'A' && c <= 'F' || c == 'x' || c == 'X' || c == ':' || c == '.' || c == '[' || c == ']') {
			return false
		}
	}
	return true
}

// hasLocalToken: some whitespace-delimited token of v (brackets, zone and a
// trailing :port removed) is an IP literal the reference calls local, or is
// zoned. Used only to decide that a grammar-violating candidate line is one the
// property does not decide (either).
func hasLocalToken(v string) bool {
	for _, tok := range strings.Fields(v) {
		cands := []string{tok, strings.Trim(tok, "[]")}
		if i := strings.LastIndexByte(tok, ':'); i > 0 {
			cands = append(cands, tok[:i], strings.Trim(tok[:i], "[]"))
		}
		for _, c := range cands {
			if strings.Contains(c, "%") {
				return true
			}
			if a, err := netip.ParseAddr(c); err == nil {
				if cl, _ := refClass(a); cl != "" {
					return true
				}
			}
		}
	}
	return false
}

// candidate-attribute = "candidate" ":" foundation SP component-id SP transport
//
//	SP priority SP connection-address SP port SP cand-type
//	[SP rel-addr] [SP rel-port] *(SP extension-att-name SP extension-att-value)
type candFields struct {
	transport, addr, typ string
}

func parseCandidateStrict(v string) (candFields, bool) {
	var cf candFields
	f := strings.Split(v, " ")
	if len(f) < 8 || (len(f)-8)%2 != 0 {
		return cf, false
	}
	for _, x := range f {
		if x == "" {
			return cf, false
		}
		// any other white space inside a token: not the RFC's SP-separated form
		if len(strings.Fields(x)) != 1 || strings.Fields(x)[0] != x {
			return cf, false
		}
	}
	if !isIceChars(f[0], 32) {
		return cf, false
	}
	if !allDigits(f[1], 5) {
		return cf, false
	}
	if n, _ := strconv.Atoi(f[1]); n > 65535 {
		return cf, false
	}
	if !strings.EqualFold(f[2], "udp") && !strings.EqualFold(f[2], "tcp") {
		return cf, false
	}
	if !allDigits(f[3], 10) {
		return cf, false
	}
	if n, _ := strconv.ParseUint(f[3], 10, 64); n > 4294967295 {
		return cf, false
	}
	if !allDigits(f[5], 5) {
		return cf, false
	}
	if n, _ := strconv.Atoi(f[5]); n > 65535 {
		return cf, false
	}
	if f[6] != "typ" {
		return cf, false
	}
	switch f[7] {
	case "host", "srflx", "prflx", "relay":
	default:
		return cf, false
	}
	ext := f[8:]
	if len(ext) > 0 && ext[0] == "raddr" {
		if len(ext) < 4 || ext[2] != "rport" || !allDigits(ext[3], 5) {
			return cf, false
		}
		if n, _ := strconv.Atoi(ext[3]); n > 65535 {
			return cf, false
		}
	}
	cf.transport, cf.addr, cf.typ = f[2], f[4], f[7]
	return cf, true
}

// lenientHostCandidateClass: the reference class of the address when pion/ice
// (the consumer of candidates in client and proxy) parses the value as a host
// candidate whose address is a literal, un-zoned local address; "" otherwise.
func lenientHostCandidateClass(val string) (cl string) {
	defer func() {
		if recover() != nil {
			cl = ""
		}
	}()
	c, err := ice.UnmarshalCandidate(val)
	if err != nil || c == nil || c.Type() != ice.CandidateTypeHost {
		return ""
	}
	a, err := netip.ParseAddr(c.Address())
	if err != nil || a.Zone() != "" {
		return ""
	}
	k, mapped := refClass(a)
	if k == "" {
		return ""
	}
	if mapped {
		k += ":ipv4-mapped"
	}
	return k
}

func classifyLine(line string, inMedia bool) lineInfo {
	if !strings.HasPrefix(line, "a=") {
		return lineInfo{expKeep, "field"}
	}
	rest := line[2:]
	key, val := rest, ""
	if i := strings.IndexByte(rest, ':'); i > 0 {
		key, val = rest[:i], rest[i+1:]
	}
	if key != "candidate" {
		if inMedia && strings.EqualFold(strings.TrimSpace(key), "candidate") {
			return lineInfo{expEither, "candidate-key-variant"}
		}
		return lineInfo{expKeep, "attribute"}
	}
	if !inMedia {
		return lineInfo{expEither, "session-level-candidate"} // outside the property
	}
	cf, ok := parseCandidateStrict(val)
	if !ok {
		if hasLocalToken(val) {
			// Not the RFC's form - but if the ICE implementation that every snowflake
			// component uses to consume descriptions accepts the line as a host
			// candidate with a literal, un-zoned local address, then the description
			// does carry a usable host candidate with that address: it must go.
			if cl := lenientHostCandidateClass(val); cl != "" {
				return lineInfo{expStrip, "lenient-form:" + cl}
			}
			return lineInfo{expEither, "malformed-candidate-with-local-token"}
		}
		return lineInfo{expKeep, "malformed-candidate"}
	}
	a, err := netip.ParseAddr(cf.addr)
	if cf.typ != "host" {
		if err == nil {
			if cl, _ := refClass(a); cl != "" {
				return lineInfo{expKeep, "nonhost-candidate-local-address"}
			}
		}
		return lineInfo{expKeep, "nonhost-candidate"}
	}
	if err != nil {
		if looksNumeric(cf.addr) {
			return lineInfo{expEither, "host-candidate-numeric-nonliteral"}
		}
		if strings.HasSuffix(cf.addr, ".local") {
			return lineInfo{expKeep, "host-candidate-mdns"}
		}
		return lineInfo{expKeep, "host-candidate-hostname"}
	}
	if a.Zone() != "" {
		return lineInfo{expEither, "host-candidate-zoned"}
	}
	cl, mapped := refClass(a)
	if cl == "" {
		return lineInfo{expKeep, "host-candidate-nonlocal"}
	}
	if mapped {
		cl += ":ipv4-mapped"
	}
	return lineInfo{expStrip, cl}
}

// ---- running the real code ------------------------------------------------

var funcSuffix = regexp.MustCompile(`\.func\d+(\.\d+)*`)

// panicSite names the innermost non-runtime function below panic() in a stack
// text: a stable, number-free class name for a panic signature.
func panicSite(stack string) string {
	lines := strings.Split(stack, "\n")
	seenPanic := false
	for _, ln := range lines {
		if strings.HasPrefix(ln, "\t") || ln == "" {
			continue
		}
		if strings.HasPrefix(ln, "panic(") {
			seenPanic = true
			continue
		}
		if !seenPanic || strings.HasPrefix(ln, "runtime.") {
			continue
		}
		fn := ln
		if i := strings.LastIndexByte(fn, '('); i > 0 {
			fn = fn[:i]
		}
		parts := strings.Split(fn, "/")
		if len(parts) > 2 {
			parts = parts[len(parts)-2:]
		}
		return funcSuffix.ReplaceAllString(strings.Join(parts, "/"), ".func")
	}
	return "unknown-site"
}

func guardSite(res *vlib.Result, prefix string, replay interface{}, f func()) (panicked bool) {
	defer func() {
		if e := recover(); e != nil {
			panicked = true
			st := vlib.ShortStack()
			res.Violate(prefix+":"+panicSite(st), fmt.Sprintf("panic: %v\n%s", e, st), replay)
		}
	}()
	f()
	return false
}

type caseRec struct {
	Case  string `json:"case"`
	Input string `json:"input_go_quoted"`
	Len   int    `json:"input_len"`
	Desc  string `json:"desc,omitempty"`
	Line  string `json:"line_go_quoted,omitempty"`
	Got   string `json:"output_go_quoted,omitempty"`
}

func bounded(s string) string {
	if len(s) > 3000 {
		return strconv.Quote(s[:3000]) + "…"
	}
	return strconv.Quote(s)
}

func pionParse(in string) (d *sdp.SessionDescription, err error) {
	defer func() {
		if e := recover(); e != nil {
			d, err = nil, fmt.Errorf("harness: pion sdp panicked: %v", e)
		}
	}()
	d = new(sdp.SessionDescription)
	if err = d.Unmarshal([]byte(in)); err != nil {
		return nil, err
	}
	return d, nil
}

func pionMarshal(d *sdp.SessionDescription) (s string, err error) {
	defer func() {
		if e := recover(); e != nil {
			err = fmt.Errorf("harness: pion sdp marshal panicked: %v", e)
		}
	}()
	b, err := d.Marshal()
	return string(b), err
}

type caseStats struct {
	parsed, canonical    bool
	nStrip, nKeepCand    int
	nEither, nMedia      int
	checkedAgainstOracle bool
}

func splitCRLF(s string) ([]string, bool) {
	if s == "" {
		return nil, true
	}
	if !strings.HasSuffix(s, "\r\n") {
		return nil, false
	}
	lines := strings.Split(s[:len(s)-2], "\r\n")
	for _, l := range lines {
		if strings.ContainsAny(l, "\r\n") {
			return nil, false
		}
	}
	return lines, true
}

// checkStrip runs the real StripLocalAddresses on in and applies the oracle.
func checkStrip(res *vlib.Result, in, caseID, desc string) caseStats {
	var st caseStats
	res.Eval(1)
	rec := caseRec{Case: caseID, Input: bounded(in), Len: len(in), Desc: desc}
	var out string
	if guardSite(res, "panic:StripLocalAddresses", rec, func() { out = util.StripLocalAddresses(in) }) {
		res.Obs("panics", 1)
		return st
	}
	d, perr := pionParse(in)
	if perr != nil {
		res.Obs("unparsable_inputs", 1)
		if out != in {
			rec.Got = bounded(out)
			res.Violatef("unparsable-input-changed", rec, "input rejected by the SDP parser (%v) was not returned unchanged", perr)
		}
		return st
	}
	st.parsed = true
	canon, merr := pionMarshal(d)
	if merr != nil {
		res.Obs("skipped_marshal_error", 1)
		return st
	}
	if canon == in {
		st.canonical = true
		res.Obs("canonical_inputs", 1)
	} else {
		// parsable but not in pion's layout: compare against the canonical
		// form, provided that form is itself a fixed point
		res.Obs("noncanonical_parsable_inputs", 1)
		d2, e2 := pionParse(canon)
		if e2 != nil {
			if res.GetObs("skipped_canonical_form_unparsable") < 3 {
				res.Note(fmt.Sprintf("canon_unparsable_example_%d", res.GetObs("skipped_canonical_form_unparsable")), map[string]string{"case": caseID, "input": bounded(in), "canon": bounded(canon), "err": e2.Error()})
			}
			res.Obs("skipped_canonical_form_unparsable", 1)
			return st
		}
		c2, e3 := pionMarshal(d2)
		if e3 != nil || c2 != canon {
			if res.GetObs("skipped_canonical_form_unstable") < 3 {
				res.Note(fmt.Sprintf("unstable_example_%d", res.GetObs("skipped_canonical_form_unstable")), map[string]string{"case": caseID, "input": bounded(in), "canon": bounded(canon), "canon2": bounded(c2)})
			}
			res.Obs("skipped_canonical_form_unstable", 1)
			return st
		}
	}
	inLines, ok := splitCRLF(canon)
	if !ok {
		res.Obs("skipped_embedded_newline", 1)
		return st
	}
	outLines, ok := splitCRLF(out)
	if !ok {
		rec.Got = bounded(out)
		res.Violatef("output-not-crlf-lines", rec, "output of a parsable description is not a sequence of CRLF-terminated lines")
		return st
	}
	st.checkedAgainstOracle = true
	inMedia := false
	j := 0
	for i, ln := range inLines {
		if strings.HasPrefix(ln, "m=") {
			inMedia = true
			st.nMedia++
		}
		info := classifyLine(ln, inMedia)
		isCand := strings.HasPrefix(ln, "a=candidate")
		switch info.exp {
		case expStrip:
			st.nStrip++
			res.Obs("strip_"+info.kind, 1)
			if j < len(outLines) && outLines[j] == ln {
				rec.Line = strconv.Quote(ln)
				rec.Got = bounded(out)
				res.Violatef("local-host-candidate-kept:"+info.kind, rec, "line %d, a host candidate with a %s address, is still in the output", i+1, info.kind)
				return st
			}
		case expEither:
			st.nEither++
			if j < len(outLines) && outLines[j] == ln {
				j++
				res.Obs("either_kept_"+info.kind, 1)
			} else {
				res.Obs("either_removed_"+info.kind, 1)
			}
		default:
			if isCand {
				st.nKeepCand++
				res.Obs("keep_"+info.kind, 1)
			}
			if j >= len(outLines) || outLines[j] != ln {
				rec.Line = strconv.Quote(ln)
				rec.Got = bounded(out)
				got := "<end of output>"
				if j < len(outLines) {
					got = strconv.Quote(outLines[j])
				}
				res.Violatef("line-lost:"+info.kind, rec, "line %d (%s) is missing, altered or out of order in the output; output has %s there", i+1, info.kind, got)
				return st
			}
			j++
		}
	}
	if j != len(outLines) {
		rec.Line = strconv.Quote(outLines[j])
		rec.Got = bounded(out)
		res.Violatef("output-extra-lines", rec, "output has %d lines the input does not have", len(outLines)-j)
	}
	return st
}

// ---- address pool -----------------------------------------------------------

var boundaryV4 = []string{
	"9.255.255.255", "10.0.0.0", "10.0.0.1", "10.255.255.255", "11.0.0.0",
	"172.15.255.255", "172.16.0.0", "172.16.0.1", "172.24.1.1", "172.31.255.255", "172.32.0.0",
	"192.167.255.255", "192.168.0.0", "192.168.0.100", "192.168.255.255", "192.169.0.0",
	"100.63.255.255", "100.64.0.0", "100.100.100.100", "100.127.255.255", "100.128.0.0",
	"169.253.255.255", "169.254.0.0", "169.254.250.88", "169.254.255.255", "169.255.0.0",
	"126.255.255.255", "127.0.0.0", "127.0.0.1", "127.1.2.3", "127.255.255.255", "128.0.0.0",
	"0.0.0.0", "0.0.0.1", "0.255.255.255", "255.255.255.255",
	// one octet of a range only
	"172.0.0.1", "172.48.0.1", "172.80.0.1", "172.144.0.1", "100.0.0.1", "100.192.0.1", "100.200.1.1", "192.0.2.2",
	"192.88.99.1", "169.0.0.1", "11.10.10.10", "168.192.0.1", "16.172.0.1", "254.169.0.1", "64.100.0.1",
	// public
	"8.8.8.8", "1.1.1.1", "203.0.113.7", "198.51.100.3", "224.0.0.251",
}

var boundaryV6 = []string{
	"fbff:ffff:ffff:ffff:ffff:ffff:ffff:ffff", "fc00::", "fc00::1", "fcff:ffff:ffff:ffff:ffff:ffff:ffff:ffff",
	"fd00::", "fd00::2", "fdf8:f53b:82e4::53", "fdff:ffff:ffff:ffff:ffff:ffff:ffff:ffff", "fe00::", "fe00::1",
	"fe80::1", "febf::1", "fec0::1", "ff02::1", "ff15::101",
	"::1", "::2", "::", "::1:0", "1::", "1::1",
	"0:0:0:0:0:0:0:1", "0:0:0:0:0:0:0:0", "0000:0000:0000:0000:0000:0000:0000:0001",
	"FD00::ABCD", "Fc00::1", "fd00:0000:0000:0000:0000:0000:0000:0001", "FBFF::1", "FE00::",
	"2001:db8::1", "2620:0:2d0:200::7", "2a00:1450:4001:81b::200e", "fc::1", "fd::1", "00fc::1", "fcfc::fcfc",
	// IPv4 embedded but not IPv4-mapped: the IPv6 address itself decides
	"64:ff9b::a00:1", "64:ff9b::10.0.0.1", "::10.0.0.1", "::127.0.0.1", "2002:a00:1::1", "::fffe:10.0.0.1", "0:0:0:0:ffff:0:10.0.0.1",
	// IPv4-mapped in hexadecimal / mixed case
	"::ffff:0:0", "::ffff:7f00:1", "::ffff:a00:1", "::ffff:ac10:1", "::ffff:ac20:1", "::ffff:c0a8:1", "::ffff:6440:1",
	"::ffff:6480:1", "::ffff:a9fe:1", "::ffff:808:808", "::FFFF:10.0.0.1", "0:0:0:0:0:ffff:c0a8:0001", "0:0:0:0:0:FFFF:8.8.8.8",
}

var publicAddrs = []string{"8.8.8.8", "1.2.3.4", "192.0.2.2", "203.0.113.7", "2001:db8::1", "2620:0:2d0:200::7", "93.184.216.34", "151.101.1.69"}

var oddAddrs = []string{
	"example.com", "host-1.example.net", "localhost", "10.0.0.1.local", "local", ".local", "x.LOCAL", "a.local.", "snowflake.torproject.net",
	"010.0.0.1", "10.0.0.1.", "10.0.1", "0x0a.0.0.1", "167772161", "10.0.0.256", "10.0.0", "1.2.3.4.5", "192.168.1", "127.1", "0",
	"fd00::1%eth0", "fe80::1%1", "::1%lo", "fd00:::1", "fd00::g", "[fd00::1]", "[::1]", "::ffff:10.0.0.1%x", "::ffff:10.0.0", "12345::1", "fd00::1::2", ":", "::ffff:010.0.0.1",
	"10.0.0.1:5000", "192.168.0.1/24", "fd00::/8",
}

func mdnsName(r *vlib.Rand) string {
	h := r.Bytes(16)
	return fmt.Sprintf("%x-%x-%x-%x-%x.local", h[0:4], h[4:6], h[6:8], h[8:10], h[10:16])
}

func randV4(r *vlib.Rand) netip.Addr {
	var b [4]byte
	binary.BigEndian.PutUint32(b[:], uint32(r.Uint64()))
	return netip.AddrFrom4(b)
}

// nearPrefix: an address inside a reference range with PRNG host bits, or the
// same with one PRNG bit of the network part flipped (just outside).
func nearPrefix(r *vlib.Rand, v6 bool) netip.Addr {
	var cands []netip.Prefix
	for _, pc := range refPrefixes {
		if pc.p.Addr().Is6() == v6 {
			cands = append(cands, pc.p)
		}
	}
	p := cands[r.Intn(len(cands))]
	b := p.Addr().AsSlice()
	rnd := r.Bytes(len(b))
	bits := p.Bits()
	for i := range b {
		for k := 0; k < 8; k++ {
			if i*8+k >= bits {
				b[i] = b[i]&^(0x80>>uint(k)) | rnd[i]&(0x80>>uint(k))
			}
		}
	}
	if bits > 0 && r.Chance(1, 2) {
		f := r.Intn(bits)
		b[f/8] ^= 0x80 >> uint(f%8)
	}
	a, _ := netip.AddrFromSlice(b)
	return a
}

func fmtV6(r *vlib.Rand, a netip.Addr) string {
	switch r.Intn(4) {
	case 0:
		return a.StringExpanded()
	case 1:
		return strings.ToUpper(a.String())
	}
	return a.String()
}

func mappedForm(r *vlib.Rand, a netip.Addr) string {
	b := a.As4()
	switch r.Intn(3) {
	case 0:
		return fmt.Sprintf("::ffff:%x:%x", uint16(b[0])<<8|uint16(b[1]), uint16(b[2])<<8|uint16(b[3]))
	case 1:
		return fmt.Sprintf("0:0:0:0:0:ffff:%d.%d.%d.%d", b[0], b[1], b[2], b[3])
	}
	return "::ffff:" + a.String()
}

func pickAddr(r *vlib.Rand) string {
	switch r.Intn(22) {
	case 0, 1, 2, 3, 4:
		return r.PickString(boundaryV4)
	case 5, 6:
		return "::ffff:" + r.PickString(boundaryV4)
	case 7, 8, 9, 10:
		return r.PickString(boundaryV6)
	case 11:
		return randV4(r).String()
	case 12, 13:
		return nearPrefix(r, false).String()
	case 14:
		return fmtV6(r, nearPrefix(r, true))
	case 15:
		b := r.Bytes(16)
		if r.Bool() {
			b[0] = byte(r.PickInt([]int{0xfb, 0xfc, 0xfd, 0xfe, 0x00, 0x20}))
		}
		a, _ := netip.AddrFromSlice(b)
		return fmtV6(r, a)
	case 16:
		return mdnsName(r)
	case 17:
		return r.PickString(oddAddrs)
	case 18:
		return mappedForm(r, nearPrefix(r, false))
	case 19:
		return mappedForm(r, randV4(r))
	}
	return r.PickString(publicAddrs)
}

// ---- candidate lines ----------------------------------------------------------

var iceChars = []rune("abcdefghijklmnopqrstuvwxyzABCDEFGHIJKLMNOPQRSTUVWXYZ0123456789+/")
var printable = []rune("abcXYZ019 :=/.-_%[]{}\"'\\<>&\t\u00a0\u0085é€𝄞\x00\x7f")

func wellFormedCandidate(r *vlib.Rand, typ, transport, addr string) string {
	var b strings.Builder
	if r.Chance(3, 4) {
		b.WriteString(strconv.FormatUint(uint64(uint32(r.Uint64())), 10))
	} else {
		b.WriteString(r.StringFrom(iceChars, r.Range(1, 32)))
	}
	fmt.Fprintf(&b, " %d %s %d %s %d typ %s", r.PickInt([]int{1, 1, 1, 2, 0, 256, 65535}), transport,
		uint32(r.Uint64())>>uint(r.Intn(3)*8), addr, r.PickInt([]int{0, 9, 1, 443, 5000, 54653, 65535, r.Intn(65536)}), typ)
	if typ != "host" || r.Chance(1, 25) {
		ra := "0.0.0.0"
		if r.Chance(2, 3) {
			ra = pickAddr(r)
		}
		fmt.Fprintf(&b, " raddr %s rport %d", ra, r.Intn(65536))
	}
	if strings.EqualFold(transport, "tcp") && r.Chance(5, 6) {
		b.WriteString(" tcptype " + r.PickString([]string{"active", "passive", "so"}))
	}
	if r.Chance(1, 2) {
		b.WriteString(" generation 0")
	}
	if r.Chance(1, 3) {
		b.WriteString(" ufrag " + r.StringFrom(iceChars, 4))
	}
	if r.Chance(1, 3) {
		fmt.Fprintf(&b, " network-id %d", r.Range(1, 5))
		if r.Chance(1, 2) {
			b.WriteString(" network-cost 50")
		}
	}
	return "a=candidate:" + b.String()
}

const nMalformedKinds = 27

func malformedCandidate(r *vlib.Rand, kind int, a string) string {
	v := ""
	switch kind {
	case 0:
		v = "1 1 udp 1 " + a
	case 1:
		v = "1 1 udp 1 " + a + " 5 typ"
	case 2:
		v = "1 x udp 1 " + a + " 5 typ host"
	case 3:
		v = "1 1 udp 4294967296 " + a + " 5 typ host"
	case 4:
		v = "1 1 udp 1 " + a + " 65536 typ host"
	case 5:
		v = "1 1 udp 1 " + a + " -1 typ host"
	case 6:
		v = "1 1 udp 1 " + a + " 5 xyz host"
	case 7:
		v = "1 1 udp 1 " + a + " 5 typ foo"
	case 8:
		v = "1 1 " + r.PickString([]string{"ssltcp", "dccp", "sctp", "x", "ud", "icmp"}) + " 1 " + a + " 5 typ host"
	case 9:
		v = " 1 udp 1 " + a + " 5 typ host"
	case 10:
		v = "1 1 udp 1 " + a + " 5 typ srflx raddr 1.2.3.4"
	case 11:
		v = "1 1 udp 1 " + a + " 5 typ host raddr 1.2.3.4 rport x"
	case 12:
		v = "1  1 udp 1 " + a + " 5 typ host"
	case 13:
		v = "1\t1\tudp\t1\t" + a + "\t5\ttyp\thost"
	case 14:
		v = "1 1 udp 1 " + a + " 5 typ host extra"
	case 15:
		v = "1 1 udp 1 " + a + " 5 typ host "
	case 16:
		v = "1 65536 udp 1 " + a + " 5 typ host"
	case 17:
		v = "1 1 udp 1 " + a + " 5 typ HOST"
	case 18:
		v = ""
	case 19:
		v = "1 1 tcp 1 " + a + " 5 typ host tcptype"
	case 20:
		v = r.StringFrom(printable, r.Range(0, 40))
	case 21:
		v = "1 1 udp 1 [" + a + "] 5 typ host"
	case 22:
		v = "1 1 udp 1 " + a + ":5 typ host x y"
	case 23:
		v = "1 1 udp 1 " + a + " 5 typ host\x00"
	case 24:
		v = "1 1 udp 1 " + a + " 5 typ host\u00a0generation 0"
	case 25:
		v = "1 1 udp 1 " + a + " 5 typ host\xff\xfe generation"
	case 26:
		v = "#!$ 1 udp 99999999999 " + a + " 5 typ host"
	}
	return "a=candidate:" + v
}

var candTypes = []string{"host", "host", "host", "srflx", "prflx", "relay"}
var transports = []string{"udp", "udp", "UDP", "tcp", "TCP", "Udp"}

func genCandidateLine(r *vlib.Rand) string {
	switch r.Intn(12) {
	case 0, 1:
		return malformedCandidate(r, r.Intn(nMalformedKinds), pickAddr(r))
	case 2:
		if r.Bool() {
			return r.PickString([]string{"a=Candidate:", "a=CANDIDATE:", "a=candidates:", "a=candidate :", "a=remote-candidates:", "a=xcandidate:"}) +
				"1 1 udp 1 " + pickAddr(r) + " 5 typ host"
		}
		return r.PickString([]string{"a=candidate", "a=end-of-candidates", "a=remote-candidates:1 10.0.0.1 5", "a=ice-options:trickle"})
	}
	return wellFormedCandidate(r, r.PickString(candTypes), r.PickString(transports), pickAddr(r))
}

// ---- SDP generator (pion's canonical layout) ----------------------------------

var sessionAttrs = []string{
	"a=group:BUNDLE 0", "a=group:BUNDLE 0 1 2", "a=msid-semantic: WMS", "a=extmap-allow-mixed", "a=ice-lite", "a=ice-options:trickle",
	"a=fingerprint:sha-256 C8:88:EE:B9:E7:02:2E:21:37:ED:7A:D1:EB:2B:A3:15:A2:3B:5B:1C:3D:D4:D5:1F:06:CF:52:40:03:F8:DD:66",
	"a=tool:verif", "a=x:y:z", "a=recvonly",
}

var mediaAttrs = []string{
	"a=setup:actpass", "a=setup:active", "a=mid:0", "a=mid:data", "a=sendrecv", "a=sctp-port:5000", "a=sctpmap:5000 webrtc-datachannel 1024",
	"a=max-message-size:262144", "a=ice-ufrag:aMAZ", "a=ice-pwd:jcHb08Jjgrazp2dzjdrvPPvV", "a=ice-options:trickle", "a=rtcp-mux", "a=rtcp:9 IN IP4 0.0.0.0",
	"a=rtpmap:111 opus/48000/2", "a=fmtp:111 minptime=10;useinbandfec=1", "a=ssrc:1 cname:x 10.0.0.1", "a=end-of-candidates",
	"a=fingerprint:sha-256 53:F8:84:D9:3C:1F:A0:44:AA:D6:3C:65:80:D3:CB:6F:23:90:17:41:06:F9:9C:10:D8:48:4A:A8:B6:FA:14:A1",
	"a=x-local:192.168.1.1 typ host", "a=candidate-pair:1 2",
}

var mLines = []string{
	"m=application 9 UDP/DTLS/SCTP webrtc-datachannel", "m=application 56688 DTLS/SCTP 5000", "m=audio 9 UDP/TLS/RTP/SAVPF 111 103",
	"m=video 9 UDP/TLS/RTP/SAVPF 96 97 98", "m=application 0 UDP/DTLS/SCTP webrtc-datachannel", "m=audio 49170/2 RTP/AVP 0", "m=text 1 TCP/MSRP *",
}

func cLine(r *vlib.Rand) string {
	a := pickAddr(r)
	if strings.ContainsAny(a, " \t") || a == "" {
		a = "0.0.0.0"
	}
	if strings.Contains(a, ":") {
		return "c=IN IP6 " + a
	}
	if r.Chance(1, 8) {
		return "c=IN IP4 " + a + "/127/3"
	}
	return "c=IN IP4 " + a
}

type genInfo struct {
	media, cands int
}

func genSDP(r *vlib.Rand) (string, genInfo) {
	var gi genInfo
	var L []string
	L = append(L, "v=0")
	L = append(L, fmt.Sprintf("o=%s %d %d IN %s", r.PickString([]string{"-", "mozilla...THIS_IS_SDPARTA-99.0", "verif"}), r.Uint64()>>1, r.Intn(5),
		r.PickString([]string{"IP4 0.0.0.0", "IP4 127.0.0.1", "IP4 192.168.1.7", "IP6 ::1", "IP6 fd00::2", "IP4 8.8.8.8"})))
	L = append(L, r.PickString([]string{"s=-", "s=-", "s=SnowflakeTest", "s=a b  c"}))
	if r.Chance(1, 8) {
		L = append(L, "i=session info 10.0.0.1")
	}
	if r.Chance(1, 10) {
		L = append(L, "u=http://example.com/s")
	}
	if r.Chance(1, 10) {
		L = append(L, "e=a@example.com (A B)")
	}
	if r.Chance(1, 10) {
		L = append(L, "p=+1 617 555-6011")
	}
	if r.Chance(1, 5) {
		L = append(L, cLine(r))
	}
	for k := r.Intn(3); k > 0 && r.Chance(1, 3); k-- {
		L = append(L, r.PickString([]string{"b=AS:128", "b=CT:1000", "b=X-YZ:5", "b=TIAS:0"}))
	}
	for k := r.PickInt([]int{1, 1, 1, 1, 2}); k > 0; k-- {
		L = append(L, r.PickString([]string{"t=0 0", "t=0 0", "t=2873397496 2873404696"}))
		if r.Chance(1, 8) {
			L = append(L, r.PickString([]string{"r=604800 3600 0 90000", "r=7 1", "r=86400 3600 0"}))
		}
	}
	if r.Chance(1, 10) {
		L = append(L, "z=2882844526 -3600 2898848070 0")
	}
	if r.Chance(1, 10) {
		L = append(L, r.PickString([]string{"k=prompt", "k=clear:abc"}))
	}
	for k := r.Intn(5); k > 0; k-- {
		L = append(L, r.PickString(sessionAttrs))
	}
	gi.media = r.PickInt([]int{1, 1, 1, 2, 2, 3, 4, 0})
	for m := 0; m < gi.media; m++ {
		L = append(L, r.PickString(mLines))
		if r.Chance(1, 10) {
			L = append(L, "i=media title")
		}
		if r.Chance(3, 4) {
			L = append(L, cLine(r))
		}
		if r.Chance(1, 8) {
			L = append(L, r.PickString([]string{"b=AS:64", "b=RR:0", "b=RS:800"}))
		}
		if r.Chance(1, 12) {
			L = append(L, "k=prompt")
		}
		nc := r.Intn(13)
		if r.Chance(1, 6) {
			nc = 0
		}
		na := r.Intn(9)
		// candidates interleaved with other attributes at PRNG positions
		slots := make([]bool, nc+na)
		for _, p := range r.Perm(nc + na)[:nc] {
			slots[p] = true
		}
		for _, isC := range slots {
			if isC {
				L = append(L, genCandidateLine(r))
				gi.cands++
			} else {
				L = append(L, r.PickString(mediaAttrs))
			}
		}
	}
	return strings.Join(L, "\r\n") + "\r\n", gi
}

func minimalSDP(candLine string) string {
	return "v=0\r\no=- 1 2 IN IP4 0.0.0.0\r\ns=-\r\nt=0 0\r\na=group:BUNDLE 0\r\nm=application 9 UDP/DTLS/SCTP webrtc-datachannel\r\nc=IN IP4 0.0.0.0\r\na=mid:0\r\n" +
		candLine + "\r\na=sctp-port:5000\r\n"
}

// ---- mutations of a parsable SDP ----------------------------------------------

var lineTypes = []string{"v", "o", "s", "i", "u", "e", "p", "c", "b", "t", "r", "z", "k", "a", "m", "x", ""}
var fuzzTokens = []string{"", "0", "1", "-1", "x", "1d", "h", ":", "IN", "IP4", "99999999999999999999", "a:b", " "}

func mutate(r *vlib.Rand, s string) (string, string) {
	lines := strings.Split(strings.TrimSuffix(s, "\r\n"), "\r\n")
	if len(lines) == 0 {
		return s, "none"
	}
	i := r.Intn(len(lines))
	how := r.Intn(14)
	name := ""
	switch how {
	case 0:
		name = "drop-fields"
		f := strings.Split(lines[i], " ")
		lines[i] = strings.Join(f[:r.Intn(len(f))+0], " ")
		if lines[i] == "" && len(f) > 0 {
			lines[i] = f[0][:min(2, len(f[0]))]
		}
	case 1:
		name = "empty-value"
		if len(lines[i]) >= 2 {
			lines[i] = lines[i][:2]
		}
	case 2:
		name = "replace-value"
		if len(lines[i]) >= 2 {
			lines[i] = lines[i][:2] + r.PickString(fuzzTokens) + r.PickString([]string{"", " " + r.PickString(fuzzTokens)})
		}
	case 3:
		name = "duplicate-line"
		lines = append(lines[:i+1], append([]string{lines[i]}, lines[i+1:]...)...)
	case 4:
		name = "delete-line"
		lines = append(lines[:i], lines[i+1:]...)
	case 5:
		name = "swap-lines"
		k := r.Intn(len(lines))
		lines[i], lines[k] = lines[k], lines[i]
	case 6:
		name = "insert-line"
		nl := r.PickString(lineTypes) + "=" + r.PickString(fuzzTokens) + r.PickString([]string{"", " " + r.PickString(fuzzTokens), " " + r.PickString(fuzzTokens) + " " + r.PickString(fuzzTokens)})
		lines = append(lines[:i], append([]string{nl}, lines[i:]...)...)
	case 7:
		name = "lf-only"
		return strings.Join(lines, "\n") + "\n", name
	case 8:
		name = "cr-only"
		return strings.Join(lines, "\r") + "\r", name
	case 9:
		name = "blank-lines"
		lines = append(lines[:i], append([]string{""}, lines[i:]...)...)
	case 10:
		name = "no-final-newline"
		return strings.Join(lines, "\r\n"), name
	case 11:
		name = "flip-byte"
		b := []byte(strings.Join(lines, "\r\n") + "\r\n")
		b[r.Intn(len(b))] ^= byte(1 << uint(r.Intn(8)))
		return string(b), name
	case 12:
		name = "insert-candidate-anywhere"
		lines = append(lines[:i], append([]string{genCandidateLine(r)}, lines[i:]...)...)
	case 13:
		name = "media-attr-before-c"
		// non-spec ordering that pion accepts and re-orders
		lines = append(lines, "c=IN IP4 "+r.PickString(boundaryV4), genCandidateLine(r))
	}
	return strings.Join(lines, "\r\n") + "\r\n", name
}

func hashKey(s string) string {
	h := fnv.New64a()
	h.Write([]byte(s))
	return fmt.Sprintf("%x", h.Sum64())
}

// ---- a real pion offer --------------------------------------------------------

func realPionOffer() (string, error) {
	pc, err := webrtc.NewPeerConnection(webrtc.Configuration{})
	if err != nil {
		return "", err
	}
	defer pc.Close()
	if _, err = pc.CreateDataChannel("verif", nil); err != nil {
		return "", err
	}
	offer, err := pc.CreateOffer(nil)
	if err != nil {
		return "", err
	}
	done := webrtc.GatheringCompletePromise(pc)
	if err = pc.SetLocalDescription(offer); err != nil {
		return "", err
	}
	select {
	case <-done:
	case <-time.After(30 * time.Second):
		return "", errors.New("ICE gathering did not complete in 30 s")
	}
	return pc.LocalDescription().SDP, nil
}

// ---- IsLocal directly ---------------------------------------------------------

func checkIsLocal(res *vlib.Result, a netip.Addr, caseID string) {
	class, mapped := refClass(a)
	type form struct {
		name string
		ip   net.IP
	}
	var forms []form
	b16 := a.As16()
	forms = append(forms, form{"16-byte", net.IP(b16[:])})
	if a.Is4() || a.Is4In6() {
		b4 := a.Unmap().As4()
		forms = append(forms, form{"4-byte", net.IP(b4[:])})
	}
	for _, f := range forms {
		res.Eval(1)
		res.Obs("islocal_checks", 1)
		rec := map[string]interface{}{"case": caseID, "address": a.String(), "net_ip_form": f.name, "bytes": fmt.Sprintf("%x", []byte(f.ip)), "reference_class": class}
		var got bool
		if res.Guard("panic:IsLocal", rec, func() { got = util.IsLocal(f.ip) }) {
			continue
		}
		suffix := ""
		if mapped || (a.Is4() && f.name == "16-byte") {
			suffix = ":ipv4-mapped"
		}
		switch {
		case isPrivateClass(class) && !got:
			res.Violatef("islocal-miss:"+class+suffix, rec, "IsLocal(%s as %s) = false, reference class %s", a, f.name, class)
		case class == "" && got:
			res.Violatef("islocal-false-positive"+suffix, rec, "IsLocal(%s as %s) = true, the address is in none of the ranges", a, f.name)
		}
		if class != "" {
			res.Obs("islocal_"+class, 1)
		} else {
			res.Obs("islocal_nonlocal", 1)
		}
	}
}

// ---- the test ---------------------------------------------------------------

func TestVerifC08(t *testing.T) {
	res := vlib.NewResult("C08", "api-c08", "PRNG SDP offers/answers in pion's canonical layout (0-4 media sections, 0-12 candidates each interleaved with other attributes; host/srflx/prflx/relay, UDP/TCP; addresses on and around every range boundary, IPv4-mapped, mDNS, hostnames, malformed candidate lines), per-address sweeps, line-level mutations/enumeration, truncations and arbitrary strings through the real StripLocalAddresses; expected output computed from the input text by an RFC-based line classifier; non-trivial = canonical input (pion marshal∘unmarshal identity verified) with >=1 must-strip and >=1 must-keep candidate line, distinct by input hash")
	defer res.Finish() // vlib records a panic outside any guard as violation "panic:outside-guard"
	root := vlib.NewRand(vlib.Seed()).Split("c08")
	sh, nsh := vlib.Shard()

	account := func(in string, st caseStats) {
		if st.canonical && st.checkedAgainstOracle {
			res.Obs("canonical_checked", 1)
			res.Obs(fmt.Sprintf("canonical_with_%d_media_sections", st.nMedia), 1)
			if st.nStrip >= 1 && st.nKeepCand >= 1 {
				res.Distinct(hashKey(in))
			}
		}
	}

	// 1. per-address sweep: every boundary address (from the list and computed
	// from the reference prefixes: first-1, first, first+1, last-1, last, last+1),
	// plain and IPv4-mapped, as every candidate type over UDP and TCP
	var sweep []string
	seen := map[string]bool{}
	add := func(s string) {
		if !seen[s] {
			seen[s] = true
			sweep = append(sweep, s)
		}
	}
	for _, s := range boundaryV4 {
		add(s)
		add("::ffff:" + s)
	}
	for _, s := range boundaryV6 {
		add(s)
	}
	var prefixEdges []netip.Addr
	for _, pc := range refPrefixes {
		first := pc.p.Masked().Addr()
		last := lastAddr(pc.p)
		for _, a := range []netip.Addr{first.Prev(), first, first.Next(), last.Prev(), last, last.Next()} {
			if a.IsValid() {
				prefixEdges = append(prefixEdges, a)
				add(a.String())
				if a.Is4() {
					add("::ffff:" + a.String())
				}
			}
		}
	}
	if sh == 0 {
		for ai, a := range sweep {
			for _, typ := range []string{"host", "srflx", "prflx", "relay"} {
				for _, tr := range []string{"udp", "tcp"} {
					line := "a=candidate:1 1 " + tr + " 2122260223 " + a + " 54653 typ " + typ
					if typ != "host" {
						line += " raddr 0.0.0.0 rport 0"
					} else if tr == "tcp" {
						line += " tcptype passive"
					}
					in := minimalSDP(line)
					st := checkStrip(res, in, fmt.Sprintf("sweep/%d/%s/%s", ai, typ, tr), "one candidate: "+line)
					if !st.canonical {
						res.Obs("sweep_not_canonical", 1)
					}
					if typ == "host" {
						res.Obs("sweep_host_candidates", 1)
					} else {
						res.Obs("sweep_nonhost_candidates", 1)
					}
				}
			}
		}
		res.Obs("sweep_addresses", int64(len(sweep)))
		// the odd address forms and every malformed shape with a local and a public address
		for oi, a := range oddAddrs {
			checkStrip(res, minimalSDP("a=candidate:1 1 udp 1 "+a+" 5 typ host"), fmt.Sprintf("odd/%d", oi), "odd address form "+a)
			res.Obs("odd_address_forms", 1)
		}
		for k := 0; k < nMalformedKinds; k++ {
			for ai, a := range []string{"192.168.1.7", "fd00::2", "::ffff:10.0.0.1", "127.0.0.1", "8.8.8.8", "2001:db8::1", "x.local"} {
				line := malformedCandidate(root.SplitN("malformed", k*10+ai), k, a)
				checkStrip(res, minimalSDP(line), fmt.Sprintf("malformed/%d/%d", k, ai), "malformed candidate: "+line)
				res.Obs("malformed_shapes_checked", 1)
			}
		}
		// candidate surrounded by other attributes in several media sections: order
		for k := 0; k < 40; k++ {
			r := root.SplitN("order", k)
			var b strings.Builder
			b.WriteString("v=0\r\no=- 1 2 IN IP4 0.0.0.0\r\ns=-\r\nt=0 0\r\n")
			for m := 0; m < 1+k%4; m++ {
				fmt.Fprintf(&b, "m=application 9 UDP/DTLS/SCTP webrtc-datachannel\r\nc=IN IP4 0.0.0.0\r\na=mid:%d\r\n", m)
				for c := 0; c < 6; c++ {
					fmt.Fprintf(&b, "a=candidate:%d 1 udp %d %s %d typ host\r\na=x-after:%d-%d\r\n", c, 1000-c, r.PickString([]string{"192.168.0.1", "8.8.8.8", "fd00::2", "2001:db8::1", "10.1.1.1", "1.2.3.4"}), 1000+c, m, c)
				}
			}
			st := checkStrip(res, b.String(), fmt.Sprintf("order/%d", k), "alternating candidates and marker attributes")
			account(b.String(), st)
		}
	}

	// 2. generated SDPs
	nGen := vlib.Scale(20000, 1600000)
	for i := 0; i < nGen; i++ {
		if i%nsh != sh {
			continue
		}
		r := root.SplitN("gen", i)
		in, gi := genSDP(r)
		st := checkStrip(res, in, fmt.Sprintf("gen/%d", i), fmt.Sprintf("generated: %d media sections, %d candidate lines", gi.media, gi.cands))
		account(in, st)
		res.Obs("generated_sdps", 1)
		if !st.canonical {
			res.Obs("generated_not_canonical", 1)
		}
		if i < 2 {
			res.Sample(4, caseRec{Case: fmt.Sprintf("gen/%d", i), Input: bounded(in), Len: len(in)})
		}
		// 3. one mutation of every 3rd
		if i%3 == 0 {
			mu, how := mutate(r, in)
			st := checkStrip(res, mu, fmt.Sprintf("mut/%d", i), "mutation "+how+" of gen/"+strconv.Itoa(i))
			account(mu, st)
			res.Obs("mutated_sdps", 1)
			res.Obs("mutation_"+how, 1)
			if st.parsed {
				res.Obs("mutated_still_parsable", 1)
			}
		}
	}

	// 4. enumeration: every line type with 0..3 odd fields at every position of a small SDP
	if sh == 0 {
		base := []string{"v=0", "o=- 1 2 IN IP4 0.0.0.0", "s=-", "t=0 0", "a=x", "m=application 9 UDP/DTLS/SCTP webrtc-datachannel", "c=IN IP4 0.0.0.0", "a=candidate:1 1 udp 1 192.168.0.1 5 typ host", "a=mid:0"}
		var values []string
		values = append(values, "")
		for _, a := range fuzzTokens {
			values = append(values, a)
			for _, b := range fuzzTokens {
				values = append(values, a+" "+b)
			}
		}
		for _, a := range []string{"0", "x", "1d", ""} {
			for _, b := range []string{"0", "x", "1d", ""} {
				for _, c := range []string{"0", "x", "1d", ""} {
					values = append(values, a+" "+b+" "+c)
				}
			}
		}
		n := 0
		for pos := 2; pos <= len(base); pos++ {
			for _, lt := range lineTypes {
				for _, v := range values {
					for _, replace := range []bool{false, true} {
						if replace && (pos == len(base) || n%4 != 0) {
							continue
						}
						var L []string
						L = append(L, base[:pos]...)
						L = append(L, lt+"="+v)
						if replace {
							L = append(L, base[pos+1:]...)
						} else {
							L = append(L, base[pos:]...)
						}
						in := strings.Join(L, "\r\n") + "\r\n"
						checkStrip(res, in, fmt.Sprintf("enum/%d", n), fmt.Sprintf("line %q at position %d (replace=%v)", lt+"="+v, pos, replace))
						n++
						res.Obs("enumerated_line_insertions", 1)
					}
				}
			}
		}
	}

	// 5. every truncation point of a few generated SDPs
	nTrunc := vlib.Scale(20, 400)
	for i := 0; i < nTrunc; i++ {
		if i%nsh != sh {
			continue
		}
		r := root.SplitN("trunc", i)
		in, _ := genSDP(r)
		if len(in) > 2500 {
			in = in[:2500]
		}
		for cut := 0; cut <= len(in); cut++ {
			checkStrip(res, in[:cut], fmt.Sprintf("trunc/%d/%d", i, cut), "prefix of a generated SDP")
			res.Obs("truncation_points", 1)
		}
	}

	// 6. arbitrary strings
	nArb := vlib.Scale(6000, 400000)
	for i := 0; i < nArb; i++ {
		if i%nsh != sh {
			continue
		}
		r := root.SplitN("arb", i)
		var in string
		switch r.Intn(8) {
		case 0:
			in = string(r.Bytes(r.Range(0, 200)))
		case 1:
			in = r.StringFrom(printable, r.Range(0, 120))
		case 2:
			in = "v=0\r\n" + r.StringFrom(printable, r.Range(0, 60))
		case 3:
			in = `{"type":"offer","sdp":"v=0\r\n"}`
		case 4:
			in = strings.Repeat(r.PickString([]string{"\r\n", "\n", "v=0\r\n", "a=candidate:", "m=", "=", "r=\r\n"}), r.Range(0, 50))
		case 5:
			// line soup
			n := r.Range(0, 12)
			for k := 0; k < n; k++ {
				in += r.PickString(lineTypes) + "=" + r.PickString(fuzzTokens) + r.PickString([]string{"\r\n", "\n", "\r", ""})
			}
		case 6:
			in = "v=0\r\no=- 1 2 IN IP4 0.0.0.0\r\ns=-\r\nt=0 0\r\n" + r.StringFrom(printable, r.Range(0, 60)) + "\r\n"
		case 7:
			in = r.PickString([]string{"", " ", "\x00", "v", "v=", "v=0", "v=0\r", "v=0\r\n", "<html>", "null", "\xff\xfe"})
		}
		checkStrip(res, in, fmt.Sprintf("arb/%d", i), "arbitrary string")
		res.Obs("arbitrary_inputs", 1)
	}

	// 7. a real pion offer from this machine's interfaces, and the same with the
	// first host candidate's address replaced by every sweep address
	if sh == 0 {
		if offer, err := realPionOffer(); err != nil {
			res.Note("real_pion_offer", "unavailable: "+err.Error())
		} else {
			res.Note("real_pion_offer", offer)
			st := checkStrip(res, offer, "pion-offer", "LocalDescription of a real pion PeerConnection after gathering")
			account(offer, st)
			res.Obs("real_pion_offer_checked", 1)
			if st.canonical {
				res.Obs("real_pion_offer_canonical", 1)
			}
			res.Obs("real_pion_offer_host_candidates_local", int64(st.nStrip))
			res.Obs("real_pion_offer_candidates_kept", int64(st.nKeepCand))
			lines := strings.Split(offer, "\r\n")
			for li, ln := range lines {
				if strings.HasPrefix(ln, "a=candidate:") && strings.Contains(ln, " typ host") {
					f := strings.Split(ln, " ")
					for ai, a := range sweep {
						f2 := append([]string{}, f...)
						f2[4] = a
						l2 := append([]string{}, lines...)
						l2[li] = strings.Join(f2, " ")
						in := strings.Join(l2, "\r\n")
						st := checkStrip(res, in, fmt.Sprintf("pion-offer/%d", ai), "real pion offer, first host candidate's address replaced by "+a)
						account(in, st)
						res.Obs("real_pion_offer_variants", 1)
					}
					break
				}
			}
		}
	}

	// 8. IsLocal directly against the reference
	if sh == 0 {
		for i, a := range prefixEdges {
			checkIsLocal(res, a, fmt.Sprintf("islocal/edge/%d", i))
			if a.Is4() {
				checkIsLocal(res, netip.AddrFrom16(a.As16()), fmt.Sprintf("islocal/edge-mapped/%d", i))
			}
			res.Obs("islocal_prefix_edges", 1)
		}
		for i, s := range sweep {
			if a, err := netip.ParseAddr(s); err == nil {
				checkIsLocal(res, a, fmt.Sprintf("islocal/list/%d", i))
			}
		}
		// all 65536 (first, second) octet pairs, and all first bytes of IPv6
		for hi := 0; hi < 65536; hi++ {
			checkIsLocal(res, netip.AddrFrom4([4]byte{byte(hi >> 8), byte(hi), byte(hi * 7), byte(hi * 13)}), fmt.Sprintf("islocal/octets/%d", hi))
		}
		for b0 := 0; b0 < 256; b0++ {
			var b [16]byte
			b[0] = byte(b0)
			checkIsLocal(res, netip.AddrFrom16(b), fmt.Sprintf("islocal/v6first/%d", b0))
			b[1], b[15] = 0xff, 1
			checkIsLocal(res, netip.AddrFrom16(b), fmt.Sprintf("islocal/v6first-b/%d", b0))
		}
		// net.IP values that are not addresses at all
		for i, ip := range []net.IP{nil, {}, {10}, {10, 0, 0}, {10, 0, 0, 1, 0}, make(net.IP, 15), make(net.IP, 17), append(net.IP{0xfd}, make(net.IP, 16)...)} {
			ip := ip
			res.Eval(1)
			res.Guard("panic:IsLocal", map[string]interface{}{"case": fmt.Sprintf("islocal/badlen/%d", i), "bytes": fmt.Sprintf("%x", []byte(ip))}, func() { util.IsLocal(ip) })
			res.Obs("islocal_bad_length", 1)
		}
	}
	nIP := vlib.Scale(60000, 3000000)
	for i := 0; i < nIP; i++ {
		if i%nsh != sh {
			continue
		}
		r := root.SplitN("ip", i)
		var a netip.Addr
		switch r.Intn(5) {
		case 0:
			a = randV4(r)
		case 1:
			a = nearPrefix(r, false)
		case 2:
			a = nearPrefix(r, true)
		case 3:
			a = netip.AddrFrom16(nearPrefix(r, false).As16())
		case 4:
			b := r.Bytes(16)
			a, _ = netip.AddrFromSlice(b)
		}
		checkIsLocal(res, a, fmt.Sprintf("islocal/prng/%d", i))
	}

	// minimum coverage
	per := func(n int) int64 { return int64(n / nsh * 9 / 10) }
	res.RequireObs("generated_sdps", per(nGen))
	res.RequireObs("canonical_checked", per(nGen)/2)
	res.RequireObs("arbitrary_inputs", per(nArb))
	res.RequireObs("unparsable_inputs", 1000/int64(nsh))
	res.RequireObs("truncation_points", 2000/int64(nsh))
	res.RequireObs("islocal_checks", per(nIP))
	for _, c := range []string{"rfc1918", "rfc6598", "rfc3927", "rfc4193", "loopback", "unspecified",
		"rfc1918:ipv4-mapped", "rfc6598:ipv4-mapped", "rfc3927:ipv4-mapped", "loopback:ipv4-mapped", "unspecified:ipv4-mapped"} {
		res.RequireObs("strip_"+c, 10)
	}
	for _, k := range []string{"host-candidate-nonlocal", "nonhost-candidate-local-address", "nonhost-candidate", "host-candidate-mdns", "host-candidate-hostname", "malformed-candidate"} {
		res.RequireObs("keep_"+k, 10)
	}
	for m := 1; m <= 4; m++ {
		res.RequireObs(fmt.Sprintf("canonical_with_%d_media_sections", m), 50/int64(nsh))
	}
	if sh == 0 {
		res.RequireObs("sweep_host_candidates", int64(2*len(sweep)))
		res.RequireObs("sweep_nonhost_candidates", int64(6*len(sweep)))
		res.Require(res.GetObs("sweep_not_canonical") == 0, "every sweep input is canonical (pion identity)")
		res.RequireObs("malformed_shapes_checked", nMalformedKinds*7)
		res.RequireObs("enumerated_line_insertions", 10000)
		res.RequireObs("islocal_prefix_edges", 50)
		for _, c := range []string{"rfc1918", "rfc6598", "rfc3927", "rfc4193", "loopback", "unspecified", "nonlocal"} {
			res.RequireObs("islocal_"+c, 4)
		}
	}
}

func lastAddr(p netip.Prefix) netip.Addr {
	b := p.Masked().Addr().AsSlice()
	bits := p.Bits()
	for i := range b {
		for k := 0; k < 8; k++ {
			if i*8+k >= bits {
				b[i] |= 0x80 >> uint(k)
			}
		}
	}
	a, _ := netip.AddrFromSlice(b)
	return a
}
