// C07 — no IP address survives the log scrubber.
// Engine: api (exported safelog.Scrub and safelog.LogScrubber); the concurrent
// part under -race, the sequential bulk without (regexp is ~30x slower there).
//
// Oracle (DESIGN.md appendix A2), written without any regular expression:
//
//	(a) the host text of a planted address must not be a substring of what
//	    reaches the sink;
//	(b) after deleting every placeholder, no maximal run over [0-9A-Fa-f:.]
//	    may parse (net.ParseIP; as it stands, or without one trailing :port,
//	    or without stray leading/trailing ':' '.') to a planted address;
//	(c) every Write that reaches the sink ends in '\n';
//	(d) the sink of any splitting of a byte stream into Write calls equals
//	    the sink of the same stream written with one Write;
//	(e) with concurrent writers of whole lines, the sink is exactly the set
//	    of the writers' individually scrubbed lines.
//
// Addresses are planted only where the property's precondition holds: bounded
// on each side by a line boundary, whitespace, or punctuation other than ':'
// (and, to stay clear of doubt, other than '.' and '_' — see notes in the
// result). Filler words use [g-zG-Z_] only, so every run of address characters
// in a sink stems from a planted token.
//
// Violation signatures (see classify and splitClass):
//
//	residue:adjacent-addresses-single-delimiter        D5: one delimiter after a scrubbed address
//	residue:ipv6-seven-groups-then-double-colon        D5b: g:g:g:g:g:g:g::
//	residue:ipv6-double-colon-then-seven-groups        ::g:g:g:g:g:g:g
//	residue:<shape>:<form>:<left>-<right>              any other miss that the address shows on its own
//	residue:multi-address-interaction:<separation>     any other miss caused by other addresses
//	split-dependence:<class>  partial-line-emitted  runaway-output
//	interleaved-line:concurrent-writers  lost-or-duplicated-line:concurrent-writers
//	panic:Scrub  panic:LogScrubber.Write  panic:LogScrubber.Write:concurrent-writers
package c07

import (
	"bytes"
	"encoding/hex"
	"fmt"
	"hash/fnv"
	"net"
	"sort"
	"strconv"
	"strings"
	"sync"
	"testing"
	"time"
	"unicode"
	"unicode/utf8"

	"git.torproject.org/pluggable-transports/snowflake.git/v2/common/safelog"
	"verif/vlib"
)

const placeholder = "[scrubbed]"

// ---- delimiters -------------------------------------------------------------

// Whitespace and punctuation of the property's delimiter classes. ':' is
// excluded by the property; '.' (an address character) and '_' (a word
// character, used in filler words) are left out so that no planted address is
// ever adjacent to something that could be read as part of it.
var wsDelims = []string{" ", "\t", "\r", "\f", "\v"}
var punctDelims = []string{"!", "\"", "#", "$", "%", "&", "'", "(", ")", "*", "+", ",", "-", "/", ";", "<", "=", ">", "?", "@", "[", "\\", "]", "^", "`", "{", "|", "}", "~"}
var uniDelims = []string{"\u00a0", "\u2003", "\u3000", "\u201c", "\u201d", "\u2014", "\u00ab", "\u00bb", "\u3001"}

func allDelims() []string {
	var d []string
	d = append(d, wsDelims...)
	d = append(d, punctDelims...)
	d = append(d, uniDelims...)
	return d
}

func pickDelim(r *vlib.Rand) string {
	switch k := r.Intn(100); {
	case k < 40:
		return " "
	case k < 55:
		return r.PickString(wsDelims)
	case k < 90:
		return r.PickString(punctDelims)
	}
	return r.PickString(uniDelims)
}

func genSep(r *vlib.Rand) string {
	n := 1
	switch k := r.Intn(10); {
	case k >= 9:
		n = 3
	case k >= 7:
		n = 2
	}
	s := ""
	for i := 0; i < n; i++ {
		s += pickDelim(r)
	}
	return s
}

// runeClass names the delimiter class of the rune next to a token.
func runeClass(c rune, left bool) string {
	switch {
	case c == '\n' && left:
		return "bol"
	case c == '\n':
		return "eol"
	case c >= 0x80:
		return "nonascii"
	case unicode.IsSpace(c):
		return "ws"
	}
	return "punct"
}

// ---- addresses --------------------------------------------------------------

// shape of an address text: a groups, "::", b groups, optional dotted quad.
type shape struct {
	ipv4 bool
	dc   bool // contains "::"
	a, b int
	v4   bool
}

func (s shape) name() string {
	switch {
	case s.ipv4:
		return "ipv4"
	case !s.dc && s.v4:
		return "ipv6-6g-v4"
	case !s.dc:
		return "ipv6-8g"
	case s.v4:
		return fmt.Sprintf("ipv6-%dg-dc-%dg-v4", s.a, s.b)
	}
	return fmt.Sprintf("ipv6-%dg-dc-%dg", s.a, s.b)
}

// allV6Shapes: every IPv6 text shape net.ParseIP accepts (59).
func allV6Shapes() []shape {
	out := []shape{{a: 8}, {a: 6, v4: true}}
	for a := 0; a <= 7; a++ {
		for b := 0; a+b <= 7; b++ {
			out = append(out, shape{dc: true, a: a, b: b})
		}
	}
	for a := 0; a <= 5; a++ {
		for b := 0; a+b <= 5; b++ {
			out = append(out, shape{dc: true, a: a, b: b, v4: true})
		}
	}
	return out
}

func (s shape) spell(gs []string, v4 string) string {
	if s.ipv4 {
		return v4
	}
	if !s.dc {
		parts := append([]string{}, gs[:s.a]...)
		if s.v4 {
			parts = append(parts, v4)
		}
		return strings.Join(parts, ":")
	}
	right := append([]string{}, gs[s.a:s.a+s.b]...)
	if s.v4 {
		right = append(right, v4)
	}
	return strings.Join(gs[:s.a], ":") + "::" + strings.Join(right, ":")
}

// shapeOf derives the shape name from a host text.
func shapeOf(host string) string {
	if !strings.Contains(host, ":") {
		return "ipv4"
	}
	count := func(s string) (n int, v4 bool) {
		if s == "" {
			return 0, false
		}
		for _, p := range strings.Split(s, ":") {
			if strings.Contains(p, ".") {
				v4 = true
			} else {
				n++
			}
		}
		return
	}
	if i := strings.Index(host, "::"); i >= 0 {
		a, _ := count(host[:i])
		b, v4 := count(host[i+2:])
		return shape{dc: true, a: a, b: b, v4: v4}.name()
	}
	a, v4 := count(host)
	return shape{a: a, v4: v4}.name()
}

var octets = []int{0, 1, 2, 9, 10, 19, 99, 100, 127, 172, 192, 199, 200, 249, 250, 255}

func genIPv4(r *vlib.Rand) string {
	o := make([]string, 4)
	for i := range o {
		if r.Chance(1, 2) {
			o[i] = strconv.Itoa(r.PickInt(octets))
		} else {
			o[i] = strconv.Itoa(r.Intn(256))
		}
	}
	return strings.Join(o, ".")
}

func genGroup(r *vlib.Rand, style int) string {
	var v int
	switch r.Intn(8) {
	case 0:
		v = 0
	case 1:
		v = r.PickInt([]int{1, 0xf, 0xff, 0xfff, 0xffff, 0xa, 0xdead, 0xbeef})
	default:
		v = r.Intn(0x10000)
	}
	var s string
	switch style {
	case 0:
		s = fmt.Sprintf("%x", v)
	case 1:
		s = fmt.Sprintf("%X", v)
	case 2:
		s = fmt.Sprintf("%04x", v)
	case 3:
		s = fmt.Sprintf("%04X", v)
	default: // mixed case, random zero padding
		s = fmt.Sprintf("%x", v)
		if r.Bool() {
			s = fmt.Sprintf("%0*x", r.Range(len(s), 4), v)
		}
		b := []byte(s)
		for i := range b {
			if r.Bool() {
				b[i] = byte(unicode.ToUpper(rune(b[i])))
			}
		}
		s = string(b)
	}
	return s
}

var v6shapes = allV6Shapes()

// genHost returns one address host text in a form Go prints or ParseIP accepts.
func genHost(r *vlib.Rand) string {
	switch k := r.Intn(20); {
	case k < 6:
		return genIPv4(r)
	case k < 10:
		// what net.IP.String prints for a random address with zero runs
		ip := make(net.IP, 16)
		r.Fill(ip)
		for z := r.Intn(3); z > 0; z-- {
			at, n := r.Intn(8), r.Range(1, 6)
			for i := at; i < at+n && i < 8; i++ {
				ip[2*i], ip[2*i+1] = 0, 0
			}
		}
		if r.Chance(1, 4) {
			for i := 0; i < 16; i += 2 {
				if r.Bool() {
					ip[i] = 0 // short groups
				}
			}
		}
		if ip.To4() != nil { // String would print a dotted quad
			ip[0] = 0x20
		}
		return ip.String()
	case k < 17:
		s := v6shapes[r.Intn(len(v6shapes))]
		if r.Chance(1, 12) {
			s = shape{dc: true, a: 7} // the longest left side, often
		}
		style := r.Intn(5)
		gs := make([]string, 8)
		for i := range gs {
			gs[i] = genGroup(r, style)
		}
		return s.spell(gs, genIPv4(r))
	}
	v4 := genIPv4(r)
	return r.PickString([]string{"::", "::1", "::ffff:" + v4, "::FFFF:" + v4, "::" + v4, "64:ff9b::" + v4,
		"0:0:0:0:0:ffff:" + v4, "0:0:0:0:0:0:0:1", "fe80::" + genGroup(r, 0) + ":" + genGroup(r, 0), "2001:db8::" + genGroup(r, 0), "ff02::1:" + genGroup(r, 2)})
}

var ports = []int{0, 1, 22, 80, 443, 3478, 9001, 19302, 65535}

func genPort(r *vlib.Rand) string {
	if r.Bool() {
		return strconv.Itoa(r.PickInt(ports))
	}
	return strconv.Itoa(r.Intn(65536))
}

var fillerAlphabet = []rune("ghijklmnopqrstuvwxyzGHIJKLMNOPQRSTUVWXYZ_")
var zoneAlphabet = []rune("ghijklmnopqrstuvwxyz")

// token is one planted address as it appears in a line.
type token struct {
	host  string
	ip    net.IP
	shape string
	form  string // bare | port | bracketed | bracketed-port | zone | bracketed-zone-port | cidr
	text  string
}

func mkToken(host, form, port, zone string) token {
	t := token{host: host, ip: net.ParseIP(host), shape: shapeOf(host), form: form}
	switch form {
	case "bare":
		t.text = host
	case "port": // net.JoinHostPort of an IPv4 host
		t.text = host + ":" + port
	case "bracketed":
		t.text = "[" + host + "]"
	case "bracketed-port": // net.JoinHostPort / TCPAddr.String of an IPv6 host
		t.text = "[" + host + "]:" + port
	case "zone": // IPAddr.String
		t.text = host + "%" + zone
	case "bracketed-zone-port": // TCPAddr.String with a zone
		t.text = "[" + host + "%" + zone + "]:" + port
	case "cidr": // IPNet.String
		t.text = host + "/" + port
	}
	return t
}

func genToken(r *vlib.Rand) token {
	host := genHost(r)
	v6 := strings.Contains(host, ":")
	var form string
	k := r.Intn(20)
	if v6 {
		switch {
		case k < 7:
			form = "bare"
		case k < 11:
			form = "bracketed"
		case k < 16:
			form = "bracketed-port"
		case k < 17:
			form = "zone"
		case k < 18:
			form = "bracketed-zone-port"
		default:
			form = "cidr"
		}
	} else {
		switch {
		case k < 9:
			form = "bare"
		case k < 16:
			form = "port"
		case k < 17:
			form = "bracketed"
		case k < 18:
			form = "bracketed-port"
		default:
			form = "cidr"
		}
	}
	port := genPort(r)
	if form == "cidr" {
		if v6 {
			port = strconv.Itoa(r.Intn(129))
		} else {
			port = strconv.Itoa(r.Intn(33))
		}
	}
	return mkToken(host, form, port, r.StringFrom(zoneAlphabet, r.Range(2, 5)))
}

// ---- documents: items separated by delimiter strings ------------------------

type item struct {
	isAddr bool
	tok    token
	text   string
}

// doc is a byte stream of one or more lines: seps[i] precedes items[i],
// seps[len(items)] trails. Line boundaries are '\n' inside seps.
type doc struct {
	items  []item
	seps   []string
	starts []int
	text   string
}

func (d *doc) build() {
	var b strings.Builder
	d.starts = make([]int, len(d.items))
	for i, it := range d.items {
		b.WriteString(d.seps[i])
		d.starts[i] = b.Len()
		b.WriteString(it.text)
	}
	b.WriteString(d.seps[len(d.items)])
	d.text = b.String()
}

func (d *doc) nAddr() int {
	n := 0
	for _, it := range d.items {
		if it.isAddr {
			n++
		}
	}
	return n
}

// valid: every planted host occurs exactly once in the whole text (so it is a
// substring of no other token) and no two planted addresses are equal.
func (d *doc) valid() bool {
	var ips []net.IP
	for _, it := range d.items {
		if !it.isAddr {
			continue
		}
		if it.tok.ip == nil || strings.Count(d.text, it.tok.host) != 1 {
			return false
		}
		for _, p := range ips {
			if p.Equal(it.tok.ip) {
				return false
			}
		}
		ips = append(ips, it.tok.ip)
	}
	return true
}

type lineOpts struct {
	maxItems  int
	addrBias  int // per-cent chance that an item is an address
	singleSep int // per-cent chance that a separator is a single delimiter
	edgeBare  int // per-cent chance of no delimiter at line start / end
}

func genLineItems(r *vlib.Rand, o lineOpts) (items []item, seps []string) {
	n := r.Range(1, o.maxItems)
	for i := 0; i < n; i++ {
		if r.Intn(100) < o.addrBias {
			t := genToken(r)
			items = append(items, item{isAddr: true, tok: t, text: t.text})
		} else {
			items = append(items, item{text: r.StringFrom(fillerAlphabet, r.Range(1, 8))})
		}
	}
	edge := func() string {
		if r.Intn(100) < o.edgeBare {
			return ""
		}
		return genSep(r)
	}
	seps = append(seps, edge())
	for i := 1; i < n; i++ {
		if r.Intn(100) < o.singleSep {
			seps = append(seps, pickDelim(r))
		} else {
			seps = append(seps, genSep(r))
		}
	}
	seps = append(seps, edge())
	return
}

// genDoc makes nLines lines; when partial is set the last line has no '\n'.
func genDoc(r *vlib.Rand, nLines int, o lineOpts, needAddr, partial bool) *doc {
	for try := 0; ; try++ {
		d := &doc{}
		for l := 0; l < nLines; l++ {
			items, seps := genLineItems(r, o)
			if l == 0 {
				d.seps = append(d.seps, seps[0])
			} else {
				d.seps[len(d.seps)-1] += "\n" + seps[0]
			}
			d.items = append(d.items, items...)
			d.seps = append(d.seps, seps[1:]...)
		}
		if !partial {
			d.seps[len(d.seps)-1] += "\n"
		}
		d.build()
		if try > 200 { // cannot happen in practice; keep the run deterministic and finite
			for i := range d.items {
				if d.items[i].isAddr {
					d.items[i] = item{text: "zq"}
				}
			}
			d.build()
			return d
		}
		if d.valid() && (!needAddr || d.nAddr() > 0) {
			return d
		}
	}
}

// ---- the residue oracle -------------------------------------------------------

func isAddrChar(c byte) bool {
	return c >= '0' && c <= '9' || c >= 'a' && c <= 'f' || c >= 'A' && c <= 'F' || c == ':' || c == '.'
}

func stripPort(s string) string {
	i := strings.LastIndexByte(s, ':')
	if i <= 0 || i == len(s)-1 || len(s)-i-1 > 5 {
		return s
	}
	for _, c := range []byte(s[i+1:]) {
		if c < '0' || c > '9' {
			return s
		}
	}
	return s[:i]
}

// parseRun: the address a run of address characters denotes, if any.
func parseRun(run string) net.IP {
	trimmed := strings.Trim(run, ":.")
	for _, c := range []string{run, stripPort(run), trimmed, stripPort(trimmed)} {
		if ip := net.ParseIP(c); ip != nil {
			return ip
		}
	}
	return nil
}

type survivor struct {
	idx  int
	rule string
	what string
}

// survivors applies rules (a) and (b) to what reached the sink.
func survivors(d *doc, sink string, only int) []survivor {
	var out []survivor
	seen := map[int]bool{}
	for i, it := range d.items {
		if !it.isAddr || (only >= 0 && i != only) {
			continue
		}
		if strings.Contains(sink, it.tok.host) {
			seen[i] = true
			out = append(out, survivor{i, "a", "host text present in the sink"})
		}
	}
	cleaned := strings.ReplaceAll(sink, placeholder, "")
	for p := 0; p < len(cleaned); {
		if !isAddrChar(cleaned[p]) {
			p++
			continue
		}
		q := p
		for q < len(cleaned) && isAddrChar(cleaned[q]) {
			q++
		}
		run := cleaned[p:q]
		p = q
		if len(run) < 2 {
			continue
		}
		ip := parseRun(run)
		if ip == nil {
			continue
		}
		for i, it := range d.items {
			if !it.isAddr || seen[i] || (only >= 0 && i != only) {
				continue
			}
			if ip.Equal(it.tok.ip) {
				seen[i] = true
				out = append(out, survivor{i, "b", fmt.Sprintf("residue %q parses to the planted address", run)})
			}
		}
	}
	sort.Slice(out, func(x, y int) bool { return out[x].idx < out[y].idx })
	return out
}

func (d *doc) ctx(i int) (left, right string) {
	if s := d.seps[i]; s == "" {
		left = "bol"
	} else {
		c, _ := utf8.DecodeLastRuneInString(s)
		left = runeClass(c, true)
	}
	if s := d.seps[i+1]; s == "" {
		right = "eof"
	} else {
		c, _ := utf8.DecodeRuneInString(s)
		right = runeClass(c, false)
	}
	return
}

func scrubGuarded(b []byte) (out []byte, panicked bool) {
	defer func() {
		if e := recover(); e != nil {
			panicked = true
		}
	}()
	return safelog.Scrub(b), false
}

// aloneText: the text with every planted address except item i replaced by a
// filler word.
func (d *doc) aloneText(i int) string {
	var b strings.Builder
	for k, it := range d.items {
		b.WriteString(d.seps[k])
		if k != i && it.isAddr {
			b.WriteString("zq")
		} else {
			b.WriteString(it.text)
		}
	}
	b.WriteString(d.seps[len(d.items)])
	return b.String()
}

// classify derives the signature of a surviving address from the shape of the
// input around it. A miss is "intrinsic" when the address also survives with
// every other address on the stream replaced by a word: then the signature
// names its text shape, form and delimiter context. Otherwise the miss is
// caused by neighbouring addresses and the signature names how the address is
// separated from the preceding one.
func classify(d *doc, s survivor, all []survivor) string {
	i := s.idx
	it := d.items[i]
	intrinsic := true
	if d.nAddr() > 1 {
		alone, panicked := scrubGuarded([]byte(d.aloneText(i)))
		intrinsic = panicked || len(survivors(d, string(alone), i)) > 0
	}
	if intrinsic {
		switch it.tok.shape {
		case "ipv6-7g-dc-0g": // D5b
			return "residue:ipv6-seven-groups-then-double-colon"
		case "ipv6-0g-dc-7g":
			return "residue:ipv6-double-colon-then-seven-groups"
		}
		left, right := d.ctx(i)
		return fmt.Sprintf("residue:%s:%s:%s-%s", it.tok.shape, it.tok.form, left, right)
	}
	// nearest preceding address
	p := i - 1
	for p >= 0 && !d.items[p].isAddr {
		p--
	}
	switch {
	case p < 0:
		return "residue:multi-address-interaction:no-preceding-address"
	case p < i-1:
		return "residue:multi-address-interaction:words-between"
	case utf8.RuneCountInString(d.seps[i]) > 1:
		return "residue:multi-address-interaction:several-delimiters-between"
	}
	for _, o := range all {
		if o.idx == p {
			return "residue:multi-address-interaction:single-delimiter-after-unscrubbed-address"
		}
	}
	// D5 class: exactly one delimiter character after an address that was scrubbed
	return "residue:adjacent-addresses-single-delimiter"
}

type residueRec struct {
	Case     string `json:"case"`
	Input    string `json:"input"`
	Sink     string `json:"sink"`
	Survivor string `json:"surviving_host"`
	Token    string `json:"token"`
	Shape    string `json:"shape"`
	Form     string `json:"form"`
	LeftSep  string `json:"left_separator"`
	RightSep string `json:"right_separator"`
	PrevItem string `json:"previous_item,omitempty"`
	Rule     string `json:"rule"`
	Writes   string `json:"writes,omitempty"`
}

// checkResidue runs rules (a),(b) on a sink and reports each survivor.
func checkResidue(res *vlib.Result, d *doc, sink, caseID, writes string) int {
	sv := survivors(d, sink, -1)
	for _, s := range sv {
		sig := classify(d, s, sv)
		it := d.items[s.idx]
		rec := residueRec{Case: caseID, Input: d.text, Sink: sink, Survivor: it.tok.host, Token: it.tok.text, Shape: it.tok.shape,
			Form: it.tok.form, LeftSep: d.seps[s.idx], RightSep: d.seps[s.idx+1], Rule: s.rule + ": " + s.what, Writes: writes}
		if s.idx > 0 {
			rec.PrevItem = d.items[s.idx-1].text
		}
		res.Violatef(sig, rec, "address %q (token %q, %s, %s) planted in %q reaches the sink: %q", it.tok.host, it.tok.text, it.tok.shape, it.tok.form, d.text, sink)
		res.Obs("survivors_seen", 1)
	}
	return len(sv)
}

// ---- the writer under test behind a recording sink ----------------------------

type recSink struct {
	mu      sync.Mutex
	writes  [][]byte
	n, max  int  // bytes received; budget (0 = none)
	runaway bool // the budget was exceeded: the writer emits more than any scrubbing of its input
}

var errRunaway = fmt.Errorf("harness sink: output budget exceeded")

func (s *recSink) Write(p []byte) (int, error) {
	s.mu.Lock()
	defer s.mu.Unlock()
	if s.max > 0 && s.n+len(p) > s.max {
		s.runaway = true
		return 0, errRunaway // LogScrubber.Write stops on a sink error
	}
	s.n += len(p)
	s.writes = append(s.writes, append([]byte(nil), p...))
	return len(p), nil
}

// sinkBudget: a placeholder is at most 5 times as long as the shortest address
// text ("::"), so a correct sink never receives more than 5x the input.
func sinkBudget(inputLen int) int { return 8*inputLen + 1024 }

func (s *recSink) all() []byte {
	s.mu.Lock()
	defer s.mu.Unlock()
	return bytes.Join(s.writes, nil)
}

// firstPartial returns the first non-empty sink write that does not end in '\n'.
func (s *recSink) firstPartial() ([]byte, bool) {
	s.mu.Lock()
	defer s.mu.Unlock()
	for _, w := range s.writes {
		if len(w) > 0 && w[len(w)-1] != '\n' {
			return w, true
		}
	}
	return nil, false
}

func bounded(b []byte) string {
	if utf8.Valid(b) && len(b) <= 600 {
		return string(b)
	}
	if len(b) > 300 {
		return fmt.Sprintf("hex:%x… (len %d)", b[:300], len(b))
	}
	return "hex:" + hex.EncodeToString(b)
}

type writeRec struct {
	Case   string `json:"case"`
	Stream string `json:"stream"`
	Cuts   []int  `json:"write_boundaries"`
	Got    string `json:"sink,omitempty"`
	Want   string `json:"sink_of_single_write,omitempty"`
	Detail string `json:"detail,omitempty"`
}

// writeChunks sends the stream, cut at the given offsets, through a fresh
// LogScrubber. ok=false when Write panicked (already reported).
func writeChunks(res *vlib.Result, stream []byte, cuts []int, caseID string) (sink *recSink, ok bool) {
	sink = &recSink{max: sinkBudget(len(stream))}
	ls := &safelog.LogScrubber{Output: sink}
	rec := writeRec{Case: caseID, Stream: bounded(stream), Cuts: cuts}
	prev := 0
	bounds := append(append([]int{}, cuts...), len(stream))
	panicked := res.Guard("panic:LogScrubber.Write", rec, func() {
		// every chunk is handed over in one reused scratch buffer which is
		// scribbled over right after the call, as io.Copy or a bufio.Writer
		// reuse theirs: an io.Writer must not retain p
		var scratch []byte
		for _, c := range bounds {
			chunk := stream[prev:c]
			if cap(scratch) < len(chunk) {
				scratch = make([]byte, len(chunk), 2*len(chunk)+16)
			}
			buf := scratch[:len(chunk)]
			copy(buf, chunk)
			ls.Write(buf)
			for i := range buf {
				buf[i] = '#'
			}
			prev = c
		}
	})
	res.Obs("sink_writes_checked", int64(len(sink.writes)))
	if sink.runaway {
		res.Violatef("runaway-output", rec, "the sink was sent more than %d bytes for a stream of %d bytes (stream %q, write boundaries %v)", sink.max, len(stream), bounded(stream), cuts)
		return sink, false
	}
	if w, bad := sink.firstPartial(); bad {
		rec.Detail = fmt.Sprintf("sink received a Write not ending in newline: %q", bounded(w))
		res.Violatef("partial-line-emitted", rec, "a Write reaching the sink does not end in '\\n': %q (stream %q, write boundaries %v)", bounded(w), bounded(stream), cuts)
	}
	return sink, !panicked
}

// looksLikeAddr is a loose syntactic test used only to name a split-dependence.
func looksLikeAddr(s string) bool {
	if len(s) < 2 {
		return false
	}
	for i := 0; i < len(s); i++ {
		if !isAddrChar(s[i]) {
			return false
		}
	}
	return strings.Count(s, ".") == 3 || strings.Count(s, ":") >= 2
}

// leadingAddr: does the line begin with an address token (bare, bracketed, with port)?
func leadingAddr(line string) bool {
	line = strings.TrimLeft(line, "[")
	h := 0
	for h < len(line) && isAddrChar(line[h]) {
		h++
	}
	return looksLikeAddr(line[:h]) || looksLikeAddr(stripPort(line[:h]))
}

// trailingAddr: does the line end with an address token?
func trailingAddr(line string) bool {
	if i := strings.LastIndex(line, "]:"); i >= 0 && stripPort("x"+line[i+1:]) == "x" {
		line = line[:i+1] // "[host]:port" -> "[host]"
	}
	line = strings.TrimRight(line, "]")
	t := len(line)
	for t > 0 && isAddrChar(line[t-1]) {
		t--
	}
	return looksLikeAddr(line[t:]) || looksLikeAddr(stripPort(line[t:]))
}

// splitClass names a split-dependence by the shape of the input around the
// first line on which the two sinks differ.
func splitClass(stream, got, want []byte) string {
	in := bytes.Split(stream, []byte("\n"))
	g := bytes.Split(got, []byte("\n"))
	w := bytes.Split(want, []byte("\n"))
	if len(g) != len(w) {
		return "line-count"
	}
	k := -1
	for i := range g {
		if !bytes.Equal(g[i], w[i]) {
			k = i
			break
		}
	}
	if k <= 0 || k >= len(in) {
		return "other"
	}
	cur, prev := string(in[k]), string(in[k-1])
	// the line starts with an address, or (arbitrary streams) at least with
	// address characters, directly after a line that ends in an address
	head := leadingAddr(cur) || (len(cur) > 0 && isAddrChar(cur[0]) && cur[0] != ':')
	switch {
	case head && trailingAddr(prev):
		return "adjacent-addresses-across-newline"
	case head && strings.HasSuffix(prev, ":") && trailingAddr(strings.TrimSuffix(prev, ":")):
		return "address-colon-newline-address"
	}
	return "other"
}

// checkSplits: rules (c),(d) for one stream over a list of splittings; when d
// is non-nil also rules (a),(b) on every distinct sink.
func checkSplits(res *vlib.Result, d *doc, stream []byte, splits [][]int, caseID string, addrSpans [][2]int) {
	ref, ok := writeChunks(res, stream, nil, caseID+"/unsplit")
	if !ok {
		return
	}
	want := ref.all()
	res.Eval(1)
	checked := map[string]bool{}
	if d != nil {
		checked[string(want)] = true
		checkResidue(res, d, string(want), caseID+"/unsplit", "one Write")
	}
	for si, cuts := range splits {
		id := fmt.Sprintf("%s/split/%d", caseID, si)
		res.Eval(1)
		res.Obs("splittings_checked", 1)
		inside := false
		for _, c := range cuts {
			for _, sp := range addrSpans {
				if c > sp[0] && c < sp[1] {
					inside = true
				}
			}
		}
		if inside {
			res.Obs("splittings_inside_an_address", 1)
			res.Distinct(hashKey(stream, fmt.Sprint(cuts)))
		}
		sink, ok := writeChunks(res, stream, cuts, id)
		if !ok {
			continue
		}
		got := sink.all()
		if !bytes.Equal(got, want) {
			cls := splitClass(stream, got, want)
			rec := writeRec{Case: id, Stream: bounded(stream), Cuts: cuts, Got: bounded(got), Want: bounded(want)}
			res.Violatef("split-dependence:"+cls, rec, "stream %q: written in pieces cut at %v the sink is %q, written with one Write it is %q", bounded(stream), cuts, bounded(got), bounded(want))
		}
		if d != nil && !checked[string(got)] {
			checked[string(got)] = true
			checkResidue(res, d, string(got), id, fmt.Sprintf("cut at %v", cuts))
		}
	}
}

func genSplits(r *vlib.Rand, n int, exhaustiveMax int) (splits [][]int, exhaustive bool) {
	if n <= exhaustiveMax {
		exhaustive = true
		for c := 1; c < n; c++ {
			splits = append(splits, []int{c})
		}
		every := make([]int, 0, n)
		for c := 1; c < n; c++ {
			every = append(every, c)
		}
		splits = append(splits, every) // one byte per Write
	}
	for k := 0; k < 6; k++ {
		m := r.Range(1, 8)
		var cuts []int
		for j := 0; j < m; j++ {
			cuts = append(cuts, r.Intn(n+1)) // 0, n and repeats give zero-length writes
		}
		sort.Ints(cuts)
		splits = append(splits, cuts)
	}
	return
}

func hashKey(b []byte, extra string) string {
	h := fnv.New64a()
	h.Write(b)
	h.Write([]byte{0})
	h.Write([]byte(extra))
	return fmt.Sprintf("%x", h.Sum64())
}

// ---- parts ----------------------------------------------------------------------

// 1. the complete product shapes x forms x left x right contexts, through Scrub.
func enumerate(res *vlib.Result) {
	gs := []string{"a1", "2b", "c3c", "4d4d", "5", "f6", "77e", "8888"}
	const v4 = "192.0.2.33"
	shapes := append([]shape{{ipv4: true}}, allV6Shapes()...)
	type cx struct{ sep, word string }
	var lefts, rights []cx
	lefts = append(lefts, cx{"", ""})
	rights = append(rights, cx{"", ""})
	for _, dl := range allDelims() {
		lefts = append(lefts, cx{dl, "zq"})
		rights = append(rights, cx{dl, "Wk"})
	}
	for _, dl := range []string{" ", "(", "[", "\"", "\t"} {
		lefts = append(lefts, cx{dl, ""}) // delimiter first on the line
	}
	for _, dl := range []string{" ", "\r", ")", "]", "\"", ","} {
		rights = append(rights, cx{dl, ""}) // delimiter last on the line
	}
	res.Note("enumerated_left_contexts", len(lefts))
	res.Note("enumerated_right_contexts", len(rights))
	for _, s := range shapes {
		host := s.spell(gs, v4)
		if s.ipv4 {
			host = "203.0.113.7"
		}
		if net.ParseIP(host) == nil || shapeOf(host) != s.name() {
			res.Require(false, fmt.Sprintf("harness: enumerated shape %s spelled %q is not accepted by net.ParseIP / not recognised", s.name(), host))
			continue
		}
		res.Obs("shapes_enumerated", 1)
		forms := []string{"bare", "bracketed", "bracketed-port"}
		if s.ipv4 {
			forms = []string{"bare", "bracketed", "port"}
		}
		for _, form := range forms {
			tok := mkToken(host, form, "65535", "")
			for li, l := range lefts {
				for ri, r := range rights {
					d := &doc{}
					if l.word != "" {
						d.items = append(d.items, item{text: l.word})
						d.seps = append(d.seps, "")
					}
					d.seps = append(d.seps, l.sep)
					d.items = append(d.items, item{isAddr: true, tok: tok, text: tok.text})
					if r.word != "" {
						d.seps = append(d.seps, r.sep)
						d.items = append(d.items, item{text: r.word})
						d.seps = append(d.seps, "\n")
					} else {
						d.seps = append(d.seps, r.sep+"\n")
					}
					d.build()
					id := fmt.Sprintf("enum/%s/%s/%d/%d", s.name(), form, li, ri)
					res.Eval(1)
					res.Obs("enumerated_cases", 1)
					var out []byte
					if res.Guard("panic:Scrub", map[string]interface{}{"case": id, "input": d.text}, func() { out = safelog.Scrub([]byte(d.text)) }) {
						continue
					}
					if bytes.Count(out, []byte(placeholder)) > 0 {
						res.Obs("enumerated_cases_with_placeholder", 1)
					}
					checkResidue(res, d, string(out), id, "")
					// the same text as an event message carries it: no line terminator, the
					// end of the text is the line boundary (common/event hands such text to Scrub)
					if strings.HasSuffix(d.text, "\n") {
						var out2 []byte
						t2 := strings.TrimSuffix(d.text, "\n")
						if !res.Guard("panic:Scrub", map[string]interface{}{"case": id + "/unterminated", "input": t2}, func() { out2 = safelog.Scrub([]byte(t2)) }) {
							res.Obs("enumerated_cases_scrubbed_without_line_terminator", 1)
							checkResidue(res, d, string(out2)+"\n", id+"/unterminated", "Scrub of text without a line terminator")
						}
					}
					res.Distinct(id)
				}
			}
		}
	}
	res.Note("enumerated_product", fmt.Sprintf("%d shapes x 3 forms x %d left x %d right contexts", len(shapes), len(lefts), len(rights)))
	res.Require(res.GetObs("enumerated_cases") == int64(len(shapes)*3*len(lefts)*len(rights)), "enumerated product incomplete")
}

// 2. PRNG lines with 1..n addresses, one Write per line (as package log does).
func randomLines(res *vlib.Result, root *vlib.Rand) {
	n := vlib.Scale(20000, 2000000)
	for i := 0; i < n; i++ {
		r := root.SplitN("line", i)
		o := lineOpts{maxItems: 6, addrBias: 60, singleSep: 70, edgeBare: 50}
		switch i % 10 {
		case 0: // a list of addresses
			o = lineOpts{maxItems: 8, addrBias: 100, singleSep: 85, edgeBare: 70}
		case 1:
			o = lineOpts{maxItems: 2, addrBias: 80, singleSep: 50, edgeBare: 50}
		}
		d := genDoc(r, 1, o, true, false)
		id := fmt.Sprintf("line/%d", i)
		res.Eval(1)
		sink, ok := writeChunks(res, []byte(d.text), nil, id)
		if !ok {
			continue
		}
		out := string(sink.all())
		checkResidue(res, d, out, id, "one Write")
		// coverage bookkeeping
		na := d.nAddr()
		res.Obs("lines", 1)
		res.ObsMax("max_addresses_on_a_line", int64(na))
		if na >= 2 {
			res.Obs("lines_with_two_or_more_addresses", 1)
			res.Distinct(hashKey([]byte(d.text), "line"))
		}
		for k, it := range d.items {
			if !it.isAddr {
				continue
			}
			res.Obs("planted_addresses", 1)
			res.Obs("form_"+it.tok.form, 1)
			if it.tok.shape == "ipv4" {
				res.Obs("planted_ipv4", 1)
			} else {
				res.Obs("planted_ipv6", 1)
			}
			if it.tok.shape == "ipv6-7g-dc-0g" {
				res.Obs("planted_seven_groups_then_double_colon", 1)
			}
			if strings.Contains(it.tok.shape, "v4") && it.tok.shape != "ipv4" {
				res.Obs("planted_ipv4_embedded", 1)
			}
			if it.tok.host != strings.ToLower(it.tok.host) {
				res.Obs("planted_upper_case", 1)
			}
			l, rr := d.ctx(k)
			res.Obs("left_"+l, 1)
			res.Obs("right_"+rr, 1)
			if k > 0 && d.items[k-1].isAddr && utf8.RuneCountInString(d.seps[k]) == 1 {
				res.Obs("addresses_one_delimiter_after_an_address", 1)
			}
		}
		if i < 3 {
			res.Sample(8, map[string]interface{}{"case": id, "input": d.text, "sink": out})
		}
	}
}

// 3. streams of several lines under many splittings.
func splitStreams(res *vlib.Result, root *vlib.Rand) {
	n := vlib.Scale(400, 15000)
	for i := 0; i < n; i++ {
		r := root.SplitN("stream", i)
		o := lineOpts{maxItems: 3, addrBias: 65, singleSep: 70, edgeBare: 65}
		partial := r.Chance(1, 4)
		nl := r.Range(2, 5)
		if i%4 == 0 {
			nl, o.maxItems = r.Range(2, 3), 2 // short: every byte boundary
		}
		d := genDoc(r, nl, o, true, partial)
		stream := []byte(d.text)
		var spans [][2]int
		for k, it := range d.items {
			if it.isAddr {
				spans = append(spans, [2]int{d.starts[k], d.starts[k] + len(it.text)})
			}
		}
		splits, exhaustive := genSplits(r, len(stream), 160)
		id := fmt.Sprintf("stream/%d", i)
		checkSplits(res, d, stream, splits, id, spans)
		res.Obs("streams", 1)
		if exhaustive {
			res.Obs("streams_split_at_every_byte_boundary", 1)
		}
		if partial {
			res.Obs("streams_with_trailing_partial_line", 1)
		}
		for k := 1; k < len(d.items); k++ {
			if d.items[k].isAddr && d.items[k-1].isAddr && d.seps[k] == "\n" {
				res.Obs("address_ends_line_and_address_starts_next", 1)
			}
		}
		if i < 2 {
			res.Sample(8, map[string]interface{}{"case": id, "stream": d.text, "splittings": len(splits)})
		}
	}
}

// 4. arbitrary bytes: only rules (c),(d) and the panic monitor apply.
func arbitraryStreams(res *vlib.Result, root *vlib.Rand) {
	frag := []string{"1.2.3.4", "10.0.0.1:80", "::", "::1", ":", ".", "[", "]", "1:2:3:4:5:6:7:8", "fe80::1", "[2001:db8::1]:443", "\n", "\n", "\n", " ", " ", ",",
		"\t", "\r\n", "zq", "x", "(", ")", "\x00", "\xff", "\xc3", "\u00a0", "999.999.999.999", "33:B6:FA:F6:94:CA", "ab", "0", "9", "f", ": ", "=", "%"}
	n := vlib.Scale(300, 10000)
	for i := 0; i < n; i++ {
		r := root.SplitN("arb", i)
		var b []byte
		for k := r.Range(0, 30); k > 0; k-- {
			if r.Chance(1, 6) {
				b = append(b, r.Bytes(r.Range(1, 4))...)
			} else {
				b = append(b, r.PickString(frag)...)
			}
		}
		if len(b) == 0 {
			continue
		}
		splits, _ := genSplits(r, len(b), 80)
		checkSplits(res, nil, b, splits, fmt.Sprintf("arb/%d", i), nil)
		res.Obs("arbitrary_streams", 1)
	}
	// a long line and many lines in one Write
	long := []byte(strings.Repeat("zq 10.1.2.3, ", 20000) + "\n")
	s, _ := genSplits(root.Split("long"), len(long), 0)
	checkSplits(res, nil, long, s, "arb/long-line", nil)
}

func encNum(n int) string {
	s := strconv.Itoa(n)
	b := []byte(s)
	for i := range b {
		b[i] = 'g' + (b[i] - '0')
	}
	return string(b)
}

// 5. concurrent writers, each Write one complete line.
func concurrentWriters(res *vlib.Result, root *vlib.Rand) {
	rounds := vlib.Scale(6, 30)
	for round := 0; round < rounds; round++ {
		r := root.SplitN("conc", round)
		nw := r.Range(2, 8)
		per := vlib.Scale(200, 600)
		lines := make([][][]byte, nw)
		want := map[string]int{}
		for w := 0; w < nw; w++ {
			for j := 0; j < per; j++ {
				d := genDoc(r, 1, lineOpts{maxItems: 4, addrBias: 60, singleSep: 60, edgeBare: 50}, false, false)
				ln := []byte("W" + encNum(w) + "_" + encNum(j) + " " + d.text)
				lines[w] = append(lines[w], ln)
				out, panicked := scrubGuarded(ln)
				if panicked {
					continue // reported by the other parts
				}
				want[string(out)]++
			}
		}
		id := fmt.Sprintf("conc/%d", round)
		rec := map[string]interface{}{"case": id, "writers": nw, "lines_per_writer": per}
		total := 0
		for _, ls := range lines {
			for _, ln := range ls {
				total += len(ln)
			}
		}
		sink := &recSink{max: sinkBudget(total)}
		ls := &safelog.LogScrubber{Output: sink}
		start := make(chan struct{})
		done := make(chan struct{})
		var wg sync.WaitGroup
		for w := 0; w < nw; w++ {
			wg.Add(1)
			go func(mine [][]byte) {
				defer wg.Done()
				<-start
				res.Guard("panic:LogScrubber.Write:concurrent-writers", rec, func() {
					for _, ln := range mine {
						ls.Write(ln)
					}
				})
			}(lines[w])
		}
		close(start)
		go func() { wg.Wait(); close(done) }()
		select {
		case <-done:
		case <-time.After(300 * time.Second):
			res.Inconcl(fmt.Sprintf("concurrent round %d did not finish in 300 s", round))
			return
		}
		res.Eval(1)
		res.Obs("concurrent_rounds", 1)
		res.Obs("concurrent_lines", int64(nw*per))
		res.Distinct(id)
		if sink.runaway {
			res.Violatef("runaway-output", rec, "concurrent writers: the sink was sent more than %d bytes for %d bytes written", sink.max, total)
			continue
		}
		if w, bad := sink.firstPartial(); bad {
			rec["detail"] = bounded(w)
			res.Violatef("partial-line-emitted", rec, "concurrent writers: a Write reaching the sink does not end in '\\n': %q", bounded(w))
		}
		got := map[string]int{}
		for _, ln := range bytes.SplitAfter(sink.all(), []byte("\n")) {
			if len(ln) > 0 {
				got[string(ln)]++
			}
		}
		garbled, lost := "", ""
		for ln, c := range got {
			if want[ln] == 0 {
				if garbled == "" || ln < garbled {
					garbled = ln
				}
			} else if c != want[ln] && (lost == "" || ln < lost) {
				lost = ln
			}
		}
		for ln := range want {
			if got[ln] == 0 && (lost == "" || ln < lost) {
				lost = ln
			}
		}
		if garbled != "" {
			rec["sink_line"] = bounded([]byte(garbled))
			res.Violatef("interleaved-line:concurrent-writers", rec, "%d concurrent writers of whole lines: sink line %q is no writer's complete scrubbed line", nw, bounded([]byte(garbled)))
		} else if lost != "" {
			rec["line"] = bounded([]byte(lost))
			res.Violatef("lost-or-duplicated-line:concurrent-writers", rec, "%d concurrent writers of whole lines: scrubbed line %q reached the sink %d times, expected %d", nw, bounded([]byte(lost)), got[lost], want[lost])
		}
	}
}

// ---- the test -------------------------------------------------------------------

func TestVerifC07(t *testing.T) {
	res := vlib.NewResult("C07", "api-c07", "addresses in every text form Go prints/accepts (dotted quad; full, compressed, upper-case, zero-padded IPv6; '::'; IPv4-mapped/embedded; bracketed; ports; zones; CIDR) planted between line boundaries, whitespace and punctuation other than ':' '.' '_' among filler words over [g-zG-Z_]: (1) the complete product 60 shapes x 3 forms x left x right contexts through Scrub, (2) PRNG lines with 1..8 addresses through LogScrubber, (3) multi-line streams under every 2-way byte split, byte-by-byte and PRNG k-way splits (with zero-length writes, trailing partial lines) compared with the single-Write sink, (4) arbitrary byte streams likewise; non-trivial = enumerated case (distinct by shape/form/contexts), line with >=2 addresses (distinct by text), splitting that cuts inside an address (distinct by stream and cut set)")
	defer res.Finish()
	root := vlib.NewRand(vlib.Seed()).Split("c07")
	res.Note("delimiters", "whitespace {space,\\t,\\r,\\f,\\v}, ASCII punctuation except ':' '.' '_', and 9 non-ASCII spaces/punctuation; ':' is outside the property, '.' and '_' are left out as doubtful (address character / word character)")

	phase := func(name string, f func()) {
		t0 := time.Now()
		f()
		res.Note("wall_s_"+name, float64(int(time.Since(t0).Seconds()*10))/10)
	}
	phase("enumerate", func() { enumerate(res) })
	phase("lines", func() { randomLines(res, root) })
	phase("streams", func() { splitStreams(res, root) })
	phase("arbitrary", func() { arbitraryStreams(res, root) })

	res.RequireObs("shapes_enumerated", 60)
	res.RequireObs("enumerated_cases", 60*3*30*30)
	res.RequireObs("enumerated_cases_with_placeholder", 60*3*30*30/2)
	res.RequireObs("lines", 20000)
	res.RequireObs("lines_with_two_or_more_addresses", 5000)
	res.RequireObs("addresses_one_delimiter_after_an_address", 3000)
	res.RequireObs("planted_seven_groups_then_double_colon", 100)
	res.RequireObs("planted_ipv4", 5000)
	res.RequireObs("planted_ipv6", 5000)
	res.RequireObs("planted_ipv4_embedded", 1000)
	res.RequireObs("planted_upper_case", 1000)
	for _, f := range []string{"bare", "port", "bracketed", "bracketed-port", "zone", "bracketed-zone-port", "cidr"} {
		res.RequireObs("form_"+f, 300)
	}
	for _, c := range []string{"left_bol", "left_ws", "left_punct", "left_nonascii", "right_eol", "right_ws", "right_punct", "right_nonascii"} {
		res.RequireObs(c, 300)
	}
	res.RequireObs("streams", 400)
	res.RequireObs("streams_split_at_every_byte_boundary", 100)
	res.RequireObs("streams_with_trailing_partial_line", 50)
	res.RequireObs("address_ends_line_and_address_starts_next", 20)
	res.RequireObs("splittings_checked", 10000)
	res.RequireObs("splittings_inside_an_address", 3000)
	res.RequireObs("sink_writes_checked", 20000)
	res.RequireObs("arbitrary_streams", 250)
}

// TestVerifC07Concurrent is the part that runs under the race detector
// (regexp matching is ~30x slower there, so the sequential bulk above is a
// separate part built without it).
func TestVerifC07Concurrent(t *testing.T) {
	res := vlib.NewResult("C07", "api-c07-race", "2..8 goroutines share one LogScrubber and each writes whole PRNG lines (0..4 addresses, tagged per writer and line) one Write per line, under -race; the sink must consist of exactly the individually scrubbed lines, every sink Write ending in newline; non-trivial = one round (distinct by round)")
	defer res.Finish()
	root := vlib.NewRand(vlib.Seed()).Split("c07")
	concurrentWriters(res, root)
	res.RequireObs("concurrent_rounds", 6)
	res.RequireObs("concurrent_lines", 3000)
}
