// C19 (journal part) — the distinct-IP journal stores only keyed-hash sketches
// whose merged estimate over a time window matches the number of distinct
// addresses recorded in the chunks inside that window.
//
// Engine: api (exported API of common/ipsetsink and common/ipsetsink/sinkcluster).
//
// How chunk membership is known exactly.  ClusterWriter flushes a chunk (one
// journal line) either when WriteIPSetToDisk is called or, inside AddIPToSet,
// when the write interval has passed.  The harness's WriteSyncer counts the
// lines that have been written; the addresses handed to the writer between
// line k-1 and line k are the content of chunk k.  Nothing is derived from
// the clock.  In "explicit" mode the interval is one hour and every flush is a
// WriteIPSetToDisk call made by the harness, so membership is unambiguous.  In
// "clock" mode (interval 1 ns .. 1 ms) a line may appear *during* an
// AddIPToSet(a) call; from the API boundary it cannot be told whether a went
// into the line just written or into the next one, so a is recorded as
// belonging to either (it is definite for a window holding both chunks,
// optional for a window holding exactly one of them).
//
// Exactness regime (read from github.com/clarkduvall/hyperloglog@a0107a5d,
// hyperloglogplus.go): NewPlus(18) starts sparse; a sparse sketch is the *set*
// of encodeHash values (25-bit index, plus the run length when bits 18..24 are
// zero); Merge of two sparse sketches is set union; Count() of a sparse sketch
// is uint64(m'·ln(m'/(m'-k))) with m' = 2^24 and k = number of distinct
// encoded values, i.e. k + k²/2^25 + …, truncated: exactly k for k < 5792.
// Two addresses are conflated only if the top 25 bits of the first 8 bytes of
// their keyed hash coincide.  So for ≤ 2000 addresses the estimate is exactly
// the number of distinct addresses unless such a 25-bit collision happens; the
// harness computes the keyed hash itself (HMAC-SHA3-256, as sink.go does) only
// to detect these collisions, and then allows the estimate to be lower by the
// number of colliding addresses.  The sketch turns dense (2^18 one-byte
// registers, a 262 144-byte payload, ≈ 350 KB base64 line) when the compressed
// sparse list exceeds 2^18 bytes (≈ 1.2×10^5 addresses); the dense estimator
// at 2×10^5 is linear counting over 2^18 registers, standard error ≈ 0.16 %,
// and the sparse estimator's bias at 10^5 is +0.3 %; the bound used is 2 %.
package c19j

import (
	"bytes"
	"crypto/hmac"
	"encoding/base64"
	"encoding/binary"
	"encoding/json"
	"errors"
	"fmt"
	"io"
	"io/ioutil"
	"log"
	"net/netip"
	"sort"
	"testing"
	"time"

	"git.torproject.org/pluggable-transports/snowflake.git/v2/common/ipsetsink"
	"git.torproject.org/pluggable-transports/snowflake.git/v2/common/ipsetsink/sinkcluster"
	"golang.org/x/crypto/sha3"
	"verif/vlib"
)

const (
	exactMax      = 2000  // property: "exactly for small sets"
	boundPermille = 20    // 2 % otherwise
	scannerLimit  = 65536 // bufio.MaxScanTokenSize, only used to classify a failure
	denseBytes    = 1 << 18
)

// ---- the WriteSyncer the writer is given -----------------------------------

type memWriter struct {
	buf      bytes.Buffer
	lines    int
	writes   int
	syncs    int
	failNext bool
	fails    int
}

func (w *memWriter) Write(p []byte) (int, error) {
	w.writes++
	if w.failNext {
		w.failNext = false
		w.fails++
		return 0, errors.New("harness: no space left on device")
	}
	w.lines += bytes.Count(p, []byte{'\n'})
	return w.buf.Write(p)
}

func (w *memWriter) Sync() error { w.syncs++; return nil }

// ---- one journal being recorded, with the harness's own membership ---------

type ambig struct {
	k    int // the address is in line k or in line k+1
	addr string
}

type recording struct {
	w       *memWriter
	key     string
	cw      *sinkcluster.ClusterWriter
	chunks  []map[string]struct{} // chunks[k] = definite members of journal line k
	maybe   []map[string]struct{} // maybe[k] = addresses handed over before a write that FAILED: the text does not say whether they must survive
	pending map[string]struct{}
	pendOpt map[string]struct{}
	ambigs  []ambig
	fed     map[string]struct{}
	adds    int
	odd     bool // a call produced a number of lines the harness cannot attribute
}

func newRecording(key string, interval time.Duration) *recording {
	rec := &recording{w: &memWriter{}, key: key, pending: map[string]struct{}{}, pendOpt: map[string]struct{}{}, fed: map[string]struct{}{}}
	rec.cw = sinkcluster.NewClusterWriter(rec.w, interval, ipsetsink.NewIPSetSink(key))
	return rec
}

// restart models a broker restart: a new writer appends to the same file; what
// the old writer had not flushed is in no chunk.
func (rec *recording) restart(interval time.Duration) {
	rec.pending = map[string]struct{}{}
	rec.pendOpt = map[string]struct{}{}
	rec.cw = sinkcluster.NewClusterWriter(rec.w, interval, ipsetsink.NewIPSetSink(rec.key))
}

func (rec *recording) closePending(newLines int) {
	if newLines != 1 {
		rec.odd = true
	}
	rec.chunks = append(rec.chunks, rec.pending)
	rec.maybe = append(rec.maybe, rec.pendOpt)
	for i := 1; i < newLines; i++ {
		rec.chunks = append(rec.chunks, map[string]struct{}{})
		rec.maybe = append(rec.maybe, map[string]struct{}{})
	}
	rec.pending = map[string]struct{}{}
	rec.pendOpt = map[string]struct{}{}
}

func (rec *recording) add(a string) {
	before := rec.w.lines
	rec.cw.AddIPToSet(a)
	after := rec.w.lines
	rec.adds++
	rec.fed[a] = struct{}{}
	if after == before {
		rec.pending[a] = struct{}{}
		return
	}
	rec.closePending(after - before)
	rec.ambigs = append(rec.ambigs, ambig{k: after - 1, addr: a})
}

func (rec *recording) flush() bool {
	before, fails := rec.w.lines, rec.w.fails
	rec.cw.WriteIPSetToDisk()
	if rec.w.lines > before {
		rec.closePending(rec.w.lines - before)
		return true
	}
	if rec.w.fails > fails {
		// the write failed and no line appeared. The real writer keeps the
		// sketch and writes it with the next line; the property text does not
		// promise that, so these addresses become optional members of the
		// next line (observed, not demanded).
		for a := range rec.pending {
			rec.pendOpt[a] = struct{}{}
		}
		rec.pending = map[string]struct{}{}
	}
	return false
}

// ---- the harness's own reading of the journal -------------------------------

type jline struct {
	start, end time.Time
	payload    []byte
	raw        []byte // including '\n'
}

func parseJournal(j []byte) ([]jline, error) {
	var out []jline
	for len(j) > 0 {
		i := bytes.IndexByte(j, '\n')
		if i < 0 {
			return out, fmt.Errorf("line %d is not newline-terminated", len(out))
		}
		raw := j[:i+1]
		j = j[i+1:]
		var m map[string]json.RawMessage
		if err := json.Unmarshal(raw[:i], &m); err != nil {
			return out, fmt.Errorf("line %d: %v", len(out), err)
		}
		var s, e, p string
		if json.Unmarshal(m["recordingStart"], &s) != nil || json.Unmarshal(m["recordingEnd"], &e) != nil || json.Unmarshal(m["recorded"], &p) != nil {
			return out, fmt.Errorf("line %d: recordingStart/recordingEnd/recorded are not strings", len(out))
		}
		if len(m) != 3 {
			return out, fmt.Errorf("line %d has %d members, the documented format has 3", len(out), len(m))
		}
		st, err := time.Parse(time.RFC3339Nano, s)
		if err != nil {
			return out, fmt.Errorf("line %d: %v", len(out), err)
		}
		en, err := time.Parse(time.RFC3339Nano, e)
		if err != nil {
			return out, fmt.Errorf("line %d: %v", len(out), err)
		}
		pl, err := base64.StdEncoding.DecodeString(p)
		if err != nil {
			return out, fmt.Errorf("line %d: %v", len(out), err)
		}
		out = append(out, jline{start: st, end: en, payload: pl, raw: raw})
	}
	return out, nil
}

// ---- address generators -----------------------------------------------------

func genAddr(r *vlib.Rand) string {
	switch r.Intn(10) {
	case 0, 1, 2, 3, 4:
		var b [4]byte
		r.Fill(b[:])
		return netip.AddrFrom4(b).String()
	case 5:
		return fmt.Sprintf("10.0.%d.%d", r.Intn(2), r.Intn(256))
	case 6, 7:
		var b [16]byte
		r.Fill(b[:])
		return netip.AddrFrom16(b).Unmap().String()
	case 8:
		var b [16]byte
		copy(b[:], []byte{0x20, 0x01, 0x0d, 0xb8})
		r.Fill(b[12:])
		return netip.AddrFrom16(b).String()
	default:
		var b [16]byte
		copy(b[:], []byte{0x26, 0x20})
		b[7] = byte(r.Intn(256))
		b[15] = byte(r.Intn(256))
		return netip.AddrFrom16(b).String()
	}
}

func genPool(r *vlib.Rand, n int) []string {
	seen := map[string]struct{}{}
	var pool []string
	for len(pool) < n {
		a := genAddr(r)
		if _, ok := seen[a]; ok {
			continue
		}
		seen[a] = struct{}{}
		pool = append(pool, a)
	}
	return pool
}

// bulkAddr: the i-th address of a family of pairwise distinct addresses.
func bulkAddr(base uint64, i int) string {
	x := base + uint64(i)*0x9E3779B97F4A7C15 // odd multiplier: a bijection on 2^64
	if i%3 == 2 {
		var b [16]byte
		copy(b[:], []byte{0x20, 0x01, 0x0d, 0xb8})
		binary.BigEndian.PutUint64(b[8:], x)
		return netip.AddrFrom16(b).String()
	}
	var b [4]byte
	// distinct i (< 2^32) give distinct 32-bit values: multiplier is odd
	binary.BigEndian.PutUint32(b[:], uint32(base)+uint32(i)*2654435761)
	return netip.AddrFrom4(b).String()
}

var keyRunes = []rune("abcdefghijklmnopqrstuvwxyzABCDEFGHIJKLMNOPQRSTUVWXYZ0123456789-_ ")

func genKey(r *vlib.Rand) string {
	switch r.Intn(8) {
	case 0:
		return ""
	case 1:
		return "k"
	case 2:
		return string(r.Bytes(r.Range(1, 200))) // arbitrary bytes, longer than the hash block sometimes
	}
	return r.StringFrom(keyRunes, r.Range(1, 40))
}

// ---- keyed hash, used ONLY to detect 25-bit index collisions ---------------

func idx25(key, addr string) uint32 {
	m := hmac.New(sha3.New256, []byte(key))
	m.Write([]byte(addr))
	s := m.Sum(nil)
	return uint32(binary.BigEndian.Uint64(s[:8]) >> 39)
}

type idxCache struct {
	key string
	m   map[string]uint32
}

func (c *idxCache) collisions(set map[string]struct{}) int {
	seen := make(map[uint32]struct{}, len(set))
	for a := range set {
		v, ok := c.m[a]
		if !ok {
			v = idx25(c.key, a)
			c.m[a] = v
		}
		seen[v] = struct{}{}
	}
	return len(set) - len(seen)
}

// ---- address text / raw form search ----------------------------------------

type leakPatterns struct {
	text  map[string][]string // first 7 bytes of the text -> full texts
	raw4  map[[4]byte]string
	raw16 map[[16]byte]string
}

func newLeakPatterns(addrs map[string]struct{}) *leakPatterns {
	lp := &leakPatterns{text: map[string][]string{}, raw4: map[[4]byte]string{}, raw16: map[[16]byte]string{}}
	for a := range addrs {
		if len(a) >= 7 {
			lp.text[a[:7]] = append(lp.text[a[:7]], a)
		} else {
			lp.text[a] = append(lp.text[a], a) // cannot happen for IP texts (min "1.1.1.1")
		}
		ip, err := netip.ParseAddr(a)
		if err != nil {
			continue
		}
		if ip.Is4() {
			lp.raw4[ip.As4()] = a
		}
		// the 16-byte form of every address (IPv4 as v4-mapped)
		lp.raw16[ip.As16()] = a
	}
	return lp
}

// scan returns the addresses found as text, as raw 16 bytes, as raw 4 bytes.
func (lp *leakPatterns) scan(b []byte) (text, raw16 []string, raw4 map[string]struct{}) {
	raw4 = map[string]struct{}{}
	for i := 0; i+7 <= len(b); i++ {
		if cands, ok := lp.text[string(b[i:i+7])]; ok {
			for _, c := range cands {
				if bytes.HasPrefix(b[i:], []byte(c)) {
					text = append(text, c)
				}
			}
		}
	}
	for i := 0; i+4 <= len(b); i++ {
		var k [4]byte
		copy(k[:], b[i:])
		if a, ok := lp.raw4[k]; ok {
			raw4[a] = struct{}{}
		}
	}
	if len(lp.raw16) > 0 {
		for i := 0; i+16 <= len(b); i++ {
			var k [16]byte
			copy(k[:], b[i:])
			if a, ok := lp.raw16[k]; ok {
				raw16 = append(raw16, a)
			}
		}
	}
	return
}

// ---- readers handed to Count -----------------------------------------------

type chunkedReader struct {
	b []byte
	n int
}

func (c *chunkedReader) Read(p []byte) (int, error) {
	if len(c.b) == 0 {
		return 0, io.EOF
	}
	n := c.n
	if n > len(p) {
		n = len(p)
	}
	if n > len(c.b) {
		n = len(c.b)
	}
	copy(p, c.b[:n])
	c.b = c.b[n:]
	return n, nil
}

func journalReader(j []byte, how int) io.Reader {
	switch how % 3 {
	case 1:
		return &chunkedReader{b: j, n: 4096} // like a file
	case 2:
		return &chunkedReader{b: j, n: 61}
	}
	return bytes.NewReader(j)
}

// ---- window evaluation ------------------------------------------------------

type window struct {
	from, to time.Time
	desc     string
}

type expectation struct {
	inside   []int
	lo, hi   int
	coll     int // 25-bit index collisions among the candidate addresses (exact regime only)
	eqDep    bool
	excl     [][2]int // lo/hi if chunks touching the window's from / to / both exactly were excluded
	longLine bool     // a line above the scanner limit at or before the last chunk inside
	anyLong  bool     // a line above the scanner limit anywhere in the journal
}

func unionSets(rec *recording, inside []int) (def, all map[string]struct{}) {
	in := map[int]bool{}
	for _, k := range inside {
		in[k] = true
	}
	def = map[string]struct{}{}
	for _, k := range inside {
		for a := range rec.chunks[k] {
			def[a] = struct{}{}
		}
	}
	all = map[string]struct{}{}
	for a := range def {
		all[a] = struct{}{}
	}
	for _, k := range inside {
		for a := range rec.maybe[k] {
			all[a] = struct{}{}
		}
	}
	for _, am := range rec.ambigs {
		a, b := in[am.k], in[am.k+1]
		if a && b {
			def[am.addr] = struct{}{}
		}
		if a || b {
			all[am.addr] = struct{}{}
		}
	}
	return
}

func expect(rec *recording, lines []jline, w window, ic *idxCache) expectation {
	var ex expectation
	var noFrom, noTo, noBoth []int // membership if equality at from / to / either did not count
	for k, ln := range lines {
		if !ln.start.Before(w.from) && !ln.end.After(w.to) {
			ex.inside = append(ex.inside, k)
			ef, et := ln.start.Equal(w.from), ln.end.Equal(w.to)
			if ef || et {
				ex.eqDep = true
			}
			if !ef {
				noFrom = append(noFrom, k)
			}
			if !et {
				noTo = append(noTo, k)
			}
			if !ef && !et {
				noBoth = append(noBoth, k)
			}
		}
	}
	def, all := unionSets(rec, ex.inside)
	ex.lo, ex.hi = len(def), len(all)
	if ex.hi <= exactMax {
		ex.coll = ic.collisions(all)
	}
	if ex.eqDep {
		for _, alt := range [][]int{noFrom, noTo, noBoth} {
			d2, a2 := unionSets(rec, alt)
			ex.excl = append(ex.excl, [2]int{len(d2), len(a2)})
		}
	}
	last := -1
	if len(ex.inside) > 0 {
		last = ex.inside[len(ex.inside)-1]
	}
	for k := range lines {
		if len(lines[k].raw) > scannerLimit {
			ex.anyLong = true
			if k <= last {
				ex.longLine = true
			}
		}
	}
	return ex
}

func within(got uint64, lo, hi, coll int) bool {
	if hi <= exactMax {
		return int64(got) >= int64(lo-coll) && int64(got) <= int64(hi)
	}
	l := float64(lo) * (1 - float64(boundPermille)/1000)
	h := float64(hi) * (1 + float64(boundPermille)/1000)
	return float64(got) >= l && float64(got) <= h
}

type replayRec struct {
	Case       string            `json:"case"`
	Mode       string            `json:"mode"`
	KeyHex     string            `json:"key_hex"`
	Adds       int               `json:"adds"`
	ChunkSizes []int             `json:"chunk_distinct_sizes"`
	LineBytes  []int             `json:"line_bytes,omitempty"`
	Chunks     [][]string        `json:"chunks,omitempty"` // only when small
	Ambiguous  []string          `json:"ambiguous_between_lines,omitempty"`
	ChunkTimes []string          `json:"chunk_times,omitempty"`
	Window     string            `json:"window"`
	From       string            `json:"from"`
	To         string            `json:"to"`
	Inside     []int             `json:"chunks_inside_window"`
	WantLo     int               `json:"want_min"`
	WantHi     int               `json:"want_max"`
	Collisions int               `json:"index_collisions_allowed"`
	Got        uint64            `json:"got_sum"`
	GotChunks  int64             `json:"got_chunk_included"`
	Err        string            `json:"err,omitempty"`
	Extra      map[string]string `json:"extra,omitempty"`
}

func hexKey(k string) string { return fmt.Sprintf("%x", k) }

func mkReplay(id, mode string, rec *recording, lines []jline, w window, ex expectation) replayRec {
	rr := replayRec{Case: id, Mode: mode, KeyHex: hexKey(rec.key), Adds: rec.adds, Window: w.desc,
		From: w.from.Format(time.RFC3339Nano), To: w.to.Format(time.RFC3339Nano), Inside: ex.inside,
		WantLo: ex.lo, WantHi: ex.hi, Collisions: ex.coll}
	small := rec.adds <= 40 && len(rec.chunks) <= 12
	for k, c := range rec.chunks {
		if k >= 64 {
			break
		}
		rr.ChunkSizes = append(rr.ChunkSizes, len(c))
		if k < len(lines) {
			rr.LineBytes = append(rr.LineBytes, len(lines[k].raw))
		}
		if small {
			var as []string
			for a := range c {
				as = append(as, a)
			}
			sort.Strings(as)
			rr.Chunks = append(rr.Chunks, as)
			if k < len(lines) {
				rr.ChunkTimes = append(rr.ChunkTimes, lines[k].start.Format(time.RFC3339Nano)+" .. "+lines[k].end.Format(time.RFC3339Nano))
			}
		}
	}
	if small {
		for _, am := range rec.ambigs {
			rr.Ambiguous = append(rr.Ambiguous, fmt.Sprintf("%s in line %d or %d", am.addr, am.k, am.k+1))
		}
	}
	return rr
}

func countJournal(res *vlib.Result, journal []byte, how int, from, to time.Time, sigPanic string, rr interface{}) (r *sinkcluster.ClusterCountResult, err error, panicked bool) {
	panicked = res.Guard(sigPanic, rr, func() {
		r, err = sinkcluster.NewClusterCounter(from, to).Count(journalReader(journal, how))
	})
	return
}

// checkWindow returns true when the real counter agreed with the expectation.
func checkWindow(res *vlib.Result, id, mode string, rec *recording, journal []byte, lines []jline, w window, ic *idxCache, how int) bool {
	res.Eval(1)
	ex := expect(rec, lines, w, ic)
	rr := mkReplay(id, mode, rec, lines, w, ex)
	got, err, panicked := countJournal(res, journal, how, w.from, w.to, "journal:panic:Count", rr)
	if panicked {
		return false
	}
	if err != nil || got == nil {
		rr.Err = fmt.Sprint(err)
		sig := "journal:count-error"
		if ex.anyLong {
			sig = "journal:large-chunk-read-error"
		}
		res.Violatef(sig, rr, "Count over a journal written by ClusterWriter returned error %v (window %s)", err, w.desc)
		return false
	}
	rr.Got, rr.GotChunks = got.Sum, got.ChunkIncluded
	res.Obs("windows_checked", 1)
	if len(ex.inside) > 0 && len(ex.inside) < len(lines) {
		res.Obs("windows_partial", 1)
	}
	if len(ex.inside) == 0 {
		res.Obs("windows_empty", 1)
	}
	if ex.eqDep {
		res.Obs("windows_touching_a_chunk_boundary_exactly", 1)
	}
	if ex.hi <= exactMax {
		res.Obs("windows_exact_regime", 1)
		if ex.coll > 0 {
			res.Obs("windows_with_detected_index_collision", 1)
		}
	} else {
		res.Obs("windows_bound_regime", 1)
	}
	if ex.hi > ex.lo {
		res.Obs("windows_with_optional_addresses", 1)
	}
	if within(got.Sum, ex.lo, ex.hi, ex.coll) {
		if int(got.ChunkIncluded) != len(ex.inside) {
			// not part of the property text: recorded, not judged
			res.Obs("chunkincluded_differs_but_sum_ok", 1)
		}
		return true
	}
	// classify
	sig := ""
	switch {
	case ex.longLine && int(got.ChunkIncluded) < len(ex.inside):
		sig = "journal:large-chunk-silently-dropped"
	default:
		// would the real counter get it right on a journal holding exactly
		// the lines inside the window? then the window test is at fault.
		var sub []byte
		for _, k := range ex.inside {
			sub = append(sub, lines[k].raw...)
		}
		far0 := time.Unix(1000, 0)
		far1 := time.Unix(1<<36, 0)
		g2, e2, p2 := countJournal(res, sub, 0, far0, far1, "journal:panic:Count", rr)
		subOK := !p2 && e2 == nil && g2 != nil && within(g2.Sum, ex.lo, ex.hi, ex.coll)
		eqOnly := false
		for _, alt := range ex.excl {
			if within(got.Sum, alt[0], alt[1], ex.coll) {
				eqOnly = true
			}
		}
		switch {
		case subOK && eqOnly:
			// the only disagreement is whether a chunk that starts exactly at
			// `from` / ends exactly at `to` is inside: kept apart, because
			// "inside" could be read either way
			sig = "journal:window-boundary-equality"
		case subOK:
			sig = "journal:window-membership"
		case ex.hi <= exactMax:
			sig = "journal:count-mismatch-small"
		default:
			sig = "journal:estimate-out-of-bound"
		}
	}
	res.Violatef(sig, rr, "window %s [%s, %s]: chunks inside %v hold between %d and %d distinct addresses (collisions allowed %d); Count returned sum=%d chunkIncluded=%d err=nil",
		w.desc, rr.From, rr.To, ex.inside, ex.lo, ex.hi, ex.coll, got.Sum, got.ChunkIncluded)
	return false
}

func genWindows(r *vlib.Rand, lines []jline, n int) []window {
	far0 := time.Unix(1000, 0)
	far1 := time.Unix(1<<36, 0)
	ws := []window{{far0, far1, "all"}}
	if len(lines) == 0 {
		ws = append(ws, window{far1, far0, "reversed"})
		return ws
	}
	var pts []time.Time
	for _, ln := range lines {
		pts = append(pts, ln.start, ln.end)
	}
	first, last := lines[0].start, lines[len(lines)-1].end
	ws = append(ws,
		window{first, last, "hull"},
		window{last, first, "reversed"},
		window{first.Add(time.Nanosecond), last, "hull,from+1ns"},
		window{first, last.Add(-time.Nanosecond), "hull,to-1ns"},
	)
	zones := []*time.Location{time.UTC, time.FixedZone("east", 5*3600+1800), time.FixedZone("west", -8*3600), time.Local}
	pick := func() (time.Time, string) {
		p := pts[r.Intn(len(pts))]
		d := ""
		switch r.Intn(8) {
		case 0:
			p = p.Add(-time.Nanosecond)
			d = "-1ns"
		case 1:
			p = p.Add(time.Nanosecond)
			d = "+1ns"
		case 2:
			q := pts[r.Intn(len(pts))]
			p = p.Add(q.Sub(p) / 2)
			d = "~mid"
		case 3:
			p = p.Add(time.Duration(r.Range(-2000000, 2000000)))
			d = "~rnd"
		}
		return p.In(zones[r.Intn(len(zones))]), d
	}
	for len(ws) < n {
		f, fd := pick()
		t, td := pick()
		if f.After(t) && r.Chance(7, 8) {
			f, t = t, f
			fd, td = td, fd
		}
		ws = append(ws, window{f, t, "boundary" + fd + "/boundary" + td})
	}
	// one window per single chunk (first few)
	for k := 0; k < len(lines) && k < 3; k++ {
		ws = append(ws, window{lines[k].start, lines[k].end, fmt.Sprintf("exactly-chunk-%d", k)})
	}
	return ws
}

// ---- leak / format checks on one journal -------------------------------------

func checkJournalBytes(res *vlib.Result, id, mode string, rec *recording, journal []byte, lines []jline) {
	res.Eval(1)
	lp := newLeakPatterns(rec.fed)
	rr := map[string]interface{}{"case": id, "mode": mode, "key_hex": hexKey(rec.key), "addresses_fed": len(rec.fed), "journal_bytes": len(journal)}
	report := func(where string, text, raw16 []string) {
		if len(text) > 0 {
			rr["found"] = text[0]
			rr["where"] = where
			res.Violatef("journal:address-text-in-journal", rr, "address %q appears as text in the %s (%d addresses found)", text[0], where, len(text))
		}
		if len(raw16) > 0 {
			rr["found"] = raw16[0]
			rr["where"] = where
			res.Violatef("journal:address-raw16-in-journal", rr, "the 16-byte form of address %q appears in the %s", raw16[0], where)
		}
	}
	t, r16, _ := lp.scan(journal)
	report("journal text", t, r16)
	for k, ln := range lines {
		t, r16, _ := lp.scan(ln.payload)
		report(fmt.Sprintf("decoded sketch of line %d", k), t, r16)
		if len(ln.payload) >= denseBytes {
			res.Obs("dense_sketch_lines", 1)
		}
		if len(ln.raw) > scannerLimit {
			res.Obs("lines_over_64KiB", 1)
		}
		res.ObsMax("max_line_bytes", int64(len(ln.raw)))
	}
	res.Obs("journals_scanned_for_address_text", 1)
	res.Obs("addresses_searched_in_journals", int64(len(rec.fed)))
}

// ---- case families ------------------------------------------------------------

func smallCase(res *vlib.Result, root *vlib.Rand, i int) {
	r := root.SplitN("small", i)
	id := fmt.Sprintf("small/%d", i)
	key := genKey(r)
	total := r.PickInt([]int{0, 1, 1, 2, 2, 3, 4, 5, 8, 10, 20, 50, 50, 200, 200, 500, 1000, 2500, 3000})
	poolN := 1
	switch r.Intn(6) {
	case 0:
		poolN = 1 + r.Intn(3)
	case 1:
		poolN = 1 + total/4
	case 2:
		poolN = 1 + total/2
	case 3, 4:
		poolN = 1 + total
	case 5:
		poolN = 1 + 2*total
	}
	if poolN > exactMax-10 && r.Chance(3, 4) {
		poolN = exactMax - 10 // keep most big cases inside the exact regime
	}
	pool := genPool(r, poolN)
	clock := i%4 == 3
	mode := "explicit"
	interval := time.Hour
	if clock {
		interval = []time.Duration{time.Nanosecond, time.Microsecond, 50 * time.Microsecond, time.Millisecond}[r.Intn(4)]
		mode = "clock/" + interval.String()
		if interval <= time.Microsecond && total > 60 {
			total = 60 // (almost) every add flushes; each flush allocates 256 KiB in the sketch
		}
	}
	rec := newRecording(key, interval)
	nFlush := r.Range(0, 12)
	sleeps := 0
	for t := 0; t < total; t++ {
		rec.add(pool[r.Intn(len(pool))])
		if clock {
			if interval >= 50*time.Microsecond && sleeps < 6 && r.Chance(6, total+1) {
				time.Sleep(2 * interval)
				sleeps++
			}
			if len(rec.chunks) > 80 {
				break
			}
			if r.Chance(1, 3*total+1) {
				rec.flush()
			}
			continue
		}
		if r.Chance(nFlush, total+1) {
			if r.Chance(1, 10) {
				rec.w.failNext = true // the write fails: nothing reaches the journal
				res.Obs("failed_writes_injected", 1)
			}
			rec.flush()
			if r.Chance(1, 8) {
				rec.flush() // an empty chunk
			}
			if r.Chance(1, 25) {
				rec.restart(interval)
				res.Obs("writer_restarts", 1)
			}
		}
	}
	if r.Chance(4, 5) {
		rec.flush()
	} else {
		res.Obs("cases_with_unflushed_tail", 1)
	}
	journal := rec.w.buf.Bytes()
	lines, err := parseJournal(journal)
	base := map[string]interface{}{"case": id, "mode": mode, "key_hex": hexKey(key), "adds": rec.adds}
	if err != nil || len(lines) != len(rec.chunks) {
		res.Violatef("journal:malformed-line", base, "journal does not follow the documented format: %v (%d lines parsed, %d written)", err, len(lines), len(rec.chunks))
		return
	}
	if rec.odd {
		res.Inconcl(id + ": one call produced several journal lines; membership cannot be attributed")
		return
	}
	checkJournalBytes(res, id, mode, rec, journal, lines)
	ic := &idxCache{key: key, m: map[string]uint32{}}
	ws := genWindows(r, lines, 10)
	for wi, w := range ws {
		checkWindow(res, fmt.Sprintf("%s/w%d", id, wi), mode, rec, journal, lines, w, ic, i+wi)
	}
	res.Obs("small_cases", 1)
	if clock {
		res.Obs("small_cases_clock_driven", 1)
	} else {
		res.Obs("small_cases_explicit_flush", 1)
	}
	res.Obs("chunks_written", int64(len(lines)))
	res.ObsMax("max_chunks_in_a_case", int64(len(lines)))
	if len(rec.ambigs) > 0 {
		res.Obs("flushes_inside_AddIPToSet", int64(len(rec.ambigs)))
	}
	// non-trivial: >= 2 chunks, an address repeated, at least one partial window
	if len(lines) >= 2 && rec.adds > len(rec.fed) {
		res.Distinct(id)
	}
	if i < 3 {
		var sizes []int
		for _, c := range rec.chunks {
			sizes = append(sizes, len(c))
		}
		res.Sample(8, map[string]interface{}{"case": id, "mode": mode, "adds": rec.adds, "pool": len(pool), "chunk_distinct_sizes": sizes, "windows": len(ws)})
	}
}

// largeCase: small chunk, one chunk of n distinct addresses (with repeats),
// small chunk; explicit flushes.
func largeCase(res *vlib.Result, root *vlib.Rand, i, n int) {
	r := root.SplitN("large", i)
	id := fmt.Sprintf("large/%d/n=%d", i, n)
	res.CaseLog(id)
	key := genKey(r)
	rec := newRecording(key, time.Hour)
	base := r.Uint64()
	// chunk 0: 40 addresses, half of them also in the big chunk
	for k := 0; k < 40; k++ {
		if k%2 == 0 {
			rec.add(bulkAddr(base, k))
		} else {
			rec.add(bulkAddr(base^0x5555, n+k))
		}
	}
	rec.flush()
	for k := 0; k < n; k++ {
		rec.add(bulkAddr(base, k))
		if k%10 == 0 {
			rec.add(bulkAddr(base, r.Intn(k+1))) // a repetition
		}
	}
	rec.flush()
	for k := 0; k < 30; k++ {
		rec.add(bulkAddr(base^0xAAAA, 2*n+k))
	}
	rec.add(bulkAddr(base, 0))
	rec.flush()
	journal := rec.w.buf.Bytes()
	lines, err := parseJournal(journal)
	rr := map[string]interface{}{"case": id, "key_hex": hexKey(key), "adds": rec.adds}
	if err != nil || len(lines) != 3 || len(rec.chunks) != 3 {
		res.Violatef("journal:malformed-line", rr, "journal does not follow the documented format: %v (%d lines)", err, len(lines))
		return
	}
	checkJournalBytes(res, id, "explicit", rec, journal, lines)
	ic := &idxCache{key: key, m: map[string]uint32{}}
	ws := []window{
		{time.Unix(1000, 0), time.Unix(1<<36, 0), "all"},
		{lines[0].start, lines[0].end, "exactly-chunk-0"},
		{lines[1].start, lines[1].end, "exactly-chunk-1(large)"},
		{lines[2].start, lines[2].end, "exactly-chunk-2"},
		{lines[0].start, lines[1].end, "chunks-0..1"},
		{lines[1].start, lines[2].end, "chunks-1..2"},
	}
	for wi, w := range ws {
		checkWindow(res, fmt.Sprintf("%s/w%d", id, wi), "explicit", rec, journal, lines, w, ic, wi)
	}
	res.Obs("large_cases", 1)
	res.Obs(fmt.Sprintf("large_case_line_bytes_n=%d", n), int64(len(lines[1].raw)))
	res.Distinct(id)
	res.Sample(8, map[string]interface{}{"case": id, "adds": rec.adds, "distinct_in_large_chunk": len(rec.chunks[1]), "large_line_bytes": len(lines[1].raw), "sketch_bytes": len(lines[1].payload)})
}

// keyCase: the same addresses recorded under the same key twice and under a
// different key.
func keyCase(res *vlib.Result, root *vlib.Rand, i int) {
	r := root.SplitN("key", i)
	id := fmt.Sprintf("key/%d", i)
	n := r.PickInt([]int{1, 1, 1, 2, 3, 5, 17, 64, 300, 1500})
	pool := genPool(r, n)
	k1 := genKey(r)
	k2 := genKey(r)
	for k2 == k1 {
		k2 = genKey(r)
	}
	if i%5 == 0 && len(k1) > 0 {
		// nearly the same key: one bit flipped
		b := []byte(k1)
		b[r.Intn(len(b))] ^= 1 << uint(r.Intn(8))
		k2 = string(b)
	}
	record := func(key string) (*recording, []jline, error) {
		rec := newRecording(key, time.Hour)
		for _, a := range pool {
			rec.add(a)
		}
		rec.flush()
		ls, err := parseJournal(rec.w.buf.Bytes())
		if err == nil && len(ls) != 1 {
			err = fmt.Errorf("%d lines", len(ls))
		}
		return rec, ls, err
	}
	ra, la, e1 := record(k1)
	rb, lb, e2 := record(k1)
	rc, lc, e3 := record(k2)
	rr := map[string]interface{}{"case": id, "key1_hex": hexKey(k1), "key2_hex": hexKey(k2), "addresses": n}
	if n <= 5 {
		rr["address_list"] = pool
	}
	if e1 != nil || e2 != nil || e3 != nil {
		res.Violatef("journal:malformed-line", rr, "journal does not follow the documented format: %v %v %v", e1, e2, e3)
		return
	}
	res.Eval(1)
	far0, far1 := time.Unix(1000, 0), time.Unix(1<<36, 0)
	cat := func(x, y *recording) []byte {
		return append(append([]byte{}, x.w.buf.Bytes()...), y.w.buf.Bytes()...)
	}
	same, err1, p1 := countJournal(res, cat(ra, rb), i, far0, far1, "journal:panic:Count", rr)
	diff, err2, p2 := countJournal(res, cat(ra, rc), i, far0, far1, "journal:panic:Count", rr)
	if p1 || p2 {
		return
	}
	if err1 != nil || err2 != nil {
		res.Violatef("journal:count-error", rr, "Count over concatenated journals: %v / %v", err1, err2)
		return
	}
	set := map[string]struct{}{}
	for _, a := range pool {
		set[a] = struct{}{}
	}
	c1 := (&idxCache{key: k1, m: map[string]uint32{}}).collisions(set)
	// same key twice: the union is the same set
	if !within(same.Sum, n, n, c1) {
		rr["got_sum"] = same.Sum
		res.Violatef("journal:count-mismatch-small", rr, "%d addresses recorded twice under the same key by two writers: merged estimate %d", n, same.Sum)
	}
	// different key: a keyed hash gives unrelated values, the union of the two
	// sketches counts (nearly) 2n; a sketch that ignores the key counts n.
	// Tolerance: every address may collide once within each key and once across.
	res.Obs("key_pairs_checked", 1)
	if diff.Sum <= uint64(n) || (n >= 17 && diff.Sum < uint64(2*n-n/8)) {
		rr["got_sum_two_keys"] = diff.Sum
		res.Violatef("journal:key-independent", rr, "%d addresses recorded under two different keys: the union of the two sketches counts %d (a keyed hash gives ≈ %d; %d means the key has no influence)", n, diff.Sum, 2*n, n)
	}
	// bytes: a single-address sketch has one deterministic encoding
	if n == 1 {
		if !bytes.Equal(la[0].payload, lb[0].payload) {
			res.Obs("single_address_sketch_not_deterministic", 1)
		} else {
			res.Obs("single_address_byte_comparisons", 1)
			if bytes.Equal(la[0].payload, lc[0].payload) {
				cnt := res.GetObs("single_address_sketch_equal_under_two_keys") + 1
				res.Obs("single_address_sketch_equal_under_two_keys", 1)
				// one coincidence has probability 2^-25; two do not happen
				if cnt >= 2 {
					res.Violatef("journal:key-independent", rr, "the sketch bytes of a single address are identical under two different keys (seen %d times)", cnt)
				}
			}
		}
	}
	// raw 4-byte forms: a chance hit in one sketch is possible (4 bytes in some
	// KB), and gob's type descriptors are the same bytes in every sketch. So a
	// hit counts only if the same address is hit under both keys and the same
	// bytes are absent from a control sketch of as many *other* addresses.
	var control []string
	for len(control) < n {
		a := genAddr(r)
		if _, ok := set[a]; !ok {
			control = append(control, a)
		}
	}
	ctl := newRecording(k1, time.Hour)
	for _, a := range control {
		ctl.add(a)
	}
	ctl.flush()
	lctl, e4 := parseJournal(ctl.w.buf.Bytes())
	if e4 != nil || len(lctl) != 1 {
		res.Violatef("journal:malformed-line", rr, "journal does not follow the documented format: %v", e4)
		return
	}
	lp := newLeakPatterns(set)
	_, _, h1 := lp.scan(la[0].payload)
	_, _, h2 := lp.scan(lc[0].payload)
	_, _, hc := lp.scan(lctl[0].payload)
	_, _, h3 := lp.scan(la[0].raw)
	_, _, h4 := lp.scan(lc[0].raw)
	_, _, hc2 := lp.scan(lctl[0].raw)
	for a := range h1 {
		_, both := h2[a]
		_, inCtl := hc[a]
		if both && inCtl {
			res.Obs("raw4_hits_explained_by_control_sketch", 1)
		}
		if both && !inCtl {
			rr["found"] = a
			res.Violatef("journal:address-raw4-in-journal", rr, "the 4-byte form of %q appears in the sketches written under both keys and not in a control sketch of other addresses", a)
			break
		}
	}
	for a := range h3 {
		_, both := h4[a]
		_, inCtl := hc2[a]
		if both && !inCtl {
			rr["found"] = a
			res.Violatef("journal:address-raw4-in-journal", rr, "the 4-byte form of %q appears in the journal lines written under both keys and not in a control line", a)
			break
		}
	}
	res.Obs("raw4_two_key_checks", 1)
	res.Obs("raw4_chance_hits_single_key", int64(len(h1)+len(h2)))
	res.Obs("key_cases", 1)
	res.Distinct(id)
}

// ---- the test -----------------------------------------------------------------

func TestVerifC19Journal(t *testing.T) {
	log.SetOutput(ioutil.Discard) // the writer logs injected write failures
	res := vlib.NewResult("C19", "api-c19-journal", "PRNG address multisets (IPv4/IPv6, pools smaller and larger than the number of adds) fed to the real ClusterWriter with explicit flushes, failed writes, restarts and clock-driven flushes (1 ns..1 ms); membership of each chunk taken from the journal lines actually written; >= 10 PRNG windows per journal (chunk boundaries, +-1 ns, midpoints, reversed, several time zones) compared with the real ClusterCounter; plus chunks of 15000/30000/200000 addresses and two-key recordings; non-trivial = journal with >= 2 chunks and repeated addresses (or a large / two-key case), distinct by case id")
	defer res.Finish()
	root := vlib.NewRand(vlib.Seed()).Split("c19j")

	nSmall := vlib.Scale(240, 4000)
	for i := 0; i < nSmall; i++ {
		smallCase(res, root, i)
	}
	nKey := vlib.Scale(120, 2000)
	for i := 0; i < nKey; i++ {
		keyCase(res, root, i)
	}
	sizes := []int{15000, 30000, 200000}
	if vlib.Thorough() {
		sizes = []int{5000, 15000, 20000, 23000, 30000, 60000, 110000, 130000, 200000, 200000, 300000, 500000}
	}
	for i, n := range sizes {
		largeCase(res, root, i, n)
	}

	res.RequireObs("small_cases", int64(nSmall*9/10))
	res.RequireObs("small_cases_explicit_flush", int64(nSmall/2))
	res.RequireObs("small_cases_clock_driven", int64(nSmall/8))
	res.RequireObs("windows_checked", int64(nSmall*5))
	res.RequireObs("windows_partial", int64(nSmall))
	res.RequireObs("windows_exact_regime", int64(nSmall*4))
	res.RequireObs("windows_touching_a_chunk_boundary_exactly", int64(nSmall))
	res.RequireObs("flushes_inside_AddIPToSet", 20)
	res.RequireObs("failed_writes_injected", 3)
	res.RequireObs("key_pairs_checked", int64(nKey*9/10))
	res.RequireObs("single_address_byte_comparisons", 10)
	res.RequireObs("large_cases", int64(len(sizes)))
	res.RequireObs("dense_sketch_lines", 1)
	res.RequireObs("lines_over_64KiB", 2)
	res.RequireObs("journals_scanned_for_address_text", int64(nSmall*9/10))
}
