// C13 — Untrusted session descriptions cannot crash client or proxy (api part).
// Engine: api (exported util.SerializeSessionDescription /
// util.DeserializeSessionDescription), -race.
//
// Oracles.
//  1. Round trip: for the four SDP types x PRNG valid-UTF-8 SDP text,
//     Deserialize(Serialize(d)) has the same Type and SDP as d.
//  2. Totality: DeserializeSessionDescription over a JSON grammar fuzzer (every
//     JSON kind at top level and as the `type` / `sdp` members, missing and
//     duplicate members, escaped / case-variant keys, unknown type strings,
//     non-JSON, every truncation of valid documents, huge / deeply nested
//     input) returns a value or an error and never panics. The panic signature
//     is decided BEFORE the call from the harness's own decoding of the
//     document (which member is missing / not a string), so that distinct
//     defects get distinct signatures.
//
// The in-package part (proxy/lib remoteIPFromSDP) is in
// harness/inpkg/proxylib_c13.
package c13

import (
	"bytes"
	"encoding/json"
	"fmt"
	"hash/fnv"
	"strconv"
	"strings"
	"testing"
	"unicode/utf8"

	"git.torproject.org/pluggable-transports/snowflake.git/v2/common/util"
	"github.com/pion/webrtc/v3"
	"verif/vlib"
)

// ---- pre-classification of a document (harness's own decoding) ---------------

func kindOf(raw json.RawMessage) string {
	b := bytes.TrimLeft(raw, " \t\r\n")
	if len(b) == 0 {
		return "empty"
	}
	switch b[0] {
	case '"':
		return "string"
	case '{':
		return "object"
	case '[':
		return "array"
	case 't', 'f':
		return "bool"
	case 'n':
		return "null"
	}
	return "number"
}

type docClass struct {
	top      string // object | null | not-an-object-or-not-json
	typeKind string // absent | string | number | ...
	sdpKind  string
	typeStr  string
}

func classify(doc string) docClass {
	var top map[string]json.RawMessage // duplicates: the last one wins, as in the code under test
	if err := json.Unmarshal([]byte(doc), &top); err != nil {
		return docClass{top: "not-an-object-or-not-json", typeKind: "absent", sdpKind: "absent"}
	}
	c := docClass{top: "object", typeKind: "absent", sdpKind: "absent"}
	if top == nil {
		c.top = "null"
	}
	if raw, ok := top["type"]; ok {
		c.typeKind = kindOf(raw)
		if c.typeKind == "string" {
			json.Unmarshal(raw, &c.typeStr)
		}
	}
	if raw, ok := top["sdp"]; ok {
		c.sdpKind = kindOf(raw)
	}
	return c
}

// panicClass: the signature suffix a panic on this document would get.
func (c docClass) panicClass() string {
	switch {
	case c.top == "not-an-object-or-not-json":
		return "other"
	case c.typeKind == "absent":
		return "missing-type"
	case c.typeKind != "string":
		return "non-string-type"
	case c.sdpKind == "absent":
		return "missing-sdp"
	case c.sdpKind != "string":
		return "non-string-sdp"
	}
	return "other"
}

type caseRec struct {
	Case  string `json:"case"`
	Input string `json:"input_go_quoted"`
	Len   int    `json:"input_len"`
	Class string `json:"harness_classification,omitempty"`
	Desc  string `json:"desc,omitempty"`
}

func bounded(s string) string {
	if len(s) > 600 {
		return strconv.Quote(s[:300]) + "…" + strconv.Quote(s[len(s)-100:])
	}
	return strconv.Quote(s)
}

func hashKey(s string) string {
	h := fnv.New64a()
	h.Write([]byte(s))
	return fmt.Sprintf("%x", h.Sum64())
}

// checkTotal runs the real DeserializeSessionDescription on doc.
func checkTotal(res *vlib.Result, doc, caseID, desc string) {
	res.Eval(1)
	c := classify(doc)
	cls := fmt.Sprintf("top=%s type=%s sdp=%s", c.top, c.typeKind, c.sdpKind)
	rec := caseRec{Case: caseID, Input: bounded(doc), Len: len(doc), Class: cls, Desc: desc}
	res.Obs("kinds_"+cls, 1)
	var d *webrtc.SessionDescription
	var err error
	if res.Guard("panic:DeserializeSessionDescription:"+c.panicClass(), rec, func() { d, err = util.DeserializeSessionDescription(doc) }) {
		res.Obs("deserialize_panicked", 1)
		res.Distinct("total/" + hashKey(doc))
		return
	}
	switch {
	case d == nil && err == nil:
		res.Violatef("deserialize-neither-value-nor-error", rec, "DeserializeSessionDescription returned (nil, nil)")
	case err != nil:
		res.Obs("deserialize_error", 1)
	default:
		res.Obs("deserialize_value", 1)
	}
	if c.top != "not-an-object-or-not-json" {
		res.Distinct("total/" + hashKey(doc)) // non-trivial: a JSON object (or null) reached the member handling
	}
}

// ---- JSON grammar fuzzer -------------------------------------------------------

var kindValues = map[string][]string{
	"null":   {"null"},
	"bool":   {"true", "false"},
	"number": {"0", "1", "-1", "1.5", "1e3", "-0", "1E-5", "123456789012345678901234567890", "1e999"},
	"string": {`""`, `"x"`, `"offer"`, `"v=0\r\n"`, `"\u0000"`, `"😀"`, `"\ud800"`},
	"array":  {"[]", `["offer"]`, "[1,2]", "[[]]", "[null]"},
	"object": {"{}", `{"type":"offer"}`, `{"a":{"b":[]}}`},
}
var kindOrder = []string{"null", "bool", "number", "string", "array", "object"}

var typeStrings = []string{"offer", "pranswer", "answer", "rollback", "Offer", "OFFER", "unknown", "", "offer ", " offer", "off\u0000er", "Unknown", "0", "answer\n"}
var sdpStrings = []string{"", "x", "v=0\r\n", "v=0\r\no=- 1 2 IN IP4 0.0.0.0\r\ns=-\r\nt=0 0\r\n", "\u0000", "<script>&amp;</script>", "\U0001F600"}

func jstr(s string) string {
	b, _ := json.Marshal(s)
	return string(b)
}

func memberValues(stringsList []string) []string {
	out := []string{"\x00absent"}
	for _, k := range kindOrder {
		out = append(out, kindValues[k]...)
	}
	for _, s := range stringsList {
		out = append(out, jstr(s))
	}
	return out
}

var keyVariants = []string{`"type"`, `"sdp"`, `"Type"`, `"SDP"`, `"TYPE"`, `"typ"`, `"type"`, `"sdp"`, `"type "`, `""`, `"x"`, `"type\u0000"`, `"ſdp"`, `"tKpe"`}
var wsVariants = []string{"", " ", "\n", "\t\r\n "}

func randString(r *vlib.Rand) string {
	switch r.Intn(6) {
	case 0:
		return jstr(r.PickString(typeStrings))
	case 1:
		return jstr(r.PickString(sdpStrings))
	case 2:
		return jstr(genText(r, r.Range(0, 30)))
	case 3:
		// hand-made escapes, possibly invalid
		return `"` + r.PickString([]string{`\n`, `A`, `😀`, `\ud800`, `\udc00x`, `\x`, `\u12`, `\"`, `\\`, `\/`, "\x01", "\xff", `\u0000`}) + `"`
	}
	return jstr(r.StringFrom([]rune("abc<>&\"\\/ é𝄞"), r.Range(0, 12)))
}

func randValue(r *vlib.Rand, depth int) string {
	k := r.Intn(8)
	if depth <= 0 && k >= 6 {
		k = r.Intn(6)
	}
	switch k {
	case 0:
		return "null"
	case 1:
		return r.PickString([]string{"true", "false"})
	case 2, 3:
		return r.PickString(kindValues["number"])
	case 4, 5:
		return randString(r)
	case 6:
		n := r.Intn(4)
		parts := make([]string, n)
		for i := range parts {
			parts[i] = randValue(r, depth-1)
		}
		return "[" + strings.Join(parts, ",") + "]"
	}
	return randObject(r, depth-1)
}

func randObject(r *vlib.Rand, depth int) string {
	n := r.Intn(5)
	var parts []string
	for i := 0; i < n; i++ {
		key := r.PickString(keyVariants)
		if r.Chance(1, 2) {
			key = r.PickString([]string{`"type"`, `"sdp"`})
		}
		var v string
		switch {
		case key == `"type"` && r.Chance(1, 2):
			v = jstr(r.PickString(typeStrings))
		case key == `"sdp"` && r.Chance(1, 2):
			v = jstr(r.PickString(sdpStrings))
		default:
			v = randValue(r, depth)
		}
		ws := r.PickString(wsVariants)
		parts = append(parts, ws+key+ws+":"+ws+v+ws)
	}
	return "{" + strings.Join(parts, ",") + "}"
}

// ---- valid UTF-8 text -----------------------------------------------------------

func genRune(r *vlib.Rand) rune {
	switch r.Intn(12) {
	case 0:
		return rune(r.Intn(0x20)) // C0 controls incl. NUL, CR, LF
	case 1:
		return rune(r.PickInt([]int{'"', '\\', '/', '\'', '<', '>', '&', 0x7f, 0x2028, 0x2029, 0xfffd, 0xfeff, 0xfffe, 0xffff, 0x85, 0xa0}))
	case 2:
		for {
			c := rune(r.Intn(0x10000))
			if c < 0xd800 || c > 0xdfff {
				return c
			}
		}
	case 3:
		return rune(0x10000 + r.Intn(0x100000)) // astral
	case 4:
		return rune(r.PickInt([]int{0x10ffff, 0x10000, 0xd7ff, 0xe000, 0x7ff, 0x800, 0x80, 0x1f600}))
	}
	return rune(0x20 + r.Intn(0x5f))
}

func genText(r *vlib.Rand, n int) string {
	var b strings.Builder
	for i := 0; i < n; i++ {
		b.WriteRune(genRune(r))
	}
	return b.String()
}

var sdpTypes = []webrtc.SDPType{webrtc.SDPTypeOffer, webrtc.SDPTypePranswer, webrtc.SDPTypeAnswer, webrtc.SDPTypeRollback}

const sampleSDP = "v=0\r\no=- 4358805017720277108 2 IN IP4 8.8.8.8\r\ns=-\r\nt=0 0\r\na=group:BUNDLE data\r\na=msid-semantic: WMS\r\nm=application 56688 DTLS/SCTP 5000\r\nc=IN IP4 8.8.8.8\r\na=candidate:3769337065 1 udp 2122260223 8.8.8.8 56688 typ host generation 0 network-id 1 network-cost 50\r\na=ice-ufrag:aMAZ\r\na=ice-pwd:jcHb08Jjgrazp2dzjdrvPPvV\r\na=setup:actpass\r\na=mid:data\r\na=sctpmap:5000 webrtc-datachannel 1024\r\n"

func checkRoundTrip(res *vlib.Result, typ webrtc.SDPType, text, caseID string) (serialized string) {
	res.Eval(1)
	rec := caseRec{Case: caseID, Input: bounded(text), Len: len(text), Desc: "round trip, type " + typ.String()}
	d := &webrtc.SessionDescription{Type: typ, SDP: text}
	var ser string
	var err error
	if res.Guard("panic:SerializeSessionDescription", rec, func() { ser, err = util.SerializeSessionDescription(d) }) {
		return ""
	}
	if err != nil {
		res.Violatef("roundtrip:serialize-error", rec, "SerializeSessionDescription(type %s): %v", typ, err)
		return ""
	}
	var d2 *webrtc.SessionDescription
	if res.Guard("panic:DeserializeSessionDescription:roundtrip", rec, func() { d2, err = util.DeserializeSessionDescription(ser) }) {
		return ser
	}
	switch {
	case err != nil || d2 == nil:
		res.Violatef("roundtrip:deserialize-error:"+typ.String(), rec, "Deserialize(Serialize(d)) failed for type %s: %v (serialized %s)", typ, err, bounded(ser))
	case d2.Type != typ:
		res.Violatef("roundtrip:type-differs:"+typ.String(), rec, "type %s came back as %s", typ, d2.Type)
	case d2.SDP != text:
		res.Violatef("roundtrip:sdp-differs", rec, "SDP text came back different: %s", bounded(d2.SDP))
	}
	res.Obs("roundtrip_"+typ.String(), 1)
	return ser
}

// ---- the test ---------------------------------------------------------------

func TestVerifC13(t *testing.T) {
	res := vlib.NewResult("C13", "api-c13", "round trip: 4 SDP types x PRNG valid-UTF-8 text (controls, quotes, HTML characters, U+2028/9, astral), non-trivial = text with a character encoding/json escapes or a multi-byte rune, distinct by (type, text hash); totality: enumerated (type member x sdp member x order x duplicates) documents over every JSON kind, PRNG objects from a JSON grammar (escaped/case-variant keys, nesting), every truncation and byte mutations of valid documents, non-JSON, huge/nested input, non-trivial = document that decodes to a JSON object (member handling reached), distinct by document hash")
	defer res.Finish() // vlib records a panic outside any guard as violation "panic:outside-guard"
	root := vlib.NewRand(vlib.Seed()).Split("c13")

	// 1. round trip
	var serialized []string
	fixed := []string{"", sampleSDP, "\x00", "\"", "\\", "<>&", "  ", "\U0001F600\U0010FFFF", "é", strings.Repeat("a=x\r\n", 2000), "\ufffd", "null", `{"type":"offer","sdp":"x"}`}
	for ti, typ := range sdpTypes {
		for fi, s := range fixed {
			ser := checkRoundTrip(res, typ, s, fmt.Sprintf("rt/fixed/%d/%d", ti, fi))
			if ser != "" {
				serialized = append(serialized, ser)
			}
			res.Obs("roundtrip_cases", 1)
			if s == "" {
				res.Obs("roundtrip_empty_text", 1)
			}
		}
	}
	nRT := vlib.Scale(6000, 400000)
	for i := 0; i < nRT; i++ {
		r := root.SplitN("rt", i)
		n := r.PickInt([]int{0, 1, 2, 5, 20, 100, 400, 2000})
		if n > 1 {
			n = r.Range(1, n)
		}
		text := genText(r, n)
		if r.Chance(1, 10) {
			text = sampleSDP + text
		}
		if !utf8.ValidString(text) {
			res.Require(false, "generator produced invalid UTF-8")
			continue
		}
		nontrivial := false
		for _, c := range text {
			if c < 0x20 || c == '"' || c == '\\' || c == '<' || c == '>' || c == '&' || c >= 0x80 {
				nontrivial = true
				break
			}
		}
		for ti, typ := range sdpTypes {
			ser := checkRoundTrip(res, typ, text, fmt.Sprintf("rt/%d/%d", i, ti))
			res.Obs("roundtrip_cases", 1)
			if nontrivial {
				res.Distinct(fmt.Sprintf("rt/%d/%s", ti, hashKey(text)))
			}
			if ser != "" && i < 200 {
				serialized = append(serialized, ser)
			}
		}
		if i < 2 {
			res.Sample(4, caseRec{Case: fmt.Sprintf("rt/%d", i), Input: bounded(text), Len: len(text)})
		}
	}
	// outside the property (recorded, not judged): invalid UTF-8 and the zero SDPType
	for i, s := range []string{"\xff", "a\xc0\xafb", "\xed\xa0\x80"} {
		d := &webrtc.SessionDescription{Type: webrtc.SDPTypeOffer, SDP: s}
		res.Guard("panic:SerializeSessionDescription", caseRec{Case: fmt.Sprintf("rt/invalid-utf8/%d", i), Input: bounded(s)}, func() {
			ser, err := util.SerializeSessionDescription(d)
			if err == nil {
				d2, err2 := util.DeserializeSessionDescription(ser)
				if err2 == nil && d2.SDP != s {
					res.Obs("outside_property_invalid_utf8_text_not_preserved", 1)
				}
			}
		})
	}
	res.Guard("panic:SerializeSessionDescription", caseRec{Case: "rt/zero-type"}, func() {
		ser, err := util.SerializeSessionDescription(&webrtc.SessionDescription{SDP: "x"})
		if err == nil {
			if _, err2 := util.DeserializeSessionDescription(ser); err2 != nil {
				res.Obs("outside_property_zero_sdptype_not_deserializable", 1)
			}
		}
	})

	// 2a. top-level values of every JSON kind
	n := 0
	for _, k := range kindOrder {
		for _, v := range kindValues[k] {
			for _, ws := range wsVariants {
				checkTotal(res, ws+v+ws, fmt.Sprintf("top/%d", n), "top-level "+k)
				n++
				res.Obs("toplevel_kind_"+k, 1)
			}
		}
	}
	// 2b. type member x sdp member x order x whitespace
	tvals := memberValues(typeStrings)
	svals := memberValues(sdpStrings)
	n = 0
	for _, tv := range tvals {
		for _, sv := range svals {
			for order := 0; order < 2; order++ {
				var m []string
				if tv != "\x00absent" {
					m = append(m, `"type":`+tv)
				}
				if sv != "\x00absent" {
					m = append(m, `"sdp":`+sv)
				}
				if order == 1 {
					if len(m) < 2 {
						continue
					}
					m[0], m[1] = m[1], m[0]
				}
				doc := "{" + strings.Join(m, ",") + "}"
				checkTotal(res, doc, fmt.Sprintf("members/%d", n), "enumerated members")
				n++
				res.Obs("enumerated_member_documents", 1)
			}
		}
	}
	// 2c. duplicates (the last one wins), extra and look-alike members
	n = 0
	for _, a := range tvals[1:] {
		for _, b := range []string{`"offer"`, "1", "null", `["offer"]`, `{}`, "true"} {
			for _, which := range []string{"type", "sdp"} {
				other := `"sdp":"x"`
				if which == "sdp" {
					other = `"type":"offer"`
				}
				for _, doc := range []string{
					fmt.Sprintf(`{"%s":%s,"%s":%s,%s}`, which, a, which, b, other),
					fmt.Sprintf(`{"%s":%s,%s,"%s":%s}`, which, b, other, which, a),
				} {
					checkTotal(res, doc, fmt.Sprintf("dup/%d", n), "duplicate member "+which)
					n++
					res.Obs("duplicate_member_documents", 1)
				}
			}
		}
	}
	n = 0
	for _, k1 := range keyVariants {
		for _, k2 := range keyVariants {
			for _, vals := range [][2]string{{`"offer"`, `"x"`}, {"1", "2"}, {"null", "null"}} {
				checkTotal(res, "{"+k1+":"+vals[0]+","+k2+":"+vals[1]+"}", fmt.Sprintf("keys/%d", n), "key variants")
				n++
				res.Obs("key_variant_documents", 1)
			}
		}
	}
	// 2d. PRNG objects from the grammar
	nObj := vlib.Scale(40000, 2000000)
	for i := 0; i < nObj; i++ {
		r := root.SplitN("obj", i)
		doc := randObject(r, 3)
		if r.Chance(1, 20) {
			doc = randValue(r, 3)
		}
		checkTotal(res, doc, fmt.Sprintf("obj/%d", i), "PRNG JSON")
		res.Obs("prng_json_documents", 1)
		if i < 2 {
			res.Sample(8, caseRec{Case: fmt.Sprintf("obj/%d", i), Input: bounded(doc), Len: len(doc)})
		}
	}
	// 2e. every truncation and PRNG byte mutations of valid documents
	valid := append([]string{}, serialized...)
	valid = append(valid, `{"type":"offer","sdp":"x"}`, ` { "sdp" : "v=0\r\n" , "type" : "answer" } `, `{"type":"pranswer","sdp":"","extra":[1,{"a":null}]}`)
	for vi, doc := range valid {
		if vi >= vlib.Scale(60, 600) {
			break
		}
		if len(doc) > 1500 {
			continue
		}
		for cut := 0; cut <= len(doc); cut++ {
			checkTotal(res, doc[:cut], fmt.Sprintf("trunc/%d/%d", vi, cut), "prefix of a valid document")
			res.Obs("truncation_points", 1)
		}
	}
	nMut := vlib.Scale(20000, 1000000)
	for i := 0; i < nMut; i++ {
		r := root.SplitN("mut", i)
		b := []byte(valid[r.Intn(len(valid))])
		if len(b) > 4000 {
			b = b[:4000]
		}
		for k := r.Range(1, 3); k > 0 && len(b) > 0; k-- {
			p := r.Intn(len(b))
			switch r.Intn(4) {
			case 0:
				b[p] ^= byte(1 << uint(r.Intn(8)))
			case 1:
				b[p] = r.PickString([]string{`"`, `{`, `}`, `[`, `]`, `:`, `,`, `\`, "0", "n", "t", " ", "\x00", "\xff"})[0]
			case 2:
				b = append(b[:p], b[p+1:]...)
			case 3:
				ins := r.PickString([]string{`"`, `{`, `}`, `[`, `]`, `:`, `,`, `\`, `null`, `"type":1,`, `"sdp":[],`, `\u0000`, `1e999`})
				b = append(b[:p], append([]byte(ins), b[p:]...)...)
			}
		}
		checkTotal(res, string(b), fmt.Sprintf("mut/%d", i), "byte mutation of a valid document")
		res.Obs("mutated_documents", 1)
	}
	// 2f. non-JSON
	nArb := vlib.Scale(5000, 300000)
	for i := 0; i < nArb; i++ {
		r := root.SplitN("arb", i)
		var doc string
		switch r.Intn(5) {
		case 0:
			doc = string(r.Bytes(r.Range(0, 100)))
		case 1:
			doc = genText(r, r.Range(0, 60))
		case 2:
			doc = sampleSDP[:r.Intn(len(sampleSDP))]
		case 3:
			doc = r.PickString([]string{"", " ", "\ufeff{}", "{", "}", "{}{}", "{} x", "nul", "NaN", "Infinity", "'a'", "{type:1}", "{'type':'offer'}", "\x00", "<html>", "[", "]", `"`, "-", "0x10", "{\"type\":\"offer\",\"sdp\":\"x\"}garbage", "//c\n{}", "{\"type\":\"offer\",}", "{,}"})
		case 4:
			doc = randObject(r, 2) + r.PickString([]string{"x", "}", "{", ",", "\x00", " {}"})
		}
		checkTotal(res, doc, fmt.Sprintf("arb/%d", i), "non-JSON")
		res.Obs("non_json_documents", 1)
	}
	// 2g. huge / deeply nested input (a stack overflow would kill the process: case id logged first)
	big := []struct{ name, doc string }{
		{"deep-array", strings.Repeat("[", 200000)},
		{"deep-array-closed", strings.Repeat("[", 9999) + strings.Repeat("]", 9999)},
		{"deep-array-10001", strings.Repeat("[", 10001) + strings.Repeat("]", 10001)},
		{"deep-object", strings.Repeat(`{"type":`, 100000)},
		{"deep-type-member", `{"sdp":"x","type":` + strings.Repeat("[", 9000) + strings.Repeat("]", 9000) + `}`},
		{"deep-sdp-member", `{"type":"offer","sdp":` + strings.Repeat(`{"sdp":`, 5000) + `1` + strings.Repeat("}", 5000) + `}`},
		{"huge-sdp-string", `{"type":"offer","sdp":"` + strings.Repeat("a", 8<<20) + `"}`},
		{"huge-type-string", `{"type":"` + strings.Repeat("offer", 1<<20) + `","sdp":""}`},
		{"huge-escapes", `{"type":"answer","sdp":"` + strings.Repeat(`\u0000`, 1<<18) + `"}`},
		{"many-members", "{" + strings.Repeat(`"type":"offer","sdp":"x",`, 100000) + `"type":1}`},
		{"many-members-ok", "{" + strings.Repeat(`"type":1,"sdp":2,`, 100000) + `"type":"offer","sdp":"x"}`},
		{"huge-number", `{"type":` + strings.Repeat("9", 1<<20) + `,"sdp":"x"}`},
		{"huge-whitespace", strings.Repeat(" ", 4<<20) + `{"type":"offer","sdp":"x"}`},
		{"unterminated-huge-string", `{"type":"` + strings.Repeat("x", 4<<20)},
	}
	for _, c := range big {
		res.CaseLog("huge/" + c.name)
		checkTotal(res, c.doc, "huge/"+c.name, "huge/nested: "+c.name)
		res.Obs("huge_documents", 1)
	}
	res.CaseLog("")

	// minimum coverage
	for _, typ := range sdpTypes {
		res.RequireObs("roundtrip_"+typ.String(), int64(nRT*9/10))
	}
	res.RequireObs("roundtrip_empty_text", 4)
	for _, k := range kindOrder {
		res.RequireObs("toplevel_kind_"+k, 1)
		if k != "string" {
			res.RequireObs("kinds_top=object type="+k+" sdp=string", 1)
			res.RequireObs("kinds_top=object type=string sdp="+k, 1)
		}
	}
	res.RequireObs("kinds_top=object type=absent sdp=string", 1)
	res.RequireObs("kinds_top=object type=string sdp=absent", 1)
	res.RequireObs("kinds_top=object type=absent sdp=absent", 1)
	res.RequireObs("kinds_top=null type=absent sdp=absent", 1)
	res.RequireObs("kinds_top=not-an-object-or-not-json type=absent sdp=absent", 1000)
	res.RequireObs("enumerated_member_documents", 1000)
	res.RequireObs("duplicate_member_documents", 500)
	res.RequireObs("prng_json_documents", int64(nObj))
	res.RequireObs("truncation_points", 1000)
	res.RequireObs("mutated_documents", int64(nMut))
	res.RequireObs("huge_documents", int64(len(big)))
	res.RequireObs("deserialize_value", 1000)
	res.RequireObs("deserialize_error", 1000)
}
