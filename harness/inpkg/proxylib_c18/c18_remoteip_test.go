// C18 (c) — the proxy derives client_ip from the first remote (non-local)
// candidate address of the client's offer.  Injected into /repo/proxy/lib
// (go 1.13 language).
//
// What is promised (property C18 anchors: "proxy derives client_ip from the
// first remote candidate of the offer", webrtcconn.go remoteIPFromSDP) and
// therefore judged:
//   - if the offer's media sections carry a candidate whose address is
//     remote, the result is the FIRST such candidate in document order;
//   - the result is never a local address (RFC 1918, loopback, unspecified,
//     IPv4 link-local, IPv6 unique-local), never an address that is not in
//     the offer, never nil while a remote candidate exists;
//   - without any remote candidate the result is nil or a remote address of a
//     c= line; with exactly one c= line, remote, it is that address (the
//     package's own tests pin this fallback).
//
// Not judged (the text does not say): address kinds whose "locality" is a
// matter of opinion (CGNAT 100.64/10, fe80::/10, multicast, reserved ranges)
// and candidates that the standard candidate parser rejects but that carry a
// remote address — the result may or may not stop at them; which of several
// c= lines the fallback uses.
package snowflake_proxy

import (
	"fmt"
	"hash/fnv"
	"net"
	"net/netip"
	"strings"
	"testing"

	"github.com/pion/sdp/v3"
	"verif/vlib"
)

const (
	vLocal  = 0
	vRemote = 1
	vAmbig  = 2 // either way is accepted
	vSkip   = 3 // not an IP address at all (mDNS name, garbage): cannot be a result
)

var vClassNames = []string{"local", "remote", "ambiguous", "not-an-ip"}

var (
	vLocalPrefixes = vPrefixes("10.0.0.0/8", "172.16.0.0/12", "192.168.0.0/16", "127.0.0.0/8", "169.254.0.0/16", "fc00::/7", "::1/128", "::/128", "0.0.0.0/32")
	vAmbigPrefixes = vPrefixes("100.64.0.0/10", "fe80::/10", "fec0::/10", "224.0.0.0/4", "ff00::/8", "240.0.0.0/4", "0.0.0.0/8")
)

func vPrefixes(ss ...string) []netip.Prefix {
	var out []netip.Prefix
	for _, s := range ss {
		out = append(out, netip.MustParsePrefix(s))
	}
	return out
}

func vClassify(text string) (int, netip.Addr) {
	a, err := netip.ParseAddr(text)
	if err != nil {
		return vSkip, netip.Addr{}
	}
	if a.Zone() != "" {
		return vAmbig, a.WithZone("").Unmap()
	}
	u := a.Unmap()
	for _, p := range vLocalPrefixes {
		if p.Contains(u) {
			return vLocal, u
		}
	}
	for _, p := range vAmbigPrefixes {
		if p.Contains(u) {
			return vAmbig, u
		}
	}
	return vRemote, u
}

// ---- address generators ---------------------------------------------------------

var vBoundary = []string{
	"9.255.255.255", "10.0.0.0", "10.255.255.255", "11.0.0.0",
	"172.15.255.255", "172.16.0.0", "172.31.255.255", "172.32.0.0",
	"192.167.255.255", "192.168.0.0", "192.168.255.255", "192.169.0.0",
	"100.63.255.255", "100.64.0.0", "100.127.255.255", "100.128.0.0",
	"169.253.255.255", "169.254.0.0", "169.254.255.255", "169.255.0.0",
	"126.255.255.255", "127.0.0.0", "127.255.255.255", "128.0.0.0",
	"223.255.255.255", "224.0.0.0", "0.0.0.0", "0.0.0.1", "1.0.0.0", "255.255.255.255",
	"fbff:ffff:ffff:ffff:ffff:ffff:ffff:ffff", "fc00::", "fdff:ffff:ffff:ffff:ffff:ffff:ffff:ffff", "fe00::",
	"fe7f:ffff::1", "fe80::", "febf:ffff::1", "fec0::1", "ff00::", "::", "::1", "::2",
	"::ffff:10.0.0.1", "::ffff:9.255.255.255", "::ffff:127.0.0.1", "::ffff:0.0.0.0", "::ffff:192.168.1.1", "::ffff:8.8.8.8",
	"::10.0.0.1", "64:ff9b::10.0.0.1",
}

func vGenAddr(r *vlib.Rand, want int) string {
	for {
		var s string
		switch r.Intn(8) {
		case 0:
			s = vBoundary[r.Intn(len(vBoundary))]
		case 1, 2:
			s = fmt.Sprintf("%d.%d.%d.%d", r.Intn(256), r.Intn(256), r.Intn(256), r.Intn(256))
		case 3:
			s = fmt.Sprintf("%d.%d.%d.%d", r.PickInt([]int{10, 172, 192, 127, 169, 100, 0, 224}), r.PickInt([]int{0, 15, 16, 31, 32, 64, 127, 128, 168, 254, r.Intn(256)}), r.Intn(256), r.Intn(256))
		case 4:
			var b [16]byte
			r.Fill(b[:])
			s = netip.AddrFrom16(b).String()
		case 5:
			var b [16]byte
			b[0] = byte(r.PickInt([]int{0xfc, 0xfd, 0xfe, 0xfb, 0x20, 0x26, 0xff}))
			b[1] = byte(r.PickInt([]int{0x00, 0x80, 0xc0, 0x7f, 0xbf, 0x01}))
			r.Fill(b[8:])
			s = netip.AddrFrom16(b).String()
		case 6:
			s = fmt.Sprintf("::ffff:%d.%d.%d.%d", r.PickInt([]int{10, 127, 8, 192, 203}), r.PickInt([]int{0, 168, 113}), r.Intn(256), r.Intn(256))
		default:
			var b [16]byte
			copy(b[:], []byte{0x20, 0x01, 0x0d, 0xb8})
			r.Fill(b[12:])
			s = netip.AddrFrom16(b).String()
			if r.Bool() {
				s = strings.ToUpper(s)
			}
		}
		if c, _ := vClassify(s); want < 0 || c == want {
			return s
		}
	}
}

// ---- SDP generator ------------------------------------------------------------------

type vCand struct {
	Addr      string `json:"addr"`
	Class     string `json:"class"`
	class     int
	ip        netip.Addr
	Malformed string `json:"malformed,omitempty"`
}

type vCLine struct {
	Addr  string `json:"addr"`
	Class string `json:"class"`
	class int
	ip    netip.Addr
}

type vSDP struct {
	text   string
	cands  []vCand
	clines []vCLine
	crlf   bool
}

func vCandLine(r *vlib.Rand, addr string, c *vCand) string {
	foundation := fmt.Sprint(1 + r.Intn(1<<31))
	component := fmt.Sprint(r.Range(1, 2))
	transport := r.PickString([]string{"udp", "udp", "UDP", "tcp", "TCP"})
	priority := fmt.Sprint(uint32(r.Uint64()))
	port := fmt.Sprint(r.PickInt([]int{0, 1, 9, 1024, 54653, 65535}))
	typ := r.PickString([]string{"host", "host", "srflx", "prflx", "relay"})
	ext := ""
	switch typ {
	case "srflx", "prflx", "relay":
		if r.Chance(4, 5) {
			// the related address is NOT the candidate's address; it is usually local
			ext = " raddr " + r.PickString([]string{"192.168.0.1", "0.0.0.0", "10.1.2.3", "203.0.113.77", "::"}) + " rport " + fmt.Sprint(r.Intn(65536))
		}
	case "host":
		if strings.ToLower(transport) == "tcp" && r.Chance(3, 4) {
			ext = " tcptype " + r.PickString([]string{"passive", "active", "so"})
		}
	}
	if r.Chance(1, 2) {
		ext += " generation 0"
	}
	if r.Chance(1, 3) {
		ext += " ufrag " + r.StringFrom([]rune("abcdXYZ019+/"), 4)
	}
	if r.Chance(1, 3) {
		ext += " network-id 1 network-cost 50"
	}
	// a candidate the standard parser rejects although the address is fine
	if r.Chance(1, 12) {
		switch r.Intn(5) {
		case 0:
			transport = r.PickString([]string{"dccp", "ssltcp", "sctp"})
			c.Malformed = "unknown transport " + transport
		case 1:
			typ = r.PickString([]string{"foo", "HOST", ""})
			c.Malformed = "unknown typ " + typ
		case 2:
			port = r.PickString([]string{"65536", "70000", "-1", "x"})
			c.Malformed = "bad port " + port
		case 3:
			priority = r.PickString([]string{"4294967296", "-5", "high"})
			c.Malformed = "bad priority " + priority
		default:
			c.Malformed = "too few fields"
			return fmt.Sprintf("a=candidate:%s %s %s %s %s %s", foundation, component, transport, priority, addr, port)
		}
	}
	return fmt.Sprintf("a=candidate:%s %s %s %s %s %s typ %s%s", foundation, component, transport, priority, addr, port, typ, ext)
}

var vOtherAttrs = []string{
	"a=ice-ufrag:IBdf", "a=ice-pwd:G3lTrrC9gmhQx481AowtkhYz", "a=ice-options:trickle", "a=setup:actpass", "a=mid:0", "a=sendrecv",
	"a=sctp-port:5000", "a=sctpmap:5000 webrtc-datachannel 1024", "a=max-message-size:262144", "a=end-of-candidates",
	"a=fingerprint:sha-256 53:F8:84:D9:3C:1F:A0:44:AA:D6:3C:65:80:D3:CB:6F:23:90:17:41:06:F9:9C:10:D8:48:4A:A8:B6:FA:14:A1",
	"a=rtcp:9 IN IP4 203.0.113.200", "a=x-candidate-like:1 1 udp 1 203.0.113.201 1 typ host", "a=remote-candidates:1 203.0.113.202 9",
}

func vCLineText(r *vlib.Rand, addr string, ip netip.Addr) string {
	fam := "IP6"
	suffix := ""
	if ip.Is4() && !strings.Contains(addr, ":") {
		fam = "IP4"
		suffix = r.PickString([]string{"", "", "", "/127", "/127/3"})
	} else {
		suffix = r.PickString([]string{"", "", "", "/3"})
	}
	return "c=IN " + fam + " " + addr + suffix
}

// shape: 0 = PRNG mix; 1 = local candidates then one remote; 2 = no remote
// candidate at all (c= fallback); 3 = exactly one c= line, remote, no usable candidate
func vGenSDP(r *vlib.Rand, shape int) vSDP {
	var out vSDP
	var lines []string
	origin := r.PickString([]string{"0.0.0.0", "127.0.0.1", "203.0.113.99", "10.47.16.5"})
	lines = append(lines, "v=0", fmt.Sprintf("o=- %d 2 IN IP4 %s", 1+r.Intn(1<<40), origin), "s=-")
	addC := func(want int) {
		a := vGenAddr(r, want)
		cl, ip := vClassify(a)
		if cl == vSkip {
			return
		}
		// the c= patterns take IPv4 texts as IP4 only; a v4-mapped text is an IP6 line
		out.clines = append(out.clines, vCLine{Addr: a, Class: vClassNames[cl], class: cl, ip: ip})
		lines = append(lines, vCLineText(r, a, ip))
	}
	pickClass := func() int {
		switch shape {
		case 1:
			return vLocal
		case 2, 3:
			return r.PickInt([]int{vLocal, vLocal, vLocal, vSkip})
		}
		return r.PickInt([]int{vLocal, vLocal, vLocal, vRemote, vRemote, vAmbig, vSkip})
	}
	sessionC := false
	switch shape {
	case 3:
	default:
		if r.Chance(1, 4) {
			sessionC = true
			if shape == 2 {
				addC(r.PickInt([]int{vLocal, vRemote, vAmbig}))
			} else {
				addC(-1)
			}
		}
	}
	lines = append(lines, "t=0 0")
	if r.Bool() {
		lines = append(lines, "a=group:BUNDLE 0", "a=msid-semantic: WMS")
	}
	nMedia := r.PickInt([]int{1, 1, 1, 2, 3})
	if shape == 3 {
		nMedia = 1
	}
	remotePlaced := false
	for m := 0; m < nMedia; m++ {
		lines = append(lines, r.PickString([]string{
			"m=application 9 UDP/DTLS/SCTP webrtc-datachannel",
			"m=application 54653 DTLS/SCTP 5000",
			"m=audio 49170 RTP/AVP 0",
			"m=video 51372 RTP/SAVPF 99",
		}))
		switch {
		case shape == 3:
			addC(vRemote)
		case shape == 2:
			if r.Chance(2, 3) {
				addC(r.PickInt([]int{vLocal, vLocal, vRemote, vAmbig}))
			}
		default:
			if r.Chance(3, 4) {
				if r.Chance(2, 3) {
					a := r.PickString([]string{"0.0.0.0", "127.0.0.1"})
					cl, ip := vClassify(a)
					out.clines = append(out.clines, vCLine{Addr: a, Class: vClassNames[cl], class: cl, ip: ip})
					lines = append(lines, "c=IN IP4 "+a)
				} else {
					addC(-1)
				}
			}
		}
		nAttr := r.Range(0, 9)
		if shape == 1 {
			nAttr = r.Range(2, 9)
		}
		for k := 0; k < nAttr; k++ {
			if r.Chance(1, 3) {
				lines = append(lines, vOtherAttrs[r.Intn(len(vOtherAttrs))])
				continue
			}
			want := pickClass()
			if shape == 1 && !remotePlaced && m == nMedia-1 && k >= nAttr-2 {
				want = vRemote
			}
			var c vCand
			if want == vSkip {
				c.Addr = r.PickString([]string{
					fmt.Sprintf("%08x-%04x-4%03x-a%03x-%012x.local", r.Intn(1<<32), r.Intn(1<<16), r.Intn(1<<12), r.Intn(1<<12), r.Intn(1<<48)),
					"example.com", "1.2.3", "1.2.3.4.5", "fe80::1%eth0", "[2001:db8::1]", "203.0.113.5:80", "256.1.1.1",
				})
			} else {
				c.Addr = vGenAddr(r, want)
			}
			c.class, c.ip = vClassify(c.Addr)
			line := vCandLine(r, c.Addr, &c)
			if c.Malformed != "" && c.class == vRemote {
				c.class = vAmbig
			}
			c.Class = vClassNames[c.class]
			if c.class == vRemote {
				remotePlaced = true
			}
			out.cands = append(out.cands, c)
			lines = append(lines, line)
		}
	}
	_ = sessionC
	out.crlf = r.Bool()
	eol := "\n"
	if out.crlf {
		eol = "\r\n"
	}
	out.text = strings.Join(lines, eol) + eol
	return out
}

// ---- oracle ------------------------------------------------------------------------

type vRemoteIPReplay struct {
	Case   string   `json:"case"`
	SDP    string   `json:"sdp"`
	Cands  []vCand  `json:"candidates_in_order"`
	CLines []vCLine `json:"c_lines_in_order"`
	Got    string   `json:"got"`
	Want   string   `json:"want"`
}

func vCheckRemoteIP(res *vlib.Result, s vSDP, caseID string) {
	res.Eval(1)
	rp := vRemoteIPReplay{Case: caseID, SDP: s.text, Cands: s.cands, CLines: s.clines}
	var got net.IP
	if res.Guard("remoteip:panic", rp, func() { got = remoteIPFromSDP(s.text) }) {
		return
	}
	rp.Got = fmt.Sprint(got)
	var desc sdp.SessionDescription
	if err := desc.Unmarshal([]byte(s.text)); err != nil {
		// the generator is supposed to write well-formed SDP; counted, and a
		// run with many of these is broken
		res.Obs("remoteip_sdp_rejected_by_parser", 1)
		res.Note("remoteip_last_parser_rejection", fmt.Sprintf("%v: %q", err, s.text))
		return
	}
	res.Obs("remoteip_sdps_checked", 1)
	var gotAddr netip.Addr
	if got != nil {
		a, ok := netip.AddrFromSlice(got)
		if !ok {
			res.Violatef("remoteip:foreign-address", rp, "remoteIPFromSDP returned a net.IP of length %d", len(got))
			return
		}
		gotAddr = a.Unmap()
	}
	firstRemote := -1
	for i, c := range s.cands {
		if c.class == vRemote {
			firstRemote = i
			break
		}
	}
	// where does the returned address occur?
	candIdx := -1
	for i, c := range s.cands {
		if got != nil && c.class != vSkip && c.ip == gotAddr {
			candIdx = i
			break
		}
	}
	cIdx := -1
	for i, c := range s.clines {
		if got != nil && c.ip == gotAddr {
			cIdx = i
			break
		}
	}
	if got != nil {
		if cl, _ := vClassify(gotAddr.String()); cl == vLocal {
			res.Violatef("remoteip:local-address-returned", rp, "remoteIPFromSDP returned the local address %s", gotAddr)
			return
		}
		if candIdx < 0 && cIdx < 0 {
			res.Violatef("remoteip:foreign-address", rp, "remoteIPFromSDP returned %s, which is neither a candidate address nor a c= address of the offer", gotAddr)
			return
		}
	}
	if firstRemote >= 0 {
		res.Obs("remoteip_offers_with_remote_candidate", 1)
		localBefore := 0
		for _, c := range s.cands[:firstRemote] {
			if c.class == vLocal {
				localBefore++
			}
		}
		if localBefore > 0 {
			res.Obs("remoteip_offers_with_local_candidates_before_the_remote_one", 1)
			res.Distinct(vHash(s.text))
		}
		rp.Want = s.cands[firstRemote].ip.String()
		switch {
		case got == nil:
			res.Violatef("remoteip:remote-candidate-missed", rp, "remoteIPFromSDP returned nil; the offer's first remote candidate is %s", rp.Want)
		case candIdx == firstRemote:
			// the promised answer
		case candIdx >= 0 && candIdx < firstRemote && s.cands[candIdx].class == vAmbig:
			res.Obs("remoteip_stopped_at_an_ambiguous_candidate", 1)
		case candIdx > firstRemote:
			res.Violatef("remoteip:later-candidate-returned", rp, "remoteIPFromSDP returned candidate #%d %s; the first remote candidate is #%d %s", candIdx, gotAddr, firstRemote, rp.Want)
		case candIdx < 0 && cIdx >= 0:
			res.Violatef("remoteip:c-line-preferred-over-candidate", rp, "remoteIPFromSDP returned the c= address %s although the offer has the remote candidate %s", gotAddr, rp.Want)
		default:
			res.Violatef("remoteip:not-first-remote-candidate", rp, "remoteIPFromSDP returned %s (candidate #%d, %s); the first remote candidate is #%d %s", gotAddr, candIdx, s.cands[candIdx].Class, firstRemote, rp.Want)
		}
		return
	}
	// no remote candidate
	res.Obs("remoteip_offers_without_remote_candidate", 1)
	ambigCand := false
	for _, c := range s.cands {
		if c.class == vAmbig {
			ambigCand = true
		}
	}
	remoteC, otherC := 0, 0
	for _, c := range s.clines {
		if c.class == vRemote {
			remoteC++
		} else {
			otherC++
		}
	}
	if got != nil && candIdx >= 0 && s.cands[candIdx].class == vAmbig {
		res.Obs("remoteip_stopped_at_an_ambiguous_candidate", 1)
		return
	}
	if got != nil && cIdx >= 0 {
		res.Obs("remoteip_answers_from_c_line", 1)
		if s.clines[cIdx].class == vAmbig {
			res.Obs("remoteip_ambiguous_c_address_returned", 1)
		}
		return
	}
	if got != nil {
		res.Violatef("remoteip:not-first-remote-candidate", rp, "remoteIPFromSDP returned %s (candidate #%d), the offer has no remote candidate", gotAddr, candIdx)
		return
	}
	// got == nil
	if remoteC == 1 && otherC == 0 && !ambigCand {
		rp.Want = s.clines[0].ip.String()
		res.Violatef("remoteip:c-line-missed", rp, "remoteIPFromSDP returned nil; the offer has no usable candidate and exactly one c= line, with the remote address %s", rp.Want)
		return
	}
	if remoteC > 0 {
		res.Obs("remoteip_nil_although_some_c_line_is_remote", 1) // unjudged: which c= line counts is not promised
	} else {
		res.Obs("remoteip_nil_for_offers_with_only_local_addresses", 1)
	}
}

func vHash(s string) string {
	h := fnv.New64a()
	h.Write([]byte(s))
	return fmt.Sprintf("%x", h.Sum64())
}

// ---- the test -----------------------------------------------------------------------

func TestVerifC18RemoteIP(t *testing.T) {
	res := vlib.NewResult("C18", "inpkg-c18-remoteip", "PRNG SDP offers (1..3 media sections; 0..9 attributes each, of which candidates with local / remote / disputable / non-IP addresses incl. every boundary of the local ranges, IPv6 and v4-mapped spellings, host/srflx/prflx/relay, udp/tcp, related addresses, extensions, candidates the standard parser rejects; session- and media-level c= lines; LF and CRLF) in four shapes (mix, locals-then-remote, no remote candidate, single remote c= line); the result of remoteIPFromSDP is compared with the first remote candidate in document order; non-trivial = offer with at least one local candidate before its first remote candidate, distinct by SDP hash")
	defer res.Finish()
	root := vlib.NewRand(vlib.Seed()).Split("c18remoteip")
	n := vlib.Scale(12000, 300000)
	for i := 0; i < n; i++ {
		r := root.SplitN("sdp", i)
		shape := []int{0, 0, 0, 1, 1, 2, 2, 3}[i%8]
		s := vGenSDP(r, shape)
		vCheckRemoteIP(res, s, fmt.Sprintf("sdp/%d/shape=%d", i, shape))
		if i < 4 {
			res.Sample(4, map[string]interface{}{"case": fmt.Sprintf("sdp/%d", i), "sdp": s.text, "candidates": s.cands, "c_lines": s.clines})
		}
	}
	// classification of every boundary address, as the real predicate sees it
	for _, a := range vBoundary {
		cl, _ := vClassify(a)
		ip := net.ParseIP(a)
		if ip == nil {
			continue
		}
		res.Eval(1)
		real := isRemoteAddress(ip)
		res.Obs("remoteip_boundary_addresses_classified", 1)
		rp := map[string]interface{}{"case": "boundary/" + a, "address": a, "reference_class": vClassNames[cl], "isRemoteAddress": real}
		if cl == vLocal && real {
			res.Violatef("remoteip:local-address-returned", rp, "isRemoteAddress(%s) = true for a local address", a)
		}
		if cl == vRemote && !real {
			res.Violatef("remoteip:remote-candidate-missed", rp, "isRemoteAddress(%s) = false for a remote address", a)
		}
	}
	res.RequireObs("remoteip_sdps_checked", int64(n*95/100))
	res.RequireObs("remoteip_offers_with_remote_candidate", int64(n/4))
	res.RequireObs("remoteip_offers_with_local_candidates_before_the_remote_one", int64(n/8))
	res.RequireObs("remoteip_offers_without_remote_candidate", int64(n/8))
	res.RequireObs("remoteip_answers_from_c_line", int64(n/16))
	res.RequireObs("remoteip_nil_for_offers_with_only_local_addresses", int64(n/50))
	res.RequireObs("remoteip_boundary_addresses_classified", 40)
}
