// C13 (consequence clause): a crafted answer must not terminate the client.
// The real NewWebRTCPeerWithEvents runs with a scripted rendezvous that returns
// hostile answers. go 1.13 language level.
package snowflake_client

import (
	"encoding/json"
	"fmt"
	"io/ioutil"
	"log"
	"strings"
	"sync"
	"testing"

	"github.com/pion/webrtc/v3"
	"verif/vlib"
)

type c13Rendezvous struct{ answerSDP string }

func (r *c13Rendezvous) Exchange(req []byte) ([]byte, error) {
	inner, _ := json.Marshal(map[string]string{"type": "answer", "sdp": r.answerSDP})
	out, _ := json.Marshal(map[string]string{"answer": string(inner)})
	return out, nil
}

var c13BaseAnswer = "v=0\r\no=- 4358805017720277108 2 IN IP4 8.8.8.8\r\ns=-\r\nt=0 0\r\na=group:BUNDLE 0\r\nm=application 56688 UDP/DTLS/SCTP webrtc-datachannel\r\nc=IN IP4 8.8.8.8\r\na=candidate:3769337065 1 udp 2122260223 192.0.2.250 56688 typ host\r\na=ice-ufrag:aMAZ\r\na=ice-pwd:jcHb08Jjgrazp2dzjdrvPPvV\r\na=fingerprint:sha-256 C8:88:EE:B9:E7:02:2E:21:37:ED:7A:D1:EB:2B:A3:15:A2:3B:5B:1C:3D:D4:D5:1F:06:CF:52:40:03:F8:DD:66\r\na=setup:active\r\na=mid:0\r\na=sctp-port:5000\r\n"

func c13HostileAnswer(r *vlib.Rand, i int) (string, string) {
	lines := strings.Split(strings.TrimSuffix(c13BaseAnswer, "\r\n"), "\r\n")
	types := []string{"v", "o", "s", "i", "u", "e", "p", "c", "b", "t", "r", "z", "k", "a", "m", "x", ""}
	fields := []string{"", "0", "1", "-1", "IN", "IP4", "8.8.8.8", "99999999999999999999", "1d", "h", "0 0", "a b c", "::", "webrtc-datachannel", "\x00"}
	if i%5 == 4 {
		k := r.Intn(len(c13BaseAnswer))
		return c13BaseAnswer[:k], fmt.Sprintf("truncated after %d bytes", k)
	}
	t := r.PickString(types)
	n := r.Intn(4)
	var fs []string
	for k := 0; k < n; k++ {
		fs = append(fs, r.PickString(fields))
	}
	ln := t + "=" + strings.Join(fs, " ")
	pos := r.Intn(len(lines) + 1)
	out := append(append(append([]string{}, lines[:pos]...), ln), lines[pos:]...)
	return strings.Join(out, "\r\n") + "\r\n", fmt.Sprintf("inserted %q at line %d", ln, pos)
}

// c13StructuralAnswers: descriptions whose SHAPE is unusual rather than one of
// their lines - what a lenient SDP implementation may accept although no real
// proxy produces it: ICE credentials, fingerprint and setup at session level
// with no media section at all, with an empty media section, with a rejected
// (port 0) section, with two sections, with the section of another kind.
func c13StructuralAnswers() []string {
	const sess = "v=0\r\no=- 4358805017720277108 2 IN IP4 8.8.8.8\r\ns=-\r\nt=0 0\r\n"
	const cred = "a=ice-ufrag:aMAZ\r\na=ice-pwd:jcHb08Jjgrazp2dzjdrvPPvV\r\na=fingerprint:sha-256 C8:88:EE:B9:E7:02:2E:21:37:ED:7A:D1:EB:2B:A3:15:A2:3B:5B:1C:3D:D4:D5:1F:06:CF:52:40:03:F8:DD:66\r\na=setup:active\r\n"
	const media = "m=application 56688 UDP/DTLS/SCTP webrtc-datachannel\r\nc=IN IP4 8.8.8.8\r\n"
	const cand = "a=candidate:3769337065 1 udp 2122260223 192.0.2.250 56688 typ host\r\n"
	return []string{
		sess + cred, // session-level credentials, no media section
		sess + "a=group:BUNDLE 0\r\n" + cred,
		sess + cred + media + "a=mid:0\r\na=sctp-port:5000\r\n",                         // credentials only at session level
		sess + cred + "m=application 0 UDP/DTLS/SCTP webrtc-datachannel\r\na=mid:0\r\n", // rejected section
		sess + cred + "m=audio 9 UDP/TLS/RTP/SAVPF 111\r\nc=IN IP4 0.0.0.0\r\na=mid:0\r\na=rtpmap:111 opus/48000/2\r\n",
		sess + "a=group:BUNDLE 0 1\r\n" + media + cand + cred + "a=mid:0\r\na=sctp-port:5000\r\n" + media + cred + "a=mid:1\r\na=sctp-port:5000\r\n",
		sess + media, // a section without anything
		sess + media + cand + "a=ice-ufrag:aMAZ\r\na=ice-pwd:jcHb08Jjgrazp2dzjdrvPPvV\r\n", // no fingerprint
	}
}

func TestVerifC13ClientAnswer(t *testing.T) {
	res := vlib.NewResult("C13", "inpkg-clientlib-c13-answer", "the real NewWebRTCPeerWithEvents with a scripted rendezvous returning hostile answers (the base answer with one line of any SDP line type inserted with 0-3 odd fields, truncations, plus fixed witnesses); the attempt must come back as an error, never panic; non-trivial = every hostile answer, distinct by text")
	defer res.Finish()
	log.SetOutput(ioutil.Discard)
	r := vlib.NewRand(vlib.Seed()).Split("c13ans")
	witnesses := []string{
		"v=0\r\no=- 0 0 IN IP4 0\r\ns=-\r\nt=0 0\r\nr=\r\n",
		"v=0\r\no=- 0 0 IN IP4 0\r\ns=-\r\nt=0 0\r\nr=1\r\n",
		"",
	}
	witnesses = append(witnesses, c13StructuralAnswers()...)
	n := vlib.Scale(60, 400)
	cfg := &webrtc.Configuration{}
	var wwg sync.WaitGroup
	runCase := func(i int, sdp, desc string) {
		defer wwg.Done()
		rec := map[string]interface{}{"case": fmt.Sprintf("answer/%d", i), "sdp": sdp, "how": desc}
		res.CaseLog(fmt.Sprintf("answer/%d", i))
		res.Eval(1)
		res.Distinct(sdp)
		bc := &BrokerChannel{Rendezvous: &c13Rendezvous{answerSDP: sdp}, keepLocalAddresses: true, natType: "unknown"}
		var err error
		var peer *WebRTCPeer
		panicked := false
		func() {
			defer func() {
				if e := recover(); e != nil {
					panicked = true
					stack := vlib.ShortStack()
					cls := "other"
					if strings.Contains(stack, "parseTimeUnits") {
						cls = "sdp/v3.parseTimeUnits"
					} else if strings.Contains(stack, "pion/sdp") {
						cls = "sdp/v3"
					} else if strings.Contains(stack, "pion/webrtc") {
						cls = "pion/webrtc"
					}
					res.Violate("panic:client-connect-hostile-answer:"+cls, fmt.Sprintf("answer (%s) makes the client's connection attempt panic: %v", desc, e), rec)
				}
			}()
			peer, err = NewWebRTCPeerWithEvents(cfg, bc, nil)
		}()
		switch {
		case panicked:
			res.Obs("answers_panicking", 1)
		case err != nil:
			res.Obs("answers_reported_as_error", 1)
		default:
			res.Obs("answers_accepted", 1)
			if peer != nil {
				peer.Close()
			}
		}
		if i < 3 {
			res.Sample(3, rec)
		}
	}
	// the fixed witnesses all at once (an answer the library accepts costs the 10 s
	// wait for a data channel that never opens), the generated ones one after another
	for i := range witnesses {
		wwg.Add(1)
		go runCase(i, witnesses[i], "fixed witness")
	}
	wwg.Wait()
	for i := len(witnesses); i < n+len(witnesses); i++ {
		sdp, desc := c13HostileAnswer(r.SplitN("case", i), i)
		wwg.Add(1)
		runCase(i, sdp, desc)
	}
	res.RequireObs("answers_reported_as_error", 50)
}
