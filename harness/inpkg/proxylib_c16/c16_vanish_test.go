// C16 - exit path "the client vanishes in the middle of a download it has
// stopped reading": the relay keeps streaming, the client's message callback
// blocks (its receive window closes, the proxy's data channel send buffer
// fills), then the client closes its peer connection. The session's handler
// must end and its slot come back; afterwards the proxy must poll with exactly
// its own slot in use.
package snowflake_proxy

import (
	"fmt"
	"strings"
	"sync"
	"sync/atomic"
	"testing"
	"time"

	"verif/vlib"
)

func TestVerifC16DownloadVanish(t *testing.T) {
	res := vlib.NewResult("C16", "inpkg-proxy-c16-download-vanish", "one real SnowflakeProxy (capacity 2); per session a real pion client asks the relay for a never-ending download, stops reading (message callback blocks) until the relay has pushed > 1.5 MiB more, then closes its peer connection (or only its data channel); the session's handler goroutine must end (slot returned) - a handler that is still there 90 s later is judged from the goroutine dump; finally a held poll must find exactly 1 slot in use; non-trivial = session that reached the stalled state, distinct by session")
	defer res.Finish()
	st, err := vStartStun()
	if err != nil {
		res.Inconcl("fake STUN responder: " + err.Error())
		return
	}
	relay, err := vStartRelay("127.0.0.1", 0)
	if err != nil {
		res.Inconcl("relay listener: " + err.Error())
		return
	}
	br := vStartBroker()
	var mu sync.Mutex
	bySid := map[string]*vPeer{}
	br.mu.Lock()
	br.onAnswer = func(a vAnswer) vReply {
		mu.Lock()
		p := bySid[a.Sid]
		mu.Unlock()
		if p == nil {
			return vReply{200, []byte(`{"Status":"client gone"}`)}
		}
		go p.applyAnswer(a.Answer)
		return vReply{200, []byte(`{"Status":"success"}`)}
	}
	br.mu.Unlock()
	run := vStartProxy(2, br.url(), st.addr, fmt.Sprintf("ws://%s/default/echo", relay.hostport()), "^127.0.0.1$", true)
	n := vlib.Scale(3, 12)
	for i := 0; i < n; i++ {
		p := br.nextPoll(60 * time.Second)
		if p == nil {
			d := vAnalyze()
			res.Violatef("c16:slot-leak:proxy-stopped-polling-after-download-vanish", map[string]interface{}{"case": fmt.Sprintf("vanish/%d", i), "slots_in_use": vSlots(), "goroutines": d},
				"capacity 2: no poll within 60 s before session %d (main loop %s, %d slots in use, %d handlers)", i, d.MainWhere, vSlots(), d.Handlers)
			break
		}
		peer, err := vNewPeer()
		if err != nil {
			p.replyNoMatch()
			res.Inconcl("harness peer: " + err.Error())
			continue
		}
		mu.Lock()
		bySid[p.Sid] = peer
		mu.Unlock()
		key := fmt.Sprintf("v%d", i)
		mode := "burst" // 4 MiB in 16 KiB messages, then silence
		if i%2 == 1 {
			mode = "stream" // never-ending, 1200-byte messages
		}
		p.reply(200, vMatchBody(peer.offer, fmt.Sprintf("ws://%s/%s/%s", relay.hostport(), key, mode)))
		res.Eval(1)
		rec := map[string]interface{}{"case": fmt.Sprintf("vanish/%d", i), "relay_mode": mode}
		if !peer.waitOpen(30 * time.Second) {
			peer.close("pc")
			res.Inconcl(fmt.Sprintf("session %d: the data channel did not open", i))
			continue
		}
		atomic.StoreInt32(&peer.stall, 1)
		peer.send("start")
		rc := relay.waitConn(key, 10*time.Second)
		if rc == nil {
			atomic.StoreInt32(&peer.stall, 0)
			peer.close("pc")
			res.Inconcl(fmt.Sprintf("session %d: the proxy did not connect to the relay", i))
			continue
		}
		// the relay pushes on while nobody reads: wait until it has written 1.5 MiB more
		// than at the moment the client stopped reading, or is itself held back
		base := atomic.LoadInt64(&rc.sent)
		last, lastMove := base, time.Now()
		for time.Since(lastMove) < 3*time.Second && (mode == "burst" || atomic.LoadInt64(&rc.sent)-base < 1536<<10) {
			time.Sleep(50 * time.Millisecond)
			if v := atomic.LoadInt64(&rc.sent); v != last {
				last, lastMove = v, time.Now()
			}
		}
		pushed := atomic.LoadInt64(&rc.sent) - base
		rec["relay_bytes_pushed_while_client_not_reading"] = pushed
		res.ObsMax("max_bytes_pushed_while_client_not_reading", pushed)
		how := "pc"
		if i%3 == 1 {
			how = "dc"
		}
		rec["client_closes"] = how
		peer.close(how)
		atomic.StoreInt32(&peer.stall, 0)
		res.Obs("sessions_vanished_while_stalled", 1)
		res.Distinct(fmt.Sprintf("vanish/%d", i))
		// the handler must end: wait for the state, judge a leftover from the dump
		gone := false
		closedAt := time.Now()
		for end := time.Now().Add(90 * time.Second); time.Now().Before(end); time.Sleep(250 * time.Millisecond) {
			if vAnalyze().Handlers == 0 {
				gone = true
				break
			}
			// the proxy goes on polling meanwhile (capacity 2)
			if q := br.nextPoll(10 * time.Millisecond); q != nil {
				q.replyNoMatch()
			}
		}
		if gone {
			res.Obs("handlers_ended_after_client_vanished", 1)
			res.ObsMax("max_seconds_until_handler_ended", int64(time.Since(closedAt)/time.Second))
			continue
		}
		parked := 0
		excerpt := ""
		for _, g := range vlib.ParseDump(vlib.DumpAll()) {
			if (strings.HasPrefix(g.State, "sync.Mutex.Lock") || strings.HasPrefix(g.State, "chan receive") || strings.HasPrefix(g.State, "select")) && g.HasFrame("snowflake.git/v2/proxy/lib.") && (g.HasFrame("webRTCConn") || g.HasFrame("copyLoop") || g.HasFrame("datachannelHandler") || g.HasFrame("makePeerConnectionFromOffer")) {
				parked++
				if len(excerpt) < 5000 {
					excerpt += g.Raw + "\n"
				}
			}
		}
		rec["goroutines"] = excerpt
		rec["slots_in_use"] = vSlots()
		if parked > 0 {
			res.Violatef("c16:slot-leak:handler-never-ends-after-client-vanished-mid-download", rec, "capacity 2: 90 s after the client of session %d (which had stopped reading a download) closed its %s, the session's handler still exists and %d of the proxy's goroutines are parked in its data path: the slot is not coming back", i, how, parked)
		} else {
			res.Inconcl(fmt.Sprintf("session %d: handler still present after 90 s but nothing parked in the proxy's data path", i))
		}
		break
	}
	// finally: a held poll sees exactly the poller's own slot
	if q := br.nextPoll(60 * time.Second); q != nil {
		time.Sleep(300 * time.Millisecond)
		d := vAnalyze()
		if S := vSlots(); d.Handlers == 0 && S != 1 {
			res.Violatef("c16:slot-count-wrong-after-download-vanish", map[string]interface{}{"case": "vanish/final", "slots_in_use": S, "goroutines": d}, "capacity 2: all sessions have ended and a poll is held: %d slots in use, expected 1", S)
		} else if d.Handlers == 0 {
			res.Obs("final_slot_count_exact", 1)
		}
		q.replyNoMatch()
	}
	run.sf.Stop()
	deadline := time.Now().Add(8 * time.Second)
	for time.Now().Before(deadline) {
		if q := br.nextPoll(200 * time.Millisecond); q != nil {
			q.replyNoMatch()
		}
	}
	res.RequireObs("sessions_vanished_while_stalled", int64(n*2/3))
	res.RequireObs("handlers_ended_after_client_vanished", int64(n*2/3))
}
