// C06 (c) — a proxy never opens a relay connection to a broker-supplied URL
// whose hostname fails its own pattern, or whose scheme is not wss unless
// non-TLS relays were explicitly allowed.
//
// A tampering scripted broker hands the real SnowflakeProxy genuine offers (from
// a pion peer in the harness) together with relay URLs of many shapes. The
// expected verdict comes from the generator's own knowledge of the URL it
// assembled (scheme, host component) and a five-line reading of the documented
// pattern semantics — not from net/url or namematcher (net/url is only used to
// drop cases on which it disagrees with the generator about what the host is).
// Observed at two boundaries: the /answer POST and TCP accepts at decoy
// listeners created per case on 127.0.0.1/.2/.3/.20, 127.10.0.2 and [::1].
package snowflake_proxy

import (
	"fmt"
	"net/url"
	"strings"
	"sync"
	"sync/atomic"
	"testing"
	"time"

	"verif/vlib"
)

// v06Member: documented semantics of RelayDomainNamePattern — "If the pattern
// starts with ^ then an exact match is required. The rest of pattern is the
// suffix of domain name"; one trailing $ is syntax.
func v06Member(pattern, host string) bool {
	if strings.HasSuffix(pattern, "$") {
		pattern = pattern[:len(pattern)-1]
	}
	if strings.HasPrefix(pattern, "^") {
		return host == pattern[1:]
	}
	return len(host) >= len(pattern) && host[len(host)-len(pattern):] == pattern
}

type v06Cfg struct {
	Pattern string
	NonTLS  bool
}

var v06Cfgs = []v06Cfg{
	{"^127.0.0.2$", true},
	{"^127.0.0.2$", false},
	{"0.0.2$", true},
	{"2$", true},
	{"$", false},
	{"127.0.0.2$", false},
	{"2$", false},
	{"^127.0.0.2$", true},
}

var v06Addrs = []string{"127.0.0.1", "127.0.0.2", "127.0.0.3", "127.0.0.20", "127.10.0.2", "::1"}

var v06Classes = []string{
	"plain-evil", "userinfo-good-at-evil", "plain-good", "trailing-dot", "scheme-variant", "host-in-path",
	"port-suffix", "userinfo-evil-at-good", "unparsable", "ipv6-mapped", "good-extended", "empty",
	"opaque", "no-scheme", "ipv6-loopback", "no-port", "userinfo-with-ports", "wrong-scheme",
	"name-repeated", "empty-host", "configured-relay",
}

// v06DefaultRelay is the relay URL the proxy of this process was configured with.
var v06DefaultRelay string

type v06Case struct {
	Idx        int    `json:"i"`
	Class      string `json:"class"`
	URL        string `json:"relay_url"`
	Scheme     string `json:"scheme_by_construction"`
	Host       string `json:"host_by_construction"`
	WellFormed bool   `json:"well_formed"`
	RefAccept  bool   `json:"reference_accepts"`
	Pattern    string `json:"proxy_pattern"`
	NonTLS     bool   `json:"proxy_allows_non_tls"`
	Answered   bool   `json:"proxy_answered"`
	Accepts    int64  `json:"tcp_accepts_at_decoys"`
	Strays     int64  `json:"stray_tcp_accepts_not_dialled_by_the_proxy,omitempty"`
	AcceptedAt string `json:"accepted_at,omitempty"`
	Skipped    string `json:"skipped,omitempty"`

	decoys   map[string]*vRelay
	peer     *vPeer
	sid      string
	answered chan struct{}
	once     sync.Once
	mu       sync.Mutex
	answer   string
}

// countAccepts: TCP connections accepted at this case's decoys that the
// proxy's own dialer is known to have made (a connection at a decoy the proxy
// never dialled comes from an unrelated process on this host).
func (c *v06Case) countAccepts() (int64, string) {
	var n int64
	where := ""
	c.Strays = 0
	for _, d := range c.decoys {
		k := d.tcpAccepts()
		if k == 0 {
			continue
		}
		dialled := int64(vDials.count(d.hostport()))
		if dialled == 0 {
			c.Strays += k
			continue
		}
		if k > dialled {
			c.Strays += k - dialled
			k = dialled
		}
		n += k
		where += fmt.Sprintf("%s (%d) ", d.hostport(), k)
	}
	return n, strings.TrimSpace(where)
}

func v06HostPort(host string, port int) string {
	if strings.Contains(host, ":") {
		return fmt.Sprintf("[%s]:%d", host, port)
	}
	return fmt.Sprintf("%s:%d", host, port)
}

// v06PortWithSuffix starts a decoy on host at a port whose decimal text ends
// with the given digits.
func v06PortWithSuffix(host, digits string, r *vlib.Rand) *vRelay {
	mod := 1
	for range digits {
		mod *= 10
	}
	var sfx int
	fmt.Sscanf(digits, "%d", &sfx)
	for try := 0; try < 200; try++ {
		base := r.Range(20000/mod, 60000/mod)
		port := base*mod + sfx
		if d, err := vStartRelay(host, port); err == nil {
			return d
		}
	}
	return nil
}

func v06AllDigits(s string) bool {
	if s == "" {
		return false
	}
	for _, ch := range s {
		if ch < '0' || ch > '9' {
			return false
		}
	}
	return true
}

// v06Build assembles the relay URL of a case. By construction it knows the
// scheme and the host component the URL designates.
func v06Build(c *v06Case, cfg v06Cfg, r *vlib.Rand) {
	var good, evil []string
	for _, a := range v06Addrs[:5] {
		if v06Member(cfg.Pattern, a) {
			good = append(good, a)
		} else {
			evil = append(evil, a)
		}
	}
	G := "127.0.0.2"
	if len(good) > 0 {
		G = r.PickString(good)
	}
	E := "127.0.0.3"
	if len(evil) > 0 {
		E = r.PickString(evil)
	} else {
		E = r.PickString(v06Addrs[:5])
	}
	port := func(h string) int { return c.decoys[h].port }
	sch := r.PickString([]string{"ws", "wss"})
	if c.Idx == 0 { // the first case must be accepted and connectable
		sch = "wss"
		if cfg.NonTLS {
			sch = "ws"
		}
	}
	path := fmt.Sprintf("/c%d/echo", c.Idx)
	c.WellFormed = true
	c.Scheme = sch
	switch c.Class {
	case "plain-good":
		c.Host = G
		c.URL = fmt.Sprintf("%s://%s%s", sch, v06HostPort(G, port(G)), path)
	case "wrong-scheme":
		sch = r.PickString([]string{"ws", "http", "https", "ws"})
		c.Scheme = sch
		c.Host = G
		c.URL = fmt.Sprintf("%s://%s%s", sch, v06HostPort(G, port(G)), path)
	case "plain-evil":
		c.Host = E
		c.URL = fmt.Sprintf("%s://%s%s", sch, v06HostPort(E, port(E)), path)
	case "userinfo-good-at-evil":
		c.Host = E
		c.URL = fmt.Sprintf("%s://%s@%s%s", sch, G, v06HostPort(E, port(E)), path)
	case "userinfo-with-ports":
		c.Host = E
		c.URL = fmt.Sprintf("%s://%s:%d@%s%s", sch, G, port(G), v06HostPort(E, port(E)), path)
	case "userinfo-evil-at-good":
		c.Host = G
		c.URL = fmt.Sprintf("%s://%s:%d@%s%s", sch, E, port(E), v06HostPort(G, port(G)), path)
	case "trailing-dot":
		c.Host = G + "."
		c.URL = fmt.Sprintf("%s://%s.:%d%s", sch, G, port(G), path)
	case "good-extended":
		c.Host = "127.0.0.20"
		c.URL = fmt.Sprintf("%s://127.0.0.20:%d%s", sch, port("127.0.0.20"), path)
	case "host-in-path":
		c.Host = E
		tail := r.PickString([]string{"/" + G, "/x?host=" + G, "/x#" + G, "/" + sch + "://" + G})
		c.URL = fmt.Sprintf("%s://%s/c%d/echo%s", sch, v06HostPort(E, port(E)), c.Idx, tail)
	case "port-suffix":
		// the text "host:port" ends with the pattern's suffix although the host does not
		sfx := strings.TrimSuffix(strings.TrimPrefix(cfg.Pattern, "^"), "$")
		c.Host = E
		if v06AllDigits(sfx) && len(sfx) <= 3 && !strings.HasPrefix(cfg.Pattern, "^") && len(evil) > 0 {
			if d := v06PortWithSuffix(E, sfx, r); d != nil {
				c.decoys["port-suffix"] = d
				c.URL = fmt.Sprintf("%s://%s:%d%s", sch, E, d.port, path)
				break
			}
		}
		c.URL = fmt.Sprintf("%s://%s%s", sch, v06HostPort(E, port(E)), path)
	case "ipv6-mapped":
		c.Host = "::ffff:" + G
		c.URL = fmt.Sprintf("%s://[::ffff:%s]:%d%s", sch, G, port(G), path)
	case "ipv6-loopback":
		c.Host = "::1"
		c.URL = fmt.Sprintf("%s://[::1]:%d%s", sch, port("::1"), path)
	case "opaque":
		c.Host = "" // no authority component at all
		c.URL = fmt.Sprintf("%s:%s:%d", sch, G, port(G))
	case "no-scheme":
		c.Scheme = ""
		c.Host = G
		c.URL = fmt.Sprintf("//%s%s", v06HostPort(G, port(G)), path)
	case "no-port":
		c.Host = G
		c.URL = fmt.Sprintf("%s://%s%s", sch, G, path)
	case "scheme-variant":
		v := r.PickString([]string{"WSS", "Ws", "http", "https", "wss+x", "wsss", "ws"})
		c.Scheme = strings.ToLower(v) // schemes are case-insensitive (RFC 3986 3.1)
		c.Host = G
		c.URL = fmt.Sprintf("%s://%s%s", v, v06HostPort(G, port(G)), path)
	case "empty-host":
		// an authority without a host: "wss://:PORT/..." designates host "" (which a
		// dialer resolves to the local machine - the decoy on 127.0.0.1 listens on
		// that port); only a pattern that accepts the empty name may let it pass
		c.Host = ""
		switch r.Intn(3) {
		case 0:
			c.URL = fmt.Sprintf("%s://:%d%s", sch, port("127.0.0.1"), path)
		case 1:
			c.URL = fmt.Sprintf("%s://user@:%d%s", sch, port("127.0.0.1"), path)
		default:
			c.URL = fmt.Sprintf("%s://%s", sch, path) // "wss:///c3/echo"
		}
	case "name-repeated":
		// a host name that both begins and ends with the pattern's name but is not
		// the name: outside an exact pattern, inside a suffix pattern (where it is
		// merely unreachable: it does not resolve)
		inner := strings.TrimSuffix(strings.TrimPrefix(cfg.Pattern, "^"), "$")
		if inner == "" {
			inner = "relay"
		}
		c.Host = inner + r.PickString([]string{".cdn-", ".", "-", "x", ".evil.example."}) + inner
		c.URL = fmt.Sprintf("%s://%s:%d%s", sch, c.Host, 443, path)
	case "unparsable":
		c.WellFormed = false
		c.Host = ""
		c.Scheme = ""
		switch r.Intn(6) {
		case 0:
			c.URL = fmt.Sprintf("%s://%s:%d%%zz%s", sch, G, port(G), path)
		case 1:
			c.URL = fmt.Sprintf("%s://[::1:%d%s", sch, port("::1"), path)
		case 2:
			c.URL = fmt.Sprintf("%s://%s:port%s", sch, G, path)
		case 3:
			c.URL = fmt.Sprintf("%s://%s:%d%s\x7f", sch, G, port(G), path)
		case 4:
			c.URL = fmt.Sprintf(" %s://%s:%d%s", sch, G, port(G), path)
		default:
			c.URL = fmt.Sprintf("%s://%s:%d\\@%s:%d%s", sch, E, port(E), G, port(G), path)
		}
	case "configured-relay":
		// the broker names, letter for letter, the relay the operator configured as the
		// default: it is a broker-supplied URL like any other and must pass the same test
		c.URL = v06DefaultRelay
		c.Host = "127.0.0.1"
		c.Scheme = "ws"
	case "empty":
		c.URL = ""
		c.Host = ""
		c.Scheme = ""
	}
	switch {
	case c.Class == "empty":
		c.RefAccept = true // nothing broker-supplied: the operator's default relay is used
	case !c.WellFormed:
		c.RefAccept = false
	default:
		c.RefAccept = v06Member(cfg.Pattern, c.Host) && (c.Scheme == "wss" || cfg.NonTLS)
	}
	// net/url must agree with the generator about what the URL designates;
	// otherwise the case is outside the reference's domain
	u, err := url.Parse(c.URL)
	switch {
	case c.Class == "empty":
	case !c.WellFormed:
		if err == nil {
			c.Skipped = "net/url parses a URL the generator calls unparsable"
		}
	case err != nil:
		c.Skipped = "net/url rejects a URL the generator calls well-formed: " + err.Error()
	case u.Hostname() != c.Host || strings.ToLower(u.Scheme) != c.Scheme:
		c.Skipped = fmt.Sprintf("net/url sees scheme %q host %q, generator %q %q", u.Scheme, u.Hostname(), c.Scheme, c.Host)
	}
}

func TestVerifC06c(t *testing.T) {
	res := vlib.NewResult("C06", "inpkg-proxy-c06c", "per shard one real SnowflakeProxy with a relay pattern (exact, suffix, short digit suffix, empty) and AllowNonTLSRelay on/off is handed genuine offers with tampered relay URLs of 21 classes (in/out-of-pattern IP-literal hosts, a host name that begins and ends with the pattern's name, an authority without a host, userinfo tricks, trailing dot, host text in path/query/fragment, port text completing the suffix, IPv6 forms, opaque, scheme variants, unparsable, empty); verdict by construction + documented pattern semantics; observed at the /answer POST and at per-case decoy listeners; non-trivial = case executed until the proxy's next poll, distinct by (pattern, non-TLS flag, class, URL)")
	defer res.Finish()
	shard, _ := vlib.Shard()
	root := vlib.NewRand(vlib.Seed()).Split("c06c").SplitN("shard", shard)
	cfg := v06Cfgs[shard%len(v06Cfgs)]
	nCases := vlib.Scale(8, 24)

	st, err := vStartStun()
	if err != nil {
		res.Inconcl("fake STUN responder: " + err.Error())
		return
	}
	def, err := vStartRelay("127.0.0.1", 0)
	if err != nil {
		res.Inconcl("default relay listener: " + err.Error())
		return
	}
	br := vStartBroker()
	vInstallDialLog()
	var mu sync.Mutex
	bySid := map[string]*v06Case{}
	br.mu.Lock()
	br.onAnswer = func(a vAnswer) vReply {
		mu.Lock()
		c := bySid[a.Sid]
		mu.Unlock()
		if c == nil {
			return vReply{200, []byte(`{"Status":"client gone"}`)}
		}
		c.mu.Lock()
		c.answer = a.Answer
		c.mu.Unlock()
		c.once.Do(func() { close(c.answered) })
		// the tampering broker plays along whatever the URL was
		return vReply{200, []byte(`{"Status":"success"}`)}
	}
	br.mu.Unlock()
	v06DefaultRelay = fmt.Sprintf("ws://%s/default/echo", def.hostport())
	run := vStartProxy(4, br.url(), st.addr, v06DefaultRelay, cfg.Pattern, cfg.NonTLS)
	_ = run
	res.Note("config", cfg)
	res.Obs("shards_pattern_"+cfg.Pattern+fmt.Sprintf("_nontls_%v", cfg.NonTLS), 1)

	// class order: a connectable accepted URL first, then a rotation that
	// differs per shard so that the shards together cover every class
	var classes []string
	classes = append(classes, "plain-good")
	if cfg.Pattern == "$" {
		classes = append(classes, "wrong-scheme") // every host is a member: only the scheme can reject
	} else {
		classes = append(classes, "plain-evil")
	}
	if sfx := strings.TrimSuffix(cfg.Pattern, "$"); v06AllDigits(sfx) {
		classes = append(classes, "port-suffix") // "host:port" text can complete a digit suffix
	}
	if strings.HasPrefix(cfg.Pattern, "^") {
		classes = append(classes, "name-repeated") // only equality may satisfy an exact pattern
	}
	if cfg.Pattern != "$" {
		classes = append(classes, "empty-host") // every pattern but the empty suffix rejects the empty name
	}
	if !(v06Member(cfg.Pattern, "127.0.0.1") && cfg.NonTLS) {
		classes = append(classes, "configured-relay") // the operator's own relay fails the operator's own test
	}
	off := (shard * 5) % len(v06Classes)
	for i := 0; len(classes) < nCases; i++ {
		classes = append(classes, v06Classes[(off+i)%len(v06Classes)])
	}

	var cases []*v06Case
	judge := func(c *v06Case, final bool) {
		c.Accepts, c.AcceptedAt = c.countAccepts()
		if c.Skipped != "" {
			return
		}
		rec := map[string]interface{}{"case": fmt.Sprintf("shard%d/case%d", shard, c.Idx), "relay_case": c}
		if !c.RefAccept {
			if c.Answered && !final {
				if c.WellFormed {
					res.Violatef("c06:proxy-answered-rejected-relay-url:"+c.Class, rec,
						"proxy (pattern %q, non-TLS allowed=%v) answered an offer whose relay URL %q designates host %q scheme %q", cfg.Pattern, cfg.NonTLS, c.URL, c.Host, c.Scheme)
				} else {
					res.Obs("unparsable_urls_answered", 1)
				}
			}
			if c.Accepts > 0 && final {
				res.Violatef("c06:proxy-connected-to-rejected-relay:"+c.Class, rec,
					"proxy (pattern %q, non-TLS allowed=%v) opened %d TCP connection(s) to %s for relay URL %q (host %q scheme %q)", cfg.Pattern, cfg.NonTLS, c.Accepts, c.AcceptedAt, c.URL, c.Host, c.Scheme)
			}
		}
	}

	cur := br.nextPoll(60 * time.Second)
	if cur == nil {
		res.Inconcl("the proxy never polled")
		return
	}
	for i := 0; i < nCases && cur != nil; i++ {
		r := root.SplitN("case", i)
		c := &v06Case{Idx: i, Class: classes[i], Pattern: cfg.Pattern, NonTLS: cfg.NonTLS, decoys: map[string]*vRelay{}, answered: make(chan struct{})}
		res.CaseLog(fmt.Sprintf("shard%d/case%d/%s", shard, i, c.Class))
		ok := true
		for _, a := range v06Addrs {
			d, err := vStartRelay(a, 0)
			if err != nil {
				res.Inconcl(fmt.Sprintf("decoy listener on %s: %v", a, err))
				ok = false
				break
			}
			c.decoys[a] = d
		}
		if !ok {
			break
		}
		v06Build(c, cfg, r)
		peer, err := vNewPeer()
		if err != nil {
			res.Inconcl("harness peer: " + err.Error())
			break
		}
		c.peer = peer
		c.sid = cur.Sid
		mu.Lock()
		bySid[cur.Sid] = c
		mu.Unlock()
		cases = append(cases, c)
		if cur.Pattern == nil || *cur.Pattern != cfg.Pattern {
			res.Obs("polls_not_announcing_the_configured_pattern", 1)
		}
		defBefore := def.tcpAccepts()
		cur.reply(200, vMatchBody(peer.offer, c.URL))
		fmt.Printf("C06c: case %d %s url=%q ref-accept=%v skipped=%q\n", i, c.Class, c.URL, c.RefAccept, c.Skipped)

		// either the answer arrives, or the proxy's next poll shows that
		// runSession has returned without one
		var next *vPoll
		select {
		case <-c.answered:
			c.Answered = true
		case next = <-br.polls:
		case <-time.After(60 * time.Second):
			res.Inconcl(fmt.Sprintf("case %d: neither an answer nor another poll within 60 s", i))
		}
		if c.Answered {
			c.mu.Lock()
			ans := c.answer
			c.mu.Unlock()
			if err := peer.applyAnswer(ans); err == nil && peer.waitOpen(15*time.Second) {
				res.Obs("answered_sessions_with_open_data_channel", 1)
				// the proxy dials the relay as soon as the channel is open
				deadline := time.Now().Add(4 * time.Second)
				for time.Now().Before(deadline) {
					if n, _ := c.countAccepts(); n > 0 || def.tcpAccepts() > defBefore || peer.isClosed() {
						break
					}
					time.Sleep(20 * time.Millisecond)
				}
				time.Sleep(150 * time.Millisecond)
			} else {
				res.Obs("answered_sessions_that_did_not_open", 1)
			}
			next = br.nextPoll(60 * time.Second)
			if next == nil {
				res.Inconcl(fmt.Sprintf("case %d: no poll within 60 s after the answer", i))
			}
		}
		peer.close("pc")
		judge(c, false)
		res.Eval(1)
		if c.Skipped != "" {
			res.Obs("cases_outside_reference_domain", 1)
		} else {
			res.Distinct(fmt.Sprintf("%s/%v/%s/%s", cfg.Pattern, cfg.NonTLS, c.Class, strings.Replace(c.URL, fmt.Sprintf("/c%d/", c.Idx), "/c/", 1)))
			res.Obs("cases_executed", 1)
			res.Obs("class_"+c.Class, 1)
			n, _ := c.countAccepts()
			switch {
			case c.RefAccept && c.Answered:
				res.Obs("accepted_urls_answered", 1)
				if n > 0 || (c.Class == "empty" && def.tcpAccepts() > defBefore) {
					res.Obs("accepted_urls_with_relay_connection", 1)
				}
			case c.RefAccept && !c.Answered:
				res.Obs("accepted_urls_not_answered", 1)
				res.Obs("accepted_urls_not_answered/"+c.Class, 1)
			case !c.RefAccept && !c.Answered:
				res.Obs("rejected_urls_not_answered", 1)
			}
			if i < 3 {
				res.Sample(3, c)
			}
		}
		cur = next
	}
	if cur != nil {
		cur.replyNoMatch()
	}
	// late connections: everything that arrived at a decoy until now counts
	time.Sleep(500 * time.Millisecond)
	for _, c := range cases {
		judge(c, true)
		if c.Strays > 0 {
			res.Obs("stray_connections_at_decoys_ignored", c.Strays)
		}
	}
	res.Note("relay_addresses_dialled_by_the_proxy", vDials.all())
	res.Obs("polls_seen", atomic.LoadInt64(&br.nPolls))
	res.Obs("answers_seen", atomic.LoadInt64(&br.nAnswers))
	res.Obs("default_relay_tcp_accepts", def.tcpAccepts())
	if n := atomic.LoadInt64(&br.expired); n > 0 {
		res.Inconcl(fmt.Sprintf("%d poll(s) were not answered by the driver in time", n))
	}
	res.RequireObs("cases_executed", int64(nCases-2))
	res.RequireObs("accepted_urls_answered", 1)
	res.RequireObs("accepted_urls_with_relay_connection", 1)
	res.RequireObs("rejected_urls_not_answered", 1)
}
