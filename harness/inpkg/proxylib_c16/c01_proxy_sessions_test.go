// C01 - a proxy serves several clients at once; each session's bytes travel
// between that client's data channel and that session's relay connection and
// nowhere else. One real SnowflakeProxy (capacity 4): session A is in the
// middle of a never-ending download (the relay streams 0xA5 bytes) when client
// A goes away; session B's data channel opens at about that moment and echoes
// a self-describing stream through the proxy and the relay. Every byte B gets
// back is checked against its own offset: bytes of A's download - or anything
// else - inside B's stream are foreign bytes delivered by a carrier that
// stays up (nothing KCP could repair).
package snowflake_proxy

import (
	"fmt"
	"sync"
	"sync/atomic"
	"testing"
	"time"

	"verif/vlib"
)

func TestVerifC01ProxySessions(t *testing.T) {
	res := vlib.NewResult("C01", "inpkg-proxy-c01-sessions", "one real SnowflakeProxy (capacity 4), real pion clients, a WebSocket relay: per round client A is downloading a never-ending stream of 0xA5 bytes and closes its peer connection 0-8 ms after client B's data channel has opened; B sends a self-describing stream (256 KiB in 1000-byte messages) that the relay echoes, and every byte B receives is checked against its own offset; non-trivial = round in which B verified its whole stream while A's session was being torn down, distinct by round")
	defer res.Finish()
	st, err := vStartStun()
	if err != nil {
		res.Inconcl("fake STUN responder: " + err.Error())
		return
	}
	relay, err := vStartRelay("127.0.0.1", 0)
	if err != nil {
		res.Inconcl("relay listener: " + err.Error())
		return
	}
	br := vStartBroker()
	var mu sync.Mutex
	bySid := map[string]*vPeer{}
	hold := map[string]chan string{} // sid -> the answer, handed to the harness instead of being applied
	br.mu.Lock()
	br.onAnswer = func(a vAnswer) vReply {
		mu.Lock()
		p := bySid[a.Sid]
		h := hold[a.Sid]
		mu.Unlock()
		if p == nil {
			return vReply{200, []byte(`{"Status":"client gone"}`)}
		}
		if h != nil {
			h <- a.Answer
		} else {
			go p.applyAnswer(a.Answer)
		}
		return vReply{200, []byte(`{"Status":"success"}`)}
	}
	br.mu.Unlock()
	vStartProxy(4, br.url(), st.addr, fmt.Sprintf("ws://%s/default/echo", relay.hostport()), "^127.0.0.1$", true)
	rounds := vlib.Scale(8, 60)
	const total = 256 << 10
	for round := 0; round < rounds; round++ {
		name := fmt.Sprintf("proxy-sessions/%d", round)
		rec := map[string]interface{}{"case": name}
		// session A: a download in progress
		pa := br.nextPoll(60 * time.Second)
		if pa == nil {
			res.Inconcl(name + ": the proxy did not poll within 60 s")
			return
		}
		A, err := vNewPeer()
		if err != nil {
			pa.replyNoMatch()
			res.Inconcl("harness peer: " + err.Error())
			continue
		}
		var aBytes int64
		// rounds 0 and 1: A's download is itself a self-describing stream, and A stops
		// reading for 6.5 s in the middle of it (a client that is suspended, or whose path
		// is out, for a while) and then carries on: nothing may be missing afterwards
		verifyA := round < 2
		aTag := uint64(0xA000 + round)
		aChk := &vlib.StreamChecker{Tag: aTag, Dir: 1}
		var amu sync.Mutex
		A.sink.Store(func(b []byte) {
			for atomic.LoadInt32(&A.stall) == 1 {
				time.Sleep(20 * time.Millisecond)
			}
			if verifyA {
				amu.Lock()
				aChk.Check(b)
				amu.Unlock()
			}
			atomic.AddInt64(&aBytes, int64(len(b)))
		})
		mu.Lock()
		bySid[pa.Sid] = A
		mu.Unlock()
		aMode, aStart := "stream", "start"
		if verifyA {
			aMode, aStart = "pstream", fmt.Sprintf("start:%x", aTag)
		}
		pa.reply(200, vMatchBody(A.offer, fmt.Sprintf("ws://%s/a%d/%s", relay.hostport(), round, aMode)))
		if !A.waitOpen(30*time.Second) || A.send(aStart) != nil {
			A.close("pc")
			res.Inconcl(name + ": session A did not open")
			continue
		}
		if !vlib.WaitFor(10*time.Second, func() bool { return atomic.LoadInt64(&aBytes) > 200<<10 }) {
			A.close("pc")
			res.Inconcl(name + ": session A's download did not start")
			continue
		}
		if verifyA {
			atomic.StoreInt32(&A.stall, 1)
			time.Sleep(6500 * time.Millisecond)
			atomic.StoreInt32(&A.stall, 0)
			before := atomic.LoadInt64(&aBytes)
			// what was held back during the stall, and more, must arrive intact
			vlib.WaitFor(20*time.Second, func() bool { return atomic.LoadInt64(&aBytes) > before+(3<<20) })
			amu.Lock()
			afail, aoff := aChk.Fail, aChk.Off
			amu.Unlock()
			res.Obs("proxy_session_download_bytes_verified_across_a_stall", int64(aoff))
			if afail != "" {
				res.Violatef("stream:wrong-byte:proxy-session-download", map[string]interface{}{"case": name, "bytes_verified": aoff}, "session A's download through the proxy, after the client had stopped reading for 6.5 s and carried on: %s", afail)
			} else if atomic.LoadInt64(&aBytes) > before+(3<<20) {
				res.Obs("proxy_session_downloads_intact_after_stall", 1)
			}
		}
		// session B: matched while A downloads; its answer is applied by the harness
		pb := br.nextPoll(60 * time.Second)
		if pb == nil {
			A.close("pc")
			res.Inconcl(name + ": the proxy did not poll for session B within 60 s")
			return
		}
		B, err := vNewPeer()
		if err != nil {
			pb.replyNoMatch()
			A.close("pc")
			res.Inconcl("harness peer: " + err.Error())
			continue
		}
		tag := uint64(0xB000 + round)
		chk := &vlib.StreamChecker{Tag: tag, Dir: 0}
		var cmu sync.Mutex
		var got int64
		B.sink.Store(func(b []byte) {
			cmu.Lock()
			chk.Check(b)
			cmu.Unlock()
			atomic.AddInt64(&got, int64(len(b)))
		})
		ansCh := make(chan string, 1)
		mu.Lock()
		bySid[pb.Sid] = B
		hold[pb.Sid] = ansCh
		mu.Unlock()
		pb.reply(200, vMatchBody(B.offer, fmt.Sprintf("ws://%s/b%d/echo", relay.hostport(), round)))
		var ans string
		select {
		case ans = <-ansCh:
		case <-time.After(30 * time.Second):
			A.close("pc")
			B.close("pc")
			res.Inconcl(name + ": the proxy did not answer session B")
			continue
		}
		go B.applyAnswer(ans)
		res.Eval(1)
		if !B.waitOpen(30 * time.Second) {
			A.close("pc")
			B.close("pc")
			res.Inconcl(name + ": session B did not open")
			continue
		}
		// A leaves while B's handler is being set up
		delay := time.Duration([]int{0, 1, 2, 4, 8, 3, 0, 6}[round%8]) * time.Millisecond
		rec["a_closes_after_b_opened_ms"] = int(delay / time.Millisecond)
		go func() { time.Sleep(delay); A.close("pc") }()
		// B's stream
		sent := 0
		buf := make([]byte, 1000)
		sendErr := error(nil)
		for sent < total && sendErr == nil {
			n := len(buf)
			if total-sent < n {
				n = total - sent
			}
			vlib.FillKey(tag, 0, uint64(sent), buf[:n])
			// keep at most 64 KiB un-echoed, so that nothing piles up anywhere
			if !vlib.WaitFor(30*time.Second, func() bool { return int64(sent)-atomic.LoadInt64(&got) < 64<<10 }) {
				break
			}
			sendErr = B.dc.Send(buf[:n])
			sent += n
		}
		done := vlib.WaitFor(30*time.Second, func() bool { return atomic.LoadInt64(&got) >= int64(sent) })
		cmu.Lock()
		fail, off := chk.Fail, chk.Off
		cmu.Unlock()
		rec["bytes_sent"], rec["bytes_echoed_and_verified"] = sent, off
		res.Obs("proxy_session_bytes_verified", int64(off))
		switch {
		case fail != "":
			res.Violatef("stream:wrong-byte:proxy-session", rec, "session B's echoed stream through the proxy: %s (session A, a download of 0xa5 bytes on the same proxy, was closed %v after B's data channel opened)", fail, delay)
		case atomic.LoadInt64(&got) > int64(sent):
			res.Violatef("stream:extra-bytes:proxy-session", rec, "session B received %d bytes back for %d sent", atomic.LoadInt64(&got), sent)
		case !done || sendErr != nil || sent < total:
			res.Inconcl(fmt.Sprintf("%s: session B echoed %d of %d bytes (send error %v)", name, atomic.LoadInt64(&got), sent, sendErr))
		default:
			res.Obs("proxy_session_rounds_verified", 1)
			res.Distinct(name)
		}
		B.close("pc")
		A.close("pc")
		mu.Lock()
		delete(hold, pb.Sid)
		mu.Unlock()
		// let both handlers end before the next round (capacity 4 leaves room anyway)
		vlib.WaitFor(20*time.Second, func() bool { return vSlots() <= 1 })
	}
	res.RequireObs("proxy_session_rounds_verified", int64(rounds/2))
	res.RequireObs("proxy_session_downloads_intact_after_stall", 1)
}

// ---- the copy loop itself, with scripted carriers ----------------------------------
//
// The same question at the level of copyLoop, where thousands of session
// turnovers fit into seconds: session A's client side ends (its Read returns
// EOF) while its relay side still has a Read pending; the carriers' Close takes
// a while, as a peer connection's does, and the relay delivers a few more
// messages meanwhile. Session B starts at that moment and moves a
// self-describing stream in both directions; B's streams must arrive intact.

// c01Pipe is one direction of a scripted carrier: message-oriented like a data
// channel or a WebSocket (a Read returns at most one message).
type c01Pipe struct {
	ch     chan []byte
	closed chan struct{}
	once   sync.Once
}

func newC01Pipe() *c01Pipe { return &c01Pipe{ch: make(chan []byte, 64), closed: make(chan struct{})} }
func (p *c01Pipe) close()  { p.once.Do(func() { close(p.closed) }) }

type c01Conn struct {
	in, out    *c01Pipe // in: what Read returns; out: where Write goes
	closeDelay time.Duration
	rest       []byte
}

func (c *c01Conn) Read(b []byte) (int, error) {
	if len(c.rest) == 0 {
		select {
		case m, ok := <-c.in.ch:
			if !ok {
				return 0, fmt.Errorf("EOF")
			}
			c.rest = m
		case <-c.in.closed:
			return 0, fmt.Errorf("closed")
		}
	}
	n := copy(b, c.rest)
	c.rest = c.rest[n:]
	return n, nil
}

func (c *c01Conn) Write(b []byte) (int, error) {
	m := append([]byte{}, b...)
	select {
	case <-c.out.closed:
		return 0, fmt.Errorf("closed")
	default:
	}
	select {
	case c.out.ch <- m:
		return len(b), nil
	case <-c.out.closed:
		return 0, fmt.Errorf("closed")
	}
}

func (c *c01Conn) Close() error {
	time.Sleep(c.closeDelay) // a peer connection takes its time to close
	c.in.close()
	c.out.close()
	return nil
}

func TestVerifC01CopyLoopSessions(t *testing.T) {
	res := vlib.NewResult("C01", "inpkg-proxy-c01-copyloop", "the proxy's copyLoop with scripted message carriers: per round session A's client side ends while its relay side has a Read pending and keeps delivering 0xA5 messages during the carriers' slow Close; session B's copyLoop starts at that moment and moves 64 KiB of a self-describing stream in each direction; both of B's streams are checked byte by byte; non-trivial = round in which B's two streams were verified completely, distinct by round")
	defer res.Finish()
	rounds := vlib.Scale(600, 6000)
	shutdown := make(chan struct{})
	for round := 0; round < rounds; round++ {
		name := fmt.Sprintf("copyloop/%d", round)
		// session A
		aCliIn, aCliOut, aRelIn, aRelOut := newC01Pipe(), newC01Pipe(), newC01Pipe(), newC01Pipe()
		aCli := &c01Conn{in: aCliIn, out: aCliOut, closeDelay: time.Duration(1+round%4) * time.Millisecond}
		aRel := &c01Conn{in: aRelIn, out: aRelOut}
		aDone := make(chan struct{})
		go func() { copyLoop(aCli, aRel, shutdown); close(aDone) }()
		// a little traffic both ways so that both copiers have used their buffers
		aCliIn.ch <- []byte("hello from client A")
		aRelIn.ch <- []byte("hello from relay A")
		<-aRelOut.ch
		<-aCliOut.ch
		// A's client goes away; its relay keeps talking for a moment
		stopBurst := make(chan struct{})
		var bwg sync.WaitGroup
		bwg.Add(1)
		go func() {
			defer bwg.Done()
			chunk := make([]byte, 4096)
			for i := range chunk {
				chunk[i] = 0xA5
			}
			for {
				select {
				case aRelIn.ch <- chunk:
				case <-stopBurst:
					return
				case <-aRelIn.closed:
					return
				}
				time.Sleep(50 * time.Microsecond)
			}
		}()
		close(aCliIn.ch) // EOF on the client side
		// session B starts now
		bCliIn, bCliOut, bRelIn, bRelOut := newC01Pipe(), newC01Pipe(), newC01Pipe(), newC01Pipe()
		bCli := &c01Conn{in: bCliIn, out: bCliOut}
		bRel := &c01Conn{in: bRelIn, out: bRelOut}
		bDone := make(chan struct{})
		go func() { copyLoop(bCli, bRel, shutdown); close(bDone) }()
		const total = 64 << 10
		tag := uint64(0xC000000 + round)
		var wg sync.WaitGroup
		fails := make([]string, 2)
		lens := make([]uint64, 2)
		feed := func(dir byte, in *c01Pipe) {
			defer wg.Done()
			for off := 0; off < total; off += 1024 {
				m := make([]byte, 1024)
				vlib.FillKey(tag, dir, uint64(off), m)
				select {
				case in.ch <- m:
				case <-time.After(20 * time.Second):
					return
				}
			}
		}
		drain := func(dir byte, out *c01Pipe) {
			defer wg.Done()
			chk := &vlib.StreamChecker{Tag: tag, Dir: dir}
			for chk.Off < total {
				select {
				case m := <-out.ch:
					if !chk.Check(m) {
						fails[dir] = chk.Fail
						lens[dir] = chk.Off
						return
					}
				case <-time.After(20 * time.Second):
					lens[dir] = chk.Off
					return
				}
			}
			lens[dir] = chk.Off
		}
		wg.Add(4)
		go feed(0, bCliIn) // client B -> relay B
		go drain(0, bRelOut)
		go feed(1, bRelIn) // relay B -> client B
		go drain(1, bCliOut)
		wg.Wait()
		close(stopBurst)
		bwg.Wait()
		res.Eval(1)
		rec := map[string]interface{}{"case": name, "verified_client_to_relay": lens[0], "verified_relay_to_client": lens[1]}
		switch {
		case fails[0] != "" || fails[1] != "":
			dirName, f := "client-to-relay", fails[0]
			if f == "" {
				dirName, f = "relay-to-client", fails[1]
			}
			res.Violatef("stream:wrong-byte:proxy-copyloop:"+dirName, rec, "session B's %s stream through its own copyLoop: %s (session A, whose relay was still delivering 0xa5 messages, was ending at the time)", dirName, f)
		case lens[0] != total || lens[1] != total:
			res.Inconcl(fmt.Sprintf("%s: session B moved %d/%d and %d/%d bytes within 20 s", name, lens[0], total, lens[1], total))
		default:
			res.Obs("copyloop_rounds_verified", 1)
			res.Distinct(name)
		}
		// end B, wait for both loops
		close(bCliIn.ch)
		for _, d := range []chan struct{}{aDone, bDone} {
			select {
			case <-d:
			case <-time.After(20 * time.Second):
				res.Inconcl(name + ": a copyLoop did not return within 20 s of its carriers ending")
			}
		}
		if res.GetObs("copyloop_rounds_verified") < int64(round)-20 {
			break // something is badly wrong; the verdict is above
		}
	}
	res.RequireObs("copyloop_rounds_verified", int64(rounds/2))
}
