// Shared machinery of the C16 / C06c proxy monitors (package snowflake_proxy,
// go 1.13 language): a fake STUN responder, real pion client peers, a
// WebSocket relay, a scripted broker and goroutine-dump classification.
//
// One real SnowflakeProxy runs per test process (tokens, broker and config are
// package-level globals); shards are separate processes.
package snowflake_proxy

import (
	"bytes"
	"crypto/tls"
	"encoding/json"
	"fmt"
	"io/ioutil"
	"net"
	"net/http"
	"net/http/httptest"
	"strconv"
	"strings"
	"sync"
	"sync/atomic"
	"syscall"
	"time"

	"git.torproject.org/pluggable-transports/snowflake.git/v2/common/util"
	"github.com/gorilla/websocket"
	"github.com/pion/ice/v2"
	"github.com/pion/stun"
	"github.com/pion/webrtc/v3"
	"verif/vlib"
)

// ---- fake STUN responder ---------------------------------------------------------

type vStun struct {
	conn *net.UDPConn
	addr string
	reqs int64
}

// vStartStun answers Binding requests with XOR-MAPPED-ADDRESS = source
// address, so that the proxy's server-reflexive gathering ends at once.
func vStartStun() (*vStun, error) {
	c, err := net.ListenUDP("udp4", &net.UDPAddr{IP: net.IPv4(127, 0, 0, 1)})
	if err != nil {
		return nil, err
	}
	s := &vStun{conn: c, addr: c.LocalAddr().String()}
	go func() {
		buf := make([]byte, 2048)
		for {
			n, from, err := c.ReadFromUDP(buf)
			if err != nil {
				return
			}
			if !stun.IsMessage(buf[:n]) {
				continue
			}
			m := new(stun.Message)
			m.Raw = append([]byte{}, buf[:n]...)
			if m.Decode() != nil || m.Type != stun.BindingRequest {
				continue
			}
			resp, err := stun.Build(stun.NewTransactionIDSetter(m.TransactionID), stun.BindingSuccess,
				&stun.XORMappedAddress{IP: from.IP, Port: from.Port}, stun.Fingerprint)
			if err != nil {
				continue
			}
			atomic.AddInt64(&s.reqs, 1)
			c.WriteToUDP(resp.Raw, from)
		}
	}()
	return s, nil
}

// ---- real pion client peer ---------------------------------------------------------

var (
	vAPIOnce sync.Once
	vAPI     *webrtc.API
)

func vPeerAPI() *webrtc.API {
	vAPIOnce.Do(func() {
		s := webrtc.SettingEngine{}
		s.SetICEMulticastDNSMode(ice.MulticastDNSModeDisabled)
		vAPI = webrtc.NewAPI(webrtc.WithSettingEngine(s))
	})
	return vAPI
}

type vPeer struct {
	pc        *webrtc.PeerConnection
	dc        *webrtc.DataChannel
	offer     string // serialised session description (with candidates)
	open      chan struct{}
	closed    chan struct{} // data channel closed or peer connection gone
	connected chan struct{} // peer connection reached "connected" (ICE and DTLS up)
	inbox     chan string

	mu       sync.Mutex
	openOnce sync.Once
	clOnce   sync.Once
	connOnce sync.Once
	applied  bool
	shut     bool
	seq      int
	stall    int32        // 1: the message callback blocks (a client that stops reading)
	sink     atomic.Value // func([]byte): receives every message instead of the inbox
}

// vNewPeer creates a peer connection with one data channel and a complete
// offer (host candidates only: no ICE servers, gathering is immediate).
func vNewPeer() (*vPeer, error) { return vNewPeerOpt(false) }

// vNewPeerNegotiated: the offer's only data channel is pre-negotiated, so the
// transport (ICE, DTLS, SCTP) comes up but no channel is ever announced to the
// other side (no DCEP OPEN): a client that connects and never opens a channel.
func vNewPeerNegotiated() (*vPeer, error) { return vNewPeerOpt(true) }

func vNewPeerOpt(negotiated bool) (*vPeer, error) {
	pc, err := vPeerAPI().NewPeerConnection(webrtc.Configuration{})
	if err != nil {
		return nil, err
	}
	p := &vPeer{pc: pc, open: make(chan struct{}), closed: make(chan struct{}), connected: make(chan struct{}), inbox: make(chan string, 256)}
	ordered := true
	init := &webrtc.DataChannelInit{Ordered: &ordered}
	if negotiated {
		yes := true
		id := uint16(0)
		init.Negotiated = &yes
		init.ID = &id
	}
	dc, err := pc.CreateDataChannel("verif", init)
	if err != nil {
		pc.Close()
		return nil, err
	}
	p.dc = dc
	dc.OnOpen(func() { p.openOnce.Do(func() { close(p.open) }) })
	dc.OnClose(func() { p.clOnce.Do(func() { close(p.closed) }) })
	dc.OnMessage(func(m webrtc.DataChannelMessage) {
		for atomic.LoadInt32(&p.stall) == 1 {
			time.Sleep(20 * time.Millisecond)
		}
		if f, _ := p.sink.Load().(func([]byte)); f != nil {
			f(m.Data)
			return
		}
		select {
		case p.inbox <- string(m.Data):
		default:
		}
	})
	pc.OnConnectionStateChange(func(s webrtc.PeerConnectionState) {
		if s == webrtc.PeerConnectionStateConnected {
			p.connOnce.Do(func() { close(p.connected) })
		}
		if s == webrtc.PeerConnectionStateFailed || s == webrtc.PeerConnectionStateClosed || s == webrtc.PeerConnectionStateDisconnected {
			p.clOnce.Do(func() { close(p.closed) })
		}
	})
	offer, err := pc.CreateOffer(nil)
	if err != nil {
		pc.Close()
		return nil, err
	}
	done := webrtc.GatheringCompletePromise(pc)
	if err = pc.SetLocalDescription(offer); err != nil {
		pc.Close()
		return nil, err
	}
	select {
	case <-done:
	case <-time.After(20 * time.Second):
		pc.Close()
		return nil, fmt.Errorf("harness peer: ICE gathering did not finish")
	}
	p.offer, err = util.SerializeSessionDescription(pc.LocalDescription())
	if err != nil {
		pc.Close()
		return nil, err
	}
	return p, nil
}

func (p *vPeer) applyAnswer(ans string) error {
	sd, err := util.DeserializeSessionDescription(ans)
	if err != nil {
		return err
	}
	p.mu.Lock()
	if p.shut {
		p.mu.Unlock()
		return fmt.Errorf("peer already closed")
	}
	p.applied = true
	p.mu.Unlock()
	return p.pc.SetRemoteDescription(*sd)
}

func (p *vPeer) isOpen() bool {
	select {
	case <-p.open:
		return true
	default:
		return false
	}
}

func (p *vPeer) isClosed() bool {
	select {
	case <-p.closed:
		return true
	default:
		return false
	}
}

func (p *vPeer) waitOpen(d time.Duration) bool {
	select {
	case <-p.open:
		return true
	case <-time.After(d):
		return false
	}
}

func (p *vPeer) waitConnected(d time.Duration) bool {
	select {
	case <-p.connected:
		return true
	case <-time.After(d):
		return false
	}
}

func (p *vPeer) waitClosed(d time.Duration) bool {
	select {
	case <-p.closed:
		return true
	case <-time.After(d):
		return false
	}
}

func (p *vPeer) send(s string) error {
	if !p.isOpen() {
		return fmt.Errorf("data channel not open")
	}
	return p.dc.Send([]byte(s))
}

// echo sends a unique message and waits until the very same message comes
// back (client -> proxy -> relay -> proxy -> client).
func (p *vPeer) echo(d time.Duration) bool {
	p.mu.Lock()
	p.seq++
	msg := fmt.Sprintf("verif-echo-%d-%d", p.seq, time.Now().UnixNano())
	shut := p.shut
	p.mu.Unlock()
	if shut || p.isClosed() {
		return false
	}
	if p.send(msg) != nil {
		return false
	}
	deadline := time.After(d)
	for {
		select {
		case got := <-p.inbox:
			if got == msg {
				return true
			}
		case <-p.closed:
			return false
		case <-deadline:
			return false
		}
	}
}

// close ends the client side. how: "dc" closes the data channel first (stream
// reset), anything else closes the peer connection directly.
func (p *vPeer) close(how string) {
	p.mu.Lock()
	if p.shut {
		p.mu.Unlock()
		return
	}
	p.shut = true
	p.mu.Unlock()
	if how == "dc" && p.isOpen() {
		p.dc.Close()
		time.Sleep(30 * time.Millisecond)
	}
	p.pc.Close()
}

// ---- WebSocket relay ---------------------------------------------------------------

type vRelayConn struct {
	key    string
	ws     *websocket.Conn
	gone   chan struct{} // read loop ended (either side closed)
	once   sync.Once
	wmu    sync.Mutex
	query  string
	first  atomic.Value // string: the first message the proxy forwarded on this connection
	closed int32
	sent   int64 // bytes written downstream in stream mode
}

func (c *vRelayConn) shutdown() {
	atomic.StoreInt32(&c.closed, 1)
	c.ws.Close()
}

func (c *vRelayConn) isGone() bool {
	select {
	case <-c.gone:
		return true
	default:
		return false
	}
}

// vRelay is an HTTP server whose every path upgrades to WebSocket. The path
// is "/<key>/<mode>": key attributes the connection to a harness session,
// mode is echo | close-now | close-after-first | stream | burst.
type vRelay struct {
	ln      net.Listener
	host    string
	port    int
	tcp     int64 // TCP connections accepted
	mu      sync.Mutex
	byKey   map[string][]*vRelayConn
	paths   []string
	notify  chan string
	upgrade websocket.Upgrader
}

func vListen(host string, port int) (net.Listener, error) {
	return net.Listen("tcp", net.JoinHostPort(host, strconv.Itoa(port)))
}

func vStartRelay(host string, port int) (*vRelay, error) {
	ln, err := vListen(host, port)
	if err != nil {
		return nil, err
	}
	r := &vRelay{ln: ln, host: host, port: ln.Addr().(*net.TCPAddr).Port, byKey: map[string][]*vRelayConn{}, notify: make(chan string, 1024)}
	r.upgrade = websocket.Upgrader{CheckOrigin: func(*http.Request) bool { return true }}
	srv := &http.Server{
		Handler: http.HandlerFunc(r.serve),
		ConnState: func(c net.Conn, st http.ConnState) {
			if st == http.StateNew {
				atomic.AddInt64(&r.tcp, 1)
			}
		},
		ErrorLog: nil,
	}
	go srv.Serve(ln)
	return r, nil
}

// vStartRelayTLS is the same relay behind TLS (httptest's self-signed
// certificate), for proxies that accept only wss relay URLs. The harness makes
// the proxy's dialer accept that certificate with vTrustTestRelayCert.
func vStartRelayTLS(host string, port int) (*vRelay, error) {
	ln, err := vListen(host, port)
	if err != nil {
		return nil, err
	}
	r := &vRelay{ln: ln, host: host, port: ln.Addr().(*net.TCPAddr).Port, byKey: map[string][]*vRelayConn{}, notify: make(chan string, 1024)}
	r.upgrade = websocket.Upgrader{CheckOrigin: func(*http.Request) bool { return true }}
	srv := httptest.NewUnstartedServer(http.HandlerFunc(r.serve))
	srv.Listener.Close()
	srv.Listener = ln
	srv.Config.ConnState = func(c net.Conn, st http.ConnState) {
		if st == http.StateNew {
			atomic.AddInt64(&r.tcp, 1)
		}
	}
	srv.StartTLS()
	return r, nil
}

// vTrustTestRelayCert: websocket.DefaultDialer.TLSClientConfig is the
// library's own seam; only certificate verification of the harness's relay is
// switched off, the proxy's URL checks and dial path are untouched.
func vTrustTestRelayCert() {
	websocket.DefaultDialer.TLSClientConfig = &tls.Config{InsecureSkipVerify: true}
}

func (r *vRelay) tcpAccepts() int64 { return atomic.LoadInt64(&r.tcp) }

func (r *vRelay) hostport() string { return net.JoinHostPort(r.host, strconv.Itoa(r.port)) }

func (r *vRelay) serve(w http.ResponseWriter, req *http.Request) {
	parts := strings.Split(strings.Trim(req.URL.Path, "/"), "/")
	key, mode := "", "echo"
	if len(parts) >= 1 {
		key = parts[0]
	}
	if len(parts) >= 2 {
		mode = parts[1]
	}
	r.mu.Lock()
	if len(r.paths) < 64 {
		r.paths = append(r.paths, req.URL.RequestURI())
	}
	r.mu.Unlock()
	ws, err := r.upgrade.Upgrade(w, req, nil)
	if err != nil {
		return
	}
	c := &vRelayConn{key: key, ws: ws, gone: make(chan struct{}), query: req.URL.RawQuery}
	r.mu.Lock()
	r.byKey[key] = append(r.byKey[key], c)
	r.mu.Unlock()
	select {
	case r.notify <- key:
	default:
	}
	defer c.once.Do(func() { close(c.gone) })
	defer ws.Close()
	if mode == "close-now" {
		return
	}
	for {
		mt, data, err := ws.ReadMessage()
		if err != nil {
			return
		}
		if c.first.Load() == nil {
			c.first.Store(string(data))
		}
		if mode == "close-after-first" {
			return
		}
		if mode == "burst" {
			// after the client's first message: 4 MiB in 16 KiB messages, then silence
			// (the relay stays connected and goes on reading)
			go func() {
				chunk := bytes.Repeat([]byte{0xA5}, 16<<10)
				for i := 0; i < 256; i++ {
					c.wmu.Lock()
					err := ws.WriteMessage(websocket.BinaryMessage, chunk)
					c.wmu.Unlock()
					if err != nil {
						return
					}
					atomic.AddInt64(&c.sent, int64(len(chunk)))
				}
			}()
			mode = "sink"
			continue
		}
		if mode == "sink" {
			continue
		}
		if mode == "pstream" {
			// after the client's first message ("start:<tag in hex>"): a never-ending
			// download whose every byte is determined by its offset (vlib.KeyByte)
			var tag uint64
			fmt.Sscanf(strings.TrimPrefix(string(data), "start:"), "%x", &tag)
			chunk := make([]byte, 1200)
			var off uint64
			for {
				vlib.FillKey(tag, 1, off, chunk)
				c.wmu.Lock()
				err = ws.WriteMessage(websocket.BinaryMessage, chunk)
				c.wmu.Unlock()
				if err != nil {
					return
				}
				off += uint64(len(chunk))
				atomic.AddInt64(&c.sent, int64(len(chunk)))
			}
		}
		if mode == "stream" {
			// after the client's first message: a never-ending download
			chunk := bytes.Repeat([]byte{0xA5}, 1200)
			for {
				c.wmu.Lock()
				err = ws.WriteMessage(websocket.BinaryMessage, chunk)
				c.wmu.Unlock()
				if err != nil {
					return
				}
				atomic.AddInt64(&c.sent, int64(len(chunk)))
			}
		}
		c.wmu.Lock()
		err = ws.WriteMessage(mt, data)
		c.wmu.Unlock()
		if err != nil {
			return
		}
	}
}

func (r *vRelay) conns(key string) []*vRelayConn {
	r.mu.Lock()
	defer r.mu.Unlock()
	return append([]*vRelayConn{}, r.byKey[key]...)
}

// waitConnFirst: the connection (under any key) whose first message is token.
func (r *vRelay) waitConnFirst(token string, d time.Duration) *vRelayConn {
	deadline := time.Now().Add(d)
	for {
		r.mu.Lock()
		for _, cs := range r.byKey {
			for _, c := range cs {
				if f, _ := c.first.Load().(string); f == token {
					r.mu.Unlock()
					return c
				}
			}
		}
		r.mu.Unlock()
		if time.Now().After(deadline) {
			return nil
		}
		time.Sleep(10 * time.Millisecond)
	}
}

func (r *vRelay) waitConn(key string, d time.Duration) *vRelayConn {
	deadline := time.Now().Add(d)
	for {
		if cs := r.conns(key); len(cs) > 0 {
			return cs[0]
		}
		if time.Now().After(deadline) {
			return nil
		}
		time.Sleep(10 * time.Millisecond)
	}
}

// vRefusingPort returns a 127.0.0.1 port that refuses connections and cannot
// be taken by any other process meanwhile: a socket bound to it but never
// listening, kept open for the life of the test process. (A port obtained by
// listen+close could be re-used by a parallel harness process's listener.)
func vRefusingPort() int {
	fd, err := syscall.Socket(syscall.AF_INET, syscall.SOCK_STREAM, 0)
	if err != nil {
		return 1
	}
	if err = syscall.Bind(fd, &syscall.SockaddrInet4{Port: 0, Addr: [4]byte{127, 0, 0, 1}}); err != nil {
		syscall.Close(fd)
		return 1
	}
	sa, err := syscall.Getsockname(fd)
	if err != nil {
		syscall.Close(fd)
		return 1
	}
	if in4, ok := sa.(*syscall.SockaddrInet4); ok {
		return in4.Port
	}
	return 1
}

// ---- the proxy's relay dials, seen in-process ------------------------------------------

// vDialLog records the addresses the proxy's WebSocket dialer connects to
// (websocket.DefaultDialer.NetDial is the library's own seam; the dial itself
// is unchanged). Used to tell the proxy's connections at a listener from stray
// ones made by unrelated processes on the same host.
type vDialLog struct {
	mu    sync.Mutex
	addrs map[string]int
}

var vDials = &vDialLog{addrs: map[string]int{}}

// vNormAddr: "ip:port" with IPv4-mapped IPv6 literals reduced to IPv4, the
// socket they really connect to.
func vNormAddr(addr string) string {
	host, port, err := net.SplitHostPort(addr)
	if err != nil {
		return addr
	}
	if ip := net.ParseIP(host); ip != nil {
		if v4 := ip.To4(); v4 != nil {
			host = v4.String()
		} else {
			host = ip.String()
		}
	}
	return net.JoinHostPort(host, port)
}

func vInstallDialLog() {
	websocket.DefaultDialer.NetDial = func(network, addr string) (net.Conn, error) {
		vDials.mu.Lock()
		vDials.addrs[vNormAddr(addr)]++
		vDials.mu.Unlock()
		return net.Dial(network, addr)
	}
}

func (l *vDialLog) count(addr string) int {
	l.mu.Lock()
	defer l.mu.Unlock()
	return l.addrs[vNormAddr(addr)]
}

func (l *vDialLog) all() map[string]int {
	l.mu.Lock()
	defer l.mu.Unlock()
	out := map[string]int{}
	for k, v := range l.addrs {
		out[k] = v
	}
	return out
}

// ---- scripted broker ---------------------------------------------------------------

type vReply struct {
	code int
	body []byte
}

// vPoll is one /proxy request, held until the driver replies.
type vPoll struct {
	Sid     string
	Type    string
	NAT     string
	Clients int
	Pattern *string
	Raw     string
	At      time.Time
	Seq     int
	resp    chan vReply
	done    int32
}

// The proxy's slot counter as it stood when the previous poll was answered.
// Slots are taken only by the proxy's main loop, one before each round of
// polling, and a round that is told "no match" polls again without taking
// another; handlers only give slots back. So the load figure of the next poll
// was computed from a counter of at most this value, plus one unless the
// previous answer was "no match".
var (
	vCounterAtReply   int64 = -1
	vReplyKeepsRound  int32
	vReplySeq         int64
	vReplyBookkeeping sync.Mutex
)

func (p *vPoll) reply(code int, body []byte) { p.replyKind(code, body, false) }

func (p *vPoll) replyKind(code int, body []byte, keepsRound bool) {
	if atomic.CompareAndSwapInt32(&p.done, 0, 1) {
		vReplyBookkeeping.Lock()
		atomic.StoreInt64(&vCounterAtReply, vClientCounter())
		if keepsRound {
			atomic.StoreInt32(&vReplyKeepsRound, 1)
		} else {
			atomic.StoreInt32(&vReplyKeepsRound, 0)
		}
		atomic.AddInt64(&vReplySeq, 1)
		vReplyBookkeeping.Unlock()
		p.resp <- vReply{code, body}
	}
}

func (p *vPoll) replyNoMatch() { p.replyKind(200, []byte(`{"Status":"no match"}`), true) }

func vMatchBody(offer, relayURL string) []byte {
	b, _ := json.Marshal(map[string]string{"Status": "client match", "Offer": offer, "NAT": "unknown", "RelayURL": relayURL})
	return b
}

type vAnswer struct {
	Sid    string
	Answer string
	At     time.Time
}

type vBroker struct {
	srv      *httptest.Server
	polls    chan *vPoll
	inFlight int32
	nPolls   int64
	nAnswers int64
	probes   int64
	expired  int64 // polls the driver did not answer in time (harness trouble)

	mu       sync.Mutex
	onAnswer func(a vAnswer) vReply // decides the /answer response
}

func vStartBroker() *vBroker {
	b := &vBroker{polls: make(chan *vPoll, 16)}
	mux := http.NewServeMux()
	mux.HandleFunc("/proxy", b.handlePoll)
	mux.HandleFunc("/answer", b.handleAnswer)
	mux.HandleFunc("/probe", func(w http.ResponseWriter, r *http.Request) {
		ioutil.ReadAll(r.Body)
		atomic.AddInt64(&b.probes, 1)
		http.Error(w, "no probe here", http.StatusInternalServerError)
	})
	b.srv = httptest.NewServer(mux)
	return b
}

func (b *vBroker) url() string { return b.srv.URL + "/" }

func (b *vBroker) handlePoll(w http.ResponseWriter, r *http.Request) {
	body, _ := ioutil.ReadAll(r.Body)
	var m struct {
		Sid                  string
		Version              string
		Type                 string
		NAT                  string
		Clients              int
		AcceptedRelayPattern *string
	}
	json.Unmarshal(body, &m)
	p := &vPoll{Sid: m.Sid, Type: m.Type, NAT: m.NAT, Clients: m.Clients, Pattern: m.AcceptedRelayPattern, Raw: string(body), At: time.Now(), resp: make(chan vReply, 1)}
	p.Seq = int(atomic.AddInt64(&b.nPolls, 1))
	atomic.AddInt32(&b.inFlight, 1)
	defer atomic.AddInt32(&b.inFlight, -1)
	b.polls <- p
	var rep vReply
	select {
	case rep = <-p.resp:
	case <-time.After(27 * time.Second): // the proxy's header timeout is 30 s
		if atomic.CompareAndSwapInt32(&p.done, 0, 1) {
			atomic.AddInt64(&b.expired, 1)
			vReplyBookkeeping.Lock()
			atomic.StoreInt64(&vCounterAtReply, vClientCounter())
			atomic.StoreInt32(&vReplyKeepsRound, 1)
			atomic.AddInt64(&vReplySeq, 1)
			vReplyBookkeeping.Unlock()
			rep = vReply{200, []byte(`{"Status":"no match"}`)}
		} else {
			rep = <-p.resp
		}
	}
	w.WriteHeader(rep.code)
	w.Write(rep.body)
}

func (b *vBroker) handleAnswer(w http.ResponseWriter, r *http.Request) {
	body, _ := ioutil.ReadAll(r.Body)
	var m struct {
		Version string
		Sid     string
		Answer  string
	}
	json.Unmarshal(body, &m)
	atomic.AddInt64(&b.nAnswers, 1)
	b.mu.Lock()
	f := b.onAnswer
	b.mu.Unlock()
	rep := vReply{200, []byte(`{"Status":"client gone"}`)}
	if f != nil {
		rep = f(vAnswer{Sid: m.Sid, Answer: m.Answer, At: time.Now()})
	}
	w.WriteHeader(rep.code)
	w.Write(rep.body)
}

// nextPoll waits for the next /proxy request.
func (b *vBroker) nextPoll(d time.Duration) *vPoll {
	select {
	case p := <-b.polls:
		return p
	case <-time.After(d):
		return nil
	}
}

// ---- the proxy under test ----------------------------------------------------------

type vProxyRun struct {
	sf   *SnowflakeProxy
	done chan error
}

func vStartProxy(capacity uint, brokerURL, stunAddr, defaultRelay, pattern string, allowNonTLS bool) *vProxyRun {
	sf := &SnowflakeProxy{
		Capacity:               capacity,
		STUNURL:                "stun:" + stunAddr,
		BrokerURL:              brokerURL,
		KeepLocalAddresses:     true,
		RelayURL:               defaultRelay,
		RelayDomainNamePattern: pattern,
		AllowNonTLSRelay:       allowNonTLS,
		NATProbeURL:            brokerURL + "probe", // answers 500: the probe ends at once, NAT stays "unknown"
		ProxyType:              "standalone",
	}
	run := &vProxyRun{sf: sf, done: make(chan error, 1)}
	go func() { run.done <- sf.Start() }()
	return run
}

// ---- slot state, read without tokens.count() (D17) -----------------------------------

func vSlots() int { return len(tokens.ch) }

func vClientCounter() int64 { return atomic.LoadInt64(&tokens.clients) }

// vCompensate repairs the slot state after a violation was recorded so that
// the rest of the script still means something: delta > 0 puts slots back
// that were released once too often, delta < 0 frees leaked ones.
func vCompensate(delta int) {
	for ; delta > 0; delta-- {
		atomic.AddInt64(&tokens.clients, 1)
		select {
		case tokens.ch <- struct{}{}:
		default:
		}
	}
	for ; delta < 0; delta++ {
		atomic.AddInt64(&tokens.clients, -1)
		select {
		case <-tokens.ch:
		default:
		}
	}
}

// ---- goroutine classification ----------------------------------------------------------

type vDump struct {
	Handlers      int    `json:"handlers_running"`        // datachannelHandler goroutines that have not reached their release
	HandlersInRet int    `json:"handlers_parked_in_ret"`  // parked in tokens.ret's channel receive
	MainWhere     string `json:"main_loop"`               // runSession | get-blocked | ret-blocked | idle | gone
	MainInRet     bool   `json:"main_loop_parked_in_ret"` // runSession parked in tokens.ret
	ParkedRet     int    `json:"goroutines_parked_in_ret"`
	Excerpt       string `json:"excerpt,omitempty"`
}

const (
	vfHandler   = "(*SnowflakeProxy).datachannelHandler"
	vfHandlerGo = "makePeerConnectionFromOffer.func1.gowrap"
	vfRun       = "(*SnowflakeProxy).runSession"
	vfStart     = "(*SnowflakeProxy).Start"
	vfRet       = "(*tokens_t).ret"
	vfGet       = "(*tokens_t).get"
)

func vAnalyze() vDump {
	var d vDump
	d.MainWhere = "gone"
	for _, g := range vlib.ParseDump(vlib.DumpAll()) {
		g := g
		inRet := g.FirstFrameWith(vfRet) != "" && strings.HasPrefix(g.State, "chan receive")
		inGet := g.FirstFrameWith(vfGet) != "" && strings.HasPrefix(g.State, "chan send")
		// the second form is the go-statement wrapper of a handler that was
		// started but has not run yet
		isHandler := g.FirstFrameWith(vfHandler) != "" || g.FirstFrameWith(vfHandlerGo) != ""
		isMain := g.FirstFrameWith(vfStart) != ""
		if inRet {
			d.ParkedRet++
			if len(d.Excerpt) < 4000 {
				d.Excerpt += g.Raw + "\n"
			}
		}
		if isHandler {
			if inRet {
				d.HandlersInRet++
			} else {
				d.Handlers++
			}
		}
		if isMain {
			switch {
			case inRet:
				d.MainWhere = "ret-blocked"
				d.MainInRet = true
			case inGet:
				d.MainWhere = "get-blocked"
				if len(d.Excerpt) < 4000 {
					d.Excerpt += g.Raw + "\n"
				}
			case g.FirstFrameWith(vfRun) != "":
				d.MainWhere = "runSession"
			default:
				d.MainWhere = "idle"
			}
		}
	}
	return d
}
