// C20 workload (proxy): sessions that end while the relay is still sending
// downstream - a client that closes its data channel, or its whole peer
// connection, in the middle of a download. The proxy's close callbacks then run
// while its copy loop is writing to the data channel wrapper. Real
// SnowflakeProxy, scripted broker, real pion client peers, a WebSocket relay in
// "stream" mode. The race detector is the oracle; this function drives and
// counts.
package snowflake_proxy

import (
	"fmt"
	"sync"
	"sync/atomic"
	"testing"
	"time"

	"verif/vlib"
)

func TestVerifC20ProxyCloseUnderTraffic(t *testing.T) {
	res := vlib.NewResult("C20", "inpkg-proxy-c20-close-under-traffic", "one real SnowflakeProxy (capacity 4); per session a real pion client opens its data channel, asks the relay for a never-ending download, receives some of it and then closes its data channel or its peer connection while the download is running; distinct = session that received downstream data before it closed")
	defer res.Finish()
	st, err := vStartStun()
	if err != nil {
		res.Inconcl("fake STUN responder: " + err.Error())
		return
	}
	relay, err := vStartRelay("127.0.0.1", 0)
	if err != nil {
		res.Inconcl("relay listener: " + err.Error())
		return
	}
	br := vStartBroker()
	var mu sync.Mutex
	bySid := map[string]*vPeer{}
	br.mu.Lock()
	br.onAnswer = func(a vAnswer) vReply {
		mu.Lock()
		p := bySid[a.Sid]
		mu.Unlock()
		if p == nil {
			return vReply{200, []byte(`{"Status":"client gone"}`)}
		}
		go p.applyAnswer(a.Answer)
		return vReply{200, []byte(`{"Status":"success"}`)}
	}
	br.mu.Unlock()
	run := vStartProxy(4, br.url(), st.addr, fmt.Sprintf("ws://%s/default/echo", relay.hostport()), "^127.0.0.1$", true)
	n := vlib.Scale(8, 48)
	var wg sync.WaitGroup
	var streamed, closedDC, closedPC int64
	for i := 0; i < n; i++ {
		p := br.nextPoll(40 * time.Second)
		if p == nil {
			res.Inconcl(fmt.Sprintf("session %d: the proxy did not poll within 40 s", i))
			break
		}
		peer, err := vNewPeer()
		if err != nil {
			p.replyNoMatch()
			res.Inconcl("harness peer: " + err.Error())
			continue
		}
		mu.Lock()
		bySid[p.Sid] = peer
		mu.Unlock()
		p.reply(200, vMatchBody(peer.offer, fmt.Sprintf("ws://%s/s%d/stream", relay.hostport(), i)))
		res.Eval(1)
		wg.Add(1)
		go func(i int, peer *vPeer) {
			defer wg.Done()
			if !peer.waitOpen(30 * time.Second) {
				peer.close("pc")
				res.Obs("sessions_whose_channel_did_not_open", 1)
				return
			}
			peer.send("start")
			got := 0
			deadline := time.After(15 * time.Second)
		recv:
			for got < 200+50*(i%5) {
				select {
				case <-peer.inbox:
					got++
				case <-deadline:
					break recv
				}
			}
			how := "dc"
			if i%3 == 2 {
				how = "pc"
			}
			peer.close(how)
			if got > 0 {
				atomic.AddInt64(&streamed, 1)
				res.Distinct(fmt.Sprintf("session/%d", i))
				if how == "dc" {
					atomic.AddInt64(&closedDC, 1)
				} else {
					atomic.AddInt64(&closedPC, 1)
				}
			}
		}(i, peer)
	}
	wg.Wait()
	time.Sleep(2 * time.Second) // let the proxy's handlers finish
	run.sf.Stop()
	deadline := time.Now().Add(10 * time.Second)
	for time.Now().Before(deadline) {
		if q := br.nextPoll(200 * time.Millisecond); q != nil {
			q.replyNoMatch()
		}
	}
	res.Obs("sessions_closed_while_downloading", atomic.LoadInt64(&streamed))
	res.Obs("sessions_closed_by_data_channel_close", atomic.LoadInt64(&closedDC))
	res.Obs("sessions_closed_by_peer_connection_close", atomic.LoadInt64(&closedPC))
	res.Sample(1, map[string]interface{}{"case": "c20-proxy-close-under-traffic", "sessions": n, "closed_while_downloading": atomic.LoadInt64(&streamed)})
	res.RequireObs("sessions_closed_while_downloading", int64(n/2))
}
