// C16 - the slot accounting itself under simultaneous use: sessions of a proxy
// end at the same instant (a relay outage ends them all together) while the
// poll loop takes its next slot. After every round no session is left: the
// counter must read 0, no slot may be held, and all N slots must be takeable
// again. Uses the proxy's own newTokens/get/ret/count; each goroutine pairs
// one get with one ret, as runSession and datachannelHandler do.
package snowflake_proxy

import (
	"fmt"
	"sync"
	"testing"
	"time"

	"verif/vlib"
)

func TestVerifC16TokensContention(t *testing.T) {
	res := vlib.NewResult("C16", "inpkg-proxy-c16-tokens", "the proxy's slot accounting (newTokens/get/ret/count) with capacities 0 (unlimited), 1, 2, 8, 64: per round k sessions hold a slot each and release on one start signal while a poll-loop goroutine takes and returns a slot repeatedly; afterwards the counter must be 0, no slot held, and capacity slots takeable without blocking; non-trivial = round with >= 8 simultaneous releases, distinct by (capacity, round)")
	defer res.Finish()
	rounds := vlib.Scale(400, 4000)
	for _, capacity := range []uint{0, 1, 2, 8, 64} {
		bad := false
		for round := 0; round < rounds && !bad; round++ {
			tk := newTokens(capacity)
			k := int(capacity)
			if capacity == 0 {
				k = 64
			}
			hold := k
			if capacity != 0 && hold > 1 {
				hold = k - 1 // one slot stays free for the poll loop
			}
			if capacity == 1 {
				hold = 1
			}
			for i := 0; i < hold; i++ {
				tk.get()
			}
			start := make(chan struct{})
			var wg sync.WaitGroup
			for i := 0; i < hold; i++ {
				wg.Add(1)
				go func() {
					defer wg.Done()
					<-start
					tk.ret()
				}()
			}
			// the poll loop: takes a slot for a round that finds no client, gives it back
			stop := make(chan struct{})
			var pwg sync.WaitGroup
			if capacity != 1 {
				pwg.Add(1)
				go func() {
					defer pwg.Done()
					<-start
					for {
						select {
						case <-stop:
							return
						default:
						}
						tk.get()
						tk.ret()
					}
				}()
			}
			close(start)
			done := make(chan struct{})
			go func() { wg.Wait(); close(done) }()
			select {
			case <-done:
			case <-time.After(20 * time.Second):
				res.Violatef("c16:double-release:release-blocks", map[string]interface{}{"case": fmt.Sprintf("tokens/cap%d/%d", capacity, round)}, "capacity %d: %d sessions released their slots at once and at least one release never returned", capacity, hold)
				bad = true
				close(stop)
				continue
			}
			close(stop)
			pwg.Wait()
			res.Eval(1)
			res.Obs("token_rounds", 1)
			rec := map[string]interface{}{"case": fmt.Sprintf("tokens/cap%d/%d", capacity, round), "simultaneous_releases": hold}
			if c := tk.count(); c != 0 {
				res.Violatef("c16:slot-leak:counter-after-simultaneous-releases", rec, "capacity %d: all %d sessions have ended, yet the client counter reads %d", capacity, hold, c)
				bad = true
			}
			if capacity != 0 {
				if held := len(tk.ch); held != 0 {
					res.Violatef("c16:slot-leak:slots-held-after-simultaneous-releases", rec, "capacity %d: all %d sessions have ended, yet %d slots are still held", capacity, hold, held)
					bad = true
				}
			}
			if hold >= 8 {
				res.Distinct(fmt.Sprintf("cap%d/%d", capacity, round))
			}
		}
	}
	res.RequireObs("token_rounds", int64(rounds)*4)
}
