// C16 — the proxy honours its capacity and never leaks a session slot.
//
// One real SnowflakeProxy per process is driven by a scripted broker, real pion
// client peers and a WebSocket relay through a PRNG script of session outcomes
// (DESIGN.md appendix A7). Every /proxy request is held by the harness: that is
// a quiescent point (the proxy's main loop sits in its POST holding exactly one
// slot, all other slots belong to data channel handlers). There the monitor
// compares len(tokens.ch) with 1 + the sessions proved to be in progress by an
// end-to-end echo before AND after the read, and classifies surplus slots with
// a goroutine dump (a slot nobody is left to release is a leak; a session
// still being torn down is not). tokens.count() is never called (D17).
package snowflake_proxy

import (
	"fmt"
	"os"
	"sort"
	"strings"
	"sync"
	"sync/atomic"
	"testing"
	"time"

	"git.torproject.org/pluggable-transports/snowflake.git/v2/common/verifhook"
	"verif/vlib"
)

const (
	v16HookTimeout = "proxy.session.datachannel-timeout"
	v16HookOnDC    = "proxy.session.ondatachannel"
)

type v16Step struct {
	Idx     int    `json:"i"`
	Kind    string `json:"kind"`
	Variant string `json:"variant,omitempty"`
	Hold    int    `json:"hold_steps,omitempty"` // normal: number of later steps the session stays open
	Close   string `json:"close,omitempty"`      // normal: client-pc | client-dc | relay
	DefURL  bool   `json:"default_relay_url,omitempty"`
}

type v16Sess struct {
	idx       int
	kind      string
	variant   string
	step      *v16Step
	peer      *vPeer
	key       string
	sid       string
	relayURL  string
	closeAt   int
	rc        *vRelayConn
	defBefore int    // connections the default relay path had seen before this session
	downAddr  string // relay-down: the refusing address handed out

	mu        sync.Mutex
	answer    string
	answered  chan struct{}
	ansOnce   sync.Once
	unexpAns  bool
	uncertain bool
}

type v16 struct {
	res    *vlib.Result
	cap    int
	shard  int
	br     *vBroker
	relay  *vRelay
	run    *vProxyRun
	rng    *vlib.Rand
	t0     time.Time
	noFix  bool   // do not repair the slot state after a violation (experiments)
	nonTLS bool   // the proxy's AllowNonTLSRelay
	scheme string // scheme of the relay URLs the proxy is meant to accept: ws, or wss when nonTLS is false

	mu      sync.Mutex
	bySid   map[string]*v16Sess
	open    []*v16Sess // established, believed in progress
	pending int        // sessions ended by the harness whose handler may still be running
	recent  []string   // exits since the last clean quiescent point
	prevS   int
	events  []string
	script  []*v16Step
	nextIdx int
	dead    bool // the script cannot go on (inconclusive)

	// steering of the timeout-vs-late-open window
	steerMu    sync.Mutex
	steerSid   string
	steerHit   chan struct{} // timeout branch reached (hook)
	steerGo    chan struct{} // release the timeout branch
	onDCHit    chan struct{}
	steeredWin bool // window hit, verdict still to be read at the next quiescent point
}

func (h *v16) logf(format string, a ...interface{}) {
	s := fmt.Sprintf("%6.2fs ", time.Since(h.t0).Seconds()) + fmt.Sprintf(format, a...)
	h.mu.Lock()
	if len(h.events) < 400 {
		h.events = append(h.events, s)
	}
	h.mu.Unlock()
	fmt.Println("C16:", s)
}

func (h *v16) replay(caseID string, extra map[string]interface{}) map[string]interface{} {
	h.mu.Lock()
	ev := append([]string{}, h.events...)
	h.mu.Unlock()
	if len(ev) > 120 {
		ev = ev[len(ev)-120:]
	}
	rec := map[string]interface{}{"case": caseID, "capacity": h.cap, "shard": h.shard, "script": h.script, "events": ev}
	for k, v := range extra {
		rec[k] = v
	}
	return rec
}

func (h *v16) caseID() string { return fmt.Sprintf("shard%d/cap%d/step%d", h.shard, h.cap, h.nextIdx) }

func (h *v16) addRecent(kind string) {
	h.mu.Lock()
	h.recent = append(h.recent, kind)
	h.mu.Unlock()
}

func (h *v16) recentSig() string {
	h.mu.Lock()
	defer h.mu.Unlock()
	if h.steeredWin {
		return "timeout-vs-late-datachannel"
	}
	if len(h.recent) == 0 {
		return "after-nothing"
	}
	set := map[string]bool{}
	var ks []string
	for _, k := range h.recent {
		if !set[k] {
			set[k] = true
			ks = append(ks, k)
		}
	}
	sort.Strings(ks)
	return "after-" + strings.Join(ks, "+")
}

// lowSig names the observation "fewer slots in use than sessions in progress":
// the steered window and a goroutine parked in tokens.ret are definite double
// releases; otherwise only the deficit itself is known.
func (h *v16) lowSig(parked bool) string {
	h.mu.Lock()
	steered := h.steeredWin
	h.mu.Unlock()
	if steered || parked {
		return "c16:double-release:" + h.recentSig()
	}
	return "c16:slots-below-sessions:" + h.recentSig()
}

func (h *v16) clearRecent() {
	h.mu.Lock()
	h.recent = nil
	h.steeredWin = false
	h.mu.Unlock()
}

// ---- /answer behaviour --------------------------------------------------------------

func (h *v16) onAnswer(a vAnswer) vReply {
	h.mu.Lock()
	s := h.bySid[a.Sid]
	h.mu.Unlock()
	gone := vReply{200, []byte(`{"Status":"client gone"}`)}
	if s == nil {
		h.res.Obs("answers_for_unknown_sid", 1)
		return gone
	}
	s.mu.Lock()
	s.answer = a.Answer
	s.mu.Unlock()
	defer s.ansOnce.Do(func() { close(s.answered) })
	switch s.kind {
	case "normal", "relay-down", "relay-closes", "never-open", "connected-no-channel", "late-open", "probe":
		return vReply{200, []byte(`{"Status":"success"}`)}
	case "answer-refused":
		switch s.variant {
		case "error-after-client-connected":
			// the broker has handed the answer to the client, which connects at once; only
			// then does the proxy's POST fail (the reply is lost or late): the session is
			// already being served when the proxy learns that sending the answer "failed"
			s.peer.applyAnswer(a.Answer)
			if s.peer.waitOpen(10*time.Second) && s.peer.send("hello") == nil {
				if h.relay.waitConn(s.key, 5*time.Second) != nil {
					h.res.Obs("answers_failed_after_the_client_was_already_served", 1)
				}
			}
			return vReply{500, []byte("no")}
		case "http-500":
			return vReply{500, []byte("no")}
		case "malformed":
			return vReply{200, []byte(`{"Status":`)}
		case "empty-status":
			return vReply{200, []byte(`{"Status":""}`)}
		}
		return gone
	}
	s.mu.Lock()
	s.unexpAns = true
	s.mu.Unlock()
	return gone
}

func (s *v16Sess) waitAnswered(d time.Duration) bool {
	select {
	case <-s.answered:
		return true
	case <-time.After(d):
		return false
	}
}

// ---- echo: which sessions are provably in progress right now ---------------------------

func (h *v16) echoAll() map[*v16Sess]bool {
	h.mu.Lock()
	ss := append([]*v16Sess{}, h.open...)
	h.mu.Unlock()
	out := map[*v16Sess]bool{}
	var mu sync.Mutex
	var wg sync.WaitGroup
	for _, s := range ss {
		s := s
		wg.Add(1)
		go func() {
			defer wg.Done()
			ok := s.peer.echo(4 * time.Second)
			mu.Lock()
			out[s] = ok
			mu.Unlock()
		}()
	}
	wg.Wait()
	return out
}

// ---- the quiescent-point monitor ----------------------------------------------------------

// checkpoint runs while the poll p is held. Returns false if the state could
// not be judged.
func (h *v16) checkpoint(p *vPoll, where string) {
	res := h.res
	N := h.cap
	res.Obs("quiescent_points", 1)
	// reported load against the slot counter at the previous reply (see vCounterAtReply)
	if c := atomic.LoadInt64(&vCounterAtReply); c >= 0 && p.Seq > 0 {
		tight := c
		if atomic.LoadInt32(&vReplyKeepsRound) == 0 {
			tight++
		}
		res.Obs("polls_checked_against_counter_at_previous_reply", 1)
		if int64(p.Clients) > tight {
			res.Violatef("c16:poll-clients-exceeds-slots-in-use:stale-figure", h.replay(h.caseID(), map[string]interface{}{"poll": p.Raw, "slot_counter_at_previous_reply": c, "previous_reply_was_no_match": atomic.LoadInt32(&vReplyKeepsRound) == 1}),
				"capacity %d: poll reports Clients=%d, but when the previous poll was answered the slot counter stood at %d and at most %d slots can have been in use since", N, p.Clients, c, tight)
		}
		if int64(p.Clients) < c/8*8 {
			res.Obs("polls_reporting_a_lower_load_than_at_previous_reply", 1)
		}
	}
	res.Obs(fmt.Sprintf("poll_clients_%d", p.Clients), 1)
	if p.Clients%8 != 0 || p.Clients < 0 {
		res.Violatef("c16:poll-clients-not-multiple-of-8", h.replay(h.caseID(), map[string]interface{}{"poll": p.Raw}),
			"poll reports Clients=%d, not a non-negative multiple of 8 (capacity %d)", p.Clients, N)
	}
	if p.Pattern == nil {
		res.Obs("polls_without_pattern", 1)
	}

	// sessions alive before and after the read of the slot count are in
	// progress at the moment of the read
	before := h.echoAll()
	pendingAtStart := h.pendingCount()
	var S, k int
	var after map[*v16Sess]bool
	deadline := time.Now().Add(8 * time.Second)
	for {
		S = vSlots()
		after = h.echoAllCached(before)
		k = 0
		for s, ok := range before {
			if ok && after[s] {
				k++
			}
		}
		if S <= 1+k || pendingAtStart == 0 || time.Now().After(deadline) {
			break
		}
		time.Sleep(40 * time.Millisecond)
		before = after
	}
	counter := vClientCounter()
	// sessions that stopped echoing are no longer counted as in progress
	uncertain := 0
	h.mu.Lock()
	var still []*v16Sess
	for _, s := range h.open {
		if before[s] && after[s] {
			still = append(still, s)
		} else {
			uncertain++
			s.uncertain = true
			h.pending++
		}
	}
	h.open = still
	h.mu.Unlock()
	if uncertain > 0 {
		res.Obs("sessions_that_stopped_echoing", int64(uncertain))
		h.logf("%s: %d session(s) stopped echoing; treated as ending", where, uncertain)
	}

	d := vAnalyze()
	S2 := vSlots() // read after the dump: during a held poll handlers only go away, so S2-1 <= handlers unless a slot has no owner
	h.logf("%s: poll #%d sid=%.6s Clients=%d | slots=%d counter=%d proven-in-progress=%d pending=%d handlers=%d parked-ret=%d main=%s", where, p.Seq, p.Sid, p.Clients, S, counter, k, h.pendingCount(), d.Handlers, d.ParkedRet, d.MainWhere)
	extra := map[string]interface{}{"poll": p.Raw, "slots_in_use": S, "slots_in_use_after_dump": S2, "client_counter": counter, "sessions_proven_in_progress": k, "goroutines": d}

	// black box: a poll in flight while N sessions relay data
	if k+1 > N {
		res.Violatef("c16:over-capacity:poll-while-full", h.replay(h.caseID(), extra),
			"capacity %d: a poll is in flight while %d sessions answer an end-to-end echo (%d concurrent clients)", N, k, k+1)
	}

	switch {
	case S < 1+k || d.ParkedRet > 0:
		missing := 1 + k - S
		if missing < d.ParkedRet {
			missing = d.ParkedRet
		}
		res.Violatef(h.lowSig(d.ParkedRet > 0), h.replay(h.caseID(), extra),
			"capacity %d: at a held poll %d slots are in use but the poll itself plus %d sessions proven in progress need %d; goroutines parked in tokens.ret: %d — a slot was released more than once, or is not held where it must be (%s)", N, S, k, 1+k, d.ParkedRet, h.recentSig())
		if !h.noFix {
			vCompensate(missing)
			res.Obs("slot_state_repaired_after_violation", 1)
		}
		h.clearRecent()
	case S > 1+k:
		// surplus slots: owned by handlers still running (tear-down in
		// progress) or by nobody (leak)
		orphans := S2 - 1 - d.Handlers
		if orphans > 0 && d.MainWhere == "runSession" {
			res.Violatef("c16:slot-leak:"+h.recentSig(), h.replay(h.caseID(), extra),
				"capacity %d: at a held poll %d slots are in use; the poll holds 1 and only %d data channel handlers exist (%d proven in progress): %d slot(s) have no goroutine left that could release them (%s)", N, S2, d.Handlers, k, orphans, h.recentSig())
			if !h.noFix {
				vCompensate(-orphans)
				res.Obs("slot_state_repaired_after_violation", 1)
			}
			h.clearRecent()
		} else {
			res.Obs("quiescent_points_with_teardown_in_progress", 1)
		}
	default:
		// exact: every session ended so far has released its slot once
		h.mu.Lock()
		h.pending = 0
		h.mu.Unlock()
		h.clearRecent()
		res.Obs("quiescent_points_exact", 1)
	}
	if counter != int64(S) {
		res.Obs("quiescent_points_counter_differs_from_slots", 1)
	}

	// reported load <= slots in use. The count was taken just before the POST:
	// at that moment at most prevS+1 slots could be in use (everything in use at
	// the previous quiescent point plus this poll's own slot).
	bound := h.prevS + 1
	if bound > N {
		bound = N
	}
	if S > bound {
		bound = S
	}
	if p.Clients > bound {
		res.Violatef("c16:poll-clients-exceeds-slots-in-use", h.replay(h.caseID(), extra),
			"capacity %d: poll reports Clients=%d but at most %d slots can have been in use when it was sent (now %d)", N, p.Clients, bound, S)
	} else if p.Clients > S {
		res.Obs("polls_clients_explained_by_release_in_between", 1)
	}
	if p.Clients > 0 {
		res.Obs("polls_with_nonzero_clients", 1)
	}
	h.prevS = vSlots()
}

func (h *v16) pendingCount() int {
	h.mu.Lock()
	defer h.mu.Unlock()
	return h.pending
}

// echoAllCached re-echoes only the sessions that answered the previous round.
func (h *v16) echoAllCached(prev map[*v16Sess]bool) map[*v16Sess]bool {
	out := map[*v16Sess]bool{}
	var mu sync.Mutex
	var wg sync.WaitGroup
	for s, ok := range prev {
		if !ok {
			out[s] = false
			continue
		}
		s := s
		wg.Add(1)
		go func() {
			defer wg.Done()
			ok := s.peer.echo(4 * time.Second)
			mu.Lock()
			out[s] = ok
			mu.Unlock()
		}()
	}
	wg.Wait()
	return out
}

// awaitPoll waits for the next poll. A poll that does not come is judged from
// goroutine dumps, not from the time waited: main loop parked in tokens.ret =
// double release; main loop parked in tokens.get while fewer handlers exist
// than slots are taken (in two dumps) = leaked slots. Anything else keeps
// waiting and ends inconclusive.
func (h *v16) awaitPoll(where string) *vPoll {
	repaired := 0
	for slice := 0; slice < 7; slice++ {
		p := h.br.nextPoll(10 * time.Second)
		if p != nil {
			return p
		}
		d := vAnalyze()
		S := vSlots() // after the dump: handlers only go away while the main loop is parked
		h.logf("%s: no poll for %d s | slots=%d handlers=%d parked-ret=%d main=%s", where, 10*(slice+1), S, d.Handlers, d.ParkedRet, d.MainWhere)
		extra := map[string]interface{}{"slots_in_use": S, "client_counter": vClientCounter(), "goroutines": d, "sessions_believed_open": h.openCount()}
		switch {
		case repaired >= 3:
		case d.MainInRet:
			h.res.Violatef("c16:double-release:"+h.recentSig(), h.replay(h.caseID(), extra),
				"capacity %d: the proxy stopped polling; its main loop is parked in tokens.ret (%d slots in use, nothing left to take out): a slot was released more than once (%s)", h.cap, S, h.recentSig())
			h.clearRecent()
			if h.noFix {
				return nil
			}
			vCompensate(1)
			repaired++
			h.res.Obs("slot_state_repaired_after_violation", 1)
		case d.MainWhere == "get-blocked" && S-d.Handlers > 0:
			time.Sleep(300 * time.Millisecond)
			d2 := vAnalyze()
			S2 := vSlots()
			if !(d2.MainWhere == "get-blocked" && S2-d2.Handlers > 0) {
				continue
			}
			h.res.Violatef("c16:slot-leak:"+h.recentSig(), h.replay(h.caseID(), extra),
				"capacity %d: the proxy stopped polling; its main loop waits for a free slot, %d slots are taken but only %d data channel handlers exist (harness knows %d open sessions): %d slot(s) leaked (%s)", h.cap, S2, d2.Handlers, h.openCount(), S2-d2.Handlers, h.recentSig())
			h.clearRecent()
			if h.noFix {
				return nil
			}
			vCompensate(-(S2 - d2.Handlers))
			repaired++
			h.res.Obs("slot_state_repaired_after_violation", 1)
		}
	}
	d := vAnalyze()
	h.res.Inconcl(fmt.Sprintf("%s: no poll within 70 s (main loop %s, %d slots, %d handlers) — cannot be judged", where, d.MainWhere, vSlots(), d.Handlers))
	return nil
}

// ---- ending sessions ------------------------------------------------------------------

func (h *v16) endSession(s *v16Sess, how string) {
	h.mu.Lock()
	idx := -1
	for i, o := range h.open {
		if o == s {
			idx = i
		}
	}
	if idx >= 0 {
		h.open = append(h.open[:idx], h.open[idx+1:]...)
		h.pending++
	}
	h.mu.Unlock()
	h.logf("end session %d (%s) by %s", s.idx, s.kind, how)
	switch how {
	case "relay":
		if s.rc != nil {
			s.rc.shutdown()
		}
		s.peer.waitClosed(10 * time.Second)
		s.peer.close("pc")
	case "client-dc":
		s.peer.close("dc")
	default:
		s.peer.close("pc")
	}
	h.addRecent("normal-end")
	h.res.Obs("sessions_ended_by_"+how, 1)
}

func (h *v16) openCount() int {
	h.mu.Lock()
	defer h.mu.Unlock()
	return len(h.open)
}

// closeDue ends sessions whose time has come and, if every slot is serving,
// one more so that the proxy can poll again.
func (h *v16) closeDue(stepIdx int) {
	h.mu.Lock()
	var due []*v16Sess
	for _, s := range h.open {
		if s.closeAt <= stepIdx {
			due = append(due, s)
		}
	}
	h.mu.Unlock()
	for _, s := range due {
		h.endSession(s, s.step.Close)
	}
	for h.openCount() >= h.cap {
		h.mu.Lock()
		s := h.open[0]
		for _, o := range h.open {
			if o.closeAt < s.closeAt {
				s = o
			}
		}
		h.mu.Unlock()
		h.endSession(s, s.step.Close)
	}
}

// ---- one script step ---------------------------------------------------------------------

func (h *v16) relayURLFor(s *v16Sess, mode string) string {
	return fmt.Sprintf("%s://%s/%s/%s", h.scheme, h.relay.hostport(), s.key, mode)
}

func (h *v16) newSess(st *v16Step, withPeer bool) *v16Sess {
	s := &v16Sess{idx: st.Idx, kind: st.Kind, variant: st.Variant, step: st, key: fmt.Sprintf("s%d", st.Idx), answered: make(chan struct{})}
	if withPeer {
		p, err := vNewPeer()
		if err != nil {
			h.res.Inconcl("harness peer could not be created: " + err.Error())
			return nil
		}
		s.peer = p
	}
	return s
}

func (h *v16) register(s *v16Sess, sid string) {
	s.sid = sid
	h.mu.Lock()
	h.bySid[sid] = s
	h.mu.Unlock()
}

func (h *v16) stepDone(st *v16Step, overlap int) {
	h.res.Eval(1)
	h.res.Obs("outcome_"+st.Kind, 1)
	if st.Variant != "" {
		h.res.Obs("outcome_"+st.Kind+"/"+st.Variant, 1)
	}
	h.res.Distinct(fmt.Sprintf("cap%d/%s/%s/%s/overlap%d", h.cap, st.Kind, st.Variant, st.Close, overlap))
}

func (h *v16) runStep(st *v16Step) {
	h.nextIdx = st.Idx
	h.res.CaseLog(h.caseID())
	h.closeDue(st.Idx)
	p := h.awaitPoll(fmt.Sprintf("step %d (%s)", st.Idx, st.Kind))
	if p == nil {
		h.dead = true
		return
	}
	h.checkpoint(p, fmt.Sprintf("step %d (%s/%s)", st.Idx, st.Kind, st.Variant))
	overlap := h.openCount()
	switch st.Kind {
	case "idle":
		p.replyNoMatch()
		h.stepDone(st, overlap)

	case "no-offer":
		switch st.Variant {
		case "http-500":
			p.reply(500, []byte("boom"))
		case "malformed-json":
			p.reply(200, []byte(`{"Status":"client match","Offer":`))
		case "unknown-status":
			p.reply(200, []byte(`{"Status":"something new"}`))
		case "empty-body":
			p.reply(200, []byte(``))
		case "match-without-offer":
			p.reply(200, []byte(`{"Status":"client match","Offer":""}`))
		default:
			p.reply(200, []byte(`[1,2,3]`))
		}
		h.addRecent("no-offer")
		h.stepDone(st, overlap)

	case "bad-offer":
		s := h.newSess(st, false)
		offer := ""
		switch st.Variant {
		case "json-garbage":
			offer = `{"type":"offer","sdp":`
		case "no-sdp-field":
			offer = `{"type":"offer"}`
		case "unknown-type":
			offer = `{"type":"bogus","sdp":"v=0\r\n"}`
		case "json-null":
			offer = `null`
		case "sdp-garbage":
			offer = `{"type":"offer","sdp":"this is not a session description"}`
		case "sdp-empty":
			offer = `{"type":"offer","sdp":""}`
		default: // type-answer, sdp-no-ice: a real description, altered
			pr, err := vNewPeer()
			if err != nil {
				h.res.Inconcl("harness peer could not be created: " + err.Error())
				p.replyNoMatch()
				return
			}
			offer = pr.offer
			if st.Variant == "type-answer" {
				offer = strings.Replace(offer, `"type":"offer"`, `"type":"answer"`, 1)
			} else {
				offer = strings.Replace(offer, "a=ice-ufrag:", "a=x-ufrag:", -1)
				offer = strings.Replace(offer, "a=ice-pwd:", "a=x-pwd:", -1)
			}
			pr.close("pc")
		}
		h.register(s, p.Sid)
		p.reply(200, vMatchBody(offer, h.relayURLFor(s, "echo")))
		h.addRecent("bad-offer")
		h.stepDone(st, overlap)

	case "bad-relay":
		s := h.newSess(st, true)
		if s == nil {
			p.replyNoMatch()
			return
		}
		// three sub-classes of the exit path, each wrong in exactly one respect:
		// host outside the pattern (scheme as the proxy wants it), allowed host
		// with a scheme other than wss (rejected only when non-TLS relays are
		// not allowed), unparsable
		sub := "host"
		good := h.relay.hostport() // 127.0.0.1:port, inside the pattern
		switch st.Variant {
		case "out-of-pattern":
			s.relayURL = fmt.Sprintf("%s://127.0.0.9:%d/%s/echo", h.scheme, h.relay.port, s.key)
		case "userinfo":
			s.relayURL = fmt.Sprintf("%s://127.0.0.1@127.0.0.9:%d/%s/echo", h.scheme, h.relay.port, s.key)
		case "trailing-dot":
			s.relayURL = fmt.Sprintf("%s://127.0.0.1.:%d/%s/echo", h.scheme, h.relay.port, s.key)
		case "scheme-ws":
			sub = "scheme"
			s.relayURL = fmt.Sprintf("ws://%s/%s/echo", good, s.key)
		case "scheme-ws-userinfo":
			sub = "scheme"
			s.relayURL = fmt.Sprintf("ws://wss@%s/%s/echo", good, s.key)
		case "scheme-ws-userinfo-port":
			sub = "scheme"
			s.relayURL = fmt.Sprintf("ws://wss:443@%s/%s/echo", good, s.key)
		case "scheme-ws-no-port":
			sub = "scheme"
			s.relayURL = fmt.Sprintf("ws://127.0.0.1/%s/echo", s.key)
		case "scheme-http":
			sub = "scheme"
			s.relayURL = fmt.Sprintf("http://%s/%s/echo", good, s.key)
		case "scheme-https":
			sub = "scheme"
			s.relayURL = fmt.Sprintf("https://%s/%s/echo", good, s.key)
		case "scheme-empty":
			sub = "scheme"
			s.relayURL = fmt.Sprintf("//%s/%s/echo", good, s.key)
		case "scheme-wss-lookalike":
			sub = "scheme"
			s.relayURL = fmt.Sprintf("wsss://%s/%s/echo?scheme=wss", good, s.key)
		default: // unparsable
			sub = "unparsable"
			s.relayURL = fmt.Sprintf("%s://127.0.0.1:%d%%zz/%s/echo", h.scheme, h.relay.port, s.key)
		}
		if sub == "scheme" && h.nonTLS {
			// with non-TLS relays allowed these URLs are not rejected at all
			h.res.Inconcl(fmt.Sprintf("step %d: scheme variant %s scheduled for a proxy that allows non-TLS relays", st.Idx, st.Variant))
			p.replyNoMatch()
			s.peer.close("pc")
			return
		}
		h.register(s, p.Sid)
		p.reply(200, vMatchBody(s.peer.offer, s.relayURL))
		h.addRecent("bad-relay-" + sub)
		h.res.Obs("outcome_bad-relay-"+sub, 1)
		h.stepDone(st, overlap)
		go func() { time.Sleep(3 * time.Second); s.peer.close("pc") }()

	case "answer-refused":
		s := h.newSess(st, true)
		if s == nil {
			p.replyNoMatch()
			return
		}
		s.relayURL = h.relayURLFor(s, "echo")
		h.register(s, p.Sid)
		p.reply(200, vMatchBody(s.peer.offer, s.relayURL))
		h.addRecent("answer-refused")
		if s.waitAnswered(20 * time.Second) {
			if st.Variant == "client-gone-but-client-connects" {
				// the broker says "client gone", yet the client has the answer and goes
				// ahead: the proxy has given the round up (its slot is free again), so it
				// must not serve this client - a client that is served holds a slot
				s.mu.Lock()
				ans := s.answer
				s.mu.Unlock()
				s.peer.applyAnswer(ans)
				h.res.Obs("refused_answers_after_which_the_client_went_ahead", 1)
				if s.peer.waitOpen(8*time.Second) && s.peer.send("hello") == nil {
					if rc := h.relay.waitConn(s.key, 5*time.Second); rc != nil && !rc.isGone() {
						held := h.openCount()
						if S := vSlots(); S < held+1 {
							h.res.Violatef("c16:client-served-without-a-slot:after-refused-answer", h.replay(h.caseID(), map[string]interface{}{"slots_in_use": S, "sessions_open_before": held}),
								"capacity %d: the broker refused the proxy's answer (client gone), the proxy gave the slot back, yet the client is being relayed: %d slots in use for %d clients", h.cap, S, held+1)
						}
					}
				}
			}
			h.stepDone(st, overlap)
		} else {
			h.res.Inconcl(fmt.Sprintf("step %d: the proxy posted no answer within 20 s", st.Idx))
		}
		s.peer.close("pc")

	case "connected-no-channel":
		h.stepConnectedNoChannel(st, p, overlap)

	case "never-open":
		s := h.newSess(st, true)
		if s == nil {
			p.replyNoMatch()
			return
		}
		s.relayURL = h.relayURLFor(s, "echo")
		h.register(s, p.Sid)
		before := verifhook.Hits(v16HookTimeout)
		p.reply(200, vMatchBody(s.peer.offer, s.relayURL))
		h.addRecent("never-open")
		if !s.waitAnswered(20 * time.Second) {
			h.res.Inconcl(fmt.Sprintf("step %d: the proxy posted no answer within 20 s", st.Idx))
			s.peer.close("pc")
			return
		}
		// the answer is never applied; the proxy's 20 s timer must fire
		deadline := time.Now().Add(40 * time.Second)
		for verifhook.Hits(v16HookTimeout) == before && time.Now().Before(deadline) {
			time.Sleep(50 * time.Millisecond)
		}
		if verifhook.Hits(v16HookTimeout) > before {
			h.res.Obs("datachannel_timeouts_observed", 1)
			h.stepDone(st, overlap)
		} else {
			h.res.Inconcl(fmt.Sprintf("step %d: the data channel timeout was not reached within 40 s", st.Idx))
		}
		s.peer.close("pc")

	case "late-open":
		h.stepLateOpen(st, p, overlap)

	case "relay-down", "relay-closes", "normal":
		s := h.newSess(st, true)
		if s == nil {
			p.replyNoMatch()
			return
		}
		switch {
		case st.Kind == "relay-down":
			s.downAddr = fmt.Sprintf("127.0.0.1:%d", vRefusingPort())
			s.relayURL = fmt.Sprintf("%s://%s/%s/echo", h.scheme, s.downAddr, s.key)
		case st.Kind == "relay-closes":
			s.relayURL = h.relayURLFor(s, st.Variant)
		case st.DefURL:
			s.relayURL = "" // the operator's default relay
			s.key = "default"
		default:
			s.relayURL = h.relayURLFor(s, "echo")
		}
		h.register(s, p.Sid)
		s.defBefore = len(h.relay.conns("default"))
		p.reply(200, vMatchBody(s.peer.offer, s.relayURL))
		if h.establish(s, st) {
			h.stepDone(st, overlap)
		}
	}
}

// establish drives an answered session until its expected state: open and
// echoing (normal) or ended by the relay side (relay-down, relay-closes).
func (h *v16) establish(s *v16Sess, st *v16Step) bool {
	fail := func(why string) bool {
		h.res.Inconcl(fmt.Sprintf("step %d (%s): %s", st.Idx, st.Kind, why))
		h.mu.Lock()
		h.pending++
		h.mu.Unlock()
		h.addRecent(st.Kind + "-incomplete")
		s.peer.close("pc")
		return false
	}
	if !s.waitAnswered(20 * time.Second) {
		return fail("the proxy posted no answer within 20 s")
	}
	s.mu.Lock()
	ans := s.answer
	s.mu.Unlock()
	if err := s.peer.applyAnswer(ans); err != nil {
		return fail("the proxy's answer was not accepted by the harness peer: " + err.Error())
	}
	// relay-down and relay-closes/close-now end the session from the proxy's
	// side at once, possibly before the client has seen its channel open: they
	// are witnessed at the proxy's side (its dial, the relay's accept)
	switch st.Kind {
	case "relay-down":
		deadline := time.Now().Add(15 * time.Second)
		for vDials.count(s.downAddr) == 0 && time.Now().Before(deadline) {
			time.Sleep(10 * time.Millisecond)
		}
		if vDials.count(s.downAddr) == 0 {
			return fail("the proxy did not dial the (refusing) relay address within 15 s")
		}
		h.res.Obs("relay_down_dials_observed", 1)
		h.mu.Lock()
		h.pending++
		h.mu.Unlock()
		h.addRecent("relay-down")
		if !s.peer.waitClosed(10 * time.Second) {
			h.res.Obs("relay_down_client_not_told", 1)
		}
		s.peer.close("pc")
		return true
	case "relay-closes":
		if st.Variant == "close-after-first" && !s.peer.waitOpen(15*time.Second) {
			return fail("data channel did not open within 15 s")
		}
		rc := h.relay.waitConn(s.key, 15*time.Second)
		if rc == nil {
			return fail("no relay connection arrived within 15 s")
		}
		h.mu.Lock()
		h.pending++
		h.mu.Unlock()
		h.addRecent("relay-closes")
		if st.Variant == "close-after-first" {
			s.peer.send("first and last")
		}
		if !s.peer.waitClosed(10 * time.Second) {
			h.res.Obs("relay_closes_client_not_told", 1)
		}
		s.peer.close("pc")
		return true
	}
	if !s.peer.waitOpen(15 * time.Second) {
		return fail("data channel did not open within 15 s")
	}
	// normal / probe
	var rc *vRelayConn
	if s.key == "default" {
		// sessions are negotiated one at a time: the next new connection on
		// the default path is this session's
		deadline := time.Now().Add(10 * time.Second)
		for rc == nil && time.Now().Before(deadline) {
			if cs := h.relay.conns("default"); len(cs) > s.defBefore {
				rc = cs[s.defBefore]
			}
			time.Sleep(10 * time.Millisecond)
		}
	} else {
		rc = h.relay.waitConn(s.key, 10*time.Second)
	}
	if rc == nil {
		return fail("no relay connection arrived within 10 s")
	}
	s.rc = rc
	if !s.peer.echo(8 * time.Second) {
		return fail("end-to-end echo did not come back within 8 s")
	}
	if !strings.Contains(rc.query, "client_ip=") {
		h.res.Obs("relay_connections_without_client_ip", 1)
	}
	s.closeAt = st.Idx + 1 + st.Hold
	h.mu.Lock()
	h.open = append(h.open, s)
	n := len(h.open)
	h.mu.Unlock()
	h.res.ObsMax("max_sessions_open_at_once_summed_over_shards", int64(n))
	h.res.Obs("sessions_established", 1)
	h.logf("session %d established (%d open, capacity %d)", s.idx, n, h.cap)
	return true
}

// stepConnectedNoChannel: the client applies the answer at once, so ICE, DTLS
// and SCTP come up, but its only data channel is pre-negotiated and nothing is
// ever announced to the proxy. That is the exit path "client never opening the
// data channel": the proxy must give the session up after its 20 s data
// channel timeout and release the slot. The timeout branch is witnessed by its
// hook; a proxy that leaves runSession any other way is judged at the next
// quiescent point by the slot accounting.
func (h *v16) stepConnectedNoChannel(st *v16Step, p *vPoll, overlap int) {
	s := h.newSess(st, false)
	peer, err := vNewPeerNegotiated()
	if err != nil {
		h.res.Inconcl("harness peer could not be created: " + err.Error())
		p.replyNoMatch()
		return
	}
	s.peer = peer
	s.relayURL = h.relayURLFor(s, "echo")
	h.register(s, p.Sid)
	before := verifhook.Hits(v16HookTimeout)
	onDCBefore := verifhook.Hits(v16HookOnDC)
	p.reply(200, vMatchBody(s.peer.offer, s.relayURL))
	h.addRecent("connected-no-channel")
	if !s.waitAnswered(20 * time.Second) {
		h.res.Inconcl(fmt.Sprintf("step %d: the proxy posted no answer within 20 s", st.Idx))
		s.peer.close("pc")
		return
	}
	s.mu.Lock()
	ans := s.answer
	s.mu.Unlock()
	if err := s.peer.applyAnswer(ans); err != nil || !s.peer.waitConnected(15*time.Second) {
		h.res.Inconcl(fmt.Sprintf("step %d: the harness peer did not reach the connected state within 15 s (%v)", st.Idx, err))
		s.peer.close("pc")
		return
	}
	h.res.Obs("connected_no_channel_transports_connected", 1)
	h.logf("connected-no-channel: transport connected, no channel announced; waiting for the proxy's timeout")
	// ends when the timeout branch is reached, or when the main loop is seen
	// to have left runSession some other way (next poll, or a dump)
	witnessed, left := false, false
	deadline := time.Now().Add(45 * time.Second)
	lastDump := time.Now()
	for time.Now().Before(deadline) {
		if verifhook.Hits(v16HookTimeout) > before {
			witnessed = true
			break
		}
		if len(h.br.polls) > 0 {
			left = true
			break
		}
		if time.Since(lastDump) > 2*time.Second {
			lastDump = time.Now()
			if d := vAnalyze(); d.MainWhere != "runSession" {
				left = true
				break
			}
		}
		time.Sleep(50 * time.Millisecond)
	}
	if verifhook.Hits(v16HookOnDC) > onDCBefore {
		h.res.Obs("connected_no_channel_but_ondatachannel_fired", 1) // the trigger was not what it claims to be
	}
	switch {
	case witnessed:
		h.res.Obs("datachannel_timeouts_observed", 1)
		h.res.Obs("connected_no_channel_timeouts_observed", 1)
		h.stepDone(st, overlap)
	case left:
		h.res.Obs("connected_no_channel_sessions_left_without_timeout", 1)
		h.logf("connected-no-channel: the proxy left runSession without reaching its data channel timeout")
		h.stepDone(st, overlap)
	default:
		h.res.Inconcl(fmt.Sprintf("step %d: neither the data channel timeout nor the end of runSession was seen within 45 s", st.Idx))
	}
	s.peer.close("pc")
}

// stepLateOpen steers the window predicted in DESIGN §5: the 20 s timer has
// fired (runSession is inside its timeout branch, held at the hook) and only
// then the client completes ICE/DTLS and opens the data channel, so that
// OnDataChannel is delivered while the timeout branch is in progress.
func (h *v16) stepLateOpen(st *v16Step, p *vPoll, overlap int) {
	s := h.newSess(st, true)
	if s == nil {
		p.replyNoMatch()
		return
	}
	s.relayURL = h.relayURLFor(s, "echo")
	h.register(s, p.Sid)
	hit := make(chan struct{})
	release := make(chan struct{})
	onDC := make(chan struct{}, 4)
	h.steerMu.Lock()
	h.steerSid, h.steerHit, h.steerGo, h.onDCHit = p.Sid, hit, release, onDC
	h.steerMu.Unlock()
	released := false
	releaseNow := func() {
		if !released {
			released = true
			close(release)
		}
	}
	defer func() {
		releaseNow()
		h.steerMu.Lock()
		h.steerSid, h.steerHit, h.steerGo, h.onDCHit = "", nil, nil, nil
		h.steerMu.Unlock()
	}()
	p.reply(200, vMatchBody(s.peer.offer, s.relayURL))
	h.addRecent("late-open")
	if !s.waitAnswered(20 * time.Second) {
		h.res.Inconcl(fmt.Sprintf("step %d: the proxy posted no answer within 20 s", st.Idx))
		s.peer.close("pc")
		return
	}
	select {
	case <-hit:
	case <-time.After(45 * time.Second):
		h.res.Inconcl(fmt.Sprintf("step %d: the data channel timeout hook was not reached within 45 s", st.Idx))
		s.peer.close("pc")
		return
	}
	h.res.Obs("datachannel_timeouts_observed", 1)
	h.logf("late-open: timeout branch reached and held; the client now applies the answer")
	s.mu.Lock()
	ans := s.answer
	s.mu.Unlock()
	if err := s.peer.applyAnswer(ans); err != nil {
		h.res.Inconcl(fmt.Sprintf("step %d: harness peer rejected the answer: %v", st.Idx, err))
		s.peer.close("pc")
		return
	}
	select {
	case <-onDC:
		// OnDataChannel is being delivered while the timeout branch is in progress
		h.mu.Lock()
		h.steeredWin = true
		h.pending++ // the handler goroutine has been (or is about to be) started
		h.mu.Unlock()
		h.res.Obs("steered_window_hits", 1)
		h.logf("late-open: OnDataChannel delivered inside the window; releasing the timeout branch")
		time.Sleep(100 * time.Millisecond)
		h.stepDone(st, overlap)
	case <-time.After(20 * time.Second):
		h.res.Inconcl(fmt.Sprintf("step %d: the client's data channel did not reach the proxy within 20 s of the late answer", st.Idx))
	}
	releaseNow()
	// let the session run into its end; the verdict is read at the next quiescent point
	s.peer.waitClosed(10 * time.Second)
	s.peer.close("pc")
}

func (h *v16) installHooks() {
	verifhook.Set(v16HookTimeout, func(args ...interface{}) {
		sid := ""
		if len(args) > 0 {
			sid, _ = args[0].(string)
		}
		h.steerMu.Lock()
		want, hit, rel := h.steerSid, h.steerHit, h.steerGo
		h.steerMu.Unlock()
		if want == "" || want != sid || hit == nil {
			return
		}
		close(hit)
		select {
		case <-rel:
		case <-time.After(60 * time.Second):
		}
	})
	verifhook.Set(v16HookOnDC, func(args ...interface{}) {
		h.steerMu.Lock()
		c := h.onDCHit
		h.steerMu.Unlock()
		if c != nil {
			select {
			case c <- struct{}{}:
			default:
			}
		}
	})
}

// ---- final probe: full capacity is still there, and it is a limit ---------------------------

func (h *v16) finalProbe() {
	res := h.res
	N := h.cap
	// end everything that is still open
	for h.openCount() > 0 {
		h.mu.Lock()
		s := h.open[0]
		h.mu.Unlock()
		h.endSession(s, s.step.Close)
	}
	base := 100000
	for i := 0; i < N; i++ {
		st := &v16Step{Idx: base + i, Kind: "probe", Hold: 1 << 20, Close: []string{"client-pc", "relay", "client-dc"}[h.rng.Intn(3)]}
		h.nextIdx = st.Idx
		p := h.awaitPoll(fmt.Sprintf("probe %d/%d", i+1, N))
		if p == nil {
			h.dead = true
			return
		}
		h.checkpoint(p, fmt.Sprintf("probe %d/%d", i+1, N))
		s := h.newSess(st, true)
		if s == nil {
			p.replyNoMatch()
			h.dead = true
			return
		}
		s.relayURL = h.relayURLFor(s, "echo")
		h.register(s, p.Sid)
		p.reply(200, vMatchBody(s.peer.offer, s.relayURL))
		if !h.establish(s, st) {
			h.dead = true
			return
		}
		res.Eval(1)
	}
	res.Obs("probe_sessions_open_simultaneously", int64(h.openCount()))
	h.logf("probe: %d simultaneous sessions established; watching for an extra poll", h.openCount())
	// While they last, an (N+1)-th poll must not arrive. Its arrival is the
	// refuting event; silence during the window is merely what was observed.
	window := 7 * time.Second
	select {
	case p := <-h.br.polls:
		h.checkpoint(p, "probe: extra poll while full") // flags over-capacity if all N still echo
		p.replyNoMatch()
		res.Obs("probe_extra_polls", 1)
	case <-time.After(window):
		res.Obs("probe_windows_without_extra_poll", 1)
	}
	S := vSlots()
	alive := h.echoAll()
	k := 0
	for _, ok := range alive {
		if ok {
			k++
		}
	}
	if k == N && S < N {
		d := vAnalyze()
		res.Violatef(h.lowSig(d.ParkedRet > 0), h.replay(h.caseID(), map[string]interface{}{"slots_in_use": S, "goroutines": d}),
			"capacity %d: %d sessions answer an end-to-end echo but only %d slots are in use", N, k, S)
	}
	if k == N {
		res.Obs("probe_full_capacity_reached", 1)
		res.Distinct(fmt.Sprintf("cap%d/full-capacity-probe", N))
	}
	res.Obs("probe_counter_minus_slots_while_waiting", vClientCounter()-int64(S))
	if N >= 9 && k == N {
		// the reported load must follow the slots DOWN as well: free one slot, hold the
		// poll that follows (it reports a multiple of 8 >= 8), end sessions until at most
		// 3 are left, wait until their slots are back, answer "no match": the same round
		// polls again and must now report 0
		h.mu.Lock()
		s0 := h.open[0]
		h.mu.Unlock()
		h.endSession(s0, s0.step.Close)
		h.nextIdx = base + N + 1
		if p := h.awaitPoll("drain: poll after one session ended"); p != nil {
			h.checkpoint(p, "drain: poll after one session ended")
			high := p.Clients
			for h.openCount() > 3 {
				h.mu.Lock()
				s := h.open[0]
				h.mu.Unlock()
				h.endSession(s, "client-pc") // immediate: the held poll expires after 27 s
			}
			settled := false
			for end := time.Now().Add(20 * time.Second); time.Now().Before(end); time.Sleep(100 * time.Millisecond) {
				if vClientCounter() <= int64(h.openCount()+1) {
					settled = true
					break
				}
			}
			if !settled {
				res.Inconcl(fmt.Sprintf("drain: slots of ended sessions not back within 20 s (counter %d, %d sessions open)", vClientCounter(), h.openCount()))
			}
			p.replyNoMatch()
			if q := h.awaitPoll("drain: next poll of the same round"); q != nil {
				h.checkpoint(q, "drain: next poll of the same round")
				if settled && high >= 8 {
					res.Obs("drain_probes", 1)
					res.Distinct(fmt.Sprintf("cap%d/drain-probe", N))
					if q.Clients < high {
						res.Obs("drain_probes_load_followed_down", 1)
					}
				}
				q.replyNoMatch()
			} else {
				h.dead = true
				return
			}
		} else {
			h.dead = true
			return
		}
	}
	// free everything; the proxy must come back with exactly one slot in use
	for h.openCount() > 0 {
		h.mu.Lock()
		s := h.open[0]
		h.mu.Unlock()
		h.endSession(s, s.step.Close)
	}
	h.nextIdx = base + N
	p := h.awaitPoll("after the probe")
	if p == nil {
		h.dead = true
		return
	}
	h.checkpoint(p, "after the probe")
	if h.pendingCount() > 0 {
		// give tear-down one more poll interval
		p.replyNoMatch()
		if p = h.awaitPoll("after the probe (2)"); p == nil {
			h.dead = true
			return
		}
		h.checkpoint(p, "after the probe (2)")
	}
	if h.pendingCount() > 0 {
		res.Inconcl("after the probe: handlers of sessions ended by the harness were still running at two consecutive polls")
	}
	// shutdown path: Stop, let the poll end; the poller's slot must come back
	h.run.sf.Stop()
	p.replyNoMatch()
	deadline := time.Now().Add(20 * time.Second)
	for vSlots() != 0 && time.Now().Before(deadline) {
		select {
		case q := <-h.br.polls:
			q.replyNoMatch()
		case <-time.After(50 * time.Millisecond):
		}
	}
	d := vAnalyze()
	S = vSlots()
	if S != 0 && d.Handlers == 0 && (d.MainWhere == "gone" || d.MainWhere == "idle") {
		res.Violatef("c16:slot-leak:after-stop", h.replay(h.caseID(), map[string]interface{}{"slots_in_use": S, "goroutines": d}),
			"capacity %d: after Stop no session goroutine is left but %d slot(s) are still in use", N, S)
	} else if S != 0 {
		res.Inconcl(fmt.Sprintf("after Stop: %d slots in use, main loop %s, %d handlers — not settled in 20 s", S, d.MainWhere, d.Handlers))
	} else {
		res.Obs("stopped_with_zero_slots", 1)
	}
	if d.ParkedRet > 0 {
		res.Violatef("c16:double-release:"+h.recentSig(), h.replay(h.caseID(), map[string]interface{}{"goroutines": d}),
			"capacity %d: after Stop %d goroutine(s) are parked in tokens.ret", N, d.ParkedRet)
	}
}

// ---- script generation ------------------------------------------------------------------------

var v16Variants = map[string][]string{
	"no-offer":  {"http-500", "malformed-json", "unknown-status", "empty-body", "match-without-offer", "not-an-object"},
	"bad-offer": {"json-garbage", "no-sdp-field", "unknown-type", "json-null", "sdp-garbage", "sdp-empty", "type-answer", "sdp-no-ice"},
	"bad-relay": {"out-of-pattern", "userinfo", "trailing-dot", "unparsable"},
	// only for proxies that do not allow non-TLS relays: allowed host, scheme not wss
	"bad-relay-scheme": {"scheme-ws", "scheme-ws-userinfo", "scheme-ws-userinfo-port", "scheme-ws-no-port", "scheme-http", "scheme-https", "scheme-empty", "scheme-wss-lookalike"},
	"answer-refused":   {"client-gone", "http-500", "malformed", "empty-status", "client-gone-but-client-connects", "client-gone-but-client-connects", "error-after-client-connected", "error-after-client-connected"},
	"relay-closes":     {"close-now", "close-after-first"},
}

// v16WssOnly: shards whose proxy runs with AllowNonTLSRelay=false (relay behind
// TLS, wss URLs): 4 of 12 quick shards (capacities 3, 2, 4, 1), 6 of 16 thorough.
func v16WssOnly(shard int) bool {
	switch shard % 16 {
	case 2, 4, 6, 11, 13, 15:
		return true
	}
	return false
}

func v16Plan(shard, nshards int, r *vlib.Rand) (int, bool, []*v16Step) {
	wssOnly := v16WssOnly(shard)
	var caps []int
	if vlib.Thorough() {
		caps = []int{1, 2, 3, 4, 2, 1, 4, 3, 9, 17, 3, 1, 2, 4, 1, 2}
	} else {
		caps = []int{1, 2, 3, 4, 2, 1, 4, 3, 9, 17, 3, 1}
	}
	capacity := caps[shard%len(caps)]
	n := vlib.Scale(6, 30)
	if !vlib.Thorough() { // filling 9 / 17 slots costs 45 / 85 s: shorter scripts there
		if capacity == 9 {
			n = 3
		} else if capacity == 17 {
			n = 1
		}
	}
	cheap := []string{"no-offer", "bad-offer", "bad-relay", "answer-refused", "relay-down", "relay-closes", "normal", "normal", "idle"}
	var kinds []string
	for len(kinds) < n {
		for _, i := range r.Perm(len(cheap)) {
			kinds = append(kinds, cheap[i])
		}
	}
	kinds = kinds[:n]
	// the two 20 s outcomes: fixed shards in the quick tier, twice each per shard in thorough
	if vlib.Thorough() {
		forced := []string{"late-open", "never-open", "connected-no-channel", "late-open", "never-open", "connected-no-channel"}
		for j, i := range r.Perm(n)[:len(forced)] {
			kinds[i] = forced[j]
		}
	} else {
		switch shard % 12 {
		case 0: // capacity 1: the second release finds nothing to take out
			kinds[r.Range(1, n-1)] = "late-open"
		case 1: // capacity 2 with another session open: the second release takes that session's slot
			kinds[0], kinds[1] = "normal", "late-open"
		case 4, 5:
			kinds[r.Range(0, n-1)] = "never-open"
		case 3, 10, 11: // capacities 4, 3 and 1 (the last one wss-only); these shards have no other 20 s outcome
			kinds[r.Range(0, n-1)] = "connected-no-channel"
		}
	}
	// wss-only shards: the scheme sub-class of "rejected relay URL" at least
	// once (quick) / three times (thorough), not on top of a 20 s outcome
	forcedScheme := map[int]bool{}
	if wssOnly {
		for want := vlib.Scale(1, 3); want > 0; want-- {
			for try := 0; try < 50; try++ {
				i := r.Intn(n)
				if kinds[i] != "late-open" && kinds[i] != "never-open" && kinds[i] != "connected-no-channel" && !forcedScheme[i] {
					kinds[i] = "bad-relay"
					forcedScheme[i] = true
					break
				}
			}
		}
	}
	var steps []*v16Step
	for i, k := range kinds {
		st := &v16Step{Idx: i, Kind: k}
		if vs := v16Variants[k]; len(vs) > 0 {
			st.Variant = r.PickString(vs)
		}
		if k == "bad-relay" && wssOnly && (forcedScheme[i] || r.Chance(1, 2)) {
			st.Variant = r.PickString(v16Variants["bad-relay-scheme"])
		}
		if k == "normal" {
			maxHold := capacity - 1
			if maxHold > 3 {
				maxHold = 3
			}
			st.Hold = r.Intn(maxHold + 1)
			st.Close = r.PickString([]string{"client-pc", "client-dc", "relay"})
			st.DefURL = r.Chance(1, 5)
		}
		steps = append(steps, st)
	}
	if !vlib.Thorough() && (shard%12 == 0 || shard%12 == 6) && len(steps) >= 3 { // capacities 1 and 4
		i := len(steps) - 2
		steps[i].Kind, steps[i].Variant = "answer-refused", "error-after-client-connected"
	}
	if !vlib.Thorough() && (shard%12 == 2 || shard%12 == 5) { // capacities 3 and 1
		i := len(steps) - 1
		steps[i].Kind, steps[i].Variant = "answer-refused", "client-gone-but-client-connects"
	}
	if !vlib.Thorough() && shard%12 == 1 {
		steps[0].Hold = 3
		steps[0].DefURL = false
	}
	return capacity, wssOnly, steps
}

func v16ParseScript(spec string, r *vlib.Rand) (int, bool, []*v16Step) {
	capacity := 1
	wssOnly := false
	if i := strings.Index(spec, ":"); i >= 0 {
		fmt.Sscanf(spec[:i], "%d", &capacity)
		wssOnly = strings.HasSuffix(spec[:i], "s") // "2s:..." = capacity 2, AllowNonTLSRelay=false
		spec = spec[i+1:]
	}
	if capacity < 1 {
		capacity = 1
	}
	var steps []*v16Step
	for i, item := range strings.Split(spec, ",") {
		kv := strings.SplitN(strings.TrimSpace(item), "/", 2)
		st := &v16Step{Idx: i, Kind: kv[0]}
		if len(kv) == 2 {
			st.Variant = kv[1]
		} else if vs := v16Variants[st.Kind]; len(vs) > 0 {
			st.Variant = r.PickString(vs)
		}
		if st.Kind == "normal" {
			st.Hold = capacity // stays open until the slot is needed
			st.Close = "client-pc"
		}
		steps = append(steps, st)
	}
	return capacity, wssOnly, steps
}

// ---- the test -------------------------------------------------------------------------------------

func TestVerifC16(t *testing.T) {
	res := vlib.NewResult("C16", "inpkg-proxy-c16", "per shard one real SnowflakeProxy (capacity 1..4, 9, 17) driven by a scripted broker, real pion client peers and a WebSocket relay through a PRNG script of session outcomes (idle, no offer x6, undecodable offer x8, rejected relay URL x12 in three sub-classes (host outside the pattern / allowed host with a non-wss scheme on proxies with AllowNonTLSRelay=false, whose relay runs behind TLS / unparsable), refused answer x4, data channel never opened (client never connects / client connects, ICE+DTLS+SCTP up, but announces no channel), data channel opened while the 20 s timeout branch runs (hook-steered), relay unreachable, relay closes x2, normal end x3, overlapping up to the capacity), then N simultaneous sessions and Stop; every poll is a held quiescent point where slots in use are compared with 1 + sessions proven in progress by end-to-end echo and classified with a goroutine dump; non-trivial = outcome executed to its expected exit, distinct by (capacity, outcome, variant, close mode, sessions open at hand-out)")
	defer res.Finish()
	shard, nshards := vlib.Shard()
	root := vlib.NewRand(vlib.Seed()).Split("c16").SplitN("shard", shard)
	capacity, wssOnly, steps := v16Plan(shard, nshards, root.Split("plan"))
	// experiments / minimisation: VERIF_C16_SCRIPT="2:normal,late-open" (capacity[s]:kind[/variant],...; s = wss only)
	if spec := os.Getenv("VERIF_C16_SCRIPT"); spec != "" {
		capacity, wssOnly, steps = v16ParseScript(spec, root.Split("plan"))
	}

	st, err := vStartStun()
	if err != nil {
		res.Inconcl("fake STUN responder: " + err.Error())
		return
	}
	var relay *vRelay
	scheme := "ws"
	if wssOnly {
		scheme = "wss"
		relay, err = vStartRelayTLS("127.0.0.1", 0)
		vTrustTestRelayCert()
	} else {
		relay, err = vStartRelay("127.0.0.1", 0)
	}
	if err != nil {
		res.Inconcl("relay listener: " + err.Error())
		return
	}
	br := vStartBroker()
	vInstallDialLog()
	h := &v16{nonTLS: !wssOnly, scheme: scheme, noFix: os.Getenv("VERIF_C16_NOREPAIR") != "", res: res, cap: capacity, shard: shard, br: br, relay: relay, rng: root.Split("run"), t0: time.Now(), bySid: map[string]*v16Sess{}, script: steps}
	br.mu.Lock()
	br.onAnswer = h.onAnswer
	br.mu.Unlock()
	h.installHooks()
	h.run = vStartProxy(uint(capacity), br.url(), st.addr, fmt.Sprintf("%s://%s/default/echo", scheme, relay.hostport()), "^127.0.0.1$", !wssOnly)
	res.Note("capacity", capacity)
	res.Note("allow_non_tls_relay", !wssOnly)
	res.Obs(fmt.Sprintf("shards_with_allow_non_tls_relay_%v", !wssOnly), 1)
	res.Note("script", steps)
	res.Obs(fmt.Sprintf("shards_with_capacity_%d", capacity), 1)
	planned := map[string]int{}
	for _, s := range steps {
		planned[s.Kind]++
	}
	plannedScheme := 0
	for _, s := range steps {
		if s.Kind == "bad-relay" && strings.HasPrefix(s.Variant, "scheme-") {
			plannedScheme++
		}
	}
	h.logf("capacity %d, AllowNonTLSRelay=%v, %d steps", capacity, !wssOnly, len(steps))

	for _, s := range steps {
		if h.dead {
			break
		}
		h.runStep(s)
	}
	if !h.dead {
		h.finalProbe()
	}
	if h.dead {
		res.Inconcl("the script could not be completed")
	}
	if n := atomic.LoadInt64(&br.expired); n > 0 {
		res.Inconcl(fmt.Sprintf("%d poll(s) were not answered by the driver in time", n))
	}
	res.Sample(1, map[string]interface{}{"case": fmt.Sprintf("shard%d/cap%d", shard, capacity), "capacity": capacity, "script": steps})
	res.Note("hook_hits", verifhook.AllHits())
	res.Obs("stun_requests_answered", atomic.LoadInt64(&st.reqs))
	res.Obs("polls_seen", atomic.LoadInt64(&br.nPolls))
	res.Obs("answers_seen", atomic.LoadInt64(&br.nAnswers))

	// coverage: what this shard's script contains must have been executed
	for k, n := range planned {
		res.Require(res.GetObs("outcome_"+k) >= int64(n), fmt.Sprintf("outcome %s executed %d times, script has %d", k, res.GetObs("outcome_"+k), n))
	}
	if planned["late-open"] > 0 {
		res.RequireObs("steered_window_hits", int64(planned["late-open"]))
	}
	if n := planned["connected-no-channel"]; n > 0 {
		res.RequireObs("connected_no_channel_transports_connected", int64(n))
	}
	if plannedScheme > 0 {
		res.RequireObs("outcome_bad-relay-scheme", int64(plannedScheme))
	}
	if wssOnly && os.Getenv("VERIF_C16_SCRIPT") == "" {
		res.RequireObs("outcome_bad-relay-scheme", 1)
	}
	res.RequireObs("quiescent_points", int64(len(steps)+capacity))
	res.RequireObs("probe_full_capacity_reached", 1)
	res.RequireObs("quiescent_points_exact", 2)
	if capacity >= 9 {
		res.RequireObs("drain_probes", 1)
		res.RequireObs("poll_clients_8", 1)
	}
	if capacity >= 17 {
		res.RequireObs("poll_clients_16", 1)
	}
}
