// C18 - the last mile on the proxy: the client_ip a session's relay
// connection carries is derived from that session's own offer (its first
// remote candidate) - or absent - whatever the sessions before it and beside
// it carried, for the default relay and for relays named by the broker.
package snowflake_proxy

import (
	"encoding/json"
	"fmt"
	"net"
	"net/url"
	"strings"
	"sync"
	"testing"
	"time"

	"verif/vlib"
)

// c18Local mirrors what the proxy documents as "not a remote address"
// (written from the comments of isRemoteAddress/IsLocal, not by calling them).
func c18Local(ip net.IP) bool {
	if ip.IsUnspecified() || ip.IsLoopback() {
		return true
	}
	if v4 := ip.To4(); v4 != nil {
		return v4[0] == 10 || (v4[0] == 172 && v4[1] >= 16 && v4[1] <= 31) || (v4[0] == 192 && v4[1] == 168) ||
			(v4[0] == 100 && v4[1] >= 64 && v4[1] <= 127) || (v4[0] == 169 && v4[1] == 254)
	}
	return ip[0]&0xfe == 0xfc
}

// c18WantIP: the first remote candidate address of an offer in document
// order, then the c= lines ("" = none). ambiguous: a line this simple reader
// is not sure about - the session is then not judged.
func c18WantIP(sdp string) (want string, ambiguous bool) {
	lines := strings.Split(strings.ReplaceAll(sdp, "\r\n", "\n"), "\n")
	for _, l := range lines {
		if !strings.HasPrefix(l, "a=candidate:") {
			continue
		}
		f := strings.Fields(l)
		if len(f) < 8 {
			return "", true
		}
		ip := net.ParseIP(f[4])
		if ip == nil {
			return "", true
		}
		if !c18Local(ip) {
			return ip.String(), false
		}
	}
	for _, l := range lines {
		if strings.HasPrefix(l, "c=IN IP4 ") || strings.HasPrefix(l, "c=IN IP6 ") {
			ip := net.ParseIP(strings.TrimSpace(l[9:]))
			if ip == nil {
				return "", true
			}
			if !c18Local(ip) {
				return ip.String(), false
			}
		}
	}
	return "", false
}

// c18Plant inserts a server-reflexive candidate with the given address in
// front of the offer's first candidate.
func c18Plant(offer, addr string) (string, string, error) {
	var d struct {
		Type string `json:"type"`
		SDP  string `json:"sdp"`
	}
	if err := json.Unmarshal([]byte(offer), &d); err != nil {
		return "", "", err
	}
	if addr == "" {
		// an offer without any remote candidate: this machine's own addresses
		// that the proxy would call remote are taken out (the rest still connect)
		var keep []string
		for _, l := range strings.SplitAfter(d.SDP, "\r\n") {
			if strings.HasPrefix(l, "a=candidate:") {
				if f := strings.Fields(l); len(f) >= 8 {
					if ip := net.ParseIP(f[4]); ip != nil && !c18Local(ip) {
						continue
					}
				}
			}
			keep = append(keep, l)
		}
		d.SDP = strings.Join(keep, "")
	} else {
		i := strings.Index(d.SDP, "a=candidate:")
		if i < 0 {
			return "", "", fmt.Errorf("offer without candidates")
		}
		d.SDP = d.SDP[:i] + "a=candidate:842163049 1 udp 1677729535 " + addr + " 41234 typ srflx raddr 0.0.0.0 rport 0\r\n" + d.SDP[i:]
	}
	b, err := json.Marshal(d)
	return string(b), d.SDP, err
}

func TestVerifC18ProxyClientIP(t *testing.T) {
	res := vlib.NewResult("C18", "inpkg-c18-proxy-clientip", "one real SnowflakeProxy (capacity 4) and real pion clients; sessions alternate between offers that carry a (per-session distinct) remote candidate, IPv4 or IPv6, and offers that carry none, between the proxy's default relay and a relay named by the broker, and run one at a time or two at once; every session's relay connection is identified by the first message the client sent through it, and the client_ip parameter of its request must be the first remote candidate of that session's own offer, or absent when it has none; non-trivial = judged session, distinct by (relay kind, address kind, predecessor's address kind, concurrency)")
	defer res.Finish()
	st, err := vStartStun()
	if err != nil {
		res.Inconcl("fake STUN responder: " + err.Error())
		return
	}
	relay, err := vStartRelay("127.0.0.1", 0)
	if err != nil {
		res.Inconcl("relay listener: " + err.Error())
		return
	}
	br := vStartBroker()
	var mu sync.Mutex
	bySid := map[string]*vPeer{}
	br.mu.Lock()
	br.onAnswer = func(a vAnswer) vReply {
		mu.Lock()
		p := bySid[a.Sid]
		mu.Unlock()
		if p == nil {
			return vReply{200, []byte(`{"Status":"client gone"}`)}
		}
		go p.applyAnswer(a.Answer)
		return vReply{200, []byte(`{"Status":"success"}`)}
	}
	br.mu.Unlock()
	vStartProxy(4, br.url(), st.addr, fmt.Sprintf("ws://%s/default/echo?origin=default", relay.hostport()), "^127.0.0.1$", true)

	type sess struct {
		i          int
		addr, kind string
		named      bool
		pair       bool
		prevKind   string
	}
	var all []string // every address planted so far
	judge := func(s sess, peer *vPeer, sdp string) {
		defer peer.close("pc")
		rec := map[string]interface{}{"case": fmt.Sprintf("clientip/%d", s.i), "planted_remote_candidate": s.addr, "relay_named_by_broker": s.named, "two_sessions_at_once": s.pair, "previous_session": s.prevKind}
		if !peer.waitOpen(30 * time.Second) {
			res.Inconcl(fmt.Sprintf("session %d: the data channel did not open", s.i))
			return
		}
		token := fmt.Sprintf("c18-session-%d", s.i)
		if peer.send(token) != nil {
			res.Inconcl(fmt.Sprintf("session %d: could not send", s.i))
			return
		}
		rc := relay.waitConnFirst(token, 20*time.Second)
		if rc == nil {
			res.Inconcl(fmt.Sprintf("session %d: no relay connection carried the session's first message", s.i))
			return
		}
		want, amb := c18WantIP(sdp)
		if amb {
			res.Obs("sessions_with_offer_the_reference_cannot_read", 1)
			return
		}
		q, err := url.ParseQuery(rc.query)
		if err != nil {
			res.Violatef("c18:relay-query-unparseable", rec, "relay request query %q: %v", rc.query, err)
			return
		}
		rec["relay_query"] = rc.query
		got, present := "", false
		if vs, ok := q["client_ip"]; ok {
			present = true
			got = vs[len(vs)-1]
			if len(vs) > 1 {
				res.Violatef("c18:client_ip-given-twice", rec, "relay request carries %d client_ip parameters: %v", len(vs), vs)
				return
			}
		}
		res.Eval(1)
		res.Obs("proxy_sessions_judged", 1)
		res.Distinct(fmt.Sprintf("named=%v/%s/after-%s/pair=%v", s.named, s.kind, s.prevKind, s.pair))
		if want == "" {
			res.Obs("proxy_sessions_without_remote_candidate", 1)
			if present {
				other := ""
				mu.Lock()
				for _, a := range all {
					if ip := net.ParseIP(got); ip != nil && ip.Equal(net.ParseIP(a)) {
						other = " - the address planted in another session's offer"
					}
				}
				mu.Unlock()
				res.Violatef("c18:client_ip-sent-for-offer-without-remote-candidate", rec, "the offer has no remote candidate, yet the relay request carries client_ip=%q%s", got, other)
			}
			return
		}
		res.Obs("proxy_sessions_with_remote_candidate:"+s.kind, 1)
		gip := net.ParseIP(got)
		if !present || gip == nil || !gip.Equal(net.ParseIP(want)) {
			res.Violatef("c18:client_ip-is-not-the-offers-first-remote-candidate", rec, "first remote candidate of the offer is %s, relay request carries client_ip=%q (present=%v)", want, got, present)
		}
		if !s.named && q.Get("origin") != "default" {
			res.Violatef("c18:default-relay-query-lost", rec, "the default relay URL's own query parameter is gone: %q", rc.query)
		}
	}
	start := func(s sess) (*vPeer, string, bool) {
		p := br.nextPoll(60 * time.Second)
		if p == nil {
			res.Inconcl(fmt.Sprintf("session %d: the proxy did not poll within 60 s", s.i))
			return nil, "", false
		}
		peer, err := vNewPeer()
		if err != nil {
			p.replyNoMatch()
			res.Inconcl("harness peer: " + err.Error())
			return nil, "", false
		}
		offer, sdp, err := c18Plant(peer.offer, s.addr)
		if err != nil {
			p.replyNoMatch()
			peer.close("pc")
			res.Inconcl("harness offer: " + err.Error())
			return nil, "", false
		}
		mu.Lock()
		bySid[p.Sid] = peer
		if s.addr != "" {
			all = append(all, s.addr)
		}
		mu.Unlock()
		named := ""
		if s.named {
			named = fmt.Sprintf("ws://%s/n%d/echo", relay.hostport(), s.i)
		}
		p.reply(200, vMatchBody(offer, named))
		return peer, sdp, true
	}
	n := vlib.Scale(24, 120)
	prevKind := "first"
	for i := 0; i < n; {
		mk := func(i int) sess {
			s := sess{i: i, prevKind: prevKind}
			switch i % 4 { // with, without, with, without ... shifted against the relay kind below
			case 0:
				s.addr, s.kind = fmt.Sprintf("198.18.%d.%d", 1+i/200, 1+i%200), "ipv4"
			case 2:
				s.addr, s.kind = fmt.Sprintf("2001:db8:%x::%x", 0x100+i, 1+i), "ipv6"
			default:
				s.kind = "none"
			}
			s.named = (i/2)%3 == 2 // mostly the default relay; both kinds of predecessor for each
			return s
		}
		if (i/4)%3 == 2 && i+1 < n {
			// two sessions whose data channels open at about the same time
			a, b := mk(i), mk(i+1)
			a.pair, b.pair = true, true
			pa, sa, oka := start(a)
			pb, sb, okb := start(b)
			var wg sync.WaitGroup
			if oka {
				wg.Add(1)
				go func() { defer wg.Done(); judge(a, pa, sa) }()
			}
			if okb {
				wg.Add(1)
				go func() { defer wg.Done(); judge(b, pb, sb) }()
			}
			wg.Wait()
			prevKind = b.kind
			i += 2
			continue
		}
		s := mk(i)
		if peer, sdp, ok := start(s); ok {
			judge(s, peer, sdp)
		}
		prevKind = s.kind
		i++
	}
	res.RequireObs("proxy_sessions_judged", int64(n/2))
	res.RequireObs("proxy_sessions_without_remote_candidate", int64(n/6))
}
