// C20 workload (proxy): the proxy's traffic counters and summary logger under
// the accesses a busy proxy makes at the same time - copy loops adding inbound
// and outbound byte counts to a connection's traffic logger while the session
// end reads its totals; connection-over events arriving from many sessions
// while the periodic summary task reads and resets the sums; the session-slot
// counter read by the poller while sessions take and return slots. The race
// detector is the oracle; this function drives and counts.
package snowflake_proxy

import (
	"fmt"
	"io/ioutil"
	"sync"
	"sync/atomic"
	"testing"
	"time"

	"git.torproject.org/pluggable-transports/snowflake.git/v2/common/event"
	"verif/vlib"
)

func TestVerifC20ProxyCounters(t *testing.T) {
	res := vlib.NewResult("C20", "inpkg-proxy-c20-counters", "per round: one traffic logger fed by 4 adders while 2 readers take summaries and totals; one summary event logger (1 ms period) fed connection-over events by 8 goroutines; a token pool of 4 slots taken and returned by 8 goroutines while 2 readers count; distinct = one per round")
	defer res.Finish()
	rounds := vlib.Scale(6, 40)
	var adds, reads, events, gets int64
	for round := 0; round < rounds; round++ {
		var wg sync.WaitGroup
		stop := make(chan struct{})
		// 1. per-connection traffic logger
		bl := newBytesSyncLogger()
		for w := 0; w < 4; w++ {
			wg.Add(1)
			go func(w int) {
				defer wg.Done()
				for i := 0; ; i++ {
					select {
					case <-stop:
						return
					default:
					}
					if w%2 == 0 {
						bl.AddInbound(100 + i%7)
					} else {
						bl.AddOutbound(50 + i%5)
					}
					atomic.AddInt64(&adds, 1)
				}
			}(w)
		}
		for w := 0; w < 2; w++ {
			wg.Add(1)
			go func() {
				defer wg.Done()
				for {
					select {
					case <-stop:
						return
					default:
					}
					_ = bl.ThroughputSummary()
					_, _ = bl.GetStat()
					atomic.AddInt64(&reads, 1)
				}
			}()
		}
		// 2. summary logger with a 1 ms period
		el := NewProxyEventLogger(time.Millisecond, ioutil.Discard)
		for w := 0; w < 8; w++ {
			wg.Add(1)
			go func(w int) {
				defer wg.Done()
				for i := 0; ; i++ {
					select {
					case <-stop:
						return
					default:
					}
					el.OnNewSnowflakeEvent(event.EventOnProxyConnectionOver{InboundTraffic: 1000 + i, OutboundTraffic: 2000 + w})
					atomic.AddInt64(&events, 1)
				}
			}(w)
		}
		// 3. session slots
		tk := newTokens(4)
		for w := 0; w < 8; w++ {
			wg.Add(1)
			go func() {
				defer wg.Done()
				for {
					select {
					case <-stop:
						return
					default:
					}
					tk.get()
					atomic.AddInt64(&gets, 1)
					tk.ret()
				}
			}()
		}
		for w := 0; w < 2; w++ {
			wg.Add(1)
			go func() {
				defer wg.Done()
				for {
					select {
					case <-stop:
						return
					default:
					}
					_ = tk.count()
				}
			}()
		}
		time.Sleep(time.Duration(vlib.Scale(300, 500)) * time.Millisecond)
		close(stop)
		done := make(chan struct{})
		go func() { wg.Wait(); close(done) }()
		select {
		case <-done:
		case <-time.After(20 * time.Second):
			res.Inconcl(fmt.Sprintf("round %d: workers did not stop within 20 s", round))
		}
		if c, ok := el.(interface{ Close() error }); ok {
			c.Close()
		}
		res.Eval(1)
		res.Distinct(fmt.Sprintf("round/%d", round))
	}
	res.Obs("traffic_logger_adds", atomic.LoadInt64(&adds))
	res.Obs("traffic_logger_reads", atomic.LoadInt64(&reads))
	res.Obs("connection_over_events", atomic.LoadInt64(&events))
	res.Obs("slot_get_ret_pairs", atomic.LoadInt64(&gets))
	res.Sample(1, map[string]interface{}{"case": "c20-proxy-counters", "rounds": rounds, "adds": atomic.LoadInt64(&adds), "reads": atomic.LoadInt64(&reads), "events": atomic.LoadInt64(&events), "slot_pairs": atomic.LoadInt64(&gets)})
	res.RequireObs("traffic_logger_adds", 1000)
	res.RequireObs("traffic_logger_reads", 1000)
	res.RequireObs("connection_over_events", 1000)
	res.RequireObs("slot_get_ret_pairs", 1000)
}
