// C11(b) — the AMP endpoint returns, armored, exactly the poll response the
// POST endpoint gives for the same poll (two identically prepared brokers).
package main

import (
	"bytes"
	"fmt"
	"io/ioutil"
	"sync"
	"testing"
	"time"

	"git.torproject.org/pluggable-transports/snowflake.git/v2/common/amp"
	"verif/vlib"
)

type c11Outcome struct {
	HTTP int    `json:"http"`
	Body string `json:"body"` // POST: raw body; AMP: de-armored body
	Err  string `json:"err,omitempty"`
}

func c11Post(b *vBroker, body []byte) c11Outcome {
	st, out := b.do("POST", "/client", nil, body, "")
	return c11Outcome{HTTP: st, Body: string(out)}
}

func c11Amp(b *vBroker, body []byte, pad string) c11Outcome {
	path := "/amp/client/" + amp.EncodePath(body)
	if pad != "" {
		path = "/amp/client/0" + pad + "/" + b64url(body)
	}
	st, out := b.do("GET", path, nil, nil, "")
	o := c11Outcome{HTTP: st}
	if st != 200 {
		o.Body = string(out)
		return o
	}
	dec, err := amp.NewArmorDecoder(bytes.NewReader(out))
	if err != nil {
		o.Err = "response is not AMP armor: " + err.Error()
		o.Body = string(out)
		return o
	}
	plain, err := ioutil.ReadAll(dec)
	if err != nil {
		o.Err = "armor decode: " + err.Error()
	}
	o.Body = string(plain)
	return o
}

func c11bCase(res *vlib.Result, r *vlib.Rand, id int) {
	kind := r.PickString([]string{"matched", "matched", "denied", "timeout", "bad-version", "bad-json", "no-offer", "bad-nat", "bad-fingerprint", "unlisted-fingerprint", "empty", "legacy-looking"})
	if kind == "timeout" && id%4 != 0 {
		kind = "matched"
	}
	offer := fmt.Sprintf(`{"type":"offer","sdp":"C11-%d-%x"}`, id, r.Uint64())
	c := clientSpec{Transport: "post", NAT: r.PickString(natChoices), Offer: offer}
	body := c.pollBody()
	switch kind {
	case "bad-version":
		body = append([]byte(r.PickString([]string{"2.0", "1.1", "", "1"})+"\n"), body[4:]...)
	case "bad-json":
		body = []byte("1.0\n{\"offer\": ")
	case "no-offer":
		body = []byte("1.0\n{\"nat\":\"unknown\"}")
	case "bad-nat":
		body = []byte("1.0\n{\"offer\":\"x\",\"nat\":\"bogus\"}")
	case "bad-fingerprint":
		body = []byte("1.0\n{\"offer\":\"x\",\"fingerprint\":\"" + r.PickString([]string{"zz", "00", "2B280B23E1107BB62ABFC40DDCC8824814F80A"}) + "\"}")
	case "unlisted-fingerprint":
		c.FP = randFP(r, 20)
		body = c.pollBody()
	case "empty":
		body = []byte{}
	case "legacy-looking":
		// a versioned body cannot start with '{'; through AMP this is just a bad version
		body = []byte("{\"type\":\"offer\"}")
	}
	pad := ""
	if r.Bool() {
		pad = cleanPad(r.StringFrom([]rune("abcXYZ019_-/"), r.Range(0, 16)))
	}
	bs := [2]*vBroker{newVBroker(9000+2*id, nil, "", ""), newVBroker(9001+2*id, nil, "", "")}
	var outs [2]c11Outcome
	var wg sync.WaitGroup
	for k := 0; k < 2; k++ {
		wg.Add(1)
		go func(k int) {
			defer wg.Done()
			b := bs[k]
			var pwg sync.WaitGroup
			if kind == "matched" || kind == "timeout" {
				pwg.Add(1)
				go func() {
					defer pwg.Done()
					ps := &pollSpec{Sid: fmt.Sprintf("c11-%d", id), Type: "standalone", NAT: NATUnrestricted}
					if c.NAT == NATUnrestricted {
						ps.NAT = NATRestricted
					}
					pr := b.poll(ps)
					if pr.Offer != "" && kind == "matched" {
						// deterministic answer derived from the offer
						b.answer(ps.Sid, "ANSWER-FOR-"+pr.Offer)
					}
				}()
				waitUntil(5*time.Second, func() bool { return b.debugAvailable() == 1 })
			}
			if k == 0 {
				outs[k] = c11Post(b, body)
			} else {
				outs[k] = c11Amp(b, body, pad)
			}
			pwg.Wait()
		}(k)
	}
	wg.Wait()
	rec := map[string]interface{}{"case": fmt.Sprintf("c11b/%d", id), "kind": kind, "poll_body": string(body), "amp_padding": pad, "post": outs[0], "amp": outs[1]}
	res.Eval(1)
	res.Obs("kind_"+kind, 1)
	res.Distinct(fmt.Sprintf("c11b/%d", id))
	res.Sample(4, rec)
	if kind == "legacy-looking" || kind == "empty" {
		// POST treats a body starting with '{' as a legacy request and an empty
		// body differently from AMP's path decoding; only require that AMP answers
		// with well-formed armor carrying a JSON error
		if outs[1].HTTP == 200 && outs[1].Err != "" {
			res.Violate("c11:amp-response-not-armored", fmt.Sprintf("AMP endpoint returned a body that does not de-armor: %s", outs[1].Err), rec)
		}
		return
	}
	if outs[1].Err != "" {
		res.Violate("c11:amp-response-not-armored", fmt.Sprintf("AMP endpoint returned a body that does not de-armor: %s", outs[1].Err), rec)
		return
	}
	if outs[0].HTTP != outs[1].HTTP || outs[0].Body != outs[1].Body {
		res.Violate("c11:amp-differs-from-post:"+kind, fmt.Sprintf("same poll, identically prepared brokers: POST /client -> %d %q, GET /amp/client/ -> %d %q", outs[0].HTTP, outs[0].Body, outs[1].HTTP, outs[1].Body), rec)
	}
}

func TestVerifC11b(t *testing.T) {
	res := vlib.NewResult("C11", "inpkg-broker-c11b", "the same client poll (matched / denied / timed out / each decode error class, PRNG NAT and cache-breaking padding) sent to POST /client of one broker and GET /amp/client/<path> of an identically prepared second broker; de-armored AMP body and status must equal the POST response; non-trivial = every case, distinct by case id")
	defer res.Finish()
	root := vlib.NewRand(vlib.Seed()).Split("c11b")
	n := vlib.Scale(120, 1500)
	var wg sync.WaitGroup
	sem := make(chan struct{}, 64)
	for i := 0; i < n; i++ {
		wg.Add(1)
		go func(i int) {
			defer wg.Done()
			sem <- struct{}{}
			c11bCase(res, root.SplitN("case", i), i)
			<-sem
		}(i)
	}
	wg.Wait()
	for _, k := range []string{"matched", "denied", "timeout", "bad-version", "bad-json", "no-offer", "bad-nat", "bad-fingerprint", "unlisted-fingerprint"} {
		res.RequireObs("kind_"+k, 1)
	}
}
