// Steered / staggered complements of the C02 and C03 history checks.
package main

import (
	"fmt"
	"sort"
	"strings"
	"sync"
	"testing"
	"time"

	"verif/vlib"
)

// C02: an answer that sits between the broker's id lookup and the hand-over
// while its client times out, followed by fresh pairs on the same broker: the
// late answer must reach nobody and every later client must get its own
// proxy's answer.
func c02LateAnswerThenPairs(res *vlib.Result, ctxID int) {
	name := fmt.Sprintf("late-answer-then-pairs/%d", ctxID)
	b := newVBroker(ctxID, nil, "", "")
	sid1 := fmt.Sprintf("la%d-p1", ctxID)
	a1 := "ANSWER-OF-" + sid1
	reached := make(chan struct{})
	var reachedOnce sync.Once
	release := make(chan struct{})
	timedOut := make(chan struct{})
	var toOnce sync.Once
	c04hooks.on(hClientTimeout, sid1, func() { toOnce.Do(func() { close(timedOut) }) })
	c04hooks.on(hAnswerSend, sid1, func() {
		reachedOnce.Do(func() { close(reached) })
		select {
		case <-release:
		case <-time.After(40 * time.Second):
		}
	})
	type pairObs struct {
		Sid, Offer, AnswerTok string
	}
	var mu sync.Mutex
	gotOffer := map[string]string{} // sid -> offer received
	tr := newTracker()
	matched1 := make(chan struct{})
	tr.run("proxy-poll", sid1, func() string {
		pr := b.poll(&pollSpec{Sid: sid1, Type: "standalone", NAT: NATUnrestricted})
		if pr.Offer != "" {
			mu.Lock()
			gotOffer[sid1] = pr.Offer
			mu.Unlock()
			close(matched1)
			return "offer"
		}
		return pr.Status
	})
	waitUntil(5*time.Second, func() bool { return b.debugAvailable() == 1 })
	c1 := &clientSpec{Transport: "post", NAT: NATRestricted, Offer: "OFFER-C1-" + sid1}
	var c1res clientResult
	c1done := make(chan struct{})
	tr.run("client-poll", "", func() string { c1res = b.client(c1); close(c1done); return c1res.Answer + c1res.Error })
	select {
	case <-matched1:
	case <-time.After(10 * time.Second):
		res.Inconcl(name + ": first pair not matched")
		return
	}
	time.Sleep(9700 * time.Millisecond)
	tr.run("answer", sid1, func() string { st, s := b.answer(sid1, a1); return fmt.Sprintf("%d %s", st, s) })
	select {
	case <-reached:
		res.Obs("late_answers_held_in_window", 1)
	case <-time.After(5 * time.Second):
		res.Inconcl(name + ": the late answer did not reach the hand-over point (client already gone)")
		close(release)
		return
	}
	select {
	case <-timedOut:
	case <-time.After(15 * time.Second):
	}
	select {
	case <-c1done:
	case <-time.After(15 * time.Second):
	}
	// fresh polls register while the late answer is still held
	n := 4
	type fresh struct {
		sid, tok string
	}
	var fr []fresh
	for k := 0; k < n; k++ {
		f := fresh{sid: fmt.Sprintf("la%d-p%d", ctxID, k+2), tok: fmt.Sprintf("ANSWER-OF-la%d-p%d", ctxID, k+2)}
		fr = append(fr, f)
		tr.run("proxy-poll", f.sid, func() string {
			pr := b.poll(&pollSpec{Sid: f.sid, Type: "standalone", NAT: NATUnrestricted})
			if pr.Offer != "" {
				mu.Lock()
				gotOffer[f.sid] = pr.Offer
				mu.Unlock()
				time.Sleep(300 * time.Millisecond) // the proxy's own answer is not instantaneous
				b.answer(f.sid, f.tok)
				return "offer"
			}
			return pr.Status
		})
	}
	waitUntil(5*time.Second, func() bool { return b.debugAvailable() == n })
	close(release) // the late answer is handed over now
	time.Sleep(50 * time.Millisecond)
	clients := make([]clientResult, n)
	offers := make([]string, n)
	var cwg sync.WaitGroup
	for j := 0; j < n; j++ {
		offers[j] = fmt.Sprintf("OFFER-C%d-la%d", j+2, ctxID)
		cwg.Add(1)
		go func(j int) {
			defer cwg.Done()
			clients[j] = b.client(&clientSpec{Transport: "post", NAT: NATRestricted, Offer: offers[j]})
		}(j)
	}
	cdone := make(chan struct{})
	go func() { cwg.Wait(); close(cdone) }()
	select {
	case <-cdone:
	case <-time.After(40 * time.Second):
		res.Inconcl(name + ": follow-up clients did not return")
		return
	}
	tr.waitAll(40 * time.Second)
	rec := map[string]interface{}{"case": name, "first_client_result": c1res, "late_answer": a1}
	res.Eval(1)
	res.Distinct(name)
	res.Obs("late_answer_scenarios", 1)
	tokOf := map[string]string{}
	for _, f := range fr {
		tokOf[f.sid] = f.tok
	}
	mu.Lock()
	defer mu.Unlock()
	var rows []map[string]string
	for j := 0; j < n; j++ {
		row := map[string]string{"offer": offers[j], "answer": clients[j].Answer, "error": clients[j].Error}
		rows = append(rows, row)
		if clients[j].Answer == "" {
			continue
		}
		// which proxy was handed this client's offer?
		owner := ""
		for sid, off := range gotOffer {
			if off == offers[j] {
				owner = sid
			}
		}
		row["offer_went_to"] = owner
		if clients[j].Answer == a1 {
			rec["clients"] = rows
			res.Violate("c02:late-answer-delivered-to-later-client", fmt.Sprintf("%s: the answer posted for the first (timed-out) session was delivered to a later client whose offer went to %s", name, owner), rec)
			return
		}
		if owner == "" || clients[j].Answer != tokOf[owner] {
			rec["clients"] = rows
			res.Violate("c02:cross-wired-answer", fmt.Sprintf("%s: client with offer %q received %q, its offer went to %q whose answer is %q", name, offers[j], clients[j].Answer, owner, tokOf[owner]), rec)
			return
		}
		res.Obs("follow_up_clients_correctly_answered", 1)
	}
	if c1res.Answer != "" && c1res.Answer != a1 {
		res.Violate("c02:cross-wired-answer", fmt.Sprintf("%s: first client received %q", name, c1res.Answer), rec)
	}
	rec["clients"] = rows
	res.Sample(2, rec)
}

// C02: a client pops proxy A inside A's poll-timeout window while a newer poll B
// is waiting; the offer must still reach A's poll (not the newest poll), and a
// later client matched with B must get B's answer to its own offer.
func c02TimeoutWindowWithNewerPoll(res *vlib.Result, ctxID int) {
	name := fmt.Sprintf("timeout-window-with-newer-poll/%d", ctxID)
	b := newVBroker(ctxID, nil, "", "")
	sidA, sidB := fmt.Sprintf("tw%d-A", ctxID), fmt.Sprintf("tw%d-B", ctxID)
	h1 := make(chan struct{})
	var h1once sync.Once
	release := make(chan struct{})
	popped := make(chan struct{}, 1)
	c04hooks.on(hProxyTimeout, sidA, func() {
		h1once.Do(func() { close(h1) })
		select {
		case <-release:
		case <-time.After(40 * time.Second):
		}
	})
	c04hooks.on(hClientPopped, sidA, func() {
		select {
		case popped <- struct{}{}:
		default:
		}
	})
	var mu sync.Mutex
	gotOffer := map[string]string{}
	tr := newTracker()
	poll := func(sid string, clients int) {
		tr.run("proxy-poll", sid, func() string {
			pr := b.poll(&pollSpec{Sid: sid, Type: "standalone", NAT: NATUnrestricted, Clients: clients})
			if pr.Offer != "" {
				mu.Lock()
				gotOffer[sid] = pr.Offer
				mu.Unlock()
				b.answer(sid, "ANSWER-OF-"+sid+"-TO-"+pr.Offer)
				return "offer"
			}
			return pr.Status
		})
	}
	poll(sidA, 0)
	waitUntil(5*time.Second, func() bool { return b.debugAvailable() == 1 })
	time.Sleep(4 * time.Second)
	poll(sidB, 8) // newer and more loaded: the next client is given A
	waitUntil(5*time.Second, func() bool { return b.debugAvailable() == 2 })
	select {
	case <-h1:
	case <-time.After(30 * time.Second):
		res.Inconcl(name + ": A's timeout hook not reached")
		close(release)
		return
	}
	offer1, offer2 := "OFFER-C1-"+sidA, "OFFER-C2-"+sidA
	var c1, c2 clientResult
	tr.run("client-poll", "", func() string {
		c1 = b.client(&clientSpec{Transport: "post", NAT: NATRestricted, Offer: offer1})
		return c1.Answer + c1.Error
	})
	select {
	case <-popped:
		res.Obs("client_popped_inside_timeout_window", 1)
	case <-time.After(10 * time.Second):
		res.Inconcl(name + ": client did not pop A inside the window")
	}
	close(release)
	time.Sleep(300 * time.Millisecond)
	tr.run("client-poll", "", func() string {
		c2 = b.client(&clientSpec{Transport: "post", NAT: NATRestricted, Offer: offer2})
		return c2.Answer + c2.Error
	})
	if !tr.waitAll(40 * time.Second) {
		res.Obs("timeout_window_scenarios_with_open_requests", 1) // bounded completion is C04's concern
	}
	res.Eval(1)
	res.Distinct(name)
	res.Obs("timeout_window_scenarios", 1)
	mu.Lock()
	defer mu.Unlock()
	rec := map[string]interface{}{"case": name, "offers_received_by_polls": gotOffer, "client1": c1, "client2": c2}
	for sid, off := range gotOffer {
		want := "ANSWER-OF-" + sid + "-TO-" + off
		for ci, c := range []struct {
			offer string
			res   clientResult
		}{{offer1, c1}, {offer2, c2}} {
			if c.res.Answer != "" && c.offer == off && c.res.Answer != want {
				res.Violate("c02:cross-wired-answer", fmt.Sprintf("%s: client %d sent %q (handed to %s) but received %q", name, ci+1, c.offer, sid, c.res.Answer), rec)
			}
		}
	}
	for ci, c := range []struct {
		offer string
		res   clientResult
	}{{offer1, c1}, {offer2, c2}} {
		if c.res.Answer == "" {
			continue
		}
		// the answer names the poll that posted it and the offer it answers
		if !strings.HasSuffix(c.res.Answer, "-TO-"+c.offer) {
			res.Violate("c02:cross-wired-answer", fmt.Sprintf("%s: client %d with offer %q received %q — the answer to another client's offer", name, ci+1, c.offer, c.res.Answer), rec)
		} else {
			res.Obs("timeout_window_clients_correctly_answered", 1)
		}
	}
	if gotOffer[sidB] == offer1 {
		res.Violate("c02:offer-delivered-to-another-poll", fmt.Sprintf("%s: client 1 popped proxy A, but its offer was delivered to the newer poll B", name), rec)
	}
	res.Sample(1, rec)
}

func TestVerifC02Steered(t *testing.T) {
	res := vlib.NewResult("C02", "inpkg-broker-c02-steered", "steered histories: a proxy's answer is held (verif hook) between the broker's id lookup and the hand-over until its client has timed out and fresh proxy polls have registered, then released; fresh clients follow; every answer delivered must be the one posted by the poll that received that client's offer, the late answer must reach nobody; non-trivial = scenario in which the late answer was really held in the window, distinct by context")
	defer res.Finish()
	c04hooks.install(hProxyTimeout, hClientPopped, hClientTimeout, hAnswerSend)
	n := vlib.Scale(12, 64)
	var wg sync.WaitGroup
	for i := 0; i < n; i++ {
		wg.Add(1)
		go func(i int) { defer wg.Done(); c02LateAnswerThenPairs(res, 30000+i) }(i)
	}
	for i := 0; i < n; i++ {
		wg.Add(1)
		go func(i int) { defer wg.Done(); c02TimeoutWindowWithNewerPoll(res, 31000+i) }(i)
	}
	wg.Wait()
	res.RequireObs("client_popped_inside_timeout_window", int64(n/2))
	res.RequireObs("timeout_window_clients_correctly_answered", int64(n))
	res.RequireObs("late_answers_held_in_window", int64(n/2))
	res.RequireObs("follow_up_clients_correctly_answered", int64(n))
}

// C03: load order after some waiting proxies have left through the real 10 s
// poll timeout (removal from arbitrary heap positions): K clients must still be
// given the K least loaded eligible proxies among those that remain.
func checkLoadOrderAfterTimeouts(res *vlib.Result, r *vlib.Rand, ctxID int) {
	b := newVBroker(ctxID, nil, "", "")
	name := fmt.Sprintf("loadorder-after-timeouts/%d", ctxID)
	nA := r.Range(1, 4)  // leave by timeout
	nB := r.Range(8, 16) // remain
	loads := []int{0, 8, 8, 16, 0, 0, 24, 8, 16}
	type pp struct {
		spec  pollSpec
		group byte
		// written by the poll's goroutine under mu
		ret   time.Time // when the poll returned (zero: still open)
		offer string    // the offer it returned with ("" = no match)
	}
	var ps []*pp
	order := r.Perm(nA + nB)
	// group A are the first nA registered (oldest); to land them at deep heap
	// positions they are registered first, with PRNG loads
	for i := 0; i < nA+nB; i++ {
		p := &pp{group: 'B'}
		if i < nA {
			p.group = 'A'
		}
		p.spec = pollSpec{Sid: fmt.Sprintf("lt%d-%c%d", ctxID, p.group, i), Type: "standalone", NAT: NATUnrestricted, Clients: r.PickInt(loads)}
		ps = append(ps, p)
	}
	_ = order
	var mu sync.Mutex
	taken := []int{}
	var wgA, wgB sync.WaitGroup
	start := func(p *pp, wg *sync.WaitGroup) {
		wg.Add(1)
		go func() {
			defer wg.Done()
			pr := b.poll(&p.spec)
			mu.Lock()
			p.ret, p.offer = time.Now(), pr.Offer
			mu.Unlock()
			if pr.Offer != "" {
				mu.Lock()
				taken = append(taken, p.spec.Clients)
				if p.group == 'A' {
					taken = append(taken, -1) // must not happen: A has left
				}
				mu.Unlock()
				b.answer(p.spec.Sid, "A-"+p.spec.Sid)
			}
		}()
	}
	// a few B first (so that A members sit below them or beside them), then A, then the rest of B
	nFirst := 0 // members registered before A would time out before A does
	idx := 0
	reg := 0
	for k := 0; k < nFirst; k++ {
		start(ps[nA+k], &wgB)
		reg++
		waitUntil(3*time.Second, func() bool { return b.debugAvailable() == reg })
	}
	tA := time.Now()
	for k := 0; k < nA; k++ {
		start(ps[k], &wgA)
		reg++
		waitUntil(3*time.Second, func() bool { return b.debugAvailable() == reg })
	}
	idx = nA + nFirst
	// the remaining B register 3-5 s later, one by one (a deterministic heap shape)
	time.Sleep(time.Until(tA.Add(time.Duration(r.Range(3000, 5000)) * time.Millisecond)))
	for ; idx < nA+nB; idx++ {
		start(ps[idx], &wgB)
		reg++
		waitUntil(3*time.Second, func() bool { return b.debugAvailable() == reg })
	}
	// wait until group A has left through its timeout
	adone := make(chan struct{})
	go func() { wgA.Wait(); close(adone) }()
	select {
	case <-adone:
	case <-time.After(30 * time.Second):
		res.Inconcl(name + ": group A polls did not time out")
		return
	}
	if !waitUntil(3*time.Second, func() bool { return b.debugAvailable() == nB }) {
		res.Inconcl(name + ": population after the timeouts is not the expected one")
		return
	}
	var remaining []int
	for _, p := range ps[nA:] {
		remaining = append(remaining, p.spec.Clients)
	}
	sort.Ints(remaining)
	// clients arrive one after another (each waits for its answer), as many as
	// proxies remain: every single one must be given the least loaded proxy
	// still waiting, so a disordered heap cannot hide behind a multiset
	// A take is wrong iff a less loaded proxy was CERTAINLY waiting throughout the
	// client's request: its poll was still open when the client's response had
	// returned (a poll that had returned "no match" by then may have left through
	// its own timeout - on a loaded machine the sequence of clients can outlast the
	// 3 s until the first of the remaining polls expires).
	k := nB
	var seq []int
	firstBad, badLower := -1, 0
	for j := 0; j < k; j++ {
		offer := fmt.Sprintf("LT-OFFER-%d-%d", ctxID, j)
		done := make(chan clientResult, 1)
		go func(j int) {
			done <- b.client(&clientSpec{Transport: "post", NAT: NATRestricted, Offer: offer})
		}(j)
		select {
		case <-done:
		case <-time.After(30 * time.Second):
			res.Inconcl(name + ": a client did not return")
			return
		}
		clientRet := time.Now()
		// the poll that received this offer has returned before the client did (it
		// posted the answer the client got); find it
		mu.Lock()
		var got *pp
		for _, p := range ps {
			if p.offer == offer {
				got = p
			}
		}
		if got == nil {
			mu.Unlock()
			// denied or timed out: the remaining proxies have started to leave; stop judging here
			break
		}
		seq = append(seq, got.spec.Clients)
		for _, q := range ps[nA:] {
			stillOpen := q.ret.IsZero() || q.ret.After(clientRet)
			if q != got && stillOpen && q.offer == "" && q.spec.Clients < got.spec.Clients && firstBad < 0 {
				firstBad, badLower = j, q.spec.Clients
			}
		}
		mu.Unlock()
	}
	got := seq
	var leftLoads []int
	for _, p := range ps[:nA] {
		leftLoads = append(leftLoads, p.spec.Clients)
	}
	rec := map[string]interface{}{"case": name, "left_by_timeout_loads": leftLoads, "remaining_loads": remaining, "clients": k, "taken_loads": got}
	res.Eval(1)
	res.Distinct(name)
	res.Obs("loadorder_after_timeout_cases", 1)
	res.Obs("sequential_takes_checked", int64(len(got)))
	if firstBad >= 0 {
		rec["first_wrong_take"] = firstBad
		res.Violate("c03:load-order:after-timeout-removal", fmt.Sprintf("%s: after %d proxies left through the poll timeout, client %d was given a proxy with load %d while one with load %d was waiting - its poll was still open after the client had been answered (takes so far %v, loads of the proxies that remained after the timeouts %v)", name, nA, firstBad, got[firstBad], badLower, got, remaining), rec)
	}
	res.Sample(2, rec)
	wb := make(chan struct{})
	go func() { wgB.Wait(); close(wb) }()
	select {
	case <-wb:
	case <-time.After(40 * time.Second):
	}
}

func minInt(a, b int) int {
	if a < b {
		return a
	}
	return b
}

func TestVerifC03AfterTimeouts(t *testing.T) {
	res := vlib.NewResult("C03", "inpkg-broker-c03-after-timeouts", "populations in which 1-3 waiting proxies leave through the real 10 s poll timeout (removal from inner heap positions) while 5-9 others remain; then 3..n clients arrive: they must be given the least loaded of the remaining eligible proxies; non-trivial = every case, distinct by context")
	defer res.Finish()
	root := vlib.NewRand(vlib.Seed()).Split("c03after")
	shard, nshards := vlib.Shard()
	n := vlib.Scale(400, 3000)
	var wg sync.WaitGroup
	sem := make(chan struct{}, 400)
	for i := 0; i < n; i++ {
		if i%nshards != shard {
			continue
		}
		wg.Add(1)
		go func(i int) {
			defer wg.Done()
			sem <- struct{}{}
			checkLoadOrderAfterTimeouts(res, root.SplitN("case", i), 40000+i)
			<-sem
		}(i)
	}
	wg.Wait()
	res.RequireObs("loadorder_after_timeout_cases", int64(n/nshards/2)) // the rest may be inconclusive on a loaded machine
}
