// C19 (broker part) — published counts are the true counts rounded up to 8.
// True counts are tallied from the responses seen at the handler boundary.
package main

import (
	"bufio"
	"bytes"
	"encoding/base64"
	"encoding/json"
	"fmt"
	"io/ioutil"
	"math"
	"os"
	"path/filepath"
	"sort"
	"strconv"
	"strings"
	"sync"
	"sync/atomic"
	"testing"
	"time"

	"git.torproject.org/pluggable-transports/snowflake.git/v2/common/ipsetsink"
	"git.torproject.org/pluggable-transports/snowflake.git/v2/common/ipsetsink/sinkcluster"
	"git.torproject.org/pluggable-transports/snowflake.git/v2/common/verifhook"
	"github.com/prometheus/client_golang/prometheus"
	dto "github.com/prometheus/client_model/go"
	"verif/vlib"
)

func ceil8(n int) int { return (n + 7) / 8 * 8 }

type tally struct {
	mu sync.Mutex
	m  map[string]int
	// distinct (type,address) pairs among admitted polls
	addrs map[string]bool
}

func newTally() *tally { return &tally{m: map[string]int{}, addrs: map[string]bool{}} }
func (t *tally) inc(k string) {
	t.mu.Lock()
	t.m[k]++
	t.mu.Unlock()
}
func (t *tally) addr(typ, a string) {
	t.mu.Lock()
	t.addrs[typ+"|"+a] = true
	t.mu.Unlock()
}

func knownType(t string) string {
	switch t {
	case "standalone", "webext", "badge", "iptproxy":
		return t
	}
	return "unknown"
}

// observePoll updates the tally from one poll and its response (appendix A1).
func observePoll(t *tally, p *pollSpec, r pollResult, host string) {
	nat, typ := normNAT(p.NAT), knownType(p.Type)
	if r.HTTP == 400 {
		return // undecodable: an event of no counter
	}
	if p.Pattern != nil {
		t.inc("with|" + nat + "|" + typ)
		t.inc("log|snowflake-proxy-poll-with-relay-url-count")
	} else {
		t.inc("without|" + nat + "|" + typ)
		t.inc("log|snowflake-proxy-poll-without-relay-url-count")
	}
	switch {
	case r.Status == "incorrect relay pattern":
		t.inc("rejected|" + nat + "|" + typ)
		t.inc("log|snowflake-proxy-rejected-for-relay-url-count")
		return
	case r.Status == "no match":
		t.inc("pollidle|" + nat)
		t.inc("log|snowflake-idle-count")
	case r.Offer != "":
		t.inc("pollmatched|" + nat)
	}
	if host != "" {
		t.addr(typ, host)
	}
}

func observeClient(t *tally, c *clientSpec, r clientResult) {
	nat := normNAT(c.NAT)
	switch {
	case r.Error == "no snowflake proxies currently available":
		t.inc("clientdenied|" + nat)
		t.inc("log|client-denied-count")
		if nat == NATUnrestricted {
			t.inc("log|client-unrestricted-denied-count")
		} else {
			t.inc("log|client-restricted-denied-count")
		}
	case r.Answer != "":
		t.inc("clientmatched|" + nat)
		t.inc("log|client-snowflake-match-count")
	}
}

// scrape parses /prometheus into metric{sorted labels} -> value
func scrape(b *vBroker) map[string]float64 {
	_, out := b.do("GET", "/prometheus", nil, nil, "")
	res := map[string]float64{}
	sc := bufio.NewScanner(strings.NewReader(string(out)))
	sc.Buffer(make([]byte, 1<<20), 1<<24)
	for sc.Scan() {
		ln := sc.Text()
		if strings.HasPrefix(ln, "#") || ln == "" {
			continue
		}
		i := strings.LastIndexByte(ln, ' ')
		if i < 0 {
			continue
		}
		v, err := strconv.ParseFloat(ln[i+1:], 64)
		if err != nil {
			continue
		}
		res[ln[:i]] = v
	}
	return res
}

func promKey(metric string, labels map[string]string) string {
	keys := make([]string, 0, len(labels))
	for k := range labels {
		keys = append(keys, k)
	}
	sort.Strings(keys)
	parts := make([]string, len(keys))
	for i, k := range keys {
		parts[i] = fmt.Sprintf("%s=%q", k, labels[k])
	}
	return metric + "{" + strings.Join(parts, ",") + "}"
}

func parseLogLines(s string) map[string]string {
	out := map[string]string{}
	for _, ln := range strings.Split(s, "\n") {
		f := strings.SplitN(strings.TrimSpace(ln), " ", 2)
		if len(f) == 2 {
			out[f[0]] = f[1]
		} else if len(f) == 1 && f[0] != "" {
			out[f[0]] = ""
		}
	}
	return out
}

func checkPublished(res *vlib.Result, name string, b *vBroker, t *tally, rec map[string]interface{}) {
	t.mu.Lock()
	defer t.mu.Unlock()
	prom := scrape(b)
	logs := map[string]string{}
	if b.bin == nil {
		b.metricsW.Reset()
		b.ctx.metrics.printMetrics()
		logs = parseLogLines(b.metricsW.String())
	}
	rec["true_counts"] = t.m
	expectProm := func(metric string, labels map[string]string, truth int) {
		k := promKey(metric, labels)
		got, ok := prom[k]
		res.Obs("prometheus_samples_checked", 1)
		if truth%8 != 0 {
			res.Obs("counts_not_multiple_of_8", 1)
		}
		if truth == 0 && !ok {
			return
		}
		if !ok || int(got) != ceil8(truth) {
			cls := "too-high"
			if !ok || int(got) < truth {
				cls = "too-low"
			} else if int(got)%8 != 0 {
				cls = "not-multiple-of-8"
			}
			rec["prometheus_key"] = k
			res.Violate("c19:prometheus-count:"+cls+":"+metric, fmt.Sprintf("%s: %s = %v (present=%v), true count %d, expected %d", name, k, got, ok, truth, ceil8(truth)), rec)
		}
	}
	for k, v := range t.m {
		f := strings.Split(k, "|")
		switch f[0] {
		case "with":
			expectProm("snowflake_rounded_proxy_poll_with_relay_url_extension_total", map[string]string{"nat": f[1], "type": f[2]}, v)
		case "without":
			expectProm("snowflake_rounded_proxy_poll_without_relay_url_extension_total", map[string]string{"nat": f[1], "type": f[2]}, v)
		case "rejected":
			expectProm("snowflake_rounded_proxy_poll_rejected_relay_url_extension_total", map[string]string{"nat": f[1], "type": f[2]}, v)
		case "pollidle":
			expectProm("snowflake_rounded_proxy_poll_total", map[string]string{"nat": f[1], "status": "idle"}, v)
		case "pollmatched":
			expectProm("snowflake_rounded_proxy_poll_total", map[string]string{"nat": f[1], "status": "matched"}, v)
		case "clientdenied":
			expectProm("snowflake_rounded_client_poll_total", map[string]string{"nat": f[1], "status": "denied"}, v)
		case "clientmatched":
			expectProm("snowflake_rounded_client_poll_total", map[string]string{"nat": f[1], "status": "matched"}, v)
		}
	}
	// every rounded sample present must be a multiple of 8, whether or not we expected it
	for k, v := range prom {
		if strings.HasPrefix(k, "snowflake_rounded_") && (v != math.Trunc(v) || int(v)%8 != 0) {
			res.Violate("c19:prometheus-count:not-multiple-of-8", fmt.Sprintf("%s: %s = %v", name, k, v), rec)
		}
	}
	if b.bin != nil {
		// a broker process prints its metrics log once per 24 h: only /prometheus is observable
		return
	}
	for _, line := range []string{"snowflake-idle-count", "snowflake-proxy-poll-with-relay-url-count", "snowflake-proxy-poll-without-relay-url-count", "snowflake-proxy-rejected-for-relay-url-count", "client-denied-count", "client-restricted-denied-count", "client-unrestricted-denied-count", "client-snowflake-match-count"} {
		truth := t.m["log|"+line]
		got, err := strconv.Atoi(logs[line])
		res.Obs("log_lines_checked", 1)
		if err != nil || got != ceil8(truth) {
			cls := "too-high"
			if err != nil || got < truth {
				cls = "too-low"
			} else if got%8 != 0 {
				cls = "not-multiple-of-8"
			}
			rec["metrics_log"] = logs
			res.Violate("c19:log-count:"+cls+":"+line, fmt.Sprintf("%s: metrics log %s = %q, true count %d, expected %d", name, line, logs[line], truth, ceil8(truth)), rec)
		}
	}
	// unique addresses per type
	perType := map[string]int{}
	for k := range t.addrs {
		perType[strings.SplitN(k, "|", 2)[0]]++
	}
	total := 0
	for _, n := range perType {
		total += n
	}
	for _, typ := range []string{"standalone", "webext", "badge", "iptproxy"} {
		got, err := strconv.Atoi(logs["snowflake-ips-"+typ])
		res.Obs("log_lines_checked", 1)
		if err != nil || got != perType[typ] {
			rec["metrics_log"] = logs
			res.Violate("c19:unique-addresses:per-type", fmt.Sprintf("%s: snowflake-ips-%s = %q, distinct admitted addresses of that type: %d", name, typ, logs["snowflake-ips-"+typ], perType[typ]), rec)
		}
	}
	if got, err := strconv.Atoi(logs["snowflake-ips-total"]); err != nil || got != total {
		rec["metrics_log"] = logs
		res.Violate("c19:unique-addresses:total", fmt.Sprintf("%s: snowflake-ips-total = %q, distinct (type,address) pairs: %d", name, logs["snowflake-ips-total"], total), rec)
	}
	for _, line := range []string{"snowflake-ips-nat-restricted", "snowflake-ips-nat-unrestricted", "snowflake-ips-nat-unknown"} {
		if got, err := strconv.Atoi(logs[line]); err != nil || got > total {
			res.Violate("c19:unique-addresses:nat-split", fmt.Sprintf("%s: %s = %q exceeds distinct admitted addresses %d", name, line, logs[line], total), rec)
		}
	}
}

func geoipPaths() (string, string) {
	repo := os.Getenv("VERIF_REPO")
	if repo == "" {
		repo = "/repo"
	}
	return filepath.Join(repo, "broker", "test_geoip"), filepath.Join(repo, "broker", "test_geoip6")
}

// (two zoned link-local addresses: net/http reports them with the zone, and no IP parser accepts that text)
var c19Addrs = []string{"129.97.208.23", "1.2.3.4", "8.8.8.8", "2001:db8::1", "127.0.0.1", "192.0.2.77", "2a00:1450:4001:81b::200e", "203.0.113.9", "10.1.2.3", "198.51.100.200", "fe80::1%eth0", "fe80::2%eth0", "fe80::1%eth1"}

// one accounting case: a broker instance with its own event multiset
func c19Case(res *vlib.Result, r *vlib.Rand, id int) {
	name := fmt.Sprintf("accounting/%d", id)
	presumed := "snowflake.test$"
	if r.Bool() {
		presumed = "^legacy-elsewhere.test$" // legacy polls get rejected
	}
	var bridges []vBridge
	if vBinaryMode {
		// the binary applies the relay patterns only together with a bridge list
		bridges = []vBridge{{FP: vDefaultFP, URL: "wss://relay.snowflake.test/"}}
	}
	b := newVBroker(7000+id, bridges, "snowflake.test$", presumed)
	defer b.stop(res, "C19")
	if b.bin == nil {
		g4, g6 := geoipPaths()
		if err := b.ctx.metrics.LoadGeoipDatabases(g4, g6); err != nil {
			res.Inconcl(name + ": cannot load test geoip databases: " + err.Error())
			return
		}
	}
	t := newTally()
	// counts 0..40 biased to sit around multiples of 8
	cnt := func() int {
		base := r.PickInt([]int{0, 8, 16, 24, 32})
		return base + r.PickInt([]int{-1, 0, 1, 0, 1, 7, 4})*boolInt(base > 0 || r.Bool())
	}
	okPat, badPat := "snowflake.test$", "^elsewhere.test$"
	mkPoll := func(i int, kind string) *pollSpec {
		p := &pollSpec{Sid: fmt.Sprintf("a%d-%s-%d-%x", id, kind, i, r.Uint64()), Type: r.PickString(typeChoices), NAT: r.PickString(natChoices)}
		p.Clients = r.PickInt([]int{0, 8, 16})
		p.Remote = fmt.Sprintf("%s", joinHostPort(r.PickString(c19Addrs), 1000+r.Intn(60000)))
		switch kind {
		case "rejected":
			p.Pattern = &badPat
			if presumed != "snowflake.test$" && r.Bool() {
				p.Pattern = nil // legacy poll, rejected by the presumed pattern
			}
		default:
			p.Pattern = &okPat
			if presumed == "snowflake.test$" && r.Bool() {
				p.Pattern = nil // legacy poll, admitted
			}
		}
		return p
	}
	hostOf := func(p *pollSpec) string {
		h := p.Remote[:strings.LastIndexByte(p.Remote, ':')]
		return strings.Trim(h, "[]")
	}
	var wg sync.WaitGroup
	concurrent := r.Bool()
	run := func(f func()) {
		if concurrent {
			wg.Add(1)
			go func() { defer wg.Done(); f() }()
		} else {
			f()
		}
	}
	// phase 1: denied clients (nobody is waiting) and rejected / undecodable polls
	nDenied, nRej, nBad := cnt(), cnt(), r.Intn(4)
	for i := 0; i < nDenied; i++ {
		c := &clientSpec{Transport: r.PickString([]string{"post", "legacy", "amp"}), NAT: r.PickString(natChoices), Offer: fmt.Sprintf(`{"type":"offer","sdp":"D-%d-%d"}`, id, i)}
		run(func() { observeClient(t, c, b.client(c)) })
	}
	for i := 0; i < nRej; i++ {
		p := mkPoll(i, "rejected")
		run(func() { observePoll(t, p, b.poll(p), "") })
	}
	for i := 0; i < nBad; i++ {
		p := &pollSpec{RawBody: []byte(r.PickString([]string{`{"Sid":"","Version":"1.3"}`, `not json`, `{"Sid":"x","Version":"2.0"}`, `{"Sid":"x","Version":"1.3","NAT":"bogus"}`}))}
		run(func() { observePoll(t, p, b.poll(p), "") })
		cbad := &clientSpec{Transport: "post", NAT: "bogus", Offer: "x"}
		run(func() { observeClient(t, cbad, b.client(cbad)) })
	}
	wg.Wait()
	// phase 2: matched pairs (and clients whose proxy never answers: matched but not an event)
	nMatch, nSilent := cnt(), r.Intn(3)
	var polls []*pollSpec
	for i := 0; i < nMatch+nSilent; i++ {
		p := mkPoll(i, "match")
		p.NAT = NATUnrestricted
		polls = append(polls, p)
	}
	var pwg sync.WaitGroup
	for i, p := range polls {
		pwg.Add(1)
		go func(i int, p *pollSpec) {
			defer pwg.Done()
			pr := b.poll(p)
			observePoll(t, p, pr, hostOf(p))
			if pr.Offer != "" && i < nMatch {
				b.answer(p.Sid, "ANS-"+p.Sid)
			}
		}(i, p)
	}
	if !waitUntil(8*time.Second, func() bool { return b.debugAvailable() == len(polls) }) {
		res.Inconcl(name + ": proxies did not register in time")
	}
	var cwg sync.WaitGroup
	for j := 0; j < len(polls); j++ {
		c := &clientSpec{Transport: r.PickString([]string{"post", "legacy", "amp"}), NAT: r.PickString([]string{"", NATUnknown, NATRestricted}), Offer: fmt.Sprintf(`{"type":"offer","sdp":"M-%d-%d"}`, id, j)}
		cwg.Add(1)
		f := func() { defer cwg.Done(); observeClient(t, c, b.client(c)) }
		if concurrent {
			go f()
		} else {
			go f()
			time.Sleep(time.Millisecond)
		}
	}
	cwg.Wait()
	pwg.Wait()
	// phase 3: idle polls (each waits the protocol's 10 s; all at once)
	nIdle := cnt()
	for i := 0; i < nIdle; i++ {
		p := mkPoll(i, "idle")
		wg.Add(1)
		go func() { defer wg.Done(); observePoll(t, p, b.poll(p), hostOf(p)) }()
	}
	wg.Wait()
	rec := map[string]interface{}{"case": name, "presumed_pattern": presumed, "concurrent": concurrent, "planned": map[string]int{"denied": nDenied, "rejected": nRej, "undecodable": nBad, "matched": nMatch, "matched_but_unanswered": nSilent, "idle": nIdle}}
	checkPublished(res, name, b, t, rec)
	res.Eval(1)
	res.Distinct(name)
	res.Obs("accounting_cases", 1)
	if concurrent {
		res.Obs("accounting_cases_concurrent", 1)
	}
	res.Sample(3, rec)

	// next period: the log figures restart from zero (as logMetrics does), Prometheus keeps counting
	if b.bin == nil {
		b.ctx.metrics.zeroMetrics()
	}
	t.mu.Lock()
	for k := range t.m {
		if strings.HasPrefix(k, "log|") {
			delete(t.m, k)
		}
	}
	t.addrs = map[string]bool{}
	t.mu.Unlock()
	n2 := r.Range(1, 9)
	for i := 0; i < n2; i++ {
		c := &clientSpec{Transport: "post", NAT: r.PickString(natChoices), Offer: fmt.Sprintf("P2-%d-%d", id, i)}
		observeClient(t, c, b.client(c))
	}
	// ... and proxies of every type, unrecognised ones included, poll again in the new
	// period (idle polls, all at once): the per-type and total unique-address figures
	// start over and must count them
	nIdle2 := r.Range(3, 7)
	for i := 0; i < nIdle2; i++ {
		p := mkPoll(i, "idle2")
		if i == 0 {
			p.Type = r.PickString([]string{"weird", "", "standalone-v2"}) // an unrecognised type at least once
		}
		wg.Add(1)
		go func() { defer wg.Done(); observePoll(t, p, b.poll(p), hostOf(p)) }()
	}
	wg.Wait()
	res.Obs("second_period_polls", int64(nIdle2))
	rec2 := map[string]interface{}{"case": name + "/second-period", "second_period_denied_clients": n2, "second_period_idle_polls": nIdle2}
	checkPublished(res, name+"/second-period", b, t, rec2)
	res.Obs("second_period_checks", 1)
}

func boolInt(b bool) int {
	if b {
		return 1
	}
	return 0
}

func joinHostPort(h string, port int) string {
	if strings.Contains(h, ":") {
		return fmt.Sprintf("[%s]:%d", h, port)
	}
	return fmt.Sprintf("%s:%d", h, port)
}

// the rounded counter type itself under concurrent Inc (hook delay between add and compare)
func c19Counter(res *vlib.Result, r *vlib.Rand, id int, workers, perWorker int, withDelay bool) {
	name := fmt.Sprintf("rounded-counter/%d", id)
	vec := NewRoundedCounterVec(prometheus.CounterOpts{Namespace: "verif", Name: fmt.Sprintf("c%d", id), Help: "x"}, []string{"k"})
	c := vec.With(prometheus.Labels{"k": "v"})
	if withDelay {
		var n uint64
		verifhook.Set("broker.roundedcounter.inc", func(args ...interface{}) {
			if atomic.AddUint64(&n, 1)%3 == 0 {
				time.Sleep(50 * time.Microsecond)
			}
		})
	} else {
		verifhook.Set("broker.roundedcounter.inc", nil)
	}
	stop := make(chan struct{})
	var rdWG sync.WaitGroup
	var badReads int64
	var sampleBad atomic.Value
	rdWG.Add(1)
	go func() {
		defer rdWG.Done()
		last := -1.0
		for {
			select {
			case <-stop:
				return
			default:
			}
			var m dto.Metric
			c.Write(&m)
			v := m.GetCounter().GetValue()
			if int(v)%8 != 0 || v < last {
				atomic.AddInt64(&badReads, 1)
				sampleBad.Store(fmt.Sprintf("read %v after %v", v, last))
			}
			last = v
			res.Obs("counter_reads", 1)
			time.Sleep(20 * time.Microsecond)
		}
	}()
	var wg sync.WaitGroup
	for w := 0; w < workers; w++ {
		wg.Add(1)
		go func() {
			defer wg.Done()
			for i := 0; i < perWorker; i++ {
				c.Inc()
			}
		}()
	}
	wg.Wait()
	close(stop)
	rdWG.Wait()
	var m dto.Metric
	c.Write(&m)
	total := workers * perWorker
	got := int(m.GetCounter().GetValue())
	rec := map[string]interface{}{"case": name, "workers": workers, "increments_each": perWorker, "hook_delay": withDelay, "final_value": got, "true_total": total}
	res.Eval(1)
	res.Distinct(name)
	res.Obs("counter_cases", 1)
	if workers > 1 {
		res.Obs("counter_cases_concurrent", 1)
	}
	if got != ceil8(total) {
		cls := "too-high"
		if got < total {
			cls = "too-low"
		}
		sig := "c19:rounded-counter:" + cls
		if workers > 1 {
			sig += ":concurrent-inc"
		}
		res.Violate(sig, fmt.Sprintf("%s: %d workers x %d Inc: value %d, true total %d, expected %d", name, workers, perWorker, got, total, ceil8(total)), rec)
	}
	if n := atomic.LoadInt64(&badReads); n > 0 {
		rec["bad_read"] = sampleBad.Load()
		res.Violate("c19:rounded-counter:reader-saw-non-multiple-or-decrease", fmt.Sprintf("%s: a concurrent reader saw %d bad values (%v)", name, n, sampleBad.Load()), rec)
	}
}

func TestVerifC19Broker(t *testing.T) {
	res := vlib.NewResult("C19", "inpkg-broker-c19", "PRNG multisets of polls/denials/matches/rejections per label combination (counts around multiples of 8, sequential and concurrent) driven through the real handlers with arbitrary remote addresses; true counts tallied from the responses; every metrics-log count line and every snowflake_rounded_* sample must equal ceil8(true), unique-address lines the distinct (type,address) pairs, figures reset after the period; plus the rounded counter under 1..16 concurrent incrementers; non-trivial = accounting case / counter case executed, distinct by case id")
	defer res.Finish()
	root := vlib.NewRand(vlib.Seed()).Split("c19")
	shard, nshards := vlib.Shard()
	n := vlib.Scale(16, 160)
	var wg sync.WaitGroup
	sem := make(chan struct{}, 24)
	for i := 0; i < n; i++ {
		if i%nshards != shard {
			continue
		}
		wg.Add(1)
		go func(i int) {
			defer wg.Done()
			sem <- struct{}{}
			c19Case(res, root.SplitN("case", i), i)
			<-sem
		}(i)
	}
	wg.Wait()
	// counter cases run one after another (the hook is process-global)
	nc := vlib.Scale(12, 80)
	for i := 0; i < nc; i++ {
		if i%nshards != shard {
			continue
		}
		r := root.SplitN("counter", i)
		workers := r.PickInt([]int{1, 2, 4, 16, 16})
		c19Counter(res, r, i, workers, r.Range(1, 60), i%2 == 0)
	}
	verifhook.Set("broker.roundedcounter.inc", nil)
	res.Note("hook_hits", verifhook.AllHits())
	res.RequireObs("accounting_cases", int64(n/nshards/2))
	res.RequireObs("accounting_cases_concurrent", 1)
	res.RequireObs("second_period_checks", 1)
	res.RequireObs("counts_not_multiple_of_8", 10)
	res.RequireObs("counter_cases_concurrent", 2)
	res.RequireObs("prometheus_samples_checked", 50)
	res.RequireObs("log_lines_checked", 100)
}

// The accounting cases against real broker processes over loopback TCP: polls
// come from distinct 127.0.0.0/8 source addresses, the test geoip databases are
// loaded by the binary itself, and the published figures are what an operator's
// Prometheus would scrape from /prometheus.
func TestVerifC19Binary(t *testing.T) {
	vBinaryMode = true
	vBinaryOpts = vBinOpts{Geoip: true}
	defer killAllBinaries()
	res := vlib.NewResult("C19", "inpkg-broker-c19-binary", "the accounting cases (PRNG multisets of polls/denials/matches/rejections per label combination, counts around multiples of 8, sequential and concurrent) driven over TCP into real broker processes; every snowflake_rounded_* sample scraped from /prometheus of the process must equal ceil8(true count); distinct by case id")
	defer res.Finish()
	root := vlib.NewRand(vlib.Seed()).Split("c19-binary")
	shard, nshards := vlib.Shard()
	n := vlib.Scale(8, 64)
	var wg sync.WaitGroup
	sem := make(chan struct{}, 16)
	for i := 0; i < n; i++ {
		if i%nshards != shard {
			continue
		}
		wg.Add(1)
		go func(i int) {
			defer wg.Done()
			sem <- struct{}{}
			c19Case(res, root.SplitN("case", i), 500+i)
			<-sem
		}(i)
	}
	wg.Wait()
	nj := vlib.Scale(6, 48)
	for i := 0; i < nj; i++ {
		if i%nshards != shard {
			continue
		}
		wg.Add(1)
		go func(i int) {
			defer wg.Done()
			sem <- struct{}{}
			c19JournalBinary(res, root.SplitN("journal", i), 900+i)
			<-sem
		}(i)
	}
	wg.Wait()
	res.RequireObs("accounting_cases", int64(n/nshards*7/10))
	res.RequireObs("counts_not_multiple_of_8", 5)
	res.RequireObs("prometheus_samples_checked", 30)
	res.RequireObs("binary_broker_processes", 1)
	res.RequireObs("journal_binary_cases_exact", int64(nj/nshards*7/10))
}

// c19JournalBinary: a broker process started with -ip-count-log (50 ms chunks,
// known key) receives proxy polls from distinct 127.0.0.0/8 source addresses in
// two phases A and B (B repeats some addresses of A). Ordering is by causality,
// not by clock: phase B starts only after /debug of the process shows every
// poll of phase A registered (the address is recorded before registration), and
// the instant tMid is taken in between; the writer cuts chunks lazily, so every
// chunk that starts after tMid holds phase-B addresses only. A final poll from
// one more address makes the writer flush what came before. The journal file
// written by the process, read back with the exported ClusterCounter, must
// estimate |A u B| over a window containing all chunks and |B| over the window
// starting at the first chunk cut after tMid (small sets are exact), and must
// not contain address text.
func c19JournalBinary(res *vlib.Result, r *vlib.Rand, id int) {
	name := fmt.Sprintf("journal-binary/%d", id)
	b := newVBrokerBinary(id, nil, "", "", vBinOpts{IPCount: true})
	b.bin.abandonOK = true // the idle polls (10 s each) are not waited for
	defer b.stop(res, "C19")
	t0 := time.Now().Add(-time.Hour)
	ka := r.PickInt([]int{1, 2, 3, 7, 8, 9, 20})
	kb := r.PickInt([]int{1, 2, 5, 8, 16})
	used := map[string]bool{}
	fresh := func() string {
		for {
			a := fmt.Sprintf("127.%d.%d.%d", 1+r.Intn(200), r.Intn(250), 2+r.Intn(250))
			if !used[a] {
				used[a] = true
				return a
			}
		}
	}
	var setA, setB []string
	for i := 0; i < ka; i++ {
		setA = append(setA, fresh())
	}
	inB := map[string]bool{}
	for i := 0; i < kb; i++ {
		var a string
		if r.Bool() {
			a = setA[r.Intn(len(setA))] // seen before, in an earlier chunk
		} else {
			a = fresh()
		}
		if !inB[a] {
			inB[a] = true
			setB = append(setB, a)
		}
	}
	union := map[string]bool{}
	for _, a := range setA {
		union[a] = true
	}
	for _, a := range setB {
		union[a] = true
	}
	sent := 0
	fire := func(a string, n int) {
		for j := 0; j < n; j++ {
			sid := fmt.Sprintf("j%d-%s-%d-%x", id, a, sent, r.Uint64())
			ps := &pollSpec{Sid: sid, Type: r.PickString(typeChoices), NAT: r.PickString(natChoices), Remote: a + ":1"}
			sent++
			go b.poll(ps) // the poll itself waits up to 10 s for a client; the address is recorded on arrival
		}
	}
	rec := map[string]interface{}{"case": name, "phase_a": setA, "phase_b": setB, "distinct_union": len(union)}
	res.Eval(1)
	for _, a := range setA {
		fire(a, r.Range(1, 3))
	}
	if !waitUntil(8*time.Second, func() bool { return b.debugAvailable() == sent }) {
		res.Inconcl(name + ": phase A polls did not register within 8 s")
		return
	}
	tMid := time.Now()
	time.Sleep(120 * time.Millisecond)
	for _, a := range setB {
		fire(a, r.Range(1, 2))
	}
	if !waitUntil(8*time.Second, func() bool { return b.debugAvailable() == sent }) {
		res.Inconcl(name + ": phase B polls did not register within 8 s")
		return
	}
	time.Sleep(120 * time.Millisecond)
	flusher := "127.250.250.250"
	sent++
	go b.poll(&pollSpec{Sid: fmt.Sprintf("j%d-flusher", id), Type: "standalone", NAT: NATUnknown, Remote: flusher + ":1"})
	if !waitUntil(8*time.Second, func() bool { return b.debugAvailable() == sent }) {
		res.Inconcl(name + ": the flushing poll did not register within 8 s")
		return
	}
	jpath := filepath.Join(b.bin.dir, "ipcount.log")
	data, err := ioutil.ReadFile(jpath)
	if err != nil || len(data) == 0 {
		res.Violatef("journal:binary:not-written", rec, "%s: the broker process wrote no journal although %d polls arrived over %d chunk intervals", name, sent, 5)
		return
	}
	for a := range used {
		if bytes.Contains(data, []byte(a)) {
			res.Violatef("journal:binary:address-in-clear", rec, "%s: the journal contains the address text %q", name, a)
		}
	}
	// first chunk cut after tMid
	var startB time.Time
	for _, ln := range bytes.Split(data, []byte("\n")) {
		var e sinkcluster.SinkEntry
		if len(ln) == 0 || json.Unmarshal(ln, &e) != nil {
			continue
		}
		if e.RecordingStart.After(tMid) && (startB.IsZero() || e.RecordingStart.Before(startB)) {
			startB = e.RecordingStart
		}
	}
	far := time.Now().Add(time.Hour)
	all, err := sinkcluster.NewClusterCounter(t0, far).Count(bytes.NewReader(data))
	if err != nil {
		res.Violatef("journal:binary:unreadable", rec, "%s: the journal written by the broker process cannot be counted: %v", name, err)
		return
	}
	rec["chunks"] = all.ChunkIncluded
	res.Obs("journal_binary_chunks", all.ChunkIncluded)
	exact := func(addrs []string, want int) bool {
		// the (rare, deterministic) case where the sketch itself cannot tell the
		// addresses apart: the same set fed into a fresh sink with the same key
		ref := ipsetsink.NewIPSetSink("verif-key")
		for _, a := range addrs {
			ref.AddIPToSet(a)
		}
		dump, _ := ref.Dump()
		var buf bytes.Buffer
		buf.WriteString(`{"recordingStart":"2000-01-01T00:00:00Z","recordingEnd":"2000-01-01T00:00:01Z","recorded":"`)
		buf.WriteString(base64.StdEncoding.EncodeToString(dump))
		buf.WriteString("\"}\n")
		rc, rerr := sinkcluster.NewClusterCounter(time.Time{}, time.Now()).Count(&buf)
		return rerr == nil && int(rc.Sum) == want
	}
	var unionList []string
	for a := range union {
		unionList = append(unionList, a)
	}
	okAll, okB := true, true
	if int(all.Sum) != len(union) {
		if !exact(unionList, len(union)) {
			res.Obs("journal_binary_cases_with_sketch_collision", 1)
			return
		}
		okAll = false
		rec["estimate_all"] = all.Sum
		res.Violatef("journal:binary:estimate-differs-from-distinct-addresses", rec, "%s: %d distinct source addresses polled the broker process; its journal (%d chunks) is counted as %d", name, len(union), all.ChunkIncluded, all.Sum)
	}
	if startB.IsZero() {
		res.Violatef("journal:binary:no-chunk-after-phase-a", rec, "%s: no chunk starts after phase A although phase B and the flushing poll came more than two chunk intervals later", name)
		return
	}
	wb, err := sinkcluster.NewClusterCounter(startB, far).Count(bytes.NewReader(data))
	if err == nil && int(wb.Sum) != len(setB) {
		if !exact(setB, len(setB)) {
			res.Obs("journal_binary_cases_with_sketch_collision", 1)
			return
		}
		okB = false
		rec["estimate_phase_b_window"] = wb.Sum
		rec["chunks_in_phase_b_window"] = wb.ChunkIncluded
		res.Violatef("journal:binary:window-estimate-differs:address-seen-in-earlier-chunk", rec, "%s: %d distinct addresses polled during the chunks after phase A (some of them had also polled in phase A); the journal counts %d for that window (%d chunks)", name, len(setB), wb.Sum, wb.ChunkIncluded)
	}
	if okAll && okB {
		res.Obs("journal_binary_cases_exact", 1)
		res.Distinct(name)
	}
	if id%7 == 0 {
		res.Sample(1, rec)
	}
}
