// Shared scaffolding of the in-package broker monitors (C02 C03 C04 C06b C11b C19).
// Injected into /repo/broker with `go test -overlay`; go 1.13 language level.
package main

import (
	"bytes"
	"encoding/base64"
	"encoding/hex"
	"encoding/json"
	"fmt"
	"io/ioutil"
	"log"
	"net/http"
	"net/http/httptest"
	"strings"
	"sync"
	"time"

	"git.torproject.org/pluggable-transports/snowflake.git/v2/common/amp"
	"git.torproject.org/pluggable-transports/snowflake.git/v2/common/messages"
	"github.com/prometheus/client_golang/prometheus/promhttp"
	"verif/vlib"
)

const vDefaultFP = "2B280B23E1107BB62ABFC40DDCC8824814F80A72"

type vBridge struct {
	FP  string // upper-case hex
	URL string
	// Sparse: how the record is written in the list file. 0 = all three
	// members; 1 = no webSocketAddress member (URL must be ""); 2 =
	// webSocketAddress null (URL must be ""); 3 = no displayName member
	Sparse int
}

// line renders the record as one line of a bridge list file.
func (br vBridge) line() []byte {
	fp, _ := json.Marshal(br.FP)
	u, _ := json.Marshal(br.URL)
	switch br.Sparse {
	case 1:
		return []byte(`{"displayName":"b","fingerprint":` + string(fp) + "}\n")
	case 2:
		return []byte(`{"displayName":"b","webSocketAddress":null,"fingerprint":` + string(fp) + "}\n")
	case 3:
		return []byte(`{"fingerprint":` + string(fp) + `,"webSocketAddress":` + string(u) + "}\n")
	}
	return []byte(`{"displayName":"b","webSocketAddress":` + string(u) + `,"fingerprint":` + string(fp) + "}\n")
}

// vBroker is one independent broker instance wired exactly as main() wires it.
type vBroker struct {
	id       int
	ctx      *BrokerContext
	ipc      *IPC
	mux      *http.ServeMux
	bridges  []vBridge
	metricsW *syncBuffer
	bin      *vBinary // non-nil: a real broker process (binary_test.go); ctx, ipc, mux are nil then
}

type syncBuffer struct {
	mu sync.Mutex
	b  bytes.Buffer
}

func (s *syncBuffer) Write(p []byte) (int, error) {
	s.mu.Lock()
	defer s.mu.Unlock()
	return s.b.Write(p)
}
func (s *syncBuffer) String() string {
	s.mu.Lock()
	defer s.mu.Unlock()
	return s.b.String()
}
func (s *syncBuffer) Reset() {
	s.mu.Lock()
	s.b.Reset()
	s.mu.Unlock()
}

// newVBroker builds a broker; bridges == nil keeps the built-in default list.
func newVBroker(id int, bridges []vBridge, allowed, presumed string) *vBroker {
	if vBinaryMode {
		return newVBrokerBinary(id, bridges, allowed, presumed, vBinaryOpts)
	}
	mw := &syncBuffer{}
	ctx := NewBrokerContext(log.New(mw, "", 0))
	b := &vBroker{id: id, ctx: ctx, metricsW: mw}
	if bridges != nil {
		var sb strings.Builder
		for _, br := range bridges {
			sb.Write(br.line())
		}
		if err := ctx.InstallBridgeListProfile(strings.NewReader(sb.String()), allowed, presumed); err != nil {
			panic("harness: bridge list rejected: " + err.Error())
		}
		b.bridges = bridges
	} else {
		ctx.allowedRelayPattern = allowed
		ctx.presumedPatternForLegacyClient = presumed
		b.bridges = []vBridge{{FP: vDefaultFP, URL: "wss://snowflake.torproject.net/"}}
	}
	go ctx.Broker()
	i := &IPC{ctx}
	b.ipc = i
	mux := http.NewServeMux()
	mux.HandleFunc("/robots.txt", robotsTxtHandler)
	mux.Handle("/proxy", SnowflakeHandler{i, proxyPolls})
	mux.Handle("/client", SnowflakeHandler{i, clientOffers})
	mux.Handle("/answer", SnowflakeHandler{i, proxyAnswers})
	mux.Handle("/debug", SnowflakeHandler{i, debugHandler})
	mux.Handle("/metrics", MetricsHandler{"", metricsHandler})
	mux.Handle("/prometheus", promhttp.HandlerFor(ctx.metrics.promMetrics.registry, promhttp.HandlerOpts{}))
	mux.Handle("/amp/client/", SnowflakeHandler{i, ampClientOffers})
	b.mux = mux
	return b
}

func (b *vBroker) bridgeURL(fp string) (string, bool) {
	for _, br := range b.bridges {
		if strings.EqualFold(br.FP, fp) {
			return br.URL, true
		}
	}
	return "", false
}

// do performs one request in-process through the mux (the same handlers and
// routing the binary uses; no sockets, so thousands may be in flight).
func (b *vBroker) do(method, path string, hdr map[string]string, body []byte, remote string) (int, []byte) {
	if b.bin != nil {
		return b.bin.do(method, path, hdr, body, remote)
	}
	req := httptest.NewRequest(method, "http://broker.test"+path, bytes.NewReader(body))
	if remote != "" {
		req.RemoteAddr = remote
	}
	for k, v := range hdr {
		req.Header.Set(k, v)
	}
	rec := httptest.NewRecorder()
	b.mux.ServeHTTP(rec, req)
	res := rec.Result()
	out, _ := ioutil.ReadAll(res.Body)
	return res.StatusCode, out
}

// ---- wire-level actors ------------------------------------------------------

type pollSpec struct {
	Sid     string  `json:"sid"`
	Type    string  `json:"type"`
	NAT     string  `json:"nat"` // "" = field absent
	Clients int     `json:"clients"`
	Pattern *string `json:"pattern"` // nil = legacy (no field)
	Remote  string  `json:"remote,omitempty"`
	RawBody []byte  `json:"-"`
}

type pollResult struct {
	HTTP     int    `json:"http"`
	Status   string `json:"status"`
	Offer    string `json:"offer,omitempty"`
	NAT      string `json:"nat,omitempty"`
	RelayURL string `json:"relay_url,omitempty"`
	Raw      string `json:"raw,omitempty"`
}

func (p *pollSpec) body() []byte {
	if p.RawBody != nil {
		return p.RawBody
	}
	m := map[string]interface{}{"Sid": p.Sid, "Version": "1.3", "Type": p.Type, "Clients": p.Clients}
	if p.NAT != "" {
		m["NAT"] = p.NAT
	}
	if p.Pattern != nil {
		m["AcceptedRelayPattern"] = *p.Pattern
	}
	j, _ := json.Marshal(m)
	return j
}

func (b *vBroker) poll(p *pollSpec) pollResult {
	st, out := b.do("POST", "/proxy", nil, p.body(), p.Remote)
	r := pollResult{HTTP: st}
	if st != 200 {
		r.Raw = string(out)
		return r
	}
	var m struct {
		Status   string
		Offer    string
		NAT      string
		RelayURL string
	}
	if err := json.Unmarshal(out, &m); err != nil {
		r.Raw = string(out)
		return r
	}
	r.Status, r.Offer, r.NAT, r.RelayURL = m.Status, m.Offer, m.NAT, m.RelayURL
	return r
}

func (b *vBroker) answer(sid, answer string) (int, string) {
	j, _ := json.Marshal(map[string]string{"Version": "1.3", "Sid": sid, "Answer": answer})
	st, out := b.do("POST", "/answer", nil, j, "")
	if st != 200 {
		return st, string(out)
	}
	var m struct{ Status string }
	json.Unmarshal(out, &m)
	return st, m.Status
}

type clientSpec struct {
	Transport string `json:"transport"` // post | legacy | amp
	NAT       string `json:"nat"`       // "" = absent
	FP        string `json:"fp"`        // "" = absent
	Offer     string `json:"offer"`
	Pad       string `json:"pad,omitempty"` // AMP cache-breaking padding
	// FixedPad: the path is built with exactly Pad (also when empty) as its
	// cache-breaking token; several clients of a history may then share it
	// (the token is filler that the broker must not take for an identity)
	FixedPad bool `json:"fixed_pad,omitempty"`
}

type clientResult struct {
	HTTP   int    `json:"http"`
	Answer string `json:"answer,omitempty"`
	Error  string `json:"error,omitempty"`
	Raw    string `json:"raw,omitempty"`
}

func (c *clientSpec) pollBody() []byte {
	m := map[string]string{"offer": c.Offer}
	if c.NAT != "" {
		m["nat"] = c.NAT
	}
	if c.FP != "" {
		m["fingerprint"] = c.FP
	}
	j, _ := json.Marshal(m)
	return append([]byte("1.0\n"), j...)
}

func (b *vBroker) client(c *clientSpec) clientResult {
	switch c.Transport {
	case "legacy":
		hdr := map[string]string{}
		if c.NAT != "" {
			hdr["Snowflake-NAT-Type"] = c.NAT
		}
		st, out := b.do("POST", "/client", hdr, []byte(c.Offer), "")
		r := clientResult{HTTP: st}
		switch st {
		case 200:
			r.Answer = string(out)
		case http.StatusServiceUnavailable:
			r.Error = messages.StrNoProxies
		case http.StatusGatewayTimeout:
			r.Error = messages.StrTimedOut
		default:
			r.Raw = string(out)
		}
		return r
	case "amp":
		path := "/amp/client/" + amp.EncodePath(c.pollBody())
		if c.Pad != "" || c.FixedPad {
			path = "/amp/client/0" + c.Pad + "/" + base64.RawURLEncoding.EncodeToString(c.pollBody())
		}
		st, out := b.do("GET", path, nil, nil, "")
		r := clientResult{HTTP: st}
		if st != 200 {
			r.Raw = string(out)
			return r
		}
		dec, err := amp.NewArmorDecoder(bytes.NewReader(out))
		if err != nil {
			r.Raw = "unarmor: " + err.Error()
			return r
		}
		plain, err := ioutil.ReadAll(dec)
		if err != nil {
			r.Raw = "unarmor: " + err.Error()
			return r
		}
		return parseClientJSON(st, plain)
	default:
		st, out := b.do("POST", "/client", nil, c.pollBody(), "")
		if st != 200 {
			return clientResult{HTTP: st, Raw: string(out)}
		}
		return parseClientJSON(st, out)
	}
}

func parseClientJSON(st int, out []byte) clientResult {
	r := clientResult{HTTP: st}
	var m struct {
		Answer string `json:"answer"`
		Error  string `json:"error"`
	}
	if err := json.Unmarshal(out, &m); err != nil {
		r.Raw = string(out)
		return r
	}
	r.Answer, r.Error = m.Answer, m.Error
	return r
}

// ---- state probes -----------------------------------------------------------

// debugAvailable parses "current snowflakes available: N" from /debug.
func (b *vBroker) debugAvailable() int {
	_, out := b.do("GET", "/debug", nil, nil, "")
	var n int
	fmt.Sscanf(string(out), "current snowflakes available: %d", &n)
	return n
}

// gaugeSum sums snowflake_available_proxies over all label sets.
func (b *vBroker) gaugeSum() float64 {
	if b.bin != nil {
		return b.bin.gaugeSum()
	}
	mfs, err := b.ctx.metrics.promMetrics.registry.Gather()
	if err != nil {
		return -1
	}
	var s float64
	for _, mf := range mfs {
		if mf.GetName() == "snowflake_available_proxies" {
			for _, m := range mf.GetMetric() {
				s += m.GetGauge().GetValue()
			}
		}
	}
	return s
}

// internals reads heap and map sizes under the broker's own lock.
func (b *vBroker) internals() (unrestricted, restricted, ids int) {
	if b.bin != nil {
		return 0, 0, 0 // not observable from outside the process; /debug and the gauge are
	}
	b.ctx.snowflakeLock.Lock()
	defer b.ctx.snowflakeLock.Unlock()
	return b.ctx.snowflakes.Len(), b.ctx.restrictedSnowflakes.Len(), len(b.ctx.idToSnowflake)
}

func randFP(r *vlib.Rand, n int) string {
	return strings.ToUpper(hex.EncodeToString(r.Bytes(n)))
}

func waitUntil(d time.Duration, f func() bool) bool {
	deadline := time.Now().Add(d)
	for {
		if f() {
			return true
		}
		if time.Now().After(deadline) {
			return false
		}
		time.Sleep(2 * time.Millisecond)
	}
}

// eligiblePool names the proxy pool a client NAT type is served from.
func eligiblePool(clientNAT string) string {
	if clientNAT == NATUnrestricted {
		return "restricted-or-unknown"
	}
	return "unrestricted"
}

func proxyPool(proxyNAT string) string {
	if proxyNAT == NATUnrestricted {
		return "unrestricted"
	}
	return "restricted-or-unknown"
}
