// C06(b) — the broker rejects every poll whose (presumed) accepted-relay
// pattern is not a superset of the broker's allowed pattern and never gives
// such a proxy a client.
package main

import (
	"fmt"
	"strings"
	"sync"
	"testing"
	"time"

	"verif/vlib"
)

// independent reference of the documented pattern semantics
type refPattern struct {
	exact bool
	s     string
}

func refParse(p string) refPattern {
	p = strings.TrimSuffix(p, "$")
	if strings.HasPrefix(p, "^") {
		return refPattern{true, p[1:]}
	}
	return refPattern{false, p}
}

func (p refPattern) member(h string) bool {
	if p.exact {
		return h == p.s
	}
	return strings.HasSuffix(h, p.s)
}

var c06Stock = []string{"snowflake.torproject.net", "torproject.net", ".torproject.net", "net", "example.com", "snowflake.example.com", "", "t", "xsnowflake.torproject.net"}

func c06Universe() []string {
	var u []string
	for _, s := range c06Stock {
		u = append(u, s, "a"+s, "zz."+s, "q-"+s+".evil.org")
	}
	return u
}

// refSuperset: a accepts every host b accepts, decided on a universe that
// contains, for every stock suffix, the suffix itself and two extensions of it
func refSuperset(a, b refPattern, u []string) bool {
	for _, h := range u {
		if b.member(h) && !a.member(h) {
			return false
		}
	}
	return true
}

func c06Pattern(r *vlib.Rand) string {
	s := r.PickString(c06Stock)
	p := s
	if r.Chance(1, 3) {
		p = "^" + p
	}
	if r.Chance(4, 5) {
		p += "$"
	}
	return p
}

func c06bCase(res *vlib.Result, r *vlib.Rand, id int) {
	u := c06Universe()
	allowed, presumed := c06Pattern(r), c06Pattern(r)
	b := newVBroker(8000+id, nil, allowed, presumed)
	n := r.Range(3, 8)
	type pl struct {
		spec    *pollSpec
		expect  bool // admitted
		res     pollResult
		pattern string
	}
	var pls []*pl
	admitted := 0
	for i := 0; i < n; i++ {
		p := &pl{spec: &pollSpec{Sid: fmt.Sprintf("r%d-%d", id, i), Type: "standalone", NAT: NATUnrestricted}}
		eff := presumed
		if r.Chance(3, 4) {
			pat := c06Pattern(r)
			p.spec.Pattern = &pat
			eff = pat
		}
		p.pattern = eff
		p.expect = refSuperset(refParse(eff), refParse(allowed), u)
		if p.expect {
			admitted++
		}
		pls = append(pls, p)
	}
	var wg sync.WaitGroup
	for _, p := range pls {
		wg.Add(1)
		go func(p *pl) {
			defer wg.Done()
			p.res = b.poll(p.spec)
			if p.res.Offer != "" {
				b.answer(p.spec.Sid, "A-"+p.spec.Sid)
			}
		}(p)
	}
	// clients arrive concurrently with the polls: more clients than admitted proxies
	nClients := admitted + 2
	var cwg sync.WaitGroup
	cres := make([]clientResult, nClients)
	for j := 0; j < nClients; j++ {
		cwg.Add(1)
		go func(j int) {
			defer cwg.Done()
			time.Sleep(time.Duration(20+j*15) * time.Millisecond)
			c := clientSpec{Transport: "post", NAT: NATRestricted, Offer: fmt.Sprintf("O-%d-%d", id, j)}
			cres[j] = b.client(&c)
		}(j)
	}
	cwg.Wait()
	done := make(chan struct{})
	go func() { wg.Wait(); close(done) }()
	select {
	case <-done:
	case <-time.After(40 * time.Second):
		res.Inconcl(fmt.Sprintf("c06b/%d: polls did not return", id))
		return
	}
	type row struct {
		Effective string `json:"effective_pattern"`
		Legacy    bool   `json:"legacy_poll"`
		Expect    bool   `json:"reference_superset"`
		Status    string `json:"status"`
		GotOffer  bool   `json:"got_offer"`
	}
	var rows []row
	for _, p := range pls {
		rows = append(rows, row{p.pattern, p.spec.Pattern == nil, p.expect, p.res.Status, p.res.Offer != ""})
	}
	rec := map[string]interface{}{"case": fmt.Sprintf("c06b/%d", id), "allowed": allowed, "presumed_for_legacy": presumed, "polls": rows}
	res.Eval(1)
	for _, p := range pls {
		legacy := ""
		if p.spec.Pattern == nil {
			legacy = ":legacy-poll"
			res.Obs("legacy_polls", 1)
		}
		if !p.expect {
			res.Obs("polls_reference_rejects", 1)
			if p.res.Offer != "" {
				res.Violate("c06:broker-gave-client-to-non-superset-proxy"+legacy, fmt.Sprintf("poll with effective pattern %q received a client although the allowed pattern is %q", p.pattern, allowed), rec)
			} else if p.res.Status != "incorrect relay pattern" {
				res.Violate("c06:broker-did-not-reject-non-superset-poll"+legacy, fmt.Sprintf("poll with effective pattern %q (allowed %q) got status %q / HTTP %d instead of an explicit rejection", p.pattern, allowed, p.res.Status, p.res.HTTP), rec)
			}
		} else {
			res.Obs("polls_reference_admits", 1)
			if p.res.Status == "incorrect relay pattern" {
				res.Violate("c06:broker-rejected-superset-poll"+legacy, fmt.Sprintf("poll with effective pattern %q was rejected although it is a superset of the allowed pattern %q", p.pattern, allowed), rec)
			}
		}
	}
	if admitted > 0 && n-admitted > 0 {
		res.Distinct(fmt.Sprintf("c06b/%d", id))
	}
	res.Sample(3, rec)
}

func TestVerifC06b(t *testing.T) {
	res := vlib.NewResult("C06", "inpkg-broker-c06b", "PRNG broker configurations (allowed pattern, presumed pattern for legacy polls) and proxy polls (own pattern or legacy) from a stock of overlapping suffixes with/without ^ and $; expected admission from an independent brute-force reference (superset decided on a host universe); clients arrive concurrently; non-trivial = configuration with both admitted and rejected polls, distinct by case id")
	defer res.Finish()
	root := vlib.NewRand(vlib.Seed()).Split("c06b")
	n := vlib.Scale(150, 2000)
	var wg sync.WaitGroup
	sem := make(chan struct{}, 64)
	for i := 0; i < n; i++ {
		wg.Add(1)
		go func(i int) {
			defer wg.Done()
			sem <- struct{}{}
			c06bCase(res, root.SplitN("case", i), i)
			<-sem
		}(i)
	}
	wg.Wait()
	res.RequireObs("polls_reference_rejects", 100)
	res.RequireObs("polls_reference_admits", 100)
	res.RequireObs("legacy_polls", 50)
}
