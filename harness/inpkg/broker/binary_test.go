// Binary mode of the broker monitors: the same generators, actors and offline
// checkers as the in-process parts, but every request goes over a real TCP
// connection to a real `broker` process (built by vcheck from the tree under
// test with -race -tags verif, started with the flags an operator uses:
// -disable-tls -addr -bridge-list-path -allowed-relay-pattern
// -default-relay-pattern -metrics-log [-geoipdb -geoip6db | -disable-geoip]
// [-ip-count-log ...]). This is the boundary the properties name ("HTTP
// endpoints of the broker binary"): flag parsing, main()'s handler wiring,
// net/http's server, real sockets and connection reuse are inside the system
// under observation. State is observed only through /debug and /prometheus;
// goroutine dumps come from SIGQUIT.
package main

import (
	"bufio"
	"bytes"
	"context"
	"encoding/json"
	"fmt"
	"io/ioutil"
	"net"
	"net/http"
	"os"
	"os/exec"
	"path/filepath"
	"runtime"
	"strconv"
	"strings"
	"sync"
	"sync/atomic"
	"syscall"
	"testing"
	"time"

	"verif/vlib"
)

type vBinOpts struct {
	Geoip    bool   // load the repository's test geoip databases (else -disable-geoip)
	Hooks    string // VERIF_HOOKS for the broker process
	HookLog  bool   // VERIF_HOOKS_LOG into the broker's directory
	IPCount  bool   // -ip-count-log with a short interval
	Unsafe   bool   // -unsafe-logging
	ExtraEnv []string
}

var (
	vBinaryMode bool
	vBinaryOpts vBinOpts
)

type vBinary struct {
	id      int
	dir     string
	base    string
	cmd     *exec.Cmd
	hc      *http.Client
	hcFrom  *http.Client // one connection per request, bound to the loopback alias the request names
	errPath string
	mu      sync.Mutex
	stopped bool
	exited  chan struct{}
	// abandonOK: the harness ends the process with requests still in flight on purpose
	abandonOK bool
	// observations
	requests   int64
	transpErrs int64
	firstErr   atomic.Value // string
	maxLatNs   int64
}

// every broker process is started from one goroutine locked to one OS thread
// that lives as long as the test process, so that Pdeathsig (the backstop that
// kills brokers when the test process dies) is never triggered by the Go
// runtime retiring the thread that forked.
type spawnReq struct {
	cmd *exec.Cmd
	err chan error
}

var (
	spawnOnce sync.Once
	spawnCh   chan spawnReq
	binMu     sync.Mutex
	binAll    []*vBinary
	binSeq    int64
)

func spawner() {
	runtime.LockOSThread()
	for r := range spawnCh {
		r.err <- r.cmd.Start()
	}
}

func startCmd(cmd *exec.Cmd) error {
	spawnOnce.Do(func() {
		spawnCh = make(chan spawnReq)
		go spawner()
	})
	cmd.SysProcAttr = &syscall.SysProcAttr{Pdeathsig: syscall.SIGKILL}
	r := spawnReq{cmd, make(chan error, 1)}
	spawnCh <- r
	return <-r.err
}

func freePort() int {
	l, err := net.Listen("tcp", "127.0.0.1:0")
	if err != nil {
		panic("harness: no free port: " + err.Error())
	}
	p := l.Addr().(*net.TCPAddr).Port
	l.Close()
	return p
}

func newVBrokerBinary(id int, bridges []vBridge, allowed, presumed string, o vBinOpts) *vBroker {
	var lastErr string
	for attempt := 0; attempt < 5; attempt++ {
		b, err := tryStartBinary(id, bridges, allowed, presumed, o)
		if err == nil {
			return b
		}
		lastErr = err.Error()
	}
	panic("harness: broker binary did not start: " + lastErr)
}

func tryStartBinary(id int, bridges []vBridge, allowed, presumed string, o vBinOpts) (*vBroker, error) {
	seq := atomic.AddInt64(&binSeq, 1)
	dir := filepath.Join(os.Getenv("VERIF_SCRATCH"), fmt.Sprintf("brokerbin-%d-%d-%d", os.Getpid(), id, seq))
	if err := os.MkdirAll(dir, 0700); err != nil {
		return nil, err
	}
	port := freePort()
	addr := fmt.Sprintf("127.0.0.1:%d", port)
	args := []string{"-disable-tls", "-addr", addr, "-metrics-log", filepath.Join(dir, "metrics.log")}
	b := &vBroker{id: id}
	if bridges != nil {
		var sb strings.Builder
		for _, br := range bridges {
			sb.Write(br.line())
		}
		bl := filepath.Join(dir, "bridges.jsonl")
		if err := ioutil.WriteFile(bl, []byte(sb.String()), 0600); err != nil {
			return nil, err
		}
		args = append(args, "-bridge-list-path", bl, "-allowed-relay-pattern", allowed, "-default-relay-pattern", presumed)
		b.bridges = bridges
	} else {
		if allowed != "" || presumed != "" {
			panic("harness: the broker binary applies relay patterns only together with a bridge list")
		}
		b.bridges = []vBridge{{FP: vDefaultFP, URL: "wss://snowflake.torproject.net/"}}
	}
	if o.Geoip {
		repo := os.Getenv("VERIF_REPO")
		args = append(args, "-geoipdb", filepath.Join(repo, "broker", "test_geoip"), "-geoip6db", filepath.Join(repo, "broker", "test_geoip6"))
	} else {
		args = append(args, "-disable-geoip")
	}
	if o.IPCount {
		args = append(args, "-ip-count-log", filepath.Join(dir, "ipcount.log"), "-ip-count-mask", "verif-key", "-ip-count-interval", "50ms")
	}
	if o.Unsafe {
		args = append(args, "-unsafe-logging")
	}
	cmd := exec.Command(filepath.Join(os.Getenv("VERIF_BIN"), "broker"), args...)
	cmd.Dir = dir
	env := os.Environ()
	if o.Hooks != "" {
		env = append(env, "VERIF_HOOKS="+o.Hooks)
	}
	if o.HookLog {
		env = append(env, "VERIF_HOOKS_LOG="+filepath.Join(dir, "hooks.log"))
	}
	env = append(env, o.ExtraEnv...)
	cmd.Env = env
	errPath := filepath.Join(dir, "stderr.log")
	ef, err := os.Create(errPath)
	if err != nil {
		return nil, err
	}
	cmd.Stderr = ef
	cmd.Stdout = ef
	if err := startCmd(cmd); err != nil {
		ef.Close()
		return nil, err
	}
	ef.Close()
	vb := &vBinary{id: id, dir: dir, base: "http://" + addr, cmd: cmd, errPath: errPath, exited: make(chan struct{})}
	vb.hc = &http.Client{Transport: &http.Transport{MaxIdleConns: 4096, MaxIdleConnsPerHost: 2048, IdleConnTimeout: 5 * time.Minute}}
	vb.hcFrom = &http.Client{Transport: &http.Transport{DisableKeepAlives: true, DialContext: func(ctx context.Context, network, address string) (net.Conn, error) {
		d := net.Dialer{}
		if ip, ok := ctx.Value(localIPKey{}).(net.IP); ok && ip != nil {
			d.LocalAddr = &net.TCPAddr{IP: ip}
		}
		return d.DialContext(ctx, network, address)
	}}}
	go func() { cmd.Wait(); close(vb.exited) }()
	b.bin = vb
	binMu.Lock()
	binAll = append(binAll, vb)
	binMu.Unlock()
	// the listening socket on that port must be OUR process's (another check running
	// at the same time may have taken the port between freePort and the bind) ...
	if !vlib.WaitListener(cmd.Process.Pid, port, 30*time.Second, func() bool { return !vb.alive() }) {
		out, _ := ioutil.ReadFile(errPath)
		vb.kill()
		os.RemoveAll(dir)
		return nil, fmt.Errorf("broker process does not own a listener on port %d: %s", port, tailStr(string(out), 300))
	}
	// ... and ready when /robots.txt answers
	deadline := time.Now().Add(30 * time.Second)
	for {
		select {
		case <-vb.exited:
			out, _ := ioutil.ReadFile(errPath)
			return nil, fmt.Errorf("broker exited during start-up: %s", tailStr(string(out), 400))
		default:
		}
		resp, err := vb.hc.Get(vb.base + "/robots.txt")
		if err == nil {
			ioutil.ReadAll(resp.Body)
			resp.Body.Close()
			if resp.StatusCode == 200 {
				return b, nil
			}
		}
		if time.Now().After(deadline) {
			vb.kill()
			return nil, fmt.Errorf("broker did not answer /robots.txt within 30 s")
		}
		time.Sleep(20 * time.Millisecond)
	}
}

func tailStr(s string, n int) string {
	if len(s) > n {
		return s[len(s)-n:]
	}
	return s
}

type localIPKey struct{}

// loopbackAlias maps the host part of a "remote address" the in-process
// harness would have forged onto an address of 127.0.0.0/8 (every such address
// is local on lo, so the broker process really sees it as the peer address).
func loopbackAlias(remote string) net.IP {
	host, _, err := net.SplitHostPort(remote)
	if err != nil {
		host = remote
	}
	if ip := net.ParseIP(host); ip != nil && ip.To4() != nil && ip.To4()[0] == 127 {
		return ip.To4()
	}
	var h uint32 = 2166136261
	for i := 0; i < len(host); i++ {
		h = (h ^ uint32(host[i])) * 16777619
	}
	return net.IPv4(127, byte(h>>16), byte(h>>8), byte(h)|1)
}

func (v *vBinary) do(method, path string, hdr map[string]string, body []byte, remote string) (int, []byte) {
	atomic.AddInt64(&v.requests, 1)
	req, err := http.NewRequest(method, v.base+path, bytes.NewReader(body))
	if err != nil {
		return 0, []byte("harness: bad request: " + err.Error())
	}
	hc := v.hc
	if remote != "" {
		req = req.WithContext(context.WithValue(req.Context(), localIPKey{}, loopbackAlias(remote)))
		hc = v.hcFrom
	}
	for k, val := range hdr {
		req.Header.Set(k, val)
	}
	t0 := time.Now()
	resp, err := hc.Do(req)
	if err != nil {
		atomic.AddInt64(&v.transpErrs, 1)
		if v.firstErr.Load() == nil {
			v.firstErr.Store(method + " " + path + ": " + err.Error())
		}
		return 0, []byte("transport error: " + err.Error())
	}
	out, rerr := ioutil.ReadAll(resp.Body)
	resp.Body.Close()
	if rerr != nil {
		atomic.AddInt64(&v.transpErrs, 1)
		if v.firstErr.Load() == nil {
			v.firstErr.Store(method + " " + path + ": body: " + rerr.Error())
		}
		return 0, []byte("transport error: " + rerr.Error())
	}
	d := int64(time.Since(t0))
	for {
		old := atomic.LoadInt64(&v.maxLatNs)
		if d <= old || atomic.CompareAndSwapInt64(&v.maxLatNs, old, d) {
			break
		}
	}
	return resp.StatusCode, out
}

// gaugeSum scrapes /prometheus and sums snowflake_available_proxies.
func (v *vBinary) gaugeSum() float64 {
	st, out := v.do("GET", "/prometheus", nil, nil, "")
	if st != 200 {
		return -1
	}
	var s float64
	sc := bufio.NewScanner(bytes.NewReader(out))
	sc.Buffer(make([]byte, 1<<20), 1<<24)
	for sc.Scan() {
		ln := sc.Text()
		if strings.HasPrefix(ln, "snowflake_available_proxies") {
			f := strings.Fields(ln)
			if x, err := strconv.ParseFloat(f[len(f)-1], 64); err == nil {
				s += x
			}
		}
	}
	return s
}

// scrape returns every sample line of /prometheus keyed by "name{labels}".
func (v *vBinary) scrape() map[string]float64 {
	st, out := v.do("GET", "/prometheus", nil, nil, "")
	m := map[string]float64{}
	if st != 200 {
		return m
	}
	sc := bufio.NewScanner(bytes.NewReader(out))
	sc.Buffer(make([]byte, 1<<20), 1<<24)
	for sc.Scan() {
		ln := sc.Text()
		if ln == "" || ln[0] == '#' {
			continue
		}
		i := strings.LastIndexByte(ln, ' ')
		if i < 0 {
			continue
		}
		if x, err := strconv.ParseFloat(ln[i+1:], 64); err == nil {
			m[ln[:i]] = x
		}
	}
	return m
}

func (v *vBinary) alive() bool {
	select {
	case <-v.exited:
		return false
	default:
		return true
	}
}

func (v *vBinary) kill() {
	v.mu.Lock()
	defer v.mu.Unlock()
	if v.stopped {
		return
	}
	v.stopped = true
	if v.cmd.Process != nil {
		v.cmd.Process.Kill()
	}
	select {
	case <-v.exited:
	case <-time.After(10 * time.Second):
	}
	v.hc.CloseIdleConnections()
}

// quitDump sends SIGQUIT (the Go runtime prints every goroutine and exits) and
// returns what the process wrote to stderr.
func (v *vBinary) quitDump() string {
	v.mu.Lock()
	defer v.mu.Unlock()
	if !v.stopped {
		v.stopped = true
		if v.cmd.Process != nil {
			v.cmd.Process.Signal(syscall.SIGQUIT)
		}
		select {
		case <-v.exited:
		case <-time.After(30 * time.Second):
			v.cmd.Process.Kill()
		}
		v.hc.CloseIdleConnections()
	}
	out, _ := ioutil.ReadFile(v.errPath)
	return string(out)
}

func (v *vBinary) stderr() string {
	out, _ := ioutil.ReadFile(v.errPath)
	return string(out)
}

// stop ends a broker process (no-op for in-process brokers) and reports what
// the process itself said about its health: a panic, a fatal error, a handler
// panic recovered by net/http, or an exit nobody asked for.
func (b *vBroker) stop(res *vlib.Result, prop string) {
	if b.bin == nil {
		return
	}
	v := b.bin
	diedEarly := !v.alive()
	v.kill()
	txt := v.stderr()
	rec := map[string]interface{}{"case": fmt.Sprintf("binary/%d", b.id), "stderr_tail": tailStr(txt, 3000)}
	switch {
	case strings.Contains(txt, "http: panic serving"):
		res.Violate(strings.ToLower(prop)+":broker-binary:handler-panic", "the broker binary logged a handler panic", rec)
	case strings.Contains(txt, "\npanic: ") || strings.HasPrefix(txt, "panic: ") || strings.Contains(txt, "fatal error: "):
		res.Violate(strings.ToLower(prop)+":broker-binary:crash", "the broker binary crashed", rec)
	case diedEarly:
		res.Violate(strings.ToLower(prop)+":broker-binary:exited", "the broker binary exited on its own while in use", rec)
	}
	res.Obs("binary_broker_processes", 1)
	res.Obs("binary_http_requests", atomic.LoadInt64(&v.requests))
	res.ObsMax("binary_max_request_latency_ms", atomic.LoadInt64(&v.maxLatNs)/1e6)
	if n := atomic.LoadInt64(&v.transpErrs); n > 0 && !v.abandonOK {
		res.Obs("binary_transport_errors", n)
		fe, _ := v.firstErr.Load().(string)
		rec["first_transport_error"] = fe
		if prop == "C04" {
			res.Violate("c04:broker-binary:request-without-response", fmt.Sprintf("%d requests to the broker binary ended without an HTTP response (first: %s)", n, fe), rec)
		} else {
			res.Inconcl(fmt.Sprintf("binary broker %d: %d requests ended without an HTTP response (first: %s)", b.id, n, fe))
		}
	}
	os.RemoveAll(v.dir)
}

func killAllBinaries() {
	binMu.Lock()
	all := append([]*vBinary{}, binAll...)
	binMu.Unlock()
	for _, v := range all {
		v.kill()
	}
}

// hookLog parses VERIF_HOOKS_LOG lines "<ns> <point> <arg>" -> point -> set of args.
func (v *vBinary) hookLog() (map[string]map[string]bool, int) {
	out := map[string]map[string]bool{}
	data, err := ioutil.ReadFile(filepath.Join(v.dir, "hooks.log"))
	if err != nil {
		return out, 0
	}
	n := 0
	for _, ln := range strings.Split(string(data), "\n") {
		f := strings.Fields(ln)
		if len(f) < 2 {
			continue
		}
		n++
		arg := ""
		if len(f) >= 3 {
			arg = f[2]
		}
		if out[f[1]] == nil {
			out[f[1]] = map[string]bool{}
		}
		out[f[1]][arg] = true
	}
	return out, n
}

// parkedCountsIn classifies a goroutine dump text (SIGQUIT output of a broker
// process) the way parkedCounts does for the test process itself.
func parkedCountsIn(dump string) (clientSend, pollRecv, answerSend int, excerpt string) {
	i := strings.Index(dump, "SIGQUIT")
	if i >= 0 {
		dump = dump[i:]
	}
	for _, g := range vlib.ParseDump(dump) {
		if !g.Blocked() {
			continue
		}
		switch {
		case strings.HasPrefix(g.State, "chan send") && g.HasFrame("(*IPC).ClientOffers"):
			clientSend++
		case strings.HasPrefix(g.State, "chan receive") && g.HasFrame("(*BrokerContext).RequestOffer"):
			pollRecv++
		case strings.HasPrefix(g.State, "chan send") && g.HasFrame("(*IPC).ProxyAnswers"):
			answerSend++
		default:
			continue
		}
		if len(excerpt) < 3000 {
			excerpt += g.Raw + "\n"
		}
	}
	return
}

// ---- C02 / C03 over the binary --------------------------------------------------

func TestVerifC02Binary(t *testing.T) { runC02C03Binary(t, "C02") }
func TestVerifC03Binary(t *testing.T) { runC02C03Binary(t, "C03") }

func runC02C03Binary(t *testing.T, prop string) {
	vBinaryMode = true
	vBinaryOpts = vBinOpts{}
	defer killAllBinaries()
	rule := "as the in-process histories (PRNG concurrent histories of proxy polls, client polls over POST/legacy/AMP, prompt/late/never/stray answers), each against its own real broker process over loopback TCP; non-trivial = history with >=2 matched pairs whose client intervals overlap in time; distinct by history id"
	res := vlib.NewResult(prop, "inpkg-broker-"+strings.ToLower(prop)+"-binary", rule)
	defer res.Finish()
	root := vlib.NewRand(vlib.Seed()).Split("c02c03-binary")
	shard, nshards := vlib.Shard()
	nCtx := vlib.Scale(24, 160)
	clock := vlib.NewHistory()
	var hs []*hHistory
	for i := 0; i < nCtx; i++ {
		if i%nshards != shard {
			continue
		}
		hs = append(hs, genHistory(root.SplitN("hist", i), 20000+i))
	}
	var wg sync.WaitGroup
	sem := make(chan struct{}, 24)
	var mu sync.Mutex
	for _, h := range hs {
		wg.Add(1)
		go func(h *hHistory) {
			defer wg.Done()
			sem <- struct{}{}
			defer func() { <-sem }()
			b, ok := runHistory(h, clock)
			mu.Lock()
			defer mu.Unlock()
			res.Eval(1)
			if !ok {
				h.Open = 1
				res.Obs("histories_with_open_operations", 1)
				res.Inconcl(fmt.Sprintf("binary history ctx %d: an operation was still open after 60 s (bounded completion is C04's concern)", h.Ctx))
				b.stop(res, prop)
				return
			}
			if prop == "C02" {
				checkC02(res, h, b)
			} else {
				checkC03Pairing(res, h)
				checkC03Linearizable(res, h)
			}
			if historyHasOverlap(h) {
				res.Distinct(fmt.Sprintf("hist/%d", h.Ctx))
				res.Obs("histories_with_overlapping_matches", 1)
			}
			res.Obs("histories", 1)
			for _, c := range h.Clients {
				res.Obs("client_polls_"+c.Spec.Transport, 1)
			}
			if res.GetObs("histories") <= 1 {
				j, _ := json.Marshal(h)
				var v interface{}
				json.Unmarshal(j, &v)
				res.Sample(1, v)
			}
			b.stop(res, prop)
		}(h)
	}
	wg.Wait()
	if prop == "C03" {
		nLO := vlib.Scale(8, 64)
		var lwg sync.WaitGroup
		lsem := make(chan struct{}, 16)
		for i := 0; i < nLO; i++ {
			if i%nshards != shard {
				continue
			}
			lwg.Add(1)
			go func(i int) {
				defer lwg.Done()
				lsem <- struct{}{}
				defer func() { <-lsem }()
				checkLoadOrder(res, root.SplitN("loadorder", i), 120000+i)
			}(i)
		}
		for i := 0; i < vlib.Scale(4, 24); i++ {
			if i%nshards != shard {
				continue
			}
			lwg.Add(1)
			go func(i int) {
				defer lwg.Done()
				lsem <- struct{}{}
				defer func() { <-lsem }()
				checkOddNAT(res, root.SplitN("oddnat", i), 130000+i)
			}(i)
		}
		lwg.Wait()
		res.RequireObs("porcupine_ok", int64(len(hs)*6/10))
		res.RequireObs("loadorder_populations", 4)
	} else {
		res.RequireObs("matched_pairs", int64(len(hs)))
		res.RequireObs("clients_answered_post", 1)
		res.RequireObs("clients_answered_legacy", 1)
		res.RequireObs("clients_answered_amp", 1)
		res.RequireObs("clients_naming_absent_fingerprint", 1)
	}
	res.RequireObs("histories_with_overlapping_matches", int64(len(hs)*3/10))
	res.RequireObs("binary_broker_processes", int64(len(hs)))
}

func historyHasOverlap(h *hHistory) bool {
	var iv [][2]int64
	offers := map[string]bool{}
	for _, p := range h.Proxies {
		if p.Res.Offer != "" {
			offers[p.Res.Offer] = true
		}
	}
	for _, c := range h.Clients {
		if offers[c.Spec.Offer] {
			iv = append(iv, [2]int64{c.Call, c.Ret})
		}
	}
	for a := 0; a < len(iv); a++ {
		for bb := a + 1; bb < len(iv); bb++ {
			if iv[a][0] < iv[bb][1] && iv[bb][0] < iv[a][1] {
				return true
			}
		}
	}
	return false
}

// ---- C04 over the binary ----------------------------------------------------------

// Herds at the timeout boundary against real broker processes whose hook points
// are armed from the environment (delays widen the two windows); the hook log
// tells which session ids reached which point, so window hits are counted from
// what the broker process itself recorded. Stuck requests are judged from the
// SIGQUIT goroutine dump of the broker process.
func TestVerifC04Binary(t *testing.T) {
	vBinaryMode = true
	vBinaryOpts = vBinOpts{
		Hooks:   hProxyTimeout + "=sleep:12ms;" + hAnswerSend + "=sleep:12ms",
		HookLog: true,
	}
	defer killAllBinaries()
	res := vlib.NewResult("C04", "inpkg-broker-c04-binary", "herds against real broker processes over loopback TCP: P proxy polls start together, clients arrive 10 s +/- jitter later, matched proxies answer 10 s +/- jitter after their match; the broker's hook points delay the timeout branch and the answer hand-over by 12 ms and log the session ids that reach them; window hit = both hooks of a window logged for the same session id; non-trivial = pair whose window was hit, distinct by session id")
	defer res.Finish()
	root := vlib.NewRand(vlib.Seed()).Split("c04binary")
	shard, nshards := vlib.Shard()
	nCtx := vlib.Scale(4, 24)
	P := vlib.Scale(96, 192)
	type herd struct {
		b  *vBroker
		tr *tracker
	}
	var herds []*herd
	var wg sync.WaitGroup
	for ci := 0; ci < nCtx; ci++ {
		if ci%nshards != shard {
			continue
		}
		hd := &herd{b: newVBroker(7000+ci, nil, "", ""), tr: newTracker()}
		herds = append(herds, hd)
		wg.Add(1)
		go func(ci int, hd *herd) {
			defer wg.Done()
			r := root.SplitN("herd", ci)
			t0 := time.Now().Add(300 * time.Millisecond)
			for i := 0; i < P; i++ {
				sid := fmt.Sprintf("bh%d-p%d", ci, i)
				pj := time.Duration(r.Intn(4000)) * time.Microsecond
				aj := time.Duration(r.Intn(24000)-12000) * time.Microsecond
				hd.tr.run("proxy-poll", sid, func() string {
					time.Sleep(time.Until(t0.Add(pj)))
					pr := hd.b.poll(&pollSpec{Sid: sid, Type: "standalone", NAT: NATUnrestricted})
					if pr.Offer == "" {
						return fmt.Sprintf("%d %s", pr.HTTP, pr.Status)
					}
					m := time.Now()
					hd.tr.run("answer", sid, func() string {
						time.Sleep(time.Until(m.Add(10*time.Second + aj)))
						st, s := hd.b.answer(sid, "ANSWER-"+sid)
						return fmt.Sprintf("%d %s", st, s)
					})
					return "offer"
				})
			}
			for j := 0; j < P; j++ {
				cj := time.Duration(r.Intn(24000)-12000) * time.Microsecond
				off := fmt.Sprintf("OFFER-bh%d-c%d", ci, j)
				hd.tr.run("client-poll", "", func() string {
					time.Sleep(time.Until(t0.Add(10*time.Second + cj)))
					cr := hd.b.client(&clientSpec{Transport: "post", NAT: NATRestricted, Offer: off})
					return cr.Answer + cr.Error
				})
			}
		}(ci, hd)
	}
	wg.Wait()
	var jw sync.WaitGroup
	allDone := make([]bool, len(herds))
	for i, hd := range herds {
		jw.Add(1)
		go func(i int, hd *herd) { defer jw.Done(); allDone[i] = hd.tr.waitAll(80 * time.Second) }(i, hd)
	}
	jw.Wait()
	w1, w2 := 0, 0
	for i, hd := range herds {
		name := fmt.Sprintf("binary-herd/%d", i)
		rec := map[string]interface{}{"case": name, "scenario": name, "pairs": P}
		hl, nlines := hd.b.bin.hookLog()
		res.Obs("hook_log_lines", int64(nlines))
		for s := range hl[hProxyTimeout] {
			if hl[hClientPopped][s] {
				w1++
				res.Distinct("w1/" + s)
			}
		}
		for s := range hl[hClientTimeout] {
			if hl[hAnswerSend][s] {
				w2++
				res.Distinct("w2/" + s)
			}
		}
		if !allDone[i] {
			judgeOpenBinary(res, name, hd.tr, hd.b, rec)
		} else {
			checkQuiescent(res, name, hd.b, rec)
		}
		res.Eval(int64(P))
		outcomes := map[string]int{}
		for _, q := range hd.tr.snapshot() {
			k := q.Kind + ":" + q.Status
			if strings.HasPrefix(q.Status, "ANSWER-") {
				k = q.Kind + ":answered"
			}
			outcomes[k]++
		}
		rec["outcomes"] = outcomes
		res.Sample(2, rec)
		hd.b.stop(res, "C04")
	}
	res.Obs("herd_window_hits_proxy_timeout_vs_pop", int64(w1))
	res.Obs("herd_window_hits_answer_vs_client_timeout", int64(w2))
	res.Obs("herd_contexts", int64(len(herds)))
	res.RequireObs("hook_log_lines", 1)
	res.RequireObs("quiescence_checks", 1)
	// how many pairs fell into a window is an observation, not a requirement: on a
	// loaded machine the jittered arrivals may all miss it (the steered scenarios hit
	// both windows by construction); what is required is that the herds ran
	res.RequireObs("herd_contexts", 1)
}

func judgeOpenBinary(res *vlib.Result, scenario string, tr *tracker, b *vBroker, rec map[string]interface{}) {
	open := tr.open()
	if len(open) == 0 {
		return
	}
	dump := b.bin.quitDump()
	cs, pr, as, excerpt := parkedCountsIn(dump)
	kinds := map[string]int{}
	for _, o := range open {
		kinds[o.Kind]++
	}
	rec["open_requests"] = kinds
	rec["parked_goroutines"] = map[string]int{"ClientOffers:chan send": cs, "RequestOffer:chan receive": pr, "ProxyAnswers:chan send": as}
	rec["goroutines"] = excerpt
	rec["requests"] = tr.snapshot()
	stuck := []string{}
	if kinds["client-poll"] > 0 && cs >= 1 {
		stuck = append(stuck, "client-poll@offer-send")
	}
	if kinds["proxy-poll"] > 0 && pr >= 1 {
		stuck = append(stuck, "proxy-poll@offer-receive")
	}
	if kinds["answer"] > 0 && as >= 1 {
		stuck = append(stuck, "answer@answer-send")
	}
	if len(stuck) == 0 {
		// the mutex-parked shape: handlers waiting for a lock nobody will release
		nlock := 0
		for _, g := range vlib.ParseDump(dump) {
			if (strings.HasPrefix(g.State, "sync.Mutex.Lock") || strings.HasPrefix(g.State, "semacquire")) && g.HasFrame("snowflake.git/v2/broker") {
				nlock++
			}
		}
		if nlock >= len(open) && nlock > 0 {
			rec["goroutines_parked_on_a_mutex"] = nlock
			res.Violate("c04:stuck:handlers-parked-on-mutex", fmt.Sprintf("%s: %v requests never complete; %d broker goroutines parked on a mutex", scenario, kinds, nlock), rec)
			return
		}
		res.Inconcl(fmt.Sprintf("%s: %v still open but no goroutine of the broker process parked for good at a broker frame", scenario, kinds))
		return
	}
	res.Violate("c04:stuck:"+strings.Join(stuck, "+"), fmt.Sprintf("%s: requests to the broker binary never complete (%v open); goroutines parked for good: ClientOffers chan send=%d, RequestOffer chan receive=%d, ProxyAnswers chan send=%d", scenario, kinds, cs, pr, as), rec)
}

// ---- C20 workload: the broker binary under load with operator actions ----------------

// All endpoints concurrently (every proxy poll comes from its own address of
// 127.0.0.0/8, so the address-keyed maps and the geoip lookup are exercised per
// poll), the periodic distinct-IP
// journal with a 50 ms interval, geoip databases loaded, and SIGHUP (the
// documented way to reload the geoip databases without a restart) delivered
// while polls are being counted. The race detector in the broker process is
// the oracle; this function only drives and counts.
func TestVerifC20BrokerBinary(t *testing.T) {
	vBinaryMode = true
	vBinaryOpts = vBinOpts{Geoip: true, IPCount: true}
	defer killAllBinaries()
	res := vlib.NewResult("C20", "inpkg-broker-c20-binary", "stress of the real broker process: concurrent proxy polls / client polls (POST, legacy, AMP) / answers / debug / metrics / prometheus scrapes over TCP while SIGHUP reloads the geoip databases and the distinct-IP journal rotates every 50 ms; distinct = one per broker process that served traffic during >=1 reload")
	defer res.Finish()
	root := vlib.NewRand(vlib.Seed()).Split("c20binary")
	reps := vlib.Scale(3, 10)
	for rep := 0; rep < reps; rep++ {
		r := root.SplitN("rep", rep)
		bridges := []vBridge{{FP: vDefaultFP, URL: "wss://default.example.net/"}, {FP: randFP(r, 20), URL: "wss://other.example.net/"}}
		b := newVBroker(9000+rep, bridges, "example.net$", "example.net$")
		var stopFlag int32
		var wg sync.WaitGroup
		var sighups, polls, clients int64
		wg.Add(1)
		go func() {
			defer wg.Done()
			for atomic.LoadInt32(&stopFlag) == 0 {
				b.bin.cmd.Process.Signal(syscall.SIGHUP)
				atomic.AddInt64(&sighups, 1)
				time.Sleep(15 * time.Millisecond)
			}
		}()
		for w := 0; w < 12; w++ {
			wg.Add(1)
			go func(w int) {
				defer wg.Done()
				rr := r.SplitN("w", w)
				for n := 0; atomic.LoadInt32(&stopFlag) == 0; n++ {
					sid := fmt.Sprintf("r%d-w%d-%d", rep, w, n)
					switch w % 4 {
					case 0, 1:
						pat := "example.net$"
						ps := &pollSpec{Sid: sid, Type: rr.PickString(typeChoices), NAT: rr.PickString(natChoices), Clients: 0, Pattern: &pat, Remote: fmt.Sprintf("127.%d.%d.%d:1", 1+rr.Intn(200), rr.Intn(250), 1+rr.Intn(250))}
						pr := b.poll(ps)
						atomic.AddInt64(&polls, 1)
						if pr.Offer != "" {
							b.answer(sid, "ANSWER-"+sid)
						}
					case 2:
						c := &clientSpec{Transport: rr.PickString([]string{"post", "legacy", "amp"}), NAT: rr.PickString(natChoices), Offer: "OFFER-" + sid}
						b.client(c)
						atomic.AddInt64(&clients, 1)
					default:
						b.do("GET", rr.PickString([]string{"/debug", "/metrics", "/prometheus", "/robots.txt"}), nil, nil, "")
					}
				}
			}(w)
		}
		time.Sleep(time.Duration(vlib.Scale(4000, 8000)) * time.Millisecond)
		atomic.StoreInt32(&stopFlag, 1)
		done := make(chan struct{})
		go func() { wg.Wait(); close(done) }()
		select {
		case <-done:
		case <-time.After(40 * time.Second):
			res.Inconcl(fmt.Sprintf("c20 binary rep %d: workers did not return in 40 s", rep))
		}
		res.Eval(1)
		res.Obs("sighup_reloads_sent", atomic.LoadInt64(&sighups))
		res.Obs("proxy_polls", atomic.LoadInt64(&polls))
		res.Obs("client_polls", atomic.LoadInt64(&clients))
		txt := b.bin.stderr()
		nre := strings.Count(txt, "Reloading geoip databases")
		res.Obs("sighup_reloads_logged_by_broker", int64(nre))
		if nre > 0 && atomic.LoadInt64(&polls) > 0 {
			res.Distinct(fmt.Sprintf("rep/%d", rep))
		}
		if rep == 0 {
			res.Sample(1, map[string]interface{}{"case": "rep/0", "sighups": atomic.LoadInt64(&sighups), "polls": atomic.LoadInt64(&polls), "clients": atomic.LoadInt64(&clients), "reloads_logged": nre})
		}
		b.stop(res, "C20")
	}
	res.RequireObs("sighup_reloads_logged_by_broker", 1)
	res.RequireObs("proxy_polls", 10)
}
