// C04 — every broker request completes in bounded time; no ghost proxies.
// Steered windows (verif hooks as callbacks) + herds at the 10 s boundaries.
package main

import (
	"fmt"
	"strings"
	"sync"
	"sync/atomic"
	"testing"
	"time"

	"git.torproject.org/pluggable-transports/snowflake.git/v2/common/verifhook"
	"verif/vlib"
)

// ---- hook dispatch (the hook table is process-global; dispatch on sid) -------

type sidHooks struct {
	mu sync.Mutex
	m  map[string]map[string]func()
}

var c04hooks = &sidHooks{m: map[string]map[string]func(){}}

func (h *sidHooks) on(point, sid string, f func()) {
	h.mu.Lock()
	if h.m[point] == nil {
		h.m[point] = map[string]func(){}
	}
	h.m[point][sid] = f
	h.mu.Unlock()
}

func (h *sidHooks) install(points ...string) {
	for _, pt := range points {
		pt := pt
		verifhook.Set(pt, func(args ...interface{}) {
			if len(args) == 0 {
				return
			}
			sid, _ := args[0].(string)
			h.mu.Lock()
			f := h.m[pt][sid]
			h.mu.Unlock()
			if f != nil {
				f()
			}
		})
	}
}

const (
	hProxyTimeout  = "broker.proxy-timeout.before-lock"
	hClientPopped  = "broker.client.before-offer-send"
	hClientTimeout = "broker.client-timeout"
	hAnswerSend    = "broker.answer.before-send"
)

// ---- tracked requests ---------------------------------------------------------

type tracked struct {
	Kind   string `json:"kind"` // proxy-poll | client-poll | answer
	Sid    string `json:"sid,omitempty"`
	Done   int32  `json:"-"`
	Status string `json:"outcome,omitempty"`
	CallMs int64  `json:"call_ms"`
	RetMs  int64  `json:"ret_ms"`
}

type tracker struct {
	mu   sync.Mutex
	reqs []*tracked
	t0   time.Time
	wg   sync.WaitGroup
}

func newTracker() *tracker { return &tracker{t0: time.Now()} }

func (t *tracker) run(kind, sid string, f func() string) *tracked {
	r := &tracked{Kind: kind, Sid: sid}
	t.mu.Lock()
	t.reqs = append(t.reqs, r)
	t.mu.Unlock()
	t.wg.Add(1)
	go func() {
		defer t.wg.Done()
		r.CallMs = int64(time.Since(t.t0) / time.Millisecond)
		out := f()
		t.mu.Lock()
		r.Status = out
		r.RetMs = int64(time.Since(t.t0) / time.Millisecond)
		t.mu.Unlock()
		atomic.StoreInt32(&r.Done, 1)
	}()
	return r
}

func (t *tracker) open() []*tracked {
	t.mu.Lock()
	defer t.mu.Unlock()
	var o []*tracked
	for _, r := range t.reqs {
		if atomic.LoadInt32(&r.Done) == 0 {
			o = append(o, r)
		}
	}
	return o
}

func (t *tracker) snapshot() []tracked {
	t.mu.Lock()
	defer t.mu.Unlock()
	out := make([]tracked, len(t.reqs))
	for i, r := range t.reqs {
		out[i] = *r
	}
	return out
}

// waitAll waits until every tracked request returned or d elapsed.
func (t *tracker) waitAll(d time.Duration) bool {
	done := make(chan struct{})
	go func() { t.wg.Wait(); close(done) }()
	select {
	case <-done:
		return true
	case <-time.After(d):
		return false
	}
}

// parkedCounts: goroutines of the broker parked for good (plain channel
// operation, no timer in the select) at the three places a request can hang.
func parkedCounts() (clientSend, pollRecv, answerSend int, excerpt string) {
	for _, g := range vlib.ParseDump(vlib.DumpAll()) {
		if !g.Blocked() {
			continue
		}
		switch {
		case strings.HasPrefix(g.State, "chan send") && g.HasFrame("(*IPC).ClientOffers"):
			clientSend++
		case strings.HasPrefix(g.State, "chan receive") && g.HasFrame("(*BrokerContext).RequestOffer"):
			pollRecv++
		case strings.HasPrefix(g.State, "chan send") && g.HasFrame("(*IPC).ProxyAnswers"):
			answerSend++
		default:
			continue
		}
		if len(excerpt) < 3000 {
			excerpt += g.Raw + "\n"
		}
	}
	return
}

var parkMu sync.Mutex

// mutexParked: broker goroutines found waiting for a mutex in each of three
// goroutine dumps taken two seconds apart (the same goroutine each time). No
// lock of the broker is held across anything that waits, so in a broker that
// works a handler is in that state for microseconds.
func mutexParked() (n int, excerpt string) {
	seen := map[string]int{}
	var last []vlib.Goroutine
	for k := 0; k < 3; k++ {
		if k > 0 {
			time.Sleep(2 * time.Second)
		}
		last = vlib.ParseDump(vlib.DumpAll())
		for _, g := range last {
			if (strings.HasPrefix(g.State, "sync.Mutex.Lock") || strings.HasPrefix(g.State, "sync.RWMutex") || strings.HasPrefix(g.State, "semacquire")) && g.HasFrame("snowflake.git/v2/broker.") {
				seen[g.ID]++
			}
		}
	}
	for _, g := range last {
		if seen[g.ID] == 3 {
			n++
			if len(excerpt) < 4000 {
				excerpt += g.Raw + "\n"
			}
		}
	}
	return
}

// judgeOpen decides about requests still open after all protocol timers that
// could release them have long fired: stuck (violation) iff the goroutine dump
// shows at least as many goroutines parked for good at the matching place.
func judgeOpen(res *vlib.Result, scenario string, tr *tracker, rec map[string]interface{}) {
	open := tr.open()
	if len(open) == 0 {
		return
	}
	parkMu.Lock()
	cs, pr, as, excerpt := parkedCounts()
	parkMu.Unlock()
	kinds := map[string]int{}
	for _, o := range open {
		kinds[o.Kind]++
	}
	rec["open_requests"] = kinds
	rec["parked_goroutines"] = map[string]int{"ClientOffers:chan send": cs, "RequestOffer:chan receive": pr, "ProxyAnswers:chan send": as}
	rec["goroutines"] = excerpt
	rec["requests"] = tr.snapshot()
	stuck := []string{}
	if kinds["client-poll"] > 0 && cs >= 1 {
		stuck = append(stuck, "client-poll@offer-send")
	}
	if kinds["proxy-poll"] > 0 && pr >= 1 {
		stuck = append(stuck, "proxy-poll@offer-receive")
	}
	if kinds["answer"] > 0 && as >= 1 {
		stuck = append(stuck, "answer@answer-send")
	}
	if len(stuck) == 0 {
		parkMu.Lock()
		nlock, lx := mutexParked()
		parkMu.Unlock()
		if nlock >= 2 {
			rec["goroutines_parked_on_a_mutex"] = nlock
			rec["goroutines"] = lx
			res.Violate("c04:stuck:handlers-parked-on-mutex", fmt.Sprintf("%s: %v requests never complete; %d broker goroutines wait for a mutex in three dumps taken 2 s apart", scenario, kinds, nlock), rec)
			return
		}
		res.Inconcl(fmt.Sprintf("%s: %v still open but no goroutine parked for good at a broker frame", scenario, kinds))
		return
	}
	res.Violate("c04:stuck:"+strings.Join(stuck, "+"), fmt.Sprintf("%s: requests never complete (%v open); goroutines parked for good: ClientOffers chan send=%d, RequestOffer chan receive=%d, ProxyAnswers chan send=%d", scenario, kinds, cs, pr, as), rec)
}

// quiescence: no leftover registrations once everything that can complete has.
func checkQuiescent(res *vlib.Result, scenario string, b *vBroker, rec map[string]interface{}) {
	avail := b.debugAvailable()
	gauge := b.gaugeSum()
	u, r, ids := b.internals()
	probe := clientSpec{Transport: "post", NAT: NATUnknown, Offer: "QUIESCENCE-PROBE"}
	done := make(chan clientResult, 1)
	go func() { done <- b.client(&probe) }()
	var pr clientResult
	select {
	case pr = <-done:
	case <-time.After(30 * time.Second):
		pr = clientResult{Raw: "probe did not return in 30 s"}
	}
	probe2 := clientSpec{Transport: "post", NAT: NATUnrestricted, Offer: "QUIESCENCE-PROBE-2"}
	done2 := make(chan clientResult, 1)
	go func() { done2 <- b.client(&probe2) }()
	var pr2 clientResult
	select {
	case pr2 = <-done2:
	case <-time.After(30 * time.Second):
		pr2 = clientResult{Raw: "probe did not return in 30 s"}
	}
	res.Obs("quiescence_checks", 1)
	const none = "no snowflake proxies currently available"
	if avail != 0 || gauge != 0 || u != 0 || r != 0 || ids != 0 || pr.Error != none || pr2.Error != none {
		rec["debug_available"] = avail
		rec["gauge_sum"] = gauge
		rec["heap_unrestricted"], rec["heap_restricted"], rec["id_map"] = u, r, ids
		rec["fresh_client"] = pr
		rec["fresh_client_unrestricted"] = pr2
		res.Violate("c04:ghost-registration", fmt.Sprintf("%s: after all requests ended the broker reports %d available (gauge %.0f, heaps %d/%d, ids %d); fresh clients got %+v / %+v", scenario, avail, gauge, u, r, ids, pr, pr2), rec)
	}
}

// ---- steered scenarios --------------------------------------------------------

// window 1: the proxy-poll timeout fires; where does the client pop fall?
func steerProxyTimeout(res *vlib.Result, ctxID int, order string) {
	name := "proxy-timeout-vs-client-pop/" + order
	b := newVBroker(ctxID, nil, "", "")
	sid := fmt.Sprintf("s1-%d-%s", ctxID, order)
	tr := newTracker()
	rec := map[string]interface{}{"case": name, "scenario": name, "sid": sid}
	h1 := make(chan struct{})
	release := make(chan struct{})
	h2 := make(chan struct{}, 1)
	var h1once sync.Once
	c04hooks.on(hProxyTimeout, sid, func() {
		h1once.Do(func() { close(h1) })
		if order == "inside" {
			<-release
		}
	})
	c04hooks.on(hClientPopped, sid, func() {
		select {
		case h2 <- struct{}{}:
		default:
		}
	})
	ps := &pollSpec{Sid: sid, Type: "standalone", NAT: NATUnrestricted}
	tr.run("proxy-poll", sid, func() string {
		r := b.poll(ps)
		if r.Offer != "" {
			b.answer(sid, "ANSWER-"+sid)
			return "offer"
		}
		return fmt.Sprintf("%d %s", r.HTTP, r.Status)
	})
	cl := &clientSpec{Transport: "post", NAT: NATRestricted, Offer: "OFFER-" + sid}
	switch order {
	case "before":
		waitUntil(5*time.Second, func() bool { return b.debugAvailable() == 1 })
		time.Sleep(100 * time.Millisecond)
		tr.run("client-poll", "", func() string { r := b.client(cl); return r.Answer + r.Error })
	case "inside":
		select {
		case <-h1:
		case <-time.After(30 * time.Second):
			res.Inconcl(name + ": timeout hook not reached in 30 s")
			close(release)
			return
		}
		// the timer has fired, the timeout goroutine has not taken the lock yet
		tr.run("client-poll", "", func() string { r := b.client(cl); return r.Answer + r.Error })
		select {
		case <-h2: // the client popped this very proxy
			res.Obs("steered_window_hits_proxy_timeout", 1)
		case <-time.After(10 * time.Second):
			res.Inconcl(name + ": client did not pop the proxy inside the window")
		}
		close(release)
	case "after":
		select {
		case <-h1:
		case <-time.After(30 * time.Second):
			res.Inconcl(name + ": timeout hook not reached in 30 s")
			return
		}
		waitUntil(5*time.Second, func() bool { return b.debugAvailable() == 0 })
		tr.run("client-poll", "", func() string { r := b.client(cl); return r.Answer + r.Error })
	}
	// every timer that can release a request: 10 s poll timeout + 10 s client timeout
	all := tr.waitAll(35 * time.Second)
	if steerForC03 {
		// C03's use of the scenario: whatever happened in the window, the broker must
		// still know who is waiting afterwards
		if all {
			availabilityProbe(res, name, b, rec)
		} else {
			res.Inconcl(name + ": a request was still open (bounded completion is C04's concern)")
		}
		res.Eval(1)
		res.Distinct(name)
		return
	}
	if !all {
		judgeOpen(res, name, tr, rec)
	}
	rec["requests"] = tr.snapshot()
	checkQuiescent(res, name, b, rec)
	res.Eval(1)
	res.Distinct(name)
	res.Obs("steered_scenarios", 1)
	res.Sample(4, rec)
}

// steerForC03 makes the steered scenarios end with C03's availability probe
// instead of C04's judgements (set by TestVerifC03AfterWindows only).
var steerForC03 bool

// availabilityProbe: after a scenario has ended, exactly one proxy registers in
// each pool in turn and one eligible client arrives while it waits: the client
// must not be refused and the proxy must receive its offer (a broker whose idea
// of who is waiting has drifted - a count one too low, a heap entry lost -
// refuses it or hands the offer to nobody).
func availabilityProbe(res *vlib.Result, scenario string, b *vBroker, rec map[string]interface{}) {
	const none = "no snowflake proxies currently available"
	for _, pool := range []string{NATUnrestricted, NATRestricted} {
		clientNAT := NATRestricted
		if pool == NATRestricted {
			clientNAT = NATUnrestricted
		}
		sid := fmt.Sprintf("probe-%s-%d-%s", pool, b.id, strings.Replace(scenario, "/", "-", -1))
		offer := "PROBE-OFFER-" + sid
		pdone := make(chan pollResult, 1)
		go func() {
			pr := b.poll(&pollSpec{Sid: sid, Type: "standalone", NAT: pool})
			if pr.Offer != "" {
				b.answer(sid, "PROBE-ANSWER-"+sid)
			}
			pdone <- pr
		}()
		if !waitUntil(5*time.Second, func() bool { return b.debugAvailable() == 1 }) {
			res.Inconcl(scenario + ": the probe proxy did not register (or others are still registered)")
			<-pdone
			return
		}
		cr := b.client(&clientSpec{Transport: "post", NAT: clientNAT, Offer: offer})
		pr := <-pdone
		res.Obs("availability_probes", 1)
		if cr.Error == none || pr.Offer != offer {
			rec["probe_pool"] = pool
			rec["probe_client_result"] = cr
			rec["probe_poll_result"] = pr
			res.Violate("c03:denied-although-eligible-proxy-waiting:after-"+strings.SplitN(scenario, "/", 2)[0], fmt.Sprintf("%s: afterwards one %s proxy registered (/debug showed 1 available) and a %s client arrived: client got %+v, the proxy's poll ended with offer %q", scenario, pool, clientNAT, cr, pr.Offer), rec)
			return
		}
	}
}

// window 2: the client's wait for the answer times out; where does the answer fall?
func steerClientTimeout(res *vlib.Result, ctxID int, order string) {
	name := "answer-vs-client-timeout/" + order
	b := newVBroker(ctxID, nil, "", "")
	sid := fmt.Sprintf("s2-%d-%s", ctxID, order)
	tr := newTracker()
	rec := map[string]interface{}{"case": name, "scenario": name, "sid": sid}
	h3 := make(chan struct{})
	var h3once sync.Once
	h4 := make(chan struct{}, 1)
	ansDone := make(chan struct{})
	c04hooks.on(hClientTimeout, sid, func() {
		h3once.Do(func() { close(h3) })
		if order == "inside-answered-first" {
			// the client's timeout branch has begun; it goes on only after the answer
			// (held at its send point until now) has been accepted and acknowledged
			select {
			case <-ansDone:
			case <-time.After(5 * time.Second):
			}
		}
	})
	c04hooks.on(hAnswerSend, sid, func() {
		select {
		case h4 <- struct{}{}:
		default:
		}
		if order == "inside" || order == "inside-answered-first" {
			// the id was found; hold the send until the client has timed out
			select {
			case <-h3:
			case <-time.After(30 * time.Second):
			}
		}
	})
	ps := &pollSpec{Sid: sid, Type: "standalone", NAT: NATUnrestricted}
	matched := make(chan struct{})
	tr.run("proxy-poll", sid, func() string {
		r := b.poll(ps)
		if r.Offer != "" {
			close(matched)
			return "offer"
		}
		return fmt.Sprintf("%d %s", r.HTTP, r.Status)
	})
	waitUntil(5*time.Second, func() bool { return b.debugAvailable() == 1 })
	cl := &clientSpec{Transport: "post", NAT: NATRestricted, Offer: "OFFER-" + sid}
	tr.run("client-poll", "", func() string { r := b.client(cl); return r.Answer + r.Error })
	select {
	case <-matched:
	case <-time.After(10 * time.Second):
		res.Inconcl(name + ": proxy was not matched")
		return
	}
	var ansOnce sync.Once
	post := func() {
		tr.run("answer", sid, func() string {
			st, s := b.answer(sid, "ANSWER-"+sid)
			ansOnce.Do(func() { close(ansDone) })
			return fmt.Sprintf("%d %s", st, s)
		})
	}
	switch order {
	case "before":
		time.Sleep(200 * time.Millisecond)
		post()
	case "inside", "inside-answered-first":
		// shortly before the client's 10 s are over; the hook holds the send
		// only for the remaining milliseconds, until the client timed out
		time.Sleep(9700 * time.Millisecond)
		post()
		select {
		case <-h4:
			res.Obs("steered_window_hits_client_timeout", 1)
		case <-time.After(5 * time.Second):
			res.Inconcl(name + ": answer did not reach the send point (client already gone)")
		}
	case "after":
		select {
		case <-h3:
		case <-time.After(30 * time.Second):
			res.Inconcl(name + ": client timeout hook not reached")
			return
		}
		waitUntil(5*time.Second, func() bool { _, _, ids := b.internals(); return ids == 0 })
		post()
	}
	all2 := tr.waitAll(35 * time.Second)
	if steerForC03 {
		if all2 {
			availabilityProbe(res, name, b, rec)
		} else {
			res.Inconcl(name + ": a request was still open (bounded completion is C04's concern)")
		}
		res.Eval(1)
		res.Distinct(name)
		return
	}
	if !all2 {
		judgeOpen(res, name, tr, rec)
	}
	rec["requests"] = tr.snapshot()
	checkQuiescent(res, name, b, rec)
	res.Eval(1)
	res.Distinct(name)
	res.Obs("steered_scenarios", 1)
	res.Sample(4, rec)
}

// an answer posted for a registered proxy that has no client (yet): the
// request must still complete in bounded time.
func steerPrematureAnswer(res *vlib.Result, ctxID int, withClient bool) {
	name := fmt.Sprintf("premature-answer/client-later=%v", withClient)
	b := newVBroker(ctxID, nil, "", "")
	sid := fmt.Sprintf("s3-%d-%v", ctxID, withClient)
	tr := newTracker()
	rec := map[string]interface{}{"case": name, "scenario": name, "sid": sid}
	ps := &pollSpec{Sid: sid, Type: "standalone", NAT: NATUnrestricted}
	tr.run("proxy-poll", sid, func() string { r := b.poll(ps); return fmt.Sprintf("%d %s offer=%v", r.HTTP, r.Status, r.Offer != "") })
	waitUntil(5*time.Second, func() bool { return b.debugAvailable() == 1 })
	tr.run("answer", sid, func() string { st, s := b.answer(sid, "EARLY-"+sid); return fmt.Sprintf("%d %s", st, s) })
	// and a duplicate of it (a proxy retrying its POST)
	time.Sleep(50 * time.Millisecond)
	tr.run("answer", sid, func() string { st, s := b.answer(sid, "EARLY2-"+sid); return fmt.Sprintf("%d %s", st, s) })
	if withClient {
		time.Sleep(300 * time.Millisecond)
		cl := &clientSpec{Transport: "post", NAT: NATRestricted, Offer: "OFFER-" + sid}
		tr.run("client-poll", "", func() string { r := b.client(cl); return r.Answer + r.Error })
	}
	if !tr.waitAll(35 * time.Second) {
		judgeOpen(res, name, tr, rec)
	}
	rec["requests"] = tr.snapshot()
	checkQuiescent(res, name, b, rec)
	res.Eval(1)
	res.Distinct(name)
	res.Obs("steered_scenarios", 1)
}

// scramble: K clients are released at the same instant against fewer waiting
// proxies of their pool (typically one): every request must get its response —
// exactly as many matches as proxies, the rest denied — and nothing is left over.
func scrambleRounds(res *vlib.Result, r *vlib.Rand, ctxID, rounds int) {
	b := newVBroker(ctxID, nil, "", "")
	for round := 0; round < rounds; round++ {
		name := fmt.Sprintf("scramble/%d/%d", ctxID, round)
		nProx := r.PickInt([]int{1, 1, 1, 2})
		k := nProx + r.Range(1, 7)
		tr := newTracker()
		var matchedPolls int32
		for i := 0; i < nProx; i++ {
			sid := fmt.Sprintf("sc%d-%d-%d", ctxID, round, i)
			tr.run("proxy-poll", sid, func() string {
				pr := b.poll(&pollSpec{Sid: sid, Type: "standalone", NAT: NATUnrestricted})
				if pr.Offer != "" {
					atomic.AddInt32(&matchedPolls, 1)
					b.answer(sid, "A-"+sid)
					return "offer"
				}
				return fmt.Sprintf("%d %s", pr.HTTP, pr.Status)
			})
		}
		if !waitUntil(5*time.Second, func() bool { return b.debugAvailable() == nProx }) {
			res.Inconcl(name + ": proxies did not register")
			return
		}
		start := make(chan struct{})
		var answered, denied, other int32
		for j := 0; j < k; j++ {
			off := fmt.Sprintf("SC-OFFER-%d-%d-%d", ctxID, round, j)
			tr.run("client-poll", "", func() string {
				<-start
				cr := b.client(&clientSpec{Transport: "post", NAT: NATRestricted, Offer: off})
				switch {
				case cr.Answer != "":
					atomic.AddInt32(&answered, 1)
				case cr.Error == "no snowflake proxies currently available":
					atomic.AddInt32(&denied, 1)
				default:
					atomic.AddInt32(&other, 1)
				}
				return cr.Answer + cr.Error + cr.Raw
			})
		}
		close(start)
		rec := map[string]interface{}{"case": name, "scenario": "scramble", "proxies": nProx, "simultaneous_clients": k}
		if !tr.waitAll(40 * time.Second) {
			judgeOpen(res, name, tr, rec)
			return
		}
		res.Eval(1)
		res.Obs("scramble_rounds", 1)
		res.Obs("scramble_clients", int64(k))
		if int(answered) != nProx || int(denied) != k-nProx || other != 0 {
			rec["answered"], rec["denied"], rec["other"] = answered, denied, other
			rec["requests"] = tr.snapshot()
			res.Violate("c04:scramble-outcome", fmt.Sprintf("%s: %d simultaneous clients for %d waiting proxies: %d answered, %d denied, %d other outcomes", name, k, nProx, answered, denied, other), rec)
			return
		}
		if round == rounds-1 {
			checkQuiescent(res, name, b, rec)
		}
	}
	res.Distinct(fmt.Sprintf("scramble/%d", ctxID))
}

// every kind of immediately-answered request (refused relay pattern, undecodable
// poll, unknown fingerprint, bad client poll, answer for an unknown id) followed
// by a normal pair on the same broker: everything completes, nothing is left over.
func refusedThenPair(res *vlib.Result, r *vlib.Rand, ctxID int) {
	name := fmt.Sprintf("refused-requests-then-pair/%d", ctxID)
	b := newVBroker(ctxID, []vBridge{{FP: vDefaultFP, URL: "wss://snowflake.test/"}}, "snowflake.test$", "snowflake.test$")
	tr := newTracker()
	rec := map[string]interface{}{"case": name, "scenario": "refused-requests-then-pair"}
	good, bad := "snowflake.test$", "^elsewhere.test$"
	// a proxy of the pool the odd clients will be matched from is waiting meanwhile
	waiting := &pollSpec{Sid: fmt.Sprintf("rp%d-waiting", ctxID), Type: "standalone", NAT: r.PickString([]string{NATUnrestricted, NATRestricted, ""}), Pattern: &good}
	tr.run("proxy-poll", waiting.Sid, func() string {
		pr := b.poll(waiting)
		if pr.Offer != "" {
			b.answer(waiting.Sid, "A-"+waiting.Sid)
		}
		return fmt.Sprintf("%d %s", pr.HTTP, pr.Status)
	})
	waitUntil(5*time.Second, func() bool { return b.debugAvailable() == 1 })
	kinds := r.Perm(6)
	for _, k := range kinds {
		k := k
		switch k {
		case 0:
			p := &pollSpec{Sid: fmt.Sprintf("rp%d-rej", ctxID), Type: "standalone", NAT: NATUnrestricted, Pattern: &bad}
			tr.run("proxy-poll", p.Sid, func() string { pr := b.poll(p); return fmt.Sprintf("%d %s", pr.HTTP, pr.Status) })
		case 1:
			p := &pollSpec{RawBody: []byte(`{"Sid":"","Version":"1.3"}`)}
			tr.run("proxy-poll", "", func() string { pr := b.poll(p); return fmt.Sprintf("%d %s", pr.HTTP, pr.Status) })
		case 2:
			// a client naming a bridge that is not in the list, of every NAT type
			for _, nat := range []string{"", NATRestricted, NATUnrestricted} {
				c := &clientSpec{Transport: "post", NAT: nat, FP: randFP(r, 20), Offer: "RP-UNLISTED-" + nat}
				tr.run("client-poll", "", func() string { cr := b.client(c); return fmt.Sprintf("%d %s%s", cr.HTTP, cr.Answer, cr.Error) })
			}
		case 3:
			c := &clientSpec{Transport: "post", NAT: "bogus", Offer: "x"}
			tr.run("client-poll", "", func() string { cr := b.client(c); return fmt.Sprintf("%d %s%s", cr.HTTP, cr.Answer, cr.Error) })
		case 4:
			tr.run("answer", "", func() string { st, s := b.answer("no-such-sid", "x"); return fmt.Sprintf("%d %s", st, s) })
		case 5:
			p := &pollSpec{Sid: fmt.Sprintf("rp%d-legacy", ctxID), Type: "webext", NAT: NATRestricted} // legacy poll, presumed pattern admits it
			tr.run("proxy-poll", p.Sid, func() string { pr := b.poll(p); return fmt.Sprintf("%d %s", pr.HTTP, pr.Status) })
		}
		time.Sleep(time.Duration(r.Intn(30)) * time.Millisecond)
	}
	// then a normal pair
	p := &pollSpec{Sid: fmt.Sprintf("rp%d-ok", ctxID), Type: "standalone", NAT: NATUnrestricted, Pattern: &good}
	tr.run("proxy-poll", p.Sid, func() string {
		pr := b.poll(p)
		if pr.Offer != "" {
			b.answer(p.Sid, "A-"+p.Sid)
			return "offer"
		}
		return fmt.Sprintf("%d %s", pr.HTTP, pr.Status)
	})
	time.Sleep(100 * time.Millisecond)
	c := &clientSpec{Transport: "post", NAT: NATRestricted, Offer: "RP-OFFER"}
	var cres clientResult
	tr.run("client-poll", "", func() string { cres = b.client(c); return cres.Answer + cres.Error })
	if !tr.waitAll(45 * time.Second) {
		judgeOpenGeneric(res, name, tr, rec)
	}
	rec["requests"] = tr.snapshot()
	checkQuiescent(res, name, b, rec)
	res.Eval(1)
	res.Distinct(name)
	res.Obs("refused_then_pair_scenarios", 1)
}

// judgeOpenGeneric: like judgeOpen, but a request that is still open long after
// every protocol timer fired is also a violation when its goroutine is parked on
// a mutex of the broker (a lock that is never released).
func judgeOpenGeneric(res *vlib.Result, scenario string, tr *tracker, rec map[string]interface{}) {
	open := tr.open()
	if len(open) == 0 {
		return
	}
	locked := 0
	excerpt := ""
	for _, g := range vlib.ParseDump(vlib.DumpAll()) {
		if strings.HasPrefix(g.State, "sync.Mutex.Lock") && (g.HasFrame("(*IPC).") || g.HasFrame("(*BrokerContext).") || g.HasFrame("(*Metrics).")) {
			locked++
			if len(excerpt) < 2500 {
				excerpt += g.Raw + "\n"
			}
		}
	}
	if locked > 0 {
		kinds := map[string]int{}
		for _, o := range open {
			kinds[o.Kind]++
		}
		rec["goroutines"] = excerpt
		rec["requests"] = tr.snapshot()
		res.Violate("c04:stuck:request-parked-on-broker-mutex", fmt.Sprintf("%s: requests never complete (%v open); %d goroutines are parked in sync.Mutex.Lock inside broker code long after every protocol timer fired", scenario, kinds, locked), rec)
		return
	}
	judgeOpen(res, scenario, tr, rec)
}

func TestVerifC04Steered(t *testing.T) {
	res := vlib.NewResult("C04", "inpkg-broker-c04-steered", "scrambles (K simultaneous clients for fewer waiting proxies, many rounds) and deterministic steered scenarios: for each 10 s boundary (proxy-poll timeout vs client pop; client timeout vs answer) the opposing event is placed before / inside / after the window using verif hooks as callbacks (for the client time-out also: the answer accepted and acknowledged after the time-out branch has begun and before it goes on), plus premature answers; each repeated in several broker instances; non-trivial = scenario executed to a verdict, distinct by (window, order)")
	defer res.Finish()
	c04hooks.install(hProxyTimeout, hClientPopped, hClientTimeout, hAnswerSend)
	reps := vlib.Scale(2, 8)
	var wg sync.WaitGroup
	id := 0
	for rep := 0; rep < reps; rep++ {
		for _, order := range []string{"before", "inside", "after"} {
			id++
			wg.Add(2)
			go func(id int, order string) { defer wg.Done(); steerProxyTimeout(res, 1000+id, order) }(id, order)
			go func(id int, order string) { defer wg.Done(); steerClientTimeout(res, 2000+id, order) }(id, order)
		}
		id++
		wg.Add(1)
		go func(id int) { defer wg.Done(); steerClientTimeout(res, 2500+id, "inside-answered-first") }(id)
		for _, wc := range []bool{false, true} {
			id++
			wg.Add(1)
			go func(id int, wc bool) { defer wg.Done(); steerPrematureAnswer(res, 3000+id, wc) }(id, wc)
		}
	}
	rr := vlib.NewRand(vlib.Seed()).Split("c04refused")
	for c := 0; c < vlib.Scale(16, 64); c++ {
		wg.Add(1)
		go func(c int) { defer wg.Done(); refusedThenPair(res, rr.SplitN("ctx", c), 6000+c) }(c)
	}
	root := vlib.NewRand(vlib.Seed()).Split("c04scramble")
	for c := 0; c < vlib.Scale(8, 32); c++ {
		wg.Add(1)
		go func(c int) {
			defer wg.Done()
			scrambleRounds(res, root.SplitN("ctx", c), 4000+c, vlib.Scale(150, 600))
		}(c)
	}
	wg.Wait()
	res.Note("hook_hits", verifhook.AllHits())
	res.RequireObs("refused_then_pair_scenarios", int64(vlib.Scale(16, 64)))
	res.RequireObs("scramble_rounds", int64(vlib.Scale(8, 32)*vlib.Scale(150, 600)*6/10))
	res.RequireObs("steered_window_hits_proxy_timeout", int64(reps))
	res.RequireObs("steered_window_hits_client_timeout", int64(reps))
	res.RequireObs("steered_scenarios", int64(reps*8))
	res.RequireObs("quiescence_checks", int64(reps*8))
}

// ---- herds at the boundaries ---------------------------------------------------

func TestVerifC04Herd(t *testing.T) {
	res := vlib.NewResult("C04", "inpkg-broker-c04-herd", "herds: P proxy polls start together, clients arrive 10 s +/- jitter later (hook delay widens the timeout-vs-pop window), matched proxies answer 10 s +/- jitter after their match (hook delay widens the lookup-vs-timeout window); window hit = both hooks of a window reached for the same session id; non-trivial = pair whose window was hit, distinct by session id")
	defer res.Finish()
	root := vlib.NewRand(vlib.Seed()).Split("c04herd")
	shard, nshards := vlib.Shard()
	var mu sync.Mutex
	h1set, h2set, h3set, h4set := map[string]bool{}, map[string]bool{}, map[string]bool{}, map[string]bool{}
	mark := func(m map[string]bool) func(args ...interface{}) {
		return func(args ...interface{}) {
			if len(args) > 0 {
				if s, ok := args[0].(string); ok {
					mu.Lock()
					m[s] = true
					mu.Unlock()
				}
			}
		}
	}
	delay := func(lo, hi int, next func(args ...interface{})) func(args ...interface{}) {
		var ctr uint64
		return func(args ...interface{}) {
			next(args...)
			n := atomic.AddUint64(&ctr, 1)
			d := lo + int((n*2654435761)%uint64(hi-lo+1))
			time.Sleep(time.Duration(d) * time.Millisecond)
		}
	}
	verifhook.Set(hProxyTimeout, delay(1, 20, mark(h1set)))
	verifhook.Set(hClientPopped, mark(h2set))
	verifhook.Set(hClientTimeout, mark(h3set))
	verifhook.Set(hAnswerSend, delay(1, 20, mark(h4set)))

	nCtx := vlib.Scale(6, 48)
	P := vlib.Scale(64, 256)
	type herd struct {
		b  *vBroker
		tr *tracker
	}
	var herds []*herd
	var wg sync.WaitGroup
	for ci := 0; ci < nCtx; ci++ {
		if ci%nshards != shard {
			continue
		}
		hd := &herd{b: newVBroker(5000+ci, nil, "", ""), tr: newTracker()}
		herds = append(herds, hd)
		wg.Add(1)
		go func(ci int, hd *herd) {
			defer wg.Done()
			r := root.SplitN("herd", ci)
			t0 := time.Now().Add(50 * time.Millisecond)
			for i := 0; i < P; i++ {
				sid := fmt.Sprintf("h%d-p%d", ci, i)
				pj := time.Duration(r.Intn(4000)) * time.Microsecond
				aj := time.Duration(r.Intn(24000)-12000) * time.Microsecond
				hd.tr.run("proxy-poll", sid, func() string {
					time.Sleep(time.Until(t0.Add(pj)))
					pr := hd.b.poll(&pollSpec{Sid: sid, Type: "standalone", NAT: NATUnrestricted})
					if pr.Offer == "" {
						return fmt.Sprintf("%d %s", pr.HTTP, pr.Status)
					}
					m := time.Now()
					hd.tr.run("answer", sid, func() string {
						time.Sleep(time.Until(m.Add(10*time.Second + aj)))
						st, s := hd.b.answer(sid, "ANSWER-"+sid)
						return fmt.Sprintf("%d %s", st, s)
					})
					return "offer"
				})
			}
			for j := 0; j < P; j++ {
				cj := time.Duration(r.Intn(24000)-12000) * time.Microsecond
				off := fmt.Sprintf("OFFER-h%d-c%d", ci, j)
				hd.tr.run("client-poll", "", func() string {
					time.Sleep(time.Until(t0.Add(10*time.Second + cj)))
					cr := hd.b.client(&clientSpec{Transport: "post", NAT: NATRestricted, Offer: off})
					return cr.Answer + cr.Error
				})
			}
		}(ci, hd)
	}
	wg.Wait()
	// all timers: 10 s poll + 10 s client + 10 s answer delay, plus slack
	var jw sync.WaitGroup
	allDone := make([]bool, len(herds))
	for i, hd := range herds {
		jw.Add(1)
		go func(i int, hd *herd) { defer jw.Done(); allDone[i] = hd.tr.waitAll(70 * time.Second) }(i, hd)
	}
	jw.Wait()
	for i, hd := range herds {
		name := fmt.Sprintf("herd/%d", i)
		rec := map[string]interface{}{"case": name, "scenario": name, "pairs": P}
		if !allDone[i] {
			judgeOpen(res, name, hd.tr, rec)
		}
		checkQuiescent(res, name, hd.b, rec)
		res.Eval(int64(P))
		outcomes := map[string]int{}
		for _, q := range hd.tr.snapshot() {
			k := q.Kind + ":" + q.Status
			if strings.HasPrefix(q.Status, "ANSWER-") {
				k = q.Kind + ":answered"
			}
			outcomes[k]++
		}
		rec["outcomes"] = outcomes
		res.Sample(2, rec)
	}
	mu.Lock()
	w1, w2 := 0, 0
	for s := range h1set {
		if h2set[s] {
			w1++
			res.Distinct("w1/" + s)
		}
	}
	for s := range h3set {
		if h4set[s] {
			w2++
			res.Distinct("w2/" + s)
		}
	}
	mu.Unlock()
	res.Obs("herd_window_hits_proxy_timeout_vs_pop", int64(w1))
	res.Obs("herd_window_hits_answer_vs_client_timeout", int64(w2))
	res.Obs("herd_contexts", int64(len(herds)))
	res.Note("hook_hits", verifhook.AllHits())
	// how many pairs fell into a window is an observation, not a requirement: on a
	// loaded machine the jittered arrivals may all miss it (the steered scenarios hit
	// both windows by construction); what is required is that the herds ran
	res.RequireObs("herd_contexts", 1)
}

// C03 after the two 10 s windows: the hook-steered scenarios of C04 (client pop
// before / inside / after the proxy-poll timeout window; answer before / inside
// / after the client-timeout window), each followed by the availability probe.
func TestVerifC03AfterWindows(t *testing.T) {
	res := vlib.NewResult("C03", "inpkg-broker-c03-after-windows", "the hook-steered window scenarios (proxy-poll timeout vs client pop, client timeout vs answer; opposing event before / inside / after the window), each followed by an availability probe per pool: one proxy registers, /debug shows 1, one eligible client arrives - it must not be refused and the proxy must receive its offer; non-trivial = scenario executed to the probe, distinct by (window, order)")
	defer res.Finish()
	steerForC03 = true
	c04hooks.install(hProxyTimeout, hClientPopped, hClientTimeout, hAnswerSend)
	reps := vlib.Scale(2, 8)
	var wg sync.WaitGroup
	id := 0
	for rep := 0; rep < reps; rep++ {
		for _, order := range []string{"before", "inside", "after"} {
			id++
			wg.Add(2)
			go func(id int, order string) { defer wg.Done(); steerProxyTimeout(res, 51000+id, order) }(id, order)
			go func(id int, order string) { defer wg.Done(); steerClientTimeout(res, 52000+id, order) }(id, order)
		}
		id++
		wg.Add(1)
		go func(id int) { defer wg.Done(); steerClientTimeout(res, 52500+id, "inside-answered-first") }(id)
	}
	wg.Wait()
	res.RequireObs("availability_probes", int64(reps*6))
	res.RequireObs("steered_window_hits_proxy_timeout", int64(reps))
}
