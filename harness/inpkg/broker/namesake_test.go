// Namesake polls: session ids are chosen by the proxies, so two polls that are
// open at the same time may carry the same id (a proxy that reuses its id, or
// two proxies that picked the same one). The broker's matching state is keyed
// by poll, its answer routing by id; whatever becomes of the answers, the
// properties about matching (C03) and about completion and leftovers (C04)
// speak of polls, and must hold for namesakes too.
//
// Scenario: poll P1 (id X) at t=0, poll P2 (same id X, possibly another NAT
// type) a little later, both unmatched. Variants:
//
//	idle           - nobody else comes: both polls must end, the broker must be empty
//	client-after   - P1 reaches its 10 s timeout while P2 still waits; then a client
//	                 eligible for P2's pool arrives: it must not be refused and P2
//	                 must be the poll that receives its offer
//	client-between - a client eligible for P1's pool arrives while both wait
package main

import (
	"fmt"
	"strings"
	"sync"
	"testing"
	"time"

	"verif/vlib"
)

type nsOutcome struct {
	Variant   string       `json:"variant"`
	P1, P2    pollSpec     `json:"-"`
	NAT1      string       `json:"p1_nat"`
	NAT2      string       `json:"p2_nat"`
	GapMs     int          `json:"p2_starts_after_ms"`
	ClientNAT string       `json:"client_nat,omitempty"`
	R1, R2    pollResult   `json:"-"`
	P1Res     string       `json:"p1_outcome"`
	P2Res     string       `json:"p2_outcome"`
	P1Ms      [2]int64     `json:"p1_call_ret_ms"`
	P2Ms      [2]int64     `json:"p2_call_ret_ms"`
	Client    clientResult `json:"client_result"`
	ClientMs  [2]int64     `json:"client_call_ret_ms"`
}

func namesake(res *vlib.Result, prop string, r *vlib.Rand, ctxID int, variant string) {
	name := fmt.Sprintf("namesake/%s/%d", variant, ctxID)
	b := newVBroker(ctxID, nil, "", "")
	defer b.stop(res, prop)
	tr := newTracker()
	sid := fmt.Sprintf("ns%d-%x", ctxID, r.Uint64())
	o := &nsOutcome{Variant: variant}
	// the pools: P2 is the one the later client needs
	switch variant {
	case "client-after":
		o.ClientNAT = r.PickString([]string{NATRestricted, NATUnknown, "", NATUnrestricted})
		if o.ClientNAT == NATUnrestricted {
			o.NAT2 = r.PickString([]string{NATRestricted, NATUnknown})
		} else {
			o.NAT2 = NATUnrestricted
		}
		o.NAT1 = r.PickString([]string{NATRestricted, NATUnknown, NATUnrestricted})
		o.GapMs = r.Range(2500, 5000)
	case "client-between":
		o.ClientNAT = r.PickString([]string{NATRestricted, NATUnrestricted})
		if o.ClientNAT == NATUnrestricted {
			o.NAT1 = NATRestricted
		} else {
			o.NAT1 = NATUnrestricted
		}
		o.NAT2 = r.PickString([]string{NATRestricted, NATUnknown, NATUnrestricted})
		o.GapMs = r.Range(50, 600)
	default:
		o.NAT1 = r.PickString([]string{NATRestricted, NATUnknown, NATUnrestricted})
		o.NAT2 = r.PickString([]string{NATRestricted, NATUnknown, NATUnrestricted})
		o.GapMs = r.Range(0, 3000)
	}
	var mu sync.Mutex
	t0 := time.Now()
	ms := func() int64 { return int64(time.Since(t0) / time.Millisecond) }
	var p1done, p2done int32
	p1 := &pollSpec{Sid: sid, Type: "standalone", NAT: o.NAT1, Clients: 0}
	p2 := &pollSpec{Sid: sid, Type: "standalone", NAT: o.NAT2, Clients: 8}
	tr.run("proxy-poll", sid+"#1", func() string {
		mu.Lock()
		o.P1Ms[0] = ms()
		mu.Unlock()
		pr := b.poll(p1)
		mu.Lock()
		o.R1, o.P1Ms[1] = pr, ms()
		p1done = 1
		mu.Unlock()
		if pr.Offer != "" {
			b.answer(sid, "NS-ANSWER-1")
			return "offer"
		}
		return fmt.Sprintf("%d %s", pr.HTTP, pr.Status)
	})
	time.Sleep(time.Duration(o.GapMs) * time.Millisecond)
	tr.run("proxy-poll", sid+"#2", func() string {
		mu.Lock()
		o.P2Ms[0] = ms()
		mu.Unlock()
		pr := b.poll(p2)
		mu.Lock()
		o.R2, o.P2Ms[1] = pr, ms()
		p2done = 1
		mu.Unlock()
		if pr.Offer != "" {
			b.answer(sid, "NS-ANSWER-2")
			return "offer"
		}
		return fmt.Sprintf("%d %s", pr.HTTP, pr.Status)
	})
	offer := fmt.Sprintf("NS-OFFER-%d", ctxID)
	clientAt := func() {
		c := &clientSpec{Transport: "post", NAT: o.ClientNAT, Offer: offer}
		tr.run("client-poll", "", func() string {
			mu.Lock()
			o.ClientMs[0] = ms()
			mu.Unlock()
			cr := b.client(c)
			mu.Lock()
			o.Client, o.ClientMs[1] = cr, ms()
			mu.Unlock()
			return cr.Answer + cr.Error
		})
	}
	switch variant {
	case "client-after":
		// wait (state, not clock) until P1 has been answered by its timeout
		if !waitUntil(25*time.Second, func() bool { mu.Lock(); defer mu.Unlock(); return p1done == 1 }) {
			// left to the C04 judgement below
		} else {
			time.Sleep(time.Duration(r.Range(100, 700)) * time.Millisecond)
			clientAt()
		}
	case "client-between":
		time.Sleep(time.Duration(r.Range(100, 1500)) * time.Millisecond)
		clientAt()
	}
	all := tr.waitAll(60 * time.Second)
	mu.Lock()
	o.P1Res, o.P2Res = describePoll(o.R1, offer), describePoll(o.R2, offer)
	snap := *o
	_ = p2done
	mu.Unlock()
	rec := map[string]interface{}{"case": name, "scenario": name, "session_id": sid, "outcome": snap}
	res.Eval(1)
	res.Obs("namesake_scenarios", 1)
	res.Obs("namesake_scenarios_"+variant, 1)
	if prop == "C04" {
		if !all {
			judgeOpenGeneric(res, name, tr, rec)
			return
		}
		checkQuiescent(res, name, b, rec)
		res.Distinct(name)
		res.Sample(1, rec)
		return
	}
	// C03. A poll that is still open counts as still waiting (its completion is
	// C04's concern); a client that is still open cannot be judged.
	clientOpen, p1Open, p2Open := false, false, false
	for _, q := range tr.open() {
		switch {
		case q.Kind == "client-poll":
			clientOpen = true
		case strings.HasSuffix(q.Sid, "#1"):
			p1Open = true
		case strings.HasSuffix(q.Sid, "#2"):
			p2Open = true
		}
	}
	if !all {
		res.Obs("namesake_scenarios_with_requests_still_open", 1)
	}
	if clientOpen || (variant == "idle" && !all) {
		res.Inconcl(name + ": a request was still open after 60 s (bounded completion is C04's concern)")
		return
	}
	if p2Open {
		snap.P2Ms[1] = 1 << 40 // has not ended
	}
	if p1Open {
		snap.P1Ms[1] = 1 << 40
	}
	res.Distinct(name)
	const none = "no snowflake proxies currently available"
	switch variant {
	case "client-after":
		if snap.ClientMs[0] == 0 && snap.ClientMs[1] == 0 {
			res.Inconcl(name + ": the older poll did not end, no client was sent")
			return
		}
		// P2 was waiting during the whole client request iff it had been sent before the
		// client called and it ended after the client's response (or with the client's offer)
		p2Waiting := snap.P2Ms[0] < snap.ClientMs[0] && (snap.R2.Offer == offer || snap.P2Ms[1] > snap.ClientMs[1])
		if !p2Waiting {
			res.Obs("namesake_client_after_but_second_poll_already_over", 1)
			return
		}
		res.Obs("namesake_client_after_with_second_poll_waiting", 1)
		if snap.Client.Error == none {
			res.Violate("c03:denied-although-eligible-proxy-waiting:namesake-of-timed-out-poll", fmt.Sprintf("%s: client (NAT %q) was refused although poll #2 (NAT %q, same session id as poll #1, which had just timed out) was waiting in its pool", name, snap.ClientNAT, snap.NAT2), rec)
			return
		}
		if snap.R1.Offer == offer {
			res.Violate("c03:offer-given-to-a-poll-that-had-ended:namesake", fmt.Sprintf("%s: the offer went to poll #1, which had already been answered", name), rec)
		}
		if snap.R2.Offer != offer {
			res.Violate("c03:waiting-proxy-not-taken:namesake-of-timed-out-poll", fmt.Sprintf("%s: the client was not refused, yet the only waiting poll (#2) ended with %s", name, snap.P2Res), rec)
		}
	case "client-between":
		// both wait; the client is eligible for P1's pool (and for P2's if its NAT is in the same pool)
		if snap.Client.Error == none {
			res.Violate("c03:denied-although-eligible-proxy-waiting:namesake-pair", fmt.Sprintf("%s: client (NAT %q) was refused although polls with NAT %q and %q were waiting", name, snap.ClientNAT, snap.NAT1, snap.NAT2), rec)
			return
		}
		got1, got2 := snap.R1.Offer == offer, snap.R2.Offer == offer
		if got1 && got2 {
			res.Violate("c03:offer-handed-to-both-namesakes", name+": both polls received the client's offer", rec)
		}
		if !got1 && !got2 {
			res.Violate("c03:waiting-proxy-not-taken:namesake-pair", fmt.Sprintf("%s: the client was not refused, yet neither poll received its offer (%s / %s)", name, snap.P1Res, snap.P2Res), rec)
		}
		if got2 && proxyPool(normNAT(snap.NAT2)) != eligiblePool(normNAT(snap.ClientNAT)) {
			res.Violate("c03:proxy-taken-from-wrong-pool", fmt.Sprintf("%s: client NAT %q was given poll #2 with NAT %q", name, snap.ClientNAT, snap.NAT2), rec)
		}
		// load order: P1 reports 0 clients, P2 reports 8; when both are in the client's pool P1 goes first
		if got2 && proxyPool(normNAT(snap.NAT1)) == eligiblePool(normNAT(snap.ClientNAT)) {
			res.Violate("c03:load-order:namesake-pair", fmt.Sprintf("%s: poll #2 (8 clients) was taken although poll #1 (0 clients) was waiting in the same pool", name), rec)
		}
		res.Obs("namesake_client_between_matched", 1)
	}
	res.Sample(1, rec)
}

func describePoll(pr pollResult, offer string) string {
	switch {
	case pr.Offer == offer && offer != "":
		return "the client's offer"
	case pr.Offer != "":
		return "another offer"
	case pr.HTTP == 0:
		return "no response"
	}
	return strings.TrimSpace(fmt.Sprintf("%d %s", pr.HTTP, pr.Status))
}

func runNamesake(t *testing.T, prop string) {
	res := vlib.NewResult(prop, "inpkg-broker-"+strings.ToLower(prop)+"-namesake", "two proxy polls with the SAME session id open at the same time (ids are the proxies' choice), unmatched; variants: nobody else comes / the older poll times out and then a client eligible for the younger poll's pool arrives / a client arrives while both wait; C03 judges refusal, pool and load order per poll, C04 judges completion (goroutine-dump classification of anything still open) and leftovers; non-trivial = scenario executed to a verdict, distinct by (variant, context)")
	defer res.Finish()
	root := vlib.NewRand(vlib.Seed()).Split("namesake-" + prop)
	shard, nshards := vlib.Shard()
	n := vlib.Scale(8, 40)
	var wg sync.WaitGroup
	id := 0
	for _, variant := range []string{"idle", "client-after", "client-between"} {
		for i := 0; i < n; i++ {
			id++
			if id%nshards != shard {
				continue
			}
			wg.Add(1)
			go func(id int, variant string) {
				defer wg.Done()
				namesake(res, prop, root.SplitN(variant, id), 30000+id, variant)
			}(id, variant)
		}
	}
	wg.Wait()
	res.RequireObs("namesake_scenarios", int64(3*n/nshards/2))
	if prop == "C03" {
		res.RequireObs("namesake_client_after_with_second_poll_waiting", int64(n/nshards/2))
		res.RequireObs("namesake_client_between_matched", int64(n/nshards/2))
	} else {
		res.RequireObs("quiescence_checks", int64(3*n/nshards/2))
	}
}

func TestVerifC03Namesake(t *testing.T) { runNamesake(t, "C03") }
func TestVerifC04Namesake(t *testing.T) { runNamesake(t, "C04") }
