// C02 (no cross-wiring) and C03 (NAT compatibility, availability, load order):
// many independent brokers each run one short concurrent history recorded at
// the HTTP handler boundary; offline checkers decide.
package main

import (
	"encoding/json"
	"fmt"
	"io/ioutil"
	"log"
	"sort"
	"strings"
	"sync"
	"sync/atomic"
	"testing"
	"time"

	"git.torproject.org/pluggable-transports/snowflake.git/v2/common/bridgefingerprint"
	"github.com/anishathalye/porcupine"
	"verif/vlib"
)

type hProxy struct {
	Spec        pollSpec   `json:"spec"`
	StartMs     int        `json:"start_ms"`
	AnswerMode  string     `json:"answer_mode"` // prompt | late | never
	AnswerDelay int        `json:"answer_delay_ms"`
	AnswerTok   string     `json:"answer_token"`
	Res         pollResult `json:"poll_result"`
	Call, Ret   int64
	AnsHTTP     int    `json:"answer_http,omitempty"`
	AnsStatus   string `json:"answer_status,omitempty"`
	AnsCall     int64  `json:"answer_call_ns,omitempty"`
	AnsRet      int64  `json:"answer_ret_ns,omitempty"`
}

type hClient struct {
	Spec      clientSpec   `json:"spec"`
	StartMs   int          `json:"start_ms"`
	Res       clientResult `json:"result"`
	Call, Ret int64
}

type hStray struct {
	Sid     string `json:"sid"`
	Tok     string `json:"answer_token"`
	StartMs int    `json:"start_ms"`
	HTTP    int    `json:"http"`
	Status  string `json:"status"`
}

type hHistory struct {
	SharedAMPToken int        `json:"amp_clients_sharing_one_cache_breaking_token,omitempty"`
	Ctx            int        `json:"ctx"`
	Bridges        []vBridge  `json:"bridges"`
	Proxies        []*hProxy  `json:"proxies"`
	Clients        []*hClient `json:"clients"`
	Strays         []*hStray  `json:"stray_answers"`
	Open           int        `json:"operations_still_open"`
	LongSids       int        `json:"common_sid_prefix_bytes,omitempty"`
}

var natChoices = []string{"", NATUnknown, NATRestricted, NATUnrestricted, NATUnrestricted, NATRestricted}
var typeChoices = []string{"standalone", "webext", "badge", "iptproxy", "weird", ""}

func genHistory(r *vlib.Rand, ctxID int) *hHistory {
	h := &hHistory{Ctx: ctxID}
	// bridge list: 1..4 bridges, the default one included 2 times out of 3
	nb := r.Range(1, 4)
	for k := 0; k < nb; k++ {
		n := 20
		if r.Chance(1, 4) {
			n = 32
		}
		br := vBridge{FP: randFP(r, n), URL: fmt.Sprintf("wss://bridge-%d-%d.example.net/%x", ctxID, k, r.Intn(1<<16))}
		// records that leave members out: no relay address (absent or null) means
		// that bridge has none - not the one of the record before it
		if k > 0 && r.Chance(1, 3) {
			br.Sparse = r.Range(1, 3)
			if br.Sparse != 3 {
				br.URL = ""
			}
		}
		h.Bridges = append(h.Bridges, br)
	}
	if r.Chance(2, 3) {
		h.Bridges = append(h.Bridges, vBridge{FP: vDefaultFP, URL: fmt.Sprintf("wss://default-%d.example.net/", ctxID)})
	}
	np := r.Range(2, 8)
	nc := r.Range(2, 8)
	// skew NAT choices so that pools are contended
	skew := r.Intn(3)
	for i := 0; i < np; i++ {
		p := &hProxy{}
		p.Spec.Sid = fmt.Sprintf("c%d-p%d-%x", ctxID, i, r.Uint64())
		p.Spec.Type = r.PickString(typeChoices)
		p.Spec.NAT = r.PickString(natChoices)
		if skew == 1 && r.Bool() {
			p.Spec.NAT = NATUnrestricted
		}
		p.Spec.Clients = r.PickInt([]int{0, 0, 8, 8, 16, 24, 0, 40})
		if r.Bool() {
			s := ""
			p.Spec.Pattern = &s
		}
		p.StartMs = r.Intn(300)
		switch r.Intn(10) {
		case 0:
			p.AnswerMode = "never"
		case 1:
			p.AnswerMode = "late"
			p.AnswerDelay = 10300 + r.Intn(400)
		default:
			p.AnswerMode = "prompt"
			p.AnswerDelay = r.Intn(200)
		}
		p.AnswerTok = fmt.Sprintf(`{"type":"answer","sdp":"ANSWER-c%d-p%d-%x"}`, ctxID, i, r.Uint64())
		h.Proxies = append(h.Proxies, p)
	}
	for j := 0; j < nc; j++ {
		c := &hClient{}
		c.Spec.Transport = r.PickString([]string{"post", "post", "legacy", "amp"})
		c.Spec.NAT = r.PickString(natChoices)
		if skew == 2 && r.Bool() {
			c.Spec.NAT = NATUnrestricted
		}
		switch r.Intn(8) {
		case 0:
			c.Spec.FP = "" // default bridge
		case 1:
			c.Spec.FP = randFP(r, 20) // not in the list
		default:
			c.Spec.FP = h.Bridges[r.Intn(len(h.Bridges))].FP
		}
		if c.Spec.Transport == "legacy" {
			c.Spec.FP = "" // the legacy format cannot name a bridge
		}
		if c.Spec.Transport == "amp" && r.Bool() {
			c.Spec.Pad = cleanPad(r.StringFrom([]rune("abcXYZ019_-/"), r.Range(0, 12)))
		}
		c.Spec.Offer = fmt.Sprintf(`{"type":"offer","sdp":"OFFER-c%d-j%d-%x"}`, ctxID, j, r.Uint64())
		c.StartMs = r.Intn(700)
		h.Clients = append(h.Clients, c)
	}
	// session ids are the proxies' choice: in a third of the histories they are long
	// and pairwise distinct only in their last characters
	if lr := r.Split("long-sids"); lr.Chance(1, 3) {
		prefix := strings.Repeat(lr.PickString([]string{"S", "ab", "0123456789", "\u00e9"}), lr.Range(40, 200))
		for _, p := range h.Proxies {
			p.Spec.Sid = prefix + p.Spec.Sid
		}
		h.LongSids = len(prefix)
	}
	ns := r.Intn(3)
	for k := 0; k < ns; k++ {
		h.Strays = append(h.Strays, &hStray{Sid: fmt.Sprintf("c%d-unknown-%x", ctxID, r.Uint64()), Tok: fmt.Sprintf(`{"type":"answer","sdp":"STRAY-c%d-%d-%x"}`, ctxID, k, r.Uint64()), StartMs: r.Intn(900)})
	}
	// AMP clients of one history that present the same cache-breaking token
	if r.Chance(1, 2) {
		shared := r.PickString([]string{"", "AAAAAAAAAAAA", "x", "pad/pad"})
		n := 0
		for _, c := range h.Clients {
			if c.Spec.Transport == "amp" {
				c.Spec.Pad, c.Spec.FixedPad = shared, true
				n++
			}
		}
		if n >= 2 {
			h.SharedAMPToken = n
		}
	}
	return h
}

// runHistory executes h against a fresh broker; returns false if some
// operation was still open after the watchdog (left to C04 to judge).
func runHistory(h *hHistory, clock *vlib.History) (*vBroker, bool) {
	b := newVBroker(h.Ctx, h.Bridges, "", "")
	var wg sync.WaitGroup
	t0 := time.Now()
	at := func(ms int) { time.Sleep(time.Until(t0.Add(time.Duration(ms) * time.Millisecond))) }
	for _, p := range h.Proxies {
		wg.Add(1)
		go func(p *hProxy) {
			defer wg.Done()
			at(p.StartMs)
			p.Call = clock.Now()
			p.Res = b.poll(&p.Spec)
			p.Ret = clock.Now()
			if p.Res.Offer == "" || p.AnswerMode == "never" {
				return
			}
			time.Sleep(time.Duration(p.AnswerDelay) * time.Millisecond)
			p.AnsCall = clock.Now()
			p.AnsHTTP, p.AnsStatus = b.answer(p.Spec.Sid, p.AnswerTok)
			p.AnsRet = clock.Now()
		}(p)
	}
	for _, c := range h.Clients {
		wg.Add(1)
		go func(c *hClient) {
			defer wg.Done()
			at(c.StartMs)
			c.Call = clock.Now()
			c.Res = b.client(&c.Spec)
			c.Ret = clock.Now()
		}(c)
	}
	for _, s := range h.Strays {
		wg.Add(1)
		go func(s *hStray) {
			defer wg.Done()
			at(s.StartMs)
			s.HTTP, s.Status = b.answer(s.Sid, s.Tok)
		}(s)
	}
	done := make(chan struct{})
	go func() { wg.Wait(); close(done) }()
	select {
	case <-done:
		return b, true
	case <-time.After(60 * time.Second):
		return b, false
	}
}

// ---- C02 checker ------------------------------------------------------------

func checkC02(res *vlib.Result, h *hHistory, b *vBroker) {
	byAnswer := map[string]*hProxy{}
	for _, p := range h.Proxies {
		byAnswer[p.AnswerTok] = p
	}
	offerSeen := map[string][]*hProxy{}
	for _, p := range h.Proxies {
		if p.Res.Offer != "" {
			offerSeen[p.Res.Offer] = append(offerSeen[p.Res.Offer], p)
		}
	}
	clientByOffer := map[string]*hClient{}
	for _, c := range h.Clients {
		clientByOffer[c.Spec.Offer] = c
	}
	// (2) each offer is handed to at most one poll; every handed offer is some client's
	for off, ps := range offerSeen {
		if len(ps) > 1 {
			res.Violatef("c02:offer-handed-to-several-polls", h, "offer %q was handed to %d proxy polls", off, len(ps))
		}
		if clientByOffer[off] == nil {
			res.Violatef("c02:poll-received-foreign-offer", h, "a poll response carries an offer no client of this history sent: %q", off)
		}
	}
	matched := 0
	for _, c := range h.Clients {
		named := c.Spec.FP
		if named == "" {
			named = vDefaultFP
		}
		url, inList := b.bridgeURL(named)
		handed := offerSeen[c.Spec.Offer]
		// (4) absent fingerprint: error and never handed to a proxy
		if !inList {
			res.Obs("clients_naming_absent_fingerprint", 1)
			if c.Res.Answer != "" || len(handed) > 0 {
				res.Violatef("c02:absent-fingerprint-matched", h, "client naming fingerprint %s (not in the bridge list) was matched: answer=%q handed=%d", named, c.Res.Answer, len(handed))
			}
			continue
		}
		// (3) relay URL delivered with the offer
		for _, p := range handed {
			matched++
			if url == "" {
				res.Obs("matches_for_a_bridge_whose_record_has_no_relay_address", 1)
			}
			if p.Res.RelayURL != url {
				res.Violatef("c02:wrong-relay-url", h, "offer of client naming %s delivered with relay URL %q, configured %q", named, p.Res.RelayURL, url)
			}
			if c.Spec.FP == "" {
				res.Obs("default_bridge_matches", 1)
			}
		}
		// (1) the answer a client gets is the one posted by the poll that got its offer
		if c.Res.Answer != "" {
			res.Obs("clients_answered_"+c.Spec.Transport, 1)
			p := byAnswer[c.Res.Answer]
			switch {
			case p == nil:
				res.Violatef("c02:answer-from-nowhere", h, "client received answer %q that no proxy of this history posted", c.Res.Answer)
			case p.Res.Offer != c.Spec.Offer:
				res.Violatef("c02:cross-wired-answer", h, "client with offer %q received the answer of proxy %s, which had been handed offer %q", c.Spec.Offer, p.Spec.Sid, p.Res.Offer)
			}
		}
	}
	// (4b) a well-formed poll that comes back as a server error was popped for
	// an offer the broker then could not deliver: some client that must never
	// be matched consumed a waiting proxy
	for _, p := range h.Proxies {
		if p.Res.HTTP >= 500 {
			res.Violatef("c02:unmatchable-client-consumed-a-proxy", h, "well-formed poll %s ended with HTTP %d: it was matched with an offer that could not be delivered", p.Spec.Sid, p.Res.HTTP)
		}
	}
	// (5) late, stray answers reach nobody: every answer a client got is covered by (1);
	// additionally a stray token must not appear anywhere
	for _, s := range h.Strays {
		res.Obs("stray_answers", 1)
		for _, c := range h.Clients {
			if c.Res.Answer == s.Tok {
				res.Violatef("c02:stray-answer-delivered", h, "answer for unknown id %s was delivered to a client", s.Sid)
			}
		}
	}
	for _, p := range h.Proxies {
		if p.AnswerMode == "late" && p.AnsHTTP != 0 {
			res.Obs("late_answers_posted", 1)
		}
	}
	res.Obs("matched_pairs", int64(matched))
}

// ---- C03 checkers -----------------------------------------------------------

func normNAT(n string) string {
	if n == "" {
		return NATUnknown
	}
	return n
}

func checkC03Pairing(res *vlib.Result, h *hHistory) {
	clientByOffer := map[string]*hClient{}
	for _, c := range h.Clients {
		clientByOffer[c.Spec.Offer] = c
	}
	for _, p := range h.Proxies {
		if p.Res.Offer == "" {
			continue
		}
		c := clientByOffer[p.Res.Offer]
		if c == nil {
			continue
		}
		cn, pn := normNAT(c.Spec.NAT), normNAT(p.Spec.NAT)
		res.Obs("pairs_client_"+cn+"_proxy_"+pn, 1)
		if cn != NATUnrestricted && pn != NATUnrestricted {
			res.Violatef("c03:restricted-client-given-restricted-proxy", h, "client NAT %q matched with proxy NAT %q", c.Spec.NAT, p.Spec.NAT)
		}
		if cn == NATUnrestricted && pn == NATUnrestricted {
			res.Violatef("c03:unrestricted-client-given-unrestricted-proxy", h, "client NAT %q matched with proxy NAT %q", c.Spec.NAT, p.Spec.NAT)
		}
	}
}

// porcupine model of the waiting-proxy population
type mOp struct {
	Kind    string // enter | leave | take | denied
	Sid     string
	Pool    string
	Clients int
}

type mEntry struct {
	Sid     string
	Pool    string
	Clients int
}

func stateKey(st []mEntry) string {
	parts := make([]string, len(st))
	for i, e := range st {
		parts[i] = fmt.Sprintf("%s/%s/%d", e.Sid, e.Pool, e.Clients)
	}
	sort.Strings(parts)
	return strings.Join(parts, ",")
}

var brokerModel = porcupine.Model{
	Init: func() interface{} { return []mEntry{} },
	Step: func(state, input, output interface{}) (bool, interface{}) {
		st := state.([]mEntry)
		op := input.(mOp)
		find := func(sid string) int {
			for i, e := range st {
				if e.Sid == sid {
					return i
				}
			}
			return -1
		}
		without := func(i int) []mEntry {
			n := make([]mEntry, 0, len(st)-1)
			n = append(n, st[:i]...)
			return append(n, st[i+1:]...)
		}
		switch op.Kind {
		case "enter":
			n := make([]mEntry, len(st), len(st)+1)
			copy(n, st)
			return true, append(n, mEntry{op.Sid, op.Pool, op.Clients})
		case "leave":
			i := find(op.Sid)
			if i < 0 {
				return false, st
			}
			return true, without(i)
		case "take":
			i := find(op.Sid)
			if i < 0 || st[i].Pool != op.Pool {
				return false, st
			}
			for _, e := range st {
				if e.Pool == op.Pool && e.Clients < st[i].Clients {
					return false, st // a less loaded eligible proxy was waiting
				}
			}
			return true, without(i)
		case "denied":
			for _, e := range st {
				if e.Pool == op.Pool {
					return false, st // refused although an eligible proxy was waiting
				}
			}
			return true, st
		}
		return false, st
	},
	Equal: func(a, b interface{}) bool { return stateKey(a.([]mEntry)) == stateKey(b.([]mEntry)) },
	DescribeOperation: func(in, out interface{}) string {
		o := in.(mOp)
		return fmt.Sprintf("%s(%s pool=%s clients=%d)", o.Kind, o.Sid, o.Pool, o.Clients)
	},
}

func checkC03Linearizable(res *vlib.Result, h *hHistory) {
	var ops []porcupine.Operation
	clientByOffer := map[string]*hClient{}
	for _, c := range h.Clients {
		clientByOffer[c.Spec.Offer] = c
	}
	takenBy := map[*hClient]*hProxy{}
	id := 0
	for _, p := range h.Proxies {
		if p.Res.HTTP != 200 || (p.Res.Offer == "" && p.Res.Status != "no match") {
			continue // rejected / malformed: never entered
		}
		pool := proxyPool(p.Spec.NAT)
		ops = append(ops, porcupine.Operation{ClientId: id, Input: mOp{"enter", p.Spec.Sid, pool, p.Spec.Clients}, Call: p.Call, Return: p.Ret})
		id++
		if p.Res.Offer == "" {
			ops = append(ops, porcupine.Operation{ClientId: id, Input: mOp{"leave", p.Spec.Sid, pool, p.Spec.Clients}, Call: p.Call, Return: p.Ret})
			id++
			res.Obs("idle_polls", 1)
		} else if c := clientByOffer[p.Res.Offer]; c != nil {
			takenBy[c] = p
		}
	}
	denials, takes := 0, 0
	for _, c := range h.Clients {
		pool := eligiblePool(c.Spec.NAT)
		if p := takenBy[c]; p != nil {
			ops = append(ops, porcupine.Operation{ClientId: id, Input: mOp{"take", p.Spec.Sid, pool, 0}, Call: c.Call, Return: c.Ret})
			id++
			takes++
		} else if c.Res.Error == "no snowflake proxies currently available" {
			ops = append(ops, porcupine.Operation{ClientId: id, Input: mOp{"denied", "", pool, 0}, Call: c.Call, Return: c.Ret})
			id++
			denials++
			res.Obs("denials_pool_"+pool, 1)
		}
	}
	if len(ops) == 0 {
		return
	}
	r, info := porcupine.CheckOperationsVerbose(brokerModel, ops, 2*time.Minute)
	switch r {
	case porcupine.Ok:
		res.Obs("porcupine_ok", 1)
		res.Obs("porcupine_operations", int64(len(ops)))
	case porcupine.Unknown:
		res.Obs("porcupine_unknown", 1)
		res.Inconcl(fmt.Sprintf("porcupine timed out on history of ctx %d (%d ops)", h.Ctx, len(ops)))
	case porcupine.Illegal:
		_ = info
		var desc []string
		for _, o := range ops {
			desc = append(desc, fmt.Sprintf("[%d..%d] %s", o.Call/1e6, o.Return/1e6, brokerModel.DescribeOperation(o.Input, nil)))
		}
		sig := "c03:not-linearizable"
		res.Violate(sig, fmt.Sprintf("no sequential order of enter/leave/take/denied explains the history of ctx %d (a denial with an eligible proxy waiting, a take of a proxy that was not waiting/eligible, or a take that skipped a less loaded proxy)", h.Ctx), map[string]interface{}{"case": fmt.Sprintf("hist/%d", h.Ctx), "operations_ms": desc, "history": h})
	}
	if takes >= 1 && denials >= 1 {
		res.Obs("histories_with_take_and_denial", 1)
	}
}

// quiescent-population check: N waiting proxies, K concurrent clients must
// take the K least loaded of their pool; a client arriving when its pool is
// exhausted is denied even though other proxies wait.
func checkLoadOrder(res *vlib.Result, r *vlib.Rand, ctxID int) {
	b := newVBroker(ctxID, nil, "", "")
	defer b.stop(res, "C03")
	n := r.Range(3, 10)
	clientNAT := r.PickString([]string{"", NATUnknown, NATRestricted, NATUnrestricted})
	pool := eligiblePool(clientNAT)
	var specs []*pollSpec
	eligible := []int{}
	for i := 0; i < n; i++ {
		p := &pollSpec{}
		p.Sid = fmt.Sprintf("lo%d-p%d", ctxID, i)
		p.Type = "standalone"
		p.NAT = r.PickString([]string{NATUnrestricted, NATUnrestricted, NATRestricted, "", NATUnknown})
		p.Clients = r.PickInt([]int{0, 8, 16, 24, 32, 8, 0})
		if proxyPool(p.NAT) == pool {
			eligible = append(eligible, p.Clients)
		}
		specs = append(specs, p)
	}
	sort.Ints(eligible)
	var mu sync.Mutex
	taken := []int{}
	wrongPool := ""
	var wg sync.WaitGroup
	for _, p := range specs {
		wg.Add(1)
		go func(p *pollSpec) {
			defer wg.Done()
			pr := b.poll(p)
			if pr.Offer != "" {
				mu.Lock()
				taken = append(taken, p.Clients)
				if proxyPool(p.NAT) != pool {
					wrongPool = p.NAT
				}
				mu.Unlock()
				b.answer(p.Sid, "LO-ANSWER-"+p.Sid)
			}
		}(p)
	}
	rec := map[string]interface{}{"case": fmt.Sprintf("loadorder/%d", ctxID), "client_nat": clientNAT, "eligible_loads": eligible, "proxies": n}
	if !waitUntil(5*time.Second, func() bool { return b.debugAvailable() == n }) {
		res.Inconcl(fmt.Sprintf("loadorder ctx %d: %d proxies did not register within 5 s", ctxID, n))
		return
	}
	k := len(eligible)
	if k > 1 && r.Bool() {
		k = r.Range(1, len(eligible))
	}
	var cwg sync.WaitGroup
	for j := 0; j < k; j++ {
		cwg.Add(1)
		go func(j int) {
			defer cwg.Done()
			c := clientSpec{Transport: "post", NAT: clientNAT, Offer: fmt.Sprintf("LO-OFFER-%d-%d", ctxID, j)}
			b.client(&c)
		}(j)
	}
	cdone := make(chan struct{})
	go func() { cwg.Wait(); close(cdone) }()
	select {
	case <-cdone:
	case <-time.After(40 * time.Second):
		res.Inconcl(fmt.Sprintf("loadorder ctx %d: clients did not return in 40 s", ctxID))
		return
	}
	mu.Lock()
	got := append([]int{}, taken...)
	wp := wrongPool
	mu.Unlock()
	sort.Ints(got)
	rec["taken_loads"] = got
	rec["clients"] = k
	res.Eval(1)
	res.Obs("loadorder_populations", 1)
	if k > 0 {
		res.Distinct(fmt.Sprintf("loadorder/%d", ctxID))
	}
	if wp != "" {
		res.Violatef("c03:proxy-taken-from-wrong-pool", rec, "client NAT %q was given a proxy with NAT %q", clientNAT, wp)
	}
	if len(got) != k {
		res.Violatef("c03:wrong-number-of-proxies-taken", rec, "%d clients arrived with %d eligible proxies waiting, %d proxies were taken", k, len(eligible), len(got))
	} else {
		for i := range got {
			if got[i] != eligible[i] {
				res.Violatef("c03:load-order", rec, "clients took proxies with loads %v, the %d least loaded eligible ones were %v", got, k, eligible[:k])
				break
			}
		}
		if k >= 2 && eligible[0] != eligible[len(eligible)-1] && k < len(eligible) {
			res.Obs("loadorder_cases_where_order_matters", 1)
		}
	}
	if k == len(eligible) {
		// the eligible pool is exhausted while the other pool may still wait
		c := clientSpec{Transport: "post", NAT: clientNAT, Offer: fmt.Sprintf("LO-OFFER-%d-extra", ctxID)}
		r2 := b.client(&c)
		res.Obs("loadorder_extra_client_probes", 1)
		if n-len(eligible) > 0 {
			res.Obs("loadorder_denied_while_other_pool_waits", 1)
		}
		if r2.Error != "no snowflake proxies currently available" {
			res.Violatef("c03:extra-client-not-denied", rec, "a client arriving after all %d eligible proxies were taken got %+v", len(eligible), r2)
		}
	}
	// let the remaining polls time out (they are idle); bounded by the protocol's 10 s
	pdone := make(chan struct{})
	go func() { wg.Wait(); close(pdone) }()
	select {
	case <-pdone:
	case <-time.After(40 * time.Second):
		res.Inconcl(fmt.Sprintf("loadorder ctx %d: idle polls did not return in 40 s", ctxID))
	}
}

// NAT values that are none of the three names but could be taken for
// "restricted" or "unknown" by a lenient reader.
var oddNATs = []string{"Restricted", "RESTRICTED", " restricted", "restricted ", "Unknown", "UNKNOWN", "unknown ", "\tunknown", "restricted\n", "symmetric", "un", "Restricted,unrestricted"}

// checkOddNAT: proxy polls whose NAT value is not one of the three names.
// The broker either refuses such a poll (what the decoder documents), or, if
// it lets it wait, the proxy has not reported an unrestricted NAT: a client
// whose NAT is restricted, unknown or absent must not be given it.
func checkOddNAT(res *vlib.Result, r *vlib.Rand, ctxID int) {
	b := newVBroker(ctxID, nil, "", "")
	defer b.stop(res, "C03")
	n := r.Range(2, 4)
	type odd struct {
		spec pollSpec
		done int32
		res  pollResult
	}
	var ps []*odd
	var wg sync.WaitGroup
	for i := 0; i < n; i++ {
		o := &odd{}
		o.spec = pollSpec{Sid: fmt.Sprintf("odd%d-p%d", ctxID, i), Type: "standalone", NAT: r.PickString(oddNATs), Clients: r.PickInt([]int{0, 8})}
		if r.Bool() {
			e := ""
			o.spec.Pattern = &e
		}
		ps = append(ps, o)
		wg.Add(1)
		go func() {
			defer wg.Done()
			o.res = b.poll(&o.spec)
			atomic.StoreInt32(&o.done, 1)
			if o.res.Offer != "" {
				b.answer(o.spec.Sid, "ODD-ANSWER-"+o.spec.Sid)
			}
		}()
	}
	pending := func() int {
		k := 0
		for _, o := range ps {
			if atomic.LoadInt32(&o.done) == 0 {
				k++
			}
		}
		return k
	}
	// every poll has either been refused or is waiting
	if !waitUntil(5*time.Second, func() bool { return b.debugAvailable() == pending() }) {
		res.Inconcl(fmt.Sprintf("oddnat ctx %d: polls neither returned nor registered within 5 s", ctxID))
		wg.Wait()
		return
	}
	res.Eval(1)
	res.Obs("odd_nat_populations", 1)
	waiting := pending()
	if waiting == 0 {
		res.Obs("odd_nat_polls_refused", int64(n))
		wg.Wait()
		for _, o := range ps {
			if o.res.HTTP == 200 {
				res.Violatef("c03:odd-nat-poll-answered-200-without-waiting", map[string]interface{}{"case": fmt.Sprintf("oddnat/%d", ctxID), "nat": o.spec.NAT, "result": o.res}, "poll with NAT %q was neither refused nor kept waiting", o.spec.NAT)
			}
		}
		return
	}
	res.Obs("odd_nat_polls_kept_waiting", int64(waiting))
	clientNAT := r.PickString([]string{"", NATUnknown, NATRestricted})
	c := clientSpec{Transport: "post", NAT: clientNAT, Offer: fmt.Sprintf("ODD-OFFER-%d", ctxID)}
	cr := b.client(&c)
	wdone := make(chan struct{})
	go func() { wg.Wait(); close(wdone) }()
	select {
	case <-wdone:
	case <-time.After(40 * time.Second):
		res.Inconcl(fmt.Sprintf("oddnat ctx %d: polls did not return in 40 s", ctxID))
		return
	}
	for _, o := range ps {
		if o.res.Offer == c.Offer {
			res.Violatef("c03:restricted-client-given-proxy-that-did-not-report-unrestricted", map[string]interface{}{"case": fmt.Sprintf("oddnat/%d", ctxID), "client_nat": clientNAT, "proxy_nat": o.spec.NAT, "client_result": cr},
				"client NAT %q was matched with a proxy whose poll said NAT %q", clientNAT, o.spec.NAT)
		}
	}
}

// checkFingerprintlessRecord: a list one of whose records has no fingerprint
// is refused as a whole (that is what the loader documents); whatever a
// loader does with it, no fingerprint may end up bound to the relay address of
// another record.
func checkFingerprintlessRecord(res *vlib.Result, r *vlib.Rand, ctxID int) {
	res.Eval(1)
	fa, fb := randFP(r, 20), randFP(r, 20)
	ua, ux, ub := fmt.Sprintf("wss://a-%d.example.net/", ctxID), fmt.Sprintf("wss://x-%d.example.net/", ctxID), fmt.Sprintf("wss://b-%d.example.net/", ctxID)
	lacking := []string{
		`{"displayName":"x","webSocketAddress":"` + ux + `"}`,
		`{"displayName":"x","webSocketAddress":"` + ux + `","fingerprint":null}`,
		`{"webSocketAddress":"` + ux + `"}`,
	}[r.Intn(3)]
	list := string(vBridge{FP: fa, URL: ua}.line()) + lacking + "\n" + string(vBridge{FP: fb, URL: ub}.line())
	ctx := NewBrokerContext(log.New(ioutil.Discard, "", 0))
	err := ctx.InstallBridgeListProfile(strings.NewReader(list), "example.net$", "example.net$")
	rec := map[string]interface{}{"case": fmt.Sprintf("fingerprintless/%d", ctxID), "list": list, "load_error": fmt.Sprint(err)}
	res.Obs("lists_with_a_record_lacking_its_fingerprint", 1)
	if err != nil {
		res.Obs("lists_with_a_record_lacking_its_fingerprint_refused", 1)
		return
	}
	for _, x := range []struct{ fp, url string }{{fa, ua}, {fb, ub}} {
		f, ferr := bridgefingerprint.FingerprintFromHexString(x.fp)
		if ferr != nil {
			continue
		}
		info, gerr := ctx.GetBridgeInfo(f)
		if gerr == nil && info.WebSocketAddress != x.url {
			res.Violatef("c02:bridge-bound-to-another-records-relay-url", rec, "after loading a list with a fingerprint-less record, bridge %s is bound to relay %q; its own record says %q", x.fp, info.WebSocketAddress, x.url)
		}
	}
}

func TestVerifC02(t *testing.T) { runC02C03(t, "C02") }
func TestVerifC03(t *testing.T) { runC02C03(t, "C03") }

func runC02C03(t *testing.T, prop string) {
	rule := "PRNG concurrent histories (2-8 proxy polls with distinct sids and all NAT/type/load values, 2-8 client polls over POST/legacy/AMP with unique offer tokens and named/absent/unlisted fingerprints, prompt/late/never/stray answers) each against its own broker instance; non-trivial = history with >=2 matched pairs whose client intervals overlap in time; distinct by history id"
	res := vlib.NewResult(prop, "inpkg-broker-"+strings.ToLower(prop), rule)
	defer res.Finish()
	root := vlib.NewRand(vlib.Seed()).Split("c02c03")
	shard, nshards := vlib.Shard()
	nCtx := vlib.Scale(64, 512)
	clock := vlib.NewHistory()
	var hs []*hHistory
	for i := 0; i < nCtx; i++ {
		if i%nshards != shard {
			continue
		}
		hs = append(hs, genHistory(root.SplitN("hist", i), i))
	}
	type out struct {
		h  *hHistory
		b  *vBroker
		ok bool
	}
	outs := make([]out, len(hs))
	var wg sync.WaitGroup
	sem := make(chan struct{}, 128)
	for i, h := range hs {
		wg.Add(1)
		go func(i int, h *hHistory) {
			defer wg.Done()
			sem <- struct{}{}
			b, ok := runHistory(h, clock)
			<-sem
			outs[i] = out{h, b, ok}
		}(i, h)
	}
	wg.Wait()
	for _, o := range outs {
		res.Eval(1)
		if !o.ok {
			o.h.Open = 1
			res.Obs("histories_with_open_operations", 1)
			res.Inconcl(fmt.Sprintf("history ctx %d: an operation was still open after 60 s (bounded completion is C04's concern)", o.h.Ctx))
			continue
		}
		if prop == "C02" {
			checkC02(res, o.h, o.b)
		} else {
			checkC03Pairing(res, o.h)
			checkC03Linearizable(res, o.h)
		}
		// non-trivial: >= 2 matched pairs overlapping in time
		var iv [][2]int64
		offers := map[string]bool{}
		for _, p := range o.h.Proxies {
			if p.Res.Offer != "" {
				offers[p.Res.Offer] = true
			}
		}
		for _, c := range o.h.Clients {
			if offers[c.Spec.Offer] {
				iv = append(iv, [2]int64{c.Call, c.Ret})
			}
		}
		overlap := false
		for a := 0; a < len(iv); a++ {
			for bb := a + 1; bb < len(iv); bb++ {
				if iv[a][0] < iv[bb][1] && iv[bb][0] < iv[a][1] {
					overlap = true
				}
			}
		}
		if overlap {
			res.Distinct(fmt.Sprintf("hist/%d", o.h.Ctx))
			res.Obs("histories_with_overlapping_matches", 1)
		}
		res.Obs("histories", 1)
		if o.h.SharedAMPToken > 0 {
			res.Obs("histories_with_amp_clients_sharing_a_token", 1)
		}
		if o.h.LongSids > 0 {
			res.Obs("histories_with_long_session_ids_sharing_a_prefix", 1)
		}
		for _, c := range o.h.Clients {
			res.Obs("client_polls_"+c.Spec.Transport, 1)
		}
		if res.GetObs("histories") <= 2 {
			j, _ := json.Marshal(o.h)
			var v interface{}
			json.Unmarshal(j, &v)
			res.Sample(2, v)
		}
	}
	if prop == "C03" {
		nLO := vlib.Scale(24, 300)
		var lwg sync.WaitGroup
		for i := 0; i < nLO; i++ {
			if i%nshards != shard {
				continue
			}
			lwg.Add(1)
			go func(i int) {
				defer lwg.Done()
				checkLoadOrder(res, root.SplitN("loadorder", i), 100000+i)
			}(i)
		}
		for i := 0; i < vlib.Scale(12, 80); i++ {
			if i%nshards != shard {
				continue
			}
			lwg.Add(1)
			go func(i int) {
				defer lwg.Done()
				checkOddNAT(res, root.SplitN("oddnat", i), 110000+i)
			}(i)
		}
		lwg.Wait()
		res.RequireObs("porcupine_ok", int64(len(hs)*6/10))
		res.RequireObs("loadorder_populations", 10)
		res.RequireObs("odd_nat_populations", 1)
		res.RequireObs("loadorder_cases_where_order_matters", 1)
		res.RequireObs("loadorder_denied_while_other_pool_waits", 1)
		res.RequireObs("denials_pool_unrestricted", 1)
		res.RequireObs("denials_pool_restricted-or-unknown", 1)
	} else {
		for i := 0; i < vlib.Scale(12, 60); i++ {
			if i%nshards == shard {
				checkFingerprintlessRecord(res, root.SplitN("fingerprintless", i), 140000+i)
			}
		}
		res.RequireObs("matched_pairs", int64(len(hs)))
		res.RequireObs("clients_answered_post", 1)
		res.RequireObs("clients_answered_legacy", 1)
		res.RequireObs("clients_answered_amp", 1)
		res.RequireObs("clients_naming_absent_fingerprint", 1)
		res.RequireObs("late_answers_posted", 1)
		res.RequireObs("lists_with_a_record_lacking_its_fingerprint", 1)
	}
	res.RequireObs("histories_with_overlapping_matches", int64(len(hs)*4/10))
	res.RequireObs("histories_with_long_session_ids_sharing_a_prefix", int64(len(hs)/8))
}
