// C20 (broker workload) — concurrent polls, offers, answers, scrapes and the
// periodic metrics printer/reset running the way logMetrics runs them. No
// functional oracle: the race detector is the monitor.
package main

import (
	"fmt"
	"sync"
	"sync/atomic"
	"testing"
	"time"

	"verif/vlib"
)

func TestVerifC20Broker(t *testing.T) {
	res := vlib.NewResult("C20", "inpkg-broker-c20", "stress workload on one broker instance: concurrent proxy polls (all NAT/type labels, arbitrary remote addresses, geoip loaded), client polls over POST/legacy/AMP, answers, /debug, /prometheus scrapes and the periodic printer + reset invoked as logMetrics does; the race detector observes; non-trivial = request issued, distinct by request number")
	defer res.Finish()
	root := vlib.NewRand(vlib.Seed()).Split("c20broker")
	rounds := vlib.Scale(3, 10)
	for round := 0; round < rounds; round++ {
		b := newVBroker(20000+round, nil, "", "")
		g4, g6 := geoipPaths()
		b.ctx.metrics.LoadGeoipDatabases(g4, g6)
		var wg sync.WaitGroup
		stop := make(chan struct{})
		var nreq int64
		// the periodic task, at a short period
		wg.Add(1)
		go func() {
			defer wg.Done()
			for {
				select {
				case <-stop:
					return
				case <-time.After(20 * time.Millisecond):
					b.ctx.metrics.printMetrics()
					b.ctx.metrics.zeroMetrics()
					res.Obs("periodic_print_and_reset", 1)
				}
			}
		}()
		// scrapers
		for s := 0; s < 2; s++ {
			wg.Add(1)
			go func() {
				defer wg.Done()
				for {
					select {
					case <-stop:
						return
					default:
					}
					b.do("GET", "/prometheus", nil, nil, "")
					b.do("GET", "/debug", nil, nil, "")
					atomic.AddInt64(&nreq, 2)
					time.Sleep(5 * time.Millisecond)
				}
			}()
		}
		n := vlib.Scale(150, 400)
		var pw sync.WaitGroup
		for i := 0; i < n; i++ {
			r := root.SplitN(fmt.Sprintf("r%d", round), i)
			r2 := root.SplitN(fmt.Sprintf("c%d", round), i)
			pw.Add(2)
			go func(i int) {
				defer pw.Done()
				time.Sleep(time.Duration(r.Intn(300)) * time.Millisecond)
				p := &pollSpec{Sid: fmt.Sprintf("c20-%d-%d", round, i), Type: r.PickString(typeChoices), NAT: r.PickString(natChoices), Clients: r.PickInt([]int{0, 8}), Remote: joinHostPort(r.PickString(c19Addrs), 1000+i)}
				if r.Bool() {
					s := ""
					p.Pattern = &s
				}
				pr := b.poll(p)
				atomic.AddInt64(&nreq, 1)
				if pr.Offer != "" {
					b.answer(p.Sid, "A-"+p.Sid)
					atomic.AddInt64(&nreq, 1)
				}
			}(i)
			go func(i int) {
				defer pw.Done()
				time.Sleep(time.Duration(r2.Intn(600)) * time.Millisecond)
				c := &clientSpec{Transport: r2.PickString([]string{"post", "legacy", "amp"}), NAT: r2.PickString(natChoices), Offer: fmt.Sprintf(`{"type":"offer","sdp":"c20-%d-%d"}`, round, i)}
				b.client(c)
				atomic.AddInt64(&nreq, 1)
			}(i)
		}
		pw.Wait()
		close(stop)
		wg.Wait()
		res.Eval(atomic.LoadInt64(&nreq))
		res.Obs("requests", atomic.LoadInt64(&nreq))
		res.Obs("rounds", 1)
		for i := int64(0); i < 3; i++ {
			res.Distinct(fmt.Sprintf("round%d/%d", round, i))
		}
	}
	res.Sample(1, map[string]interface{}{"rounds": rounds, "requests": res.GetObs("requests")})
	res.RequireObs("requests", 500)
	res.RequireObs("periodic_print_and_reset", 10)
}
