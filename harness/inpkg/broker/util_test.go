package main

import "os"

func getenv(k string) string { return os.Getenv(k) }
