package main

import (
	"encoding/base64"
	"os"
	"strings"
)

func getenv(k string) string { return os.Getenv(k) }

func b64url(b []byte) string { return base64.RawURLEncoding.EncodeToString(b) }

// cleanPad removes empty path segments from AMP cache-breaking padding: the
// HTTP mux would answer a path containing "//" with a redirect to the cleaned
// path, which is net/http routing, not the endpoint under test.
func cleanPad(p string) string {
	for strings.Contains(p, "//") {
		p = strings.Replace(p, "//", "/_", -1)
	}
	if strings.HasSuffix(p, "/") {
		p += "x"
	}
	return p
}
