// C17, in-package part — the inner client map under an explicit clock.
//
// Engine: inpkg (package turbotunnel; needs clientMapInner, clientRecord).
// Oracle: the reference map of DESIGN appendix A6. State
//
//	M: addr -> (lastSeen, channel identity, contents)
//
// SendQueue(a, now): present => refresh lastSeen, return the SAME channel;
// absent => create (a channel never handed out before, open and empty).
// removeExpired(now, T): removes exactly the entries with now-lastSeen >= T;
// their channels become closed and still yield their buffered contents before
// reporting closed; all others keep identity and contents.
// After every operation: len(byAge)==len(byAddr), byAddr[byAge[i].Addr]==i,
// heap order on LastSeen.
//
// go 1.13 language rules (module declares go 1.13): no generics, no `any`.
package turbotunnel

import (
	"fmt"
	"hash/fnv"
	"net"
	"testing"
	"time"

	"verif/vlib"
)

type c17Addr string

func (a c17Addr) Network() string { return "verif" }
func (a c17Addr) String() string  { return string(a) }

// one scripted operation (JSON-marshalable: it is the replay)
type c17Op struct {
	Kind string `json:"op"` // send-queue | push | pop | expire
	Addr int    `json:"addr"`
	Now  int64  `json:"now_ns"` // explicit clock, offset from the base instant
	Data string `json:"data,omitempty"`
}

type c17Replay struct {
	Case    string  `json:"case"`
	Timeout int64   `json:"timeout_ns"`
	Addrs   int     `json:"addresses"`
	Ops     []c17Op `json:"ops"` // up to and including the failing operation
	FailAt  int     `json:"failing_op_index"`
}

type c17RefEntry struct {
	lastSeen time.Time
	ch       chan []byte
	contents []string
}

type c17Stats struct {
	refreshes, creations, recreations, removals, survivals  int
	boundaryExact, boundaryBelow, expiresRemovingAndKeeping int
	pushes, pops                                            int
}

var c17Base = time.Unix(1600000000, 0)

func c17AddrFor(i int) net.Addr {
	if i%2 == 1 {
		// the type the server really uses as a key
		var id ClientID
		id[0] = byte(i)
		id[7] = 0xc1
		return id
	}
	return c17Addr(fmt.Sprintf("client-%d", i))
}

// c17Invariants checks the heap/index invariants of A6. Returns "" or (sig, msg).
func c17Invariants(inner *clientMapInner) (string, string) {
	if len(inner.byAge) != len(inner.byAddr) {
		return "invariant:len", fmt.Sprintf("len(byAge)=%d, len(byAddr)=%d", len(inner.byAge), len(inner.byAddr))
	}
	for i, rec := range inner.byAge {
		if rec == nil {
			return "invariant:index", fmt.Sprintf("byAge[%d] is nil", i)
		}
		j, ok := inner.byAddr[rec.Addr]
		if !ok || j != i {
			return "invariant:index", fmt.Sprintf("byAddr[byAge[%d].Addr] = %d (present=%v)", i, j, ok)
		}
		if i > 0 {
			p := (i - 1) / 2
			if rec.LastSeen.Before(inner.byAge[p].LastSeen) {
				return "invariant:heap-order", fmt.Sprintf("byAge[%d].LastSeen=%d ns is before its heap parent byAge[%d].LastSeen=%d ns",
					i, rec.LastSeen.Sub(c17Base), p, inner.byAge[p].LastSeen.Sub(c17Base))
			}
		}
	}
	return "", ""
}

// c17Agree compares the real inner map with the reference.
func c17Agree(inner *clientMapInner, ref map[net.Addr]*c17RefEntry) (string, string) {
	if len(inner.byAddr) != len(ref) {
		return "state:entry-count", fmt.Sprintf("map holds %d entries, reference %d", len(inner.byAddr), len(ref))
	}
	for a, e := range ref {
		i, ok := inner.byAddr[a]
		if !ok || i < 0 || i >= len(inner.byAge) {
			return "state:entry-missing", fmt.Sprintf("address %v missing (reference: lastSeen=%d ns)", a, e.lastSeen.Sub(c17Base))
		}
		rec := inner.byAge[i]
		if rec.SendQueue != e.ch {
			return "state:channel-identity", fmt.Sprintf("address %v: record holds a different channel than the one handed out", a)
		}
		if !rec.LastSeen.Equal(e.lastSeen) {
			return "state:last-seen", fmt.Sprintf("address %v: LastSeen=%d ns, reference %d ns", a, rec.LastSeen.Sub(c17Base), e.lastSeen.Sub(c17Base))
		}
		if len(rec.SendQueue) != len(e.contents) {
			return "state:contents-length", fmt.Sprintf("address %v: %d packets buffered, reference %d", a, len(rec.SendQueue), len(e.contents))
		}
	}
	return "", ""
}

// c17Drain checks that ch yields exactly want and then, if wantClosed, reports
// closed (never blocks: an empty open channel is detected with default).
func c17Drain(ch chan []byte, want []string, wantClosed bool, what string) (string, string) {
	for k, w := range want {
		select {
		case v, ok := <-ch:
			if !ok {
				return what + ":contents-lost", fmt.Sprintf("channel reported closed before buffered packet %d of %d", k, len(want))
			}
			if string(v) != w {
				return what + ":contents-changed", fmt.Sprintf("buffered packet %d is %q, reference %q", k, v, w)
			}
		default:
			return what + ":contents-lost", fmt.Sprintf("channel empty before buffered packet %d of %d", k, len(want))
		}
	}
	select {
	case v, ok := <-ch:
		if ok {
			return what + ":contents-extra", fmt.Sprintf("unexpected extra packet %q", v)
		}
		if !wantClosed {
			return what + ":closed-while-present", "channel of a live entry is closed"
		}
	default:
		if wantClosed {
			return what + ":queue-not-closed", "channel of a removed entry is empty but not closed"
		}
	}
	return "", ""
}

// c17Run executes one script against a fresh inner map and the reference.
func c17Run(res *vlib.Result, id string, T time.Duration, nAddr int, ops []c17Op, st *c17Stats) {
	res.Eval(1)
	inner := &clientMapInner{byAge: make([]*clientRecord, 0), byAddr: make(map[net.Addr]int)}
	ref := make(map[net.Addr]*c17RefEntry)
	handedOut := make(map[chan []byte]bool) // every channel ever returned
	everSeen := make(map[net.Addr]bool)
	addrs := make([]net.Addr, nAddr)
	for i := range addrs {
		addrs[i] = c17AddrFor(i)
	}
	fail := func(k int, sig, msg string) {
		rep := c17Replay{Case: id, Timeout: int64(T), Addrs: nAddr, Ops: ops[:k+1], FailAt: k}
		res.Violate(sig, fmt.Sprintf("op %d %s(addr %d, now=%d ns, T=%d ns): %s", k, ops[k].Kind, ops[k].Addr, ops[k].Now, int64(T), msg), rep)
	}
	for k := range ops {
		op := ops[k]
		now := c17Base.Add(time.Duration(op.Now))
		a := addrs[op.Addr]
		sig, msg := "", ""
		panicked := res.Guard("panic:clientMapInner:"+op.Kind, c17Replay{Case: id, Timeout: int64(T), Addrs: nAddr, Ops: ops[:k+1], FailAt: k}, func() {
			switch op.Kind {
			case "send-queue":
				ch := inner.SendQueue(a, now)
				e := ref[a]
				if e != nil {
					st.refreshes++
					if ch != e.ch {
						sig, msg = "sendqueue:different-channel-while-present", "SendQueue returned a different channel for an address that is present"
						return
					}
					e.lastSeen = now
					return
				}
				if ch == nil {
					sig, msg = "sendqueue:nil-channel", "SendQueue returned nil"
					return
				}
				if handedOut[ch] {
					sig, msg = "sendqueue:reused-channel", "SendQueue for an absent address returned a channel handed out before"
					return
				}
				handedOut[ch] = true
				if s, m := c17Drain(ch, nil, false, "sendqueue:new-channel"); s != "" {
					sig, msg = s, m
					return
				}
				st.creations++
				if everSeen[a] {
					st.recreations++
				}
				everSeen[a] = true
				ref[a] = &c17RefEntry{lastSeen: now, ch: ch}
			case "push":
				e := ref[a]
				if e == nil {
					return
				}
				// what QueuePacketConn.WriteTo does with the channel, minus the refresh
				select {
				case e.ch <- []byte(op.Data):
					e.contents = append(e.contents, op.Data)
					st.pushes++
				default:
					if len(e.contents) < cap(e.ch) {
						sig, msg = "queue:full-below-capacity", fmt.Sprintf("send refused with %d of %d buffered", len(e.contents), cap(e.ch))
					}
				}
			case "pop":
				e := ref[a]
				if e == nil {
					return
				}
				select {
				case v, ok := <-e.ch:
					if !ok {
						sig, msg = "queue:closed-while-present", "channel of a live entry is closed"
					} else if len(e.contents) == 0 {
						sig, msg = "queue:contents-extra", fmt.Sprintf("unexpected packet %q", v)
					} else if string(v) != e.contents[0] {
						sig, msg = "queue:contents-changed", fmt.Sprintf("got %q, reference head %q", v, e.contents[0])
					} else {
						e.contents = e.contents[1:]
						st.pops++
					}
				default:
					if len(e.contents) != 0 {
						sig, msg = "queue:contents-lost", fmt.Sprintf("channel empty, reference holds %d", len(e.contents))
					}
				}
			case "expire":
				inner.removeExpired(now, T)
				removed, kept := 0, 0
				for ra, e := range ref {
					idle := now.Sub(e.lastSeen)
					_, present := inner.byAddr[ra]
					if idle == T {
						st.boundaryExact++
					}
					if idle == T-1 {
						st.boundaryBelow++
					}
					if idle >= T {
						removed++
						if present {
							sig, msg = "expiry:kept-past-timeout", fmt.Sprintf("address %v idle %d ns >= timeout %d ns survived removeExpired", ra, int64(idle), int64(T))
							return
						}
						if s, m := c17Drain(e.ch, e.contents, true, "expiry"); s != "" {
							sig, msg = s, fmt.Sprintf("address %v removed at idle %d ns: %s", ra, int64(idle), m)
							return
						}
						delete(ref, ra)
					} else {
						kept++
						if !present {
							sig, msg = "expiry:removed-before-timeout", fmt.Sprintf("address %v idle only %d ns < timeout %d ns was removed", ra, int64(idle), int64(T))
							return
						}
					}
				}
				st.removals += removed
				st.survivals += kept
				if removed > 0 && kept > 0 {
					st.expiresRemovingAndKeeping++
				}
			}
		})
		if panicked {
			return
		}
		if sig == "" {
			sig, msg = c17Invariants(inner)
		}
		if sig == "" {
			sig, msg = c17Agree(inner, ref)
		}
		if sig != "" {
			fail(k, sig, msg)
			return
		}
	}
	// survivors keep their contents to the end
	for a, e := range ref {
		if s, m := c17Drain(e.ch, e.contents, false, "final"); s != "" {
			fail(len(ops)-1, s, fmt.Sprintf("address %v at end of script: %s", a, m))
			return
		}
	}
}

func c17Hash(T time.Duration, ops []c17Op) string {
	h := fnv.New64a()
	fmt.Fprintf(h, "%d|", int64(T))
	for _, o := range ops {
		fmt.Fprintf(h, "%s,%d,%d;", o.Kind, o.Addr, o.Now)
	}
	return fmt.Sprintf("%x", h.Sum64())
}

func c17Nontrivial(before, after c17Stats) bool {
	return after.refreshes > before.refreshes && after.removals > before.removals
}

func c17GenScript(r *vlib.Rand) (T time.Duration, nAddr int, ops []c17Op) {
	Ts := []int{1, 2, 3, 10, 1000, 1000000000}
	T = time.Duration(r.PickInt(Ts))
	nAddr = r.Range(1, 5)
	n := r.Range(4, 60)
	var now int64
	t := int64(T)
	for i := 0; i < n; i++ {
		switch r.Intn(10) {
		case 0, 1:
			// no step: ties in LastSeen
		case 2:
			now++
		case 3:
			now += t / 2
		case 4, 5:
			now += t - 1
		case 6:
			now += t
		case 7:
			now += t + 1
		case 8:
			now += 2 * t
		default:
			now += int64(r.Intn(int(2*t) + 1))
		}
		op := c17Op{Addr: r.Intn(nAddr), Now: now}
		switch k := r.Intn(20); {
		case k < 9:
			op.Kind = "send-queue"
		case k < 12:
			op.Kind = "push"
			op.Data = fmt.Sprintf("p%d", i)
		case k < 15:
			op.Kind = "pop"
		default:
			op.Kind = "expire"
			op.Addr = 0
		}
		ops = append(ops, op)
	}
	return
}

func TestVerifC17Inner(t *testing.T) {
	res := vlib.NewResult("C17", "inpkg-c17", "clientMapInner under an explicit clock vs reference map A6: PRNG scripts of SendQueue/push/pop/removeExpired over 1-5 addresses (vaddr and ClientID keys) with clock steps {0,1,T/2,T-1,T,T+1,2T,random} for T in {1,2,3,10,1000,1e9} ns, plus every script of bounded length over 2 addresses with steps {0,T-1,T}; after every operation heap/index invariants and full agreement with the reference; non-trivial = script with at least one refresh of a present entry and at least one expiry removal, distinct by script hash")
	defer res.Finish()
	root := vlib.NewRand(vlib.Seed()).Split("c17inner")
	var st c17Stats

	// 1. PRNG scripts
	n := vlib.Scale(20000, 300000)
	for i := 0; i < n; i++ {
		r := root.SplitN("script", i)
		T, nAddr, ops := c17GenScript(r)
		before := st
		c17Run(res, fmt.Sprintf("prng/%d", i), T, nAddr, ops, &st)
		if c17Nontrivial(before, st) {
			res.Distinct(c17Hash(T, ops))
		}
		if i < 2 {
			res.Sample(2, c17Replay{Case: fmt.Sprintf("prng/%d", i), Timeout: int64(T), Addrs: nAddr, Ops: ops, FailAt: -1})
		}
	}
	res.Obs("prng_scripts", int64(n))

	// 2. every script of length L over 2 addresses, T = 2 ns, clock steps {0, T-1, T};
	// each element = (step, op) with op in {SendQueue(a0), SendQueue(a1), removeExpired};
	// every SendQueue is followed by a push of a unique packet so that retention of
	// contents is decided at every expiry.
	L := vlib.Scale(5, 6)
	const T2 = time.Duration(2)
	steps := []int64{0, 1, 2}
	total := 1
	for i := 0; i < L; i++ {
		total *= 9
	}
	for code := 0; code < total; code++ {
		var ops []c17Op
		var now int64
		c := code
		for i := 0; i < L; i++ {
			e := c % 9
			c /= 9
			now += steps[e/3]
			switch e % 3 {
			case 0, 1:
				ops = append(ops, c17Op{Kind: "send-queue", Addr: e % 3, Now: now})
				ops = append(ops, c17Op{Kind: "push", Addr: e % 3, Now: now, Data: fmt.Sprintf("e%d", i)})
			default:
				ops = append(ops, c17Op{Kind: "expire", Now: now})
			}
		}
		before := st
		c17Run(res, fmt.Sprintf("enum/%d/%d", L, code), T2, 2, ops, &st)
		if c17Nontrivial(before, st) {
			res.Distinct(c17Hash(T2, ops))
		}
	}
	res.Obs("enumerated_scripts", int64(total))
	res.Obs("enumerated_script_length", int64(L))

	res.Obs("refreshes_of_present_entry", int64(st.refreshes))
	res.Obs("creations", int64(st.creations))
	res.Obs("recreations_after_expiry", int64(st.recreations))
	res.Obs("removals", int64(st.removals))
	res.Obs("survivals_at_expire", int64(st.survivals))
	res.Obs("expire_calls_removing_some_keeping_others", int64(st.expiresRemovingAndKeeping))
	res.Obs("boundary_idle_exactly_T", int64(st.boundaryExact))
	res.Obs("boundary_idle_T_minus_1", int64(st.boundaryBelow))
	res.Obs("pushes", int64(st.pushes))
	res.Obs("pops", int64(st.pops))

	res.RequireObs("prng_scripts", 10000)
	res.RequireObs("enumerated_scripts", 59049)
	res.RequireObs("refreshes_of_present_entry", 10000)
	res.RequireObs("removals", 10000)
	res.RequireObs("recreations_after_expiry", 1000)
	res.RequireObs("expire_calls_removing_some_keeping_others", 1000)
	res.RequireObs("boundary_idle_exactly_T", 1000)
	res.RequireObs("boundary_idle_T_minus_1", 1000)
	res.RequireObs("pops", 1000)
}
