package snowflake_client

import (
	"fmt"
	"io/ioutil"
	"log"
	"net"
	"net/url"
	"sort"
	"strings"
	"sync"
	"sync/atomic"
	"testing"
	"time"

	"git.torproject.org/pluggable-transports/snowflake.git/v2/common/turbotunnel"
	"git.torproject.org/pluggable-transports/snowflake.git/v2/common/verifhook"
	"git.torproject.org/pluggable-transports/snowflake.git/v2/common/websocketconn"
	"github.com/gorilla/websocket"
	"verif/vlib"
)

var e2eSizesQuick = []uint64{0, 1, 24, 25, 1000, 65535, 65536, 200000, 300000, 500000, 1 << 20, 1 << 20, 1 << 20, 3 << 19, 700000, 2 << 20}
var e2eSizesThorough = []uint64{0, 1, 24, 1000, 65536, 1 << 20, 3 << 20, 1 << 20, 8 << 20, 16 << 20}

// cutScale is the typical distance between cuts, set per session so that the
// planned faults are consumed before the transfer ends.
func genCut(r *vlib.Rand, scale int64) int64 {
	switch r.Intn(6) {
	case 0:
		return int64(r.Intn(400)) // inside the WebSocket handshake, the token or the ClientID
	case 1:
		return int64(200 + r.Intn(120)) // around token/ClientID/first length prefix
	default:
		return 300 + int64(r.Intn(int(2*scale)+1))
	}
}

func genCarriers(r *vlib.Rand, n int, mix string, total uint64) []carrierPlan {
	scale := int64(total)/int64(n+1) + 200
	var out []carrierPlan
	for i := 0; i < n; i++ {
		p := carrierPlan{CutUp: -1, CutDown: -1}
		k := r.Intn(100)
		switch {
		case k < 55:
			p.Kind = "cut"
			if r.Bool() {
				p.CutUp = genCut(r, scale)
			} else {
				p.CutDown = genCut(r, scale)
			}
			if r.Chance(1, 5) {
				p.CutUp, p.CutDown = genCut(r, scale), genCut(r, scale)
			}
		case k < 65:
			p.Kind = "stall"
			p.CutUp = genCut(r, scale)
			p.StallMs = r.Range(50, 600)
		case k < 72:
			p.Kind = "cut"
			p.DelayMs = r.Range(1, 15)
			p.CutDown = genCut(r, scale)
		case k < 84:
			p.Kind = "refuse"
		case k < 92:
			p.Kind = "double"
			p.CutUp = 1000 + genCut(r, scale)
		default:
			p.Kind = "cut"
			p.GapMs = r.Range(20, 400)
			p.CutUp = genCut(r, scale)
		}
		if mix == "c05" && p.Kind == "refuse" && r.Bool() {
			p.Kind = "double"
			p.CutDown = 1000 + genCut(r, scale)
		}
		out = append(out, p)
		if p.Kind == "double" {
			// the second carrier of the pair
			out = append(out, carrierPlan{Kind: "double", CutUp: -1, CutDown: 1000 + genCut(r, scale)})
		}
	}
	return out
}

func refSanitize(ip string) string {
	if ip == "\x00absent" || ip == "" {
		return ""
	}
	p := net.ParseIP(ip)
	if p == nil || p.IsUnspecified() {
		return ""
	}
	if v4 := p.To4(); v4 != nil {
		return v4.String() + ":1"
	}
	return "[" + p.String() + "]:1"
}

type e2eRun struct {
	res   *vlib.Result
	srv   *e2eServer
	plans []*sessionPlan
	fwds  []*forwarder
	mcs   []*modelClient
}

var sharedPrefixSeq uint32

var handoffMu sync.Mutex
var handoffCount = map[turbotunnel.ClientID]int{}

// ---- server-side attribution monitor (hook server.turbotunnel.packet-in) -----------
//
// Every packet the server takes out of a carrier is queued under the ClientID
// that carrier presented. A model session sends KCP packets of exactly one
// conversation, so a packet of another conversation queued under a session's
// ClientID came from somebody else's carrier: the binding the property is
// about, observed where it is made (KCP itself would drop such a packet, so
// the streams alone do not show it).
var (
	attribMu     sync.Mutex
	attribPlan   = map[turbotunnel.ClientID]*sessionPlan{}
	attribRes    *vlib.Result
	attribSeen   int64
	attribWrong  int64
	attribReport int
)

func attribRegister(id turbotunnel.ClientID, p *sessionPlan) {
	attribMu.Lock()
	attribPlan[id] = p
	attribMu.Unlock()
}

func installAttributionHook(res *vlib.Result) {
	attribMu.Lock()
	attribRes = res
	attribMu.Unlock()
	verifhook.Set("server.turbotunnel.packet-in", func(args ...interface{}) {
		if len(args) < 2 {
			return
		}
		id, ok1 := args[0].(turbotunnel.ClientID)
		pkt, ok2 := args[1].([]byte)
		if !ok1 || !ok2 || len(pkt) < 24 {
			return
		}
		conv := uint32(pkt[0]) | uint32(pkt[1])<<8 | uint32(pkt[2])<<16 | uint32(pkt[3])<<24
		attribMu.Lock()
		plan := attribPlan[id]
		r := attribRes
		attribMu.Unlock()
		if plan == nil || r == nil {
			return
		}
		plan.mu.Lock()
		known, own := plan.convKnown, plan.conv
		plan.mu.Unlock()
		if !known {
			return
		}
		atomic.AddInt64(&attribSeen, 1)
		if conv == own {
			return
		}
		atomic.AddInt64(&attribWrong, 1)
		attribMu.Lock()
		attribReport++
		n := attribReport
		var whose string
		for oid, op := range attribPlan {
			op.mu.Lock()
			if op.convKnown && op.conv == conv {
				whose = fmt.Sprintf(" - the conversation of session %x (ClientID %x)", op.Tag, oid[:])
			}
			op.mu.Unlock()
		}
		attribMu.Unlock()
		if n <= 5 {
			r.Violate("c05:upstream-packet-queued-under-another-client-id", fmt.Sprintf("a %d-byte packet of KCP conversation %08x was queued under ClientID %x, whose session %x uses conversation %08x%s", len(pkt), conv, id[:], plan.Tag, own, whose), map[string]interface{}{"case": fmt.Sprintf("sess/%x", plan.Tag), "client_id": fmt.Sprintf("%x", id[:]), "packet_conversation": fmt.Sprintf("%08x", conv), "session_conversation": fmt.Sprintf("%08x", own)})
		}
	})
}

func installHandoffHook() {
	verifhook.Set("server.turbotunnel.after-addr-set", func(args ...interface{}) {
		if len(args) < 1 {
			return
		}
		if id, ok := args[0].(turbotunnel.ClientID); ok {
			handoffMu.Lock()
			handoffCount[id]++
			handoffMu.Unlock()
		}
	})
}

func runSessions(res *vlib.Result, plans []*sessionPlan, deadline time.Duration, parallel int) *e2eRun {
	log.SetOutput(ioutil.Discard)
	installHandoffHook()
	srv, err := startE2EServer(res)
	if err != nil {
		res.Inconcl("cannot start server library: " + err.Error())
		return nil
	}
	return runSessionsOn(res, srv, plans, deadline, parallel)
}

func runSessionsOn(res *vlib.Result, srv *e2eServer, plans []*sessionPlan, deadline time.Duration, parallel int) *e2eRun {
	run := &e2eRun{res: res, srv: srv, plans: plans}
	installAttributionHook(res)
	defer func() {
		res.ObsMax("upstream_packets_checked_at_the_servers_attribution_point", atomic.LoadInt64(&attribSeen))
	}()
	var wg sync.WaitGroup
	sem := make(chan struct{}, parallel)
	var mu sync.Mutex
	for _, p := range plans {
		srv.register(p)
	}
	for _, p := range plans {
		wg.Add(1)
		go func(p *sessionPlan) {
			defer wg.Done()
			sem <- struct{}{}
			defer func() { <-sem }()
			f, err := newForwarder(srv.addr, p, res)
			if err != nil {
				res.Inconcl("forwarder: " + err.Error())
				return
			}
			m := &modelClient{plan: p, f: f, res: res, clientID: turbotunnel.NewClientID(), stop: make(chan struct{})}
			// ClientIDs are 8 arbitrary bytes: a third of the sessions of a run share their
			// first 4..7 bytes and differ only in the rest (the tag makes the rest unique)
			if p.Tag%3 == 0 {
				k := 4 + int(p.Tag>>8)%3 // 4..6 equal leading bytes
				for i := 0; i < k; i++ {
					m.clientID[i] = 0xC5
				}
				for i := k; i < 6; i++ {
					m.clientID[i] = byte(p.Tag >> (8 * uint(i)))
				}
				seq := atomic.AddUint32(&sharedPrefixSeq, 1) // unique by construction
				m.clientID[6], m.clientID[7] = byte(seq>>8), byte(seq)
				res.Obs("sessions_with_client_ids_sharing_a_prefix", 1)
			}
			id := m.clientID
			attribRegister(id, p)
			m.handoff = func(n int) {
				waitFor(20*time.Second, func() bool {
					handoffMu.Lock()
					defer handoffMu.Unlock()
					return handoffCount[id] >= n
				})
			}
			mu.Lock()
			run.fwds = append(run.fwds, f)
			run.mcs = append(run.mcs, m)
			mu.Unlock()
			res.CaseLog(fmt.Sprintf("sess/%x", p.Tag))
			m.run(deadline)
			// a session that did not finish: decide between stalled and slow
			p.mu.Lock()
			done := p.clientDone
			cerr := p.clientErr
			p.mu.Unlock()
			if !done && cerr == "watchdog" {
				res.Inconcl(fmt.Sprintf("session %x not finished within %v", p.Tag, deadline))
			}
			f.close()
		}(p)
	}
	wg.Wait()
	// let the bridge sides finish
	waitFor(20*time.Second, func() bool {
		for _, p := range plans {
			p.mu.Lock()
			d := p.serverDone || p.accepts == 0
			p.mu.Unlock()
			if !d {
				return false
			}
		}
		return true
	})
	return run
}

// judge applies the per-session oracles that are common to C01 / C05 / C18b.
func (run *e2eRun) judge(prop string) {
	res := run.res
	for _, p := range run.plans {
		snap := planSnapshot(p)
		snap["case"] = fmt.Sprintf("sess/%s", snap["tag"])
		p.mu.Lock()
		accepts, done, sdone := p.accepts, p.clientDone, p.serverDone
		up, down := p.upVerified, p.downVerified
		cerr := p.clientErr
		used := p.carriersUsed
		own := p.ownPkts
		p.mu.Unlock()
		res.Eval(1)
		res.Obs("sessions", 1)
		res.Obs("carriers_used", int64(used))
		res.Obs("bytes_verified_up", int64(up))
		res.Obs("bytes_verified_down", int64(down))
		res.Obs("downstream_packets_checked_by_tap", int64(own))
		if accepts > 1 {
			res.Violate("c05:session-accepted-more-than-once", fmt.Sprintf("session %s surfaced as %d accepted connections", snap["tag"], accepts), snap)
		}
		if done {
			res.Obs("sessions_completed", 1)
			if used >= 3 {
				res.Distinct(fmt.Sprintf("sess/%s", snap["tag"]))
			}
			if accepts != 1 {
				res.Violate("c05:session-not-accepted-exactly-once", fmt.Sprintf("completed session %s has %d accepts", snap["tag"], accepts), snap)
			}
			if up != p.LenUp || down != p.LenDown {
				res.Violate("stream:short:completed-session", fmt.Sprintf("session %s completed but verified %d/%d up, %d/%d down", snap["tag"], up, p.LenUp, down, p.LenDown), snap)
			}
			if !sdone {
				res.Inconcl(fmt.Sprintf("session %s: bridge side did not see the end of the stream", snap["tag"]))
			}
		} else if cerr != "" && cerr != "watchdog" && cerr != "stalled" {
			// the stream ended early: allowed ("stalls or ends") only when the carrier supply
			// ended; in this harness the supply never ends, so an early end is an error surfaced
			// to the session by the transport
			res.Violate("c01:session-ended-although-carriers-available", fmt.Sprintf("session %s ended with %q after %d carriers (%d/%d up, %d/%d down verified)", snap["tag"], cerr, used, up, p.LenUp, down, p.LenDown), snap)
		}
		if prop == "C18" || prop == "C05" || prop == "C01" {
			run.judgeAddr(p, snap)
		}
		res.Sample(2, snap)
	}
	run.srv.mu.Lock()
	ua := run.srv.unknownAccepts
	run.srv.mu.Unlock()
	if ua > 0 {
		res.Violate("c05:accept-without-session", fmt.Sprintf("%d accepted connections ended before a stream header (no model client opened them)", ua), map[string]interface{}{"case": "server"})
	}
}

func (run *e2eRun) judgeAddr(p *sessionPlan, snap map[string]interface{}) {
	res := run.res
	own := map[string]bool{}
	for _, ip := range p.IPs {
		own[refSanitize(ip)] = true
	}
	if len(p.IPs) == 0 {
		own[""] = true
	}
	p.mu.Lock()
	addrs := append([]string{}, p.remoteAddrs...)
	p.mu.Unlock()
	for _, a := range addrs {
		res.Obs("remote_addrs_checked", 1)
		if a == "" {
			res.Obs("remote_addrs_empty", 1)
		}
		if !own[a] {
			// whose is it?
			whose := "nobody's"
			for _, q := range run.plans {
				if q == p {
					continue
				}
				for _, ip := range q.IPs {
					if refSanitize(ip) == a && a != "" {
						whose = fmt.Sprintf("session %x's", q.Tag)
					}
				}
			}
			sig := "c18:remote-addr-not-from-own-carriers"
			if strings.HasPrefix(whose, "session") {
				sig = "c18:remote-addr-of-another-session"
			} else if a == "" {
				sig = "c18:remote-addr-empty-although-all-carriers-valid"
			}
			res.Violate(sig, fmt.Sprintf("session %x: RemoteAddr() = %q (%s); its carriers presented %v", p.Tag, a, whose, p.IPs), snap)
		}
		if len(p.Carriers) > 0 && (p.Carriers[0].Kind == "handoff" || p.Carriers[0].Kind == "handoff-overlap") && len(p.IPs) >= 2 {
			if p.Carriers[0].Kind == "handoff-overlap" {
				res.Obs("handoff_overlap_sessions_checked", 1)
			}
			res.Obs("handoff_sessions_checked", 1)
			want := refSanitize(p.IPs[1])
			if a != want {
				res.Violate("c18:remote-addr-not-most-recent-carrier", fmt.Sprintf("session %x: first carrier presented %q and left before any packet, second presented %q and established the session; RemoteAddr() = %q, expected %q", p.Tag, p.IPs[0], p.IPs[1], a, want), snap)
			}
		}
	}
}

func sessionIPs(r *vlib.Rand, k int, hostile bool) []string {
	n := r.Range(1, 4)
	var ips []string
	for j := 0; j < n; j++ {
		if r.Chance(1, 3) {
			ips = append(ips, fmt.Sprintf("2001:db8:%x::%x", k, j+1))
		} else {
			ips = append(ips, fmt.Sprintf("10.%d.%d.%d", (k>>8)&255, k&255, j+1))
		}
	}
	if hostile {
		ips[r.Intn(len(ips))] = r.PickString([]string{"0.0.0.0", "::", "garbage", "1.2.3", "fe80::1%eth0", "1.2.3.4:80", "\x00absent", "[::1]", " 1.2.3.4"})
	}
	return ips
}

// ---- C01 layer 1 ----------------------------------------------------------------

func TestVerifC01L1(t *testing.T) {
	res := vlib.NewResult("C01", "inpkg-c01-l1", "model clients (real RedialPacketConn + encapsulation + KCP/smux as newSession configures them) against the real server library through a forwarder executing PRNG per-carrier fault plans (cut after k upstream / m downstream raw bytes incl. inside handshake, token, ClientID and length prefixes; half-open stalls; delays; refused connects; two carriers at once; reconnect gaps); both ends write self-describing streams (sizes 0..MiB) and verify every byte against its own read offset; non-trivial = completed session that used >= 3 carriers, distinct by session tag")
	defer res.Finish()
	root := vlib.NewRand(vlib.Seed()).Split("c01l1")
	shard, nshards := vlib.Shard()
	nSess := vlib.Scale(64, 400)
	nFaults := vlib.Scale(40, 100)
	sizes := e2eSizesQuick
	if vlib.Thorough() {
		sizes = e2eSizesThorough
	}
	var plans []*sessionPlan
	for i := 0; i < nSess; i++ {
		if i%nshards != shard {
			continue
		}
		r := root.SplitN("sess", i)
		p := &sessionPlan{Tag: r.Uint64() | 1, LenUp: sizes[r.Intn(len(sizes))], LenDown: sizes[r.Intn(len(sizes))]}
		p.Carriers = genCarriers(r, nFaults, "c01", p.LenUp+p.LenDown)
		p.IPs = sessionIPs(r, i, false)
		plans = append(plans, p)
	}
	// downloads whose bridge side closes as soon as it has written everything, and whose
	// carrier dies (cut, or half-open then cut, then a gap or refused connects) somewhere in
	// the tail: whatever was in flight must still arrive through the carriers that follow
	nBC := vlib.Scale(16, 80)
	for i := 0; i < nBC; i++ {
		if i%nshards != shard {
			continue
		}
		r := root.SplitN("bridge-closes", i)
		p := &sessionPlan{Tag: r.Uint64() | 1, LenUp: 0, LenDown: uint64(r.Range(60<<10, 700<<10)), BridgeCloses: true}
		for k := r.Intn(3); k > 0; k-- {
			p.Carriers = append(p.Carriers, carrierPlan{Kind: "cut", CutUp: genCut(r, 300), CutDown: -1})
		}
		tail := carrierPlan{Kind: "cut", CutUp: -1, CutDown: int64(p.LenDown) * int64(r.Range(20, 100)) / 100}
		if r.Chance(1, 3) {
			tail.Kind, tail.StallMs = "stall", r.Range(100, 1500)
		}
		p.Carriers = append(p.Carriers, tail)
		switch r.Intn(3) {
		case 0:
			p.Carriers = append(p.Carriers, carrierPlan{Kind: "refuse"}, carrierPlan{Kind: "refuse"})
		case 1:
			p.Carriers = append(p.Carriers, carrierPlan{Kind: "cut", GapMs: r.Range(200, 1500), CutUp: -1, CutDown: int64(r.Range(2000, 40000))})
		}
		p.IPs = sessionIPs(r, i, false)
		plans = append(plans, p)
	}
	run := runSessions(res, plans, time.Duration(vlib.Scale(480, 1200))*time.Second, 32)
	if run == nil {
		res.Require(false, "server started")
		return
	}
	run.judge("C01")
	res.RequireObs("bridge_side_closed_right_after_writing", int64(nBC/nshards/2))
	faults := res.GetObs("faults_cut_up") + res.GetObs("faults_cut_down") + res.GetObs("faults_stall") + res.GetObs("faults_refuse")
	res.Obs("faults_total", faults)
	res.RequireObs("faults_total", int64(len(plans)*nFaults/14))
	res.RequireObs("sessions_completed", int64(len(plans)*7/10))
	res.RequireObs("faults_cut_up", 1)
	res.RequireObs("faults_cut_down", 1)
	res.RequireObs("faults_stall", 1)
	res.RequireObs("faults_refuse", 1)
	res.RequireObs("double_carriers", 1)
	res.RequireObs("bytes_verified_up", 1<<20)
	res.RequireObs("bytes_verified_down", 1<<20)
}

// ---- C05 ------------------------------------------------------------------------

// tokenless carriers: must be closed by the server and never produce a connection
func tokenlessCarriers(res *vlib.Result, srv *e2eServer, r *vlib.Rand, n int) {
	var wg sync.WaitGroup
	for i := 0; i < n; i++ {
		wg.Add(1)
		go func(i int) {
			defer wg.Done()
			rr := r.SplitN("tokenless", i)
			kind := rr.PickString([]string{"wrong-token", "wrong-token-then-valid-looking-session", "short", "token-then-partial-id", "token-then-partial-id", "token-then-partial-id", "token-then-partial-id", "empty"})
			u := url.URL{Scheme: "ws", Host: srv.addr, Path: "/", RawQuery: "client_ip=192.0.2.99"}
			ws, _, err := websocket.DefaultDialer.Dial(u.String(), nil)
			if err != nil {
				res.Inconcl("tokenless dial: " + err.Error())
				return
			}
			conn := websocketconn.New(ws)
			defer conn.Close()
			res.Obs("tokenless_carriers_"+kind, 1)
			expectClose := false
			switch kind {
			case "wrong-token":
				b := rr.Bytes(8)
				b[0] ^= 0xff
				conn.Write(b)
				conn.Write(rr.Bytes(64))
				expectClose = true
			case "wrong-token-then-valid-looking-session":
				// first 8 bytes are not the token; then something that would be a ClientID and a KCP-looking packet
				tok := turbotunnel.Token
				tok[7] ^= 1
				conn.Write(tok[:])
				conn.Write(rr.Bytes(8))
				pkt := append([]byte{0x80 | 24}, rr.Bytes(24)...)
				conn.Write(pkt)
				expectClose = true
			case "short":
				conn.Write(turbotunnel.Token[:rr.Range(1, 7)])
			case "token-then-partial-id":
				conn.Write(turbotunnel.Token[:])
				conn.Write(rr.Bytes(rr.Range(0, 7)))
			case "empty":
			}
			if expectClose {
				// the server must close: our read ends (error or EOF), never data
				done := make(chan string, 1)
				go func() {
					buf := make([]byte, 256)
					n, err := conn.Read(buf)
					if n > 0 {
						done <- fmt.Sprintf("server sent %d bytes to a carrier without the token", n)
					} else if err != nil {
						done <- ""
					}
				}()
				select {
				case msg := <-done:
					if msg != "" {
						res.Violate("c05:tokenless-carrier-served", msg, map[string]interface{}{"case": fmt.Sprintf("tokenless/%d", i), "kind": kind})
					} else {
						res.Obs("tokenless_carriers_closed_by_server", 1)
					}
				case <-time.After(30 * time.Second):
					res.Violate("c05:tokenless-carrier-not-closed", "a carrier whose first 8 bytes are not the token was still open after 30 s", map[string]interface{}{"case": fmt.Sprintf("tokenless/%d", i), "kind": kind})
				}
			} else {
				time.Sleep(time.Duration(rr.Range(10, 200)) * time.Millisecond)
			}
		}(i)
	}
	wg.Wait()
}

func TestVerifC05(t *testing.T) {
	res := vlib.NewResult("C05", "inpkg-c05", "many concurrent model-client sessions against one real server library instance, each moving between carriers (sequential reconnects after cuts at any raw byte offset, two carriers at once, gaps) with per-carrier client_ip values; self-describing streams at both ends, a packet tap asserting every downstream packet carries the session's own KCP conversation id, accept count per session, token-less carriers; non-trivial = completed session that used >= 3 carriers, distinct by tag")
	defer res.Finish()
	root := vlib.NewRand(vlib.Seed()).Split("c05")
	shard, nshards := vlib.Shard()
	nSess := vlib.Scale(32, 256)
	var plans []*sessionPlan
	for i := 0; i < nSess; i++ {
		if i%nshards != shard {
			continue
		}
		r := root.SplitN("sess", i)
		p := &sessionPlan{Tag: r.Uint64() | 1, LenUp: uint64(r.Range(1000, 400000)), LenDown: uint64(r.Range(1000, 400000))}
		p.Carriers = genCarriers(r, vlib.Scale(12, 30), "c05", p.LenUp+p.LenDown)
		if vlib.Thorough() && i%16 == 0 {
			// an idle gap inside the one-minute retention
			p.Carriers = append(p.Carriers[:3], append([]carrierPlan{{Kind: "cut", CutUp: 3000, CutDown: -1}, {Kind: "cut", GapMs: r.Range(30000, 50000), CutUp: -1, CutDown: 50000}}, p.Carriers[3:]...)...)
			res.Obs("long_gap_sessions", 1)
		}
		p.IPs = sessionIPs(r, i, i%5 == 0)
		plans = append(plans, p)
	}
	// two carriers at once of which the NEWER one ends first: the session goes on over
	// the older one alone, and everything must still arrive through it
	for i := 0; i < vlib.Scale(6, 36); i++ {
		if i%nshards != shard {
			continue
		}
		r := root.SplitN("older-survives", i)
		p := &sessionPlan{Tag: r.Uint64() | 1, LenUp: uint64(r.Range(100000, 300000)), LenDown: uint64(r.Range(100000, 400000))}
		for k := r.Intn(3); k > 0; k-- {
			p.Carriers = append(p.Carriers, carrierPlan{Kind: "cut", CutUp: genCut(r, 2000), CutDown: -1})
		}
		p.Carriers = append(p.Carriers, carrierPlan{Kind: "double-older-survives", CutUp: -1, CutDown: -1}, carrierPlan{Kind: "cut", CutUp: int64(r.Range(1500, 30000)), CutDown: -1})
		p.IPs = sessionIPs(r, i, false)
		plans = append(plans, p)
	}
	var twg sync.WaitGroup
	run := (*e2eRun)(nil)
	started := make(chan *e2eServer, 1)
	twg.Add(1)
	go func() {
		defer twg.Done()
		srv := <-started
		if srv != nil {
			// in waves, while the sessions go from carrier to carrier: whatever a refused
			// carrier leaves behind in the server is met by the carriers that follow
			for w := 0; w < 4; w++ {
				tokenlessCarriers(res, srv, root.SplitN("tl", w), vlib.Scale(60, 300))
				time.Sleep(time.Duration(1+2*w) * time.Second)
			}
		}
	}()
	// carriers that present a ClientID of their own and then stay attached, silent,
	// for longer than the server's retention (1 min + sweep): nothing is ever
	// addressed to their ClientID, so every byte that reaches them belongs to
	// somebody else. A second wave of brand-new sessions starts after that time.
	lingerSrv := make(chan *e2eServer, 1)
	lingerDone := make(chan []*lingerer, 1)
	go func() {
		srv := <-lingerSrv
		if srv == nil {
			lingerDone <- nil
			return
		}
		lingerDone <- openLingerers(res, srv, root.Split("linger"), 6)
	}()
	started2 := make(chan *e2eServer, 2)
	go func() {
		srv := <-started2
		started <- srv
		lingerSrv <- srv
	}()
	tLinger := time.Now()
	// all sessions at once
	log.SetOutput(ioutil.Discard)
	run = runSessionsNotify(res, plans, time.Duration(vlib.Scale(480, 1200))*time.Second, len(plans), started2)
	twg.Wait()
	if run == nil {
		res.Require(false, "server started")
		return
	}
	run.judge("C05")
	if ls := <-lingerDone; ls != nil {
		// 60 s idle + at most 30 s until the next sweep, plus slack
		if d := 100*time.Second - time.Since(tLinger); d > 0 {
			time.Sleep(d)
		}
		var plans2 []*sessionPlan
		for i := 0; i < 12; i++ {
			r := root.SplitN("wave2", i)
			p := &sessionPlan{Tag: r.Uint64() | 1, LenUp: uint64(r.Range(1000, 60000)), LenDown: uint64(r.Range(20000, 200000))}
			p.IPs = sessionIPs(r, i, false)
			plans2 = append(plans2, p)
		}
		run2 := runSessionsOn(res, run.srv, plans2, 240*time.Second, len(plans2))
		if run2 != nil {
			run2.judge("C05")
		}
		for _, l := range ls {
			n, closed := l.stop()
			res.Obs("lingering_carriers", 1)
			if closed {
				res.Obs("lingering_carriers_closed_by_server_after_expiry", 1)
			}
			if n > 0 {
				res.Violate("c05:packet-written-to-carrier-of-another-client-id:lingering-carrier", fmt.Sprintf("a carrier that presented ClientID %x, sent nothing else and stayed attached for %v received %d bytes: no session of that ClientID exists, the bytes were addressed to another client", l.id, time.Since(tLinger).Round(time.Second), n), map[string]interface{}{"case": fmt.Sprintf("linger/%x", l.id), "client_id": fmt.Sprintf("%x", l.id), "bytes_received": n, "first_bytes": fmt.Sprintf("%x", l.first)})
			}
		}
	}
	res.RequireObs("sessions_completed", int64(len(plans)*7/10))
	res.RequireObs("carriers_used", int64(len(plans)*6))
	res.RequireObs("double_carriers", 1)
	res.RequireObs("downstream_packets_checked_by_tap", 1000)
	res.RequireObs("lingering_carriers", 4)
	res.RequireObs("tokenless_carriers_closed_by_server", 5)
	res.RequireObs("tokenless_carriers_short", 1)
	res.RequireObs("tokenless_carriers_token-then-partial-id", 1)
}

// lingerer: a carrier with a ClientID of its own that only listens.
type lingerer struct {
	id     turbotunnel.ClientID
	conn   net.Conn
	mu     sync.Mutex
	n      int
	first  []byte
	closed bool
	done   chan struct{}
}

func (l *lingerer) stop() (int, bool) {
	l.mu.Lock()
	closed := l.closed
	l.mu.Unlock()
	l.conn.Close()
	<-l.done
	l.mu.Lock()
	defer l.mu.Unlock()
	return l.n, closed
}

func openLingerers(res *vlib.Result, srv *e2eServer, r *vlib.Rand, k int) []*lingerer {
	var out []*lingerer
	for i := 0; i < k; i++ {
		u := url.URL{Scheme: "ws", Host: srv.addr, Path: "/", RawQuery: fmt.Sprintf("client_ip=198.51.100.%d", 10+i)}
		ws, _, err := websocket.DefaultDialer.Dial(u.String(), nil)
		if err != nil {
			res.Inconcl("lingering carrier dial: " + err.Error())
			continue
		}
		conn := websocketconn.New(ws)
		l := &lingerer{conn: conn, done: make(chan struct{})}
		copy(l.id[:], r.SplitN("id", i).Bytes(8))
		conn.Write(turbotunnel.Token[:])
		conn.Write(l.id[:])
		go func() {
			defer close(l.done)
			buf := make([]byte, 4096)
			for {
				n, err := conn.Read(buf)
				l.mu.Lock()
				if n > 0 {
					if len(l.first) < 64 {
						l.first = append(l.first, buf[:n]...)
					}
					l.n += n
				}
				if err != nil {
					l.closed = true
					l.mu.Unlock()
					return
				}
				l.mu.Unlock()
			}
		}()
		out = append(out, l)
	}
	return out
}

func runSessionsNotify(res *vlib.Result, plans []*sessionPlan, deadline time.Duration, parallel int, started chan *e2eServer) *e2eRun {
	// runSessions starts its own server; to run the token-less carriers against
	// the same instance we need its address: wrap by starting here
	installHandoffHook()
	srv, err := startE2EServer(res)
	if err != nil {
		started <- nil
		res.Inconcl("cannot start server library: " + err.Error())
		return nil
	}
	started <- srv
	return runSessionsOn(res, srv, plans, deadline, parallel)
}

// ---- C18(b) ----------------------------------------------------------------------

func TestVerifC18b(t *testing.T) {
	res := vlib.NewResult("C18", "inpkg-c18b", "concurrent model-client sessions whose carriers present per-session distinct client_ip values (valid IPv4/IPv6, unspecified, garbage, zoned, with port, absent); RemoteAddr() of every accepted connection must be the sanitised address of one of that session's own carriers, and — in hand-off sessions ordered with the server hook — of the most recent carrier before establishment; non-trivial = accepted connection of a session with >= 2 distinct addresses, distinct by tag")
	defer res.Finish()
	root := vlib.NewRand(vlib.Seed()).Split("c18b")
	nSess := vlib.Scale(48, 400)
	var plans []*sessionPlan
	for i := 0; i < nSess; i++ {
		r := root.SplitN("sess", i)
		p := &sessionPlan{Tag: r.Uint64() | 1, LenUp: uint64(r.Range(100, 20000)), LenDown: uint64(r.Range(100, 20000))}
		p.IPs = sessionIPs(r, i, i%3 == 0)
		switch i % 3 {
		case 0:
			p.Carriers = genCarriers(r, 4, "c05", p.LenUp+p.LenDown)
		case 1:
			// hand-off: first carrier only presents the ClientID, second establishes
			for len(p.IPs) < 2 {
				p.IPs = append(p.IPs, fmt.Sprintf("10.200.%d.%d", i&255, len(p.IPs)+1))
			}
			if r.Chance(1, 3) {
				p.IPs[1] = r.PickString([]string{"0.0.0.0", "garbage", "\x00absent", "::"})
			}
			p.Carriers = []carrierPlan{{Kind: "handoff", CutUp: -1, CutDown: -1}}
			if i%2 == 0 {
				// the earlier carrier is still attached when the later one presents
				// the ClientID and leaves before the session is established
				p.Carriers[0].Kind = "handoff-overlap"
			}
		default:
			p.Carriers = nil
		}
		plans = append(plans, p)
	}
	run := runSessions(res, plans, 180*time.Second, len(plans))
	if run == nil {
		res.Require(false, "server started")
		return
	}
	run.judge("C18")
	for _, p := range plans {
		if len(p.IPs) >= 2 {
			res.Distinct(fmt.Sprintf("sess/%x", p.Tag))
		}
	}
	res.RequireObs("remote_addrs_checked", int64(len(plans)*7/10))
	res.RequireObs("handoff_sessions_checked", int64(len(plans)/4))
	res.RequireObs("handoff_overlap_sessions_checked", int64(len(plans)/10))
	res.RequireObs("remote_addrs_empty", 1)
}

var _ = sort.Strings
